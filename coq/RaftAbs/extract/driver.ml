(* driver for the abstract raft protocol acceptor.
   Reads the flattened raftdrv traces written by harness/cmd/raftabs on stdin, replays them against
   the extracted checker (Model.apply_label / Model.match_node) and prints one line per trace:
     <tid>\tOK\t<counters>        or      <tid>\tREJECT\t<event seq>\t<event>\t<reason>\t<counters>
   plus a final SUMMARY line.

   Trusted part of this file: parsing a recorded node into Model.obs (field renaming), calling
   match_node after every synchronisation point and reporting its verdict, and feeding every
   applied entry to L_Apply.  The PLANNING of abstract steps (function sync) is untrusted: whatever
   labels it proposes are checked by the extracted apply_label, whose soundness is proved in
   AcceptorSound.v; a bad plan can only lead to a rejection. *)
open Model
open Vio

(* ---------- small helpers ---------- *)
let nat_cache : (int, nat) Hashtbl.t = Hashtbl.create 1024
let rec mknat i = if i <= 0 then O else
  match Hashtbl.find_opt nat_cache i with
  | Some n -> n
  | None -> let n = S (mknat (i - 1)) in Hashtbl.replace nat_cache i n; n
let nat i = mknat i
let int_ n = int_of_nat n
let ios s = try int_of_string s with _ -> failwith ("bad int " ^ s)
let ids s = if s = "-" || s = "" then [] else List.map ios (split_on ',' s)

let parse_entry (s : string) : entry =
  match split_on ':' s with
  | [t; k; p; x] -> { eterm = nat (ios t); ekind = n_of_int (ios k); edata = n_of_hex p; eaux = n_of_int (ios x) }
  | _ -> failwith ("bad entry " ^ s)
let parse_log s = if s = "-" || s = "" then [] else List.map parse_entry (split_on ',' s)

let role_of_int = function 0 -> Follower | 1 -> Candidate | 2 -> Leader | 3 -> PreCandidate | _ -> failwith "role"
let role_str = function Follower -> "F" | Candidate -> "C" | Leader -> "L" | PreCandidate -> "P"

(* a recorded node *)
type nrec = { id : int; alive : bool; o : obs; sendpending : bool; appapplied : int;
              term : int; votei : int; commiti : int; snapii : int; voters_i : int list; learners_i : int list;
              nents : int }

type msg = { mfrom : int; mtype : int; mto : int; mterm : int; mindex : int; mreject : bool;
             mcommit : int; mlogterm : int; mmatch : int; msnapi : int; msnapt : int; ments : entry list;
             mrawindex : int }

exception Reject of string
exception Skip of string
exception Torn

(* ---------- per-trace state ---------- *)
let st : gstate ref = ref (init { voters = []; learners = [] } [])
let last : (int, nrec) Hashtbl.t = Hashtbl.create 16
let dirty : (int, bool) Hashtbl.t = Hashtbl.create 16
let pend_app : (int, (int * int * entry) Queue.t) Hashtbl.t = Hashtbl.create 16   (* index, kind, entry *)

(* counters *)
let n_labels = ref 0 and n_matches = ref 0 and n_events = ref 0 and n_applied = ref 0
let n_fixed = ref 0 and n_overlap_ok = ref 0
let label_hist : (string, int) Hashtbl.t = Hashtbl.create 32
let skipped : (string, int) Hashtbl.t = Hashtbl.create 8
let bump h k = Hashtbl.replace h k (1 + (try Hashtbl.find h k with Not_found -> 0))

let label_name = function
  | L_UpdateTerm _ -> "UpdateTerm" | L_StepDown _ -> "StepDown" | L_PreCampaign _ -> "PreCampaign"
  | L_Campaign _ -> "Campaign" | L_ExposeCamp _ -> "ExposeCamp" | L_SetVote _ -> "SetVote" | L_Grant _ -> "Grant"
  | L_BecomeLeader _ -> "BecomeLeader" | L_LeaderAppend _ -> "LeaderAppend" | L_Replicate _ -> "Replicate"
  | L_Ack _ -> "Ack" | L_AdvanceCommit _ -> "AdvanceCommit" | L_LearnCommit _ -> "LearnCommit"
  | L_Compact _ -> "Compact" | L_ChangeConf _ -> "ChangeConf" | L_Restart _ -> "Restart" | L_Apply _ -> "Apply"
  | L_ApplySnap _ -> "ApplySnap" | L_AppRestart _ -> "AppRestart"

let label_str l =
  let p = Printf.sprintf in
  match l with
  | L_UpdateTerm (j, t) -> p "UpdateTerm(%d,%d)" (int_ j) (int_ t)
  | L_StepDown j -> p "StepDown(%d)" (int_ j)
  | L_PreCampaign j -> p "PreCampaign(%d)" (int_ j)
  | L_Campaign j -> p "Campaign(%d)" (int_ j)
  | L_ExposeCamp j -> p "ExposeCamp(%d)" (int_ j)
  | L_SetVote (j, c) -> p "SetVote(%d,%d)" (int_ j) (int_ c)
  | L_Grant (j, c) -> p "Grant(%d,%d)" (int_ j) (int_ c)
  | L_BecomeLeader j -> p "BecomeLeader(%d)" (int_ j)
  | L_LeaderAppend (j, e) -> p "LeaderAppend(%d,term %d)" (int_ j) (int_ e.eterm)
  | L_Replicate (j, k) -> p "Replicate(%d,len %d)" (int_ j) (int_ k)
  | L_Ack (j, k) -> p "Ack(%d,%d)" (int_ j) (int_ k)
  | L_AdvanceCommit (j, k) -> p "AdvanceCommit(%d,%d)" (int_ j) (int_ k)
  | L_LearnCommit (j, k) -> p "LearnCommit(%d,%d)" (int_ j) (int_ k)
  | L_Compact (j, k) -> p "Compact(%d,%d)" (int_ j) (int_ k)
  | L_ChangeConf (j, _) -> p "ChangeConf(%d)" (int_ j)
  | L_Restart (j, cu, _, lt, len, sn, cm, _) -> p "Restart(%d,term %d,lastterm %d,len %d,snap %d,commit %d)" (int_ j) (int_ cu) (int_ lt) (int_ len) (int_ sn) (int_ cm)
  | L_Apply (j, es) -> p "Apply(%d,%d entries)" (int_ j) (List.length es)
  | L_ApplySnap (j, a) -> p "ApplySnap(%d,%d)" (int_ j) (int_ a)
  | L_AppRestart (j, a) -> p "AppRestart(%d,%d)" (int_ j) (int_ a)

let debug = (try Sys.getenv "RAFTABS_DEBUG" <> "" with Not_found -> false)
let cur_seq = ref 0
(* term of the leader that last extended the committed log (for the leader-completeness monitor) *)
let gc_term = ref 0
let trace_lc_ok = ref true and n_lc_checks = ref 0 and n_lc_failed = ref 0 and n_lc_traces = ref 0
let prefix_of_log (g : entry list) (l : entry list) =
  let rec go a b = match a, b with
    | [], _ -> true
    | x :: r, y :: r' -> x = y && go r r'
    | _ :: _, [] -> false in
  go g l

let try_label l =
  (* monitors: direct checks of the conclusions of the safety theorems on the abstract state, so that
     they are also enforced on traces whose configurations do not meet the Overlap hypothesis *)
  (match l with
   | L_BecomeLeader c ->
     let n = node_of !st c in
     if role_eqb n.rl Candidate then
     (match term_leader !st n.cur with
      | Some c' when c' <> c ->
        raise (Reject (Printf.sprintf "two leaders in term %d: node %d was elected, now node %d wins with the votes of a majority of its own configuration (the two configurations have disjoint majorities)" (int_ n.cur) (int_ c') (int_ c)))
      | _ -> ());
     (* leader completeness: a leader of a term above the one in which the committed log was last
        extended holds the whole committed log *)
     if role_eqb n.rl Candidate && int_ n.cur > !gc_term && not (prefix_of_log (gcommit_of !st) n.log) then
       raise (Reject (Printf.sprintf "node %d wins term %d without the committed log (%d entries committed up to term %d; its log has %d entries)"
                        (int_ c) (int_ n.cur) (int_ (gcommit_len !st)) !gc_term (List.length n.log)))
   | _ -> ());
  let glen0 = (match l with L_AdvanceCommit _ -> int_ (gcommit_len !st) | _ -> 0) in
  let lc_ok = (match l with L_BecomeLeader _ | L_AdvanceCommit _ -> lc_label_ok !st l | _ -> true) in
  match apply_label !st l with
  | Some s' -> st := s'; incr n_labels; bump label_hist (label_name l);
    (* the step conditions of LCChecked.v (leader completeness without the overlap hypothesis) *)
    (match l with L_BecomeLeader _ | L_AdvanceCommit _ -> incr n_lc_checks; if not lc_ok then (trace_lc_ok := false; incr n_lc_failed;
       if debug then Printf.printf "  [%d] LC step condition false at %s\n" !cur_seq (label_str l)) | _ -> ());
    (match l with
     | L_AdvanceCommit (c, _) -> if int_ (gcommit_len !st) > glen0 then gc_term := max !gc_term (int_ (node_of !st c).cur)
     | _ -> ());
    if debug then Printf.printf "  [%d] %s\n" !cur_seq (label_str l); true
  | None -> if debug then Printf.printf "  [%d] REFUSED %s\n" !cur_seq (label_str l); false
let do_ l =
  if not (try_label l) then raise (Reject ("rule refused: " ^ label_str l))

let node j = node_of !st (nat j)

let node_str (n : nstate) =
  Printf.sprintf "term=%d vote=%s role=%s len=%d lastterm=%d snapi=%d commit=%d voters=[%s] learners=[%s]"
    (int_ n.cur) (match n.vote with None -> "-" | Some v -> string_of_int (int_ v)) (role_str n.rl)
    (List.length n.log) (int_ (lastterm n.log)) (int_ n.snapi) (int_ n.commit)
    (String.concat "," (List.map (fun x -> string_of_int (int_ x)) n.conf.voters))
    (String.concat "," (List.map (fun x -> string_of_int (int_ x)) n.conf.learners))
let nrec_str (r : nrec) =
  Printf.sprintf "term=%d vote=%d role=%s len=%d lastterm=%d snapi=%d commit=%d voters=[%s] learners=[%s]"
    r.term r.votei (role_str r.o.o_role) (r.snapii + r.nents) (int_ (obs_lastterm r.o)) r.snapii r.commiti
    (String.concat "," (List.map string_of_int r.voters_i)) (String.concat "," (List.map string_of_int r.learners_i))

(* observed entry at 1-based index i (None if compacted or beyond) *)
let obs_entry (r : nrec) i =
  let k = i - r.snapii - 1 in
  if k < 0 || k >= r.nents then None else Some (List.nth r.o.o_ents k)

(* ---------- planning (untrusted) ---------- *)

let match_prefix_ok (n : nstate) (r : nrec) = List.length n.log >= r.snapii

let same_conf (n : nstate) (r : nrec) =
  List.map int_ n.conf.voters = r.voters_i && List.map int_ n.conf.learners = r.learners_i

(* the leader's own work in its term: append what the recorded log has beyond the abstract log,
   then advance the commit index *)
let leader_work j (r : nrec) =
  let n = node j in
  if n.rl = Leader then begin
    let t = int_ n.cur in
    let len = ref (List.length n.log) in
    let continue = ref true in
    while !continue do
      match obs_entry r (!len + 1) with
      | Some e when int_ e.eterm = t -> do_ (L_LeaderAppend (nat j, e)); incr len
      | _ -> continue := false
    done;
    let n = node j in
    if r.commiti > int_ n.commit then begin
      (* the leader counts itself: it vouches for its own log up to the index it commits (not beyond:
         later entries may not be persisted yet) *)
      let k = min r.commiti (List.length n.log) in
      if not (ackedb !st n.cur (nat k) (nat j)) then ignore (try_label (L_Ack (nat j, nat k)));
      (* (apply_label refuses a commit that conflicts with the committed log; whether this node's new
         commit index is explained at all is decided at the end of the synchronisation) *)
      ignore (try_label (L_AdvanceCommit (nat j, nat r.commiti)))
    end
  end

type action = A_Repl | A_Grant of int | A_Ack of int | A_Expose

let action_str = function
  | A_Repl -> "adopt the recorded log from a leader log" | A_Grant c -> Printf.sprintf "grant vote to %d" c
  | A_Ack k -> Printf.sprintf "acknowledge %d" k | A_Expose -> "expose campaign"

let sync_core j (r : nrec) (msgs : msg list) ~(conf_first : bool) =
  let nj = nat j in
  let align_conf () =
    if not (same_conf (node j) r) then
      do_ (L_ChangeConf (nj, { voters = List.map nat r.voters_i; learners = List.map nat r.learners_i })) in
  (* campaigns and majorities are counted over the prs of the moment: the configuration may have
     changed before or after the raft step of this Ready (conf changes are fed back in its wait sub-step) *)
  if conf_first then align_conf ();
  (* work of a leader in the term it already had *)
  if (node j).rl = Leader && int_ (node j).cur <= r.term then leader_work j r;
  let cur0 = int_ (node j).cur in
  if r.term < cur0 then raise (Reject (Printf.sprintf "term went backwards without a restart: %d -> %d" cur0 r.term));
  let relevant m = m.mfrom = j && ((m.mtype = 5) || (m.mtype = 6 && not m.mreject) || (m.mtype = 4 && not m.mreject && m.mindex > 0)) in
  (* MsgApp / MsgHeartbeat of a term the node no longer leads when the Ready goes out: it led that term inside the step *)
  let led_terms = List.sort_uniq compare
      (List.filter_map (fun m -> if m.mfrom = j && (m.mtype = 3 || m.mtype = 8) then Some m.mterm else None) msgs) in
  let app_msgs = List.filter (fun m -> m.mfrom = j && m.mtype = 3) msgs in
  let msgs = List.filter relevant msgs in
  (* what the node can have adopted from a leader: the recorded log without the entries of its own
     term at the end if it campaigned for that term (those it appended itself as leader) *)
  let own_suffix =
    if r.votei = j && r.o.o_role = Leader then begin
      let rec cnt l = match l with (e : entry) :: rest when int_ e.eterm = r.term -> 1 + cnt rest | _ -> 0 in
      cnt (List.rev r.o.o_ents)
    end else 0 in
  let pre_n = r.nents - own_suffix in
  let o_pre = if own_suffix = 0 then r.o else
      { r.o with o_ents = (let rec take k l = if k <= 0 then [] else match l with [] -> [] | x :: t -> x :: take (k - 1) t in take pre_n r.o.o_ents) } in
  let log_differs () =
    let n = node j in
    if own_suffix > 0 && List.length n.log >= r.snapii + pre_n then
      (* the abstract log may already hold (part of) the own-term suffix *)
      not (match_log n r.o) && not (match_log { n with log = (let rec take k l = if k <= 0 then [] else match l with [] -> [] | x :: t -> x :: take (k - 1) t in take (r.snapii + pre_n) n.log) } o_pre)
    else not (match_log n o_pre) in
  (* a candidate whose recorded log continues with entries of its own term has led that term *)
  let transient_leader () =
    let n = node j in
    if n.rl = Candidate then
      match obs_entry r (List.length n.log + 1) with
      | Some e when e.eterm = n.cur && match_prefix_ok n r ->
        if not (camp_exposed !st n.cur nj) then do_ (L_ExposeCamp nj);
        do_ (L_BecomeLeader nj);
        leader_work j r
      | _ -> () in
  (* a candidate whose Ready carries MsgApp/MsgHeartbeat of its own term has led that term inside the
     step, even if its recorded log no longer shows the entries (a newer leader replaced them later in
     the same step): elect it and append what its MsgApp carried *)
  let transient_leader_msgs u =
    let n = node j in
    if n.rl = Candidate && int_ n.cur = u && List.mem u led_terms then begin
      if not (camp_exposed !st n.cur nj) then do_ (L_ExposeCamp nj);
      do_ (L_BecomeLeader nj);
      let sorted = List.sort (fun a b -> compare a.mindex b.mindex) (List.filter (fun m -> m.mterm = u) app_msgs) in
      List.iter (fun m ->
          List.iteri (fun i (e : entry) ->
              let pos = m.mindex + i + 1 in
              if pos = List.length (node j).log + 1 && int_ e.eterm = u then do_ (L_LeaderAppend (nj, e))) m.ments) sorted
    end in
  (* the term in which the recorded log was adopted from a leader *)
  let repl_level () =
    if not (log_differs ()) then None
    else begin
      let found = ref None in
      let w = ref cur0 in
      while !found = None && !w <= r.term do
        if obs_in_tlog !st (nat !w) o_pre then found := Some !w;
        incr w
      done;
      !found
    end in
  let rl0 = repl_level () in
  let levels = List.sort_uniq compare
      (List.filter (fun u -> u >= cur0)
         (r.term :: (match rl0 with Some w -> [w] | None -> []) @ led_terms @ List.map (fun m -> m.mterm) msgs)) in
  List.iter (fun u ->
      (* move to term u *)
      let n = node j in
      if int_ n.cur < u then begin
        transient_leader ();
        let n = node j in
        let camp = List.exists (fun m -> m.mtype = 5 && m.mterm = u) msgs || (u = r.term && r.votei = j) in
        if camp then begin
          if int_ n.cur < u - 1 then do_ (L_UpdateTerm (nj, nat (u - 1)));
          if (node j).rl = Leader then do_ (L_StepDown nj);
          do_ (L_Campaign nj)
        end else do_ (L_UpdateTerm (nj, nat u))
      end;
      (* exposures of the campaign first if the node went on to lead this term inside the step *)
      if List.mem u led_terms && not (u = r.term && r.o.o_role = Leader) then begin
        let n = node j in
        if n.rl = Candidate && int_ n.cur = u then begin
          (* the recorded log may still hold its own entries: the usual path; otherwise from the messages *)
          transient_leader ();
          transient_leader_msgs u
        end
      end;
      (* what happened in this term, in an order the rules accept *)
      let acts = ref [] in
      List.iter (fun m ->
          if m.mterm = u then
            match m.mtype with
            | 5 -> acts := A_Expose :: !acts
            | 6 -> acts := A_Grant m.mto :: !acts
            | 4 -> acts := A_Ack m.mindex :: !acts
            | _ -> ()) msgs;
      if (rl0 = Some u || (u = r.term && rl0 = None && repl_level () = Some u))
         && not (u = r.term && r.o.o_role = Leader && (node j).rl = Candidate) then acts := A_Repl :: !acts;
      let try_action a =
        match a with
        | A_Expose ->
          let n = node j in
          if n.rl = Candidate && not (camp_exposed !st n.cur nj) then try_label (L_ExposeCamp nj) else true
        | A_Grant c ->
          let n = node j in
          let saved = !st in
          if n.vote = None then ignore (try_label (L_SetVote (nj, nat c)));
          if try_label (L_Grant (nj, nat c)) then true else (st := saved; false)
        | A_Ack k ->
          if ackedb !st (nat u) (nat k) nj then true else try_label (L_Ack (nj, nat k))
        | A_Repl ->
          if not (log_differs ()) then true
          else begin
            let saved = !st in
            let n = node j in
            if n.rl = Candidate || n.rl = Leader then ignore (try_label (L_StepDown nj));
            if try_label (L_Replicate (nj, nat (r.snapii + pre_n))) then true else (st := saved; false)
          end in
      (* search for an order of the actions that the rules accept (votes first, then the log, then
         acknowledgments: the usual order; other orders by backtracking) *)
      let prio = function A_Grant _ -> 0 | A_Expose -> 1 | A_Repl -> 2 | A_Ack _ -> 3 in
      let acts0 = List.stable_sort (fun a b -> compare (prio a) (prio b)) !acts in
      let refused = ref None in
      let rec solve acts =
        match acts with
        | [] -> true
        | _ ->
          List.exists (fun a ->
              let saved = !st and saved_n = !n_labels in
              if try_action a && solve (List.filter (fun b -> b != a) acts) then true
              else begin
                if !refused = None then refused := Some a;
                st := saved; n_labels := saved_n; false
              end) acts in
      if not (solve acts0) then
        raise (Reject (Printf.sprintf "in term %d the rules refuse: %s" u
                         (match !refused with Some a -> action_str a | None -> "?"))))
    levels;
  (* now in the recorded term: vote, role, leader work, commit, snapshot index *)
  let n = node j in
  if r.votei <> 0 && n.vote = None then do_ (L_SetVote (nj, nat r.votei));
  if r.o.o_role <> Leader then transient_leader ();
  let n = node j in
  (match r.o.o_role with
   | Leader ->
     if n.rl <> Leader then begin
       if n.rl <> Candidate then raise (Reject "became leader without being a candidate");
       if not (camp_exposed !st n.cur nj) then do_ (L_ExposeCamp nj);
       if not (try_label (L_BecomeLeader nj)) then begin
         (* the votes may have been counted over the configuration the node has now *)
         align_conf (); do_ (L_BecomeLeader nj)
       end
     end;
     leader_work j r
   | Candidate ->
     if n.rl <> Candidate then raise (Reject "candidate without a campaign step")
   | PreCandidate ->
     if n.rl <> PreCandidate then begin
       if n.rl <> Follower then do_ (L_StepDown nj);
       if not (try_label (L_PreCampaign nj)) then begin align_conf (); do_ (L_PreCampaign nj) end
     end
   | Follower ->
     if n.rl <> Follower then do_ (L_StepDown nj));
  let n = node j in
  if r.commiti > int_ n.commit then begin
    if not (n.rl = Leader && try_label (L_AdvanceCommit (nj, nat r.commiti))) then begin
      if n.rl = Leader then begin
        align_conf ();
        if not (try_label (L_AdvanceCommit (nj, nat r.commiti))) && not (try_label (L_LearnCommit (nj, nat r.commiti))) then
          if r.commiti <= List.length (node j).log && not (commit_comparable !st nj (nat r.commiti)) then
            raise (Reject (Printf.sprintf "leader %d commits up to %d a prefix that conflicts with the log already committed" j r.commiti))
          else
          raise (Reject (Printf.sprintf "leader %d advanced its commit index to %d: no majority of the voters of its configuration has acknowledged that index in term %d (or the entry is not of its term), and the prefix is not committed otherwise" j r.commiti r.term))
      end else if not (try_label (L_LearnCommit (nj, nat r.commiti))) then
        raise (Reject (Printf.sprintf "node %d advanced its commit index to %d, but that prefix of its log is not committed (rule refused: LearnCommit)" j r.commiti))
    end
  end;
  let n = node j in
  if int_ n.snapi <> r.snapii then do_ (L_Compact (nj, nat r.snapii));
  align_conf ()

let sync j r msgs =
  let saved = !st and saved_n = !n_labels in
  try sync_core j r msgs ~conf_first:false
  with Reject why1 ->
    if same_conf (node_of saved (nat j)) r then raise (Reject why1)
    else begin
      st := saved; n_labels := saved_n;
      try sync_core j r msgs ~conf_first:true
      with Reject why2 -> raise (Reject (why2 ^ " (with the old configuration: " ^ why1 ^ ")"))
    end

(* a node in the torn-persist state is not compared with an abstract node, but what it regards as
   committed must still be the committed log (direct check) *)
let rec ldrop k l = if k <= 0 then l else match l with [] -> [] | _ :: r -> ldrop (k - 1) r
let check_torn_commit j (r : nrec) =
  let g = gcommit_of !st in
  if r.commiti > List.length g then
    raise (Reject (Printf.sprintf "node %d (restarted with entries above its persisted term) has commit index %d beyond the committed log (%d)" j r.commiti (List.length g)));
  let rec go i ents gs =
    if i > r.commiti then () else
      match ents, gs with
      | e :: er, x :: gr -> if e <> x then raise (Reject (Printf.sprintf "node %d (restarted with entries above its persisted term) holds at committed index %d an entry that differs from the committed one" j i)) else go (i + 1) er gr
      | _, _ -> () in
  go (r.snapii + 1) r.o.o_ents (ldrop r.snapii g)

(* The StartNode bootstrap entries (one term-1 conf-change entry per initial peer, generated locally
   and identically by every member, indexes 1..boot_len) are not part of the abstract log: the glue
   checks that every recorded log starts with them and hands the rest, with indexes shifted by
   boot_len, to the abstract side.  A member that restarts before having persisted them is then
   simply a node with an empty abstract log. *)
let boot_len = ref 0
let boot_log : entry list ref = ref []

let rec drop k l = if k <= 0 then l else match l with [] -> [] | _ :: r -> drop (k - 1) r
let rec take k l = if k <= 0 then [] else match l with [] -> [] | x :: r -> x :: take (k - 1) r
let shift i = if i > !boot_len then i - !boot_len else 0

(* configuration monitor (direct check): the recorded prs / learnerPrs of a node must be the result of
   applying, in log order, the conf-change entries of a prefix of: bootstrap entries ++ its committed log
   (addNode / addLearner / removeNode are only called for committed entries, in order; a restart takes the
   configuration of its snapshot, which is such a prefix too) *)
let conf_apply (v, l) (e : entry) =
  if int_of_n e.ekind <> 2 then (v, l) else begin
    let x = int_of_n e.eaux in
    match int_of_n e.edata with
    | 0 -> if List.mem x v then (v, l) else (List.sort compare (x :: v), List.filter (fun y -> y <> x) l)
    | 3 -> if List.mem x v || List.mem x l then (v, l) else (v, List.sort compare (x :: l))
    | 1 -> (List.filter (fun y -> y <> x) v, List.filter (fun y -> y <> x) l)
    | _ -> (v, l)
  end
let n_conf_checks = ref 0
let check_conf j (r : nrec) =
  incr n_conf_checks;
  let n = node j in
  let rec take k l = if k <= 0 then [] else match l with [] -> [] | x :: t -> x :: take (k - 1) t in
  let es = !boot_log @ take (int_ n.commit) n.log in
  let target = (r.voters_i, r.learners_i) in
  let rec go c es = c = target || (match es with [] -> false | e :: rest -> go (conf_apply c e) rest) in
  (* a node started in join mode as a learner knows itself as learner from the start (StartNode isLearner) *)
  if not (go ([], []) es || go ([], [j]) es) then
    raise (Reject (Printf.sprintf "node %d: its configuration voters=[%s] learners=[%s] is not what the conf-change entries of any prefix of its committed log produce"
                     j (String.concat "," (List.map string_of_int r.voters_i)) (String.concat "," (List.map string_of_int r.learners_i))))

let check_match j (r : nrec) what =
  incr n_matches;
  if not (match_node (node j) r.o) then
    raise (Reject (Printf.sprintf "%s: abstract node %d {%s} does not match the recorded node {%s}"
                     what j (node_str (node j)) (nrec_str r)));
  check_conf j r

let why_str = function
  | 1 -> "a vote it cast is not covered by its persisted term/vote"
  | 2 -> "it campaigned in a term above its persisted term"
  | 3 -> "it led a term above its persisted term"
  | 4 -> "a prefix it acknowledged is gone from its log although no later leader was elected without it"
  | 5 -> "its log is not a prefix of the log of the leader of its last term"
  | 6 -> "its log holds entries of a term above its persisted term"
  | 7 -> "its commit index is beyond its log"
  | 8 -> "what it regards as committed is not committed"
  | _ -> "?"

let precrash : (int, nrec) Hashtbl.t = Hashtbl.create 16
(* nodes that came back from a crash between the entry write and the hard-state write of one Ready
   (wal.Save writes the entries first): their log holds entries of a term above their persisted term, a
   state outside the abstract protocol.  Abstractly such a node stays down until it has caught up with
   that term (then it restarts in the recorded state); what it does in between is not compared, and
   if it lets anything out (a vote, an acknowledgment, a campaign) the rest of the trace is skipped. *)
let torn : (int, bool) Hashtbl.t = Hashtbl.create 16

let restart j (r : nrec) =
  let cf = { voters = List.map nat r.voters_i; learners = List.map nat r.learners_i } in
  let lt = obs_lastterm r.o and len = nat (r.snapii + r.nents) in
  let vo = vote_of_nat (nat r.votei) in
  let l = L_Restart (nat j, nat r.term, vo, lt, len, nat r.snapii, nat r.commiti, cf) in
  let why () =
    let n' = restart_node !st (nat r.term) vo lt len (nat r.snapii) (nat r.commiti) cf in
    if List.length n'.log <> r.snapii + r.nents then "its log is longer than the log of the leader of its last term"
    else why_str (int_ (promises_why !st (nat j) n')) in
  if not (try_label l) then begin
    let why1 = why () in
    let before = node_str (node j) in
    (* the step that was in flight when the node crashed did happen in memory and may have reached the
       disk in part: replay it (nothing of it was sent, so it adds no promise) and try again *)
    let saved = !st and saved_n = !n_labels in
    let ok =
      (match Hashtbl.find_opt precrash j with
       | Some p -> (try sync j p []; try_label l with Reject _ -> false)
       | None -> false) in
    if not ok then begin
      st := saved; n_labels := saved_n;
      if int_ (obs_lastterm r.o) > r.term then raise Torn;
      raise (Reject (Printf.sprintf "restart of node %d refused (%s): before {%s} after {%s}" j why1 before (nrec_str r)))
    end
  end;
  Hashtbl.remove precrash j

(* applied entries: checked against the committed log as soon as it covers them *)
let flush_applied () =
  Hashtbl.iter (fun j q ->
      let continue = ref true in
      while !continue && not (Queue.is_empty q) do
        let (i, k, e) = Queue.peek q in
        let a = int_ (app_of !st (nat j)) in
        if i > int_ (gcommit_len !st) then continue := false
        else begin
          if k = 9 then begin
            if i >= a then (if not (try_label (L_ApplySnap (nat j, nat i))) then raise (Reject (Printf.sprintf "snapshot applied at node %d up to %d refused" j i)))
          end else begin
            if i <> a + 1 then raise (Reject (Printf.sprintf "node %d applied index %d after %d (gap or repeat)" j i a));
            if not (try_label (L_Apply (nat j, [e]))) then
              raise (Reject (Printf.sprintf "node %d applied at index %d an entry (term %d) that differs from the committed one" j i (int_ e.eterm)))
          end;
          incr n_applied;
          ignore (Queue.pop q)
        end
      done) pend_app

(* what leaves a node must be justified by its state and the history (direct checks on the messages) *)
let n_msgs_checked = ref 0
let check_message j (m : msg) =
  let t = nat m.mterm in
  match m.mtype with
  | 3 ->
    incr n_msgs_checked;
    if not (msgapp_ok !st t (nat m.mindex) (nat m.mlogterm) m.ments) then
      raise (Reject (Printf.sprintf "MsgApp %d->%d term %d prev (%d, term %d) with %d entries is not a slice of the log of the leader of that term"
                       j m.mto m.mterm m.mrawindex m.mlogterm (List.length m.ments)));
    let n = node j in
    if int_ n.cur = m.mterm && m.mcommit > int_ n.commit then
      raise (Reject (Printf.sprintf "MsgApp %d->%d carries commit %d above the sender's commit index %d" j m.mto m.mcommit (int_ n.commit)))
  | 8 ->
    incr n_msgs_checked;
    (* the recorded Match is the one after the step: comparable only if the sender still leads that term *)
    let n = node j in
    if n.rl = Leader && int_ n.cur = m.mterm && m.mmatch >= 0 && m.mcommit > m.mmatch then
      raise (Reject (Printf.sprintf "MsgHeartbeat %d->%d carries commit %d above the leader's Match %d for that follower" j m.mto m.mcommit m.mmatch));
    if not (heartbeat_ok !st t (nat m.mto) (nat m.mcommit)) then
      raise (Reject (Printf.sprintf "MsgHeartbeat %d->%d term %d carries commit %d: the follower has not acknowledged that index in this term (or it is not committed)" j m.mto m.mterm m.mcommit))
  | 7 ->
    incr n_msgs_checked;
    if not (snapshot_ok !st t (nat m.msnapi) (nat m.msnapt)) then
      raise (Reject (Printf.sprintf "MsgSnap %d->%d at index %d term %d is not a committed prefix" j m.mto m.msnapi m.msnapt))
  | _ -> ()

(* ---------- event loop ---------- *)

type ev = { seq : int; kind : string; en : int; subs : string list; ex : int;
            mutable nraw : (int * bool * int * int * int * int * int * int * int list * int list * bool * int * entry list) list; mutable nlines : nrec list; mutable slines : msg list; mutable alines : (int * int * int * entry) list;
            mutable panic : string option }

let parse_n_raw f =
  match f with
  | [id; alive; term; vote; role; commit; first; dummy; voters; learners; sp; appl; log] ->
    (ios id, alive = "1", ios term, ios vote, ios role, ios commit, ios first, ios dummy, ids voters, ids learners, sp = "1", ios appl, parse_log log)
  | _ -> failwith "bad N line"

let mk_nrec (id, alive, term, vote, role, commit, first, dummy, voters, learners, sp, appl, ents) : nrec =
  let snap_real = if first > 0 then first - 1 else 0 in
  (* the recorded entries with index <= boot_len must be the bootstrap entries *)
  let nboot = max 0 (min (!boot_len - snap_real) (List.length ents)) in
  if alive && nboot > 0 && take nboot ents <> take nboot (drop snap_real !boot_log) then
    raise (Reject (Printf.sprintf "node %d: the bootstrap prefix of its log differs from the StartNode entries" id));
  let ents = drop (max 0 (!boot_len - snap_real)) ents in
  let snapii = shift snap_real in
  let dummy = if snapii = 0 then 0 else dummy in
  let commit = shift commit in
  let o = { o_term = nat term; o_vote = nat vote; o_role = role_of_int role; o_snapi = nat snapii;
            o_snapt = nat dummy; o_ents = ents; o_commit = nat commit;
            o_voters = List.map nat voters; o_learners = List.map nat learners } in
  { id; alive; o; sendpending = sp; appapplied = shift appl;
    term; votei = vote; commiti = commit; snapii; voters_i = voters; learners_i = learners;
    nents = List.length ents }

let init_trace (e : ev) =
  (match List.filter (fun (_, alive, _, _, _, _, _, _, _, _, _, _, _) -> alive) e.nraw with
   | (_, _, _, _, _, _, _, _, _, _, _, _, ents) :: _ -> boot_log := ents; boot_len := List.length ents
   | [] -> raise (Reject "no live node in the initial record"));
  e.nlines <- List.map mk_nrec e.nraw;
  Hashtbl.reset last; Hashtbl.reset dirty; Hashtbl.reset pend_app; Hashtbl.reset precrash; Hashtbl.reset torn; gc_term := 0; trace_lc_ok := true;
  let alive = List.filter (fun r -> r.alive) e.nlines in
  (match alive with
   | [] -> raise (Reject "no live node in the initial record")
   | r0 :: _ ->
     let cf = { voters = List.map nat r0.voters_i; learners = List.map nat r0.learners_i } in
     if not (List.for_all (fun (en : entry) -> int_ en.eterm = 1) !boot_log) then raise (Reject "bootstrap entries not of term 1");
     if not (init_okb cf []) then raise (Reject "initial configuration not of the StartNode form");
     st := init cf []);
  List.iter (fun r -> Hashtbl.replace last r.id r; if r.alive then check_match r.id r "init") e.nlines

let handle_event (e : ev) =
  incr n_events; cur_seq := e.seq;
  (match e.panic with Some p -> raise (Reject ("implementation panic: " ^ p)) | None -> ());
  if e.kind = "init" then init_trace e
  else begin
    e.nlines <- List.map mk_nrec e.nraw;
    let touched = ref [] in
    List.iter (fun r ->
        let prev = Hashtbl.find_opt last r.id in
        Hashtbl.replace last r.id r;
        (match prev with
         | Some p when p.alive && not r.alive ->
           (* crash: what the volatile leader had already committed may have reached its application *)
           if Hashtbl.mem dirty r.id then begin
             Hashtbl.replace precrash r.id p;
             let has_pending = (match Hashtbl.find_opt pend_app r.id with Some q -> not (Queue.is_empty q) | None -> false) in
             if has_pending then
             (try (let n = node r.id in
                   if n.rl = Leader && int_ n.cur = p.term && p.o.o_role = Leader then leader_work r.id p)
              with Reject _ -> ());
             Hashtbl.remove dirty r.id
           end
         | _ -> ());
        if r.alive then touched := r.id :: !touched) e.nlines;
    List.iter (fun m -> if not (List.mem m.mfrom !touched) then touched := m.mfrom :: !touched) e.slines;
    List.iter (fun j ->
        match Hashtbl.find_opt last j with
        | Some r when r.alive ->
          if (e.kind = "restart" && j = e.en) || Hashtbl.mem torn j then begin
            let was_torn = Hashtbl.mem torn j in
            if was_torn && List.exists (fun m -> m.mfrom = j && (m.mtype = 5 || (m.mtype = 6 && not m.mreject) || (m.mtype = 4 && not m.mreject && m.mindex > 0))) e.slines then
              raise (Skip "torn_persist_restart: a node that restarted with entries of a term above its persisted term (crash between the entry write and the hard-state write of wal.Save) voted, acknowledged or campaigned before it caught up with that term; this state is outside the abstract protocol");
            if was_torn && (r.o.o_role = Candidate || r.o.o_role = Leader) then
              raise (Skip "torn_persist_restart: a node that restarted with entries of a term above its persisted term (crash between the entry write and the hard-state write of wal.Save) campaigned before it caught up with that term; this state is outside the abstract protocol");
            if e.kind = "restart" && j = e.en then begin
              let a = int_ (app_of !st (nat j)) in
              (match Hashtbl.find_opt pend_app j with Some q -> Queue.clear q | None -> ());
              if r.appapplied < a then do_ (L_AppRestart (nat j, nat r.appapplied))
            end;
            if was_torn && (r.o.o_role <> Follower || int_ (obs_lastterm r.o) > r.term) then begin
              bump skipped "torn_persist_node_observations";
              check_torn_commit j r
            end
            else begin
              (try restart j r; Hashtbl.remove torn j; check_match j r "restart";
                 if r.sendpending then Hashtbl.replace dirty j true
               with Torn -> Hashtbl.replace torn j true; bump skipped "torn_persist_node_observations")
            end
          end else if r.sendpending then Hashtbl.replace dirty j true
          else begin
            Hashtbl.remove dirty j;
            let msgs = List.filter (fun m -> m.mfrom = j) e.slines in
            if msgs <> [] || not (match_node (node j) r.o) then sync j r msgs;
            check_match j r e.kind;
            List.iter (check_message j) msgs
          end
        | _ -> ()) (List.rev !touched);
    List.iter (fun (j, i, k, en) ->
        let q = match Hashtbl.find_opt pend_app j with Some q -> q | None -> let q = Queue.create () in Hashtbl.replace pend_app j q; q in
        Queue.push (i, k, en) q) e.alines;
    flush_applied ()
  end

let end_trace () =
  (* every live node without an unsent Ready must coincide with its abstract counterpart *)
  Hashtbl.iter (fun j r -> if r.alive && not r.sendpending && not (Hashtbl.mem torn j) then check_match j r "end of trace") last;
  let left = Hashtbl.fold (fun _ q acc -> acc + Queue.length q) pend_app 0 in
  if left > 0 then bump skipped "applied_after_unsynced_commit_at_trace_end";
  (* the hypothesis of the membership-change theorems, evaluated on the voter lists this trace counted majorities over *)
  let nc = int_ (n_configs !st) in
  if nc <= 1 then incr n_fixed;
  if !trace_lc_ok then incr n_lc_traces else bump skipped "lc_step_condition_false(leader_completeness_theorem_of_LCChecked_not_applicable;checked_by_monitor)";
  if overlap_state !st then incr n_overlap_ok else bump skipped "overlap_hypothesis_not_met(leader_completeness_theorem_not_applicable;checked_by_monitor)"

let hist_str h =
  let l = Hashtbl.fold (fun k v acc -> (k, v) :: acc) h [] in
  String.concat "," (List.map (fun (k, v) -> Printf.sprintf "%s=%d" k v) (List.sort compare l))

let () =
  let cur_tid = ref "" and cur_ev : ev option ref = ref None and rejected = ref false in
  let n_traces = ref 0 and n_rej = ref 0 and n_skip = ref 0 in
  let ev_hist : (string, int) Hashtbl.t = Hashtbl.create 32 in
  let unchecked = ref 0 in
  let finish_event () =
    match !cur_ev with
    | None -> ()
    | Some e ->
      cur_ev := None;
      if !rejected then incr unchecked
      else begin
        bump ev_hist (if e.kind = "ready" then "ready:" ^ String.concat "+" e.subs else e.kind);
        try handle_event e with
        | Reject why ->
          rejected := true; incr n_rej;
          Printf.printf "%s\tREJECT\t%d\t%s n=%d %s\t%s\n" !cur_tid e.seq e.kind e.en (String.concat "," e.subs) why
        | Skip why ->
          rejected := true; incr n_skip; bump skipped (List.hd (split_on ':' why));
          Printf.printf "%s\tSKIP\t%d\t%s n=%d\t%s\n" !cur_tid e.seq e.kind e.en why
        | Failure why ->
          rejected := true; incr n_rej;
          Printf.printf "%s\tREJECT\t%d\t%s n=%d\tdriver failure: %s\n" !cur_tid e.seq e.kind e.en why
      end in
  read_lines stdin (fun line ->
      try match split_on '\t' line with
      | "T" :: tid :: _ -> cur_tid := tid; rejected := false; incr n_traces
      | "E" :: seq :: kind :: n :: subs :: x :: _ ->
        cur_ev := Some { seq = ios seq; kind; en = ios n; subs = (if subs = "-" then [] else split_on ',' subs); ex = ios x;
                         nraw = []; nlines = []; slines = []; alines = []; panic = None }
      | "N" :: f -> (match !cur_ev with Some e -> e.nraw <- e.nraw @ [parse_n_raw f] | None -> ())
      | "S" :: from :: ty :: to_ :: term :: index :: rej :: rest ->
        (match !cur_ev with
         | Some e ->
           let commit, logterm, mmatch, snapi, snapt, ents =
             (match rest with
              | c :: lt :: mm :: si :: st :: en :: _ -> ios c, ios lt, ios mm, ios si, ios st, parse_log en
              | _ -> 0, 0, -1, 0, 0, []) in
           let raw = ios index in
           (* entries with index <= boot_len are the bootstrap entries: not part of the abstract log *)
           let ents = if ios ty = 3 then drop (max 0 (!boot_len - raw)) ents else ents in
           e.slines <- e.slines @ [{ mfrom = ios from; mtype = ios ty; mto = ios to_; mterm = ios term; mindex = shift raw; mreject = (rej = "1");
                                     mcommit = shift commit; mlogterm = logterm; mmatch = (if mmatch < 0 then -1 else shift mmatch);
                                     msnapi = shift snapi; msnapt = snapt; ments = ents; mrawindex = raw }]
         | None -> ())
      | "A" :: node :: i :: t :: k :: p :: x :: _ ->
        (match !cur_ev with
         | Some e ->
           let ii = ios i in
           if ii > !boot_len || ios k = 9 then
             e.alines <- e.alines @ [(ios node, shift ii, ios k,
                                      { eterm = nat (ios t); ekind = n_of_int (ios k); edata = n_of_hex p; eaux = n_of_int (ios x) })]
         | None -> ())
      | "P" :: txt :: _ -> (match !cur_ev with Some e -> e.panic <- Some txt | None -> ())
      | "X" :: _ -> finish_event ()
      | "Z" :: _ ->
        if not !rejected then begin
          (try end_trace (); Printf.printf "%s\tOK\n" !cur_tid
           with Reject why -> incr n_rej; Printf.printf "%s\tREJECT\t-1\tend\t%s\n" !cur_tid why)
        end
      | _ -> ()
      with Failure why -> (if not !rejected then begin rejected := true; incr n_rej;
                             Printf.printf "%s\tREJECT\t-1\tinput\tmalformed trace line (%s)\n" !cur_tid why end));
  Printf.printf "SUMMARY\ttraces=%d\trejected=%d\tskipped_traces=%d\tevents=%d\tunchecked_events=%d\tabstract_steps=%d\tnode_matches=%d\tapplied_checked=%d\tmessages_checked=%d\tsingle_config_traces=%d\toverlap_ok_traces=%d\tlc_checked_traces=%d\tlc_step_checks=%d\tlc_step_checks_false=%d\tlabels:%s\tevents:%s\tskipped:%s\n"
    !n_traces !n_rej !n_skip !n_events !unchecked !n_labels !n_matches !n_applied !n_msgs_checked !n_fixed !n_overlap_ok !n_lc_traces !n_lc_checks !n_lc_failed (hist_str label_hist) (hist_str ev_hist) (hist_str skipped)
