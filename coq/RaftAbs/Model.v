(* RaftAbs/Model.v — the abstract raft protocol implemented by /repo/raft (etcd-raft lineage:
   pre-vote, check-quorum, learners, single-step membership change, snapshots), as a transition
   system over global states with history ("ghost") variables.  No proofs in this file.

   Go code abstracted (raft/raft.go unless noted):
     Step, term comparison ........................ UpdateTerm
     becomeFollower in the same term ............... StepDown
     becomePreCandidate ............................ PreCampaign
     campaign/becomeCandidate ...................... Campaign, and ExposeCamp once MsgVote leaves the node
     Step, MsgVote branch .......................... SetVote (r.Vote assigned), Grant (MsgVoteResp leaves the node)
     poll + becomeLeader ........................... BecomeLeader, then LeaderAppend for the no-op entry
     stepLeader MsgProp / appendEntry .............. LeaderAppend
     handleAppendEntries + raftLog.maybeAppend/findConflict, handleSnapshot/restore ... Replicate
     the successful MsgAppResp of a follower ....... Ack
     maybeCommit ................................... AdvanceCommit
     raftLog.commitTo (MsgApp/MsgHeartbeat/snapshot) LearnCommit
     storage compaction / snapshot index ........... Compact
     addNode/addLearner/removeNode/restoreNode ..... ChangeConf
     crash + RestartNode (node.go) ................. Restart
     application applying Ready.CommittedEntries ... Apply, AppRestart

   Abstraction choices (all make the abstract system MORE permissive than the code, so every
   implementation behaviour accepted by the checker in Acceptor.v is a behaviour of this system):
   * the log of a node is the full list of entries from index 1; a compacted prefix stays in the
     abstract log and [snapi] only remembers how much of it the implementation has dropped;
   * messages are not state: what a message can convey is a fact about the monotone history
     (a campaign that happened, a prefix of the log of the leader of a term, a globally committed
     prefix, a vote or an acknowledgment that was given), so rules refer to the history directly;
     loss, duplication, reordering and delay of messages are therefore all included;
   * pre-vote messages and check-quorum/lease only ever make the code refuse something the rules
     allow, so they need no rule;
   * a crash may lose any part of the local state that the node has not promised to keep
     (promises_kept): this is the persist-before-send obligation of the Ready contract;
   * the trace driver hands the logs to the abstract side WITHOUT the StartNode bootstrap entries
     (identical term-1 conf-change entries every member generates locally; the driver checks that
     every recorded log starts with them and shifts indexes), i.e. it uses init cf []; the general
     init cf log0 below keeps a committed bootstrap log inside the abstract state. *)
From Coq Require Import List Arith Bool NArith.
From ZV Require Import RaftAbs.ListFacts.
Import ListNotations.

(* ---------- entries and logs ---------- *)

Record entry := mkEntry { eterm : nat; ekind : N; edata : N; eaux : N }.

Definition entry_eqb (a b : entry) : bool :=
  (eterm a =? eterm b) && (ekind a =? ekind b)%N && (edata a =? edata b)%N && (eaux a =? eaux b)%N.

Fixpoint log_eqb (l1 l2 : list entry) : bool :=
  match l1, l2 with
  | [], [] => true
  | a :: r1, b :: r2 => entry_eqb a b && log_eqb r1 r2
  | _, _ => false
  end.

(* l1 is a prefix of l2 *)
Fixpoint prefixb (l1 l2 : list entry) : bool :=
  match l1, l2 with
  | [], _ => true
  | a :: r1, b :: r2 => entry_eqb a b && prefixb r1 r2
  | _ :: _, [] => false
  end.

(* term of the last entry; 0 for the empty log, as raftLog.lastTerm does *)
Definition lastterm (l : list entry) : nat := last (map eterm l) 0.

(* term of the entry at 1-based index k *)
Definition term_at (l : list entry) (k : nat) : option nat :=
  match k with 0 => None | S k' => option_map eterm (nth_error l k') end.

(* raftLog.isUpToDate: candidate log cl is at least as up to date as voter log vl *)
Definition uptodate (cl vl : list entry) : bool :=
  (lastterm vl <? lastterm cl) || ((lastterm cl =? lastterm vl) && (length vl <=? length cl)).

(* ---------- per-node state ---------- *)

Record config := mkConfig { voters : list nat; learners : list nat }.

Inductive role := Follower | PreCandidate | Candidate | Leader.

Definition role_eqb (a b : role) : bool :=
  match a, b with
  | Follower, Follower | PreCandidate, PreCandidate | Candidate, Candidate | Leader, Leader => true
  | _, _ => false
  end.

Record nstate := mkN {
  cur : nat;              (* raft.Term *)
  vote : option nat;      (* raft.Vote (None = 0) *)
  rl : role;              (* raft.state *)
  log : list entry;       (* entries 1..lastIndex (storage ++ unstable, compacted prefix kept) *)
  snapi : nat;            (* index of the implementation's snapshot: entries <= snapi are compacted *)
  commit : nat;           (* raftLog.committed *)
  conf : config           (* prs / learnerPrs *)
}.

Definition memb (x : nat) (l : list nat) : bool := existsb (Nat.eqb x) l.

(* raft.promotable: own id is a voter of the own configuration *)
Definition promotable (j : nat) (n : nstate) : bool := memb j (voters (conf n)).
Definition is_learner (j : nat) (n : nstate) : bool := memb j (learners (conf n)).

(* ---------- global state ---------- *)

Record gstate := mkG {
  nodes : nat -> nstate;
  camps : list (nat * nat * list entry);    (* (t, c, l): c asked for votes for term t when its log was l *)
  grants : list (nat * nat * nat);          (* (j, t, c): j cast its term-t vote for c *)
  leaders : list (nat * nat * list entry * list nat);
                                            (* (t, c, l, q): c won term t with log l on the votes of the nodes q *)
  tlogs : nat -> list entry;                (* the log of the leader of term t as far as it has grown *)
  acks : list (nat * nat * nat);            (* (j, t, k): j, in term t, held the first k entries of tlogs t *)
  gcommit : list entry;                     (* the longest prefix some leader has committed *)
  quorums : list (list nat);                (* every voter list a majority was counted over *)
  app : nat -> nat                          (* per node: how many entries its application has applied *)
}.

Definition upd {A} (f : nat -> A) (i : nat) (x : A) : nat -> A :=
  fun j => if Nat.eqb j i then x else f j.

Definition set_node (s : gstate) (j : nat) (n : nstate) : gstate :=
  mkG (upd (nodes s) j n) (camps s) (grants s) (leaders s) (tlogs s) (acks s) (gcommit s) (quorums s) (app s).

Definition triple_eqb (a b : nat * nat * nat) : bool :=
  let '(a1, a2, a3) := a in let '(b1, b2, b3) := b in (a1 =? b1) && (a2 =? b2) && (a3 =? b3).

(* j has cast its term-t vote for c *)
Definition grantedb (s : gstate) (t c j : nat) : bool := existsb (triple_eqb (j, t, c)) (grants s).

(* j has acknowledged, in term t, at least k entries *)
Definition ackedb (s : gstate) (t k j : nat) : bool :=
  existsb (fun a => let '(j', t', k') := a in (j' =? j) && (t' =? t) && (k <=? k')) (acks s).

Definition longer (l1 l2 : list entry) : list entry := if length l1 <? length l2 then l2 else l1.

Definition boot_term : nat := 1.

(* the elected leader of term w does not have the prefix p in the log it was elected with *)
Definition lacking (s : gstate) (p : list entry) (w : nat) : Prop :=
  exists c el q, In (w, c, el, q) (leaders s) /\ ~ prefix p el.

(* What a node has promised in the history and must still honour when it comes back from a crash
   with local state n (term, vote, log, commit read from its storage):
   - it has not voted, campaigned, led or acknowledged in a term above its term, and its vote in
     its term is the one it cast;
   - every prefix (of any length up to the acknowledged one) it acknowledged to the leader of term t
     is still in its log, unless the leader
     of a later term (not above the node's term) was elected without it and overwrote it;
   - its log is a prefix of the log of the leader of its last entry's term, which is not above its term;
   - what it regards as committed is globally committed. *)
Definition promises_kept (s : gstate) (j : nat) (n : nstate) : Prop :=
  (forall t c, In (j, t, c) (grants s) ->
      t < cur n \/ (t = cur n /\ vote n = Some c) \/ (t = boot_term /\ c = 0)) /\
  (forall u cl, In (u, j, cl) (camps s) -> u <= cur n) /\
  (forall t el q, In (t, j, el, q) (leaders s) -> t <= cur n) /\
  (forall t k', In (j, t, k') (acks s) ->
      t <= cur n /\
      forall k, k <= k' ->
      ((k <= length (log n) /\ prefix (firstn k (log n)) (tlogs s t)) \/
       exists w, t < w /\ w <= cur n /\ lacking s (firstn k (tlogs s t)) w)) /\
  prefix (log n) (tlogs s (lastterm (log n))) /\
  lastterm (log n) <= cur n /\
  commit n <= length (log n) /\
  prefix (firstn (commit n) (log n)) (gcommit s).

(* ---------- transitions ---------- *)

Inductive step : gstate -> gstate -> Prop :=
(* a message carried a higher term: Step's "m.Term > r.Term" branch *)
| St_UpdateTerm s j t :
    let n := nodes s j in
    cur n < t ->
    step s (set_node s j (mkN t None Follower (log n) (snapi n) (commit n) (conf n)))
(* becomeFollower in the same term (check-quorum failure, candidate hearing from the leader, rejections) *)
| St_StepDown s j :
    let n := nodes s j in
    step s (set_node s j (mkN (cur n) (vote n) Follower (log n) (snapi n) (commit n) (conf n)))
(* becomePreCandidate: no durable effect *)
| St_PreCampaign s j :
    let n := nodes s j in
    promotable j n = true -> rl n = Follower ->
    step s (set_node s j (mkN (cur n) (vote n) PreCandidate (log n) (snapi n) (commit n) (conf n)))
(* becomeCandidate: term+1, vote for self (timeout, won pre-vote, MsgTimeoutNow) *)
| St_Campaign s c :
    let n := nodes s c in
    promotable c n = true -> rl n <> Leader -> 1 <= cur n ->
    step s (set_node s c (mkN (S (cur n)) (Some c) Candidate (log n) (snapi n) (commit n) (conf n)))
(* the candidate's MsgVote leaves the node (or it counts its own vote): the campaign and the
   self-vote become part of the history *)
| St_ExposeCamp s c :
    let n := nodes s c in
    rl n = Candidate -> vote n = Some c ->
    step s (mkG (nodes s) ((cur n, c, log n) :: camps s) ((c, cur n, c) :: grants s)
                (leaders s) (tlogs s) (acks s) (gcommit s) (quorums s) (app s))
(* r.Vote = m.From inside Step, before the response has left the node *)
| St_SetVote s j c :
    let n := nodes s j in
    vote n = None ->
    step s (set_node s j (mkN (cur n) (Some c) (rl n) (log n) (snapi n) (commit n) (conf n)))
(* the MsgVote branch of Step: one vote per term, only for an up-to-date log, never by a learner *)
| St_Grant s j c cl :
    let n := nodes s j in
    In (cur n, c, cl) (camps s) ->
    is_learner j n = false ->
    (vote n = None \/ vote n = Some c) ->
    uptodate cl (log n) = true ->
    step s (mkG (upd (nodes s) j (mkN (cur n) (Some c) (rl n) (log n) (snapi n) (commit n) (conf n)))
                (camps s) ((j, cur n, c) :: grants s) (leaders s) (tlogs s) (acks s) (gcommit s)
                (quorums s) (app s))
(* poll reached quorum(): votes of a majority of the voters of the candidate's configuration *)
| St_BecomeLeader s c :
    let n := nodes s c in
    rl n = Candidate ->
    majority (voters (conf n)) (grantedb s (cur n) c) = true ->
    step s (mkG (upd (nodes s) c (mkN (cur n) (vote n) Leader (log n) (snapi n) (commit n) (conf n)))
                (camps s) (grants s)
                ((cur n, c, log n, filter (grantedb s (cur n) c) (voters (conf n))) :: leaders s)
                (upd (tlogs s) (cur n) (log n))
                (acks s) (gcommit s) (voters (conf n) :: quorums s) (app s))
(* appendEntry by the leader (its no-op entry, proposals, conf-change entries) *)
| St_LeaderAppend s c e :
    let n := nodes s c in
    rl n = Leader -> eterm e = cur n ->
    step s (mkG (upd (nodes s) c (mkN (cur n) (vote n) Leader (log n ++ [e]) (snapi n) (commit n) (conf n)))
                (camps s) (grants s) (leaders s) (upd (tlogs s) (cur n) (log n ++ [e]))
                (acks s) (gcommit s) (quorums s) (app s))
(* a follower's log becomes a prefix [full] of the log of the leader of its term (MsgApp with
   conflict truncation, or a snapshot): never truncating the own committed part, never shrinking
   to a prefix of what it has *)
| St_Replicate s j full :
    let n := nodes s j in
    (rl n = Follower \/ rl n = PreCandidate) ->
    prefix full (tlogs s (cur n)) ->
    ~ prefix full (log n) ->
    commit n <= length full ->
    firstn (commit n) (log n) = firstn (commit n) full ->
    step s (set_node s j (mkN (cur n) (vote n) (rl n) full (snapi n) (commit n) (conf n)))
(* a successful MsgAppResp: j tells the leader of its term that its first k entries are the leader's *)
| St_Ack s j k :
    let n := nodes s j in
    k <= length (log n) ->
    prefix (firstn k (log n)) (tlogs s (cur n)) ->
    step s (mkG (nodes s) (camps s) (grants s) (leaders s) (tlogs s) ((j, cur n, k) :: acks s)
                (gcommit s) (quorums s) (app s))
(* maybeCommit: an entry of the leader's own term acknowledged by a majority of its voters *)
| St_AdvanceCommit s c k :
    let n := nodes s c in
    rl n = Leader ->
    commit n < k -> k <= length (log n) ->
    term_at (log n) k = Some (cur n) ->
    majority (voters (conf n)) (ackedb s (cur n) k) = true ->
    step s (mkG (upd (nodes s) c (mkN (cur n) (vote n) Leader (log n) (snapi n) k (conf n)))
                (camps s) (grants s) (leaders s) (tlogs s) (acks s)
                (longer (gcommit s) (firstn k (log n))) (voters (conf n) :: quorums s) (app s))
(* commitTo from the commit index carried by MsgApp / MsgHeartbeat / a snapshot *)
| St_LearnCommit s j k :
    let n := nodes s j in
    commit n < k -> k <= length (log n) ->
    prefix (firstn k (log n)) (gcommit s) ->
    step s (set_node s j (mkN (cur n) (vote n) (rl n) (log n) (snapi n) k (conf n)))
(* log compaction / installed snapshot index *)
| St_Compact s j m :
    let n := nodes s j in
    m <= commit n ->
    step s (set_node s j (mkN (cur n) (vote n) (rl n) (log n) m (commit n) (conf n)))
(* addNode / addLearner / removeNode / restoreNode: unconstrained here; the safety theorems say
   which voter lists must overlap *)
| St_ChangeConf s j cf :
    let n := nodes s j in
    step s (set_node s j (mkN (cur n) (vote n) (rl n) (log n) (snapi n) (commit n) cf))
(* crash and restart from storage: the node comes back as a follower with whatever local state
   its storage holds, provided that state honours the node's promises *)
| St_Restart s j n' :
    rl n' = Follower ->
    promises_kept s j n' ->
    step s (set_node s j n')
(* the application of node j applies committed entries, in order without gaps: after the step it
   has applied exactly the first a entries of the committed log *)
| St_Apply s j a :
    app s j <= a -> a <= length (gcommit s) ->
    step s (mkG (nodes s) (camps s) (grants s) (leaders s) (tlogs s) (acks s) (gcommit s) (quorums s)
                (upd (app s) j a))
(* the application restarts from an older snapshot of its state *)
| St_AppRestart s j a :
    a <= app s j ->
    step s (mkG (nodes s) (camps s) (grants s) (leaders s) (tlogs s) (acks s) (gcommit s) (quorums s)
                (upd (app s) j a)).

Inductive steps : gstate -> gstate -> Prop :=
| steps_refl s : steps s s
| steps_step s1 s2 s3 : steps s1 s2 -> step s2 s3 -> steps s1 s3.

(* ---------- initial states ---------- *)

(* StartNode: every member starts at term 1 with the same bootstrap log [log0] (one committed
   term-1 conf-change entry per peer); the history starts as if a pseudo-leader 0 (raft's None id,
   never a replica) had won term 1 and replicated log0 to every voter.  Non-members start blank. *)
Definition init_node (cf : config) (log0 : list entry) (j : nat) : nstate :=
  if memb j (voters cf) || memb j (learners cf)
  then mkN boot_term None Follower log0 0 (length log0) cf
  else mkN (if j =? 0 then boot_term else 0) None Follower [] 0 0 (mkConfig [] []).

Definition init (cf : config) (log0 : list entry) : gstate :=
  mkG (init_node cf log0)
      [(boot_term, 0, [])]
      (map (fun j => (j, boot_term, 0)) (voters cf))
      [(boot_term, 0, [], voters cf)]
      (upd (fun _ => []) boot_term log0)
      (match log0 with [] => [] | _ => map (fun j => (j, boot_term, length log0)) (voters cf) end)
      log0
      [voters cf]
      (fun _ => 0).

Definition init_ok (cf : config) (log0 : list entry) : Prop :=
  Forall (fun e => eterm e = boot_term) log0 /\
  voters cf <> [] /\
  (forall j, In j (voters cf) -> ~ In j (learners cf)) /\
  ~ In 0 (voters cf) /\ ~ In 0 (learners cf).

Definition reachable (cf : config) (log0 : list entry) (s : gstate) : Prop := steps (init cf log0) s.

(* fixed membership: every node keeps the configuration it started with *)
Definition conf_fixed (s s' : gstate) : Prop := forall j, conf (nodes s' j) = conf (nodes s j).

Inductive steps_fixed : gstate -> gstate -> Prop :=
| stepsf_refl s : steps_fixed s s
| stepsf_step s1 s2 s3 : steps_fixed s1 s2 -> step s2 s3 -> conf_fixed s2 s3 -> steps_fixed s1 s3.
