(* RaftAbs/Reconf.v — membership change.  The safety theorems need the hypothesis Overlap: any two
   voter lists over which a majority was ever counted have intersecting majorities.  This file gives
   a computable sufficient test for it (evaluated by the acceptor on the final state of every trace)
   and shows that a single-step change (one voter added or removed) keeps consecutive configurations
   overlapping. *)
(* STATUS OF THE FULL MEMBERSHIP-CHANGE PROOF (what is proved, what is missing).

   1. [Overlap] over ALL pairs of voter lists ever used is NOT an invariant of legal runs: LCChecked.ex2_run
      is a run {1,2,3} -> +4 -> -3 (one change at a time, each configuration used for a commit) in which
      {1,2,3} and {1,2,4} have disjoint majorities.  So "reachable -> Overlap" cannot be the target.
   2. What replaces it, and IS proved: four decidable per-step conditions checked by the acceptor on
      every accepted step (Inv.NoClash, Inv.CommitOK, Acceptor.elect_lc_ok, Acceptor.commit_lc_ok) imply
      all invariants and leader completeness for the committed log with no assumption on configurations
      (AcceptorSound.accepted_trace_inv, Theorems *_checked, LCChecked.accepted_trace_leader_completeness).
   3. What is missing for "every run of the fork's conf-change discipline satisfies the four conditions":
      the model would have to be extended with
        (a) per node cidx = number of log entries whose conf changes it has applied, conf = the initial
            configuration with the conf entries of firstn cidx log applied, cidx <= commit (addNode /
            removeNode are called from ApplyConfChange for committed entries, in log order);
        (b) Campaign only if no conf entry lies in (cidx, commit] (raft.hup);
        (c) a leader appends a conf entry only if cidx covers every earlier conf entry of its log
            (pendingConf), hence only after the previous one is committed;
        (d) Replicate carries the leader's commit index: after adopting [full] the follower's commit is at
            least min (length full) (commit of the leader when the last entry of full was appended)
            (MsgApp.Commit) - the message-free model has no such link, it needs a ghost
            tcommit : term -> length -> commit.
      Lemmas that then look routine: (A) if a log holds two conf entries at i1 < i2 its node has
      commit >= i1 (from c, d); (B) a candidate has at most one conf entry beyond cidx (from A, b);
      (C) all configurations are prefixes of one sequence C0, C1, ... (from state-machine safety).
      THE MISSING LEMMA (D): if c wins term u under configuration C_j while a conf entry establishing
      C_(j+2) is committed (at a term t < u), then the log c was elected with contains that entry.
      (With (A),(B) this contradicts c's configuration being C_j, so any two configurations that count
      majorities for the same term, or for a commit and a later election, are equal or adjacent, and
      single_step_add_overlap / single_step_remove_overlap give the intersections NoClash, CommitOK,
      elect_lc_ok, commit_lc_ok need.)  (D) is leader completeness for that conf entry, whose proof
      needs a quorum intersection between the configuration it was committed under (C_(j+1)) and C_j -
      adjacent, fine - but only AFTER knowing that every leader between t and u also ran under an
      adjacent configuration: a mutual induction on (term, position in the configuration sequence)
      between leader completeness and configuration adjacency.  It was not attempted. *)
From Coq Require Import List Arith Bool NArith Lia Permutation.
From ZV Require Import RaftAbs.ListFacts RaftAbs.Model RaftAbs.Inv RaftAbs.Acceptor.
Import ListNotations.

Lemma nodupb_NoDup l : nodupb l = true -> NoDup l.
Proof.
  induction l as [|x l IH]; simpl; intros H; constructor.
  - apply andb_true_iff in H. destruct H as [H _]. apply negb_true_iff in H.
    intros Hin. apply memb_In in Hin. congruence.
  - apply IH. apply andb_true_iff in H. tauto.
Qed.

Lemma filter_length_le {A} (f : A -> bool) (l : list A) : length (filter f l) <= length l.
Proof. induction l as [|x l IH]; simpl; auto. destruct (f x); simpl; lia. Qed.

Lemma count_filter_le f g (V : list nat) : count f V + length (filter g V) <= count f (filter g V) + length V.
Proof.
  unfold count. induction V as [|x V IH]; simpl; auto.
  destruct (g x) eqn:Eg; simpl; destruct (f x) eqn:Ef; simpl; lia.
Qed.

Lemma common_sym_len V1 V2 : NoDup V1 -> NoDup V2 -> length (common V1 V2) = length (common V2 V1).
Proof.
  intros N1 N2. apply Permutation_length. apply NoDup_Permutation.
  - now apply NoDup_filter.
  - now apply NoDup_filter.
  - intros x. unfold common. rewrite !filter_In, !memb_In. tauto.
Qed.

Lemma count_common_sym g V1 V2 : NoDup V1 -> NoDup V2 ->
  count g (common V1 V2) = count g (common V2 V1).
Proof.
  intros N1 N2. unfold count. apply Permutation_length. apply NoDup_Permutation.
  - apply NoDup_filter. now apply NoDup_filter.
  - apply NoDup_filter. now apply NoDup_filter.
  - intros x. unfold common. rewrite !filter_In, !memb_In. tauto.
Qed.

Theorem overlap2b_sound V1 V2 f g :
  NoDup V1 -> NoDup V2 -> overlap2b V1 V2 = true ->
  majority V1 f = true -> majority V2 g = true -> exists x, f x = true /\ g x = true.
Proof.
  intros N1 N2 HO Hf Hg.
  unfold majority in Hf, Hg. apply Nat.ltb_lt in Hf, Hg.
  assert (HO' : length V1 + length V2 < 2 * length (common V1 V2) + 2).
  { destruct V1 as [|a V1]; [simpl in Hf; unfold count in Hf; simpl in Hf; lia|].
    destruct V2 as [|b V2]; [simpl in Hg; unfold count in Hg; simpl in Hg; lia|].
    unfold overlap2b in HO. now apply Nat.ltb_lt in HO. }
  set (I := common V1 V2) in *.
  pose proof (count_filter_le f (fun x => memb x V2) V1) as A. fold (common V1 V2) in A. fold I in A.
  pose proof (count_filter_le g (fun x => memb x V1) V2) as B. fold (common V2 V1) in B.
  rewrite <- (count_common_sym g V1 V2 N1 N2) in B. fold I in B.
  rewrite <- (common_sym_len V1 V2 N1 N2) in B. fold I in B.
  assert (LI1 : length I <= length V1) by apply filter_length_le.
  assert (LI2 : length I <= length V2) by (unfold I; rewrite (common_sym_len V1 V2 N1 N2); apply filter_length_le).
  pose proof (count_inter f g I) as C.
  destruct (@count_pos_ex (fun x => f x && g x) I) as [x [_ Hx]]; [lia|].
  apply andb_true_iff in Hx. exists x. tauto.
Qed.

Theorem overlapb_Overlap s : overlapb (quorums s) = true -> Overlap s.
Proof.
  unfold overlapb. rewrite andb_true_iff, !forallb_forall. intros [ND OV] V1 V2 H1 H2 f g Hf Hg.
  specialize (OV _ H1). rewrite forallb_forall in OV.
  eapply (overlap2b_sound V1 V2); eauto using nodupb_NoDup.
Qed.

(* single-step membership changes: adding or removing one voter keeps the two consecutive
   configurations overlapping; so does promoting a learner (= adding a voter) and adding or
   removing a learner (voters unchanged) *)
Lemma common_self V : common V V = V.
Proof.
  unfold common. induction V as [|x V IH]; simpl; auto.
  rewrite Nat.eqb_refl. simpl. f_equal.
  rewrite <- IH at 2. apply filter_ext_in. intros y Hy. simpl.
  assert (memb y V = true) by now apply memb_In. rewrite H. now rewrite orb_true_r.
Qed.

Lemma overlap2b_refl V : overlap2b V V = true.
Proof.
  destruct V as [|a V]; auto. unfold overlap2b. rewrite common_self. apply Nat.ltb_lt. lia.
Qed.

Lemma common_cons_r V x : ~ In x V -> common V (x :: V) = V.
Proof.
  intros Hx. unfold common. rewrite <- (common_self V) at 2. unfold common.
  apply filter_ext_in. intros y Hy. simpl.
  destruct (Nat.eqb_spec y x); [subst; tauto|reflexivity].
Qed.

Lemma common_cons_l W x : ~ In x W -> common (x :: W) W = W.
Proof.
  intros Hx. unfold common. cbn [filter].
  destruct (memb x W) eqn:E; [apply memb_In in E; tauto|]. apply common_self.
Qed.

Theorem single_step_add_overlap V x : ~ In x V -> overlap2b V (x :: V) = true /\ overlap2b (x :: V) V = true.
Proof.
  intros Hx. destruct V as [|a V]; [split; reflexivity|]. split.
  - unfold overlap2b. rewrite common_cons_r by auto. apply Nat.ltb_lt. simpl. lia.
  - unfold overlap2b. rewrite common_cons_l by auto. apply Nat.ltb_lt. simpl. lia.
Qed.

Fixpoint remove_nat (x : nat) (l : list nat) : list nat :=
  match l with [] => [] | y :: r => if y =? x then remove_nat x r else y :: remove_nat x r end.

Lemma remove_nat_length x l : NoDup l -> In x l -> S (length (remove_nat x l)) = length l.
Proof.
  induction l as [|y l IH]; simpl; intros N H; [tauto|].
  inversion N; subst. destruct (Nat.eqb_spec y x).
  - subst. f_equal. clear IH N H. induction l as [|z l IH]; simpl; auto.
    destruct (Nat.eqb_spec z x); [subst; exfalso; apply H2; now left|].
    simpl. f_equal. apply IH; [intros H; apply H2; now right | now inversion H3].
  - destruct H as [H|H]; [congruence|]. simpl. f_equal. now apply IH.
Qed.

Lemma remove_nat_In x l y : In y (remove_nat x l) <-> In y l /\ y <> x.
Proof.
  induction l as [|z l IH]; simpl; [tauto|].
  destruct (Nat.eqb_spec z x); simpl; rewrite IH; split; intros H.
  - tauto.
  - destruct H as [[H|H] Hn]; [subst; congruence|tauto].
  - destruct H as [H|H]; [subst; tauto|tauto].
  - tauto.
Qed.

Lemma common_remove x V : NoDup V -> common (remove_nat x V) V = remove_nat x V.
Proof.
  intros N. unfold common. rewrite <- (common_self (remove_nat x V)) at 2. unfold common.
  apply filter_ext_in. intros y Hy. apply remove_nat_In in Hy.
  assert (memb y V = true) by (apply memb_In; tauto).
  assert (memb y (remove_nat x V) = true) by (apply memb_In; apply remove_nat_In; tauto).
  congruence.
Qed.

Theorem single_step_remove_overlap V x : NoDup V -> In x V -> overlap2b (remove_nat x V) V = true.
Proof.
  intros N Hx. pose proof (remove_nat_length x V N Hx) as L.
  unfold overlap2b. destruct (remove_nat x V) as [|a R] eqn:E; auto.
  destruct V as [|b V]; auto.
  assert (C : common (a :: R) (b :: V) = a :: R) by (rewrite <- E; apply common_remove; auto).
  rewrite C. apply Nat.ltb_lt. lia.
Qed.

(* the test on the distinct voter lists suffices *)
Lemma nat_list_eqb_eq a b : nat_list_eqb a b = true <-> a = b.
Proof.
  revert b; induction a as [|x a IH]; intros [|y b]; simpl; split; intros H; try discriminate; auto.
  - apply andb_true_iff in H. destruct H as [H1 H2]. apply Nat.eqb_eq in H1. apply IH in H2. congruence.
  - inversion H; subst. apply andb_true_iff. split; [apply Nat.eqb_refl | now apply IH].
Qed.

Lemma dedup_lists_In qs V : In V qs -> In V (dedup_lists qs).
Proof.
  induction qs as [|q r IH]; simpl; [tauto|]. intros [->|H].
  - destruct (existsb (nat_list_eqb V) r) eqn:E; [|now left].
    apply existsb_exists in E. destruct E as [V' [Hin HE]]. apply nat_list_eqb_eq in HE. subst. auto.
  - destruct (existsb (nat_list_eqb q) r); [auto | right; auto].
Qed.

Theorem overlap_state_Overlap s : overlap_state s = true -> Overlap s.
Proof.
  unfold overlap_state, overlapb. rewrite andb_true_iff, !forallb_forall. intros [ND OV] V1 V2 H1 H2 f g Hf Hg.
  apply dedup_lists_In in H1, H2.
  specialize (OV _ H1). rewrite forallb_forall in OV.
  eapply (overlap2b_sound V1 V2); eauto using nodupb_NoDup.
Qed.
