(* RaftAbs/AcceptorSound.v — soundness of the executable checker: every accepted label is a step
   of the abstract protocol, every accepted label sequence is a trace of it.  Hence all safety
   theorems apply to every abstract state the checker passes through while replaying an
   implementation trace. *)
From Coq Require Import List Arith Bool NArith Lia.
From ZV Require Import RaftAbs.ListFacts RaftAbs.Model RaftAbs.Inv RaftAbs.Pres1 RaftAbs.Inv1 RaftAbs.Inv2 RaftAbs.Safety RaftAbs.Acceptor.
Import ListNotations.

Lemma role_eqb_eq a b : role_eqb a b = true <-> a = b.
Proof. destruct a, b; simpl; split; intros; try discriminate; auto. Qed.

Lemma opt_nat_eqb_eq a b : opt_nat_eqb a b = true <-> a = b.
Proof.
  destruct a, b; simpl; split; intros H; try discriminate; auto.
  - apply Nat.eqb_eq in H. congruence.
  - inversion H. apply Nat.eqb_refl.
Qed.

Lemma find_camp_In t c l cl : find_camp t c l = Some cl -> In (t, c, cl) l.
Proof.
  induction l as [|[[t' c'] cl'] l IH]; simpl; [discriminate|].
  destruct ((t' =? t) && (c' =? c)) eqn:E.
  - intros H. inversion H; subst. apply andb_true_iff in E. destruct E as [E1 E2].
    apply Nat.eqb_eq in E1, E2. subst. now left.
  - intros H. right. auto.
Qed.

Lemma cpl_spec n l1 l2 :
  cpl n l1 l2 <= n /\ cpl n l1 l2 <= length l1 /\ cpl n l1 l2 <= length l2 /\
  firstn (cpl n l1 l2) l1 = firstn (cpl n l1 l2) l2.
Proof.
  revert l1 l2; induction n as [|n IH]; intros l1 l2; simpl.
  - repeat split; lia.
  - destruct l1 as [|a r1]; [simpl; repeat split; lia|].
    destruct l2 as [|b r2]; [simpl; repeat split; lia|].
    destruct (entry_eqb a b) eqn:E; [|simpl; repeat split; lia].
    apply entry_eqb_eq in E. subst b. destruct (IH r1 r2) as (A & B & C & D).
    simpl. repeat split; try lia. now rewrite D.
Qed.

Lemma lackingb_lacking s p t cu :
  lackingb s p t cu = true -> exists w, t < w /\ w <= cu /\ lacking s p w.
Proof.
  unfold lackingb. rewrite existsb_exists. intros [[[[w c] el] q] [Hin H]].
  rewrite !andb_true_iff, Nat.ltb_lt, Nat.leb_le, negb_true_iff in H. destruct H as [[A B] C].
  exists w. repeat split; auto. exists c, el, q. split; auto.
  intros Hp. apply prefixb_prefix in Hp. congruence.
Qed.

Lemma ack_keptb_kept s cu lg t k' :
  ack_keptb s cu lg t k' = true ->
  t <= cu /\
  forall k, k <= k' ->
    (k <= length lg /\ prefix (firstn k lg) (tlogs s t)) \/
    (exists w, t < w /\ w <= cu /\ lacking s (firstn k (tlogs s t)) w).
Proof.
  unfold ack_keptb. rewrite andb_true_iff, Nat.leb_le. intros [Ht H]. split; auto.
  destruct (cpl_spec k' lg (tlogs s t)) as (A & B & C & D).
  set (m := cpl k' lg (tlogs s t)) in *.
  assert (Hon : forall k, k <= m -> k <= length lg /\ prefix (firstn k lg) (tlogs s t)).
  { intros k Hk. split; [lia|].
    replace (firstn k lg) with (firstn k (tlogs s t)); [apply prefix_firstn|].
    replace k with (min k m) by lia. rewrite <- !firstn_firstn. now rewrite D. }
  intros k Hk. destruct (le_lt_dec k m) as [Hle|Hgt]; [left; auto|].
  apply orb_true_iff in H. destruct H as [H|H].
  - apply Nat.eqb_eq in H. lia.
  - right. apply lackingb_lacking in H. destruct H as [w [W1 [W2 [c [el [q [Hin Hnp]]]]]]].
    exists w. repeat split; auto. exists c, el, q. split; auto.
    intros Hp. apply Hnp. eapply prefix_trans; [|exact Hp]. apply prefix_firstn_le. lia.
Qed.

Lemma promises_keptb_kept s j n : promises_keptb s j n = true -> promises_kept s j n.
Proof.
  unfold promises_keptb. rewrite !andb_true_iff.
  intros [[[[[[[G C] L] A] P] T] M] Q].
  rewrite forallb_forall in G, C, L, A.
  repeat split.
  - intros t c Hin. specialize (G _ Hin). simpl in G.
    rewrite Nat.eqb_refl in G. simpl in G.
    rewrite !orb_true_iff, !andb_true_iff, Nat.ltb_lt, !Nat.eqb_eq, opt_nat_eqb_eq in G. tauto.
  - intros u cl Hin. specialize (C _ Hin). simpl in C. rewrite Nat.eqb_refl in C. simpl in C.
    now apply Nat.leb_le.
  - intros t el q Hin. specialize (L _ Hin). simpl in L. rewrite Nat.eqb_refl in L. simpl in L.
    now apply Nat.leb_le.
  - specialize (A _ H). simpl in A. rewrite Nat.eqb_refl in A. simpl in A.
    now apply ack_keptb_kept in A.
  - specialize (A _ H). simpl in A. rewrite Nat.eqb_refl in A. simpl in A.
    apply ack_keptb_kept in A. apply A.
  - now apply prefixb_prefix.
  - now apply Nat.leb_le.
  - now apply Nat.leb_le.
  - now apply prefixb_prefix.
Qed.

Ltac boolh :=
  repeat match goal with
  | H : _ && _ = true |- _ => apply andb_true_iff in H; destruct H
  | H : negb _ = true |- _ => apply negb_true_iff in H
  | H : role_eqb _ _ = true |- _ => apply role_eqb_eq in H
  | H : opt_nat_eqb _ _ = true |- _ => apply opt_nat_eqb_eq in H
  | H : (_ <? _) = true |- _ => apply Nat.ltb_lt in H
  | H : (_ <=? _) = true |- _ => apply Nat.leb_le in H
  | H : (_ =? _) = true |- _ => apply Nat.eqb_eq in H
  | H : log_eqb _ _ = true |- _ => apply log_eqb_eq in H
  end.

Theorem apply_label_sound s l s' : apply_label s l = Some s' -> step s s'.
Proof.
  destruct l; simpl.
  - (* UpdateTerm *) destruct (_ <? _) eqn:E; [|discriminate]. intros H; inversion H; subst. boolh.
    now apply St_UpdateTerm.
  - intros H; inversion H; subst. apply St_StepDown.
  - destruct (_ && _) eqn:E; [|discriminate]. intros H; inversion H; subst. boolh. now apply St_PreCampaign.
  - destruct (_ && _) eqn:E; [|discriminate]. intros H; inversion H; subst. boolh.
    apply St_Campaign; auto.
    + intros Hl. rewrite Hl in H2. discriminate.
    + destruct (cur (nodes s c)); [discriminate|lia].
  - destruct (_ && _) eqn:E; [|discriminate]. intros H; inversion H; subst. boolh. now apply St_ExposeCamp.
  - destruct (opt_nat_eqb _ _) eqn:E; [|discriminate]. intros H; inversion H; subst. boolh. now apply St_SetVote.
  - (* Grant *)
    destruct (find_camp _ _ _) as [cl|] eqn:F; [|discriminate].
    destruct (_ && _) eqn:E; [|discriminate]. intros H; inversion H; subst. boolh.
    apply find_camp_In in F. eapply St_Grant; eauto.
    match goal with H : opt_nat_eqb _ None || _ = true |- _ =>
      apply orb_true_iff in H; destruct H as [H|H]; apply opt_nat_eqb_eq in H; auto end.
  - destruct (_ && _) eqn:E; [|discriminate]. intros H; inversion H; subst. boolh. now apply St_BecomeLeader.
  - destruct (_ && _) eqn:E; [|discriminate]. intros H; inversion H; subst. boolh. now apply St_LeaderAppend.
  - (* Replicate *)
    destruct (_ && _) eqn:E; [|discriminate]. intros H; inversion H; subst. boolh.
    apply St_Replicate; auto.
    + apply orb_true_iff in H0. destruct H0 as [H0|H0]; apply role_eqb_eq in H0; auto.
    + apply prefix_firstn.
    + intros Hp. apply prefixb_prefix in Hp. congruence.
  - destruct (_ && _) eqn:E; [|discriminate]. intros H; inversion H; subst. boolh.
    apply St_Ack; auto. now apply prefixb_prefix.
  - destruct (_ && _) eqn:E; [|discriminate]. intros H; inversion H; subst. boolh. now apply St_AdvanceCommit.
  - destruct (_ && _) eqn:E; [|discriminate]. intros H; inversion H; subst. boolh.
    apply St_LearnCommit; auto. now apply prefixb_prefix.
  - destruct (_ <=? _) eqn:E; [|discriminate]. intros H; inversion H; subst. boolh. now apply St_Compact.
  - intros H; inversion H; subst. apply St_ChangeConf.
  - (* Restart *)
    destruct (_ && _) eqn:E; [|discriminate]. intros H; inversion H; subst. boolh.
    apply St_Restart; auto. now apply promises_keptb_kept.
  - (* Apply *)
    destruct (_ && _) eqn:E; [|discriminate]. intros H; inversion H; subst. boolh.
    apply St_Apply; lia.
  - destruct (_ && _) eqn:E; [|discriminate]. intros H; inversion H; subst. boolh. now apply St_Apply.
  - destruct (_ <=? _) eqn:E; [|discriminate]. intros H; inversion H; subst. boolh. now apply St_AppRestart.
Qed.

Theorem run_sound ls : forall s s', run s ls = Some s' -> steps s s'.
Proof.
  induction ls as [|l ls IH]; simpl; intros s s' H.
  - inversion H; subst. constructor.
  - destruct (apply_label s l) as [s1|] eqn:E; [|discriminate].
    apply apply_label_sound in E. specialize (IH _ _ H).
    clear H. induction IH as [|a b c Hab IHab Hbc]; [econstructor; [constructor|exact E]|].
    econstructor; eauto.
Qed.

(* what a successful comparison with a recorded node means *)
Lemma match_node_spec n o : match_node n o = true ->
  cur n = o_term o /\ vote n = vote_of_nat (o_vote o) /\ rl n = o_role o /\ commit n = o_commit o /\
  snapi n = o_snapi o /\ skipn (o_snapi o) (log n) = o_ents o /\ length (log n) = o_snapi o + length (o_ents o).
Proof.
  unfold match_node, match_log. intros H. boolh. repeat split; auto.
  match goal with H : skipn _ _ = _ |- _ => rewrite <- H end. rewrite skipn_length. lia.
Qed.

Lemma init_okb_ok cf log0 : init_okb cf log0 = true -> init_ok cf log0.
Proof.
  unfold init_okb, init_ok. rewrite !andb_true_iff. intros [[[[A B] C] D] E].
  rewrite forallb_forall in A, C. repeat split.
  - apply Forall_forall. intros e He. apply Nat.eqb_eq. auto.
  - intros E0. rewrite E0 in B. discriminate.
  - intros j Hj Hl. specialize (C _ Hj). apply negb_true_iff in C. apply memb_In in Hl. congruence.
  - intros H. apply memb_In in H. apply negb_true_iff in D. congruence.
  - intros H. apply memb_In in H. apply negb_true_iff in E. congruence.
Qed.

(* every state the checker reaches from a well-formed initial state is a reachable state of the
   abstract protocol *)
Theorem accepted_reachable cf log0 ls s :
  run (init cf log0) ls = Some s -> reachable cf log0 s.
Proof. apply run_sound. Qed.

(* ---------- the per-step conditions that make the overlap hypothesis unnecessary ---------- *)

Lemma leader_of_None t l : leader_of t l = None -> forall c el q, ~ In (t, c, el, q) l.
Proof.
  induction l as [|[[[t' c'] el'] q'] l IH]; simpl; intros H c el q; [tauto|].
  destruct (Nat.eqb_spec t' t); [discriminate|]. intros [E|Hin]; [inversion E; congruence | eapply IH; eauto].
Qed.

Ltac guards H :=
  repeat match type of H with
  | (if ?c then _ else _) = Some _ => let E := fresh "E" in destruct c eqn:E; [|discriminate]
  | match ?c with Some _ => _ | None => _ end = Some _ => let E := fresh "F" in destruct c eqn:E; [|discriminate]
  end.

Theorem apply_label_noclash s l s' : apply_label s l = Some s' -> NoClash s s'.
Proof.
  intros H c Hc Hl. destruct l; simpl in H; guards H; inversion H; subst; clear H; simpl in Hl;
    unfold upd in Hl;
    try (match type of Hl with context [Nat.eqb ?a ?b] => destruct (Nat.eqb_spec a b); subst; simpl in Hl end);
    try congruence; boolh; try congruence.
  (* BecomeLeader *)
  intros [c' [el [q Hin]]].
  match goal with H : match term_leader s ?t with _ => _ end = true |- _ =>
    destruct (term_leader s t) eqn:T; [discriminate|]; eapply leader_of_None; eauto end.
Qed.

Theorem apply_label_commitok s l s' : apply_label s l = Some s' -> CommitOK s s'.
Proof.
  intros H c Hl Hl' Hlt. destruct l; simpl in H; guards H; inversion H; subst; clear H; simpl in *;
    unfold upd in *;
    try (match goal with |- context [Nat.eqb ?a ?b] => destruct (Nat.eqb_spec a b); subst; simpl in * end);
    try (match type of Hlt with context [Nat.eqb ?a ?b] => destruct (Nat.eqb_spec a b); subst; simpl in * end);
    try lia; try congruence; boolh.
  - (* AdvanceCommit *)
    match goal with H : commit_comparable _ _ _ = true |- _ =>
      unfold commit_comparable in H; apply orb_true_iff in H; destruct H as [H|H]; apply prefixb_prefix in H; auto end.
  - (* LearnCommit *) right. now apply prefixb_prefix.
Qed.

Lemma steps_ok_trans a b c : steps_ok a b -> steps_ok b c -> steps_ok a c.
Proof.
  intros H1 H2. induction H2 as [|x y z Hxy IH Hyz NC CO]; auto.
  econstructor; [apply IH; auto | exact Hyz | exact NC | exact CO].
Qed.

Theorem run_ok ls : forall s s', run s ls = Some s' -> steps_ok s s'.
Proof.
  induction ls as [|l ls IH]; simpl; intros s s' H.
  - inversion H; subst. constructor.
  - destruct (apply_label s l) as [s1|] eqn:E; [|discriminate].
    apply steps_ok_trans with s1; [|apply IH; auto].
    econstructor; [constructor | eapply apply_label_sound; eauto | eapply apply_label_noclash; eauto
                  | eapply apply_label_commitok; eauto].
Qed.

(* every state the checker reaches from a well-formed initial state satisfies all invariants:
   no hypothesis on the configurations *)
Theorem accepted_trace_inv cf log0 ls s :
  init_okb cf log0 = true -> run (init cf log0) ls = Some s -> inv1 s /\ inv2 s.
Proof.
  intros H1 H2. eapply steps_ok_inv; [| | eapply run_ok; eauto].
  - apply init_inv1. now apply init_okb_ok.
  - apply init_inv2. now apply init_okb_ok.
Qed.
