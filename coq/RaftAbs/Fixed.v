(* RaftAbs/Fixed.v — fixed membership: every node keeps its initial configuration.  Then the
   overlap hypothesis is a theorem, all safety properties hold unconditionally, and learners
   neither campaign, nor lead, nor vote. *)
From Coq Require Import List Arith Bool NArith Lia.
From ZV Require Import RaftAbs.ListFacts RaftAbs.Model RaftAbs.Inv RaftAbs.Pres1 RaftAbs.Pres2 RaftAbs.Pres3
  RaftAbs.Inv1 RaftAbs.Inv2 RaftAbs.Safety.
Import ListNotations.

Lemma stepsf_steps a b : steps_fixed a b -> steps a b.
Proof. induction 1; [constructor | econstructor; eauto]. Qed.

Section Fixed.
Variable cf : config.
Variable log0 : list entry.
Hypothesis OK : init_ok cf log0.

Lemma fixed_conf s : steps_fixed (init cf log0) s -> forall j, conf (nodes s j) = conf (init_node cf log0 j).
Proof.
  remember (init cf log0) as s0. induction 1 as [|s1 s2 s3 H12 IH H23 HF]; intros j; subst; auto.
  rewrite HF. now apply IH.
Qed.

Lemma init_conf j : conf (init_node cf log0 j) = cf \/ conf (init_node cf log0 j) = mkConfig [] [].
Proof. unfold init_node. destruct (_ || _); auto. Qed.

Lemma init_conf_member j : In j (voters (conf (init_node cf log0 j))) -> In j (voters cf) /\ conf (init_node cf log0 j) = cf.
Proof.
  unfold init_node. destruct (_ || _); simpl; [auto|tauto].
Qed.

Lemma init_conf_learner j : In j (learners cf) -> conf (init_node cf log0 j) = cf.
Proof.
  intros H. unfold init_node. assert (memb j (learners cf) = true) as -> by now apply memb_In.
  now rewrite orb_true_r.
Qed.

Lemma fixed_quorums s : steps_fixed (init cf log0) s -> forall V, In V (quorums s) -> V = voters cf \/ V = [].
Proof.
  remember (init cf log0) as s0. induction 1 as [|s1 s2 s3 H12 IH H23 HF]; intros V HV; subst.
  - destruct HV as [<-|[]]. auto.
  - specialize (IH eq_refl).
    assert (HC : forall c, voters (conf (nodes s2 c)) = voters cf \/ voters (conf (nodes s2 c)) = []).
    { intros c. rewrite (fixed_conf _ H12). destruct (init_conf c) as [-> | ->]; auto. }
    inversion H23; subst; simpl in HV; auto.
    + destruct HV as [<-|HV]; auto. apply HC.
    + destruct HV as [<-|HV]; auto. apply HC.
Qed.

Theorem fixed_overlap s : steps_fixed (init cf log0) s -> Overlap s.
Proof.
  intros H V1 V2 H1 H2 f g Hf Hg.
  destruct (fixed_quorums _ H _ H1) as [-> | ->]; [|discriminate].
  destruct (fixed_quorums _ H _ H2) as [-> | ->]; [|discriminate].
  destruct (majority_intersect _ _ _ Hf Hg) as [x [_ [? ?]]]. eauto.
Qed.

Theorem fixed_inv s : steps_fixed (init cf log0) s -> inv1 s /\ inv2 s.
Proof.
  intros H. eapply reachable_inv; eauto.
  - apply stepsf_steps; eauto.
  - now apply fixed_overlap.
Qed.

(* learners and non-members never leave the follower role, and never vote *)
Lemma fixed_roles_votes s : steps_fixed (init cf log0) s ->
  (forall j, rl (nodes s j) <> Follower -> In j (voters cf)) /\
  (forall j t c, In (j, t, c) (grants s) -> ~ In j (learners cf)).
Proof.
  destruct OK as (_ & _ & Hdj & _ & _).
  remember (init cf log0) as s0. induction 1 as [|s1 s2 s3 H12 IH H23 HF]; subst.
  - split.
    + intros j Hj. simpl in Hj. rewrite init_node_rl in Hj. congruence.
    + intros j t c Hg. apply in_init_grants in Hg. apply Hdj. tauto.
  - destruct (IH eq_refl) as [R G]. clear IH.
    pose proof (fixed_conf _ H12) as HC.
    assert (Hprom : forall c, promotable c (nodes s2 c) = true -> In c (voters cf)).
    { intros c Hp. unfold promotable in Hp. apply memb_In in Hp. rewrite HC in Hp.
      now apply init_conf_member in Hp. }
    split.
    + inv_step H23; intros j0 Hr; try subst n; upd_destr; auto; try congruence.
      all: try (apply R; congruence).
    + inv_step H23; intros j0 t0 c0 Hg; try subst n; try (in_cons Hg); eauto.
      * apply Hdj. apply R. congruence.
      * intros Hl. unfold is_learner in H0. rewrite HC, (init_conf_learner _ Hl) in H0.
        apply memb_In in Hl. congruence.
Qed.

End Fixed.
