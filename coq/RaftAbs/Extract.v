(* RaftAbs/Extract.v — extraction of the abstract protocol checker (ExtrOcamlBasic only) *)
From Coq Require Import ExtrOcamlBasic ZArith NArith Arith.
From ZV Require Import RaftAbs.Model RaftAbs.Acceptor.
Extraction Language OCaml.
Extraction "model.ml" Z.of_N N.of_nat Nat.add init init_okb apply_label run match_node match_log obs_in_tlog obs_lastterm
  node_of tlog_of app_of gcommit_len camp_exposed promises_why restart_node grantedb ackedb lastterm term_at overlap_state n_configs gcommit_of lc_label_ok term_leader commit_comparable msgapp_ok heartbeat_ok snapshot_ok.
