(* RaftAbs/Pres1.v — preservation of the vote / campaign / leader-record invariants. *)
From Coq Require Import List Arith Bool NArith Lia.
From ZV Require Import RaftAbs.ListFacts RaftAbs.Model RaftAbs.Inv.
Import ListNotations.

Ltac inv_step H := inversion H; subst; clear H; cbv zeta in *; simpl in *.

Ltac upd_destr :=
  repeat match goal with
  | |- context [upd _ ?i _ ?j] => unfold upd; destruct (Nat.eqb_spec j i); subst; simpl in *
  | H : context [upd _ ?i _ ?j] |- _ => unfold upd in H; destruct (Nat.eqb_spec j i); subst; simpl in *
  end.

Ltac in_cons H := destruct H as [H|H]; [inversion H; subst; clear H|].

(* a candidate that has the votes of a majority counted over V is in a term without a leader *)
Lemma cand_no_leader s s' c V :
  inv1 s -> Overlap s' -> In V (quorums s') -> incl (quorums s) (quorums s') ->
  rl (nodes s c) = Candidate ->
  majority V (grantedb s (cur (nodes s c)) c) = true ->
  ~ has_leader s (cur (nodes s c)).
Proof.
  intros I O HV Hincl Hc Hm [c' [el [q Hl]]].
  destruct (i_L1 I _ _ _ _ Hl) as [[V' [HV' Hm']] Hq].
  destruct (O V V' HV (Hincl _ HV') _ _ Hm Hm') as [x [Hx1 Hx2]].
  apply grantedb_In in Hx1. apply memb_In in Hx2. apply Hq in Hx2.
  assert (c = c') by (eapply i_G2; eauto). subst c'.
  destruct (i_Cand I c Hc) as [_ [_ [_ Hno]]]. eapply Hno; eauto.
Qed.

Ltac promises :=
  match goal with H : promises_kept _ _ _ |- _ =>
    destruct H as (PG & PC & PL & PA & PLM & PLT & PCM & PGC) end.

Ltac fin := try subst; try assumption; try (intuition (try congruence; try lia); fail).

Lemma pres_G1 s s' : inv1 s -> step s s' ->
  forall j t c, In (j, t, c) (grants s') ->
      t < cur (nodes s' j) \/ (t = cur (nodes s' j) /\ vote (nodes s' j) = Some c) \/ (t = boot_term /\ c = 0).
Proof.
  intros I H. inv_step H; intros j0 t0 c0 Hin.
  all: try (in_cons Hin); upd_destr; auto.
  all: try (pose proof (i_G1 I _ _ _ Hin) as HG; simpl in HG).
  all: try subst n; try assumption; try (intuition (try congruence; try lia); fail).
  promises. eauto.
Qed.

Lemma pres_G3 s s' : inv1 s -> step s s' ->
  forall j t c, In (j, t, c) (grants s') -> exists cl, In (t, c, cl) (camps s').
Proof.
  intros I H. inv_step H; intros j0 t0 c0 Hin.
  all: try (in_cons Hin); try subst n; eauto using (i_G3 I).
  all: try (destruct (i_G3 I _ _ _ Hin) as [cl0 Hcl]; eauto).
Qed.

Lemma pres_G2 s s' : inv1 s -> step s s' ->
  forall j t c c', In (j, t, c) (grants s') -> In (j, t, c') (grants s') -> c = c'.
Proof.
  intros I H. inv_step H; intros j0 t0 c0 c0' Hin Hin'.
  all: try (in_cons Hin); try (in_cons Hin'); try subst n; eauto using (i_G2 I).
  - destruct (i_Cand I _ H0) as [Hc2 _]. destruct (i_G1 I _ _ _ Hin') as [?|[[_ ?]|[? _]]]; unfold boot_term in *; try lia; congruence.
  - destruct (i_Cand I _ H0) as [Hc2 _]. destruct (i_G1 I _ _ _ Hin) as [?|[[_ ?]|[? _]]]; unfold boot_term in *; try lia; congruence.
  - destruct (i_G1 I _ _ _ Hin') as [?|[[_ ?]|[Hb ?]]]; try lia.
    + destruct H2; congruence.
    + rewrite Hb in H0. destruct (i_CB I _ _ _ H0) as [[_ [? _]]|?]; unfold boot_term in *; try lia.
  - destruct (i_G1 I _ _ _ Hin) as [?|[[_ ?]|[Hb ?]]]; try lia.
    + destruct H2; congruence.
    + rewrite Hb in H0. destruct (i_CB I _ _ _ H0) as [[_ [? _]]|?]; unfold boot_term in *; try lia.
Qed.

Lemma pres_CB s s' : inv1 s -> step s s' ->
  forall u c cl, In (u, c, cl) (camps s') -> (u = boot_term /\ c = 0 /\ cl = []) \/ 2 <= u.
Proof.
  intros I H. inv_step H; intros u0 c0 cl0 Hin.
  all: try (in_cons Hin); try subst n; eauto using (i_CB I).
  right. apply (i_Cand I _ H0).
Qed.

Lemma pres_C1 s s' : inv1 s -> step s s' ->
  forall u c cl, In (u, c, cl) (camps s') -> u <= cur (nodes s' c).
Proof.
  intros I H. inv_step H; intros u0 c0 cl0 Hin.
  all: try (in_cons Hin); upd_destr; try subst n; eauto using (i_C1 I).
  all: try (pose proof (i_C1 I _ _ _ Hin) as HC; simpl in HC; lia).
  promises. eauto.
Qed.

Lemma pres_C2 s s' : inv1 s -> step s s' ->
  forall u c cl cl', In (u, c, cl) (camps s') -> In (u, c, cl') (camps s') -> cl = cl'.
Proof.
  intros I H. inv_step H; intros u0 c0 cl0 cl0' Hin Hin'.
  all: try (in_cons Hin); try (in_cons Hin'); try subst n; eauto using (i_C2 I).
  - symmetry. now apply (i_Cand I _ H0).
  - now apply (i_Cand I _ H0).
Qed.

Lemma pres_CLT s s' : inv1 s -> step s s' ->
  forall u c cl, In (u, c, cl) (camps s') -> forall e, In e cl -> eterm e < u.
Proof.
  intros I H. inv_step H; intros u0 c0 cl0 Hin.
  all: try (in_cons Hin); try subst n; eauto using (i_CLT I).
  apply (i_Cand I _ H0).
Qed.

Lemma pres_L3 s s' : inv1 s -> step s s' ->
  forall t c el q, In (t, c, el, q) (leaders s') -> t <= cur (nodes s' c).
Proof.
  intros I H. inv_step H; intros t0 c0 el0 q0 Hin.
  all: try (in_cons Hin); upd_destr; try subst n; eauto using (i_L3 I).
  all: try (pose proof (i_L3 I _ _ _ _ Hin) as HC; simpl in HC; lia).
  promises. eauto.
Qed.

Lemma pres_L4 s s' : inv1 s -> step s s' ->
  forall t c el q, In (t, c, el, q) (leaders s') -> In (t, c, el) (camps s').
Proof.
  intros I H. inv_step H; intros t0 c0 el0 q0 Hin.
  all: try (in_cons Hin); try subst n; eauto using (i_L4 I).
  unfold majority in H1. apply Nat.ltb_lt in H1.
  destruct (@count_pos_ex (grantedb s (cur (nodes s c0)) c0) (voters (conf (nodes s c0)))) as [x [_ Hx]]; [lia|].
  apply grantedb_In in Hx. destruct (i_G3 I _ _ _ Hx) as [cl Hcl].
  destruct (i_Cand I _ H0) as [_ [Hc _]]. rewrite <- (Hc _ Hcl). exact Hcl.
Qed.

Lemma memb_filter f V x : In x V -> f x = true -> memb x (filter f V) = true.
Proof. intros H1 H2. apply memb_In. apply filter_In. auto. Qed.

Lemma pres_L1 s s' : inv1 s -> step s s' ->
  forall t c el q, In (t, c, el, q) (leaders s') ->
      (exists V, In V (quorums s') /\ majority V (fun j => memb j q) = true) /\
      (forall j, In j q -> In (j, t, c) (grants s')).
Proof.
  intros I H. inv_step H; intros t0 c0 el0 q0 Hin.
  all: try (in_cons Hin); try subst n; eauto using (i_L1 I).
  all: try (destruct (i_L1 I _ _ _ _ Hin) as [[V [HV Hm]] Hq]; split; [exists V; simpl; auto | intros; simpl; auto]; fail).
  split.
  - exists (voters (conf (nodes s c0))). split; [now left|].
    eapply majority_mono; [|exact H1]. intros x Hx Hg. now apply memb_filter.
  - intros j Hj. apply filter_In in Hj. now apply grantedb_In.
Qed.

(* under the overlap hypothesis no step elects a second leader of a term *)
Lemma overlap_noclash s s' : inv1 s -> Overlap s' -> step s s' -> NoClash s s'.
Proof.
  intros I O H c Hc Hl. inv_step H; try subst n; simpl in Hl; upd_destr; try congruence.
  all: try (destruct H0 as [H0|H0]; congruence).
  eapply (cand_no_leader s _ _ (voters (conf (nodes s _))) I O); simpl; eauto. intros x Hx; now right.
Qed.

Lemma pres_L2 s s' : inv1 s -> NoClash s s' -> step s s' ->
  forall t c el q c' el' q', In (t, c, el, q) (leaders s') -> In (t, c', el', q') (leaders s') ->
      c = c' /\ el = el' /\ q = q'.
Proof.
  intros I O H. inv_step H; intros t0 c0 el0 q0 c0' el0' q0' Hin Hin'.
  all: try (in_cons Hin); try (in_cons Hin'); try subst n; try (eapply (i_L2 I); eassumption); auto.
  - exfalso. eapply (O c0); [exact H0 | simpl; rewrite upd_same; reflexivity | exists c0', el0', q0'; exact Hin'].
  - exfalso. eapply (O c0'); [exact H0 | simpl; rewrite upd_same; reflexivity | exists c0, el0, q0; exact Hin].
Qed.

Lemma pres_Cand s s' : inv1 s -> step s s' ->
  forall c, rl (nodes s' c) = Candidate ->
      2 <= cur (nodes s' c) /\
      (forall cl, In (cur (nodes s' c), c, cl) (camps s') -> cl = log (nodes s' c)) /\
      (forall e, In e (log (nodes s' c)) -> eterm e < cur (nodes s' c)) /\
      (forall el q, ~ In (cur (nodes s' c), c, el, q) (leaders s')).
Proof.
  intros I H. inv_step H; intros c1 Hc.
  all: upd_destr; try subst n; try discriminate; try congruence; try (apply (i_Cand I _ Hc)).
  all: try (rewrite H0 in Hc; discriminate).
  - (* Campaign *)
    repeat split; try lia.
    + intros cl Hcl. apply (i_C1 I) in Hcl. lia.
    + intros e0 He. apply (i_LT I) in He. lia.
    + intros el q Hl. apply (i_L3 I) in Hl. lia.
  - (* ExposeCamp *)
    destruct (i_Cand I _ Hc) as [A [B [C D]]]. repeat split; auto.
    intros cl [Heq|Hin]; [inversion Heq; subst; auto | auto].
  - (* BecomeLeader, other candidate *)
    destruct (i_Cand I _ Hc) as [A [B [C D]]]. repeat split; auto.
    intros el q [Heq|Hin]; [inversion Heq; subst; congruence | eapply D; eauto].
  - (* Replicate *)
    destruct H0 as [H0|H0]; rewrite H0 in Hc; discriminate.
Qed.
