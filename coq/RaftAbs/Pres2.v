(* RaftAbs/Pres2.v — the history only grows; preservation of the leader-log and log-matching invariants. *)
From Coq Require Import List Arith Bool NArith Lia.
From ZV Require Import RaftAbs.ListFacts RaftAbs.Model RaftAbs.Inv RaftAbs.Pres1.
Import ListNotations.

Lemma tlogs_nil_no_leader s t : inv1 s -> ~ has_leader s t -> tlogs s t = [].
Proof. intros I H. destruct (i_T3 I t); tauto. Qed.

Lemma step_hist_le s s' : inv1 s -> NoClash s s' -> step s s' -> hist_le s s'.
Proof.
  intros I O H. unfold hist_le. inv_step H.
  all: repeat split; try apply incl_refl; try (apply incl_tl; apply incl_refl); try (intros; apply prefix_refl).
  all: try subst n.
  - (* BecomeLeader *)
    intros t. unfold upd. destruct (Nat.eqb_spec t (cur (nodes s c))); [|apply prefix_refl]. subst t.
    rewrite (tlogs_nil_no_leader s _ I); [apply prefix_nil|].
    apply (O c); [exact H0 | simpl; rewrite upd_same; reflexivity].
  - (* LeaderAppend *)
    intros t. unfold upd. destruct (Nat.eqb_spec t (cur (nodes s c))); [|apply prefix_refl]. subst t.
    destruct (i_T1 I _ H0) as [-> _]. apply prefix_app.
Qed.

Lemma no_leader_at_cand s s' c :
  NoClash s s' -> rl (nodes s c) = Candidate -> rl (nodes s' c) = Leader ->
  forall c' el q, ~ In (cur (nodes s c), c', el, q) (leaders s).
Proof.
  intros NC Hc Hl c' el q Hin. apply (NC c Hc Hl). exists c', el, q. exact Hin.
Qed.

Lemma pres_T3 s s' : inv1 s -> step s s' -> forall t, tlogs s' t = [] \/ has_leader s' t.
Proof.
  intros I H. inv_step H; intros t0; try (apply (i_T3 I)).
  all: try subst n.
  - unfold upd. destruct (Nat.eqb_spec t0 (cur (nodes s c))).
    + subst. right. eexists _, _, _. left. reflexivity.
    + destruct (i_T3 I t0) as [?|[c' [el [q Hl]]]]; auto. right. exists c', el, q. now right.
  - unfold upd. destruct (Nat.eqb_spec t0 (cur (nodes s c))).
    + subst. right. destruct (i_T1 I _ H0) as [_ [el [q Hl]]]. exists c, el, q. exact Hl.
    + apply (i_T3 I).
Qed.

Lemma pres_T1 s s' : inv1 s -> NoClash s s' -> step s s' ->
  forall c, rl (nodes s' c) = Leader ->
      log (nodes s' c) = tlogs s' (cur (nodes s' c)) /\
      exists el q, In (cur (nodes s' c), c, el, q) (leaders s').
Proof.
  intros I O H. inv_step H; intros c1 Hc.
  all: upd_destr; try subst n; try discriminate; try congruence; try (apply (i_T1 I _ Hc)).
  all: try (apply (i_T1 I _ H0)).
  - rewrite Nat.eqb_refl. split; auto. eexists _, _. left. reflexivity.
  - destruct (i_T1 I _ Hc) as [HA [el [q Hl]]].
    destruct (Nat.eqb_spec (cur (nodes s c1)) (cur (nodes s c))) as [E|E].
    + exfalso. rewrite E in Hl.
      eapply (no_leader_at_cand s _ c O H0); [simpl; rewrite upd_same; reflexivity | eauto].
    + split; auto. exists el, q. now right.
  - rewrite Nat.eqb_refl. split; auto. apply (i_T1 I _ H0).
  - destruct (i_T1 I _ Hc) as [HA [el [q Hl]]].
    destruct (Nat.eqb_spec (cur (nodes s c1)) (cur (nodes s c))) as [E|E].
    + exfalso. destruct (i_T1 I _ H0) as [_ [el' [q' Hl']]]. rewrite E in Hl.
      destruct (i_L2 I _ _ _ _ _ _ _ Hl Hl') as [? _]. congruence.
    + split; eauto.
  - destruct H0 as [H0|H0]; rewrite H0 in Hc; discriminate.
Qed.

Lemma pres_T2 s s' : inv1 s -> NoClash s s' -> step s s' ->
  forall t c el q, In (t, c, el, q) (leaders s') ->
      prefix el (tlogs s' t) /\
      (forall e, In e (tlogs s' t) -> eterm e <= t) /\
      (forall k e, length el <= k -> nth_error (tlogs s' t) k = Some e -> eterm e = t).
Proof.
  intros I O H. inv_step H; intros t0 c0 el0 q0 Hin.
  all: try (in_cons Hin); try subst n; try (apply (i_T2 I _ _ _ _ Hin)).
  - rewrite upd_same. repeat split.
    + apply prefix_refl.
    + intros e He. apply (i_LT I) in He. exact He.
    + intros k e Hk He. assert (k < length (log (nodes s c0))) by (apply nth_error_Some; congruence). lia.
  - rewrite upd_other; [apply (i_T2 I _ _ _ _ Hin)|].
    intros ->. eapply (no_leader_at_cand s _ c O H0); [simpl; rewrite upd_same; reflexivity | eauto].
  - destruct (i_T2 I _ _ _ _ Hin) as [A [B C]].
    unfold upd. destruct (Nat.eqb_spec t0 (cur (nodes s c))) as [E|E]; [|auto].
    subst t0. destruct (i_T1 I _ H0) as [HA _]. rewrite HA. repeat split.
    + now apply prefix_app_r.
    + intros e0 He. apply in_app_or in He. destruct He as [He|[<-|[]]]; auto. lia.
    + intros k e0 Hk He. apply nth_error_snoc in He. destruct He as [[_ He]|[_ ->]]; eauto.
Qed.

Lemma hist_le_LM s s' l : hist_le s s' -> LMlog (tlogs s) l -> LMlog (tlogs s') l.
Proof. intros H. apply LMlog_mono. apply H. Qed.

Lemma pres_LMt s s' : inv1 s -> NoClash s s' -> step s s' -> forall t, LMlog (tlogs s') (tlogs s' t).
Proof.
  intros I O H. pose proof (step_hist_le s s' I O H) as HL.
  inv_step H; intros t0; try (apply (hist_le_LM _ _ _ HL); apply (i_LMt I)).
  all: try subst n.
  - unfold upd at 2. destruct (Nat.eqb_spec t0 (cur (nodes s c))).
    + apply (hist_le_LM _ _ _ HL). apply (i_LM I).
    + apply (hist_le_LM _ _ _ HL). apply (i_LMt I).
  - unfold upd at 2. destruct (Nat.eqb_spec t0 (cur (nodes s c))).
    + apply LMlog_snoc.
      * apply (hist_le_LM _ _ _ HL). apply (i_LM I).
      * rewrite H1. simpl. rewrite upd_same. apply prefix_refl.
    + apply (hist_le_LM _ _ _ HL). apply (i_LMt I).
Qed.

Lemma pres_CLM s s' : inv1 s -> NoClash s s' -> step s s' ->
  forall u c cl, In (u, c, cl) (camps s') -> LMlog (tlogs s') cl.
Proof.
  intros I O H. pose proof (step_hist_le s s' I O H) as HL.
  inv_step H; intros u0 c0 cl0 Hin.
  all: try (in_cons Hin); try (apply (hist_le_LM _ _ _ HL); eapply (i_CLM I); eauto; fail).
  apply (i_LM I).
Qed.

Lemma pres_LM s s' : inv1 s -> NoClash s s' -> step s s' -> forall j, LMlog (tlogs s') (log (nodes s' j)).
Proof.
  intros I O H. pose proof (step_hist_le s s' I O H) as HL.
  pose proof (pres_LMt s s' I O H) as HT.
  inv_step H; intros j0.
  all: upd_destr; try subst n; try (apply (hist_le_LM _ _ _ HL); apply (i_LM I)).
  - pose proof (HT (cur (nodes s c))) as X. rewrite upd_same in X. exact X.
  - eapply LMlog_prefix; [exact H1 | apply (i_LMt I)].
  - promises. eapply LMlog_prefix; [exact PLM | apply (i_LMt I)].
Qed.

(* every term in a log that is a prefix of a leader log is at most the term of that leader *)
Lemma tlogs_terms_le s t e : inv1 s -> In e (tlogs s t) -> eterm e <= t.
Proof.
  intros I He. destruct (i_T3 I t) as [E|[c [el [q Hl]]]].
  - rewrite E in He. destruct He.
  - destruct (i_T2 I _ _ _ _ Hl) as [_ [B _]]. auto.
Qed.

Lemma pres_LT s s' : inv1 s -> step s s' ->
  forall j e, In e (log (nodes s' j)) -> eterm e <= cur (nodes s' j).
Proof.
  intros I H. inv_step H; intros j0 e0 He.
  all: upd_destr; try subst n; try (apply (i_LT I _ _ He)).
  all: try (apply (i_LT I) in He; simpl in *; lia).
  all: try congruence.
  - apply in_app_or in He. destruct He as [He|[<-|[]]]; [apply (i_LT I _ _ He) | lia].
  - eapply tlogs_terms_le; eauto. eapply prefix_In; eauto.
  - promises. apply Nat.le_trans with (lastterm (log n')); auto.
    eapply tlogs_terms_le; eauto. eapply prefix_In; eauto.
Qed.
