(* RaftAbs/Pres3.v — preservation of the acknowledgment invariants (A1, AN) and of the vote/ack
   invariant CV that carries leader completeness. *)
From Coq Require Import List Arith Bool NArith Lia.
From ZV Require Import RaftAbs.ListFacts RaftAbs.Model RaftAbs.Inv RaftAbs.Pres1 RaftAbs.Pres2.
Import ListNotations.

Definition AN_at (lg : list entry) (cu : nat) (s : gstate) (t k : nat) : Prop :=
  (k <= length lg /\ prefix (firstn k lg) (tlogs s t)) \/
  (exists w, t < w /\ w <= cu /\ lacking s (firstn k (tlogs s t)) w).

Lemma AN_mono s s' lg cu cu' t k :
  hist_le s s' -> k <= length (tlogs s t) -> cu <= cu' -> AN_at lg cu s t k -> AN_at lg cu' s' t k.
Proof.
  intros HL Hk Hc [[A B]|[w [A [B C]]]].
  - left. split; auto. eapply prefix_trans; [exact B|]. apply HL.
  - right. exists w. repeat split; auto; try lia.
    rewrite (firstn_stable (tlogs s t) (tlogs s' t)); [|apply HL|auto].
    eapply lacking_mono; [apply HL|exact C].
Qed.

Lemma AN_snoc s lg e cu t k : AN_at lg cu s t k -> AN_at (lg ++ [e]) cu s t k.
Proof.
  intros [[A B]|H]; [left|right; auto]. split.
  - rewrite app_length. lia.
  - now rewrite firstn_app_le.
Qed.

Lemma pres_A1 s s' : inv1 s -> NoClash s s' -> step s s' ->
  forall j t k, In (j, t, k) (acks s') -> t <= cur (nodes s' j) /\ k <= length (tlogs s' t).
Proof.
  intros I O H. pose proof (step_hist_le s s' I O H) as HL.
  assert (G : forall j t k, In (j, t, k) (acks s) -> k <= length (tlogs s' t)).
  { intros j t k Hin. destruct (i_A1 I _ _ _ Hin) as [_ B].
    destruct HL as (_ & _ & _ & _ & _ & HT). specialize (HT t). apply prefix_length in HT. lia. }
  inv_step H; intros j0 t0 k0 Hin.
  all: try (in_cons Hin); (split; [|try (apply (G _ _ _ Hin))]).
  all: upd_destr; try subst n; try (apply (i_A1 I _ _ _ Hin)).
  all: try (pose proof (proj1 (i_A1 I _ _ _ Hin)) as HC; simpl in HC; lia).
  all: try lia.
  - apply prefix_length in H1. rewrite firstn_length_le in H1; auto.
  - promises. apply (proj1 (PA _ _ Hin)).
Qed.

Lemma AN_cur s lg cu cu' t k : cu <= cu' -> AN_at lg cu s t k -> AN_at lg cu' s t k.
Proof.
  intros Hc [H|[w [A [B C]]]]; [left; auto|right]. exists w. repeat split; auto. lia.
Qed.

(* the follower step: adopting a prefix of the current leader's log keeps every acknowledgment
   honoured, or exhibits the leader that was elected without the acknowledged prefix *)
Lemma AN_replicate s j t k' k full :
  inv1 s -> In (j, t, k') (acks s) -> k <= k' ->
  prefix full (tlogs s (cur (nodes s j))) -> ~ prefix full (log (nodes s j)) ->
  AN_at (log (nodes s j)) (cur (nodes s j)) s t k -> AN_at full (cur (nodes s j)) s t k.
Proof.
  intros I Hin Hkk Hf Hnp [[A B]|H]; [|right; auto].
  destruct (i_A1 I _ _ _ Hin) as [Ht Hk']. assert (Hk : k <= length (tlogs s t)) by lia.
  set (w := cur (nodes s j)) in *.
  set (P := firstn k (tlogs s t)).
  assert (HP : firstn k (log (nodes s j)) = P).
  { unfold P. symmetry. apply firstn_prefix_of; auto. }
  assert (HPt : prefix P (tlogs s t)) by apply prefix_firstn.
  assert (HPl : length P = k) by (unfold P; apply firstn_length_le; auto).
  (* it suffices that P is a prefix of the leader log of w *)
  assert (Key : prefix P (tlogs s w) -> AN_at full w s t k).
  { intros HPw. left. destruct (le_lt_dec k (length full)) as [Hle|Hlt].
    - split; auto. assert (prefix P full) by (eapply prefix_of_same; eauto; lia).
      rewrite <- HPl. rewrite (prefix_firstn_eq H). exact HPt.
    - exfalso. apply Hnp. assert (prefix full P) by (eapply prefix_of_same; eauto; lia).
      eapply prefix_trans; [exact H|]. rewrite <- HP. apply prefix_firstn. }
  destruct (Nat.eq_dec t w) as [E|E].
  - apply Key. rewrite <- E. exact HPt.
  - destruct (i_T3 I w) as [E0|[c [el [q Hl]]]].
    + exfalso. apply Hnp. rewrite E0 in Hf. destruct Hf as [r Hr].
      destruct full; [apply prefix_nil | discriminate].
    + destruct (prefix_dec P el) as [Hpe|Hpe].
      * apply Key. eapply prefix_trans; [exact Hpe|]. apply (i_T2 I _ _ _ _ Hl).
      * right. exists w. repeat split; try lia. exists c, el, q. auto.
Qed.

Lemma AN_honoured_le s lg cu t k' k : k <= k' -> k' <= length lg -> prefix (firstn k' lg) (tlogs s t) ->
  AN_at lg cu s t k.
Proof.
  intros Hk Hl Hp. left. split; [lia|]. eapply prefix_trans; [|exact Hp].
  apply prefix_firstn_le. exact Hk.
Qed.

Lemma pres_AN s s' : inv1 s -> NoClash s s' -> step s s' ->
  forall j t k' k, In (j, t, k') (acks s') -> k <= k' ->
    AN_at (log (nodes s' j)) (cur (nodes s' j)) s' t k.
Proof.
  intros I O H. pose proof (step_hist_le s s' I O H) as HL.
  assert (G : forall j t k' k, In (j, t, k') (acks s) -> k <= k' ->
              AN_at (log (nodes s j)) (cur (nodes s j)) s' t k).
  { intros j t k' k Hin Hk. eapply AN_mono; eauto.
    - pose proof (proj2 (i_A1 I _ _ _ Hin)). lia.
    - apply (i_AN I _ _ _ _ Hin Hk). }
  inv_step H; intros j0 t0 k0' k0 Hin Hk0.
  all: try (in_cons Hin); upd_destr; try subst n; try (apply (G _ _ _ _ Hin Hk0)); try congruence.
  all: try (eapply AN_cur; [|apply (G _ _ _ _ Hin Hk0)]; simpl; lia).
  - apply AN_snoc. apply (G _ _ _ _ Hin Hk0).
  - apply (AN_replicate s j t0 k0' k0 full I Hin Hk0 H1 H2). apply (i_AN I _ _ _ _ Hin Hk0).
  - eapply AN_honoured_le; eauto.
  - promises. apply (proj2 (PA _ _ Hin) _ Hk0).
Qed.

(* ---------- CV ---------- *)

(* the up-to-date rule: a candidate log at least as up to date as a voter log that contains the
   prefix P (ending in an entry of term t) contains P, or a leader of a term strictly between was
   elected without P *)
Lemma uptodate_prefix s cl vl t k u :
  inv1 s ->
  LMlog (tlogs s) cl -> (forall e, In e cl -> eterm e < u) ->
  LMlog (tlogs s) vl -> uptodate cl vl = true ->
  k <= length vl -> prefix (firstn k vl) (tlogs s t) -> endst (firstn k vl) t ->
  prefix (firstn k vl) cl \/ exists w, t < w /\ w < u /\ lacking s (firstn k vl) w.
Proof.
  intros I Hcl Hclt Hvl Hup Hk HPt HPe.
  set (P := firstn k vl) in *.
  assert (HPl : length P = k) by (unfold P; apply firstn_length_le; auto).
  assert (HPv : prefix P vl) by apply prefix_firstn.
  destruct HPe as [P0 [e [HP He]]].
  assert (Hein : In e P) by (rewrite HP; apply in_or_app; right; left; auto).
  pose proof (LMlog_last _ _ Hvl) as Hv. pose proof (LMlog_last _ _ Hcl) as Hc.
  set (T := lastterm vl) in *. set (T' := lastterm cl) in *.
  assert (HtT : t <= T).
  { rewrite <- He. eapply tlogs_terms_le; eauto. eapply prefix_In; [exact Hv|]. eapply prefix_In; eauto. }
  unfold uptodate in Hup. apply orb_true_iff in Hup. destruct Hup as [Hlt|Heq].
  - apply Nat.ltb_lt in Hlt. fold T T' in Hlt.
    destruct (lastterm_pos cl T Hlt) as [cl0 [y [Hcy Hy]]]. fold T' in Hy.
    assert (Hyin : In y cl) by (rewrite Hcy; apply in_or_app; right; left; auto).
    assert (HTu : T' < u) by (rewrite <- Hy; auto).
    destruct (i_T3 I T') as [E0|[c2 [el2 [q2 Hl]]]].
    { rewrite E0 in Hc. destruct Hc as [r Hr]. rewrite Hcy in Hr. destruct cl0; discriminate. }
    destruct (prefix_dec P el2) as [Hpe|Hpe].
    + assert (HPT : prefix P (tlogs s T')).
      { eapply prefix_trans; [exact Hpe|]. apply (i_T2 I _ _ _ _ Hl). }
      destruct (le_lt_dec k (length cl)) as [Hle|Hgt].
      * left. eapply prefix_of_same; eauto. lia.
      * exfalso. assert (prefix cl P) by (eapply prefix_of_same; eauto; lia).
        assert (In y (tlogs s t)) by (eapply prefix_In; [exact HPt|]; eapply prefix_In; eauto).
        apply (tlogs_terms_le s t y I) in H0. lia.
    + right. exists T'. repeat split; try lia. exists c2, el2, q2. auto.
  - apply andb_true_iff in Heq. destruct Heq as [Heq Hlen]. apply Nat.eqb_eq in Heq. apply Nat.leb_le in Hlen.
    fold T T' in Heq. left. rewrite Heq in Hc.
    eapply prefix_trans; [exact HPv|]. eapply prefix_of_same; eauto.
Qed.

Lemma uptodate_refl l : uptodate l l = true.
Proof.
  unfold uptodate. apply orb_true_iff. right. rewrite Nat.eqb_refl, Nat.leb_refl. reflexivity.
Qed.

Lemma no_term0 s : inv1 s -> tlogs s 0 = [].
Proof.
  intros I. destruct (i_T3 I 0) as [?|[c [el [q Hl]]]]; auto.
  apply (i_L4 I) in Hl. apply (i_CB I) in Hl. unfold boot_term in Hl. lia.
Qed.

Lemma endst_nil t : ~ endst [] t.
Proof. intros [p0 [e [H _]]]. destruct p0; discriminate. Qed.

(* a new vote of j in its current term u, for a campaign with log cl that is up to date w.r.t. j's log *)
Lemma CV_new_grant s j cl t k' k :
  inv1 s ->
  LMlog (tlogs s) cl -> (forall e, In e cl -> eterm e < cur (nodes s j)) ->
  uptodate cl (log (nodes s j)) = true ->
  In (j, t, k') (acks s) -> k <= k' -> t < cur (nodes s j) -> endst (firstn k (tlogs s t)) t ->
  (forall c' el q, In (cur (nodes s j), c', el, q) (leaders s) -> ~ In j q) ->
  prefix (firstn k (tlogs s t)) cl \/
  (exists w, t < w /\ w < cur (nodes s j) /\ lacking s (firstn k (tlogs s t)) w) \/
  late s j (cur (nodes s j)).
Proof.
  intros I Hclm Hclt Hup Ha Hkk Ht He Hnq.
  destruct (i_A1 I _ _ _ Ha) as [_ Hk']. assert (Hk : k <= length (tlogs s t)) by lia.
  destruct (i_AN I _ _ _ _ Ha Hkk) as [[A B]|[w [A [B [c' [el [q [C D]]]]]]]].
  - assert (HP : firstn k (log (nodes s j)) = firstn k (tlogs s t)).
    { symmetry. apply firstn_prefix_of; auto. }
    rewrite <- HP in *.
    destruct (uptodate_prefix s cl (log (nodes s j)) t k (cur (nodes s j)) I) as [H|H]; auto.
    apply (i_LM I).
  - destruct (Nat.eq_dec w (cur (nodes s j))) as [E|E].
    + right. right. subst w. exists c', el, q. split; auto. eapply Hnq; eauto.
    + right. left. exists w. repeat split; try lia. exists c', el, q. auto.
Qed.

Definition CVc (s : gstate) (j u : nat) (cl : list entry) (t k : nat) : Prop :=
  prefix (firstn k (tlogs s t)) cl \/
  (exists w, t < w /\ w < u /\ lacking s (firstn k (tlogs s t)) w) \/
  late s j u.

Lemma CV_mono s s' j u c cl t k' k :
  inv1 s -> hist_le s s' ->
  In (j, u, c) (grants s) -> In (u, c, cl) (camps s) -> In (j, t, k') (acks s) -> k <= k' -> t < u ->
  endst (firstn k (tlogs s' t)) t -> CVc s' j u cl t k.
Proof.
  intros I HL Hg Hc Ha Hkk Ht He.
  destruct (i_A1 I _ _ _ Ha) as [_ Hk'].
  assert (E : firstn k (tlogs s' t) = firstn k (tlogs s t)) by (apply firstn_stable; [apply HL|lia]).
  unfold CVc. rewrite E in *.
  destruct (i_CV I _ _ _ _ _ _ _ Hg Hc Ha Hkk Ht He) as [H|[[w [A [B C]]]|H]].
  - left; auto.
  - right; left. exists w. repeat split; auto. eapply lacking_mono; [apply HL|eauto].
  - right; right. eapply late_mono; [apply HL|eauto].
Qed.

Lemma triple_in_dec (x : nat * nat * nat) l : {In x l} + {~ In x l}.
Proof. apply in_dec. decide equality; try apply Nat.eq_dec. decide equality; apply Nat.eq_dec. Qed.

Lemma endst_not_term0 s k : inv1 s -> ~ endst (firstn k (tlogs s 0)) 0.
Proof. intros I. rewrite (no_term0 s I). rewrite firstn_nil. apply endst_nil. Qed.

Lemma pres_CV s s' : inv1 s -> NoClash s s' -> step s s' ->
  forall j u c cl t k' k,
      In (j, u, c) (grants s') -> In (u, c, cl) (camps s') -> In (j, t, k') (acks s') -> k <= k' -> t < u ->
      endst (firstn k (tlogs s' t)) t -> CVc s' j u cl t k.
Proof.
  intros I O H. pose proof (step_hist_le s s' I O H) as HL.
  inv_step H; intros j0 u0 c0 cl0 t0 k0' k0 Hg Hc Ha Hkk Ht He.
  all: try (eapply (CV_mono s _ _ _ _ _ _ _ _ I HL); eauto; fail).
  all: subst n; change (CVc s j0 u0 cl0 t0 k0).
  all: assert (Ht0 : t0 <> 0) by (intros ->; eapply endst_not_term0; eauto).
  - (* ExposeCamp *)
    destruct (i_Cand I _ H0) as [Hc2 [Hcl [Hlt Hnl]]].
    destruct Hg as [Hg|Hg].
    + inversion Hg; subst; clear Hg.
      assert (cl0 = log (nodes s c0)).
      { destruct Hc as [Hc|Hc]; [inversion Hc; auto | auto]. }
      subst cl0.
      apply (CV_new_grant s c0 (log (nodes s c0)) t0 k0' k0 I); auto.
      * apply (i_LM I).
      * apply uptodate_refl.
      * intros c' el q Hl Hq. destruct (i_L1 I _ _ _ _ Hl) as [_ Hgr]. apply Hgr in Hq.
        destruct (i_G1 I _ _ _ Hq) as [?|[[_ Hv]|[Hb _]]]; try lia.
        -- assert (c' = c0) by congruence. subst c'. eapply Hnl; eauto.
        -- unfold boot_term in Hb. lia.
    + assert (Hc' : In (u0, c0, cl0) (camps s)).
      { destruct Hc as [Hc|Hc]; auto. inversion Hc; subst; clear Hc.
        destruct (i_G3 I _ _ _ Hg) as [cl' Hcl']. rewrite <- (Hcl _ Hcl'). exact Hcl'. }
      apply (i_CV I _ _ _ _ _ _ _ Hg Hc' Ha Hkk Ht He).
  - (* Grant *)
    destruct Hg as [Hg|Hg]; [|apply (i_CV I _ _ _ _ _ _ _ Hg Hc Ha Hkk Ht He)].
    inversion Hg; subst; clear Hg.
    destruct (triple_in_dec (j0, cur (nodes s j0), c0) (grants s)) as [Hold|Hnew].
    { apply (i_CV I _ _ _ _ _ _ _ Hold Hc Ha Hkk Ht He). }
    apply (CV_new_grant s j0 cl0 t0 k0' k0 I); auto.
    + eapply (i_CLM I); eauto.
    + eapply (i_CLT I); eauto.
    + rewrite (i_C2 I _ _ _ _ Hc H0). exact H3.
    + intros c' el q Hl Hq. destruct (i_L1 I _ _ _ _ Hl) as [_ Hgr]. apply Hgr in Hq.
      destruct (i_G1 I _ _ _ Hq) as [?|[[_ Hv]|[Hb _]]]; try lia.
      * destruct H2 as [H2|H2]; [congruence|]. assert (c' = c0) by congruence. subst c'. auto.
      * unfold boot_term in Hb. lia.
  - (* Ack *)
    destruct Ha as [Ha|Ha]; [|apply (i_CV I _ _ _ _ _ _ _ Hg Hc Ha Hkk Ht He)].
    inversion Ha; subst; clear Ha. exfalso.
    destruct (i_G1 I _ _ _ Hg) as [?|[[? _]|[Hb _]]]; try lia.
    unfold boot_term in Hb. lia.
Qed.
