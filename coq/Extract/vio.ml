(* vio.ml — shared I/O helpers for the extracted models (trusted glue, no arithmetic of its own).
   Compiled after the group's extracted model.ml (which defines positive / n / z). *)
open Model

let rec pos_of_int (i : int) : positive =
  if i <= 1 then XH
  else if i land 1 = 0 then XO (pos_of_int (i lsr 1))
  else XI (pos_of_int (i lsr 1))
let n_of_int (i : int) : n = if i <= 0 then N0 else Npos (pos_of_int i)
let rec int_of_pos = function XH -> 1 | XO p -> 2 * int_of_pos p | XI p -> 2 * int_of_pos p + 1
let int_of_n = function N0 -> 0 | Npos p -> int_of_pos p
let z_of_int (i : int) : z = if i = 0 then Z0 else if i > 0 then Zpos (pos_of_int i) else Zneg (pos_of_int (- i))
let int_of_z = function Z0 -> 0 | Zpos p -> int_of_pos p | Zneg p -> - (int_of_pos p)
let rec nat_of_int (i : int) : nat = if i <= 0 then O else S (nat_of_int (i - 1))
let rec int_of_nat = function O -> 0 | S n -> 1 + int_of_nat n

(* arbitrary-size numbers travel as hex strings (no 63-bit limit) *)
let hexval c = match c with
  | '0'..'9' -> Char.code c - 48 | 'a'..'f' -> Char.code c - 87 | 'A'..'F' -> Char.code c - 55
  | _ -> failwith ("bad hex digit " ^ String.make 1 c)
let n_of_hex (s : string) : n =
  let acc = ref None in
  String.iter (fun c ->
    let v = hexval c in
    for k = 3 downto 0 do
      let b = (v lsr k) land 1 = 1 in
      acc := (match !acc with
              | None -> if b then Some XH else None
              | Some p -> Some (if b then XI p else XO p))
    done) s;
  match !acc with None -> N0 | Some p -> Npos p
let hex_of_n (x : n) : string =
  match x with
  | N0 -> "0"
  | Npos p ->
    let rec bits p acc = match p with XH -> true :: acc | XO q -> bits q (false :: acc) | XI q -> bits q (true :: acc) in
    (* bits returns msb first *)
    let bl = bits p [] in
    let len = List.length bl in
    let pad = (4 - len mod 4) mod 4 in
    let bl = (List.init pad (fun _ -> false)) @ bl in
    let buf = Buffer.create 16 in
    let rec go = function
      | a :: b :: c :: d :: r ->
        let v = (if a then 8 else 0) + (if b then 4 else 0) + (if c then 2 else 0) + (if d then 1 else 0) in
        Buffer.add_char buf "0123456789abcdef".[v]; go r
      | [] -> ()
      | _ -> assert false in
    go bl; Buffer.contents buf
let z_of_hex (s : string) : z =
  if String.length s > 0 && s.[0] = '-' then
    (match n_of_hex (String.sub s 1 (String.length s - 1)) with N0 -> Z0 | Npos p -> Zneg p)
  else (match n_of_hex s with N0 -> Z0 | Npos p -> Zpos p)
let hex_of_z = function Z0 -> "0" | Zpos p -> hex_of_n (Npos p) | Zneg p -> "-" ^ hex_of_n (Npos p)

(* decimal for numbers known to fit in 62 bits *)
let dec_of_n x = string_of_int (int_of_n x)
let n_of_dec s = n_of_int (int_of_string s)

(* byte strings travel as hex; the empty string is "-" *)
let bytes_of_hex (s : string) : n list =
  if s = "-" then [] else
  let l = String.length s / 2 in
  List.init l (fun i -> n_of_int (hexval s.[2*i] * 16 + hexval s.[2*i+1]))
let hex_of_bytes (bs : n list) : string =
  if bs = [] then "-" else
  String.concat "" (List.map (fun b -> Printf.sprintf "%02x" (int_of_n b)) bs)

let split_on c s = String.split_on_char c s
let read_lines (ic : in_channel) (f : string -> unit) : unit =
  try while true do f (input_line ic) done with End_of_file -> ()
