(* driver for the C11 model: reads case lines on stdin, prints "<id>\t<model output>" *)
open Model
open Vio

(* an argument: hex, or "<hexprefix>~<n>~<bb>" = prefix followed by n times the byte bb *)
let bytes_of_arg (s : string) : n list =
  if String.contains s '~' then
    (match split_on '~' s with
     | [p; cnt; bb] ->
       let pre = if p = "" then [] else bytes_of_hex p in
       let b = n_of_int (hexval bb.[0] * 16 + hexval bb.[1]) in
       pre @ List.init (int_of_string cnt) (fun _ -> b)
     | _ -> failwith ("bad compact argument " ^ s))
  else bytes_of_hex s
(* inverse of bytes_of_arg, same rule as the harness (enc.go encB) *)
let arg_of_bytes (bs : n list) : string =
  let len = List.length bs in
  if len > 512 then begin
    let arr = Array.of_list (List.map int_of_n bs) in
    let last = arr.(len - 1) in
    let i = ref len in
    while !i > 0 && arr.(!i - 1) = last do decr i done;
    if !i <= 64 then
      (if !i > 0 then String.concat "" (List.init !i (fun k -> Printf.sprintf "%02x" arr.(k))) else "")
      ^ Printf.sprintf "~%d~%02x" (len - !i) last
    else hex_of_bytes bs
  end else hex_of_bytes bs
let list_of_field (s : string) : n list list =
  if s = "" then [] else List.map bytes_of_arg (split_on ',' s)

(* float oracle of one case: "hexarg:hexbits" or "hexarg:e", comma separated; "-" = empty *)
let pf_of_field (s : string) : (n list -> n option) =
  let tbl = if s = "-" || s = "" then [] else
    List.map (fun e ->
      match split_on ':' e with
      | [a; "e"] -> (bytes_of_hex a, None)
      | [a; b] -> (bytes_of_hex a, Some (n_of_hex b))
      | _ -> failwith ("bad float entry " ^ e)) (split_on ',' s) in
  fun b -> (try List.assoc b tbl with Not_found -> None)

let fact_of_field (s : string) : fact =
  match split_on ':' s with
  | ["n"; "e"] -> FCnt None
  | ["n"; "0"] -> FCnt (Some false)
  | ["n"; "p"] -> FCnt (Some true)
  | ["x"; "1"] -> FExists true
  | ["x"; "0"] -> FExists false
  | ["g"; "e"] -> FGet None
  | ["g"; "eq"] -> FGet (Some true)
  | ["g"; "ne"] -> FGet (Some false)
  | ["b"; bits] -> FBits (List.init (String.length bits) (fun i -> bits.[i] = '1'))
  | _ -> FNone

let ns = bytes_of_hex "766e73"   (* "vns": the namespace the harness configures *)

let () =
  read_lines stdin (fun line ->
    match split_on '\t' line with
    | id :: "L" :: args :: facts :: floats :: _ ->
      let out = (match handle (pf_of_field floats) ns (list_of_field args) (fact_of_field facts) with
                 | VRead -> "read"
                 | VMergeRead -> "mread"
                 | VWrite LRej -> "noprop-err"
                 | VWrite LLocalErr -> "local-err"
                 | VWrite LLocalOk -> "local-ok"
                 | VWrite LNoReply -> "noreply"
                 | VWrite (LProp (_, a)) -> "prop " ^ String.concat "," (List.map arg_of_bytes a)) in
      Printf.printf "%s\t%s\n" id out
    | id :: "A" :: form :: args :: floats :: _ ->
      let out = (match apply_shape (pf_of_field floats) (form = "2") (list_of_field args) with
                 | APanic -> "panic"
                 | AErr e -> "nopanic perr " ^ hex_of_bytes (err_prefix e)
                 | AReach -> "nopanic store") in
      Printf.printf "%s\t%s\n" id out
    | id :: "B" :: ts :: args :: _ ->
      let a = list_of_field args in
      let name = (match a with n0 :: _ -> lower n0 | [] -> []) in
      Printf.printf "%s\t%s\n" id (if valid_batchable name a (z_of_int (int_of_string ts)) then "1" else "0")
    | id :: "U" :: text :: _ ->
      Printf.printf "%s\t%s\n" id (if is_unrecovery (bytes_of_hex text) then "1" else "0")
    | _ -> ())
