(* Valid/Extract.v — extraction of the C11 model (ExtrOcamlBasic only) *)
From Coq Require Import ExtrOcamlBasic.
From ZV Require Import Valid.Model.
Extraction Language OCaml.
Extraction "model.ml" Z.of_N N.of_nat Nat.add handle apply_shape parse_int is_unrecovery err_prefix valid_batchable lower.
