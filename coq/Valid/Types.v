(* Valid/Types.v — C11: types of the generated registration table (Consts.v). Model only. *)
From Coq Require Export List NArith.
From Coq.Strings Require Export Byte.
Export ListNotations.

(* identifiers and command names as written in the Go source: byte strings with a literal notation
   of their own (Coq's [string] is avoided: its extracted type would shadow OCaml's). *)
Inductive gname := Name (l : list Byte.byte).
Definition gname_parse (l : list Byte.byte) : gname := Name l.
Definition gname_print (s : gname) : list Byte.byte := match s with Name l => l end.
Declare Scope gname_scope.
Delimit Scope gname_scope with gname.
String Notation gname gname_parse gname_print : gname_scope.

Fixpoint bl_eqb (a b : list Byte.byte) : bool :=
  match a, b with
  | [], [] => true
  | x :: a', y :: b' => Byte.eqb x y && bl_eqb a' b'
  | _, _ => false
  end.
Definition gname_eqb (a b : gname) : bool := bl_eqb (gname_print a) (gname_print b).
Definition bytes_of_gname (s : gname) : list N := map Byte.to_N (gname_print s).

(* which router table an entry is in: common.CmdRouter rcmds / wcmds / mergeCmds / mergeWriteCmds,
   common.SMCmdRouter smCmds *)
Inductive kind := KRead | KWrite | KMerge | KMergeWrite | KInternal.

(* one registration as written in node/node_cmd_reg.go:
     r_wrap   = name of the wrapper function called ("wrapWriteCommandKV", ...), "direct" when a
                method value is registered as is, "unknown" when it could not be determined;
     r_params = the wrapper call's arguments as written (identifiers, literals), or [method] *)
Record reg := mkreg { r_kind : kind; r_name : gname; r_wrap : gname; r_params : list gname }.

Definition kind_eqb (a b : kind) : bool :=
  match a, b with
  | KRead, KRead | KWrite, KWrite | KMerge, KMerge | KMergeWrite, KMergeWrite | KInternal, KInternal => true
  | _, _ => false
  end.
