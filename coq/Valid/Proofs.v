(* Valid/Proofs.v — C11: proofs about the validation model.
   Main result: whatever a leader proposes (for every entry of the generated registration table and
   all argument vectors) is applied without a Go panic by the registered apply handler. *)
From ZV Require Import Common.Bytes Common.BytesFacts Valid.Types Valid.Consts Valid.Model.
From Coq Require Import Lia ZifyBool ZifyNat Bool Arith.
Open Scope gname_scope.
Open Scope N_scope.

(* ApplyRaftRequest indexes cmd.Args[1] before dispatch: a one-argument command always panics there *)
Lemma apply_short_panics : forall pf v2 args, (length args < 2)%nat -> apply_shape pf v2 args = APanic.
Proof.
  intros pf v2 args H. destruct args as [|a [|b r]]; simpl in *; try reflexivity. lia.
Qed.

(* ---------- names ---------- *)
Lemma bl_eqb_eq a b : bl_eqb a b = true -> a = b.
Proof.
  revert b. induction a as [|x a IH]; destruct b as [|y b]; simpl; try discriminate; [reflexivity|].
  intro H. apply andb_prop in H. destruct H as [H1 H2].
  apply Byte.byte_dec_bl in H1. subst y. f_equal. apply IH. exact H2.
Qed.
Lemma gname_eqb_eq a b : gname_eqb a b = true -> a = b.
Proof. destruct a as [x], b as [y]. unfold gname_eqb. simpl. intro H. f_equal. apply bl_eqb_eq. exact H. Qed.

(* ---------- parity ---------- *)
Lemma even_true_ex n : Nat.even n = true -> exists k, n = (2 * k)%nat.
Proof. intro H. apply Nat.even_spec in H. destruct H as [k Hk]. exists k. lia. Qed.
Lemma even_false_ex n : Nat.even n = false -> exists k, n = (2 * k + 1)%nat.
Proof.
  intro H. assert (Ho : Nat.odd n = true) by (unfold Nat.odd; rewrite H; reflexivity).
  apply Nat.odd_spec in Ho. destruct Ho as [k Hk]. exists k. lia.
Qed.
Lemma even_2k k : Nat.even (2 * k) = true.
Proof. apply Nat.even_spec. exists k. lia. Qed.
Lemma even_2k1 k : Nat.even (2 * k + 1) = false.
Proof.
  destruct (Nat.even (2 * k + 1)) eqn:E; [|reflexivity].
  apply even_true_ex in E. destruct E as [j Hj]. lia.
Qed.

(* ---------- arity specifications: lo <= n <= hi, optional parity ---------- *)
Record aspec := mkA { lo : nat; hi : option nat; par : option bool }.
Definition sat (s : aspec) (n : nat) : bool :=
  Nat.leb (lo s) n
  && match hi s with Some h => Nat.leb n h | None => true end
  && match par s with Some b => Bool.eqb (Nat.even n) b | None => true end.
Definition entails (g r : aspec) : bool :=
  Nat.leb (lo r) (lo g)
  && match hi r with
     | None => true
     | Some hr => match hi g with Some hg => Nat.leb hg hr | None => false end
     end
  && match par r with
     | None => true
     | Some b => match par g with Some b' => Bool.eqb b' b | None => false end
     end.
Lemma entails_sound g r n : entails g r = true -> sat g n = true -> sat r n = true.
Proof.
  unfold entails, sat. intros He Hs.
  apply andb_prop in He. destruct He as [He Hp]. apply andb_prop in He. destruct He as [Hl Hh].
  apply andb_prop in Hs. destruct Hs as [Hs Hsp]. apply andb_prop in Hs. destruct Hs as [Hsl Hsh].
  apply andb_true_intro. split; [apply andb_true_intro; split|].
  - lia.
  - destruct (hi r) as [hr|]; [|reflexivity]. destruct (hi g) as [hg|]; [|discriminate]. lia.
  - destruct (par r) as [b|]; [|reflexivity]. destruct (par g) as [b'|]; [|discriminate].
    apply Bool.eqb_prop in Hp. subst b'. exact Hsp.
Qed.
Lemma sat_lo s n : sat s n = true -> (lo s <= n)%nat.
Proof. unfold sat. intro H. apply andb_prop in H. destruct H as [H _]. apply andb_prop in H. destruct H as [H _]. lia. Qed.
Lemma sat_par s n b : par s = Some b -> sat s n = true -> Nat.even n = b.
Proof. unfold sat. intros Hp H. rewrite Hp in H. apply andb_prop in H. destruct H as [_ H]. apply Bool.eqb_prop in H. exact H. Qed.
Lemma sat_intro lo0 hi0 par0 n :
  (lo0 <= n)%nat -> (match hi0 with Some h => (n <= h)%nat | None => True end) ->
  (match par0 with Some b => Nat.even n = b | None => True end) -> sat (mkA lo0 hi0 par0) n = true.
Proof.
  intros Hl Hh Hp. unfold sat; simpl. apply andb_true_intro; split; [apply andb_true_intro; split|].
  - lia.
  - destruct hi0; [lia|reflexivity].
  - destruct par0; [rewrite Hp; apply Bool.eqb_reflx|reflexivity].
Qed.

(* ====================== apply side ====================== *)
Section Apply.
Variable pf : bytes -> option N.

Lemma need_ok a i k : (i < alen a)%nat -> need a i k = k.
Proof. unfold need. intro H. destruct (Nat.ltb i (alen a)) eqn:E; [reflexivity|lia]. Qed.
Lemma need_slice_ok a i k : (i <= alen a)%nat -> need_slice a i k = k.
Proof. unfold need_slice. intro H. destruct (Nat.leb i (alen a)) eqn:E; [reflexivity|lia]. Qed.
Lemma parse_i_np a i k : (i < alen a)%nat -> k <> APanic -> parse_i a i k <> APanic.
Proof. unfold parse_i. intros H Hk. rewrite need_ok by exact H. destruct (parse_int (arg a i)); [exact Hk|discriminate]. Qed.
Lemma parse_a_np a i k : (i < alen a)%nat -> k <> APanic -> parse_a a i k <> APanic.
Proof. unfold parse_a. intros H Hk. rewrite need_ok by exact H. destruct (parse_int (arg a i)); [exact Hk|discriminate]. Qed.
Lemma parse_f_np a i k : (i < alen a)%nat -> k <> APanic -> parse_f pf a i k <> APanic.
Proof. unfold parse_f. intros H Hk. rewrite need_ok by exact H. destruct (pf (arg a i)); [exact Hk|discriminate]. Qed.

Lemma score_pairs_even l : Nat.even (length l) = true -> score_pairs pf l <> PairsPanic.
Proof.
  remember (length l) as n eqn:Hn. revert l Hn.
  induction n as [n IH] using lt_wf_ind. intros l Hn He.
  destruct l as [|s [|m rest]].
  - discriminate.
  - simpl in Hn. subst n. discriminate.
  - cbn [score_pairs].
    destruct (pf s) as [x|]; [|discriminate].
    destruct (f_isnan x); [discriminate|].
    apply (IH (length rest)); [simpl in Hn; lia|reflexivity|].
    simpl in Hn. subst n. simpl in He. exact He.
Qed.

(* sufficient argument counts of the apply handlers, by method name (same case analysis as
   Model.apply_handler); an unknown method needs the impossible *)
Definition A_ge (n : nat) := mkA n None None.
Definition needs (m : gname) : aspec :=
  let is s := gname_eqb m s in
  if is "localNoOpWriteCommand" then A_ge 0
  else if is "localDelCommand" || is "localHMClearCommand" || is "localLMClearCommand"
       || is "localZMClearCommand" || is "localSmclear" then A_ge 1
  else if is "localDelIfEQCommand" || is "localGetSetCommand" || is "localSetnxCommand" || is "localAppendCommand" then A_ge 3
  else if is "localSetCommand" then A_ge 3
  else if is "localSetIfEQCommand" then A_ge 4
  else if is "localSetRangeCommand" then A_ge 4
  else if is "localBitSetCommand" || is "localBitSetV2Command" then A_ge 4
  else if is "localMSetCommand" then mkA 1 None (Some false)
  else if is "localIncrCommand" || is "localBitClearCommand" || is "localHclearCommand" || is "localLfixkeyCommand"
       || is "localLpopCommand" || is "localRpopCommand" || is "localLclearCommand" || is "localZFixKeyCommand"
       || is "localSclear" || is "localPersistCommand" || is "localHashPersistCommand" || is "localListPersistCommand"
       || is "localSetPersistCommand" || is "localZSetPersistCommand" || is "localBitPersistCommand"
       || is "localJSONDelCommand" || is "localJSONArrayPopCommand" then A_ge 2
  else if is "localIncrByCommand" then A_ge 3
  else if is "localPlsetCommand" then A_ge 0
  else if is "localPFAddCommand" || is "localHDelCommand" || is "localLpushCommand" || is "localRpushCommand"
       || is "localSadd" || is "localSrem" then A_ge 2
  else if is "localHSetCommand" || is "localHSetNXCommand" || is "localJSONSetCommand" then A_ge 4
  else if is "localHMsetCommand" then A_ge 2
  else if is "localHIncrbyCommand" then A_ge 4
  else if is "localJSONArrayAppendCommand" then A_ge 3
  else if is "localLsetCommand" then A_ge 4
  else if is "localLtrimCommand" then A_ge 4
  else if is "localZaddCommand" then mkA 2 None (Some true)
  else if is "localZincrbyCommand" then A_ge 4
  else if is "localZremCommand" then A_ge 0
  else if is "localZremrangebyrankCommand" then A_ge 4
  else if is "localZremrangebyscoreCommand" then A_ge 4
  else if is "localZremrangebylexCommand" then A_ge 4
  else if is "localZclearCommand" then A_ge 0
  else if is "localSpop" then A_ge 2
  else if is "localSetexCommand" then A_ge 4
  else if is "localExpireCommand" || is "localListExpireCommand" || is "localHashExpireCommand"
       || is "localSetExpireCommand" || is "localZSetExpireCommand" || is "localBitExpireCommand" then A_ge 3
  else mkA 1 (Some 0%nat) None.

Ltac np :=
  repeat first
    [ rewrite need_ok by lia
    | rewrite need_slice_ok by lia
    | apply parse_i_np; [lia|]
    | apply parse_a_np; [lia|]
    | apply parse_f_np; [lia|]
    | discriminate
    | match goal with |- (if ?c then _ else _) <> APanic => destruct c eqn:? end
    | match goal with |- (match ?c with _ => _ end) <> APanic => destruct c eqn:? end ].

(* per shape function *)
Lemma np_localRest1 a : (1 <= alen a)%nat -> localRest1 a <> APanic.
Proof. intro H. unfold localRest1. np. Qed.
Lemma np_localKeyOnly a : (2 <= alen a)%nat -> localKeyOnly a <> APanic.
Proof. intro H. unfold localKeyOnly. np. Qed.
Lemma np_localKV a : (3 <= alen a)%nat -> localKV a <> APanic.
Proof. intro H. unfold localKV. np. Qed.
Lemma np_localK3 a : (4 <= alen a)%nat -> localK3 a <> APanic.
Proof. intro H. unfold localK3. np. Qed.
Lemma np_localKRest a : (2 <= alen a)%nat -> localKRest a <> APanic.
Proof. intro H. unfold localKRest. np. Qed.
Lemma np_localExpire a : (3 <= alen a)%nat -> localExpire a <> APanic.
Proof. intro H. unfold localExpire. np. Qed.
Lemma np_localSetCommand a : (3 <= alen a)%nat -> localSetCommand a <> APanic.
Proof. intro H. unfold localSetCommand, localKV. np. Qed.
Lemma np_localSetIfEQCommand a : (4 <= alen a)%nat -> localSetIfEQCommand a <> APanic.
Proof. intro H. unfold localSetIfEQCommand, localK3. np. Qed.
Lemma np_localMSetCommand a : (1 <= alen a)%nat -> Nat.even (alen a) = false -> localMSetCommand a <> APanic.
Proof.
  intros H He. unfold localMSetCommand. rewrite need_slice_ok by lia.
  apply even_false_ex in He. destruct He as [k Hk]. rewrite Hk.
  replace (2 * k + 1 - 1)%nat with (2 * k)%nat by lia. rewrite even_2k. discriminate.
Qed.
Lemma np_localIncrByCommand a : (3 <= alen a)%nat -> localIncrByCommand a <> APanic.
Proof. intro H. unfold localIncrByCommand. np. Qed.
Lemma np_localBitSetV2Command a : (4 <= alen a)%nat -> localBitSetV2Command a <> APanic.
Proof. intro H. unfold localBitSetV2Command. np. Qed.
Lemma np_localSetRangeCommand a : (4 <= alen a)%nat -> localSetRangeCommand a <> APanic.
Proof. intro H. unfold localSetRangeCommand. np. Qed.
Lemma np_localHMsetCommand a : (2 <= alen a)%nat -> localHMsetCommand a <> APanic.
Proof. intro H. unfold localHMsetCommand. np. Qed.
Lemma np_localHIncrbyCommand a : (4 <= alen a)%nat -> localHIncrbyCommand a <> APanic.
Proof. intro H. unfold localHIncrbyCommand. np. Qed.
Lemma np_localJSONArrayAppendCommand a : (3 <= alen a)%nat -> localJSONArrayAppendCommand a <> APanic.
Proof. intro H. unfold localJSONArrayAppendCommand. np. Qed.
Lemma np_localLsetCommand a : (4 <= alen a)%nat -> localLsetCommand a <> APanic.
Proof. intro H. unfold localLsetCommand. np. Qed.
Lemma np_localLtrimCommand a : (4 <= alen a)%nat -> localLtrimCommand a <> APanic.
Proof. intro H. unfold localLtrimCommand. np. Qed.
Lemma np_localZaddCommand a : (2 <= alen a)%nat -> Nat.even (alen a) = true -> localZaddCommand pf a <> APanic.
Proof.
  intros H He. unfold localZaddCommand. rewrite need_slice_ok by lia.
  assert (Hs : score_pairs pf (skipn 2 a) <> PairsPanic).
  { apply score_pairs_even. rewrite skipn_length. unfold alen in *.
    apply even_true_ex in He. destruct He as [k Hk]. rewrite Hk.
    replace (2 * k - 2)%nat with (2 * (k - 1))%nat by lia. apply even_2k. }
  destruct (score_pairs pf (skipn 2 a)); [np|discriminate|congruence].
Qed.
Lemma np_localZincrbyCommand a : (4 <= alen a)%nat -> localZincrbyCommand pf a <> APanic.
Proof. intro H. unfold localZincrbyCommand. np. Qed.
Lemma np_localZremCommand a : localZremCommand a <> APanic.
Proof. unfold localZremCommand. np. Qed.
Lemma np_localZremrangebyrankCommand a : (4 <= alen a)%nat -> localZremrangebyrankCommand a <> APanic.
Proof. intro H. unfold localZremrangebyrankCommand. np. Qed.
Lemma np_localZremrangebyscoreCommand a : (4 <= alen a)%nat -> localZremrangebyscoreCommand pf a <> APanic.
Proof. intro H. unfold localZremrangebyscoreCommand. np. Qed.
Lemma np_localZremrangebylexCommand a : (4 <= alen a)%nat -> localZremrangebylexCommand a <> APanic.
Proof. intro H. unfold localZremrangebylexCommand. np. Qed.
Lemma np_localZclearCommand a : localZclearCommand a <> APanic.
Proof. unfold localZclearCommand. np. Qed.
Lemma np_localSpop a : (2 <= alen a)%nat -> localSpop a <> APanic.
Proof. intro H. unfold localSpop. destruct (Nat.eqb (alen a) 3) eqn:E; np. Qed.
Lemma np_localSetexCommand a : (4 <= alen a)%nat -> localSetexCommand a <> APanic.
Proof. intro H. unfold localSetexCommand. np. Qed.
Lemma np_localPlsetCommand a : localPlsetCommand a <> APanic.
Proof. unfold localPlsetCommand. np. Qed.

(* the table of needs is sufficient for every method name *)
Ltac np_dispatch H :=
  lazymatch goal with
  | |- AReach <> APanic => discriminate
  | |- APanic <> APanic =>
    exfalso; unfold sat in H; cbn in H; apply andb_prop in H; destruct H as [H _]; apply andb_prop in H; lia
  | |- localRest1 _ <> _ => apply np_localRest1; lia
  | |- localKeyOnly _ <> _ => apply np_localKeyOnly; lia
  | |- localKV _ <> _ => apply np_localKV; lia
  | |- localK3 _ <> _ => apply np_localK3; lia
  | |- localKRest _ <> _ => apply np_localKRest; lia
  | |- localExpire _ <> _ => apply np_localExpire; lia
  | |- localSetCommand _ <> _ => apply np_localSetCommand; lia
  | |- localSetIfEQCommand _ <> _ => apply np_localSetIfEQCommand; lia
  | |- localIncrByCommand _ <> _ => apply np_localIncrByCommand; lia
  | |- localBitSetV2Command _ <> _ => apply np_localBitSetV2Command; lia
  | |- localSetRangeCommand _ <> _ => apply np_localSetRangeCommand; lia
  | |- localHMsetCommand _ <> _ => apply np_localHMsetCommand; lia
  | |- localHIncrbyCommand _ <> _ => apply np_localHIncrbyCommand; lia
  | |- localJSONArrayAppendCommand _ <> _ => apply np_localJSONArrayAppendCommand; lia
  | |- localLsetCommand _ <> _ => apply np_localLsetCommand; lia
  | |- localLtrimCommand _ <> _ => apply np_localLtrimCommand; lia
  | |- localZincrbyCommand _ _ <> _ => apply np_localZincrbyCommand; lia
  | |- localZremCommand _ <> _ => apply np_localZremCommand
  | |- localZremrangebyrankCommand _ <> _ => apply np_localZremrangebyrankCommand; lia
  | |- localZremrangebyscoreCommand _ _ <> _ => apply np_localZremrangebyscoreCommand; lia
  | |- localZremrangebylexCommand _ <> _ => apply np_localZremrangebylexCommand; lia
  | |- localZclearCommand _ <> _ => apply np_localZclearCommand
  | |- localSpop _ <> _ => apply np_localSpop; lia
  | |- localSetexCommand _ <> _ => apply np_localSetexCommand; lia
  | |- localPlsetCommand _ <> _ => apply np_localPlsetCommand
  | |- localMSetCommand _ <> _ => apply np_localMSetCommand; [lia | eapply sat_par; [|exact H]; reflexivity]
  | |- localZaddCommand _ _ <> _ => apply np_localZaddCommand; [lia | eapply sat_par; [|exact H]; reflexivity]
  end.

Lemma needs_sound m a : sat (needs m) (alen a) = true -> apply_handler pf m a <> APanic.
Proof.
  unfold needs, apply_handler. intro H.
  repeat match type of H with
  | context [gname_eqb m ?s] =>
    let E := fresh "E" in destruct (gname_eqb m s) eqn:E; cbn [orb] in H |- *; clear E
  end;
  pose proof (sat_lo _ _ H) as Hlo; cbn in Hlo; np_dispatch H.
Qed.

End Apply.

(* ====================== leader side ====================== *)
Definition A_eq (n : nat) := mkA n (Some n) None.

(* what an accepted command guarantees about the proposed argument count, by wrapper / handler
   (same case analysis as Model.leader_write); None for an unknown wrapper *)
Definition guar_write (wrap : gname) (ps : list gname) : option aspec :=
  if gname_eqb wrap "wrapWriteCommandK" then Some (A_eq 2)
  else if gname_eqb wrap "wrapWriteCommandKSubkey" then Some (A_eq 3)
  else if gname_eqb wrap "wrapWriteCommandKSubkeySubkey" then Some (A_ge 3)
  else if gname_eqb wrap "wrapWriteCommandKAnySubkey" then Some (A_ge (2 + N_of_digits (param ps 2)))
  else if gname_eqb wrap "wrapWriteCommandKAnySubkeyAndMax" then
    Some (mkA (2 + N_of_digits (param ps 2)) (Some (2 + N_of_digits (param ps 3))%nat) None)
  else if gname_eqb wrap "wrapWriteCommandKV" then Some (A_eq 3)
  else if gname_eqb wrap "wrapWriteCommandKVV" then Some (A_eq 4)
  else if gname_eqb wrap "wrapWriteCommandKSubkeyV" then Some (A_eq 4)
  else if gname_eqb wrap "wrapWriteCommandKSubkeyVSubkeyV" then Some (mkA 4 None (Some true))
  else if gname_eqb wrap "direct" then
    let m := param ps 0 in
    if gname_eqb m "setCommand" then Some (A_ge 3)
    else if gname_eqb m "setnxCommand" then Some (A_eq 3)
    else if gname_eqb m "setIfEQCommand" then Some (mkA 4 (Some 6%nat) (Some true))
    else if gname_eqb m "delIfEQCommand" then Some (A_eq 3)
    else if gname_eqb m "setbitCommand" then Some (A_eq 4)
    else if gname_eqb m "setrangeCommand" then Some (A_ge 4)
    else if gname_eqb m "lsetCommand" then Some (A_eq 4)
    else if gname_eqb m "ltrimCommand" then Some (A_eq 4)
    else if gname_eqb m "zaddCommand" then Some (mkA 4 None (Some true))
    else if gname_eqb m "zremCommand" then Some (A_ge 3)
    else if gname_eqb m "zincrbyCommand" then Some (A_eq 4)
    else if gname_eqb m "zremrangebyrankCommand" then Some (A_eq 4)
    else if gname_eqb m "zremrangebyscoreCommand" then Some (A_eq 4)
    else if gname_eqb m "zremrangebylexCommand" then Some (A_eq 4)
    else if gname_eqb m "spopCommand" then Some (mkA 2 (Some 3%nat) None)
    else if gname_eqb m "saddCommand" then Some (A_ge 3)
    else if gname_eqb m "sremCommand" then Some (A_ge 3)
    else if gname_eqb m "geoaddCommand" then Some (mkA 2 None (Some true))
    else None
  else None.

(* the name under which the proposal is applied: GEOADD is proposed as ZADD *)
Definition applied_name (r : reg) : gname :=
  if gname_eqb (r_wrap r) "direct" && gname_eqb (param (r_params r) 0) "geoaddCommand" then "zadd" else r_name r.

Section Leader.
Variable pf : bytes -> option N.

Lemma propose_first_spec args n a :
  propose_first args = LProp n a ->
  exists k k' rest, args = n :: k :: rest /\ a = n :: k' :: rest /\ cut_ns k = Some k'.
Proof.
  destruct args as [|n0 [|k rest]]; simpl; try discriminate.
  destruct (cut_ns k) as [k'|] eqn:E; [|discriminate]. intro H. inversion H; subst. eauto 7.
Qed.
Lemma propose_first_len args n a : propose_first args = LProp n a -> length a = length args.
Proof. intro H. apply propose_first_spec in H. destruct H as (k & k' & rest & -> & -> & _). reflexivity. Qed.

(* the relation every proposal satisfies *)
Definition prop_ok (g : aspec) (geo : bool) (args : list bytes) (n : bytes) (a : list bytes) : Prop :=
  sat g (length a) = true /\
  (exists k' rest, a = n :: k' :: rest /\ cut_ns (arg args 1) = Some k') /\
  (if geo then n = B "zadd" else lower n = lower (hd [] args)).

Lemma prop_ok_first g args n a :
  propose_first args = LProp n a -> sat g (length args) = true -> prop_ok g false args n a.
Proof.
  intros H Hs. pose proof (propose_first_len _ _ _ H) as Hl.
  apply propose_first_spec in H. destruct H as (k & k' & rest & -> & -> & Hc).
  split; [exact Hs|]. split; [|reflexivity]. exists k', rest. split; [reflexivity|exact Hc].
Qed.

Ltac destr_in H :=
  repeat match type of H with
  | context [if ?c then _ else _] => let E := fresh "C" in destruct c eqn:E; try discriminate H
  | context [match ?c with _ => _ end] => let E := fresh "C" in destruct c eqn:E; try discriminate H
  end.

Ltac sat_lia := apply sat_intro; cbn; unfold alen in *; try lia; try exact I.

Lemma wrap_common_spec g args ok n a :
  wrap_common args ok = LProp n a -> (ok = true -> sat g (length args) = true) -> prop_ok g false args n a.
Proof.
  unfold wrap_common. intros H Hg. destr_in H. apply prop_ok_first; [exact H|]. apply Hg.
  destruct ok; [reflexivity|discriminate].
Qed.

Lemma spec_wrapK pc args f n a : wrapWriteCommandK pc args f = LProp n a -> prop_ok (A_eq 2) false args n a.
Proof. unfold wrapWriteCommandK. intro H. destr_in H; (apply prop_ok_first; [exact H|]; sat_lia). Qed.
Lemma spec_wrapKSubkey args n a : wrapWriteCommandKSubkey args = LProp n a -> prop_ok (A_eq 3) false args n a.
Proof. intro H. eapply wrap_common_spec; [exact H|]. intro. sat_lia. Qed.
Lemma spec_wrapKSubkeySubkey args n a : wrapWriteCommandKSubkeySubkey args = LProp n a -> prop_ok (A_ge 3) false args n a.
Proof. intro H. eapply wrap_common_spec; [exact H|]. intro. sat_lia. Qed.
Lemma spec_wrapKAnySubkey m args n a : wrapWriteCommandKAnySubkey m args = LProp n a -> prop_ok (A_ge (2 + m)) false args n a.
Proof. intro H. eapply wrap_common_spec; [exact H|]. intro. sat_lia. Qed.
Lemma spec_wrapKAnySubkeyAndMax m x args n a :
  wrapWriteCommandKAnySubkeyAndMax m x args = LProp n a -> prop_ok (mkA (2 + m) (Some (2 + x)%nat) None) false args n a.
Proof. intro H. eapply wrap_common_spec; [exact H|]. intro. sat_lia. Qed.
Lemma spec_wrapKV args n a : wrapWriteCommandKV args = LProp n a -> prop_ok (A_eq 3) false args n a.
Proof. intro H. eapply wrap_common_spec; [exact H|]. intro. sat_lia. Qed.
Lemma spec_wrapKVV args n a : wrapWriteCommandKVV args = LProp n a -> prop_ok (A_eq 4) false args n a.
Proof. intro H. eapply wrap_common_spec; [exact H|]. intro. sat_lia. Qed.
Lemma spec_wrapKSVSV args n a :
  wrapWriteCommandKSubkeyVSubkeyV args = LProp n a -> prop_ok (mkA 4 None (Some true)) false args n a.
Proof.
  unfold wrapWriteCommandKSubkeyVSubkeyV. intro H. destr_in H. apply prop_ok_first; [exact H|].
  match goal with Hx : (_ || _) = false |- _ => apply orb_false_elim in Hx; destruct Hx as [Ha Hb] end.
  apply negb_false_iff in Hb.
  apply even_true_ex in Hb. destruct Hb as [k Hk]. unfold alen in *.
  apply sat_intro; cbn; [lia|exact I|].
  replace (length args) with (2 * (k + 1))%nat by lia. apply even_2k.
Qed.

Lemma spec_set args n a : setCommand args = LProp n a -> prop_ok (A_ge 3) false args n a.
Proof. unfold setCommand. intro H. destr_in H; (apply prop_ok_first; [exact H|]; sat_lia). Qed.
Lemma spec_setnx args f n a : setnxCommand args f = LProp n a -> prop_ok (A_eq 3) false args n a.
Proof. unfold setnxCommand. intro H. destr_in H; (apply prop_ok_first; [exact H|]; sat_lia). Qed.
Lemma spec_ifeq_tail args f n a : ifeq_tail args f = LProp n a -> propose_first args = LProp n a.
Proof. unfold ifeq_tail. intro H. destr_in H; exact H. Qed.
Lemma spec_setifeq args f n a : setIfEQCommand args f = LProp n a -> prop_ok (mkA 4 (Some 6%nat) (Some true)) false args n a.
Proof.
  unfold setIfEQCommand. intro H. destr_in H. apply spec_ifeq_tail in H. apply prop_ok_first; [exact H|].
  unfold alen in *. assert (Hn : length args = 4%nat \/ length args = 6%nat) by lia.
  destruct Hn as [Hn|Hn]; rewrite Hn; reflexivity.
Qed.
Lemma spec_delifeq args f n a : delIfEQCommand args f = LProp n a -> prop_ok (A_eq 3) false args n a.
Proof. unfold delIfEQCommand. intro H. destr_in H. apply spec_ifeq_tail in H. apply prop_ok_first; [exact H|]. sat_lia. Qed.
Lemma spec_setbit args n a : setbitCommand args = LProp n a -> prop_ok (A_eq 4) false args n a.
Proof. unfold setbitCommand. intro H. destr_in H. apply prop_ok_first; [exact H|]. sat_lia. Qed.
Lemma spec_setrange args n a : setrangeCommand args = LProp n a -> prop_ok (A_ge 4) false args n a.
Proof. unfold setrangeCommand. intro H. destr_in H. apply prop_ok_first; [exact H|]. sat_lia. Qed.
Lemma spec_lset args n a : lsetCommand args = LProp n a -> prop_ok (A_eq 4) false args n a.
Proof. unfold lsetCommand. intro H. destr_in H. apply prop_ok_first; [exact H|]. sat_lia. Qed.
Lemma spec_ltrim args f n a : ltrimCommand args f = LProp n a -> prop_ok (A_eq 4) false args n a.
Proof. unfold ltrimCommand. intro H. destr_in H; (apply prop_ok_first; [exact H|]; sat_lia). Qed.
Lemma spec_zadd args n a : zaddCommand pf args = LProp n a -> prop_ok (mkA 4 None (Some true)) false args n a.
Proof.
  unfold zaddCommand. intro H. destr_in H. apply prop_ok_first; [exact H|].
  match goal with Hx : (_ || _) = false |- _ => apply orb_false_elim in Hx; destruct Hx as [Ha Hb] end.
  apply negb_false_iff in Hb. unfold alen in *.
  apply sat_intro; cbn; [lia|exact I|exact Hb].
Qed.
Lemma spec_zrem args f n a : zremCommand args f = LProp n a -> prop_ok (A_ge 3) false args n a.
Proof. unfold zremCommand. intro H. destr_in H; (apply prop_ok_first; [exact H|]; sat_lia). Qed.
Lemma spec_zincrby args n a : zincrbyCommand pf args = LProp n a -> prop_ok (A_eq 4) false args n a.
Proof. unfold zincrbyCommand. intro H. destr_in H. apply prop_ok_first; [exact H|]. sat_lia. Qed.
Lemma spec_zremrangebyrank args n a : zremrangebyrankCommand args = LProp n a -> prop_ok (A_eq 4) false args n a.
Proof. unfold zremrangebyrankCommand. intro H. destr_in H. apply prop_ok_first; [exact H|]. sat_lia. Qed.
Lemma spec_zremrangebyscore args n a : zremrangebyscoreCommand pf args = LProp n a -> prop_ok (A_eq 4) false args n a.
Proof. unfold zremrangebyscoreCommand. intro H. destr_in H. apply prop_ok_first; [exact H|]. sat_lia. Qed.
Lemma spec_zremrangebylex args n a : zremrangebylexCommand args = LProp n a -> prop_ok (A_eq 4) false args n a.
Proof. unfold zremrangebylexCommand. intro H. destr_in H. apply prop_ok_first; [exact H|]. sat_lia. Qed.
Lemma spec_spop args f n a : spopCommand args f = LProp n a -> prop_ok (mkA 2 (Some 3%nat) None) false args n a.
Proof. unfold spopCommand. intro H. destr_in H; (apply prop_ok_first; [exact H|]; sat_lia). Qed.
Lemma spec_sadd args f n a : saddCommand args f = LProp n a -> prop_ok (A_ge 3) false args n a.
Proof. unfold saddCommand. intro H. destr_in H; (apply prop_ok_first; [exact H|]; sat_lia). Qed.
Lemma spec_srem args f n a : sremCommand args f = LProp n a -> prop_ok (A_ge 3) false args n a.
Proof. unfold sremCommand. intro H. destr_in H; (apply prop_ok_first; [exact H|]; sat_lia). Qed.

Lemma zadd_of_members_len key ms : length (zadd_of_members key ms) = (2 * (length ms + 1))%nat.
Proof.
  unfold zadd_of_members. simpl. induction ms as [|m r IH]; simpl; [reflexivity|].
  simpl in IH. lia.
Qed.
Lemma spec_geoadd args n a : geoaddCommand pf args = LProp n a -> prop_ok (mkA 2 None (Some true)) true args n a.
Proof.
  unfold geoaddCommand. intro H. destr_in H.
  pose proof (propose_first_len _ _ _ H) as Hl. rewrite zadd_of_members_len in Hl.
  apply propose_first_spec in H. destruct H as (k & k' & rest & Hz & -> & Hc).
  unfold zadd_of_members in Hz. inversion Hz; subst.
  split; [|split; [|reflexivity]].
  - apply sat_intro; cbn [lo hi par]; [lia|exact I|]. rewrite Hl. apply even_2k.
  - eexists _, _. split; [reflexivity|exact Hc].
Qed.

(* every known wrapper / handler keeps its guarantee *)
Ltac lit_eqb :=
  repeat match goal with
  | |- context [gname_eqb (Name ?x) (Name ?y)] =>
    let v := eval vm_compute in (gname_eqb (Name x) (Name y)) in
    change (gname_eqb (Name x) (Name y)) with v
  end.

Lemma leader_write_spec wrap ps args f n a g :
  guar_write wrap ps = Some g ->
  leader_write pf wrap ps args f = LProp n a ->
  prop_ok g (gname_eqb wrap "direct" && gname_eqb (param ps 0) "geoaddCommand") args n a.
Proof.
  unfold guar_write, leader_write. intros Hg H.
  repeat match type of Hg with
  | context [gname_eqb ?w ?s] =>
    let E := fresh "E" in destruct (gname_eqb w s) eqn:E;
    [ apply gname_eqb_eq in E; rewrite E in * |- *; clear E; lit_eqb; cbn [andb] | ]
  end; try discriminate Hg; inversion Hg; subst g; clear Hg.
  all: first
   [ apply spec_wrapK with (1 := H) | apply spec_wrapKSubkey with (1 := H) | apply spec_wrapKSubkeySubkey with (1 := H)
   | apply spec_wrapKAnySubkey with (1 := H) | apply spec_wrapKAnySubkeyAndMax with (1 := H)
   | apply spec_wrapKV with (1 := H) | apply spec_wrapKVV with (1 := H) | apply spec_wrapKSVSV with (1 := H)
   | apply spec_set with (1 := H) | apply spec_setnx with (1 := H) | apply spec_setifeq with (1 := H)
   | apply spec_delifeq with (1 := H) | apply spec_setbit with (1 := H) | apply spec_setrange with (1 := H)
   | apply spec_lset with (1 := H)
   | apply spec_ltrim with (1 := H) | apply spec_zadd with (1 := H) | apply spec_zrem with (1 := H)
   | apply spec_zincrby with (1 := H) | apply spec_zremrangebyrank with (1 := H)
   | apply spec_zremrangebyscore with (1 := H) | apply spec_zremrangebylex with (1 := H)
   | apply spec_spop with (1 := H) | apply spec_sadd with (1 := H) | apply spec_srem with (1 := H)
   | apply spec_geoadd with (1 := H) ].
Qed.

End Leader.

(* ---------- merged writes (DEL, PLSET) ---------- *)
Definition guar_merge (wrap : gname) : option aspec :=
  if gname_eqb wrap "wrapWriteMergeCommandKK" then Some (A_ge 2)
  else if gname_eqb wrap "wrapWriteMergeCommandKVKV" then Some (mkA 3 None (Some false))
  else None.

Lemma len_cons {A} (x : A) l : length (x :: l) = S (length l).
Proof. reflexivity. Qed.
Lemma cut_all_len l : length (cut_all l) = length l.
Proof. induction l as [|k r IH]; simpl; [reflexivity|]. rewrite IH. reflexivity. Qed.
Lemma flat_pairs_len {A} (f : A -> list bytes) l : (forall x, length (f x) = 2%nat) -> length (flat_map f l) = (2 * length l)%nat.
Proof.
  intro Hf. induction l as [|x r IH]; simpl; [reflexivity|].
  rewrite app_length, Hf, IH. lia.
Qed.

Lemma merge_write_spec ns wrap name args n a g :
  guar_merge wrap = Some g ->
  merge_write ns wrap name args = LProp n a ->
  sat g (length a) = true /\ (exists tl, a = n :: tl) /\ n = name.
Proof.
  unfold guar_merge, merge_write. intros Hg H.
  destruct (Nat.ltb (alen args) 2) eqn:Hn; [discriminate|].
  destruct args as [|x0 [|x1 xs]]; [simpl in Hn; discriminate|simpl in Hn; discriminate|].
  change (skipn 1 (x0 :: x1 :: xs)) with (x1 :: xs) in H.
  destruct (extract_ns (arg (x0 :: x1 :: xs) 1)) as [[ns1 k1]|]; [|discriminate].
  destruct (negb (bytes_eqb ns1 ns)); [discriminate|].
  destruct (gname_eqb wrap "wrapWriteMergeCommandKK") eqn:E1.
  - inversion Hg; subst g; clear Hg.
    destruct (negb (all_keys_in_ns ns (x1 :: xs))); [discriminate|].
    destruct (max_batch_num <? N.of_nat (length (x1 :: xs))); [discriminate|].
    injection H as Hn' Ha. subst n a. split; [|split; [eexists; reflexivity|reflexivity]].
    rewrite !len_cons. apply sat_intro; cbn [lo hi par A_ge]; [lia|exact I|exact I].
  - destruct (gname_eqb wrap "wrapWriteMergeCommandKVKV") eqn:E2; [|discriminate].
    inversion Hg; subst g; clear Hg.
    destruct (negb (all_keys_in_ns ns (map fst (plset_pairs (x1 :: xs))))); [discriminate|].
    destruct (plset_pairs (x1 :: xs)) as [|kv kvs] eqn:Ekv; [discriminate|].
    assert (Hm : (1 <= length (kv :: kvs))%nat) by (rewrite len_cons; lia).
    remember (kv :: kvs) as kvl eqn:Ekvl. clear Ekvl.
    destruct (max_batch_num <? N.of_nat (length kvl)); [discriminate|].
    injection H as Hn' Ha. subst n a. split; [|split; [eexists; reflexivity|reflexivity]].
    rewrite len_cons, flat_pairs_len by (intro; reflexivity).
    remember (length kvl) as m eqn:Em. clear Em.
    apply sat_intro; cbn [lo hi par]; [lia|exact I|].
    replace (S (2 * m)) with (2 * m + 1)%nat by lia. apply even_2k1.
Qed.

(* ---------- the check over the generated table ---------- *)
Definition apply_ok (g : aspec) (key : bytes) : bool :=
  Nat.leb 2 (lo g) &&
  match find_reg KInternal key reg_table with
  | None => true                                   (* "unsupported redis command": an error, no panic *)
  | Some h => gname_eqb (r_wrap h) "direct" && entails g (needs (param (r_params h) 0))
  end.
Definition entry_ok (r : reg) : bool :=
  match r_kind r with
  | KWrite =>
    match guar_write (r_wrap r) (r_params r) with
    | None => false
    | Some g => apply_ok g (B (applied_name r))
    end
  | KMergeWrite =>
    match guar_merge (r_wrap r) with
    | None => false
    | Some g => apply_ok g (B (r_name r))
    end
  | _ => true
  end.

(* re-checked by computation whenever Consts.v is regenerated from the source *)
Lemma table_ok : forallb entry_ok reg_table = true.
Proof. vm_compute. reflexivity. Qed.

Lemma kind_eqb_eq a b : kind_eqb a b = true -> a = b.
Proof. destruct a, b; simpl; intro H; try discriminate; reflexivity. Qed.
Lemma find_reg_spec k name t r : find_reg k name t = Some r -> In r t /\ r_kind r = k /\ B (r_name r) = name.
Proof.
  induction t as [|x t IH]; simpl; [discriminate|].
  destruct (kind_eqb (r_kind x) k && bytes_eqb (B (r_name x)) name) eqn:E.
  - intro H. inversion H; subst x. apply andb_prop in E. destruct E as [E1 E2].
    apply kind_eqb_eq in E1. apply bytes_eqb_eq in E2. auto.
  - intro H. destruct (IH H) as (Hi & Hk & Hn). auto.
Qed.

Lemma lower_idem b : lower (lower b) = lower b.
Proof.
  unfold lower. rewrite map_map. apply map_ext. intro x. unfold lower_byte.
  destruct ((65 <=? x) && (x <=? 90)) eqn:E.
  - destruct ((65 <=? x + 32) && (x + 32 <=? 90)) eqn:E2; [lia|reflexivity].
  - rewrite E. reflexivity.
Qed.

Lemma apply_ok_sound pf g key n a :
  apply_ok g key = true -> sat g (length a) = true -> (exists tl, a = n :: tl) -> lower n = key ->
  apply_shape pf false a <> APanic.
Proof.
  unfold apply_ok. intros Hok Hs [tl ->] Hk.
  apply andb_prop in Hok. destruct Hok as [Hlo Hh].
  pose proof (sat_lo _ _ Hs) as Hl. destruct tl as [|k rest]; [simpl in Hl; lia|].
  unfold apply_shape. rewrite Hk. destruct (find_reg KInternal key reg_table) as [h|]; [|discriminate].
  apply andb_prop in Hh. destruct Hh as [Hd He]. rewrite Hd.
  apply needs_sound. apply entails_sound with (1 := He). exact Hs.
Qed.

(* ====================== theorem (1) ====================== *)
Theorem validated_implies_safe : forall pf ns args f a,
  proposed pf ns args f = Some a -> apply_shape pf false a <> APanic.
Proof.
  intros pf ns args f a. unfold proposed, handle.
  destruct args as [|name0 rest]; [discriminate|].
  set (args := name0 :: rest). set (name := lower name0).
  destruct (is_merge_command name).
  - destruct (str_in name merge_keys_cmds); [|discriminate].
    destruct (find_reg KMergeWrite name reg_table) as [r|] eqn:Hr; [|discriminate].
    destruct (merge_write ns (r_wrap r) name args) as [| | | |n a'] eqn:Hm; try discriminate.
    intro H. inversion H; subst a'. clear H.
    apply find_reg_spec in Hr. destruct Hr as (Hin & Hk & Hname).
    pose proof (proj1 (forallb_forall _ _) table_ok r Hin) as Hok.
    unfold entry_ok in Hok. rewrite Hk in Hok.
    destruct (guar_merge (r_wrap r)) as [g|] eqn:Hg; [|discriminate].
    destruct (merge_write_spec _ _ _ _ _ _ _ Hg Hm) as (Hs & Htl & Hn).
    apply apply_ok_sound with (g := g) (key := B (r_name r)) (n := n); auto.
    subst n. rewrite Hname. unfold name. apply lower_idem.
  - assert (Hw : forall r, find_reg KWrite name reg_table = Some r ->
                 VWrite (leader_write pf (r_wrap r) (r_params r) args f) = VWrite (LProp (hd [] a) a) ->
                 apply_shape pf false a <> APanic).
    { intros r Hr Hv. inversion Hv as [Hl]. clear Hv.
      apply find_reg_spec in Hr. destruct Hr as (Hin & Hk & Hname).
      pose proof (proj1 (forallb_forall _ _) table_ok r Hin) as Hok.
      unfold entry_ok in Hok. rewrite Hk in Hok.
      destruct (guar_write (r_wrap r) (r_params r)) as [g|] eqn:Hg; [|discriminate].
      destruct (leader_write_spec pf _ _ _ _ _ _ _ Hg Hl) as (Hs & (k' & rest' & Ha & _) & Hn).
      assert (Htl : exists tl, a = hd [] a :: tl) by (exists (k' :: rest'); exact Ha).
      apply apply_ok_sound with (g := g) (key := B (applied_name r)) (n := hd [] a); auto.
      unfold applied_name.
      destruct (gname_eqb (r_wrap r) "direct" && gname_eqb (param (r_params r) 0) "geoaddCommand").
      - rewrite Hn. vm_compute. reflexivity.
      - rewrite Hn. simpl. fold name. symmetry. exact Hname. }
    assert (Hgen : forall v, v = handle pf ns args f \/ True ->
                   match v with VWrite (LProp _ a0) => Some a0 | _ => None end = Some a ->
                   exists n, v = VWrite (LProp n a)).
    { intros v _ Hv. destruct v as [| |[| | | |n a0]]; try discriminate. inversion Hv; subst. eauto. }
    destruct (Nat.ltb (alen args) 2).
    { destruct (find_reg KRead name reg_table); discriminate. }
    destruct (extract_ns (arg args 1)) as [[ns1 k1]|].
    2:{ destruct (find_reg KRead name reg_table); discriminate. }
    destruct (find_reg KRead name reg_table); [discriminate|].
    destruct (negb (bytes_eqb ns1 ns)); [discriminate|].
    destruct (find_reg KWrite name reg_table) as [r|] eqn:Hr; [|discriminate].
    destruct (leader_write pf (r_wrap r) (r_params r) args f) as [| | | |n a'] eqn:Hl; try discriminate.
    intro H. inversion H; subst a'. clear H.
    apply (Hw r eq_refl). rewrite Hl. f_equal. f_equal.
    pose proof (find_reg_spec _ _ _ _ Hr) as (Hin & Hk & Hname).
    pose proof (proj1 (forallb_forall _ _) table_ok r Hin) as Hok.
    unfold entry_ok in Hok. rewrite Hk in Hok.
    destruct (guar_write (r_wrap r) (r_params r)) as [g|] eqn:Hg; [|discriminate].
    destruct (leader_write_spec pf _ _ _ _ _ _ _ Hg Hl) as (_ & (k' & rest' & -> & _) & _). reflexivity.
Qed.

(* ---------- the RedisV2Req encoding ---------- *)
Lemma proposed_single_shape pf ns args f a :
  is_merge_command (lower (hd [] args)) = false ->
  proposed pf ns args f = Some a ->
  exists n k' rest, a = n :: k' :: rest /\ cut_ns (arg args 1) = Some k'.
Proof.
  intros Hm. unfold proposed, handle.
  destruct args as [|name0 rest]; [discriminate|].
  cbn [hd] in Hm. rewrite Hm.
  set (args := name0 :: rest). set (name := lower name0).
  destruct (Nat.ltb (alen args) 2).
  { destruct (find_reg KRead name reg_table); discriminate. }
  destruct (extract_ns (arg args 1)) as [[ns1 k1]|].
  2:{ destruct (find_reg KRead name reg_table); discriminate. }
  destruct (find_reg KRead name reg_table); [discriminate|].
  destruct (negb (bytes_eqb ns1 ns)); [discriminate|].
  destruct (find_reg KWrite name reg_table) as [r|] eqn:Hr; [|discriminate].
  destruct (leader_write pf (r_wrap r) (r_params r) args f) as [| | | |n a'] eqn:Hl; try discriminate.
  intro H. inversion H; subst a'. clear H.
  pose proof (find_reg_spec _ _ _ _ Hr) as (Hin & Hk & Hname).
  pose proof (proj1 (forallb_forall _ _) table_ok r Hin) as Hok.
  unfold entry_ok in Hok. rewrite Hk in Hok.
  destruct (guar_write (r_wrap r) (r_params r)) as [g|] eqn:Hg; [|discriminate].
  destruct (leader_write_spec pf _ _ _ _ _ _ _ Hg Hl) as (_ & (k' & rest' & Ha & Hc) & _).
  exists n, k', rest'. split; assumption.
Qed.

Theorem validated_implies_safe_v2 : forall pf ns args f a,
  proposed_v2 pf ns args f = Some a -> apply_shape pf true a <> APanic.
Proof.
  intros pf ns args f a. unfold proposed_v2.
  destruct args as [|name0 rest0]; [discriminate|].
  destruct (is_merge_command (lower name0)) eqn:Hm; [discriminate|].
  destruct (proposed pf ns (name0 :: rest0) f) as [a1|] eqn:Hp; [|discriminate].
  destruct (proposed_single_shape pf ns (name0 :: rest0) f a1 Hm Hp) as (n & k' & rest & -> & Hc).
  intro H. inversion H; subst a. clear H.
  pose proof (validated_implies_safe _ _ _ _ _ Hp) as Hs.
  unfold apply_shape in *. rewrite Hc. exact Hs.
Qed.

(* ====================== classification of apply errors ====================== *)
(* ApplyRaftRequest panics when isUnrecoveryError(err) holds. The errors the apply handlers of the node
   layer return quote client bytes (strconv errors, the command name): the classification must never
   depend on those bytes. *)
Fixpoint differ_within (a b : bytes) : bool :=
  match a, b with
  | x :: a', y :: b' => negb (x =? y) || differ_within a' b'
  | _, _ => false
  end.
Lemma differ_no_prefix p pat rest : differ_within p pat = true -> prefix_of pat (p ++ rest) = false.
Proof.
  revert pat. induction p as [|x p IH]; intros pat H; [destruct pat; discriminate|].
  destruct pat as [|y pat]; [discriminate|]. simpl in *.
  destruct (N.eqb_spec x y) as [->|Hn].
  - rewrite N.eqb_refl. simpl in *. apply IH. exact H.
  - replace (y =? x) with false; [reflexivity|]. symmetry. apply N.eqb_neq. congruence.
Qed.

(* whatever the client bytes inside the message are, a node-layer apply error is not "unrecoverable":
   the matcher read from the source is the prefix test and every message starts with a fixed text that
   differs from the pattern *)
Theorem error_never_unrecoverable : forall e rest, is_unrecovery (err_prefix e ++ rest) = false.
Proof.
  intros e rest. unfold is_unrecovery.
  replace (gname_eqb unrecovery_matcher "prefix") with true by (vm_compute; reflexivity).
  apply differ_no_prefix.
  destruct e as [a|a|a|f|n]; [| | |destruct f|]; vm_compute; reflexivity.
Qed.

(* a "contains" matcher (case folded or not) would be unsafe: the quoted argument can carry the pattern *)
Lemma contains_matcher_refuted :
  exists a, contains (lower (B "no space left on device"))
                     (lower (err_prefix (EAtoi a) ++ 34 :: a ++ 34 :: B ": invalid syntax")) = true.
Proof. exists (B "IO error: No space left on device"). vm_compute. reflexivity. Qed.

(* an accepted command ends in the store call or in one of the described errors *)
Corollary accepted_apply_outcome : forall pf ns args f a,
  proposed pf ns args f = Some a ->
  apply_shape pf false a = AReach \/
  exists e, apply_shape pf false a = AErr e /\ forall rest, is_unrecovery (err_prefix e ++ rest) = false.
Proof.
  intros pf ns args f a H. pose proof (validated_implies_safe _ _ _ _ _ H) as Hs.
  destruct (apply_shape pf false a) as [|e|]; [congruence| |left; reflexivity].
  right. exists e. split; [reflexivity|]. intro rest. apply error_never_unrecoverable.
Qed.

(* ====================== the batch pre-check ====================== *)
(* whatever isValidBatchableWrite lets into the shared batch passes the argument checks of its handler
   and store function: so no request inside a batch fails on its arguments and aborts its neighbours *)
Section Precheck.
Variable vk : bytes -> bytes.
(* the versioned hash key is not empty and at most the memcomparable encoding of the key plus the version
   (rockredis encodeVerKey; with the local_deletion policy it is the key itself) *)
Hypothesis vk_len : forall rk, rk <> [] -> 0 < blen (vk rk) /\ blen (vk rk) <= (blen rk / 8 + 1) * 9 + 64.

Lemma pairs_store rk v fvs : check_key v = true -> pairs_ok rk fvs = true -> store_pairs_ok v fvs = true.
Proof.
  intro Hv. remember (length fvs) as n eqn:Hn. revert fvs Hn.
  induction n as [n IH] using lt_wf_ind. intros fvs Hn H.
  destruct fvs as [|f [|x rest]]; try reflexivity.
  cbn [pairs_ok store_pairs_ok] in *. rewrite Hv.
  destruct (check_key rk); [|discriminate].
  destruct (check_subkey f); [|discriminate].
  destruct (negb (max_value_size <? blen x)); [|discriminate].
  cbn [andb] in *.
  apply (IH (length rest)); [subst n; simpl; lia|reflexivity|assumption].
Qed.

Lemma pairs_rk rk f x rest : pairs_ok rk (f :: x :: rest) = true -> check_key rk = true.
Proof. cbn [pairs_ok]. destruct (check_key rk); [reflexivity|discriminate]. Qed.

Lemma valid_ttl_fits ts d : valid_ttl ts d = true -> (0 <? d)%Z = true /\ ttl_fits ts d = true.
Proof. unfold valid_ttl, ttl_fits, max_uint32. intro H. split; lia. Qed.

Theorem precheck_implies_store_ok : forall name args ts,
  valid_batchable name args ts = true -> store_args_ok vk name args ts = true.
Proof.
  intros name args ts. unfold valid_batchable, store_args_ok.
  destruct (Nat.ltb (alen args) 2) eqn:Hl2; [discriminate|].
  destruct (check_key (arg args 1)) eqn:Hck; [|discriminate]. cbn [negb].
  unfold has_table.
  destruct (index_sep key_sep (arg args 1)) as [[|p]|] eqn:Hi; try discriminate.
  destruct (bytes_eqb name (B "set")) eqn:Es.
  { destruct (Nat.ltb (alen args) 3 || (max_value_size <? blen (arg args 2))) eqn:E1; [discriminate|].
    apply orb_false_elim in E1. destruct E1 as [E1 E2]. rewrite E2.
    replace (Nat.leb 3 (alen args)) with true by lia. cbn [andb negb].
    destruct (Nat.ltb 3 (alen args)); [|reflexivity].
    destruct (exnxxx_d (skipn 3 args) false 0) as [d|]; [|discriminate].
    intro H. apply orb_prop in H. destruct H as [H|H]; [rewrite H; reflexivity|].
    apply valid_ttl_fits in H. destruct H as [_ H]. rewrite H. apply orb_true_r. }
  destruct (bytes_eqb name (B "setex")) eqn:Ex.
  { destruct (negb (Nat.eqb (alen args) 4) || (max_value_size <? blen (arg args 3))) eqn:E1; [discriminate|].
    apply orb_false_elim in E1. destruct E1 as [E1 E2]. rewrite E2.
    replace (Nat.leb 4 (alen args)) with true by lia. cbn [andb negb].
    destruct (parse_int (arg args 2)) as [d|]; [|discriminate].
    intro H. apply valid_ttl_fits in H. destruct H as [H1 H2]. rewrite H1, H2. reflexivity. }
  destruct (bytes_eqb name (B "del")); [reflexivity|].
  destruct (bytes_eqb name (B "hmset")); [|reflexivity].
  set (fvs := skipn 2 args). set (rk := skipn (S (S p)) (arg args 1)).
  destruct (negb (Nat.even (length fvs)) || (max_batch_num <? N.of_nat (length fvs / 2))) eqn:E1; [discriminate|].
  apply orb_false_elim in E1. destruct E1 as [E1 E2]. apply negb_false_iff in E1. rewrite E1, E2. cbn [andb negb].
  destruct (max_key_size <? (blen rk / 8 + 1) * 9 + 64) eqn:E3; [discriminate|].
  intro Hp. destruct fvs as [|f [|x rest]] eqn:Ef; [reflexivity|discriminate|].
  pose proof (pairs_rk _ _ _ _ Hp) as Hrk. rewrite Hrk. cbn [andb].
  apply pairs_store with (rk := rk); [|exact Hp].
  assert (Hne : rk <> []).
  { intro E. rewrite E in Hrk. unfold check_key, blen in Hrk. simpl in Hrk. discriminate. }
  destruct (vk_len rk Hne) as [Hpos Hle].
  unfold check_key. apply andb_true_intro. split; apply negb_true_iff; lia.
Qed.
End Precheck.
