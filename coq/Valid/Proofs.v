(* Valid/Proofs.v — C11: proofs about the validation model. *)
From ZV Require Import Common.Bytes Valid.Types Valid.Consts Valid.Model.
From Coq Require Import Lia.
Open Scope N_scope.

(* ApplyRaftRequest indexes cmd.Args[1] before dispatch: a one-argument command always panics there *)
Lemma apply_short_panics : forall pf v2 args, (length args < 2)%nat -> apply_shape pf v2 args = APanic.
Proof.
  intros pf v2 args H. destruct args as [|a [|b r]]; simpl in *; try reflexivity. lia.
Qed.
