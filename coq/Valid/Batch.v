(* Valid/Batch.v — C11: the shared write batch of the apply loop.
   Hand-written model of:
     node/state_machine.go   ApplyRaftRequest (IsBatchable / BeginBatch / CommitBatch per request,
                             Trigger of the response, IsNeedAbortError -> AbortBatchForError),
                             kvbatchOperator.{IsBatchable, BeginBatch, AddBatchKey, AddBatchRsp,
                             CommitBatch, AbortBatchForError}
     rockredis/rockredis.go  BeginBatchWrite, MaybeCommitBatch, CommitBatchWrite, AbortBatch,
                             IsNeedAbortError (errTooMuchBatchSize is the one error that does not abort)
   A command handler is abstract: it reads committed data only (the pending batch is not visible to
   reads) and either succeeds having appended writes [ws] to db.wb (and called MaybeCommitBatch), or
   returns an error having left [ws] in db.wb. Handlers are assumed to commit nothing before they
   succeed. No proofs in this file. *)
From Coq Require Import List Bool Arith.
Import ListNotations.

Section Batch.
Variable store : Type.          (* committed engine content *)
Variable write : Type.          (* one operation of a write batch *)
Variable key : Type.            (* primary key of a command *)
Variable cmd : Type.
Variable key_eqb : key -> key -> bool.
Variable commit : list write -> store -> store.   (* rockEng.Write(wb) *)
Variable pk : cmd -> key.
Variable batchable : cmd -> bool.                 (* rockredis.IsBatchableWrite and not a multi-key DEL *)
Variable max_batch : nat.                          (* maxDBBatchCmdNum *)

Inductive herr := ETooMuchBatch | EOther.
Definition need_abort (e : herr) : bool := match e with ETooMuchBatch => false | EOther => true end.

Inductive hres :=
| HUnknown                                 (* no internal handler: ErrInvalidCommand, nothing else happens *)
| HOk (ws : list write)
| HErr (e : herr) (ws : list write).
Variable handler : cmd -> store -> hres.

Definition reqid := nat.
Record bstate := mkB {
  st : store;                                (* committed *)
  wb : list write;                           (* RockDB.wb, the default write batch *)
  batching : bool;                           (* kvbatchOperator.batching / RockDB.isBatching *)
  keys : list key;                           (* dupCheckMap *)
  pend : list (reqid * list write);          (* batchReqIDList with the writes each request buffered *)
  done : list (reqid * option (list write))  (* responses triggered so far: Some ws = success, None = error *)
}.

Definition commit_batch (s : bstate) : bstate :=
  if batching s then
    mkB (commit (wb s) (st s)) [] false [] [] (done s ++ map (fun p => (fst p, Some (snd p))) (pend s))
  else s.

Definition abort_batch (s : bstate) : bstate :=
  if batching s then
    mkB (st s) [] false [] [] (done s ++ map (fun p => (fst p, None)) (pend s))
  else mkB (st s) [] false (keys s) (pend s) (done s).

Definition pre (s : bstate) (c : cmd) : bstate :=
  if batchable c && negb (existsb (key_eqb (pk c)) (keys s)) && Nat.ltb (length (pend s)) max_batch then
    (if batching s then s else mkB (st s) (wb s) true (keys s) (pend s) (done s))
  else commit_batch s.

Definition step (s : bstate) (r : reqid * cmd) : bstate :=
  let '(id, c) := r in
  let s1 := pre s c in
  match handler c (st s1) with
  | HUnknown => mkB (st s1) (wb s1) (batching s1) (keys s1) (pend s1) (done s1 ++ [(id, None)])
  | HErr e ws =>
    let ks := if batching s1 then pk c :: keys s1 else keys s1 in
    let s2 := mkB (st s1) (wb s1 ++ ws) (batching s1) ks (pend s1) (done s1 ++ [(id, None)]) in
    if need_abort e then abort_batch s2 else s2
  | HOk ws =>
    if batching s1 then
      mkB (st s1) (wb s1 ++ ws) true (pk c :: keys s1) (pend s1 ++ [(id, ws)]) (done s1)
    else
      mkB (commit (wb s1 ++ ws) (st s1)) [] false (keys s1) (pend s1) (done s1 ++ [(id, Some ws)])
  end.

(* one pass of node.applyEntries: all requests, then CommitBatch *)
Definition run (s : bstate) (reqs : list (reqid * cmd)) : bstate := commit_batch (fold_left step reqs s).

Definition init (s0 : store) : bstate := mkB s0 [] false [] [] [].

(* the writes of the requests that were answered without error, in answer order *)
Fixpoint ok_writes (d : list (reqid * option (list write))) : list (list write) :=
  match d with
  | [] => []
  | (_, Some ws) :: r => ws :: ok_writes r
  | (_, None) :: r => ok_writes r
  end.
Definition apply_writes (l : list (list write)) (s : store) : store := fold_left (fun s ws => commit ws s) l s.

End Batch.

Arguments st {store write key} _.
Arguments wb {store write key} _.
Arguments batching {store write key} _.
Arguments keys {store write key} _.
Arguments pend {store write key} _.
Arguments done {store write key} _.
Arguments mkB {store write key} _ _ _ _ _ _.
Arguments HUnknown {write}.
Arguments HOk {write} _.
Arguments HErr {write} _ _.
