(* Valid/Model.v — C11: the two validation stages of a client command.
   Hand-written model of:
     server/redis_api.go   serverRedis (routing: merge command by name, else GetPKAndHashSum)
     server/server.go      GetPKAndHashSum, GetHandleNode, handleRedisSingleCmd (read table first)
     server/merge.go       doMergeKeysCommand, GetMergeHandlers, getHandlersForKeys (DEL / PLSET)
     common/util.go        CutNamesapce / ExtractNamesapce;  common/limit.go CheckKey, CheckKeySubKey
     node/util.go          wrapWriteCommandK/KSubkey/KSubkeySubkey/KAnySubkey/KAnySubkeyAndMax/KV/KVV/
                           KSubkeyV/KSubkeyVSubkeyV, wrapWriteMergeCommandKK/KVKV, rebuildFirstKeyAndPropose
     node/keys.go          setCommand, setnxCommand, setIfEQCommand, delIfEQCommand, setbitCommand, setrangeCommand,
                           getExNxXXArgs, getExSecs, local*Command (apply side)
     node/list.go set.go zset.go hash.go json.go ttl.go geo.go multi.go   *Command (leader side) and
                           local* (apply side): which cmd.Args[i] they index, what they parse, in order
     node/state_machine.go ApplyRaftRequest (cmd.Args[1] before dispatch; RedisV2Req namespace cut)
     strconv.ParseInt/Atoi (base 10, 64 bit) — re-implemented; strconv.ParseFloat is NOT modelled:
     it enters as the parameter [pf] (bytes -> IEEE-754 bits or error), supplied per case by the harness.
   The registration tables themselves are data generated from the source (Consts.v).
   No proofs in this file. *)
From ZV Require Export Common.Bytes Valid.Types.
From ZV Require Import Valid.Consts.
Open Scope gname_scope.
Open Scope N_scope.

(* ---------- bytes helpers ---------- *)
Definition B (s : gname) : bytes := bytes_of_gname s.

Definition lower_byte (b : N) : N := if (65 <=? b) && (b <=? 90) then b + 32 else b.
Definition lower (bs : bytes) : bytes := map lower_byte bs.
Definition blen (bs : bytes) : N := N.of_nat (length bs).
Definition alen (args : list bytes) : nat := length args.

Definition arg (args : list bytes) (i : nat) : bytes := nth i args [].   (* only used under a length guard *)

(* index of the first separator; None when absent *)
Fixpoint index_sep (sep : N) (bs : bytes) : option nat :=
  match bs with
  | [] => None
  | x :: r => if x =? sep then Some 0%nat
              else match index_sep sep r with Some i => Some (S i) | None => None end
  end.
(* common.CutNamesapce / ExtractNamesapce: first ':' at index > 0 *)
Definition extract_ns (raw : bytes) : option (bytes * bytes) :=
  match index_sep ns_sep raw with
  | Some (S i) => Some (firstn (S i) raw, skipn (S (S i)) raw)
  | _ => None
  end.
Definition cut_ns (raw : bytes) : option bytes :=
  match extract_ns raw with Some (_, k) => Some k | None => None end.

(* common.CheckKey / CheckKeySubKey *)
Definition check_key (k : bytes) : bool := negb (max_key_size <? blen k) && negb (blen k =? 0).
Definition check_subkey (f : bytes) : bool := negb (max_subkey_len <? blen f).

(* ---------- strconv.ParseInt(s, 10, 64) / Atoi on a 64-bit platform ---------- *)
Definition is_digit (b : N) : bool := (48 <=? b) && (b <=? 57).
Fixpoint digits_val (acc : Z) (bs : bytes) : option Z :=
  match bs with
  | [] => Some acc
  | b :: r => if is_digit b then digits_val (acc * 10 + Z.of_N (b - 48))%Z r else None
  end.
Definition parse_uint (bs : bytes) : option Z :=
  match bs with [] => None | _ => digits_val 0%Z bs end.
Definition int64_min : Z := (- 9223372036854775808)%Z.
Definition int64_max : Z := 9223372036854775807%Z.
Definition parse_int (bs : bytes) : option Z :=
  let '(neg, rest) := match bs with
                      | 43 :: r => (false, r)
                      | 45 :: r => (true, r)
                      | _ => (false, bs)
                      end in
  match parse_uint rest with
  | None => None
  | Some u => let v := if neg then (- u)%Z else u in
              if (int64_min <=? v)%Z && (v <=? int64_max)%Z then Some v else None
  end.

(* ---------- IEEE-754 double given by its bits (result of the real strconv.ParseFloat) ---------- *)
Definition f_exp (x : N) : N := N.land (N.shiftr x 52) 2047.
Definition f_mant (x : N) : N := N.land x 4503599627370495.
Definition f_neg (x : N) : bool := N.testbit x 63.
Definition f_isnan (x : N) : bool := (f_exp x =? 2047) && negb (f_mant x =? 0).
Definition f_isinf (x : N) : bool := (f_exp x =? 2047) && (f_mant x =? 0).
Definition f_mag (x : N) : N := N.land x 9223372036854775807.
(* x < y for doubles (false when either is NaN; -0 = +0) *)
Definition f_lt (x y : N) : bool :=
  if f_isnan x || f_isnan y then false
  else match f_neg x, f_neg y with
       | false, false => f_mag x <? f_mag y
       | true, true => f_mag y <? f_mag x
       | true, false => negb ((f_mag x =? 0) && (f_mag y =? 0))
       | false, true => false
       end.

(* ---------- errors the apply handlers return before calling the store ---------- *)
(* fixed error variables; their texts are in Consts.apply_err_texts (hook node.VerifApplyErrTexts) *)
Inductive fixed_err := FEInvalidArgs | FEInvalidTTL | FEInvalidCommand | FEInvalidRange | FEScoreNotValidFloat | FEUnknownData.
Definition fixed_name (f : fixed_err) : gname :=
  match f with
  | FEInvalidArgs => "ErrInvalidArgs" | FEInvalidTTL => "ErrInvalidTTL" | FEInvalidCommand => "ErrInvalidCommand"
  | FEInvalidRange => "errInvalidRange" | FEScoreNotValidFloat => "errScoreNotValidFloat" | FEUnknownData => "errUnknownData"
  end.
Inductive aerr :=
| EParseInt (a : bytes)       (* error of strconv.ParseInt(a, 10, 64): "strconv.ParseInt: parsing " ++ Quote(a) ++ ": ..." *)
| EAtoi (a : bytes)           (* error of strconv.Atoi(a):             "strconv.Atoi: parsing " ++ Quote(a) ++ ": ..." *)
| EParseFloat (a : bytes)     (* error of strconv.ParseFloat(a, 64):   "strconv.ParseFloat: parsing " ++ Quote(a) ++ ": ..." *)
| EFixed (f : fixed_err)
| EArity (name : bytes).      (* "ERR wrong number of arguments for '" ++ name ++ "' command" (node/multi.go localPlsetCommand) *)

Fixpoint assoc_gname (k : gname) (l : list (gname * gname)) : option gname :=
  match l with
  | [] => None
  | (a, b) :: r => if gname_eqb a k then Some b else assoc_gname k r
  end.
(* the part of the message that precedes every client supplied byte (for a fixed error: the whole message) *)
Definition err_prefix (e : aerr) : bytes :=
  match e with
  | EParseInt _ => B "strconv.ParseInt: parsing "
  | EAtoi _ => B "strconv.Atoi: parsing "
  | EParseFloat _ => B "strconv.ParseFloat: parsing "
  | EFixed f => match assoc_gname (fixed_name f) apply_err_texts with Some t => B t | None => [] end
  | EArity _ => B "ERR wrong number of arguments for '"
  end.

(* node/state_machine.go isUnrecoveryError(err): the apply loop panics when it says true.
   The predicate and its literal are read from the source (Consts.unrecovery_matcher/_pattern). *)
Fixpoint prefix_of (p s : bytes) : bool :=
  match p, s with
  | [], _ => true
  | x :: p', y :: s' => (x =? y) && prefix_of p' s'
  | _ :: _, [] => false
  end.
Fixpoint contains (p s : bytes) : bool :=
  prefix_of p s || match s with [] => false | _ :: s' => contains p s' end.
Definition is_unrecovery (msg : bytes) : bool :=
  if gname_eqb unrecovery_matcher "prefix" then prefix_of (B unrecovery_pattern) msg
  else if gname_eqb unrecovery_matcher "contains" then contains (B unrecovery_pattern) msg
  else if gname_eqb unrecovery_matcher "containsfold" then contains (lower (B unrecovery_pattern)) (lower msg)
  else true.

Section WithFloat.
(* strconv.ParseFloat(string(b), 64): Some bits when err == nil, None otherwise *)
Variable pf : bytes -> option N.

(* ---------- option parsers of node/keys.go and node/zset.go ---------- *)
(* getExNxXXArgs: None = no error *)
Fixpoint exnxxx (opts : list bytes) (nxorxx : bool) : option aerr :=
  match opts with
  | [] => None
  | o :: rest =>
    let op := lower o in
    if bytes_eqb op (B "nx") || bytes_eqb op (B "xx") then
      if nxorxx then Some (EFixed FEInvalidArgs) else exnxxx rest true
    else if bytes_eqb op (B "ex") then
      match rest with
      | [] => Some (EFixed FEInvalidArgs)
      | secs :: rest' =>
        match parse_int secs with
        | None => Some (EFixed FEInvalidArgs)
        | Some d => if (d <=? 0)%Z then Some (EFixed FEInvalidTTL) else exnxxx rest' nxorxx
        end
      end
    else Some (EFixed FEInvalidArgs)
  end.
Definition exnxxx_err (opts : list bytes) : option aerr := exnxxx opts false.
Definition exnxxx_ok (opts : list bytes) : bool := match exnxxx_err opts with None => true | Some _ => false end.

(* getExSecs: None = no error *)
Definition exsecs_err (ex secs : bytes) : option aerr :=
  if bytes_eqb (lower ex) (B "ex") then
    match parse_int secs with
    | Some n => if (n <=? 0)%Z then Some (EFixed FEInvalidTTL) else None
    | None => Some (EParseInt secs)
    end
  else Some (EFixed FEInvalidArgs).
Definition exsecs_ok (ex secs : bytes) : bool := match exsecs_err ex secs with None => true | Some _ => false end.

(* getScoreRange: None = no error *)
Definition score_bound_err (inf_word : gname) (b : bytes) : option aerr :=
  if bytes_eqb (lower b) (B inf_word) then None
  else
    let d := match b with 40 :: r => r | _ => b end in
    match pf d with
    | None => Some (EParseFloat d)
    | Some x => if f_isinf x then Some (EFixed FEInvalidRange) else None
    end.
Definition score_range_err (l r : bytes) : option aerr :=
  match l, r with
  | [], _ | _, [] => Some (EFixed FEInvalidRange)
  | _, _ => match score_bound_err "-inf" l with
            | Some e => Some e
            | None => score_bound_err "+inf" r
            end
  end.
Definition score_range_ok (l r : bytes) : bool := match score_range_err l r with None => true | Some _ => false end.

(* getLexRange *)
Definition lex_bound_ok (whole : gname) (b : bytes) : bool :=
  if bytes_eqb b (B whole) then true
  else match b with
       | 40 :: _ | 91 :: _ => true
       | _ => false
       end.
Definition lex_range_ok (l r : bytes) : bool :=
  match l, r with
  | [], _ | _, [] => false
  | _, _ => lex_bound_ok "-" l && lex_bound_ok "+" r
  end.

(* getScorePairs(args): parses args[0], args[2], ... and indexes args[i+1] *)
Inductive pairs_res := PairsOk | PairsErr (e : aerr) | PairsPanic.
Fixpoint score_pairs (args : list bytes) : pairs_res :=
  match args with
  | [] => PairsOk
  | s :: rest =>
    match pf s with
    | None => PairsErr (EParseFloat s)
    | Some x => if f_isnan x then PairsErr (EFixed FEScoreNotValidFloat)   (* "a NaN score can not be ordered": rejected *)
                else match rest with
                     | [] => PairsPanic
                     | _ :: rest' => score_pairs rest'
                     end
    end
  end.

(* ====================== leader side ====================== *)
(* what the leader-side shortcuts read from the store just before deciding (supplied by the harness
   from the same store functions): *)
Inductive fact :=
| FNone
| FCnt (c : option bool)      (* LLen / SCard: None = error, Some false = 0, Some true = > 0 *)
| FExists (b : bool)          (* KVExists = 1 *)
| FGet (c : option bool)      (* KVGet: None = error, Some true = equals Args[2] *)
| FBits (l : list bool).      (* per member of Args[2:]: SIsMember <> 0 / ZScore does not say "member not exist" *)

(* verdict of the leader for a write command *)
Inductive lres :=
| LRej                        (* error reply, nothing proposed *)
| LLocalOk                    (* answered without a proposal, no error *)
| LLocalErr                   (* store error while pre-reading, nothing proposed *)
| LNoReply                    (* nothing is written to the connection *)
| LProp (name : bytes) (args : list bytes).   (* proposed: the command as it enters the log (RedisReq form) *)

Definition N_of_digits (s : gname) : nat :=
  match parse_uint (B s) with Some z => Z.to_nat z | None => 0%nat end.

(* rebuildFirstKeyAndPropose with UseRedisV2 = false: namespace cut from Args[1], command rebuilt *)
Definition propose_first (args : list bytes) : lres :=
  match args with
  | name :: k :: rest =>
    match cut_ns k with
    | Some k' => LProp name (name :: k' :: rest)
    | None => LRej
    end
  | _ => LRej
  end.

Definition wrap_common (args : list bytes) (arity_ok : bool) : lres :=
  if negb arity_ok then LRej
  else if negb (check_key (arg args 1)) then LRej
  else propose_first args.

(* node/util.go wrappers; [n] = len(cmd.Args) *)
Definition wrapWriteCommandK (precheck : bool) (args : list bytes) (f : fact) : lres :=
  let n := alen args in
  if negb (Nat.eqb n 2) then LRej
  else if negb (check_key (arg args 1)) then LRej
  else if precheck then
    match cut_ns (arg args 1) with
    | None => LRej
    | Some _ =>
      match f with
      | FCnt None => LLocalErr
      | FCnt (Some false) => LLocalOk
      | _ => propose_first args
      end
    end
  else propose_first args.
Definition wrapWriteCommandKSubkey (args : list bytes) : lres := wrap_common args (Nat.eqb (alen args) 3).
Definition wrapWriteCommandKSubkeySubkey (args : list bytes) : lres := wrap_common args (Nat.leb 3 (alen args)).
Definition wrapWriteCommandKAnySubkey (minsub : nat) (args : list bytes) : lres :=
  wrap_common args (Nat.leb (2 + minsub) (alen args)).
Definition wrapWriteCommandKAnySubkeyAndMax (minsub maxsub : nat) (args : list bytes) : lres :=
  wrap_common args (Nat.leb (2 + minsub) (alen args) && Nat.leb (alen args) (2 + maxsub)).
Definition wrapWriteCommandKV (args : list bytes) : lres := wrap_common args (Nat.eqb (alen args) 3).
Definition wrapWriteCommandKVV (args : list bytes) : lres := wrap_common args (Nat.eqb (alen args) 4).
Definition wrapWriteCommandKSubkeyVSubkeyV (args : list bytes) : lres :=
  let n := alen args in
  if Nat.ltb n 4 || negb (Nat.even (n - 2)) then LRej
  else if max_batch_num <? N.of_nat ((n - 2) / 2) then LRej
  else if negb (check_key (arg args 1)) then LRej
  else propose_first args.

(* direct write handlers *)
Definition setCommand (args : list bytes) : lres :=
  let n := alen args in
  if Nat.ltb 3 n then (if exnxxx_ok (skipn 3 args) then propose_first args else LRej)
  else if negb (Nat.eqb n 3) then LRej
  else propose_first args.
Definition setnxCommand (args : list bytes) (f : fact) : lres :=
  if negb (Nat.eqb (alen args) 3) then LRej
  else match cut_ns (arg args 1) with
       | None => LRej
       | Some _ => match f with FExists true => LLocalOk | _ => propose_first args end
       end.
Definition ifeq_tail (args : list bytes) (f : fact) : lres :=
  match cut_ns (arg args 1) with
  | None => LRej
  | Some _ =>
    match f with
    | FGet None => LLocalErr
    | FGet (Some false) => LLocalOk
    | _ => propose_first args
    end
  end.
Definition setIfEQCommand (args : list bytes) (f : fact) : lres :=
  let n := alen args in
  if negb (Nat.eqb n 4) && negb (Nat.eqb n 6) then LRej
  else if Nat.eqb n 6 && negb (exsecs_ok (arg args 4) (arg args 5)) then LRej
  else ifeq_tail args f.
Definition delIfEQCommand (args : list bytes) (f : fact) : lres :=
  if negb (Nat.eqb (alen args) 3) then LRej else ifeq_tail args f.
Definition setrangeCommand (args : list bytes) : lres :=
  if Nat.ltb (alen args) 4 then LRej
  else if negb (check_key (arg args 1)) then LRej
  else match parse_int (arg args 2) with
       | None => LRej
       | Some off => if (off <? 0)%Z || (Z.of_N max_value_size <? off)%Z then LRej else propose_first args
       end.
Definition setbitCommand (args : list bytes) : lres :=
  if negb (Nat.eqb (alen args) 4) then LRej
  else match parse_int (arg args 2) with
       | None => LRej
       | Some off =>
         match parse_int (arg args 3) with
         | None => LRej
         | Some on =>
           if (Z.of_N max_bit_offset <? off)%Z || (off <? 0)%Z then LRej
           else if negb ((on =? 0)%Z || (on =? 1)%Z) then LRej
           else propose_first args
         end
       end.
Definition lsetCommand (args : list bytes) : lres :=
  if negb (Nat.eqb (alen args) 4) then LRej
  else match parse_int (arg args 2) with None => LRej | Some _ => propose_first args end.
Definition ltrimCommand (args : list bytes) (f : fact) : lres :=
  if negb (Nat.eqb (alen args) 4) then LRej
  else match parse_int (arg args 2), parse_int (arg args 3) with
       | Some _, Some _ =>
         match cut_ns (arg args 1) with
         | None => LRej
         | Some _ =>
           match f with
           | FCnt None => LLocalErr
           | FCnt (Some false) => LLocalOk
           | _ => propose_first args
           end
         end
       | _, _ => LRej
       end.
(* members at positions 0, 2, 4, ... of [l] (the list after the first score): CheckKeySubKey(key, member) *)
Fixpoint members_ok (key : bytes) (l : list bytes) : bool :=
  match l with
  | [] => true
  | _ :: [] => true
  | _ :: m :: rest => check_key key && check_subkey m && members_ok key rest
  end.
Definition zaddCommand (args : list bytes) : lres :=
  let n := alen args in
  if Nat.ltb n 4 || negb (Nat.even n) then LRej
  else match score_pairs (skipn 2 args) with
       | PairsOk => if members_ok (arg args 1) (skipn 2 args) then propose_first args else LRej
       | _ => LRej
       end.
Definition any_true (l : list bool) : bool := existsb (fun b => b) l.
Definition zremCommand (args : list bytes) (f : fact) : lres :=
  if Nat.ltb (alen args) 3 then LRej
  else match cut_ns (arg args 1) with
       | None => LRej
       | Some _ => match f with
                   | FBits l => if any_true l then propose_first args else LLocalOk
                   | _ => propose_first args
                   end
       end.
Definition zincrbyCommand (args : list bytes) : lres :=
  if negb (Nat.eqb (alen args) 4) then LRej
  else match pf (arg args 2) with None => LRej | Some _ => propose_first args end.
Definition zremrangebyrankCommand (args : list bytes) : lres :=
  if negb (Nat.eqb (alen args) 4) then LRej
  else match parse_int (arg args 2), parse_int (arg args 3) with
       | Some _, Some _ => propose_first args
       | _, _ => LRej
       end.
Definition zremrangebyscoreCommand (args : list bytes) : lres :=
  if negb (Nat.eqb (alen args) 4) then LRej
  else if score_range_ok (arg args 2) (arg args 3) then propose_first args else LRej.
Definition zremrangebylexCommand (args : list bytes) : lres :=
  if negb (Nat.eqb (alen args) 4) then LRej
  else if lex_range_ok (arg args 2) (arg args 3) then propose_first args else LRej.
Definition spopCommand (args : list bytes) (f : fact) : lres :=
  let n := alen args in
  if negb (Nat.eqb n 2) && negb (Nat.eqb n 3) then LRej
  else if Nat.eqb n 3 && negb (match parse_int (arg args 2) with Some c => (1 <=? c)%Z | None => false end) then LRej
  else match cut_ns (arg args 1) with
       | None => LRej
       | Some _ =>
         match f with
         | FCnt None => LLocalErr
         | FCnt (Some false) => LLocalOk
         | _ => propose_first args
         end
       end.
(* saddCommand: CheckKeySubKey(cut key, m) for every member, else error; then (behind the read-index
   barrier isLocalStoreCurrent, assumed to succeed) any member that is not in the set => propose *)
Definition saddCommand (args : list bytes) (f : fact) : lres :=
  if Nat.ltb (alen args) 3 then LRej
  else match cut_ns (arg args 1) with
       | None => LRej
       | Some key =>
         if negb (forallb (fun m => check_key key && check_subkey m) (skipn 2 args)) then LRej
         else match f with
              | FBits l => if forallb (fun b => b) l then LLocalOk else propose_first args
              | _ => propose_first args
              end
       end.
Definition sremCommand (args : list bytes) (f : fact) : lres :=
  if Nat.ltb (alen args) 3 then LRej
  else match cut_ns (arg args 1) with
       | None => LRej
       | Some _ => match f with
                   | FBits l => if any_true l then propose_first args else LLocalOk
                   | _ => propose_first args
                   end
       end.
(* geoaddCommand: triples lon lat member; proposes ZADD key hash member ... *)
Definition geo_in_range (lon lat : N) : bool :=
  negb (f_lt geo_long_max_bits lon) && negb (f_lt lon geo_long_min_bits) &&
  negb (f_lt geo_lat_max_bits lat) && negb (f_lt lat geo_lat_min_bits).
Fixpoint geo_triples (l : list bytes) : option (list bytes) :=   (* members, None = rejected *)
  match l with
  | lon :: lat :: m :: rest =>
    match pf lon, pf lat with
    | Some x, Some y =>
      if geo_in_range x y then
        match geo_triples rest with Some ms => Some (m :: ms) | None => None end
      else None
    | _, _ => None
    end
  | _ => Some []
  end.
Definition zadd_of_members (key : bytes) (ms : list bytes) : list bytes :=
  B "zadd" :: key :: flat_map (fun m => [B "0"; m]) ms.   (* the score text is not modelled *)
Definition geoaddCommand (args : list bytes) : lres :=
  let n := alen args in
  if Nat.ltb n 5 || negb (Nat.eqb ((n - 2) mod 3) 0) then LRej
  else match geo_triples (skipn 2 args) with
       | None => LRej
       | Some ms =>
         if forallb (fun m => check_key (arg args 1) && check_subkey m) ms
         then propose_first (zadd_of_members (arg args 1) ms)
         else LRej
       end.

(* the table of leader-side write handlers: wrapper name (or direct method) -> function.
   Unknown wrappers accept everything (LProp): the theorems then fail for that entry. *)
Definition param (ps : list gname) (i : nat) : gname := nth i ps (Name []).
Definition is_nil (s : gname) : bool := gname_eqb s "nil".

Definition leader_write (wrap : gname) (ps : list gname) (args : list bytes) (f : fact) : lres :=
  if gname_eqb wrap "wrapWriteCommandK" then wrapWriteCommandK (negb (is_nil (param ps 1))) args f
  else if gname_eqb wrap "wrapWriteCommandKSubkey" then wrapWriteCommandKSubkey args
  else if gname_eqb wrap "wrapWriteCommandKSubkeySubkey" then wrapWriteCommandKSubkeySubkey args
  else if gname_eqb wrap "wrapWriteCommandKAnySubkey" then wrapWriteCommandKAnySubkey (N_of_digits (param ps 2)) args
  else if gname_eqb wrap "wrapWriteCommandKAnySubkeyAndMax" then
    wrapWriteCommandKAnySubkeyAndMax (N_of_digits (param ps 2)) (N_of_digits (param ps 3)) args
  else if gname_eqb wrap "wrapWriteCommandKV" then wrapWriteCommandKV args
  else if gname_eqb wrap "wrapWriteCommandKVV" then wrapWriteCommandKVV args
  else if gname_eqb wrap "wrapWriteCommandKSubkeyV" then wrapWriteCommandKVV args
  else if gname_eqb wrap "wrapWriteCommandKSubkeyVSubkeyV" then wrapWriteCommandKSubkeyVSubkeyV args
  else if gname_eqb wrap "direct" then
    let m := param ps 0 in
    if gname_eqb m "setCommand" then setCommand args
    else if gname_eqb m "setnxCommand" then setnxCommand args f
    else if gname_eqb m "setIfEQCommand" then setIfEQCommand args f
    else if gname_eqb m "delIfEQCommand" then delIfEQCommand args f
    else if gname_eqb m "setbitCommand" then setbitCommand args
    else if gname_eqb m "setrangeCommand" then setrangeCommand args
    else if gname_eqb m "lsetCommand" then lsetCommand args
    else if gname_eqb m "ltrimCommand" then ltrimCommand args f
    else if gname_eqb m "zaddCommand" then zaddCommand args
    else if gname_eqb m "zremCommand" then zremCommand args f
    else if gname_eqb m "zincrbyCommand" then zincrbyCommand args
    else if gname_eqb m "zremrangebyrankCommand" then zremrangebyrankCommand args
    else if gname_eqb m "zremrangebyscoreCommand" then zremrangebyscoreCommand args
    else if gname_eqb m "zremrangebylexCommand" then zremrangebylexCommand args
    else if gname_eqb m "spopCommand" then spopCommand args f
    else if gname_eqb m "saddCommand" then saddCommand args f
    else if gname_eqb m "sremCommand" then sremCommand args f
    else if gname_eqb m "geoaddCommand" then geoaddCommand args
    else match args with name :: _ => LProp name args | [] => LRej end
  else match args with name :: _ => LProp name args | [] => LRej end.

(* merged write commands (server/merge.go + node/util.go), one partition *)
Fixpoint all_keys_in_ns (ns : bytes) (keys : list bytes) : bool :=
  match keys with
  | [] => true
  | k :: r => match extract_ns k with
              | Some (ns', _) => bytes_eqb ns ns' && all_keys_in_ns ns r
              | None => false
              end
  end.
Fixpoint cut_all (keys : list bytes) : list bytes :=
  match keys with
  | [] => []
  | k :: r => match cut_ns k with Some k' => k' | None => [] end :: cut_all r
  end.
(* keys of PLSET as getHandlersForKeys collects them: args[0], args[2], ... while i < len-1 *)
Fixpoint plset_pairs (l : list bytes) : list (bytes * bytes) :=
  match l with
  | k :: v :: rest => (k, v) :: plset_pairs rest
  | _ => []
  end.

Definition merge_write (ns : bytes) (wrap : gname) (name : bytes) (args : list bytes) : lres :=
  (* doMergeKeysCommand / GetMergeHandlers *)
  if Nat.ltb (alen args) 2 then LRej
  else match extract_ns (arg args 1) with
       | None => LRej
       | Some (ns1, _) =>
         if negb (bytes_eqb ns1 ns) then LRej
         else if gname_eqb wrap "wrapWriteMergeCommandKK" then
           let keys := skipn 1 args in
           if negb (all_keys_in_ns ns keys) then LRej
           else if max_batch_num <? N.of_nat (length keys) then LRej      (* errTooMuchBatchSize of the handler is reported *)
           else LProp name (name :: cut_all keys)
         else if gname_eqb wrap "wrapWriteMergeCommandKVKV" then
           let kvs := plset_pairs (skipn 1 args) in
           if negb (all_keys_in_ns ns (map fst kvs)) then LRej
           else match kvs with
                | [] => LNoReply
                | _ =>
                  if max_batch_num <? N.of_nat (length kvs) then LRej
                  else LProp name (name :: flat_map (fun kv => [match cut_ns (fst kv) with Some k => k | None => [] end; snd kv]) kvs)
                end
         else LProp name args
       end.

(* ---------- routing (server/redis_api.go serverRedis, server/server.go) ---------- *)
Definition str_in (name : bytes) (l : list gname) : bool := existsb (fun s => bytes_eqb name (B s)) l.
Definition is_merge_command (name : bytes) : bool :=
  str_in name merge_scan_cmds || str_in name merge_index_cmds || str_in name merge_keys_cmds.

Fixpoint find_reg (k : kind) (name : bytes) (t : list reg) : option reg :=
  match t with
  | [] => None
  | r :: rest => if kind_eqb (r_kind r) k && bytes_eqb (B (r_name r)) name then Some r else find_reg k name rest
  end.

Inductive verdict :=
| VRead                        (* a registered read command: not replicated *)
| VMergeRead
| VWrite (r : lres).

Definition handle (ns : bytes) (args : list bytes) (f : fact) : verdict :=
  match args with
  | [] => VWrite LRej
  | name0 :: _ =>
    let name := lower name0 in
    if is_merge_command name then
      if str_in name merge_keys_cmds then
        match find_reg KMergeWrite name reg_table with
        | Some r => VWrite (merge_write ns (r_wrap r) name args)
        | None => VMergeRead
        end
      else VMergeRead
    else
      (* GetPKAndHashSum + GetHandleNode *)
      if Nat.ltb (alen args) 2 then
        match find_reg KRead name reg_table with Some _ => VRead | None => VWrite LRej end
      else
        match extract_ns (arg args 1) with
        | None => match find_reg KRead name reg_table with Some _ => VRead | None => VWrite LRej end
        | Some (ns1, _) =>
          match find_reg KRead name reg_table with
          | Some _ => VRead
          | None =>
            if negb (bytes_eqb ns1 ns) then VWrite LRej
            else match find_reg KWrite name reg_table with
                 | Some r => VWrite (leader_write (r_wrap r) (r_params r) args f)
                 | None => VWrite LRej
                 end
          end
        end
  end.

(* ====================== apply side ====================== *)
(* outcome of the registered internal handler as far as the argument shape decides it *)
Inductive ares :=
| APanic                      (* Go run-time panic: index / slice bounds out of range *)
| AErr (e : aerr)             (* the handler returns this error before calling the store *)
| AReach.                     (* the store function is called with well-formed arguments *)

Definition need (args : list bytes) (i : nat) (k : ares) : ares :=
  if Nat.ltb i (alen args) then k else APanic.
(* cmd.Args[i:] *)
Definition need_slice (args : list bytes) (i : nat) (k : ares) : ares :=
  if Nat.leb i (alen args) then k else APanic.
Definition parse_i (args : list bytes) (i : nat) (k : ares) : ares :=      (* strconv.ParseInt *)
  need args i (match parse_int (arg args i) with Some _ => k | None => AErr (EParseInt (arg args i)) end).
Definition parse_a (args : list bytes) (i : nat) (k : ares) : ares :=      (* strconv.Atoi *)
  need args i (match parse_int (arg args i) with Some _ => k | None => AErr (EAtoi (arg args i)) end).
Definition parse_f (args : list bytes) (i : nat) (k : ares) : ares :=
  need args i (match pf (arg args i) with Some _ => k | None => AErr (EParseFloat (arg args i)) end).

Definition localKeyOnly (args : list bytes) : ares := need args 1 AReach.
Definition localKV (args : list bytes) : ares := need args 1 (need args 2 AReach).
Definition localK3 (args : list bytes) : ares := need args 1 (need args 2 (need args 3 AReach)).
Definition localKRest (args : list bytes) : ares := need args 1 (need_slice args 2 AReach).   (* Args[1], Args[2:]... *)
Definition localRest1 (args : list bytes) : ares := need_slice args 1 AReach.                 (* Args[1:]... *)
Definition localExpire (args : list bytes) : ares := parse_a args 2 (need args 1 AReach).

Definition localSetCommand (args : list bytes) : ares :=
  if Nat.ltb 3 (alen args) then (match exnxxx_err (skipn 3 args) with None => AReach | Some e => AErr e end)
  else localKV args.
Definition localSetIfEQCommand (args : list bytes) : ares :=
  match (if Nat.eqb (alen args) 6 then exsecs_err (arg args 4) (arg args 5) else None) with
  | Some e => AErr e
  | None => localK3 args
  end.
Definition localMSetCommand (args : list bytes) : ares :=
  need_slice args 1 (if Nat.even (alen args - 1) then AReach else APanic).
Definition localIncrByCommand (args : list bytes) : ares := parse_i args 2 (need args 1 AReach).
Definition localBitSetV2Command (args : list bytes) : ares :=
  parse_i args 2 (parse_i args 3 (need args 1 AReach)).
Definition localSetRangeCommand (args : list bytes) : ares :=
  parse_i args 2 (need args 1 (need args 3 AReach)).
Definition localHMsetCommand (args : list bytes) : ares :=
  need_slice args 2 (if Nat.even (alen args - 2) then need args 1 AReach else AErr (EFixed FEInvalidArgs)).
Definition localHIncrbyCommand (args : list bytes) : ares :=
  parse_i args 3 (need args 1 (need args 2 AReach)).
Definition localJSONDelCommand (args : list bytes) : ares := need args 1 AReach.
Definition localJSONArrayAppendCommand (args : list bytes) : ares :=
  need args 1 (need args 2 (need_slice args 3 AReach)).
Definition localLsetCommand (args : list bytes) : ares :=
  parse_i args 2 (need args 1 (need args 3 AReach)).
Definition localLtrimCommand (args : list bytes) : ares :=
  parse_i args 2 (parse_i args 3 (need args 1 AReach)).
Definition localZaddCommand (args : list bytes) : ares :=
  need_slice args 2 (match score_pairs (skipn 2 args) with
                     | PairsPanic => APanic
                     | PairsErr e => AErr e
                     | PairsOk => need args 1 AReach
                     end).
Definition localZincrbyCommand (args : list bytes) : ares :=
  parse_f args 2 (need args 1 (need args 3 AReach)).
Definition localZremCommand (args : list bytes) : ares :=
  if Nat.ltb (alen args) 3 then AErr (EFixed FEInvalidArgs) else AReach.
Definition localZremrangebyrankCommand (args : list bytes) : ares :=
  parse_i args 2 (parse_i args 3 (need args 1 AReach)).
Definition localZremrangebyscoreCommand (args : list bytes) : ares :=
  need args 2 (need args 3 (match score_range_err (arg args 2) (arg args 3) with None => need args 1 AReach | Some e => AErr e end)).
Definition localZremrangebylexCommand (args : list bytes) : ares :=
  need args 2 (need args 3 (if lex_range_ok (arg args 2) (arg args 3) then need args 1 AReach else AErr (EFixed FEInvalidRange))).
Definition localZclearCommand (args : list bytes) : ares :=
  if negb (Nat.eqb (alen args) 2) then AErr (EFixed FEInvalidArgs) else AReach.
Definition localSpop (args : list bytes) : ares :=
  if Nat.eqb (alen args) 3 then need args 2 (need args 1 AReach) else need args 1 AReach.
Definition localSetexCommand (args : list bytes) : ares :=
  parse_a args 2 (need args 1 (need args 3 AReach)).
Definition localPlsetCommand (args : list bytes) : ares :=
  if Nat.ltb (alen args) 3 || negb (Nat.even (alen args - 1)) then AErr (EArity (arg args 0)) else AReach.

(* internal handler method -> shape function. Unknown methods panic (fail-safe). *)
Definition apply_handler (m : gname) (args : list bytes) : ares :=
  let is s := gname_eqb m s in
  if is "localNoOpWriteCommand" then AReach
  else if is "localDelCommand" || is "localHMClearCommand" || is "localLMClearCommand"
       || is "localZMClearCommand" || is "localSmclear" then localRest1 args
  else if is "localDelIfEQCommand" || is "localGetSetCommand" || is "localSetnxCommand" || is "localAppendCommand" then localKV args
  else if is "localSetCommand" then localSetCommand args
  else if is "localSetIfEQCommand" then localSetIfEQCommand args
  else if is "localSetRangeCommand" then localSetRangeCommand args
  else if is "localBitSetCommand" || is "localBitSetV2Command" then localBitSetV2Command args
  else if is "localMSetCommand" then localMSetCommand args
  else if is "localIncrCommand" || is "localBitClearCommand" || is "localHclearCommand" || is "localLfixkeyCommand"
       || is "localLpopCommand" || is "localRpopCommand" || is "localLclearCommand" || is "localZFixKeyCommand"
       || is "localSclear" || is "localPersistCommand" || is "localHashPersistCommand" || is "localListPersistCommand"
       || is "localSetPersistCommand" || is "localZSetPersistCommand" || is "localBitPersistCommand"
       || is "localJSONDelCommand" || is "localJSONArrayPopCommand" then localKeyOnly args
  else if is "localIncrByCommand" then localIncrByCommand args
  else if is "localPlsetCommand" then localPlsetCommand args
  else if is "localPFAddCommand" || is "localHDelCommand" || is "localLpushCommand" || is "localRpushCommand"
       || is "localSadd" || is "localSrem" then localKRest args
  else if is "localHSetCommand" || is "localHSetNXCommand" || is "localJSONSetCommand" then localK3 args
  else if is "localHMsetCommand" then localHMsetCommand args
  else if is "localHIncrbyCommand" then localHIncrbyCommand args
  else if is "localJSONArrayAppendCommand" then localJSONArrayAppendCommand args
  else if is "localLsetCommand" then localLsetCommand args
  else if is "localLtrimCommand" then localLtrimCommand args
  else if is "localZaddCommand" then localZaddCommand args
  else if is "localZincrbyCommand" then localZincrbyCommand args
  else if is "localZremCommand" then localZremCommand args
  else if is "localZremrangebyrankCommand" then localZremrangebyrankCommand args
  else if is "localZremrangebyscoreCommand" then localZremrangebyscoreCommand args
  else if is "localZremrangebylexCommand" then localZremrangebylexCommand args
  else if is "localZclearCommand" then localZclearCommand args
  else if is "localSpop" then localSpop args
  else if is "localSetexCommand" then localSetexCommand args
  else if is "localExpireCommand" || is "localListExpireCommand" || is "localHashExpireCommand"
       || is "localSetExpireCommand" || is "localZSetExpireCommand" || is "localBitExpireCommand" then localExpire args
  else APanic.

(* node/state_machine.go ApplyRaftRequest for one redis request.
   v2 = RedisV2Req (namespace still present, cut here with the error ignored). *)
Definition apply_shape (v2 : bool) (args : list bytes) : ares :=
  match args with
  | name0 :: k :: rest =>
    let k' := if v2 then match cut_ns k with Some x => x | None => [] end else k in
    let args' := name0 :: k' :: rest in
    match find_reg KInternal (lower name0) reg_table with
    | None => AErr (EFixed FEInvalidCommand)
    | Some r => if gname_eqb (r_wrap r) "direct" then apply_handler (param (r_params r) 0) args' else APanic
    end
  | _ => APanic
  end.

End WithFloat.

(* ====================== the batch pre-check of the apply loop ====================== *)
(* node/state_machine.go isValidBatchableWrite(cmdName, args, ts): may this batchable write (SET, SETEX,
   single-key DEL, HMSET) join the open write batch? It has to imply that the handler's own argument
   checks pass, because an error inside a batch aborts the batch of all the clients. *)
Definition max_uint32 : Z := 4294967295.
Definition valid_ttl (ts_sec d : Z) : bool := (0 <? d)%Z && (d <? max_uint32 - 1 - ts_sec)%Z.

(* getExNxXXArgs: Some duration (0 when no EX) when there is no error *)
Fixpoint exnxxx_d (opts : list bytes) (nxorxx : bool) (dur : Z) : option Z :=
  match opts with
  | [] => Some dur
  | o :: rest =>
    let op := lower o in
    if bytes_eqb op (B "nx") || bytes_eqb op (B "xx") then
      if nxorxx then None else exnxxx_d rest true dur
    else if bytes_eqb op (B "ex") then
      match rest with
      | [] => None
      | secs :: rest' =>
        match parse_int secs with
        | None => None
        | Some d => if (d <=? 0)%Z then None else exnxxx_d rest' nxorxx d
        end
      end
    else None
  end.

(* all field/value pairs: CheckKeySubKey(rk, field) and the value size *)
Fixpoint pairs_ok (rk : bytes) (fvs : list bytes) : bool :=
  match fvs with
  | f :: v :: rest => check_key rk && check_subkey f && negb (max_value_size <? blen v) && pairs_ok rk rest
  | _ => true
  end.

Definition valid_batchable (name : bytes) (args : list bytes) (ts_sec : Z) : bool :=
  if Nat.ltb (alen args) 2 then false
  else
    let key := arg args 1 in
    if negb (check_key key) then false
    else match index_sep key_sep key with
         | Some (S p) =>
           if bytes_eqb name (B "set") then
             if Nat.ltb (alen args) 3 || (max_value_size <? blen (arg args 2)) then false
             else if Nat.ltb 3 (alen args) then
               match exnxxx_d (skipn 3 args) false 0 with
               | None => false
               | Some d => (d =? 0)%Z || valid_ttl ts_sec d
               end
             else true
           else if bytes_eqb name (B "setex") then
             if negb (Nat.eqb (alen args) 4) || (max_value_size <? blen (arg args 3)) then false
             else match parse_int (arg args 2) with
                  | None => false
                  | Some d => valid_ttl ts_sec d
                  end
           else if bytes_eqb name (B "del") then Nat.eqb (alen args) 2
           else if bytes_eqb name (B "hmset") then
             let fvs := skipn 2 args in
             let rk := skipn (S (S p)) key in
             if negb (Nat.even (length fvs)) || (max_batch_num <? N.of_nat (length fvs / 2)) then false
             else if max_key_size <? (blen rk / 8 + 1) * 9 + 64 then false
             else pairs_ok rk fvs
           else true
         | _ => false
         end.

(* the argument checks of the handlers and store functions themselves (node/keys.go localSetCommand,
   node/ttl.go localSetexCommand, node/hash.go localHMsetCommand, rockredis KVSet / KVSetWithOpts / SetEx /
   HMset / prepareCollKeyForWrite / rawExpireAt): true = no error that depends on the arguments only.
   [vk] = the versioned form of a hash key under the expiration policy (its length is what HMset checks). *)
Definition has_table (key : bytes) : bool :=
  match index_sep key_sep key with Some (S _) => true | _ => false end.
Definition ttl_fits (ts_sec d : Z) : bool := (d + ts_sec <? max_uint32 - 1)%Z.
Fixpoint store_pairs_ok (vkey : bytes) (fvs : list bytes) : bool :=
  match fvs with
  | f :: v :: rest => check_key vkey && check_subkey f && negb (max_value_size <? blen v) && store_pairs_ok vkey rest
  | _ => true
  end.
Definition store_args_ok (vk : bytes -> bytes) (name : bytes) (args : list bytes) (ts_sec : Z) : bool :=
  let key := arg args 1 in
  if bytes_eqb name (B "set") then
    Nat.leb 3 (alen args) && has_table key && check_key key && negb (max_value_size <? blen (arg args 2)) &&
    (if Nat.ltb 3 (alen args) then
       match exnxxx_d (skipn 3 args) false 0 with
       | None => false
       | Some d => (d =? 0)%Z || ttl_fits ts_sec d
       end
     else true)
  else if bytes_eqb name (B "setex") then
    Nat.leb 4 (alen args) && has_table key && check_key key && negb (max_value_size <? blen (arg args 3)) &&
    match parse_int (arg args 2) with
    | None => false
    | Some d => (0 <? d)%Z && ttl_fits ts_sec d
    end
  else if bytes_eqb name (B "del") then true         (* kvDel errors are ignored by DelKeys *)
  else if bytes_eqb name (B "hmset") then
    let fvs := skipn 2 args in
    match index_sep key_sep key with
    | Some p =>
      let rk := skipn (S p) key in
      Nat.even (length fvs) && negb (max_batch_num <? N.of_nat (length fvs / 2)) &&
      (match fvs with [] => true | _ => check_key rk && store_pairs_ok (vk rk) fvs end)
    | None => false
    end
  else true.

(* ---------- the properties as boolean functions ---------- *)
Definition no_panic (r : ares) : bool := match r with APanic => false | _ => true end.

(* what a leader puts into the log for (args): Some (name, args') *)
Definition proposed (pf : bytes -> option N) (ns : bytes) (args : list bytes) (f : fact) : option (list bytes) :=
  match handle pf ns args f with
  | VWrite (LProp _ a) => Some a
  | _ => None
  end.

(* with node.UseRedisV2 = true a single-key write is proposed as the raw command (RedisV2Req) and the
   namespace is cut at apply time; merged writes (DEL, PLSET) always use the RedisReq form *)
Definition proposed_v2 (pf : bytes -> option N) (ns : bytes) (args : list bytes) (f : fact) : option (list bytes) :=
  match args with
  | name0 :: _ =>
    if is_merge_command (lower name0) then None
    else match proposed pf ns args f with
         | Some (n :: _ :: rest) => Some (n :: arg args 1 :: rest)
         | _ => None
         end
  | [] => None
  end.
