(* Valid/BatchProofs.v — C11 (3): a request that is answered with an error contributes nothing to the
   committed state and leaves nothing in the shared batch. *)
From ZV Require Import Valid.Batch.
From Coq Require Import List Bool Arith Lia.
Import ListNotations.

Section BatchProofs.
Variable store write key cmd : Type.
Variable key_eqb : key -> key -> bool.
Variable commit : list write -> store -> store.
Variable pk : cmd -> key.
Variable batchable : cmd -> bool.
Variable max_batch : nat.
Variable handler : cmd -> store -> hres write.

(* a write batch applies its operations in order *)
Hypothesis commit_nil : forall s, commit [] s = s.
Hypothesis commit_app : forall a b s, commit (a ++ b) s = commit b (commit a s).
(* the one error that does not abort the batch is raised before any write
   (checked on the source: Consts.toomuch_sites, theorem C11_toomuch_before_any_write) *)
Hypothesis toomuch_clean : forall c s ws, handler c s = HErr ETooMuchBatch ws -> ws = [].

Notation bstate := (bstate store write key).
Notation step := (step store write key cmd key_eqb commit pk batchable max_batch handler).
Notation pre := (pre store write key cmd key_eqb commit pk batchable max_batch).
Notation commit_batch := (commit_batch store write key commit).
Notation abort_batch := (abort_batch store write key).
Notation run := (run store write key cmd key_eqb commit pk batchable max_batch handler).
Notation init := (init store write key).
Notation ok_writes := (ok_writes write).
Notation apply_writes := (apply_writes store write commit).

Lemma ok_writes_app a b : ok_writes (a ++ b) = ok_writes a ++ ok_writes b.
Proof. induction a as [|[i [ws|]] r IH]; simpl; [reflexivity| |]; rewrite IH; reflexivity. Qed.
Lemma apply_writes_app a b s : apply_writes (a ++ b) s = apply_writes b (apply_writes a s).
Proof. unfold apply_writes. apply fold_left_app. Qed.
Lemma ok_writes_some (p : list (reqid * list write)) :
  ok_writes (map (fun q => (fst q, Some (snd q))) p) = map snd p.
Proof. induction p as [|[i ws] r IH]; simpl; [reflexivity|]. rewrite IH. reflexivity. Qed.
Lemma ok_writes_none (p : list (reqid * list write)) :
  ok_writes (map (fun q => (fst q, @None (list write))) p) = [].
Proof. induction p as [|[i ws] r IH]; simpl; [reflexivity|exact IH]. Qed.
Lemma apply_concat l s : apply_writes l s = commit (concat l) s.
Proof.
  revert s. induction l as [|ws r IH]; intro s; simpl.
  - symmetry. apply commit_nil.
  - unfold apply_writes in *. simpl. rewrite IH. rewrite commit_app. reflexivity.
Qed.

(* the invariant of the apply loop *)
Definition inv (s0 : store) (s : bstate) : Prop :=
  (batching s = false -> pend s = []) /\
  wb s = concat (map snd (pend s)) /\
  st s = apply_writes (ok_writes (done s)) s0.

Lemma inv_init s0 : inv s0 (init s0).
Proof. unfold inv, init; simpl. auto. Qed.

Lemma inv_commit_batch s0 s : inv s0 s -> inv s0 (commit_batch s) /\ batching (commit_batch s) = false /\ wb (commit_batch s) = [].
Proof.
  unfold inv, commit_batch. intros (Hp & Hw & Hs). destruct (batching s) eqn:Eb; simpl.
  - repeat split; auto.
    rewrite ok_writes_app, apply_writes_app, <- Hs, ok_writes_some, Hw. symmetry. apply apply_concat.
  - repeat split; auto. rewrite Hw, (Hp eq_refl). reflexivity.
Qed.

Lemma inv_pre s0 s c : inv s0 s -> inv s0 (pre s c) /\ (batching (pre s c) = false -> wb (pre s c) = []).
Proof.
  unfold pre. intro H.
  destruct (batchable c && negb (existsb (key_eqb (pk c)) (keys s)) && Nat.ltb (length (pend s)) max_batch).
  - destruct (batching s) eqn:Eb.
    + split; [exact H|]. intro Hb. congruence.
    + destruct H as (Hp & Hw & Hs). split.
      * unfold inv; simpl. repeat split; auto; try (intro; discriminate).
      * simpl. intro. discriminate.
  - destruct (inv_commit_batch s0 s H) as (Hi & Hb & Hw). split; [exact Hi|]. intro. exact Hw.
Qed.

Lemma inv_step s0 s r : inv s0 s -> inv s0 (step s r).
Proof.
  intro H. destruct r as [id c]. unfold step.
  destruct (inv_pre s0 s c H) as (Hi & Hwb). set (s1 := pre s c) in *.
  destruct Hi as (Hp & Hw & Hs).
  destruct (handler c (st s1)) as [|ws|e ws] eqn:Eh.
  - (* unknown command *)
    unfold inv; simpl. repeat split; auto.
    rewrite ok_writes_app; simpl. rewrite app_nil_r. exact Hs.
  - (* success *)
    destruct (batching s1) eqn:Eb.
    + unfold inv; simpl. repeat split.
      * intro. discriminate.
      * rewrite map_app, concat_app; simpl. rewrite app_nil_r, Hw. reflexivity.
      * exact Hs.
    + unfold inv; simpl. repeat split.
      * intro. apply Hp. reflexivity.
      * rewrite (Hp eq_refl). reflexivity.
      * rewrite ok_writes_app, apply_writes_app, <- Hs; simpl.
        rewrite (Hwb eq_refl). reflexivity.
  - (* error *)
    destruct e; simpl.
    + (* errTooMuchBatchSize: no abort; the handler wrote nothing *)
      rewrite (toomuch_clean _ _ _ Eh). unfold inv; simpl. repeat split.
      * exact Hp.
      * rewrite app_nil_r. exact Hw.
      * rewrite ok_writes_app; simpl. rewrite app_nil_r. exact Hs.
    + (* any other error: AbortBatchForError *)
      unfold abort_batch; simpl. destruct (batching s1) eqn:Eb; unfold inv; simpl.
      * repeat split; auto.
        rewrite !ok_writes_app, ok_writes_none; simpl. rewrite !app_nil_r. exact Hs.
      * repeat split.
        -- intro. apply Hp. reflexivity.
        -- rewrite (Hp eq_refl). reflexivity.
        -- rewrite ok_writes_app; simpl. rewrite app_nil_r. exact Hs.
Qed.

Lemma inv_fold s0 reqs s : inv s0 s -> inv s0 (fold_left step reqs s).
Proof. revert s. induction reqs as [|r rs IH]; intros s H; simpl; [exact H|]. apply IH. apply inv_step. exact H. Qed.

(* (3) after a pass of the apply loop the committed state is exactly the effect of the requests that
   were answered without an error, in order; nothing is left in the batch *)
Theorem error_is_noop s0 reqs :
  let s := run (init s0) reqs in
  st s = apply_writes (ok_writes (done s)) s0 /\ wb s = [] /\ batching s = false /\ pend s = [].
Proof.
  simpl. unfold run.
  pose proof (inv_fold s0 reqs (init s0) (inv_init s0)) as H.
  destruct (inv_commit_batch s0 _ H) as ((Hp & Hw & Hs) & Hb & Hwb).
  repeat split; auto.
Qed.

(* one request: when its handler returns an error, the committed store stays what it was when the
   handler started, the request is recorded as failed, and the shared batch is either empty
   (abort) or exactly what the successfully batched requests before it had buffered *)
Theorem error_step s0 s id c e ws :
  inv s0 s -> handler c (st (pre s c)) = HErr e ws ->
  let s' := step s (id, c) in
  st s' = st (pre s c) /\
  In (id, None) (done s') /\
  (wb s' = [] \/ (e = ETooMuchBatch /\ wb s' = wb (pre s c))).
Proof.
  intros Hi Eh. simpl. unfold step. rewrite Eh. destruct e; simpl.
  - rewrite (toomuch_clean _ _ _ Eh). repeat split.
    + apply in_or_app. right. left. reflexivity.
    + right. split; [reflexivity|]. apply app_nil_r.
  - unfold abort_batch; simpl. destruct (batching (pre s c)); simpl; repeat split; auto.
    + apply in_or_app. left. apply in_or_app. right. left. reflexivity.
    + apply in_or_app. right. left. reflexivity.
Qed.

End BatchProofs.
