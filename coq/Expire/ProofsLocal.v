(* Expire/ProofsLocal.v — local-deletion policy: a tick removes only keys with a due index entry. *)
From ZV Require Import Common.Bytes Common.BytesFacts Expire.Consts Expire.Model Expire.Proofs.
From ZV Require Import Expire.ProofsRel.
From Coq Require Import ZifyBool Lia.
Open Scope Z_scope.

Arguments ttl_of : simpl never.
Arguments is_expired : simpl never.
Arguments sec : simpl never.

(* ---------- local deletion: the background deleter removes only keys with a due index entry ---------- *)
Lemma read_view p s s' now t k : (t = TK -> kv_get s' k = kv_get s k) ->
  (t <> TK -> meta_get s' t k = meta_get s t k /\ forall v, el_of s' t k v = el_of s t k v) ->
  read p s' now t k = read p s now t k.
Proof.
  intros A B. unfold read. destruct t.
  - unfold read_kv, kv_raw. now rewrite A.
  - destruct B as [B1 B2]; [discriminate|]. unfold read_coll, coll_header. rewrite B1.
    destruct (meta_get s TH k); auto. now rewrite B2.
  - destruct B as [B1 B2]; [discriminate|]. unfold read_coll, coll_header. rewrite B1.
    destruct (meta_get s TS k); auto. now rewrite B2.
  - destruct B as [B1 B2]; [discriminate|]. unfold read_coll, coll_header. rewrite B1.
    destruct (meta_get s TZ k); auto. now rewrite B2.
  - destruct B as [B1 B2]; [discriminate|]. unfold read_coll, coll_header. rewrite B1.
    destruct (meta_get s TL k); auto. now rewrite B2.
Qed.

Lemma el_of_del_gen s t k v t' k' v' : (t', k') <> (t, k) -> el_of (el_del_gen s t k v) t' k' v' = el_of s t' k' v'.
Proof.
  intros Hn. rewrite !el_of_unfold. unfold el_del_gen. cbn [elems].
  induction (elems s) as [|[[[[t1 k1] v1] sb1] x] l IH]; auto.
  cbn [filter]. destruct (ty_eqb t t1 && bytes_eqb k k1 && (v =? v1)) eqn:E; cbn [negb].
  - rewrite IH. cbn [el_of_list flat_map]. fold (el_of_list l t' k' v').
    destruct (ty_eqb t' t1 && bytes_eqb k' k1 && (v' =? v1)) eqn:F; auto.
    exfalso. apply Hn. rewrite !andb_true_iff in E, F. destruct E as [[E1 E2] _], F as [[F1 F2] _].
    apply ty_eqb_eq in E1, F1. apply bytes_eqb_eq in E2, F2. congruence.
  - cbn [el_of_list flat_map]. fold (el_of_list l t' k' v'). fold (el_of_list (filter (fun e => let '(t'0, k'0, v'0, _, _) := e in negb (ty_eqb t t'0 && bytes_eqb k k'0 && (v =? v'0))) l) t' k' v').
    now rewrite IH.
Qed.

Lemma kv_get_retidx s1 x k : kv_get (mkS (kvs s1) (metas s1) (elems s1) x) k = kv_get s1 k. Proof. reflexivity. Qed.
Lemma meta_get_retidx s1 x t k : meta_get (mkS (kvs s1) (metas s1) (elems s1) x) t k = meta_get s1 t k. Proof. reflexivity. Qed.
Lemma el_of_retidx s1 x t k v : el_of (mkS (kvs s1) (metas s1) (elems s1) x) t k v = el_of s1 t k v. Proof. reflexivity. Qed.
Lemma meta_get_del_gen s t k v t' k' : meta_get (el_del_gen s t k v) t' k' = meta_get s t' k'. Proof. reflexivity. Qed.
Lemma kv_get_del_gen s t k v k' : kv_get (el_del_gen s t k v) k' = kv_get s k'. Proof. reflexivity. Qed.
Lemma kv_get_meta_del s t k k' : kv_get (meta_del s t k) k' = kv_get s k'. Proof. reflexivity. Qed.

Lemma local_del_coll_other s w t' k' t k : t' <> TK -> (t', k') <> (t, k) ->
  kv_get (local_del_key s ((w, t', k'), tt)) k = kv_get s k /\
  meta_get (local_del_key s ((w, t', k'), tt)) t k = meta_get s t k /\
  forall v, el_of (local_del_key s ((w, t', k'), tt)) t k v = el_of s t k v.
Proof.
  intros Ht Hn. unfold local_del_key. cbn [fst].
  assert (X : forall s1, s1 = match meta_get s t' k' with None => s | Some m => el_del_gen (meta_del s t' k') t' k' (h_ver (m_hdr m)) end ->
              kv_get s1 k = kv_get s k /\ meta_get s1 t k = meta_get s t k /\ forall v, el_of s1 t k v = el_of s t k v).
  { intros s1 ->. destruct (meta_get s t' k') as [m|]; [|auto]. split; [reflexivity|]. split.
    - rewrite meta_get_del_gen, meta_get_del. destruct (mkey_eqb (t, k) (t', k')) eqn:E; auto.
      apply mkey_eqb_eq in E. inversion E; subst. now contradiction Hn.
    - intros v. rewrite el_of_del_gen by (intros Y; apply Hn; now inversion Y). reflexivity. }
  destruct t'; [contradiction|..]; rewrite kv_get_retidx, meta_get_retidx; (split; [|split]); try (intros v; rewrite el_of_retidx); now apply X.
Qed.
Lemma local_del_kv_other s w k' t k : (TK, k') <> (t, k) ->
  kv_get (local_del_key s ((w, TK, k'), tt)) k = (if ty_eqb t TK then kv_get s k else kv_get (kv_del s k') k) /\
  meta_get (local_del_key s ((w, TK, k'), tt)) t k = meta_get s t k /\
  forall v, el_of (local_del_key s ((w, TK, k'), tt)) t k v = el_of s t k v.
Proof.
  intros Hn. unfold local_del_key. cbn [fst]. rewrite kv_get_retidx, meta_get_retidx. split; [|split; [reflexivity | intros v; reflexivity]].
  destruct (ty_eqb t TK) eqn:E; auto. apply ty_eqb_eq in E. subst. rewrite kv_get_del.
  destruct (bytes_eqb k k') eqn:F; auto. apply bytes_eqb_eq in F. subst. now contradiction Hn.
Qed.

(* what a reader of key (t, k) depends on *)
Definition same_for (s s' : store) (t : ty) (k : bytes) : Prop :=
  (t = TK -> kv_get s' k = kv_get s k) /\ meta_get s' t k = meta_get s t k /\ forall v, el_of s' t k v = el_of s t k v.

Lemma local_del_key_same s e t k : (snd (fst (fst e)), snd (fst e)) <> (t, k) -> same_for s (local_del_key s e) t k.
Proof.
  destruct e as [[[w t'] k'] []]. cbn [fst snd]. intros Hn. unfold same_for. destruct t'.
  - destruct (local_del_kv_other s w k' t k Hn) as (A & B & C). split; [|auto].
    intros ->. now rewrite A.
  - destruct (local_del_coll_other s w TH k' t k) as (A & B & C); auto; discriminate.
  - destruct (local_del_coll_other s w TS k' t k) as (A & B & C); auto; discriminate.
  - destruct (local_del_coll_other s w TZ k' t k) as (A & B & C); auto; discriminate.
  - destruct (local_del_coll_other s w TL k' t k) as (A & B & C); auto; discriminate.
Qed.

Definition has_due (s : store) (scan : Z) (t : ty) (k : bytes) : Prop :=
  exists w, In ((w, t, k), tt) (tidx s) /\ 0 <= w <= scan.

(* a tick with scan time [scan] leaves every key without a due index entry exactly as it was *)
Theorem local_tick_safe s scan t k : ~ has_due s scan t k -> same_for s (local_tick s scan) t k.
Proof.
  intros H. unfold local_tick.
  assert (G : forall l s0, (forall e, In e l -> (snd (fst (fst e)), snd (fst e)) <> (t, k)) ->
              same_for s s0 t k -> same_for s (fold_left local_del_key l s0) t k).
  { induction l as [|e l IH]; intros s0 Hl S; simpl; auto. apply IH; [intros e' He'; apply Hl; now right|].
    destruct (local_del_key_same s0 e t k (Hl e (or_introl eq_refl))) as (A & B & C).
    destruct S as (A0 & B0 & C0). split; [|split].
    - intros Ht. rewrite (A Ht). now apply A0.
    - now rewrite B.
    - intros v. now rewrite C. }
  apply G; [|split; [|split]; auto].
  intros e He. apply filter_In in He as [Hin Hd]. destruct e as [[[w t'] k'] []]. cbn [fst snd].
  intros X. inversion X; subst. apply H. exists w. split; auto. unfold due in Hd. cbn [fst] in Hd. lia.
Qed.
Theorem local_tick_invisible s scan t k now : ~ has_due s scan t k ->
  read Local (local_tick s scan) now t k = read Local s now t k.
Proof.
  intros H. destruct (local_tick_safe s scan t k H) as (A & B & C). apply read_view; auto.
Qed.
(* in particular: a key all of whose recorded expiries lie after the scan time is never touched *)
Corollary local_tick_future_untouched s scan t k now :
  (forall w, In ((w, t, k), tt) (tidx s) -> scan < w) ->
  read Local (local_tick s scan) now t k = read Local s now t k.
Proof. intros H. apply local_tick_invisible. intros (w & Hin & Hw). specialize (H w Hin). lia. Qed.
