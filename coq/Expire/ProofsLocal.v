(* Expire/ProofsLocal.v — local-deletion policy: a tick removes only keys with a due index entry. *)
From ZV Require Import Common.Bytes Common.BytesFacts Expire.Consts Expire.Model Expire.Proofs.
From ZV Require Import Expire.ProofsRel.
From Coq Require Import ZifyBool Lia.
Open Scope Z_scope.

Arguments ttl_of : simpl never.
Arguments is_expired : simpl never.
Arguments sec : simpl never.

(* ---------- local deletion: the background deleter removes only keys with a due index entry ---------- *)
Lemma read_view p s s' now t k : (t = TK -> kv_get s' k = kv_get s k) ->
  (t <> TK -> meta_get s' t k = meta_get s t k /\ forall v, el_of s' t k v = el_of s t k v) ->
  read p s' now t k = read p s now t k.
Proof.
  intros A B. unfold read. destruct t.
  - unfold read_kv, kv_raw. now rewrite A.
  - destruct B as [B1 B2]; [discriminate|]. unfold read_coll, coll_header. rewrite B1.
    destruct (meta_get s TH k); auto. now rewrite B2.
  - destruct B as [B1 B2]; [discriminate|]. unfold read_coll, coll_header. rewrite B1.
    destruct (meta_get s TS k); auto. now rewrite B2.
  - destruct B as [B1 B2]; [discriminate|]. unfold read_coll, coll_header, zidx. rewrite B1.
    destruct (meta_get s TZ k); auto. now rewrite B2.
  - destruct B as [B1 B2]; [discriminate|]. unfold read_coll, coll_header. rewrite B1.
    destruct (meta_get s TL k); auto. now rewrite B2.
Qed.

Lemma el_of_del_gen s t k v t' k' v' : (t', k') <> (t, k) -> el_of (el_del_gen s t k v) t' k' v' = el_of s t' k' v'.
Proof.
  intros Hn. rewrite !el_of_unfold. unfold el_del_gen. cbn [elems].
  induction (elems s) as [|[[[[t1 k1] v1] sb1] x] l IH]; auto.
  cbn [filter]. destruct (ty_eqb t t1 && bytes_eqb k k1 && (v =? v1)) eqn:E; cbn [negb].
  - rewrite IH. cbn [el_of_list flat_map]. fold (el_of_list l t' k' v').
    destruct (ty_eqb t' t1 && bytes_eqb k' k1 && (v' =? v1)) eqn:F; auto.
    exfalso. apply Hn. rewrite !andb_true_iff in E, F. destruct E as [[E1 E2] _], F as [[F1 F2] _].
    apply ty_eqb_eq in E1, F1. apply bytes_eqb_eq in E2, F2. congruence.
  - cbn [el_of_list flat_map]. fold (el_of_list l t' k' v'). fold (el_of_list (filter (fun e => let '(t'0, k'0, v'0, _, _) := e in negb (ty_eqb t t'0 && bytes_eqb k k'0 && (v =? v'0))) l) t' k' v').
    now rewrite IH.
Qed.

Lemma kv_get_retidx s1 x k : kv_get (mkS (kvs s1) (metas s1) (elems s1) x) k = kv_get s1 k. Proof. reflexivity. Qed.
Lemma meta_get_retidx s1 x t k : meta_get (mkS (kvs s1) (metas s1) (elems s1) x) t k = meta_get s1 t k. Proof. reflexivity. Qed.
Lemma el_of_retidx s1 x t k v : el_of (mkS (kvs s1) (metas s1) (elems s1) x) t k v = el_of s1 t k v. Proof. reflexivity. Qed.
Lemma meta_get_del_gen s t k v t' k' : meta_get (el_del_gen s t k v) t' k' = meta_get s t' k'. Proof. reflexivity. Qed.
Lemma kv_get_del_gen s t k v k' : kv_get (el_del_gen s t k v) k' = kv_get s k'. Proof. reflexivity. Qed.
Lemma kv_get_meta_del s t k k' : kv_get (meta_del s t k) k' = kv_get s k'. Proof. reflexivity. Qed.

Lemma local_del_coll_other s w t' k' t k : t' <> TK -> (t', k') <> (t, k) ->
  kv_get (local_del_key s ((w, t', k'), tt)) k = kv_get s k /\
  meta_get (local_del_key s ((w, t', k'), tt)) t k = meta_get s t k /\
  forall v, el_of (local_del_key s ((w, t', k'), tt)) t k v = el_of s t k v.
Proof.
  intros Ht Hn. unfold local_del_key. cbn [fst].
  assert (X : forall s1, s1 = match meta_get s t' k' with None => s | Some m => el_del_gen (meta_del s t' k') t' k' (h_ver (m_hdr m)) end ->
              kv_get s1 k = kv_get s k /\ meta_get s1 t k = meta_get s t k /\ forall v, el_of s1 t k v = el_of s t k v).
  { intros s1 ->. destruct (meta_get s t' k') as [m|]; [|auto]. split; [reflexivity|]. split.
    - rewrite meta_get_del_gen, meta_get_del. destruct (mkey_eqb (t, k) (t', k')) eqn:E; auto.
      apply mkey_eqb_eq in E. inversion E; subst. now contradiction Hn.
    - intros v. rewrite el_of_del_gen by (intros Y; apply Hn; now inversion Y). reflexivity. }
  destruct t'; [contradiction|..]; rewrite kv_get_retidx, meta_get_retidx; (split; [|split]); try (intros v; rewrite el_of_retidx); now apply X.
Qed.
Lemma local_del_kv_other s w k' t k : (TK, k') <> (t, k) ->
  kv_get (local_del_key s ((w, TK, k'), tt)) k = (if ty_eqb t TK then kv_get s k else kv_get (kv_del s k') k) /\
  meta_get (local_del_key s ((w, TK, k'), tt)) t k = meta_get s t k /\
  forall v, el_of (local_del_key s ((w, TK, k'), tt)) t k v = el_of s t k v.
Proof.
  intros Hn. unfold local_del_key. cbn [fst]. rewrite kv_get_retidx, meta_get_retidx. split; [|split; [reflexivity | intros v; reflexivity]].
  destruct (ty_eqb t TK) eqn:E; auto. apply ty_eqb_eq in E. subst. rewrite kv_get_del.
  destruct (bytes_eqb k k') eqn:F; auto. apply bytes_eqb_eq in F. subst. now contradiction Hn.
Qed.

(* what a reader of key (t, k) depends on *)
Definition same_for (s s' : store) (t : ty) (k : bytes) : Prop :=
  (t = TK -> kv_get s' k = kv_get s k) /\ meta_get s' t k = meta_get s t k /\ forall v, el_of s' t k v = el_of s t k v.

Lemma local_del_key_same s e t k : (snd (fst (fst e)), snd (fst e)) <> (t, k) -> same_for s (local_del_key s e) t k.
Proof.
  destruct e as [[[w t'] k'] []]. cbn [fst snd]. intros Hn. unfold same_for. destruct t'.
  - destruct (local_del_kv_other s w k' t k Hn) as (A & B & C). split; [|auto].
    intros ->. now rewrite A.
  - destruct (local_del_coll_other s w TH k' t k) as (A & B & C); auto; discriminate.
  - destruct (local_del_coll_other s w TS k' t k) as (A & B & C); auto; discriminate.
  - destruct (local_del_coll_other s w TZ k' t k) as (A & B & C); auto; discriminate.
  - destruct (local_del_coll_other s w TL k' t k) as (A & B & C); auto; discriminate.
Qed.

Definition has_due (s : store) (scan : Z) (t : ty) (k : bytes) : Prop :=
  exists w, In ((w, t, k), tt) (tidx s) /\ 0 <= w <= scan.

(* a tick with scan time [scan] leaves every key without a due index entry exactly as it was *)
Theorem local_tick_safe s scan t k : ~ has_due s scan t k -> same_for s (local_tick s scan) t k.
Proof.
  intros H. unfold local_tick.
  assert (G : forall l s0, (forall e, In e l -> (snd (fst (fst e)), snd (fst e)) <> (t, k)) ->
              same_for s s0 t k -> same_for s (fold_left local_del_key l s0) t k).
  { induction l as [|e l IH]; intros s0 Hl S; simpl; auto. apply IH; [intros e' He'; apply Hl; now right|].
    destruct (local_del_key_same s0 e t k (Hl e (or_introl eq_refl))) as (A & B & C).
    destruct S as (A0 & B0 & C0). split; [|split].
    - intros Ht. rewrite (A Ht). now apply A0.
    - now rewrite B.
    - intros v. now rewrite C. }
  apply G; [|split; [|split]; auto].
  intros e He. apply filter_In in He as [Hin Hd]. destruct e as [[[w t'] k'] []]. cbn [fst snd].
  intros X. inversion X; subst. apply H. exists w. split; auto. unfold due in Hd. cbn [fst] in Hd. lia.
Qed.
Theorem local_tick_invisible s scan t k now : ~ has_due s scan t k ->
  read Local (local_tick s scan) now t k = read Local s now t k.
Proof.
  intros H. destruct (local_tick_safe s scan t k H) as (A & B & C). apply read_view; auto.
Qed.
(* in particular: a key all of whose recorded expiries lie after the scan time is never touched *)
Corollary local_tick_future_untouched s scan t k now :
  (forall w, In ((w, t, k), tt) (tidx s) -> scan < w) ->
  read Local (local_tick s scan) now t k = read Local s now t k.
Proof. intros H. apply local_tick_invisible. intros (w & Hin & Hw). specialize (H w Hin). lia. Qed.

(* ---------- local deletion: index entries are exactly the expiries that were asked for ---------- *)
Definition requested (ts : Z) (c : cmd) (e : tkey * unit) : Prop :=
  match c with
  | CSetEx k d _ => 0 < d /\ expire_when ts d = Some (fst (fst (fst e))) /\ e = ((fst (fst (fst e)), TK, k), tt)
  | CExpire t k d => expire_when ts d = Some (fst (fst (fst e))) /\ e = ((fst (fst (fst e)), t, k), tt)
  | CSetOpt k _ ttl _ _ => 0 < ttl /\ expire_when ts ttl = Some (fst (fst (fst e))) /\ e = ((fst (fst (fst e)), TK, k), tt)
  | CSetIfEq k _ _ ttl => 0 < ttl /\ expire_when ts ttl = Some (fst (fst (fst e))) /\ e = ((fst (fst (fst e)), TK, k), tt)
  | _ => False
  end.

Lemma In_adel {K V} (eqb : K -> K -> bool) k (l : list (K * V)) e : In e (adel eqb k l) -> In e l.
Proof. induction l as [|[a v] l IH]; simpl; auto. destruct (eqb k a); simpl; intros H; auto. destruct H; auto. Qed.
Lemma In_tidx_add s w t k e : In e (tidx (tidx_add s w t k)) -> e = ((w, t, k), tt) \/ In e (tidx s).
Proof. unfold tidx_add, aset. cbn [tidx]. intros [<- | H]; auto. right. eapply In_adel; eauto. Qed.

Lemma tidx_incr_size s t k h ud d : tidx (incr_size s t k h ud d) = tidx s.
Proof. unfold incr_size. destruct (size_of ud + d <=? 0); reflexivity. Qed.
Lemma tidx_fold {A} (f : store -> A -> store) l : (forall st a, tidx (f st a) = tidx st) -> forall s, tidx (fold_left f l s) = tidx s.
Proof. intros H. induction l as [|a l IH]; intros s; simpl; auto. now rewrite IH, H. Qed.
Lemma tidx_put_seq k ver vs : forall seq delta s, tidx (fst (put_seq s k ver seq delta vs)) = tidx s.
Proof.
  induction vs as [|v vs IH]; intros seq delta s; simpl; auto.
  destruct (el_get s TL k ver (SI seq)); auto. now rewrite IH.
Qed.
Lemma tidx_apply_fix s k o : tidx (apply_fix s k o) = tidx s.
Proof. destruct o; reflexivity. Qed.
Lemma tidx_list_set_meta s k h hd tl s' : list_set_meta s k h hd tl = Some s' -> tidx s' = tidx s.
Proof.
  unfold list_set_meta. destruct (tl - hd + 1 <? 0); [discriminate|]. destruct (tl - hd + 1 =? 0); intros X; now inversion X.
Qed.
Lemma tidx_coll_rem s ts t k ms : tidx (fst (coll_rem Local s ts t k ms)) = tidx s.
Proof.
  unfold coll_rem. destruct ms; auto. destruct (coll_header Local s ts t k) as [[h ud] ex]. destruct ex; auto.
  cbn [fst]. rewrite tidx_incr_size. now apply tidx_fold.
Qed.
Lemma tidx_do_hset s ts k f v nx : tidx (fst (do_hset Local s ts k f v nx)) = tidx s.
Proof.
  unfold do_hset. destruct (coll_prepare Local s ts TH k) as [[h ud] ex].
  destruct (el_get s TH k (h_ver h) (SB f)); [destruct nx|]; cbn [fst]; auto.
  unfold el_put. cbn [tidx]. apply tidx_incr_size.
Qed.
Lemma tidx_kv_reset s ts k v ttl s' e : kv_reset Local s ts k v ttl = Some s' -> In e (tidx s') ->
  In e (tidx s) \/ (0 < ttl /\ expire_when ts ttl = Some (fst (fst (fst e))) /\ e = ((fst (fst (fst e)), TK, k), tt)).
Proof.
  unfold kv_reset. destruct (ttl <=? 0) eqn:E; [intros X; inversion X; subst; cbn [tidx kv_put]; auto|].
  destruct (expire_when ts ttl) as [w|] eqn:W; intros X; inversion X; subst. cbn [tidx kv_put].
  intros H. apply In_tidx_add in H as [-> | H]; auto. right. cbn [fst]. repeat split; auto. lia.
Qed.
Lemma tidx_do_mset ts kvl : forall s, tidx (do_mset Local s ts kvl) = tidx s.
Proof. induction kvl as [|[a b] kvl IH]; intros s; simpl; auto. now rewrite IH. Qed.

Lemma tidx_zset_item s k v st x : tidx (zset_item s k v st x) = tidx st.
Proof. unfold zset_item. destruct x. destruct (el_get s TZ k v (SB b)); [destruct (score_of e =? z)|]; reflexivity. Qed.
Lemma tidx_zdel_item s k v st x : tidx (zdel_item s k v st x) = tidx st.
Proof. unfold zdel_item. destruct (el_get s TZ k v (SB x)); reflexivity. Qed.
Lemma tidx_zrem_entries s k h ud ents : tidx (fst (zrem_entries s k h ud ents)) = tidx s.
Proof. unfold zrem_entries. cbn [fst]. rewrite tidx_incr_size. apply tidx_fold. intros; apply tidx_zdel_item. Qed.

Theorem local_index_provenance s ts c e :
  In e (tidx (fst (step Local s ts c))) -> In e (tidx s) \/ requested ts c e.
Proof.
  destruct c; cbn [step requested].
  - (* set *) unfold do_set. cbn. auto.
  - (* setex *) unfold do_setex. destruct (dur <=? 0); cbn [fst]; auto.
    destruct (kv_reset Local s ts k v dur) eqn:R; cbn [fst]; auto.
    intros H. destruct (tidx_kv_reset _ _ _ _ _ _ _ R H) as [|X]; auto.
  - (* setnx *) unfold do_setnx. destruct (kv_prepare Local s ts k) as [[h ov] ex]. destruct (kv_cur ov ex); cbn; auto.
  - (* getset *) unfold do_getset. destruct (kv_raw Local s ts k) as [[h ov] ex]. cbn. auto.
  - (* mset *) destruct kvl; cbn [fst]; auto. rewrite tidx_do_mset. auto.
  - (* incrby *) unfold do_incrby. destruct (kv_prepare Local s ts k) as [[h ov] ex].
    destruct (match kv_cur ov ex with Some b => parse_int b | None => Some 0 end); cbn [fst]; auto.
    destruct (in_int64 (z + d)); cbn [fst]; auto.
  - (* append *) unfold do_append. destruct (kv_prepare Local s ts k) as [[h ov] ex].
    destruct v, (kv_cur ov ex); cbn [fst]; auto;
      match goal with |- context [if ?c then _ else _] => destruct c end; cbn [fst]; auto.
  - (* setrange *) unfold do_setrange. destruct v.
    + destruct (kv_raw Local s ts k) as [[h ov] ex]. cbn [fst]; auto.
    + match goal with |- context [if ?c then _ else _] => destruct c end; cbn [fst]; auto.
      destruct (kv_prepare Local s ts k) as [[h ov] ex]. cbn [fst]; auto.
  - (* del *) unfold do_del. cbn [fst]. rewrite tidx_fold; auto.
  - (* expire *) unfold do_expire. destruct (expire_when ts dur) as [w|] eqn:W; destruct t.
    + unfold kv_set_expire. destruct (kv_raw Local s ts k) as [[h ov] ex]. destruct ov; cbn [fst]; auto.
      destruct ex; cbn [fst]; auto. destruct (w =? 0); cbn [fst]; auto.
      intros H. apply In_tidx_add in H as [-> | H]; auto.
    + unfold coll_set_expire. destruct (coll_header Local s ts TH k) as [[h ud] ex]. destruct ud as [[a b]|]; cbn [fst]; auto.
      destruct ex; cbn [fst]; auto. destruct (w =? 0); cbn [fst]; auto.
      intros H. apply In_tidx_add in H as [-> | H]; auto.
    + unfold coll_set_expire. destruct (coll_header Local s ts TS k) as [[h ud] ex]. destruct ud as [[a b]|]; cbn [fst]; auto.
      destruct ex; cbn [fst]; auto. destruct (w =? 0); cbn [fst]; auto.
      intros H. apply In_tidx_add in H as [-> | H]; auto.
    + unfold coll_set_expire. destruct (coll_header Local s ts TZ k) as [[h ud] ex]. destruct ud as [[a b]|]; cbn [fst]; auto.
      destruct ex; cbn [fst]; auto. destruct (w =? 0); cbn [fst]; auto.
      intros H. apply In_tidx_add in H as [-> | H]; auto.
    + unfold coll_set_expire. destruct (coll_header Local s ts TL k) as [[h ud] ex]. destruct ud as [[a b]|]; cbn [fst]; auto.
      destruct ex; cbn [fst]; auto. destruct (w =? 0); cbn [fst]; auto.
      intros H. apply In_tidx_add in H as [-> | H]; auto.
    + unfold kv_set_expire. destruct (kv_raw Local s ts k) as [[h ov] ex]. destruct ov; cbn [fst]; auto. destruct ex; cbn [fst]; auto.
    + unfold coll_set_expire. destruct (coll_header Local s ts TH k) as [[h ud] ex]. destruct ud as [[a b]|]; cbn [fst]; auto. destruct ex; cbn [fst]; auto.
    + unfold coll_set_expire. destruct (coll_header Local s ts TS k) as [[h ud] ex]. destruct ud as [[a b]|]; cbn [fst]; auto. destruct ex; cbn [fst]; auto.
    + unfold coll_set_expire. destruct (coll_header Local s ts TZ k) as [[h ud] ex]. destruct ud as [[a b]|]; cbn [fst]; auto. destruct ex; cbn [fst]; auto.
    + unfold coll_set_expire. destruct (coll_header Local s ts TL k) as [[h ud] ex]. destruct ud as [[a b]|]; cbn [fst]; auto. destruct ex; cbn [fst]; auto.
  - (* persist: not supported under local deletion *) unfold do_persist. destruct t.
    + unfold kv_set_expire. destruct (kv_raw Local s ts k) as [[h ov] ex]. destruct ov; cbn [fst]; auto. destruct ex; cbn [fst]; auto.
    + unfold coll_set_expire. destruct (coll_header Local s ts TH k) as [[h ud] ex]. destruct ud as [[a b]|]; cbn [fst]; auto. destruct ex; cbn [fst]; auto.
    + unfold coll_set_expire. destruct (coll_header Local s ts TS k) as [[h ud] ex]. destruct ud as [[a b]|]; cbn [fst]; auto. destruct ex; cbn [fst]; auto.
    + unfold coll_set_expire. destruct (coll_header Local s ts TZ k) as [[h ud] ex]. destruct ud as [[a b]|]; cbn [fst]; auto. destruct ex; cbn [fst]; auto.
    + unfold coll_set_expire. destruct (coll_header Local s ts TL k) as [[h ud] ex]. destruct ud as [[a b]|]; cbn [fst]; auto. destruct ex; cbn [fst]; auto.
  - (* clear *) destruct t; cbn [fst]; auto; unfold coll_clear;
      match goal with |- context [coll_header ?p ?s ?ts ?t ?k] => destruct (coll_header p s ts t k) as [[h ud] ex] end;
      destruct (not_exist_or_expired ud ex); cbn [fst]; auto;
      match goal with |- context [if ?c then _ else _] => destruct c end; cbn [fst]; auto.
  - (* hset *) rewrite tidx_do_hset. auto.
  - (* hmset *) unfold do_hmset. destruct fvl; cbn [fst]; auto. destruct (coll_prepare Local s ts TH k) as [[h ud] ex]. cbn [fst].
    rewrite tidx_incr_size, tidx_fold; auto.
  - (* hdel *) rewrite tidx_coll_rem. auto.
  - (* hincrby *) unfold do_hincrby.
    match goal with |- context [match ?x with Some n => _ | None => (s, RErr) end] => destruct x end; cbn [fst]; auto.
    destruct (in_int64 (z + d)); cbn [fst]; auto. rewrite tidx_do_hset. auto.
  - (* sadd *) unfold do_sadd. destruct (coll_prepare Local s ts TS k) as [[h ud] ex]. cbn [fst]. rewrite tidx_incr_size, tidx_fold; auto.
  - (* srem *) rewrite tidx_coll_rem. auto.
  - (* spop *) unfold do_spop. destruct (n >? max_batch_num); cbn [fst]; auto. destruct (n <=? 0); cbn [fst]; auto.
    destruct (coll_header Local s ts TS k) as [[h ud] ex]. destruct (not_exist_or_expired ud ex); cbn [fst]; auto.
    destruct (size_of ud =? 0); cbn [fst]; auto. rewrite tidx_coll_rem. auto.
  - (* zadd *) unfold do_zadd. destruct sml; cbn [fst]; auto. destruct (coll_prepare Local s ts TZ k) as [[h ud] ex]. cbn [fst].
    rewrite tidx_incr_size, tidx_fold; auto. intros; apply tidx_zset_item.
  - (* zincrby *) unfold do_zincrby. destruct (coll_prepare Local s ts TZ k) as [[h ud] ex].
    destruct (el_get s TZ k (h_ver h) (SB m)); cbn [fst]; auto. unfold el_put. cbn [tidx]. rewrite tidx_incr_size. auto.
  - (* zrem *) unfold do_zrem. destruct ms; cbn [fst]; auto. destruct (coll_header Local s ts TZ k) as [[h ud] ex].
    destruct ex; cbn [fst]; auto. rewrite tidx_incr_size, tidx_fold; auto. intros; apply tidx_zdel_item.
  - (* zremrangebyscore *) unfold do_zremrangebyscore. destruct (coll_header Local s ts TZ k) as [[h ud] ex].
    destruct ex; cbn [fst]; auto. destruct (size_of ud =? 0); cbn [fst]; auto. rewrite tidx_zrem_entries. auto.
  - (* lpush *) unfold do_lpush. destruct (Z.of_nat (length vs) >? max_batch_num); cbn [fst]; auto.
    destruct (coll_prepare Local s ts TL k) as [[h ud] ex]. destruct (list_meta_of ud) as [[hd0 tl0] size].
    destruct vs; cbn [fst]; auto.
    match goal with |- context [if ?c then _ else _] => destruct c end; cbn [fst]; auto.
    match goal with |- context [put_seq ?a ?b ?c ?d ?e ?f] => pose proof (tidx_put_seq b c f d e a) as PS; destruct (put_seq a b c d e f) as [s1 ok] end.
    cbn [fst] in PS. destruct ok.
    + match goal with |- context [list_set_meta ?a ?b ?c ?d ?e] => destruct (list_set_meta a b c d e) as [s2|] eqn:LS end; cbn [fst]; auto.
      rewrite (tidx_list_set_meta _ _ _ _ _ _ LS), PS. auto.
    + cbn [fst]. rewrite tidx_apply_fix, PS. auto.
  - (* lpop *) unfold do_lpop. destruct (coll_header Local s ts TL k) as [[h ud] ex].
    destruct (not_exist_or_expired ud ex); cbn [fst]; auto. destruct (list_meta_of ud) as [[hd0 tl0] size].
    destruct (size =? 0); cbn [fst]; auto.
    destruct (el_get s TL k (h_ver h) (SI (if head then hd0 else tl0))); cbn [fst]; [|rewrite tidx_apply_fix; auto].
    match goal with |- context [list_set_meta ?a ?b ?c ?d ?e] => destruct (list_set_meta a b c d e) as [s2|] eqn:LS end; cbn [fst]; auto.
    rewrite (tidx_list_set_meta _ _ _ _ _ _ LS). auto.
  - (* set with options *) unfold do_setopt. destruct (kv_prepare Local s ts k) as [[h ov] ex].
    destruct (kv_cur ov ex); [destruct nx | destruct xx]; cbn [fst]; auto;
      destruct (kv_reset Local s ts k v ttl) eqn:R; cbn [fst]; auto;
      intros H; destruct (tidx_kv_reset _ _ _ _ _ _ _ R H) as [|X]; auto.
  - (* setifeq *) unfold do_setifeq. destruct (kv_prepare Local s ts k) as [[h ov] ex].
    destruct (eq_cur (kv_cur ov ex) old); cbn [fst]; auto.
    destruct (kv_reset Local s ts k v ttl) eqn:R; cbn [fst]; auto.
    intros H; destruct (tidx_kv_reset _ _ _ _ _ _ _ R H) as [|X]; auto.
  - (* delifeq *) unfold do_delifeq. destruct (kv_raw Local s ts k) as [[h ov] ex].
    destruct (negb (eq_cur ov old) && negb ex); cbn [fst]; auto.
  - (* ltrim *) unfold do_ltrim. destruct (coll_header Local s ts TL k) as [[h ud] ex].
    destruct (not_exist_or_expired ud ex); cbn [fst]; auto. destruct (list_meta_of ud) as [[hd tl] llen]. cbv zeta.
    match goal with |- context [if ?c then _ else _] => destruct c end.
    + cbn [fst]. destruct (llen =? 0); auto.
    + match goal with |- context [list_set_meta ?x ?y ?z ?u ?w] => destruct (list_set_meta x y z u w) as [s2|] eqn:LS end; cbn [fst]; auto.
      rewrite (tidx_list_set_meta _ _ _ _ _ _ LS), !tidx_fold; auto.
  - (* lset *) unfold do_lset. destruct (coll_header Local s ts TL k) as [[h ud] ex].
    destruct (not_exist_or_expired ud ex); cbn [fst]; auto. destruct (list_meta_of ud) as [[hd tl] size]. cbv zeta.
    destruct (size =? 0); cbn [fst]; auto.
    match goal with |- context [if ?c then _ else _] => destruct c end; cbn [fst]; auto.
    destruct (list_set_meta s k h hd tl) as [s1|] eqn:LS; cbn [fst]; auto.
    unfold el_put. cbn [tidx]. rewrite (tidx_list_set_meta _ _ _ _ _ _ LS). auto.
  - (* zremrangebyrank *) unfold do_zremrangebyrank. destruct (coll_header Local s ts TZ k) as [[h ud] ex].
    destruct ex; cbn [fst]; auto. cbv zeta. destruct (size_of ud =? 0); cbn [fst]; auto.
    match goal with |- context [if ?c then _ else _] => destruct c end.
    { destruct (not_exist_or_expired ud false); cbn [fst]; auto. }
    match goal with |- context [if ?c then _ else _] => destruct c end; cbn [fst]; auto.
    match goal with |- context [if ?c then _ else _] => destruct c end; [cbn [fst]; rewrite tidx_incr_size; auto | rewrite tidx_zrem_entries; auto].
Qed.

Lemma tidx_local_del_key s e e' : In e' (tidx (local_del_key s e)) -> In e' (tidx s).
Proof.
  destruct e as [[[w t] k] []]. unfold local_del_key. cbn [fst tidx]. intros H. apply In_adel in H.
  destruct t; auto; destruct (meta_get s _ k); auto.
Qed.
Lemma tidx_local_tick s scan e : In e (tidx (local_tick s scan)) -> In e (tidx s).
Proof.
  unfold local_tick. generalize (filter (due scan) (tidx s)). intros l. revert s.
  induction l as [|a l IH]; intros s H; simpl in *; auto. apply IH in H. eapply tidx_local_del_key; eauto.
Qed.

(* local-deletion traces: writes and ticks of the background deleter *)
Inductive lop := LW (ts : Z) (c : cmd) | LT (scan : Z).
Fixpoint lfinal (s : store) (ops : list lop) : store :=
  match ops with
  | [] => s
  | LW ts c :: r => lfinal (fst (step Local s ts c)) r
  | LT scan :: r => lfinal (local_tick s scan) r
  end.
(* every entry of the time index was asked for by an earlier SETEX / *EXPIRE, with when = floor(ts/1e9) + duration *)
Theorem local_index_requested ops : forall s e, In e (tidx (lfinal s ops)) ->
  In e (tidx s) \/ exists ts c, In (LW ts c) ops /\ requested ts c e.
Proof.
  induction ops as [|o ops IH]; intros s e H; simpl in *; auto. destruct o as [ts c | scan].
  - destruct (IH _ _ H) as [H1 | (ts' & c' & I & Rq)].
    + destruct (local_index_provenance s ts c e H1) as [|Rq]; auto. right. exists ts, c. auto.
    + right. exists ts', c'. auto.
  - destruct (IH _ _ H) as [H1 | (ts' & c' & I & Rq)].
    + left. eapply tidx_local_tick; eauto.
    + right. exists ts', c'. auto.
Qed.
