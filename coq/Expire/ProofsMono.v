(* Expire/ProofsMono.v — generation numbers are timestamps of earlier writes; background invisibility for traces with
   strictly increasing write timestamps (the freshness hypothesis of [wf] discharged). *)
From ZV Require Import Common.Bytes Common.BytesFacts Expire.Consts Expire.Model Expire.Proofs.
From ZV Require Import Expire.ProofsRel Expire.ProofsCmd Expire.ProofsTrace Expire.ProofsMore Expire.ProofsClass.
From Coq Require Import ZifyBool Lia.
Open Scope Z_scope.

Arguments ttl_of : simpl never.
Arguments is_expired : simpl never.
Arguments sec : simpl never.

(* ---------- generation numbers are timestamps of earlier writes ---------- *)
Definition vers_in (S : Z -> Prop) (s : store) : Prop :=
  (forall t k m, meta_get s t k = Some m -> S (h_ver (m_hdr m))) /\
  (forall t k v sb x, el_get s t k v sb = Some x -> S v).

Lemma vers_weaken (S S' : Z -> Prop) s : (forall v, S v -> S' v) -> vers_in S s -> vers_in S' s.
Proof. intros H [A B]. split; intros; eauto. Qed.
Lemma vers_kv_put (S : Z -> Prop) s k h v : vers_in S s -> vers_in S (kv_put s k h v). Proof. auto. Qed.
Lemma vers_kv_del (S : Z -> Prop) s k : vers_in S s -> vers_in S (kv_del s k). Proof. auto. Qed.
Lemma vers_meta_put (S : Z -> Prop) s t k m : S (h_ver (m_hdr m)) -> vers_in S s -> vers_in S (meta_put s t k m).
Proof.
  intros Hm [A B]. split; [|exact B]. intros t' k' m'. rewrite meta_get_put.
  destruct (mkey_eqb _ _); [intros X; inversion X; subst; auto | apply A].
Qed.
Lemma vers_meta_del (S : Z -> Prop) s t k : vers_in S s -> vers_in S (meta_del s t k).
Proof.
  intros [A B]. split; [|exact B]. intros t' k' m'. rewrite meta_get_del. destruct (mkey_eqb _ _); [discriminate | apply A].
Qed.
Lemma vers_el_put (S : Z -> Prop) s t k v sb x : S v -> vers_in S s -> vers_in S (el_put s t k v sb x).
Proof.
  intros Hv [A B]. split; [exact A|]. intros t' k' v' sb' x'. rewrite el_get_put.
  destruct (ekey_eqb _ _) eqn:E; [|apply B]. apply ekey_eqb_eq in E. inversion E; subst. auto.
Qed.
Lemma vers_el_del (S : Z -> Prop) s t k v sb : vers_in S s -> vers_in S (el_del s t k v sb).
Proof.
  intros [A B]. split; [exact A|]. intros t' k' v' sb' x'. rewrite el_get_del. destruct (ekey_eqb _ _); [discriminate | apply B].
Qed.
Lemma vers_fold_put {A} (S : Z -> Prop) t k v (f : A -> skey) (fx : A -> eval) l : S v -> forall s, vers_in S s ->
  vers_in S (fold_left (fun st a => el_put st t k v (f a) (fx a)) l s).
Proof. intros Hv. induction l as [|a l IH]; intros s H; simpl; auto. apply IH. now apply vers_el_put. Qed.
Lemma vers_fold_del {A} (S : Z -> Prop) t k v (f : A -> skey) l : forall s, vers_in S s ->
  vers_in S (fold_left (fun st a => el_del st t k v (f a)) l s).
Proof. induction l as [|a l IH]; intros s H; simpl; auto. apply IH. now apply vers_el_del. Qed.
Lemma vers_incr_size (S : Z -> Prop) s t k h ud d : (0 < size_of ud + d -> S (h_ver h)) -> vers_in S s -> vers_in S (incr_size s t k h ud d).
Proof.
  intros Hh H. unfold incr_size. destruct (size_of ud + d <=? 0) eqn:E.
  - now apply vers_meta_del.
  - apply vers_meta_put; auto. cbn. apply Hh. lia.
Qed.
Lemma vers_put_seq (S : Z -> Prop) k ver vs : S ver -> forall seq delta s, vers_in S s -> vers_in S (fst (put_seq s k ver seq delta vs)).
Proof.
  intros Hv. induction vs as [|v vs IH]; intros seq delta s V; simpl; auto.
  destruct (el_get s TL k ver (SI seq)); auto. apply IH. now apply vers_el_put.
Qed.
Lemma vers_list_set_meta (S : Z -> Prop) s k h hd tl s' : S (h_ver h) -> list_set_meta s k h hd tl = Some s' -> vers_in S s -> vers_in S s'.
Proof.
  intros Hh. unfold list_set_meta. destruct (tl - hd + 1 <? 0); [discriminate|].
  destruct (tl - hd + 1 =? 0); intros X V; inversion X; subst; [now apply vers_meta_del | now apply vers_meta_put].
Qed.

Lemma vers_kv_reset (S : Z -> Prop) p s ts k v ttl s' : kv_reset p s ts k v ttl = Some s' -> vers_in S s -> vers_in S s'.
Proof.
  unfold kv_reset. destruct p; destruct (ttl <=? 0); try (intros X; inversion X; subst; auto; fail);
    destruct (expire_when ts ttl) as [w|]; try discriminate.
  - destruct (set_expire fresh_hdr w); intros X; inversion X; subst; auto.
  - intros X; inversion X; subst; auto.
Qed.

Lemma vers_zset_item (S : Z -> Prop) s k v st x : S v -> vers_in S st -> vers_in S (zset_item s k v st x).
Proof.
  intros Hv V. unfold zset_item. destruct x. destruct (el_get s TZ k v (SB b)); [destruct (score_of e =? z); auto|];
    repeat (apply vers_el_put; auto). now apply vers_el_del.
Qed.
Lemma vers_zdel_item (S : Z -> Prop) s k v st x : vers_in S st -> vers_in S (zdel_item s k v st x).
Proof. intros V. unfold zdel_item. destruct (el_get s TZ k v (SB x)); auto. apply vers_el_del. now apply vers_el_del. Qed.
Lemma vers_fold_zdel {A} (S : Z -> Prop) s k v (f : A -> bytes) l : forall st, vers_in S st ->
  vers_in S (fold_left (fun st0 a => zdel_item s k v st0 (f a)) l st).
Proof. induction l as [|x l IH]; intros st V; simpl; auto. apply IH. now apply vers_zdel_item. Qed.
Lemma vers_fold_zset (S : Z -> Prop) s k v l : S v -> forall st, vers_in S st -> vers_in S (fold_left (zset_item s k v) l st).
Proof. intros Hv. induction l as [|x l IH]; intros st V; simpl; auto. apply IH. now apply vers_zset_item. Qed.
Lemma vers_zrem_entries (S : Z -> Prop) s k h ud ents : S (h_ver h) -> vers_in S s -> vers_in S (fst (zrem_entries s k h ud ents)).
Proof.
  intros Hh V. unfold zrem_entries. cbn [fst]. apply vers_incr_size; auto.
  now apply (vers_fold_zdel S s k (h_ver h) (fun x : Z * bytes => snd x)).
Qed.

Lemma vers_el_del_gen (S : Z -> Prop) s t k v : vers_in S s -> vers_in S (el_del_gen s t k v).
Proof.
  intros [A B]. split; [exact A|]. intros t' k' v' sb' x. rewrite el_get_del_gen. destruct (gen_eqb _ _); [discriminate | apply B].
Qed.
Lemma vers_ldelete (S : Z -> Prop) s ts k h ud : vers_in S s -> vers_in S (ldelete Compact s ts k h ud).
Proof.
  intros V. unfold ldelete. destruct (h_ver h <? ts); [now apply vers_meta_del|].
  destruct (list_meta_of ud) as [[hd tl] n]. apply (vers_fold_del S TL k (h_ver h) (fun i : Z => SI i)). now apply vers_meta_del.
Qed.
Lemma vers_zrem_all (S : Z -> Prop) s ts k h ud : S (h_ver h) -> vers_in S s -> vers_in S (fst (zrem_all Compact s ts k h ud)).
Proof.
  intros Hh V. unfold zrem_all. destruct (h_ver h <? ts); [cbn [fst]; now apply vers_meta_del|].
  pose proof (vers_zrem_entries S s k h ud (zidx s k (h_ver h)) Hh V) as X.
  destruct (zrem_entries s k h ud (zidx s k (h_ver h))) as [s1 r]. cbn [fst] in X. destruct r; exact X.
Qed.

Section Step.
  Variables (S : Z -> Prop) (ts : Z).
  Let S' := fun v => S v \/ v = ts.

  Lemma prep_ver s t k h ud ex : vers_in S s -> coll_prepare Compact s ts t k = (h, ud, ex) -> S' (h_ver h).
  Proof.
    intros [A _]. unfold coll_prepare, coll_header. destruct (meta_get s t k) as [m|] eqn:M.
    - destruct (is_expired Compact (m_hdr m) ts); simpl; intros X; inversion X; subst; simpl; [right; auto | left; eauto].
    - simpl. intros X; inversion X; subst. right. reflexivity.
  Qed.
  Lemma hdr_ver s t k h a b ex : vers_in S s -> coll_header Compact s ts t k = (h, Some (a, b), ex) -> S' (h_ver h).
  Proof.
    intros [A _]. unfold coll_header. destruct (meta_get s t k) as [m|] eqn:M; intros X; inversion X; subst. left. eauto.
  Qed.

  Lemma vers_coll_rem s t k ms : vers_in S' s -> vers_in S s -> vers_in S' (fst (coll_rem Compact s ts t k ms)).
  Proof.
    intros V' V. unfold coll_rem. destruct ms as [|m ms]; auto.
    destruct (coll_header Compact s ts t k) as [[h ud] ex] eqn:E. destruct ex; auto. cbn [fst].
    apply vers_incr_size; [|now apply vers_fold_del].
    destruct ud as [[a b]|]; [intros _; eapply hdr_ver; eauto | simpl; lia].
  Qed.
  Lemma vers_do_hset s k f v nx : vers_in S' s -> vers_in S s -> vers_in S' (fst (do_hset Compact s ts k f v nx)).
  Proof.
    intros V' V. unfold do_hset. destruct (coll_prepare Compact s ts TH k) as [[h ud] ex] eqn:E.
    pose proof (prep_ver _ _ _ _ _ _ V E) as Hh.
    destruct (el_get s TH k (h_ver h) (SB f)); [destruct nx|]; cbn [fst]; auto.
    - now apply vers_el_put.
    - apply vers_el_put; auto. apply vers_incr_size; auto.
  Qed.

  Lemma vers_apply_fix s0 s k : vers_in S s -> vers_in S' s0 -> vers_in S' (apply_fix s0 k (scanfix Compact s ts k)).
  Proof.
    intros V V0. unfold scanfix. destruct (coll_header Compact s ts TL k) as [[h ud] ex] eqn:E.
    destruct (not_exist_or_expired ud ex) eqn:N; [exact V0|].
    destruct ud as [[a b]|]; [|destruct ex; discriminate].
    pose proof (hdr_ver _ _ _ _ _ _ _ V E) as Hh.
    destruct (list_meta_of (Some (a, b))) as [[hd tl] llen]. cbv zeta.
    destruct (negb (contig (list_seqs s k (h_ver h)))); [exact V0|].
    destruct (list_seqs s k (h_ver h)) as [|f r].
    - destruct ((hd =? 0) && (tl =? 0)); [exact V0|]. destruct (llen =? 0); [exact V0 | now apply vers_meta_del].
    - match goal with |- context [if ?c then _ else _] => destruct c end; [exact V0 | now apply vers_meta_put].
  Qed.

  Theorem vers_step s c : vers_in S s -> vers_in S' (fst (step Compact s ts c)).
  Proof.
    intros V. assert (V' : vers_in S' s) by (apply (vers_weaken S); auto; intros v Hv; left; auto).
    destruct c; cbn [step].
    - (* set *) unfold do_set. destruct (kv_reset Compact s ts k v 0) eqn:R; cbn [fst]; auto.
      unfold kv_reset in R. cbn in R. inversion R; subst. auto.
    - (* setex *) unfold do_setex. destruct (dur <=? 0); cbn [fst]; auto.
      destruct (kv_reset Compact s ts k v dur) eqn:R; cbn [fst]; auto. eapply vers_kv_reset; eauto.
    - (* setnx *) unfold do_setnx. destruct (kv_prepare Compact s ts k) as [[h ov] ex]. destruct (kv_cur ov ex); cbn; auto.
    - (* getset *) unfold do_getset. destruct (kv_raw Compact s ts k) as [[h ov] ex]. cbn. auto.
    - (* mset *) destruct kvl as [|p kvl]; cbn [fst]; auto. generalize (p :: kvl). intros l. revert s V V'.
      induction l as [|[a b] l IH]; intros s V V'; simpl; auto.
    - (* incrby *) unfold do_incrby. destruct (kv_prepare Compact s ts k) as [[h ov] ex].
      destruct (match kv_cur ov ex with Some b => parse_int b | None => Some 0 end); cbn [fst]; auto.
      destruct (in_int64 (z + d)); cbn [fst]; auto.
    - (* append *) unfold do_append. destruct (kv_prepare Compact s ts k) as [[h ov] ex].
      destruct v, (kv_cur ov ex); cbn [fst]; auto;
        match goal with |- context [if ?c then _ else _] => destruct c end; cbn [fst]; auto.
    - (* setrange *) unfold do_setrange. destruct v.
      + destruct (kv_raw Compact s ts k) as [[h ov] ex]. cbn [fst]; auto.
      + match goal with |- context [if ?c then _ else _] => destruct c end; cbn [fst]; auto.
        destruct (kv_prepare Compact s ts k) as [[h ov] ex]. cbn [fst]; auto.
    - (* del *) unfold do_del. cbn [fst]. revert s V V'. induction (dedup ks) as [|a l IH]; intros s V V'; simpl; auto.
    - (* expire *) unfold do_expire. destruct (expire_when ts dur) as [w|]; destruct t.
      + unfold kv_set_expire. destruct (kv_raw Compact s ts k) as [[h ov] ex]. destruct ov; cbn [fst]; auto.
        destruct ex; cbn [fst]; auto. destruct (set_expire h w); cbn [fst]; auto.
      + unfold coll_set_expire. destruct (coll_header Compact s ts TH k) as [[h ud] ex] eqn:E. destruct ud as [[a b]|]; cbn [fst]; auto.
        destruct ex; cbn [fst]; auto. unfold set_expire. destruct (w >=? max_u32 - 1); cbn [fst]; auto.
        apply vers_meta_put; auto. cbn. eapply hdr_ver; eauto.
      + unfold coll_set_expire. destruct (coll_header Compact s ts TS k) as [[h ud] ex] eqn:E. destruct ud as [[a b]|]; cbn [fst]; auto.
        destruct ex; cbn [fst]; auto. unfold set_expire. destruct (w >=? max_u32 - 1); cbn [fst]; auto.
        apply vers_meta_put; auto. cbn. eapply hdr_ver; eauto.
      + unfold coll_set_expire. destruct (coll_header Compact s ts TZ k) as [[h ud] ex] eqn:E. destruct ud as [[a b]|]; cbn [fst]; auto.
        destruct ex; cbn [fst]; auto. unfold set_expire. destruct (w >=? max_u32 - 1); cbn [fst]; auto.
        apply vers_meta_put; auto. cbn. eapply hdr_ver; eauto.
      + unfold coll_set_expire. destruct (coll_header Compact s ts TL k) as [[h ud] ex] eqn:E. destruct ud as [[a b]|]; cbn [fst]; auto.
        destruct ex; cbn [fst]; auto. unfold set_expire. destruct (w >=? max_u32 - 1); cbn [fst]; auto.
        apply vers_meta_put; auto. cbn. eapply hdr_ver; eauto.
      + unfold kv_set_expire. destruct (kv_raw Compact s ts k) as [[h ov] ex]. destruct ov; cbn [fst]; auto. destruct ex; cbn [fst]; auto.
      + unfold coll_set_expire. destruct (coll_header Compact s ts TH k) as [[h ud] ex] eqn:E. destruct ud as [[a b]|]; cbn [fst]; auto. destruct ex; cbn [fst]; auto.
      + unfold coll_set_expire. destruct (coll_header Compact s ts TS k) as [[h ud] ex] eqn:E. destruct ud as [[a b]|]; cbn [fst]; auto. destruct ex; cbn [fst]; auto.
      + unfold coll_set_expire. destruct (coll_header Compact s ts TZ k) as [[h ud] ex] eqn:E. destruct ud as [[a b]|]; cbn [fst]; auto. destruct ex; cbn [fst]; auto.
      + unfold coll_set_expire. destruct (coll_header Compact s ts TL k) as [[h ud] ex] eqn:E. destruct ud as [[a b]|]; cbn [fst]; auto. destruct ex; cbn [fst]; auto.
    - (* persist *) unfold do_persist. destruct t.
      + unfold kv_set_expire. destruct (kv_raw Compact s ts k) as [[h ov] ex]. destruct ov; cbn [fst]; auto.
        destruct ex; cbn [fst]; auto; destruct (set_expire h 0); cbn [fst]; auto.
      + unfold coll_set_expire. destruct (coll_header Compact s ts TH k) as [[h ud] ex] eqn:E. destruct ud as [[a b]|]; cbn [fst]; auto.
        destruct ex; cbn [fst]; auto; unfold set_expire; destruct (0 >=? max_u32 - 1); cbn [fst]; auto;
          apply vers_meta_put; auto; cbn; eapply hdr_ver; eauto.
      + unfold coll_set_expire. destruct (coll_header Compact s ts TS k) as [[h ud] ex] eqn:E. destruct ud as [[a b]|]; cbn [fst]; auto.
        destruct ex; cbn [fst]; auto; unfold set_expire; destruct (0 >=? max_u32 - 1); cbn [fst]; auto;
          apply vers_meta_put; auto; cbn; eapply hdr_ver; eauto.
      + unfold coll_set_expire. destruct (coll_header Compact s ts TZ k) as [[h ud] ex] eqn:E. destruct ud as [[a b]|]; cbn [fst]; auto.
        destruct ex; cbn [fst]; auto; unfold set_expire; destruct (0 >=? max_u32 - 1); cbn [fst]; auto;
          apply vers_meta_put; auto; cbn; eapply hdr_ver; eauto.
      + unfold coll_set_expire. destruct (coll_header Compact s ts TL k) as [[h ud] ex] eqn:E. destruct ud as [[a b]|]; cbn [fst]; auto.
        destruct ex; cbn [fst]; auto; unfold set_expire; destruct (0 >=? max_u32 - 1); cbn [fst]; auto;
          apply vers_meta_put; auto; cbn; eapply hdr_ver; eauto.
    - (* clear *) destruct t; [cbn [fst]; auto|..]; unfold coll_clear;
        match goal with |- context [coll_header ?p ?s ?ts ?t ?k] => destruct (coll_header p s ts t k) as [[h ud] ex] eqn:E end;
        (destruct (not_exist_or_expired ud ex) eqn:N; [cbn [fst]; auto|]);
        (match goal with |- context [if ?c =? 0 then _ else _] => destruct (c =? 0) eqn:Z0 end; [cbn [fst]; auto|]);
        (destruct (h_ver h <? ts); [cbn [fst]; now apply vers_meta_del|]).
      + cbn [fst]. apply vers_el_del_gen. now apply vers_meta_del.
      + cbn [fst]. apply vers_el_del_gen. now apply vers_meta_del.
      + assert (Hh : S' (h_ver h)) by (destruct ud as [[a b]|]; [eapply hdr_ver; eauto | destruct ex; discriminate]).
        pose proof (vers_zrem_all S' s ts k h ud Hh V') as X.
        destruct (zrem_all Compact s ts k h ud) as [s1 n]. cbn [fst] in *. exact X.
      + cbn [fst]. now apply vers_ldelete.
    - (* hset *) now apply vers_do_hset.
    - (* hmset *) unfold do_hmset. destruct fvl; cbn [fst]; auto. destruct (coll_prepare Compact s ts TH k) as [[h ud] ex] eqn:E. cbn [fst].
      pose proof (prep_ver _ _ _ _ _ _ V E) as Hh. apply vers_incr_size; auto. now apply vers_fold_put.
    - (* hdel *) now apply vers_coll_rem.
    - (* hincrby *) unfold do_hincrby.
      match goal with |- context [match ?x with Some n => _ | None => (s, RErr) end] => destruct x end; cbn [fst]; auto.
      destruct (in_int64 (z + d)); cbn [fst]; auto. now apply vers_do_hset.
    - (* sadd *) unfold do_sadd. destruct (coll_prepare Compact s ts TS k) as [[h ud] ex] eqn:E. cbn [fst].
      pose proof (prep_ver _ _ _ _ _ _ V E) as Hh. apply vers_incr_size; auto.
      now apply (vers_fold_put S' TS k (h_ver h) (fun m0 : bytes => SB m0) (fun _ => EB [])).
    - (* srem *) now apply vers_coll_rem.
    - (* spop *) unfold do_spop. destruct (n >? max_batch_num); cbn [fst]; auto. destruct (n <=? 0); cbn [fst]; auto.
      destruct (coll_header Compact s ts TS k) as [[h ud] ex]. destruct (not_exist_or_expired ud ex); cbn [fst]; auto.
      destruct (size_of ud =? 0); cbn [fst]; auto. now apply vers_coll_rem.
    - (* zadd *) unfold do_zadd. destruct sml; cbn [fst]; auto. destruct (coll_prepare Compact s ts TZ k) as [[h ud] ex] eqn:E. cbn [fst].
      pose proof (prep_ver _ _ _ _ _ _ V E) as Hh. apply vers_incr_size; auto.
      now apply vers_fold_zset.
    - (* zincrby *) unfold do_zincrby. destruct (coll_prepare Compact s ts TZ k) as [[h ud] ex] eqn:E.
      pose proof (prep_ver _ _ _ _ _ _ V E) as Hh.
      destruct (el_get s TZ k (h_ver h) (SB m)); cbn [fst]; repeat (apply vers_el_put; auto).
      + now apply vers_el_del.
      + apply vers_incr_size; auto.
    - (* zrem *) unfold do_zrem. destruct ms as [|m0 ms]; cbn [fst]; auto.
      destruct (coll_header Compact s ts TZ k) as [[h ud] ex] eqn:E. destruct ex; cbn [fst]; auto.
      apply vers_incr_size.
      + destruct ud as [[a b]|]; [intros _; eapply hdr_ver; eauto | simpl; lia].
      + now apply (vers_fold_zdel S' s k (h_ver h) (fun x : bytes => x)).
    - (* zremrangebyscore *) unfold do_zremrangebyscore. destruct (coll_header Compact s ts TZ k) as [[h ud] ex] eqn:E.
      destruct ex; cbn [fst]; auto. destruct (size_of ud =? 0) eqn:Z0; cbn [fst]; auto.
      apply vers_zrem_entries; auto.
      destruct ud as [[a b]|]; [eapply hdr_ver; eauto | simpl in Z0; discriminate].
    - (* lpush *) unfold do_lpush. destruct (Z.of_nat (length vs) >? max_batch_num); cbn [fst]; auto.
      destruct (coll_prepare Compact s ts TL k) as [[h ud] ex] eqn:E. pose proof (prep_ver _ _ _ _ _ _ V E) as Hh.
      destruct (list_meta_of ud) as [[hd0 tl0] size]. destruct vs; cbn [fst]; auto.
      match goal with |- context [if ?c then _ else _] => destruct c end; cbn [fst]; auto.
      match goal with |- context [put_seq ?a ?b ?c ?d ?e ?f] => pose proof (vers_put_seq S' b c f Hh d e a V') as PS; destruct (put_seq a b c d e f) as [s1 ok] end.
      cbn [fst] in PS. destruct ok.
      + match goal with |- context [list_set_meta ?a ?b ?c ?d ?e] => destruct (list_set_meta a b c d e) as [s2|] eqn:LS end; cbn [fst]; auto.
        eapply vers_list_set_meta; eauto.
      + cbn [fst]. now apply vers_apply_fix.
    - (* lpop *) unfold do_lpop. destruct (coll_header Compact s ts TL k) as [[h ud] ex] eqn:E.
      destruct (not_exist_or_expired ud ex) eqn:N; cbn [fst]; auto. destruct (list_meta_of ud) as [[hd0 tl0] size].
      destruct (size =? 0); cbn [fst]; auto.
      destruct (el_get s TL k (h_ver h) (SI (if head then hd0 else tl0))); cbn [fst]; [|now apply vers_apply_fix].
      match goal with |- context [list_set_meta ?a ?b ?c ?d ?e] => destruct (list_set_meta a b c d e) as [s2|] eqn:LS end; cbn [fst]; auto.
      eapply vers_list_set_meta; eauto; [|now apply vers_el_del].
      destruct ud as [[a b]|]; [eapply hdr_ver; eauto | destruct ex; discriminate].
    - (* set with options *) unfold do_setopt. destruct (kv_prepare Compact s ts k) as [[h ov] ex].
      destruct (kv_cur ov ex); [destruct nx | destruct xx]; cbn [fst]; auto;
        destruct (kv_reset Compact s ts k v ttl) eqn:R; cbn [fst]; auto; eapply vers_kv_reset; eauto.
    - (* setifeq *) unfold do_setifeq. destruct (kv_prepare Compact s ts k) as [[h ov] ex].
      destruct (eq_cur (kv_cur ov ex) old); cbn [fst]; auto.
      destruct (kv_reset Compact s ts k v ttl) eqn:R; cbn [fst]; auto. eapply vers_kv_reset; eauto.
    - (* delifeq *) unfold do_delifeq. destruct (kv_raw Compact s ts k) as [[h ov] ex].
      destruct (negb (eq_cur ov old) && negb ex); cbn [fst]; auto.
    - (* ltrim *) unfold do_ltrim. destruct (coll_header Compact s ts TL k) as [[h ud] ex] eqn:E.
      destruct (not_exist_or_expired ud ex) eqn:N; cbn [fst]; auto. destruct (list_meta_of ud) as [[hd tl] llen]. cbv zeta.
      match goal with |- context [if ?c then _ else _] => destruct c end.
      + cbn [fst]. destruct (llen =? 0); auto. now apply vers_ldelete.
      + match goal with |- context [list_set_meta ?x ?y ?z ?u ?w] => destruct (list_set_meta x y z u w) as [s2|] eqn:LS end; cbn [fst]; auto.
        eapply vers_list_set_meta; eauto.
        * destruct ud as [[a0 b0]|]; [eapply hdr_ver; eauto | destruct ex; discriminate].
        * apply (vers_fold_del S' TL k (h_ver h) (fun i : Z => SI i)). now apply (vers_fold_del S' TL k (h_ver h) (fun i : Z => SI i)).
    - (* lset *) unfold do_lset. destruct (coll_header Compact s ts TL k) as [[h ud] ex] eqn:E.
      destruct (not_exist_or_expired ud ex) eqn:N; cbn [fst]; auto. destruct (list_meta_of ud) as [[hd tl] size]. cbv zeta.
      destruct (size =? 0); cbn [fst]; auto.
      match goal with |- context [if ?c then _ else _] => destruct c end; cbn [fst]; auto.
      destruct (list_set_meta s k h hd tl) as [s1|] eqn:LS; cbn [fst]; auto.
      assert (Hh : S' (h_ver h)) by (destruct ud as [[a0 b0]|]; [eapply hdr_ver; eauto | destruct ex; discriminate]).
      apply vers_el_put; auto. eapply vers_list_set_meta; eauto.
    - (* zremrangebyrank *) unfold do_zremrangebyrank. destruct (coll_header Compact s ts TZ k) as [[h ud] ex] eqn:E.
      destruct ex; cbn [fst]; auto. cbv zeta. destruct (size_of ud =? 0) eqn:Z0; cbn [fst]; auto.
      assert (Hh : S' (h_ver h)) by (destruct ud as [[a0 b0]|]; [eapply hdr_ver; eauto | simpl in Z0; discriminate]).
      match goal with |- context [if ?c then _ else _] => destruct c end.
      { destruct (not_exist_or_expired ud false); [cbn [fst]; auto|].
        pose proof (vers_zrem_all S' s ts k h ud Hh V') as X.
        destruct (zrem_all Compact s ts k h ud) as [s1 n]. cbn [fst] in *. exact X. }
      match goal with |- context [if ?c then _ else _] => destruct c end; cbn [fst]; auto.
      match goal with |- context [if ?c then _ else _] => destruct c end; [cbn [fst]; apply vers_incr_size; auto | now apply vers_zrem_entries].
  Qed.
End Step.

(* ---------- background invisibility for traces with strictly increasing write timestamps ---------- *)
Lemma vers_step_le s ts c B : vers_in (fun v => v <= B) s -> B <= ts -> vers_in (fun v => v <= ts) (fst (step Compact s ts c)).
Proof.
  intros V H. apply (vers_weaken (fun v => v <= B \/ v = ts)); [intros v [X | ->]; lia|]. now apply vers_step.
Qed.
Lemma vers_drop (S : Z -> Prop) s it : vers_in S s -> vers_in S (drop_item s it).
Proof. destruct it; simpl; [apply vers_kv_del | apply vers_meta_del | apply vers_el_del]. Qed.
Lemma vers_compact (S : Z -> Prop) s csec chosen : vers_in S s -> vers_in S (compact s csec chosen).
Proof.
  unfold compact. generalize (filter (removable s csec) chosen). intros l. revert s.
  induction l as [|it l IH]; intros s V; simpl; auto. apply IH. now apply vers_drop.
Qed.

Fixpoint mono (last : Z) (ops : list op) : Prop :=
  match ops with
  | [] => True
  | OW ts c :: r => last < ts /\ mono ts r
  | OR now _ _ :: r => now <> 0 /\ mono last r
  | OC csec chosen :: r => Forall (late (csec - lazy_clean_secs - 1)) (strip r) /\ mono last r
  end.

Lemma mono_strip ops : forall last, mono last ops ->
  Forall (fun o => match o with OW ts _ => last < ts | OR now _ _ => now <> 0 | OC _ _ => False end) (strip ops).
Proof.
  induction ops as [|o ops IH]; intros last M; simpl; auto. destruct o; simpl in *.
  - destruct M as [A B]. constructor; auto. specialize (IH _ B). eapply Forall_impl; [|exact IH].
    intros o; destruct o; auto. lia.
  - destruct M as [A B]. constructor; auto.
  - destruct M as [_ B]. auto.
Qed.

Theorem bg_invisible_mono ops : forall s last, Inv s -> 0 <= last -> vers_in (fun v => v <= last) s -> mono last ops ->
  run s ops = run s (strip ops).
Proof.
  induction ops as [|o ops IH]; intros s last I L V M; auto. destruct o as [ts c | now t k | csec chosen]; simpl in *.
  - destruct M as [A B]. f_equal. apply (IH _ ts); auto; [apply Inv_step; auto; lia | lia | apply (vers_step_le s ts c last); auto; lia].
  - destruct M as [A B]. f_equal. now apply (IH _ last).
  - destruct M as [La B]. rewrite (IH _ last); auto; [|now apply Inv_compact | now apply vers_compact].
    symmetry. unfold compact. apply (run_drops (csec - lazy_clean_secs - 1)); auto.
    + apply Forall_forall. intros it Hit. apply filter_In in Hit as [_ Hr]. now apply removable_garbage.
    + apply Forall_forall. intros it Hit. apply filter_In in Hit as [_ Hr].
      pose proof (mono_strip ops last B) as Bs. rewrite Forall_forall in *. intros o Ho.
      specialize (La o Ho). specialize (Bs o Ho).
      destruct it as [k | t k | t k v sb]; destruct o as [ts c | now t' k' | ? ?]; simpl in *; try tauto;
        try (repeat split; auto; lia).
      repeat split; auto; try lia.
      (* the dropped element exists, so its generation is an earlier timestamp *)
      destruct (el_get s t k v sb) as [x|] eqn:E; [|discriminate]. destruct V as [_ V2]. specialize (V2 _ _ _ _ _ E). simpl in V2. lia.
Qed.

Corollary bg_invisible_from_empty ops : mono 0 ops -> run empty_store ops = run empty_store (strip ops).
Proof.
  intros M. apply (bg_invisible_mono ops empty_store 0); auto; [apply Inv_empty | lia |].
  split; intros; discriminate.
Qed.
