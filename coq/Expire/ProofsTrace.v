(* Expire/ProofsTrace.v — generation invariant, what a compaction may drop, traces with interleaved background steps. *)
From ZV Require Import Common.Bytes Common.BytesFacts Expire.Consts Expire.Model Expire.Proofs.
From ZV Require Import Expire.ProofsRel Expire.ProofsCmd.
From Coq Require Import ZifyBool Lia.
Open Scope Z_scope.

Arguments ttl_of : simpl never.
Arguments is_expired : simpl never.
Arguments sec : simpl never.

(* ---------- the generation invariant: nothing lives in generation 0 (holds as long as every write has ts <> 0) ---------- *)
Definition Inv (s : store) : Prop :=
  (forall t k m, meta_get s t k = Some m -> h_ver (m_hdr m) <> 0) /\ (forall t k sb, el_get s t k 0 sb = None).

Lemma Inv_empty : Inv empty_store.
Proof. split; intros; [discriminate | reflexivity]. Qed.

Lemma Inv_R T t k s : Inv s -> R T t k 0 s s.
Proof.
  intros [I1 I2]. constructor; auto.
  - intros k'. left. apply kv_same_refl.
  - intros m Hm. split; [intros _|]; eapply I1; eauto.
  - intros m Hm. split; [intros _|]; eapply I1; eauto.
Qed.

Lemma Inv_step s ts c : Inv s -> ts <> 0 -> Inv (fst (step Compact s ts c)).
Proof.
  intros I Hts. split.
  - intros t k m Hm.
    pose proof (step_R_state (sec ts) t k 0 ts Hts (Z.le_refl _) Hts c s s (Inv_R _ t k s I)) as X.
    destruct (R_live1 _ _ _ _ _ _ X m Hm) as [_ L]. exact L.
  - intros t k sb.
    pose proof (step_R_state (sec ts) t k 0 ts Hts (Z.le_refl _) Hts c s s (Inv_R _ t k s I)) as X.
    apply (R_zero1 _ _ _ _ _ _ X).
Qed.

Lemma Inv_drop s it : Inv s -> Inv (drop_item s it).
Proof.
  intros [I1 I2]. destruct it as [k | t k | t k v sb]; unfold drop_item; split.
  - intros t' k' m. apply I1.
  - intros t' k' sb'. apply I2.
  - intros t' k' m. rewrite meta_get_del. destruct (mkey_eqb _ _); [discriminate | apply I1].
  - intros t' k' sb'. apply I2.
  - intros t' k' m. apply I1.
  - intros t' k' sb'. rewrite el_get_del. destruct (ekey_eqb _ _); auto.
Qed.

(* ---------- what a compaction may drop ---------- *)
Definition garbage (T : Z) (s : store) (it : item) : Prop :=
  match it with
  | IKV k => kvdead T (kv_get s k)
  | IMeta t k => mdead T (meta_get s t k)
  | IElem t k v sb => v <> 0 /\ match meta_get s t k with None => True | Some m => h_ver (m_hdr m) <> v \/ hdead T (m_hdr m) end
  end.
Definition focus (it : item) : ty * bytes * Z :=
  match it with IKV k => (TK, k, 0) | IMeta t k => (t, k, 0) | IElem t k v _ => (t, k, v) end.

Lemma removable_garbage s csec it : removable s csec it = true -> garbage (csec - lazy_clean_secs - 1) s it.
Proof.
  assert (L : forall h, lazy_expired h csec = true -> hdead (csec - lazy_clean_secs - 1) h).
  { intros h. unfold lazy_expired, hdead. lia. }
  destruct it as [k | t k | t k v sb]; cbn [removable garbage]; intros H.
  - destruct (kv_get s k) as [[h x]|]; [|congruence]. simpl. now apply L.
  - destruct (meta_get s t k) as [m|]; [|congruence]. simpl. now apply L.
  - destruct (el_get s t k v sb); [|congruence].
    destruct (v =? 0) eqn:V; [congruence|].
    destruct (v + lazy_clean_secs * ns_per_sec >=? csec * ns_per_sec); [congruence|].
    split; [lia|]. destruct (meta_get s t k) as [m|]; auto.
    destruct (h_ver (m_hdr m) =? 0); [congruence|].
    destruct (h_ver (m_hdr m) =? v) eqn:E; simpl in H; [right; now apply L | left; lia].
Qed.

Lemma garbage_drop T s it1 it2 : garbage T s it2 -> garbage T (drop_item s it1) it2.
Proof.
  destruct it2 as [k | t k | t k v sb]; destruct it1 as [k1 | t1 k1 | t1 k1 v1 sb1]; simpl; auto.
  - rewrite kv_get_del. destruct (bytes_eqb k k1); simpl; auto.
  - rewrite meta_get_del. destruct (mkey_eqb _ _); simpl; auto.
  - intros [H1 H2]. split; auto. rewrite meta_get_del. destruct (mkey_eqb _ _); auto.
Qed.

Lemma drop_R T s it : Inv s -> garbage T s it ->
  R T (fst (fst (focus it))) (snd (fst (focus it))) (snd (focus it)) s (drop_item s it).
Proof.
  intros [I1 I2] G. destruct it as [k | t k | t k v sb]; simpl in *.
  - constructor; auto.
    + intros k'. rewrite kv_get_del. destruct (bytes_eqb k' k) eqn:E.
      * apply bytes_eqb_eq in E. subst. right. simpl. auto.
      * left. apply kv_same_refl.
    + intros m Hm. split; [intros _|]; eapply I1; eauto.
    + intros m Hm. split; [intros _|]; eapply I1; eauto.
    + intros sb. apply I2.
  - constructor; auto.
    + intros k'. left. apply kv_same_refl.
    + intros t' k'. rewrite meta_get_del. destruct (mkey_eqb (t', k') (t, k)) eqn:E.
      * apply mkey_eqb_eq in E. inversion E; subst. right. simpl. auto.
      * left. reflexivity.
    + intros m Hm. split; [intros _|]; eapply I1; eauto.
    + intros m. rewrite meta_get_del, (proj2 (mkey_eqb_eq (t, k) (t, k)) eq_refl). discriminate.
    + intros sb. apply I2.
  - destruct G as [Gv Gm]. constructor; auto.
    + intros k'. left. apply kv_same_refl.
    + intros t' k' v' sb' Hn. rewrite el_get_del. destruct (ekey_eqb _ _) eqn:E; auto.
      apply ekey_eqb_eq in E. inversion E; subst. contradiction.
    + intros t' k' v' Hn. rewrite el_of_del. now rewrite (gen_eqb_neq _ _ Hn).
    + intros m Hm. rewrite Hm in Gm. split; [|eapply I1; eauto].
      intros Hd. destruct Gm; [auto | contradiction].
    + intros m Hm. unfold meta_get, el_del in Hm. cbn [metas] in Hm. fold (meta_get s t k) in Hm. rewrite Hm in Gm.
      split; [|eapply I1; eauto]. intros Hd. destruct Gm; [auto | contradiction].
    + intros sb'. rewrite el_get_del. destruct (ekey_eqb _ _); auto.
Qed.

(* ---------- traces ---------- *)
Inductive op := OW (ts : Z) (c : cmd) | OR (now : Z) (t : ty) (k : bytes) | OC (csec : Z) (chosen : list item).
Inductive out := OutW (r : reply) | OutR (o : obs).

Fixpoint run (s : store) (ops : list op) : list out :=
  match ops with
  | [] => []
  | OW ts c :: r => OutW (snd (step Compact s ts c)) :: run (fst (step Compact s ts c)) r
  | OR now t k :: r => OutR (read Compact s now t k) :: run s r
  | OC csec chosen :: r => run (compact s csec chosen) r
  end.

Definition op_ok (T g : Z) (o : op) : Prop :=
  match o with
  | OW ts c => ts <> 0 /\ T <= sec ts /\ ts <> g
  | OR now _ _ => now <> 0 /\ T <= sec now
  | OC _ _ => False
  end.

(* two stores that differ only in dead content (or in garbage of generation g) answer every trace alike *)
Theorem run_R T t0 k0 g ops : forall s1 s2, R T t0 k0 g s1 s2 -> Forall (op_ok T g) ops -> run s1 ops = run s2 ops.
Proof.
  induction ops as [|o ops IH]; intros s1 s2 H F; auto.
  inversion F as [|? ? Ho Fr]; subst. destruct o as [ts c | now t k | csec chosen]; simpl in *.
  - destruct Ho as (A & B & C). destruct (step_R T t0 k0 g ts A B C c s1 s2 H) as [E X].
    rewrite E. f_equal. now apply IH.
  - destruct Ho as (A & B). rewrite (read_R T t0 k0 g now A B s1 s2 t k H). f_equal. now apply IH.
  - contradiction.
Qed.

Lemma run_drops T ops l : forall s, Inv s -> Forall (garbage T s) l ->
  Forall (fun it => Forall (op_ok T (snd (focus it))) ops) l ->
  run s ops = run (fold_left drop_item l s) ops.
Proof.
  induction l as [|it l IH]; intros s I G O; auto.
  inversion G as [|? ? G1 Gr]; inversion O as [|? ? O1 Or]; subst. simpl.
  rewrite (run_R T _ _ _ ops s (drop_item s it) (drop_R T s it I G1) O1).
  apply IH; auto.
  - now apply Inv_drop.
  - apply Forall_forall. intros x Hx. apply garbage_drop. rewrite Forall_forall in Gr. auto.
Qed.

Definition is_oc (o : op) : bool := match o with OC _ _ => true | _ => false end.
Definition strip (ops : list op) : list op := filter (fun o => negb (is_oc o)) ops.

Definition late (T : Z) (o : op) : Prop :=
  match o with OW ts _ => T <= sec ts | OR now _ _ => T <= sec now | OC _ _ => True end.
Definition not_gen (v : Z) (o : op) : Prop := match o with OW ts _ => ts <> v | _ => True end.

(* well-formed traces: positive timestamps, and after a compaction run with clock csec:
   no later time is more than the lazy threshold behind csec, no later write re-uses the generation number of a dropped element *)
Fixpoint wf (ops : list op) : Prop :=
  match ops with
  | [] => True
  | OW ts c :: r => ts <> 0 /\ wf r
  | OR now _ _ :: r => now <> 0 /\ wf r
  | OC csec chosen :: r =>
      Forall (late (csec - lazy_clean_secs - 1)) (strip r) /\
      (forall t k v sb, In (IElem t k v sb) chosen -> Forall (not_gen v) (strip r)) /\ wf r
  end.

Lemma wf_basic ops : wf ops -> Forall (fun o => match o with OW ts c => ts <> 0 | OR now _ _ => now <> 0 | OC _ _ => False end) (strip ops).
Proof.
  induction ops as [|o ops IH]; simpl; auto. destruct o; simpl; intros H.
  - destruct H as (A & C). constructor; auto.
  - destruct H as (A & C). constructor; auto.
  - destruct H as (_ & _ & C). auto.
Qed.

Lemma Inv_compact s csec chosen : Inv s -> Inv (compact s csec chosen).
Proof.
  unfold compact. generalize (filter (removable s csec) chosen). intros l. revert s.
  induction l as [|it l IH]; intros s I; simpl; auto. apply IH. now apply Inv_drop.
Qed.

Theorem bg_invisible ops : forall s, Inv s -> wf ops -> run s ops = run s (strip ops).
Proof.
  induction ops as [|o ops IH]; intros s I W; auto. destruct o as [ts c | now t k | csec chosen]; simpl in *.
  - destruct W as (A & C). f_equal. apply IH; auto. now apply Inv_step.
  - destruct W as (A & C). f_equal. now apply IH.
  - destruct W as (L & N & C). rewrite IH; auto; [|now apply Inv_compact].
    symmetry. unfold compact. apply (run_drops (csec - lazy_clean_secs - 1)); auto.
    + apply Forall_forall. intros it Hit. apply filter_In in Hit as [_ Hr]. now apply removable_garbage.
    + apply Forall_forall. intros it Hit. apply filter_In in Hit as [Hin _].
      pose proof (wf_basic ops C) as Bs. rewrite Forall_forall in *. intros o Ho.
      specialize (L o Ho). specialize (Bs o Ho).
      destruct it as [k | t k | t k v sb]; destruct o as [ts c | now t' k' | ? ?]; simpl in *; try tauto.
      all: repeat split; auto.
      specialize (N t k v sb Hin). rewrite Forall_forall in N. apply (N _ Ho).
Qed.

(* ---------- an expired key is indistinguishable from an absent one ---------- *)
Definition erase (s : store) (t : ty) (k : bytes) : store :=
  match t with TK => kv_del s k | _ => meta_del s t k end.

Lemma hdr_of_garbage T s t k h : hdr_of s t k = Some h -> hdead T h ->
  garbage T s (match t with TK => IKV k | _ => IMeta t k end) /\
  drop_item s (match t with TK => IKV k | _ => IMeta t k end) = erase s t k /\
  focus (match t with TK => IKV k | _ => IMeta t k end) = (t, k, 0).
Proof.
  unfold hdr_of, erase. intros H D. destruct t; simpl.
  - destruct (kv_get s k) as [[h' v]|]; [|discriminate]. inversion H; subst. auto.
  - destruct (meta_get s TH k) as [m|]; [|discriminate]. inversion H; subst. auto.
  - destruct (meta_get s TS k) as [m|]; [|discriminate]. inversion H; subst. auto.
  - destruct (meta_get s TZ k) as [m|]; [|discriminate]. inversion H; subst. auto.
  - destruct (meta_get s TL k) as [m|]; [|discriminate]. inversion H; subst. auto.
Qed.

(* whole traces: if the key's expiry second is <= T and every later time is >= T, the old content is unobservable *)
Theorem expired_like_absent_trace T s t k h ops : Inv s -> hdr_of s t k = Some h -> hdead T h ->
  Forall (op_ok T 0) ops -> run s ops = run (erase s t k) ops.
Proof.
  intros I H D F. destruct (hdr_of_garbage T s t k h H D) as (G & E & Fo).
  rewrite <- E. pose proof (drop_R T s _ I G) as X. rewrite Fo in X. simpl in X.
  now apply (run_R T t k 0).
Qed.

(* one command with ts at or after the expiry second: same reply as on the store without the key, and the two
   results stay indistinguishable for every later trace *)
Theorem expired_like_absent_step s ts c t k h : Inv s -> ts <> 0 ->
  hdr_of s t k = Some h -> is_expired Compact h ts = true ->
  snd (step Compact s ts c) = snd (step Compact (erase s t k) ts c) /\
  forall ops, Forall (op_ok (sec ts) 0) ops ->
    run (fst (step Compact s ts c)) ops = run (fst (step Compact (erase s t k) ts c)) ops.
Proof.
  intros I Hts H E.
  assert (D : hdead (sec ts) h) by (apply is_expired_spec in E; unfold hdead; lia).
  destruct (hdr_of_garbage (sec ts) s t k h H D) as (G & Er & Fo).
  pose proof (drop_R (sec ts) s _ I G) as X. rewrite Fo, Er in X. simpl in X.
  destruct (step_R (sec ts) t k 0 ts Hts (Z.le_refl _) Hts c s (erase s t k) X) as [A B].
  split; auto. intros ops F. now apply (run_R (sec ts) t k 0).
Qed.

(* the multi-key / multi-member reads (EXISTS k1 k2 .., MGET, HMGET / HGET, SISMEMBER, ZSCORE) with a read clock at or after
   the expiry second of a key answer exactly as on the store without that key - whatever the other arguments are *)
Theorem expired_like_absent_multiread s now t k h : Inv s -> now <> 0 ->
  hdr_of s t k = Some h -> is_expired Compact h now = true ->
  (forall ks, read_exists Compact s now ks = read_exists Compact (erase s t k) now ks) /\
  (forall ks, read_mget Compact s now ks = read_mget Compact (erase s t k) now ks) /\
  (forall t' k' m, read_elem Compact s now t' k' m = read_elem Compact (erase s t k) now t' k' m).
Proof.
  intros I Hts H E.
  assert (D : hdead (sec now) h) by (apply is_expired_spec in E; unfold hdead; lia).
  destruct (hdr_of_garbage (sec now) s t k h H D) as (G & Er & Fo).
  pose proof (drop_R (sec now) s _ I G) as X. rewrite Fo, Er in X. simpl in X.
  split; [|split].
  - intros ks. now apply (read_exists_R (sec now) t k 0 now Hts (Z.le_refl _)).
  - intros ks. now apply (read_mget_R (sec now) t k 0 now Hts (Z.le_refl _)).
  - intros t' k' m. now apply (read_elem_R (sec now) t k 0 now Hts (Z.le_refl _)).
Qed.

(* the bytes stored under an expired KV header have no influence on anything later *)
Theorem dead_value_irrelevant T s k h v1 v2 ops : Inv s -> hdead T h -> Forall (op_ok T 0) ops ->
  run (kv_put s k h v1) ops = run (kv_put s k h v2) ops.
Proof.
  intros I D F. apply (run_R T TK k 0); auto. destruct I as [I1 I2]. constructor; auto.
  - intros k'. rewrite !kv_get_put. destruct (bytes_eqb k' k) eqn:E.
    + apply bytes_eqb_eq in E. subst. right. simpl. auto.
    + left. apply kv_same_refl.
  - intros m Hm. split; [intros _|]; eapply I1; eauto.
  - intros m Hm. split; [intros _|]; eapply I1; eauto.
  - intros sb. apply I2.
  - intros sb. apply I2.
Qed.

(* reachable stores satisfy the invariant *)
Fixpoint writes_pos (ops : list op) : Prop :=
  match ops with
  | [] => True
  | OW ts _ :: r => ts <> 0 /\ writes_pos r
  | _ :: r => writes_pos r
  end.
Fixpoint final (s : store) (ops : list op) : store :=
  match ops with
  | [] => s
  | OW ts c :: r => final (fst (step Compact s ts c)) r
  | OR _ _ _ :: r => final s r
  | OC csec chosen :: r => final (compact s csec chosen) r
  end.
Lemma Inv_final ops : forall s, Inv s -> writes_pos ops -> Inv (final s ops).
Proof.
  induction ops as [|o ops IH]; intros s I W; auto. destruct o; simpl in *.
  - destruct W. apply IH; auto. now apply Inv_step.
  - now apply IH.
  - apply IH; auto. now apply Inv_compact.
Qed.
