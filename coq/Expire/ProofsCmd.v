(* Expire/ProofsCmd.v — every write command preserves the relation R and replies alike on R-related stores;
   reads agree on R-related stores. *)
From ZV Require Import Common.Bytes Common.BytesFacts Expire.Consts Expire.Model Expire.Proofs.
From ZV Require Import Expire.ProofsRel.
From Coq Require Import ZifyBool Lia.
Open Scope Z_scope.

Arguments ttl_of : simpl never.
Arguments is_expired : simpl never.
Arguments sec : simpl never.

Section Cmds.
  Variables (T : Z) (t0 : ty) (k0 : bytes) (g : Z).
  Local Notation RR := (R T t0 k0 g).
  Variable ts : Z.
  Hypothesis ts_nz : ts <> 0.
  Hypothesis ts_T : T <= sec ts.
  Hypothesis ts_g : ts <> g.

  (* what the header of the command's key looks like on both sides *)
  Definition noe (s : store) (t : ty) (k : bytes) : Prop :=
    match meta_get s t k with None => True | Some m => is_expired Compact (m_hdr m) ts = true end.

  Lemma header_cases s1 s2 t k : RR s1 s2 ->
    (meta_get s1 t k = meta_get s2 t k /\
     (forall m, meta_get s1 t k = Some m -> is_expired Compact (m_hdr m) ts = false ->
                (t, k, h_ver (m_hdr m)) <> (t0, k0, g) /\ (t, k, h_ver (m_hdr m)) <> (t0, k0, 0)))
    \/ ((t, k) = (t0, k0) /\ noe s1 t k /\ noe s2 t k).
  Proof using ts_nz ts_T.
    intros H. destruct (R_meta _ _ _ _ _ _ H t k) as [E | (Et & Ek & D1 & D2)].
    - left. split; auto. intros m Hm Hl.
      destruct (mkey_eqb (t, k) (t0, k0)) eqn:F.
      + apply mkey_dec in F as [Et Ek]. rewrite Et, Ek in Hm.
        destruct (R_live1 _ _ _ _ _ _ H m Hm) as [L1 L2]. split; intros X; inversion X as [[X1 X2 X3]].
        * apply L1; auto. intros Hd. rewrite (hdead_expired T _ ts Hd) in Hl; auto. discriminate.
        * now apply L2.
      + split; intros X; inversion X as [[X1 X2 X3]]; rewrite X1, X2 in F;
          rewrite (proj2 (mkey_eqb_eq (t0, k0) (t0, k0)) eq_refl) in F; discriminate.
    - right. rewrite Et, Ek in *. split; auto. unfold noe, mdead in *. split.
      + destruct (meta_get s1 t0 k0); auto. apply (hdead_expired T); auto.
      + destruct (meta_get s2 t0 k0); auto. apply (hdead_expired T); auto.
  Qed.

  Lemma noe_header s t k : noe s t k ->
    exists h ud ex, coll_header Compact s ts t k = (h, ud, ex) /\ not_exist_or_expired ud ex = true /\
                    (ex = true \/ (ud = None /\ h = fresh_hdr)).
  Proof.
    unfold noe, coll_header. destruct (meta_get s t k) as [m|]; intros H.
    - rewrite H. do 3 eexists. split; [reflexivity|]. simpl. auto.
    - do 3 eexists. split; [reflexivity|]. simpl. auto.
  Qed.
  Lemma noe_prepare s t k : noe s t k -> exists ex, coll_prepare Compact s ts t k = (mkH 0 ts, None, ex).
  Proof.
    intros H. destruct (noe_header _ _ _ H) as (h & ud & ex & E & N & _).
    unfold coll_prepare. rewrite E, N. simpl. eauto.
  Qed.

  (* the generation a creating write uses is never the garbage generation nor generation 0 *)
  Lemma renew_facts t k :
    (t, k, h_ver (mkH 0 ts)) <> (t0, k0, g) /\ (t, k, h_ver (mkH 0 ts)) <> (t0, k0, 0) /\
    ((t, k) = (t0, k0) -> (~ hdead T (mkH 0 ts) -> h_ver (mkH 0 ts) <> g) /\ h_ver (mkH 0 ts) <> 0).
  Proof.
    simpl. split; [|split].
    - intros Y; inversion Y; subst; contradiction.
    - intros Y; inversion Y; subst; contradiction.
    - intros _. auto.
  Qed.
  Lemma prepare_cases s1 s2 t k : RR s1 s2 ->
    exists h ud e1 e2, coll_prepare Compact s1 ts t k = (h, ud, e1) /\ coll_prepare Compact s2 ts t k = (h, ud, e2) /\
                       (t, k, h_ver h) <> (t0, k0, g) /\ (t, k, h_ver h) <> (t0, k0, 0) /\
                       ((t, k) = (t0, k0) -> (~ hdead T h -> h_ver h <> g) /\ h_ver h <> 0).
  Proof.
    intros H. destruct (renew_facts t k) as (F1 & F2 & F3).
    destruct (header_cases _ _ t k H) as [[E L] | (X & N1 & N2)].
    - unfold coll_prepare, coll_header. rewrite <- E. destruct (meta_get s1 t k) as [m|] eqn:M.
      + destruct (is_expired Compact (m_hdr m) ts) eqn:X; simpl.
        * exists (mkH 0 ts), None, true, true. auto.
        * destruct (L m eq_refl X) as [L1 L2].
          exists (m_hdr m), (Some (m_a m, m_b m)), false, false. split; [auto|]. split; [auto|]. split; [auto|]. split; [auto|].
          intros Y. split.
          -- intros Hd G. apply L1. inversion Y. congruence.
          -- intros G. apply L2. inversion Y. congruence.
      + simpl. exists (mkH 0 ts), None, false, false. auto.
    - destruct (noe_prepare _ _ _ N1) as (e1 & P1). destruct (noe_prepare _ _ _ N2) as (e2 & P2).
      exists (mkH 0 ts), None, e1, e2. auto.
  Qed.

  (* existing-only commands: either both sides see the same live collection, or both see nothing *)
  Lemma exist_cases s1 s2 t k : RR s1 s2 ->
    (exists h a b, coll_header Compact s1 ts t k = (h, Some (a, b), false) /\ coll_header Compact s2 ts t k = (h, Some (a, b), false) /\
                   (t, k, h_ver h) <> (t0, k0, g) /\ (t, k, h_ver h) <> (t0, k0, 0) /\
                   ((t, k) = (t0, k0) -> (~ hdead T h -> h_ver h <> g) /\ h_ver h <> 0))
    \/ (noe s1 t k /\ noe s2 t k).
  Proof using ts_nz ts_T.
    intros H. destruct (header_cases _ _ t k H) as [[E L] | (X & N1 & N2)]; [|right; auto].
    destruct (meta_get s1 t k) as [m|] eqn:M.
    - destruct (is_expired Compact (m_hdr m) ts) eqn:X.
      + right. unfold noe. rewrite <- E, M. auto.
      + left. destruct (L m eq_refl X) as [L1 L2]. exists (m_hdr m), (m_a m), (m_b m).
        unfold coll_header. rewrite <- E, M, X. split; [auto|]. split; [auto|]. split; [auto|]. split; [auto|].
        intros Y. split.
        * intros Hd G. apply L1. inversion Y. congruence.
        * intros G. apply L2. inversion Y. congruence.
    - right. unfold noe. rewrite <- E, M. auto.
  Qed.

  (* incr_size with the same arguments on both sides *)
  Lemma R_incr_size s1 s2 t k h ud d : RR s1 s2 ->
    ((t, k) = (t0, k0) -> (~ hdead T h -> h_ver h <> g) /\ h_ver h <> 0) ->
    RR (incr_size s1 t k h ud d) (incr_size s2 t k h ud d).
  Proof.
    intros H Hg. unfold incr_size. destruct (size_of ud + d <=? 0).
    - now apply R_meta_del.
    - apply R_meta_put; auto.
  Qed.

  Definition P (c : cmd) : Prop := forall s1 s2, RR s1 s2 ->
    snd (step Compact s1 ts c) = snd (step Compact s2 ts c) /\ RR (fst (step Compact s1 ts c)) (fst (step Compact s2 ts c)).

  (* ---------- hash ---------- *)
  Lemma P_hset k f v nx : P (CHSet k f v nx).
  Proof.
    intros s1 s2 H. cbn [step]. unfold do_hset.
    destruct (prepare_cases _ _ TH k H) as (h & ud & e1 & e2 & P1 & P2 & G1 & G2 & G3). rewrite P1, P2.
    rewrite <- (R_el _ _ _ _ _ _ H TH k (h_ver h) (SB f) G1).
    destruct (el_get s1 TH k (h_ver h) (SB f)).
    - destruct nx; simpl; split; auto. apply R_el_put; auto.
    - simpl; split; auto. apply R_el_put; auto. apply R_incr_size; auto.
  Qed.

  Lemma filter_el_some {A} s1 s2 t k v (f : A -> skey) l : RR s1 s2 -> (t, k, v) <> (t0, k0, g) ->
    filter (fun a => match el_get s1 t k v (f a) with Some _ => true | None => false end) l =
    filter (fun a => match el_get s2 t k v (f a) with Some _ => true | None => false end) l.
  Proof. intros H Hn. apply filter_ext. intros a. now rewrite (R_el _ _ _ _ _ _ H t k v (f a) Hn). Qed.
  Lemma filter_el_none {A} s1 s2 t k v (f : A -> skey) l : RR s1 s2 -> (t, k, v) <> (t0, k0, g) ->
    filter (fun a => match el_get s1 t k v (f a) with None => true | Some _ => false end) l =
    filter (fun a => match el_get s2 t k v (f a) with None => true | Some _ => false end) l.
  Proof. intros H Hn. apply filter_ext. intros a. now rewrite (R_el _ _ _ _ _ _ H t k v (f a) Hn). Qed.

  Lemma P_hmset k fvl : P (CHMSet k fvl).
  Proof.
    intros s1 s2 H. cbn [step]. unfold do_hmset. destruct fvl as [|fv fvl]; [simpl; auto|].
    destruct (prepare_cases _ _ TH k H) as (h & ud & e1 & e2 & P1 & P2 & G1 & G2 & G3). rewrite P1, P2.
    set (l := last_wins (fv :: fvl)).
    assert (E : filter (fun fv0 => match el_get s1 TH k (h_ver h) (SB (fst fv0)) with None => true | Some _ => false end) l =
                filter (fun fv0 => match el_get s2 TH k (h_ver h) (SB (fst fv0)) with None => true | Some _ => false end) l).
    { apply filter_ext. intros a. now rewrite (R_el _ _ _ _ _ _ H TH k (h_ver h) (SB (fst a)) G1). }
    rewrite E. simpl. split; auto. apply R_incr_size; auto.
    apply (R_fold_el_put T t0 k0 g s1 s2 TH k (h_ver h) (fun fv0 => SB (fst fv0)) (fun fv0 => EB (snd fv0))); auto.
  Qed.

  (* one side does nothing, or deletes a meta that is not there *)
  Definition noop (s s' : store) (t : ty) (k : bytes) : Prop := s' = s \/ (s' = meta_del s t k /\ meta_get s t k = None).
  Lemma R_noop s1 s2 s1' s2' t k : RR s1 s2 -> noop s1 s1' t k -> noop s2 s2' t k -> RR s1' s2'.
  Proof.
    intros H [-> | [-> N1]] [-> | [-> N2]]; auto.
    - now apply R_meta_del_none_r.
    - now apply R_meta_del_none_l.
    - now apply R_meta_del.
  Qed.

  Lemma coll_rem_noe s t k ms : noe s t k -> (forall sb, meta_get s t k = None -> el_get s t k 0 sb = None) ->
    exists s', coll_rem Compact s ts t k ms = (s', RInt 0) /\ noop s s' t k.
  Proof.
    intros N Z. unfold coll_rem. destruct ms as [|m ms]; [exists s; split; auto; now left|].
    unfold noe in N. unfold coll_header. destruct (meta_get s t k) as [mm|] eqn:M.
    - rewrite N. exists s. split; auto. now left.
    - replace (is_expired Compact fresh_hdr ts) with false by reflexivity. cbv iota beta.
      assert (F : filter (fun m0 => match el_get s t k (h_ver fresh_hdr) (SB m0) with Some _ => true | None => false end) (dedup (m :: ms)) = []).
      { induction (dedup (m :: ms)) as [|x l IH]; simpl; auto. rewrite (Z _ eq_refl). apply IH. }
      rewrite F. simpl. exists (meta_del s t k). split.
      + unfold incr_size. simpl. reflexivity.
      + right. auto.
  Qed.

  Lemma filter_none {A} (f : A -> bool) l : (forall a, f a = false) -> filter f l = [].
  Proof. intros H. induction l as [|x l IH]; simpl; auto. now rewrite H. Qed.

  Lemma zero_focus s1 s2 t k : RR s1 s2 -> (t, k, 0) = (t0, k0, g) \/ (t, k) = (t0, k0) ->
    (forall sb, el_get s1 t k 0 sb = None) /\ (forall sb, el_get s2 t k 0 sb = None).
  Proof.
    intros H X. assert ((t, k) = (t0, k0)) as Y by (destruct X as [X|X]; [inversion X|]; auto).
    inversion Y; subst. split; [apply (R_zero1 _ _ _ _ _ _ H) | apply (R_zero2 _ _ _ _ _ _ H)].
  Qed.

  Lemma P_coll_rem t k ms : forall s1 s2, RR s1 s2 ->
    snd (coll_rem Compact s1 ts t k ms) = snd (coll_rem Compact s2 ts t k ms) /\
    RR (fst (coll_rem Compact s1 ts t k ms)) (fst (coll_rem Compact s2 ts t k ms)).
  Proof.
    intros s1 s2 H. destruct (header_cases _ _ t k H) as [[E L] | (X & N1 & N2)].
    - (* same meta on both sides *)
      unfold coll_rem. destruct ms as [|m ms]; [simpl; auto|].
      unfold coll_header. rewrite <- E. destruct (meta_get s1 t k) as [mm|] eqn:M.
      + destruct (is_expired Compact (m_hdr mm) ts) eqn:X; [simpl; auto|].
        destruct (L mm eq_refl X) as [L1 L2].
        rewrite <- (filter_el_some s1 s2 t k (h_ver (m_hdr mm)) (fun m0 => SB m0) _ H L1).
        simpl. split; auto. apply R_incr_size.
        * apply (R_fold_el_del T t0 k0 g s1 s2 t k (h_ver (m_hdr mm)) (fun m0 => SB m0)); auto.
        * intros Y. split; [intros _ G|intros G]; [apply L1|apply L2]; inversion Y; congruence.
      + replace (is_expired Compact fresh_hdr ts) with false by reflexivity. cbv iota beta.
        change (h_ver fresh_hdr) with 0.
        destruct (gen_eqb (t, k, 0) (t0, k0, g)) eqn:Gz.
        * apply gen_eqb_eq in Gz. destruct (zero_focus s1 s2 t k H (or_introl Gz)) as [Z1 Z2].
          assert (F1 : filter (fun m0 => match el_get s1 t k 0 (SB m0) with Some _ => true | None => false end) (dedup (m :: ms)) = []).
          { apply filter_none. intros a. now rewrite Z1. }
          assert (F2 : filter (fun m0 => match el_get s2 t k 0 (SB m0) with Some _ => true | None => false end) (dedup (m :: ms)) = []).
          { apply filter_none. intros a. now rewrite Z2. }
          rewrite F1, F2. simpl. split; auto. unfold incr_size. simpl. now apply R_meta_del.
        * assert (Gn : (t, k, 0) <> (t0, k0, g)) by (intros Y; apply gen_eqb_eq in Y; congruence).
          rewrite <- (filter_el_some s1 s2 t k 0 (fun m0 => SB m0) _ H Gn).
          cbn [fst snd]. split; auto. unfold incr_size.
          assert (size_of None + - Z.of_nat (length (filter (fun m0 => match el_get s1 t k 0 (SB m0) with Some _ => true | None => false end) (dedup (m :: ms)))) <=? 0 = true) as -> by (simpl; lia).
          apply R_meta_del. apply (R_fold_el_del T t0 k0 g s1 s2 t k 0 (fun m0 => SB m0)); auto.
    - (* focus key, dead or absent on both sides *)
      destruct (zero_focus s1 s2 t k H (or_intror X)) as [Z1 Z2].
      destruct (coll_rem_noe s1 t k ms N1 (fun sb _ => Z1 sb)) as (s1' & E1 & O1).
      destruct (coll_rem_noe s2 t k ms N2 (fun sb _ => Z2 sb)) as (s2' & E2 & O2).
      rewrite E1, E2. simpl. split; auto. eapply R_noop; eauto.
  Qed.

  Lemma noe_header_true s t k : noe s t k ->
    exists h ud ex, coll_header Compact s ts t k = (h, ud, ex) /\ not_exist_or_expired ud ex = true.
  Proof. intros N. destruct (noe_header _ _ _ N) as (h & ud & ex & E & X & _). eauto. Qed.

  Lemma P_hincrby k f d : P (CHIncrBy k f d).
  Proof.
    intros s1 s2 H. cbn [step]. unfold do_hincrby.
    assert (E : (let '(h, ud, ex) := coll_header Compact s1 ts TH k in
                 if not_exist_or_expired ud ex then None else el_get s1 TH k (h_ver h) (SB f)) =
                (let '(h, ud, ex) := coll_header Compact s2 ts TH k in
                 if not_exist_or_expired ud ex then None else el_get s2 TH k (h_ver h) (SB f))).
    { destruct (exist_cases _ _ TH k H) as [(h & a & b & E1 & E2 & G1 & _) | [N1 N2]].
      - rewrite E1, E2. simpl. apply (R_el _ _ _ _ _ _ H); auto.
      - destruct (noe_header_true _ _ _ N1) as (h1 & u1 & x1 & E1 & X1).
        destruct (noe_header_true _ _ _ N2) as (h2 & u2 & x2 & E2 & X2).
        rewrite E1, E2, X1, X2. reflexivity. }
    rewrite E.
    destruct (match (let '(h, ud, ex) := coll_header Compact s2 ts TH k in
                     if not_exist_or_expired ud ex then None else el_get s2 TH k (h_ver h) (SB f))
              with Some e => parse_int (eval_bytes e) | None => Some 0 end) as [n|]; [|simpl; auto].
    destruct (in_int64 (n + d)); [|simpl; auto].
    cbn [fst snd]. split; auto.
    destruct (P_hset k f (format_int (n + d)) false s1 s2 H) as [_ X]. apply X.
  Qed.

  Lemma P_sadd k ms : P (CSAdd k ms).
  Proof.
    intros s1 s2 H. cbn [step]. unfold do_sadd.
    destruct (prepare_cases _ _ TS k H) as (h & ud & e1 & e2 & P1 & P2 & G1 & G2 & G3). rewrite P1, P2.
    rewrite <- (filter_el_none s1 s2 TS k (h_ver h) (fun m0 => SB m0) _ H G1).
    cbn [fst snd]. split; auto. apply R_incr_size; auto.
    apply (R_fold_el_put T t0 k0 g s1 s2 TS k (h_ver h) (fun m0 => SB m0) (fun _ => EB [])); auto.
  Qed.

  Lemma P_spop k n : P (CSPop k n).
  Proof.
    intros s1 s2 H. cbn [step]. unfold do_spop.
    destruct (n >? max_batch_num); [simpl; auto|]. destruct (n <=? 0); [simpl; auto|].
    destruct (exist_cases _ _ TS k H) as [(h & a & b & E1 & E2 & G1 & _) | [N1 N2]].
    - rewrite E1, E2. cbn [not_exist_or_expired orb]. destruct (size_of (Some (a, b)) =? 0); [simpl; auto|].
      rewrite <- (R_elof _ _ _ _ _ _ H TS k (h_ver h) G1).
      cbn [fst snd]. split; auto. apply P_coll_rem; auto.
    - destruct (noe_header_true _ _ _ N1) as (h1 & u1 & x1 & E1 & X1).
      destruct (noe_header_true _ _ _ N2) as (h2 & u2 & x2 & E2 & X2).
      rewrite E1, E2, X1, X2. simpl; auto.
  Qed.

  (* ----- sorted sets: member keys and score-index keys ----- *)
  Lemma has_member_R s1 s2 k v m : RR s1 s2 -> (TZ, k, v) <> (t0, k0, g) -> has_member s1 k v m = has_member s2 k v m.
  Proof. intros H G1. unfold has_member. now rewrite (R_el _ _ _ _ _ _ H TZ k v (SB m) G1). Qed.
  Lemma zidx_R s1 s2 k v : RR s1 s2 -> (TZ, k, v) <> (t0, k0, g) -> zidx s1 k v = zidx s2 k v.
  Proof. intros H G1. unfold zidx. now rewrite (R_elof _ _ _ _ _ _ H TZ k v G1). Qed.
  Lemma R_zset_item s1 s2 k v x : RR s1 s2 -> (TZ, k, v) <> (t0, k0, g) -> (TZ, k, v) <> (t0, k0, 0) ->
    forall sa sb, RR sa sb -> RR (zset_item s1 k v sa x) (zset_item s2 k v sb x).
  Proof.
    intros H G1 G2 sa sb Hab. unfold zset_item. destruct x as [sc m].
    rewrite <- (R_el _ _ _ _ _ _ H TZ k v (SB m) G1). destruct (el_get s1 TZ k v (SB m)) as [e|].
    - destruct (score_of e =? sc); auto. apply R_el_put; auto. apply R_el_put; auto. apply R_el_del; auto.
    - apply R_el_put; auto. apply R_el_put; auto.
  Qed.
  Lemma R_fold_zset_item s1 s2 k v l : RR s1 s2 -> (TZ, k, v) <> (t0, k0, g) -> (TZ, k, v) <> (t0, k0, 0) ->
    forall sa sb, RR sa sb -> RR (fold_left (zset_item s1 k v) l sa) (fold_left (zset_item s2 k v) l sb).
  Proof. intros H G1 G2. induction l as [|x l IH]; intros sa sb Hab; simpl; auto. apply IH. now apply R_zset_item. Qed.
  Lemma R_zdel_item s1 s2 k v m : RR s1 s2 -> (TZ, k, v) <> (t0, k0, g) ->
    forall sa sb, RR sa sb -> RR (zdel_item s1 k v sa m) (zdel_item s2 k v sb m).
  Proof.
    intros H G1 sa sb Hab. unfold zdel_item. rewrite <- (R_el _ _ _ _ _ _ H TZ k v (SB m) G1).
    destruct (el_get s1 TZ k v (SB m)); auto. apply R_el_del; auto. apply R_el_del; auto.
  Qed.
  Lemma R_fold_zdel_item {A} s1 s2 k v (f : A -> bytes) l : RR s1 s2 -> (TZ, k, v) <> (t0, k0, g) ->
    forall sa sb, RR sa sb ->
      RR (fold_left (fun st a => zdel_item s1 k v st (f a)) l sa) (fold_left (fun st a => zdel_item s2 k v st (f a)) l sb).
  Proof. intros H G1. induction l as [|x l IH]; intros sa sb Hab; simpl; auto. apply IH. now apply R_zdel_item. Qed.
  Lemma R_zrem_entries s1 s2 k h ud ents : RR s1 s2 -> (TZ, k, h_ver h) <> (t0, k0, g) ->
    ((TZ, k) = (t0, k0) -> (~ hdead T h -> h_ver h <> g) /\ h_ver h <> 0) ->
    snd (zrem_entries s1 k h ud ents) = snd (zrem_entries s2 k h ud ents) /\
    RR (fst (zrem_entries s1 k h ud ents)) (fst (zrem_entries s2 k h ud ents)).
  Proof.
    intros H G1 G3. unfold zrem_entries.
    assert (E : filter (fun x : Z * bytes => has_member s1 k (h_ver h) (snd x)) ents =
                filter (fun x : Z * bytes => has_member s2 k (h_ver h) (snd x)) ents)
      by (apply filter_ext; intros a; now apply has_member_R).
    rewrite <- E. cbn [fst snd]. split; auto. apply R_incr_size; auto.
    apply (R_fold_zdel_item s1 s2 k (h_ver h) (fun x : Z * bytes => snd x)); auto.
  Qed.

  Lemma P_zadd k sml : P (CZAdd k sml).
  Proof.
    intros s1 s2 H. cbn [step]. unfold do_zadd. destruct sml as [|x sml]; [simpl; auto|].
    destruct (prepare_cases _ _ TZ k H) as (h & ud & e1 & e2 & P1 & P2 & G1 & G2 & G3). rewrite P1, P2.
    set (l := zlast_wins (x :: sml)).
    assert (E : filter (fun x0 : Z * bytes => negb (has_member s1 k (h_ver h) (snd x0))) l =
                filter (fun x0 : Z * bytes => negb (has_member s2 k (h_ver h) (snd x0))) l)
      by (apply filter_ext; intros a; now rewrite (has_member_R s1 s2 k (h_ver h) (snd a) H G1)).
    rewrite <- E. cbn [fst snd]. split; auto. apply R_incr_size; auto. now apply R_fold_zset_item.
  Qed.

  Lemma P_zincrby k d m : P (CZIncrBy k d m).
  Proof.
    intros s1 s2 H. cbn [step]. unfold do_zincrby.
    destruct (prepare_cases _ _ TZ k H) as (h & ud & e1 & e2 & P1 & P2 & G1 & G2 & G3). rewrite P1, P2.
    rewrite <- (R_el _ _ _ _ _ _ H TZ k (h_ver h) (SB m) G1).
    destruct (el_get s1 TZ k (h_ver h) (SB m)); cbn [fst snd]; split; auto.
    - apply R_el_put; auto. apply R_el_put; auto. apply R_el_del; auto.
    - apply R_el_put; auto. apply R_el_put; auto. apply R_incr_size; auto.
  Qed.

  Lemma zrem_noe s k ms : noe s TZ k -> (forall sb, meta_get s TZ k = None -> el_get s TZ k 0 sb = None) ->
    exists s', do_zrem Compact s ts k ms = (s', RInt 0) /\ noop s s' TZ k.
  Proof.
    intros N Z. unfold do_zrem. destruct ms as [|m ms]; [exists s; split; auto; now left|].
    unfold noe in N. unfold coll_header. destruct (meta_get s TZ k) as [mm|] eqn:M.
    - rewrite N. exists s. split; auto. now left.
    - replace (is_expired Compact fresh_hdr ts) with false by reflexivity. cbv iota beta.
      assert (F : filter (has_member s k (h_ver fresh_hdr)) (dedup (m :: ms)) = []).
      { apply filter_none. intros a. unfold has_member. now rewrite (Z _ eq_refl). }
      rewrite F. simpl. exists (meta_del s TZ k). split.
      + unfold incr_size. simpl. reflexivity.
      + right. auto.
  Qed.

  Lemma P_zrem k ms : P (CZRem k ms).
  Proof.
    intros s1 s2 H. cbn [step]. destruct (header_cases _ _ TZ k H) as [[E L] | (X & N1 & N2)].
    - unfold do_zrem. destruct ms as [|m ms]; [simpl; auto|].
      unfold coll_header. rewrite <- E. destruct (meta_get s1 TZ k) as [mm|] eqn:M.
      + destruct (is_expired Compact (m_hdr mm) ts) eqn:X; [simpl; auto|].
        destruct (L mm eq_refl X) as [L1 L2].
        assert (F : filter (has_member s1 k (h_ver (m_hdr mm))) (dedup (m :: ms)) = filter (has_member s2 k (h_ver (m_hdr mm))) (dedup (m :: ms)))
          by (apply filter_ext; intros a; now apply has_member_R).
        rewrite <- F. cbn [fst snd]. split; auto. apply R_incr_size.
        * apply (R_fold_zdel_item s1 s2 k (h_ver (m_hdr mm)) (fun x : bytes => x)); auto.
        * intros Y. split; [intros _ G|intros G]; [apply L1|apply L2]; inversion Y; congruence.
      + replace (is_expired Compact fresh_hdr ts) with false by reflexivity. cbv iota beta.
        change (h_ver fresh_hdr) with 0.
        destruct (gen_eqb (TZ, k, 0) (t0, k0, g)) eqn:Gz.
        * apply gen_eqb_eq in Gz. destruct (zero_focus s1 s2 TZ k H (or_introl Gz)) as [Z1 Z2].
          assert (F1 : filter (has_member s1 k 0) (dedup (m :: ms)) = []) by (apply filter_none; intros a; unfold has_member; now rewrite Z1).
          assert (F2 : filter (has_member s2 k 0) (dedup (m :: ms)) = []) by (apply filter_none; intros a; unfold has_member; now rewrite Z2).
          rewrite F1, F2. simpl. split; auto. unfold incr_size. simpl. now apply R_meta_del.
        * assert (Gn : (TZ, k, 0) <> (t0, k0, g)) by (intros Y; apply gen_eqb_eq in Y; congruence).
          assert (F : filter (has_member s1 k 0) (dedup (m :: ms)) = filter (has_member s2 k 0) (dedup (m :: ms)))
            by (apply filter_ext; intros a; now apply has_member_R).
          rewrite <- F. cbn [fst snd]. split; auto. unfold incr_size.
          assert (size_of None + - Z.of_nat (length (filter (has_member s1 k 0) (dedup (m :: ms)))) <=? 0 = true) as -> by (simpl; lia).
          apply R_meta_del. apply (R_fold_zdel_item s1 s2 k 0 (fun x : bytes => x)); auto.
    - destruct (zero_focus s1 s2 TZ k H (or_intror X)) as [Z1 Z2].
      destruct (zrem_noe s1 k ms N1 (fun sb _ => Z1 sb)) as (s1' & E1 & O1).
      destruct (zrem_noe s2 k ms N2 (fun sb _ => Z2 sb)) as (s2' & E2 & O2).
      rewrite E1, E2. simpl. split; auto. eapply R_noop; eauto.
  Qed.

  Lemma P_zremrangebyscore k lo hi : P (CZRemRangeByScore k lo hi).
  Proof.
    intros s1 s2 H. cbn [step]. unfold do_zremrangebyscore.
    destruct (exist_cases _ _ TZ k H) as [(h & a & b & E1 & E2 & G1 & G2 & G3) | [N1 N2]].
    - rewrite E1, E2. destruct (size_of (Some (a, b)) =? 0); [simpl; auto|].
      rewrite <- (zidx_R s1 s2 k (h_ver h) H G1). now apply R_zrem_entries.
    - destruct (noe_header _ _ _ N1) as (h1 & u1 & x1 & E1 & X1 & [-> | [-> ->]]);
      destruct (noe_header _ _ _ N2) as (h2 & u2 & x2 & E2 & X2 & [-> | [-> ->]]);
      rewrite E1, E2; try destruct x1; try destruct x2; simpl; auto.
  Qed.

  (* ---------- list ---------- *)
  Lemma R_put_seq k ver vs : forall seq delta s1 s2, RR s1 s2 -> (TL, k, ver) <> (t0, k0, g) -> (TL, k, ver) <> (t0, k0, 0) ->
    snd (put_seq s1 k ver seq delta vs) = snd (put_seq s2 k ver seq delta vs) /\
    RR (fst (put_seq s1 k ver seq delta vs)) (fst (put_seq s2 k ver seq delta vs)).
  Proof.
    induction vs as [|v vs IH]; intros seq delta s1 s2 H G1 G2; simpl; auto.
    rewrite <- (R_el _ _ _ _ _ _ H TL k ver (SI seq) G1).
    destruct (el_get s1 TL k ver (SI seq)); simpl; auto.
    apply IH; auto. apply R_el_put; auto.
  Qed.
  (* the repair of a list: the same decision on both sides, from the same live header and the same generation *)
  Lemma scanfix_R s1 s2 k : RR s1 s2 ->
    scanfix Compact s1 ts k = scanfix Compact s2 ts k /\
    forall sa sb, RR sa sb -> RR (apply_fix sa k (scanfix Compact s1 ts k)) (apply_fix sb k (scanfix Compact s1 ts k)).
  Proof using ts_nz ts_T.
    intros H. unfold scanfix.
    destruct (exist_cases _ _ TL k H) as [(h & a & b & E1 & E2 & G1 & G2 & G3) | [N1 N2]].
    - rewrite E1, E2. cbn [not_exist_or_expired orb]. unfold list_seqs. rewrite <- (R_elof _ _ _ _ _ _ H TL k (h_ver h) G1).
      split; auto. intros sa sb Hab.
      destruct (list_meta_of (Some (a, b))) as [[hd tl] llen].
      destruct (negb (contig _)); [exact Hab|].
      destruct (flat_map _ _) as [|f r]; simpl.
      + destruct ((hd =? 0) && (tl =? 0)); [exact Hab|]. destruct (llen =? 0); [exact Hab | now apply R_meta_del].
      + match goal with |- context [if ?c then _ else _] => destruct c end; [exact Hab|].
        apply R_meta_put; auto.
    - destruct (noe_header_true _ _ _ N1) as (h1 & u1 & x1 & E1 & X1).
      destruct (noe_header_true _ _ _ N2) as (h2 & u2 & x2 & E2 & X2).
      rewrite E1, E2, X1, X2. simpl. auto.
  Qed.
  Lemma R_list_set_meta s1 s2 k h hd tl : RR s1 s2 ->
    ((TL, k) = (t0, k0) -> (~ hdead T h -> h_ver h <> g) /\ h_ver h <> 0) ->
    match list_set_meta s1 k h hd tl, list_set_meta s2 k h hd tl with
    | Some a, Some b => RR a b
    | None, None => True
    | _, _ => False
    end.
  Proof.
    intros H G3. unfold list_set_meta. destruct (tl - hd + 1 <? 0); auto.
    destruct (tl - hd + 1 =? 0); [now apply R_meta_del | apply R_meta_put; auto].
  Qed.

  Lemma P_lpush k hd vs : P (CLPush k hd vs).
  Proof.
    intros s1 s2 H. cbn [step]. unfold do_lpush.
    destruct (Z.of_nat (length vs) >? max_batch_num); [simpl; auto|].
    destruct (prepare_cases _ _ TL k H) as (h & ud & e1 & e2 & P1 & P2 & G1 & G2 & G3). rewrite P1, P2.
    destruct (list_meta_of ud) as [[hd0 tl0] size]. destruct vs as [|v vs]; [simpl; auto|].
    set (delta := if hd then -1 else 1).
    set (seq0 := (if hd then hd0 else tl0) + (if size >? 0 then delta else 0)).
    set (n := Z.of_nat (length (v :: vs))).
    destruct ((seq0 + (n - 1) * delta <=? list_min_seq) || (seq0 + (n - 1) * delta >=? list_max_seq)); [simpl; auto|].
    destruct (R_put_seq k (h_ver h) (v :: vs) seq0 delta s1 s2 H G1 G2) as [Xb X].
    destruct (put_seq s1 k (h_ver h) seq0 delta (v :: vs)) as [a ba], (put_seq s2 k (h_ver h) seq0 delta (v :: vs)) as [b bb].
    cbn [fst snd] in Xb, X. subst bb. destruct ba.
    - pose proof (R_list_set_meta a b k h (if hd then seq0 + (n - 1) * delta else hd0) (if hd then tl0 else seq0 + (n - 1) * delta) X G3) as Y.
      destruct (list_set_meta a k h _ _) as [a'|], (list_set_meta b k h _ _) as [b'|]; try contradiction; simpl; auto.
    - destruct (scanfix_R s1 s2 k H) as [E F]. rewrite <- E. cbn [fst snd]. split; auto.
  Qed.

  Lemma P_lpop k hd : P (CLPop k hd).
  Proof.
    intros s1 s2 H. cbn [step]. unfold do_lpop.
    destruct (exist_cases _ _ TL k H) as [(h & a & b & E1 & E2 & G1 & G2 & G3) | [N1 N2]].
    - rewrite E1, E2. cbn [not_exist_or_expired orb]. destruct (list_meta_of (Some (a, b))) as [[hd0 tl0] size].
      destruct (size =? 0); [simpl; auto|].
      rewrite <- (R_el _ _ _ _ _ _ H TL k (h_ver h) (SI (if hd then hd0 else tl0)) G1).
      destruct (el_get s1 TL k (h_ver h) (SI (if hd then hd0 else tl0))) as [e|].
      + assert (X : RR (el_del s1 TL k (h_ver h) (SI (if hd then hd0 else tl0))) (el_del s2 TL k (h_ver h) (SI (if hd then hd0 else tl0))))
          by (apply R_el_del; auto).
        pose proof (R_list_set_meta _ _ k h (if hd then hd0 + 1 else hd0) (if hd then tl0 else tl0 - 1) X G3) as Y.
        destruct (list_set_meta (el_del s1 _ _ _ _) k h _ _) as [a'|], (list_set_meta (el_del s2 _ _ _ _) k h _ _) as [b'|];
          try contradiction; simpl; auto.
      + destruct (scanfix_R s1 s2 k H) as [E F]. rewrite <- E. cbn [fst snd]. split; auto.
    - destruct (noe_header_true _ _ _ N1) as (h1 & u1 & x1 & E1 & X1).
      destruct (noe_header_true _ _ _ N2) as (h2 & u2 & x2 & E2 & X2).
      rewrite E1, E2, X1, X2. simpl; auto.
  Qed.

  (* ---------- clear / expire / persist on collections ---------- *)
  Lemma R_fold_el_del_z s1 s2 t k v (l : list Z) : RR s1 s2 -> (t, k, v) <> (t0, k0, g) ->
    RR (fold_left (fun st i => el_del st t k v (SI i)) l s1) (fold_left (fun st i => el_del st t k v (SI i)) l s2).
  Proof. intros H Hn. apply (R_fold_el_del T t0 k0 g s1 s2 t k v (fun i : Z => SI i)); auto. Qed.

  Lemma R_zrem_all s1 s2 k h ud : RR s1 s2 -> (TZ, k, h_ver h) <> (t0, k0, g) ->
    ((TZ, k) = (t0, k0) -> (~ hdead T h -> h_ver h <> g) /\ h_ver h <> 0) ->
    snd (zrem_all Compact s1 ts k h ud) = snd (zrem_all Compact s2 ts k h ud) /\
    RR (fst (zrem_all Compact s1 ts k h ud)) (fst (zrem_all Compact s2 ts k h ud)).
  Proof.
    intros H G1 G3. unfold zrem_all. destruct (h_ver h <? ts).
    - cbn [fst snd]. split; auto. now apply R_meta_del.
    - rewrite <- (zidx_R s1 s2 k (h_ver h) H G1).
      destruct (R_zrem_entries s1 s2 k h ud (zidx s1 k (h_ver h)) H G1 G3) as [A B].
      destruct (zrem_entries s1 k h ud (zidx s1 k (h_ver h))) as [a ra], (zrem_entries s2 k h ud (zidx s1 k (h_ver h))) as [b rb].
      cbn [fst snd] in A, B. subst rb. destruct ra; cbn [fst snd]; auto.
  Qed.
  Lemma R_ldelete s1 s2 k h ud : RR s1 s2 -> (TL, k, h_ver h) <> (t0, k0, g) ->
    RR (ldelete Compact s1 ts k h ud) (ldelete Compact s2 ts k h ud).
  Proof.
    intros H G1. unfold ldelete. destruct (h_ver h <? ts); [now apply R_meta_del|].
    destruct (list_meta_of ud) as [[hd tl] n]. rewrite <- (R_elof _ _ _ _ _ _ H TL k (h_ver h) G1).
    apply R_fold_el_del_z; auto. now apply R_meta_del.
  Qed.
  Lemma P_coll_clear t k : forall s1 s2, RR s1 s2 ->
    snd (coll_clear Compact s1 ts t k) = snd (coll_clear Compact s2 ts t k) /\
    RR (fst (coll_clear Compact s1 ts t k)) (fst (coll_clear Compact s2 ts t k)).
  Proof.
    intros s1 s2 H. unfold coll_clear.
    destruct (exist_cases _ _ t k H) as [(h & a & b & E1 & E2 & G1 & G2 & G3) | [N1 N2]].
    - rewrite E1, E2. cbn [not_exist_or_expired orb].
      destruct (match t with TL => snd (list_meta_of (Some (a, b))) | _ => size_of (Some (a, b)) end =? 0); [simpl; auto|].
      destruct (h_ver h <? ts) eqn:V; [cbn [fst snd]; split; auto; now apply R_meta_del|].
      destruct t.
      + cbn [fst snd]. split; auto. apply R_el_del_gen; auto. now apply R_meta_del.
      + cbn [fst snd]. split; auto. apply R_el_del_gen; auto. now apply R_meta_del.
      + cbn [fst snd]. split; auto. apply R_el_del_gen; auto. now apply R_meta_del.
      + destruct (R_zrem_all s1 s2 k h (Some (a, b)) H G1 G3) as [A B].
        destruct (zrem_all Compact s1 ts k h (Some (a, b))) as [x nx], (zrem_all Compact s2 ts k h (Some (a, b))) as [y ny].
        cbn [fst snd] in A, B. subst ny. cbn [fst snd]. auto.
      + cbn [fst snd]. split; auto. now apply R_ldelete.
    - destruct (noe_header_true _ _ _ N1) as (h1 & u1 & x1 & E1 & X1).
      destruct (noe_header_true _ _ _ N2) as (h2 & u2 & x2 & E2 & X2).
      rewrite E1, E2, X1, X2. simpl; auto.
  Qed.

  Lemma P_coll_set_expire t k ow : forall s1 s2, RR s1 s2 ->
    snd (coll_set_expire Compact s1 ts t k ow) = snd (coll_set_expire Compact s2 ts t k ow) /\
    RR (fst (coll_set_expire Compact s1 ts t k ow)) (fst (coll_set_expire Compact s2 ts t k ow)).
  Proof.
    intros s1 s2 H. unfold coll_set_expire.
    destruct (exist_cases _ _ t k H) as [(h & a & b & E1 & E2 & G1 & G2 & G3) | [N1 N2]].
    - rewrite E1, E2. destruct ow as [when|]; [|simpl; auto]. unfold set_expire. destruct (when >=? max_u32 - 1); [simpl; auto|].
      cbn [fst snd]. split; auto. apply R_meta_put; auto. cbn [m_hdr h_ver]. intros Y. split.
      + intros _ G. apply G1. inversion Y. congruence.
      + intros G. apply G2. inversion Y. congruence.
    - destruct (noe_header _ _ _ N1) as (h1 & u1 & x1 & E1 & X1 & [-> | [-> ->]]);
      destruct (noe_header _ _ _ N2) as (h2 & u2 & x2 & E2 & X2 & [-> | [-> ->]]);
      rewrite E1, E2; try destruct u1 as [[? ?]|]; try destruct u2 as [[? ?]|]; destruct ow; simpl; auto.
  Qed.

  (* ---------- KV ---------- *)
  Ltac kvc := repeat (split; [try reflexivity; auto|]); auto;
              try (let X := fresh in intros X; exfalso; apply X; reflexivity);
              try (let X := fresh in intros X; split; auto);
              try (exfalso; match goal with HH : ?x <> ?x |- _ => apply HH; reflexivity end).
  Lemma kv_cases s1 s2 k : RR s1 s2 ->
    exists h1 h2 ov1 ov2 x1 x2,
      kv_raw Compact s1 ts k = (h1, ov1, x1) /\ kv_raw Compact s2 ts k = (h2, ov2, x2) /\
      kv_cur ov1 x1 = kv_cur ov2 x2 /\
      h_exp (if x1 then renew Compact h1 ts else h1) = h_exp (if x2 then renew Compact h2 ts else h2) /\
      (kv_cur ov1 x1 <> None -> h_exp h1 = h_exp h2 /\ x1 = false /\ x2 = false /\ ov1 = ov2) /\
      (kv_cur ov1 x1 = None -> (ov1 = None \/ x1 = true) /\ (ov2 = None \/ x2 = true)).
  Proof.
    intros H. unfold kv_raw. destruct (R_kv _ _ _ _ _ _ H k) as [S | (-> & -> & D1 & D2)].
    - unfold kv_same in S. destruct (kv_get s1 k) as [[h1 v1]|], (kv_get s2 k) as [[h2 v2]|]; try contradiction.
      + destruct S as [E ->]. rewrite (expired_exp h1 h2 ts E).
        exists h1, h2, (Some v2), (Some v2), (is_expired Compact h2 ts), (is_expired Compact h2 ts).
        repeat split; auto; destruct (is_expired Compact h2 ts); simpl in *; auto; try congruence.
      + exists fresh_hdr, fresh_hdr, None, None, false, false. cbn [kv_cur renew h_exp fresh_hdr]; kvc.
    - unfold kvdead in *.
      destruct (kv_get s1 k0) as [[h1 v1]|], (kv_get s2 k0) as [[h2 v2]|].
      + rewrite (hdead_expired T h1 ts D1), (hdead_expired T h2 ts D2); auto.
        exists h1, h2, (Some v1), (Some v2), true, true. cbn [kv_cur renew h_exp fresh_hdr]; kvc.
      + rewrite (hdead_expired T h1 ts D1); auto.
        exists h1, fresh_hdr, (Some v1), None, true, false. cbn [kv_cur renew h_exp fresh_hdr]; kvc.
      + rewrite (hdead_expired T h2 ts D2); auto.
        exists fresh_hdr, h2, None, (Some v2), false, true. cbn [kv_cur renew h_exp fresh_hdr]; kvc.
      + exists fresh_hdr, fresh_hdr, None, None, false, false. cbn [kv_cur renew h_exp fresh_hdr]; kvc.
  Qed.

  Lemma R_kv_reset s1 s2 k v ttl : RR s1 s2 ->
    match kv_reset Compact s1 ts k v ttl, kv_reset Compact s2 ts k v ttl with
    | Some a, Some b => RR a b
    | None, None => True
    | _, _ => False
    end.
  Proof.
    intros H. unfold kv_reset. destruct (ttl <=? 0); [now apply R_kv_put|].
    destruct (expire_when ts ttl) as [w|]; auto.
    destruct (set_expire fresh_hdr w); auto. now apply R_kv_put.
  Qed.

  Lemma P_set k v : P (CSet k v).
  Proof.
    intros s1 s2 H. cbn [step]. unfold do_set. pose proof (R_kv_reset s1 s2 k v 0 H) as X.
    destruct (kv_reset Compact s1 ts k v 0), (kv_reset Compact s2 ts k v 0); try contradiction; simpl; auto.
  Qed.
  Lemma P_setex k d v : P (CSetEx k d v).
  Proof.
    intros s1 s2 H. cbn [step]. unfold do_setex. destruct (d <=? 0); [simpl; auto|].
    pose proof (R_kv_reset s1 s2 k v d H) as X.
    destruct (kv_reset Compact s1 ts k v d), (kv_reset Compact s2 ts k v d); try contradiction; simpl; auto.
  Qed.
  Lemma P_setnx k v : P (CSetNx k v).
  Proof.
    intros s1 s2 H. cbn [step]. unfold do_setnx, kv_prepare.
    destruct (kv_cases _ _ k H) as (h1 & h2 & ov1 & ov2 & x1 & x2 & E1 & E2 & C & _).
    rewrite E1, E2, <- C. destruct (kv_cur ov1 x1); [simpl; auto|].
    pose proof (R_kv_reset s1 s2 k v 0 H) as X.
    destruct (kv_reset Compact s1 ts k v 0), (kv_reset Compact s2 ts k v 0); try contradiction; simpl; auto.
  Qed.
  Lemma P_getset k v : P (CGetSet k v).
  Proof.
    intros s1 s2 H. cbn [step]. unfold do_getset.
    destruct (kv_cases _ _ k H) as (h1 & h2 & ov1 & ov2 & x1 & x2 & E1 & E2 & C & _).
    rewrite E1, E2, <- C.
    pose proof (R_kv_reset s1 s2 k v 0 H) as X.
    destruct (kv_reset Compact s1 ts k v 0), (kv_reset Compact s2 ts k v 0); try contradiction; simpl; auto.
  Qed.
  Lemma R_mset kvl : forall s1 s2, RR s1 s2 -> RR (do_mset Compact s1 ts kvl) (do_mset Compact s2 ts kvl).
  Proof.
    induction kvl as [|[k v] kvl IH]; intros s1 s2 H; simpl; auto.
    apply IH. now apply R_kv_put.
  Qed.
  Lemma P_mset kvl : P (CMSet kvl).
  Proof. intros s1 s2 H. cbn [step]. destruct kvl; simpl; auto. split; auto. now apply (R_mset (p :: kvl)). Qed.

  Lemma P_incrby k d : P (CIncrBy k d).
  Proof.
    intros s1 s2 H. cbn [step]. unfold do_incrby, kv_prepare.
    destruct (kv_cases _ _ k H) as (h1 & h2 & ov1 & ov2 & x1 & x2 & E1 & E2 & C & X & _).
    rewrite E1, E2, <- C.
    destruct (match kv_cur ov1 x1 with Some b => parse_int b | None => Some 0 end) as [n|]; [|simpl; auto].
    destruct (in_int64 (n + d)); simpl; auto. split; auto. now apply R_kv_put.
  Qed.
  Lemma P_append k v : P (CAppend k v).
  Proof.
    intros s1 s2 H. cbn [step]. unfold do_append, kv_prepare.
    destruct (kv_cases _ _ k H) as (h1 & h2 & ov1 & ov2 & x1 & x2 & E1 & E2 & C & X & _).
    rewrite E1, E2, <- C.
    destruct v as [|b0 v]; destruct (kv_cur ov1 x1) as [b|]; simpl; auto;
      match goal with |- context [if ?c then _ else _] => destruct c end; simpl; auto; split; auto; now apply R_kv_put.
  Qed.
  Lemma P_setrange k off v : P (CSetRange k off v).
  Proof.
    intros s1 s2 H. cbn [step]. unfold do_setrange, kv_prepare.
    destruct (kv_cases _ _ k H) as (h1 & h2 & ov1 & ov2 & x1 & x2 & E1 & E2 & C & X & _).
    rewrite E1, E2, <- C.
    destruct v as [|b0 v]; [simpl; auto|].
    destruct ((Z.of_nat (length (b0 :: v)) + off >? max_value_size) || (off <? 0)); [simpl; auto|].
    cbn [fst snd]. split; auto. now apply R_kv_put.
  Qed.

  Lemma P_kv_set_expire k ow : forall s1 s2, RR s1 s2 ->
    snd (kv_set_expire Compact s1 ts k ow) = snd (kv_set_expire Compact s2 ts k ow) /\
    RR (fst (kv_set_expire Compact s1 ts k ow)) (fst (kv_set_expire Compact s2 ts k ow)).
  Proof.
    intros s1 s2 H. unfold kv_set_expire.
    destruct (kv_cases _ _ k H) as (h1 & h2 & ov1 & ov2 & x1 & x2 & E1 & E2 & C & X & L & D).
    rewrite E1, E2. destruct (kv_cur ov1 x1) as [b|] eqn:K.
    - destruct L as (Eh & -> & -> & ->); [congruence|]. destruct ov2 as [v|]; [|simpl; auto].
      destruct ow as [when|]; [|simpl; auto].
      unfold set_expire. destruct (when >=? max_u32 - 1); [simpl; auto|].
      cbn [fst snd]. split; auto. now apply R_kv_put.
    - destruct (D eq_refl) as [[-> | ->] [-> | ->]]; try destruct ov1; try destruct ov2; destruct ow; simpl; auto.
  Qed.

  Lemma P_del ks : P (CDel ks).
  Proof.
    intros s1 s2 H. cbn [step]. unfold do_del. cbn [fst snd]. split.
    - f_equal. f_equal. f_equal. apply filter_ext. intros k.
      destruct (kv_cases _ _ k H) as (h1 & h2 & ov1 & ov2 & x1 & x2 & E1 & E2 & C & _). rewrite E1, E2.
      assert (Q : forall (ov : option bytes) x, match ov, x with Some _, false => true | _, _ => false end =
                                                 match kv_cur ov x with Some _ => true | None => false end).
      { intros [b|] [|]; reflexivity. }
      transitivity (match kv_cur ov1 x1 with Some _ => true | None => false end).
      + destruct ov1, x1; reflexivity.
      + rewrite C. destruct ov2, x2; reflexivity.
    - revert s1 s2 H. induction (dedup ks) as [|k l IH]; intros s1 s2 H; simpl; auto. apply IH. now apply R_kv_del.
  Qed.

  (* ---------- SET with options, SETIFEQ, DELIFEQ, LTRIM, LSET, ZREMRANGEBYRANK ---------- *)
  Lemma P_setopt k v ttl nx xx : P (CSetOpt k v ttl nx xx).
  Proof.
    intros s1 s2 H. cbn [step]. unfold do_setopt, kv_prepare.
    destruct (kv_cases _ _ k H) as (h1 & h2 & ov1 & ov2 & x1 & x2 & E1 & E2 & C & _).
    rewrite E1, E2, <- C. pose proof (R_kv_reset s1 s2 k v ttl H) as X.
    destruct (kv_cur ov1 x1); [destruct nx | destruct xx]; try (simpl; auto; fail);
      destruct (kv_reset Compact s1 ts k v ttl), (kv_reset Compact s2 ts k v ttl); try contradiction; simpl; auto.
  Qed.
  Lemma P_setifeq k old v ttl : P (CSetIfEq k old v ttl).
  Proof.
    intros s1 s2 H. cbn [step]. unfold do_setifeq, kv_prepare.
    destruct (kv_cases _ _ k H) as (h1 & h2 & ov1 & ov2 & x1 & x2 & E1 & E2 & C & _).
    rewrite E1, E2, <- C. pose proof (R_kv_reset s1 s2 k v ttl H) as X.
    destruct (eq_cur (kv_cur ov1 x1) old); [|simpl; auto].
    destruct (kv_reset Compact s1 ts k v ttl), (kv_reset Compact s2 ts k v ttl); try contradiction; simpl; auto.
  Qed.
  Lemma R_kv_del_dead s1 s2 k : RR s1 s2 -> t0 = TK -> k = k0 -> kvdead T (kv_get s1 k) -> kvdead T (kv_get s2 k) ->
    RR (kv_del s1 k) s2 /\ RR s1 (kv_del s2 k).
  Proof.
    intros [A B C D E F Z1 Z2 G] Ht Hk D1 D2. split; constructor; auto; intros k'.
    - rewrite kv_get_del. destruct (bytes_eqb k' k) eqn:X; [|apply A].
      apply bytes_eqb_eq in X. subst k'. right. simpl. repeat split; auto.
    - rewrite kv_get_del. destruct (bytes_eqb k' k) eqn:X; [|apply A].
      apply bytes_eqb_eq in X. subst k'. right. simpl. repeat split; auto.
  Qed.
  Lemma del1_reply s k : forall h ov x, kv_raw Compact s ts k = (h, ov, x) -> kv_cur ov x = None ->
    do_del Compact s ts [k] = (kv_del s k, RInt 0).
  Proof.
    intros h ov x E K. unfold do_del. cbn [dedup filter fold_left]. rewrite E.
    destruct ov, x; simpl in *; try discriminate; reflexivity.
  Qed.
  Lemma P_delifeq k old : P (CDelIfEq k old).
  Proof.
    intros s1 s2 H. cbn [step]. unfold do_delifeq.
    destruct (kv_cases _ _ k H) as (h1 & h2 & ov1 & ov2 & x1 & x2 & E1 & E2 & C & X & L & D).
    rewrite E1, E2. destruct (kv_cur ov1 x1) as [b|] eqn:K.
    - destruct L as (Eh & -> & -> & ->); [congruence|].
      destruct (negb (eq_cur ov2 old) && negb false); [simpl; auto|]. apply (P_del [k]); auto.
    - (* dead or absent on both sides: the reply is 0 whatever each side does *)
      assert (K2 : kv_cur ov2 x2 = None) by congruence.
      pose proof (del1_reply s1 k _ _ _ E1 K) as D1. pose proof (del1_reply s2 k _ _ _ E2 K2) as D2.
      destruct (R_kv _ _ _ _ _ _ H k) as [S | (Ht & Hk & Dd1 & Dd2)].
      + (* same stored entry up to the version: same decision *)
        unfold kv_raw in E1, E2. unfold kv_same in S.
        destruct (kv_get s1 k) as [[g1 v1]|], (kv_get s2 k) as [[g2 v2]|]; try contradiction.
        * destruct S as [Eg ->]. inversion E1; inversion E2; subst h1 h2 ov1 ov2 x1 x2. rewrite (expired_exp g1 g2 ts Eg).
          destruct (negb (eq_cur (Some v2) old) && negb (is_expired Compact g2 ts)); [simpl; auto|].
          rewrite D1, D2. cbn [fst snd]. split; auto. now apply R_kv_del.
        * inversion E1; inversion E2; subst h1 h2 ov1 ov2 x1 x2.
          destruct (negb (eq_cur None old) && negb false); [simpl; auto|].
          rewrite D1, D2. cbn [fst snd]. split; auto. now apply R_kv_del.
      + destruct (R_kv_del_dead s1 s2 k H Ht Hk Dd1 Dd2) as [Ra Rb].
        destruct (negb (eq_cur ov1 old) && negb x1), (negb (eq_cur ov2 old) && negb x2);
          try rewrite D1; try rewrite D2; cbn [fst snd]; split; auto. now apply R_kv_del.
  Qed.

  Lemma P_ltrim k a b : P (CLTrim k a b).
  Proof.
    intros s1 s2 H. cbn [step]. unfold do_ltrim.
    destruct (exist_cases _ _ TL k H) as [(h & ua & ub & E1 & E2 & G1 & G2 & G3) | [N1 N2]].
    - rewrite E1, E2. cbn [not_exist_or_expired orb]. destruct (list_meta_of (Some (ua, ub))) as [[hd tl] llen]. cbv zeta.
      match goal with |- context [if ?c then _ else _] => destruct c end.
      + cbn [fst snd]. split; auto. destruct (llen =? 0); auto. now apply R_ldelete.
      + match goal with |- context [list_set_meta (fold_left ?f ?l2 (fold_left ?f ?l1 s1)) k h ?x ?y] =>
          pose proof (R_list_set_meta (fold_left f l2 (fold_left f l1 s1)) (fold_left f l2 (fold_left f l1 s2)) k h x y
                        (R_fold_el_del_z _ _ TL k (h_ver h) l2 (R_fold_el_del_z _ _ TL k (h_ver h) l1 H G1) G1) G3) as Y;
          destruct (list_set_meta (fold_left f l2 (fold_left f l1 s1)) k h x y),
                   (list_set_meta (fold_left f l2 (fold_left f l1 s2)) k h x y); try contradiction; simpl; auto
        end.
    - destruct (noe_header_true _ _ _ N1) as (h1 & u1 & x1 & E1 & X1).
      destruct (noe_header_true _ _ _ N2) as (h2 & u2 & x2 & E2 & X2).
      rewrite E1, E2, X1, X2. simpl; auto.
  Qed.
  Lemma P_lset k i v : P (CLSet k i v).
  Proof.
    intros s1 s2 H. cbn [step]. unfold do_lset.
    destruct (exist_cases _ _ TL k H) as [(h & ua & ub & E1 & E2 & G1 & G2 & G3) | [N1 N2]].
    - rewrite E1, E2. cbn [not_exist_or_expired orb]. destruct (list_meta_of (Some (ua, ub))) as [[hd tl] size]. cbv zeta.
      destruct (size =? 0); [simpl; auto|].
      match goal with |- context [if ?c then _ else _] => destruct c end; [simpl; auto|].
      pose proof (R_list_set_meta s1 s2 k h hd tl H G3) as Y.
      destruct (list_set_meta s1 k h hd tl), (list_set_meta s2 k h hd tl); try contradiction; simpl; auto.
      split; auto. apply R_el_put; auto.
    - destruct (noe_header_true _ _ _ N1) as (h1 & u1 & x1 & E1 & X1).
      destruct (noe_header_true _ _ _ N2) as (h2 & u2 & x2 & E2 & X2).
      rewrite E1, E2, X1, X2. simpl; auto.
  Qed.
  Lemma P_zremrangebyrank k a b : P (CZRemRangeByRank k a b).
  Proof.
    intros s1 s2 H. cbn [step]. unfold do_zremrangebyrank.
    destruct (exist_cases _ _ TZ k H) as [(h & ua & ub & E1 & E2 & G1 & G2 & G3) | [N1 N2]].
    - rewrite E1, E2. cbv zeta. rewrite <- (zidx_R s1 s2 k (h_ver h) H G1).
      destruct (size_of (Some (ua, ub)) =? 0); [simpl; auto|].
      match goal with |- context [if ?c then _ else _] => destruct c end.
      { cbn [not_exist_or_expired orb].
        destruct (R_zrem_all s1 s2 k h (Some (ua, ub)) H G1 G3) as [A B].
        destruct (zrem_all Compact s1 ts k h (Some (ua, ub))) as [x nx], (zrem_all Compact s2 ts k h (Some (ua, ub))) as [y ny].
        cbn [fst snd] in A, B. subst ny. cbn [fst snd]. auto. }
      match goal with |- context [if ?c then _ else _] => destruct c end; [simpl; auto|].
      match goal with |- context [if ?c then _ else _] => destruct c end.
      { cbn [fst snd]. split; auto. apply R_incr_size; auto. }
      now apply R_zrem_entries.
    - destruct (noe_header _ _ _ N1) as (h1 & u1 & x1 & E1 & X1 & [-> | [-> ->]]);
      destruct (noe_header _ _ _ N2) as (h2 & u2 & x2 & E2 & X2 & [-> | [-> ->]]);
      rewrite E1, E2; try destruct x1; try destruct x2; simpl; auto.
  Qed.

  Theorem step_R c : P c.
  Proof.
    destruct c.
    - apply P_set. - apply P_setex. - apply P_setnx. - apply P_getset. - apply P_mset.
    - apply P_incrby. - apply P_append. - apply P_setrange. - apply P_del.
    - intros s1 s2 H. cbn [step]. unfold do_expire. destruct t; [apply P_kv_set_expire | apply P_coll_set_expire ..]; auto.
    - intros s1 s2 H. cbn [step]. unfold do_persist. destruct t; [apply P_kv_set_expire | apply P_coll_set_expire ..]; auto.
    - intros s1 s2 H. cbn [step]. destruct t; [simpl; auto | apply P_coll_clear ..]; auto.
    - apply P_hset. - apply P_hmset.
    - intros s1 s2 H. cbn [step]. now apply P_coll_rem.
    - apply P_hincrby. - apply P_sadd.
    - intros s1 s2 H. cbn [step]. now apply P_coll_rem.
    - apply P_spop. - apply P_zadd. - apply P_zincrby.
    - apply P_zrem.
    - apply P_zremrangebyscore. - apply P_lpush. - apply P_lpop.
    - apply P_setopt. - apply P_setifeq. - apply P_delifeq. - apply P_ltrim. - apply P_lset. - apply P_zremrangebyrank.
  Qed.
  Theorem step_R_state c : forall s1 s2, RR s1 s2 -> RR (fst (step Compact s1 ts c)) (fst (step Compact s2 ts c)).
  Proof. intros s1 s2 H. now apply step_R. Qed.

  (* ---------- reads (the section's time is the read clock here) ---------- *)
  Lemma read_coll_noe s t k : noe s t k -> read_coll Compact s ts t k = absent_obs.
  Proof.
    intros N. unfold read_coll. unfold noe in N. unfold coll_header. destruct (meta_get s t k) as [m|].
    - rewrite N. cbn. now rewrite ttl_expired.
    - reflexivity.
  Qed.
  Lemma read_coll_R t s1 s2 k : RR s1 s2 -> read_coll Compact s1 ts t k = read_coll Compact s2 ts t k.
  Proof using ts_nz ts_T.
    intros H. destruct (exist_cases _ _ t k H) as [(h & a & b & E1 & E2 & G1 & _) | [N1 N2]].
    - unfold read_coll. rewrite E1, E2. unfold zidx. destruct t; now rewrite (R_elof _ _ _ _ _ _ H _ k (h_ver h) G1).
    - now rewrite !read_coll_noe.
  Qed.
  Lemma read_R s1 s2 t k : RR s1 s2 -> read Compact s1 ts t k = read Compact s2 ts t k.
  Proof using ts_nz ts_T.
    intros H. unfold read. destruct t.
    - unfold read_kv. destruct (kv_cases _ _ k H) as (h1 & h2 & ov1 & ov2 & x1 & x2 & E1 & E2 & C & X & L & D).
      rewrite E1, E2. destruct (kv_cur ov1 x1) as [b|] eqn:K.
      + destruct L as (Eh & -> & -> & ->); [congruence|]. destruct ov2; [|reflexivity].
        unfold ttl_of. now rewrite Eh.
      + destruct (D eq_refl) as [A B].
        assert (Q : forall h (ov : option bytes) x, ov = None \/ x = true -> (x = true -> is_expired Compact h ts = true) ->
                    match ov with None => mkO false (-1) 0 [] | Some v => mkO (negb x) (ttl_of Compact h ts) (if x then 0 else Z.of_nat (length v)) (if x then [] else [(SB [], EB v)]) end = absent_obs).
        { intros h ov x [-> | ->] Hx; auto. destruct ov; auto. simpl. now rewrite (ttl_expired h ts (Hx eq_refl)). }
        unfold kv_raw in E1, E2.
        rewrite (Q h1 ov1 x1 A), (Q h2 ov2 x2 B); auto.
        * intros ->. destruct (kv_get s2 k) as [[? ?]|]; inversion E2; subst; auto.
        * intros ->. destruct (kv_get s1 k) as [[? ?]|]; inversion E1; subst; auto.
    - now apply (read_coll_R TH).
    - now apply (read_coll_R TS).
    - now apply (read_coll_R TZ).
    - now apply (read_coll_R TL).
  Qed.
  (* the multi-key / multi-member reads *)
  Lemma read_elem_R s1 s2 t k m : RR s1 s2 -> read_elem Compact s1 ts t k m = read_elem Compact s2 ts t k m.
  Proof using ts_nz ts_T.
    intros H. destruct (exist_cases _ _ t k H) as [(h & a & b & E1 & E2 & G1 & _) | [N1 N2]].
    - unfold read_elem. rewrite E1, E2. cbn. now apply (R_el _ _ _ _ _ _ H).
    - unfold read_elem, coll_header. unfold noe in N1, N2.
      destruct (meta_get s1 t k); destruct (meta_get s2 t k); rewrite ?N1, ?N2; reflexivity.
  Qed.
  Lemma read_value_R s1 s2 k : RR s1 s2 -> read_value Compact s1 ts k = read_value Compact s2 ts k.
  Proof.
    intros H. unfold read_value.
    destruct (kv_cases _ _ k H) as (h1 & h2 & ov1 & ov2 & x1 & x2 & E1 & E2 & C & _). now rewrite E1, E2.
  Qed.
  Lemma read_mget_R s1 s2 ks : RR s1 s2 -> read_mget Compact s1 ts ks = read_mget Compact s2 ts ks.
  Proof. intros H. unfold read_mget. apply map_ext. intros k. now apply read_value_R. Qed.
  Lemma read_exists_R s1 s2 ks : RR s1 s2 -> read_exists Compact s1 ts ks = read_exists Compact s2 ts ks.
  Proof.
    intros H. unfold read_exists. f_equal. f_equal. apply filter_ext. intros k. now rewrite (read_value_R _ _ k H).
  Qed.
End Cmds.
