(* Expire/Proofs.v — proofs about the expiry model (property C10): association lists, store lookups,
   the expiry decision at second granularity, reads of dead / live keys. *)
From ZV Require Import Common.Bytes Common.BytesFacts Expire.Consts Expire.Model.
From Coq Require Import ZifyBool Lia.
Open Scope Z_scope.

(* ---------- association lists ---------- *)
Section AL.
  Context {K V : Type} (eqb : K -> K -> bool).
  Hypothesis eqb_eq : forall a b, eqb a b = true <-> a = b.
  Lemma eqb_refl a : eqb a a = true. Proof. now apply eqb_eq. Qed.
  Lemma eqb_sym a b : eqb a b = eqb b a.
  Proof.
    destruct (eqb a b) eqn:E, (eqb b a) eqn:F; auto.
    - apply eqb_eq in E; subst. now rewrite eqb_refl in F.
    - apply eqb_eq in F; subst. now rewrite eqb_refl in E.
  Qed.
  Lemma aget_adel k k' (l : list (K * V)) :
    aget eqb k (adel eqb k' l) = if eqb k k' then None else aget eqb k l.
  Proof.
    induction l as [|[a v] l IH]; simpl.
    - now destruct (eqb k k').
    - destruct (eqb k' a) eqn:E.
      + rewrite IH. destruct (eqb k k') eqn:F; auto.
        destruct (eqb k a) eqn:G; auto.
        apply eqb_eq in E, G. subst. now rewrite eqb_refl in F.
      + simpl. destruct (eqb k a) eqn:G.
        * destruct (eqb k k') eqn:F; auto.
          apply eqb_eq in G, F. subst. now rewrite eqb_refl in E.
        * apply IH.
  Qed.
  Lemma aget_aset k k' v (l : list (K * V)) :
    aget eqb k (aset eqb k' v l) = if eqb k k' then Some v else aget eqb k l.
  Proof. unfold aset. simpl. destruct (eqb k k') eqn:E; auto. rewrite aget_adel. now rewrite E. Qed.
End AL.

Lemma ty_eqb_eq a b : ty_eqb a b = true <-> a = b.
Proof. destruct a, b; simpl; split; intro H; try reflexivity; try discriminate. Qed.
Lemma sub_eqb_eq a b : sub_eqb a b = true <-> a = b.
Proof.
  destruct a, b; simpl; split; intro H; try discriminate.
  - apply bytes_eqb_eq in H. now subst.
  - inversion H. now apply bytes_eqb_eq.
  - apply Z.eqb_eq in H. now subst.
  - inversion H. apply Z.eqb_refl.
  - apply andb_true_iff in H as [H1 H2]. apply Z.eqb_eq in H1. apply bytes_eqb_eq in H2. now subst.
  - inversion H. rewrite Z.eqb_refl. now apply bytes_eqb_eq.
Qed.
Lemma mkey_eqb_eq a b : mkey_eqb a b = true <-> a = b.
Proof.
  destruct a as [t k], b as [t' k']. unfold mkey_eqb. simpl. rewrite andb_true_iff, ty_eqb_eq, bytes_eqb_eq.
  split; [intros [-> ->]; auto | intros H; inversion H; auto].
Qed.
Lemma ekey_eqb_eq a b : ekey_eqb a b = true <-> a = b.
Proof.
  destruct a as [[[t k] v] sb], b as [[[t' k'] v'] sb']. unfold ekey_eqb.
  rewrite !andb_true_iff, ty_eqb_eq, bytes_eqb_eq, Z.eqb_eq, sub_eqb_eq.
  split; [intros [[[-> ->] ->] ->]; auto | intros H; inversion H; auto].
Qed.
Lemma tkey_eqb_eq a b : tkey_eqb a b = true <-> a = b.
Proof.
  destruct a as [[w t] k], b as [[w' t'] k']. unfold tkey_eqb.
  rewrite !andb_true_iff, ty_eqb_eq, bytes_eqb_eq, Z.eqb_eq.
  split; [intros [[-> ->] ->]; auto | intros H; inversion H; auto].
Qed.

(* ---------- store lookups ---------- *)
Lemma kv_get_put s k h v k' : kv_get (kv_put s k h v) k' = if bytes_eqb k' k then Some (h, v) else kv_get s k'.
Proof. unfold kv_get, kv_put; simpl. apply aget_aset, bytes_eqb_eq. Qed.
Lemma kv_get_del s k k' : kv_get (kv_del s k) k' = if bytes_eqb k' k then None else kv_get s k'.
Proof. unfold kv_get, kv_del; simpl. apply aget_adel, bytes_eqb_eq. Qed.
Lemma meta_get_put s t k m t' k' :
  meta_get (meta_put s t k m) t' k' = if mkey_eqb (t', k') (t, k) then Some m else meta_get s t' k'.
Proof. unfold meta_get, meta_put; cbn [metas]. apply aget_aset, mkey_eqb_eq. Qed.
Lemma meta_get_del s t k t' k' :
  meta_get (meta_del s t k) t' k' = if mkey_eqb (t', k') (t, k) then None else meta_get s t' k'.
Proof. unfold meta_get, meta_del; cbn [metas]. apply aget_adel, mkey_eqb_eq. Qed.
Lemma el_get_put s t k v sb x t' k' v' sb' :
  el_get (el_put s t k v sb x) t' k' v' sb' = if ekey_eqb (t', k', v', sb') (t, k, v, sb) then Some x else el_get s t' k' v' sb'.
Proof. unfold el_get, el_put; cbn [elems]. apply aget_aset, ekey_eqb_eq. Qed.
Lemma el_get_del s t k v sb t' k' v' sb' :
  el_get (el_del s t k v sb) t' k' v' sb' = if ekey_eqb (t', k', v', sb') (t, k, v, sb) then None else el_get s t' k' v' sb'.
Proof. unfold el_get, el_del; cbn [elems]. apply aget_adel, ekey_eqb_eq. Qed.

(* ---------- the expiry decision, second granularity ---------- *)
Lemma is_expired_spec h ts :
  is_expired Compact h ts = true <-> (h_exp h <> 0 /\ ts <> 0 /\ h_exp h <= sec ts).
Proof. unfold is_expired. lia. Qed.

Lemma sec_at e : sec (e * ns_per_sec) = e.
Proof. unfold sec, ns_per_sec. now rewrite Z.quot_mul by lia. Qed.
Lemma sec_before e : 0 < e -> sec (e * ns_per_sec - 1) = e - 1.
Proof.
  intros He. unfold sec, ns_per_sec. rewrite Z.quot_div_nonneg by lia.
  symmetry. apply Z.div_unique with (r := 999999999); lia.
Qed.
Lemma sec_within e d : 0 <= e -> 0 <= d < ns_per_sec -> sec (e * ns_per_sec + d) = e.
Proof.
  unfold sec, ns_per_sec. intros He Hd. rewrite Z.quot_div_nonneg by lia.
  symmetry. apply Z.div_unique with (r := d); lia.
Qed.
Lemma sec_mono a b : 0 <= a <= b -> sec a <= sec b.
Proof. unfold sec, ns_per_sec. intros H. rewrite !Z.quot_div_nonneg by lia. apply Z.div_le_mono; lia. Qed.

(* the three placements of a time around the expiry second e (> 0): 1 ns before the second, exactly at it, after it *)
Lemma expired_just_before e v : 0 < e -> is_expired Compact (mkH e v) (e * ns_per_sec - 1) = false.
Proof.
  intros He. destruct (is_expired Compact (mkH e v) (e * ns_per_sec - 1)) eqn:E; auto.
  apply is_expired_spec in E. simpl in E. rewrite sec_before in E by lia. lia.
Qed.
Lemma expired_exactly_at e v : 0 < e -> is_expired Compact (mkH e v) (e * ns_per_sec) = true.
Proof. intros He. apply is_expired_spec. simpl. rewrite sec_at. unfold ns_per_sec. lia. Qed.
Lemma expired_after e v t : 0 < e -> e * ns_per_sec <= t -> is_expired Compact (mkH e v) t = true.
Proof.
  intros He Ht. apply is_expired_spec. simpl. unfold ns_per_sec in *. split; [lia|]. split; [lia|].
  rewrite <- (sec_at e). apply sec_mono. unfold ns_per_sec. lia.
Qed.
Lemma not_expired_before e v t : 0 <= t < e * ns_per_sec -> is_expired Compact (mkH e v) t = false.
Proof.
  intros Ht. destruct (is_expired Compact (mkH e v) t) eqn:E; auto.
  apply is_expired_spec in E. simpl in E. destruct E as (_ & _ & E).
  unfold sec, ns_per_sec in *. rewrite Z.quot_div_nonneg in E by lia.
  assert (t / 1000000000 < e) by (apply Z.div_lt_upper_bound; lia). lia.
Qed.

(* TTL = remaining whole seconds *)
Lemma ttl_live h now : h_exp h <> 0 -> is_expired Compact h now = false -> now <> 0 ->
  ttl_of Compact h now = h_exp h - sec now /\ 0 < ttl_of Compact h now.
Proof.
  unfold ttl_of, is_expired. cbv zeta. intros H1 H2 H3.
  destruct (h_exp h =? 0) eqn:E1; [lia|].
  destruct (h_exp h - sec now <=? 0) eqn:E2; lia.
Qed.
Lemma ttl_none h now : h_exp h = 0 -> ttl_of Compact h now = -1.
Proof. unfold ttl_of. intros ->. reflexivity. Qed.

(* ---------- reads ---------- *)
Arguments ttl_of : simpl never.
Arguments is_expired : simpl never.
Arguments sec : simpl never.
Definition absent_obs : obs := mkO false (-1) 0 [].

Definition hdr_of (s : store) (t : ty) (k : bytes) : option hdr :=
  match t with
  | TK => match kv_get s k with Some (h, _) => Some h | None => None end
  | _ => match meta_get s t k with Some m => Some (m_hdr m) | None => None end
  end.

Lemma ttl_expired h now : is_expired Compact h now = true -> ttl_of Compact h now = -1.
Proof.
  unfold ttl_of, is_expired. cbv zeta. intros H.
  destruct (h_exp h =? 0) eqn:E1; [lia|].
  destruct (h_exp h - sec now <=? 0) eqn:E2; lia.
Qed.

(* (1) once the read clock has reached the expiry second, every read treats the key as absent *)
Lemma read_dead s now t k h :
  hdr_of s t k = Some h -> is_expired Compact h now = true -> read Compact s now t k = absent_obs.
Proof.
  intros Hh He. unfold read, hdr_of in *.
  destruct t.
  - unfold read_kv, kv_raw. destruct (kv_get s k) as [[h' v]|]; [|discriminate].
    inversion Hh; subst. rewrite He. cbn. now rewrite ttl_expired.
  - unfold read_coll, coll_header. destruct (meta_get s TH k) as [m|]; [|discriminate].
    inversion Hh; subst. rewrite He. cbn. now rewrite ttl_expired.
  - unfold read_coll, coll_header. destruct (meta_get s TS k) as [m|]; [|discriminate].
    inversion Hh; subst. rewrite He. cbn. now rewrite ttl_expired.
  - unfold read_coll, coll_header. destruct (meta_get s TZ k) as [m|]; [|discriminate].
    inversion Hh; subst. rewrite He. cbn. now rewrite ttl_expired.
  - unfold read_coll, coll_header. destruct (meta_get s TL k) as [m|]; [|discriminate].
    inversion Hh; subst. rewrite He. cbn. now rewrite ttl_expired.
Qed.
(* multi-key / multi-member reads (EXISTS k1 k2 .., MGET, HMGET, SISMEMBER, ZSCORE): an expired key contributes
   exactly like an absent one *)
Lemma read_value_dead s now k h :
  hdr_of s TK k = Some h -> is_expired Compact h now = true -> read_value Compact s now k = None.
Proof.
  unfold hdr_of, read_value, kv_raw. destruct (kv_get s k) as [[h' v]|]; [|discriminate].
  intros Hh He. inversion Hh; subst. now rewrite He.
Qed.
Lemma read_value_absent p s now k : hdr_of s TK k = None -> read_value p s now k = None.
Proof. unfold hdr_of, read_value, kv_raw. destruct (kv_get s k) as [[h' v]|]; [discriminate|reflexivity]. Qed.
Lemma read_value_live s now k h :
  hdr_of s TK k = Some h -> is_expired Compact h now = false ->
  exists v, kv_get s k = Some (h, v) /\ read_value Compact s now k = Some v.
Proof.
  unfold hdr_of, read_value, kv_raw. destruct (kv_get s k) as [[h' v]|]; [|discriminate].
  intros Hh He. inversion Hh; subst. exists v. now rewrite He.
Qed.
Lemma read_elem_dead s now t k m h :
  t <> TK -> hdr_of s t k = Some h -> is_expired Compact h now = true -> read_elem Compact s now t k m = None.
Proof.
  intros Ht Hh He. unfold read_elem, coll_header.
  assert (Hm : match meta_get s t k with Some x => Some (m_hdr x) | None => None end = Some h) by (destruct t; [congruence|auto..]).
  destruct (meta_get s t k) as [x|]; [|discriminate]. inversion Hm; subst. now rewrite He.
Qed.
Lemma read_elem_absent p s now t k m : t <> TK -> hdr_of s t k = None -> read_elem p s now t k m = None.
Proof.
  intros Ht Hh. unfold read_elem, coll_header.
  assert (Hm : match meta_get s t k with Some x => Some (m_hdr x) | None => None end = None) by (destruct t; [congruence|auto..]).
  destruct (meta_get s t k) as [x|]; [discriminate|reflexivity].
Qed.
Lemma read_elem_live s now t k m h :
  t <> TK -> hdr_of s t k = Some h -> is_expired Compact h now = false ->
  read_elem Compact s now t k m = el_get s t k (h_ver h) (SB m).
Proof.
  intros Ht Hh He. unfold read_elem, coll_header.
  assert (Hm : match meta_get s t k with Some x => Some (m_hdr x) | None => None end = Some h) by (destruct t; [congruence|auto..]).
  destruct (meta_get s t k) as [x|]; [|discriminate]. inversion Hm; subst. now rewrite He.
Qed.
(* EXISTS / MGET over a list of keys: a key that reads as absent (never written, deleted, or expired) neither counts
   nor shows a value, wherever it stands in the argument list *)
Lemma read_exists_app p s now ks1 ks2 :
  read_exists p s now (ks1 ++ ks2) = read_exists p s now ks1 + read_exists p s now ks2.
Proof. unfold read_exists. rewrite filter_app, app_length. lia. Qed.
Lemma read_exists_one p s now k :
  read_exists p s now [k] = match read_value p s now k with Some _ => 1 | None => 0 end.
Proof. unfold read_exists. cbn. now destruct (read_value p s now k). Qed.
Lemma read_exists_skip p s now ks1 k ks2 :
  read_value p s now k = None -> read_exists p s now (ks1 ++ k :: ks2) = read_exists p s now (ks1 ++ ks2).
Proof.
  intros H. change (k :: ks2) with ([k] ++ ks2). rewrite !read_exists_app, read_exists_one, H. lia.
Qed.
Lemma read_exists_count p s now ks1 k ks2 v :
  read_value p s now k = Some v -> read_exists p s now (ks1 ++ k :: ks2) = 1 + read_exists p s now (ks1 ++ ks2).
Proof.
  intros H. change (k :: ks2) with ([k] ++ ks2). rewrite !read_exists_app, read_exists_one, H. lia.
Qed.
Lemma read_mget_nth p s now ks i k :
  nth_error ks i = Some k -> nth_error (read_mget p s now ks) i = Some (read_value p s now k).
Proof. intros H. unfold read_mget. now apply map_nth_error. Qed.
Lemma read_mget_length p s now ks : length (read_mget p s now ks) = length ks.
Proof. unfold read_mget. apply map_length. Qed.
Lemma read_absent p s now t k : hdr_of s t k = None -> read p s now t k = absent_obs.
Proof.
  unfold read, hdr_of. destruct t.
  - unfold read_kv, kv_raw. destruct (kv_get s k) as [[h' v]|]; [discriminate|reflexivity].
  - unfold read_coll, coll_header. destruct (meta_get s TH k); [discriminate|reflexivity].
  - unfold read_coll, coll_header. destruct (meta_get s TS k); [discriminate|reflexivity].
  - unfold read_coll, coll_header. destruct (meta_get s TZ k); [discriminate|reflexivity].
  - unfold read_coll, coll_header. destruct (meta_get s TL k); [discriminate|reflexivity].
Qed.

(* (2) before the expiry second the key is visible and the TTL is the number of remaining whole seconds *)
Lemma read_live s now t k h :
  hdr_of s t k = Some h -> is_expired Compact h now = false ->
  o_exists (read Compact s now t k) = true /\
  o_ttl (read Compact s now t k) = ttl_of Compact h now.
Proof.
  intros Hh He. unfold read, hdr_of in *.
  destruct t.
  - unfold read_kv, kv_raw. destruct (kv_get s k) as [[h' v]|]; [|discriminate].
    inversion Hh; subst. rewrite He. cbn. auto.
  - unfold read_coll, coll_header. destruct (meta_get s TH k) as [m|]; [|discriminate].
    inversion Hh; subst. rewrite He. cbn. auto.
  - unfold read_coll, coll_header. destruct (meta_get s TS k) as [m|]; [|discriminate].
    inversion Hh; subst. rewrite He. cbn. auto.
  - unfold read_coll, coll_header. destruct (meta_get s TZ k) as [m|]; [|discriminate].
    inversion Hh; subst. rewrite He. cbn. auto.
  - unfold read_coll, coll_header. destruct (meta_get s TL k) as [m|]; [|discriminate].
    inversion Hh; subst. rewrite He. cbn. auto.
Qed.
Lemma read_live_kv_value s now k h v :
  kv_get s k = Some (h, v) -> is_expired Compact h now = false ->
  o_items (read Compact s now TK k) = [(SB [], EB v)].
Proof. intros Hk He. unfold read, read_kv, kv_raw. rewrite Hk, He. reflexivity. Qed.
