(* Expire/ProofsClass.v — which commands keep and which clear / set the expiry. *)
From ZV Require Import Common.Bytes Common.BytesFacts Expire.Consts Expire.Model Expire.Proofs.
From ZV Require Import Expire.ProofsRel Expire.ProofsCmd Expire.ProofsTrace Expire.ProofsMore.
From Coq Require Import ZifyBool Lia.
Open Scope Z_scope.

Arguments ttl_of : simpl never.
Arguments is_expired : simpl never.
Arguments sec : simpl never.

(* ---------- which commands keep and which clear the expiry ---------- *)
(* modifying commands and their key *)
Definition modifies (c : cmd) : option (ty * bytes) :=
  match c with
  | CIncrBy k _ | CAppend k _ | CSetRange k _ _ | CSetNx k _ => Some (TK, k)
  | CHSet k _ _ _ | CHMSet k _ | CHDel k _ | CHIncrBy k _ _ => Some (TH, k)
  | CSAdd k _ | CSRem k _ | CSPop k _ => Some (TS, k)
  | CZAdd k _ | CZIncrBy k _ _ | CZRem k _ | CZRemRangeByScore k _ _ => Some (TZ, k)
  | CLPush k _ _ | CLPop k _ | CLTrim k _ _ | CLSet k _ _ => Some (TL, k)
  | CZRemRangeByRank k _ _ => Some (TZ, k)
  | _ => None
  end.

Lemma meta_get_fold_el_del {A} t k v (f : A -> skey) l : forall s t' k',
  meta_get (fold_left (fun st a => el_del st t k v (f a)) l s) t' k' = meta_get s t' k'.
Proof. induction l as [|a l IH]; intros s t' k'; simpl; auto. now rewrite IH. Qed.
Lemma meta_incr_size_hdr s t k h ud d m : meta_get (incr_size s t k h ud d) t k = Some m -> m_hdr m = h.
Proof.
  unfold incr_size. destruct (size_of ud + d <=? 0).
  - rewrite meta_get_del, (proj2 (mkey_eqb_eq (t, k) (t, k)) eq_refl). discriminate.
  - rewrite meta_get_put, (proj2 (mkey_eqb_eq (t, k) (t, k)) eq_refl). intros X; inversion X; reflexivity.
Qed.
Lemma live_header s ts t k m : meta_get s t k = Some m -> is_expired Compact (m_hdr m) ts = false ->
  coll_header Compact s ts t k = (m_hdr m, Some (m_a m, m_b m), false) /\
  coll_prepare Compact s ts t k = (m_hdr m, Some (m_a m, m_b m), false).
Proof. intros H E. unfold coll_prepare, coll_header. rewrite H, E. simpl. auto. Qed.
Lemma same_meta s t k m m' : meta_get s t k = Some m -> meta_get s t k = Some m' -> m_hdr m' = m_hdr m.
Proof. intros A B. rewrite A in B. now inversion B. Qed.
Lemma meta_put_seq k ver vs : forall seq delta s t' k',
  meta_get (fst (put_seq s k ver seq delta vs)) t' k' = meta_get s t' k'.
Proof.
  induction vs as [|v vs IH]; intros seq delta s t' k'; simpl; auto.
  destruct (el_get s TL k ver (SI seq)); auto. now rewrite IH.
Qed.
Lemma apply_fix_hdr s0 s ts k m m' : meta_get s TL k = Some m -> is_expired Compact (m_hdr m) ts = false ->
  meta_get s0 TL k = Some m ->
  meta_get (apply_fix s0 k (scanfix Compact s ts k)) TL k = Some m' -> m_hdr m' = m_hdr m.
Proof.
  intros K E K0. unfold scanfix, coll_header. rewrite K, E. cbn [not_exist_or_expired orb].
  destruct (list_meta_of (Some (m_a m, m_b m))) as [[hd tl] llen]. cbv zeta.
  destruct (negb (contig (list_seqs s k (h_ver (m_hdr m))))); [cbn [apply_fix]; now apply same_meta|].
  destruct (list_seqs s k (h_ver (m_hdr m))) as [|f r].
  - destruct ((hd =? 0) && (tl =? 0)); [cbn [apply_fix]; now apply same_meta|].
    destruct (llen =? 0); [cbn [apply_fix]; now apply same_meta|].
    cbn [apply_fix]. rewrite meta_get_del, (proj2 (mkey_eqb_eq (TL, k) (TL, k)) eq_refl). discriminate.
  - match goal with |- context [if ?c then _ else _] => destruct c end; [cbn [apply_fix]; now apply same_meta|].
    cbn [apply_fix]. rewrite meta_get_put, (proj2 (mkey_eqb_eq (TL, k) (TL, k)) eq_refl). intros X; inversion X; reflexivity.
Qed.
Lemma meta_list_set_meta s k h hd tl s' m : list_set_meta s k h hd tl = Some s' -> meta_get s' TL k = Some m -> m_hdr m = h.
Proof.
  unfold list_set_meta. destruct (tl - hd + 1 <? 0); [discriminate|]. destruct (tl - hd + 1 =? 0); intros X; inversion X; subst.
  - rewrite meta_get_del, (proj2 (mkey_eqb_eq (TL, k) (TL, k)) eq_refl). discriminate.
  - rewrite meta_get_put, (proj2 (mkey_eqb_eq (TL, k) (TL, k)) eq_refl). intros Y; inversion Y; reflexivity.
Qed.

Lemma coll_rem_hdr s ts t k ms m m' : meta_get s t k = Some m -> is_expired Compact (m_hdr m) ts = false ->
  meta_get (fst (coll_rem Compact s ts t k ms)) t k = Some m' -> m_hdr m' = m_hdr m.
Proof.
  intros H E. unfold coll_rem. destruct ms as [|x ms]; [simpl; rewrite H; intros X; now inversion X|].
  destruct (live_header s ts t k m H E) as [L _]. rewrite L. cbn [fst]. apply meta_incr_size_hdr.
Qed.
Lemma do_hset_hdr s ts k f v nx m m' : meta_get s TH k = Some m -> is_expired Compact (m_hdr m) ts = false ->
  meta_get (fst (do_hset Compact s ts k f v nx)) TH k = Some m' -> m_hdr m' = m_hdr m.
Proof.
  intros H E. unfold do_hset. destruct (live_header s ts TH k m H E) as [_ L]. rewrite L.
  destruct (el_get s TH k (h_ver (m_hdr m)) (SB f)).
  - destruct nx; cbn [fst]; [|rewrite meta_get_el_put]; rewrite H; intros X; now inversion X.
  - cbn [fst]. rewrite meta_get_el_put. apply meta_incr_size_hdr.
Qed.

Lemma hdr_match (o : option meta) h' h :
  (forall m', o = Some m' -> m_hdr m' = h) -> match o with Some m => Some (m_hdr m) | None => None end = Some h' -> h' = h.
Proof. intros H. destruct o as [m|]; [|discriminate]. intros X; inversion X; subst. now apply H. Qed.

Lemma do_hmset_hdr s ts k fvl m m' : meta_get s TH k = Some m -> is_expired Compact (m_hdr m) ts = false ->
  meta_get (fst (do_hmset Compact s ts k fvl)) TH k = Some m' -> m_hdr m' = m_hdr m.
Proof.
  intros K E. unfold do_hmset. destruct fvl as [|fv fvl]; [cbn [fst]; now apply same_meta|].
  destruct (live_header s ts TH k m K E) as [_ L]. rewrite L. cbn [fst]. apply meta_incr_size_hdr.
Qed.
Lemma do_sadd_hdr s ts k ms m m' : meta_get s TS k = Some m -> is_expired Compact (m_hdr m) ts = false ->
  meta_get (fst (do_sadd Compact s ts k ms)) TS k = Some m' -> m_hdr m' = m_hdr m.
Proof.
  intros K E. unfold do_sadd. destruct (live_header s ts TS k m K E) as [_ L]. rewrite L. cbn [fst]. apply meta_incr_size_hdr.
Qed.
Lemma meta_get_zdel_item s k v st x t' k' : meta_get (zdel_item s k v st x) t' k' = meta_get st t' k'.
Proof. unfold zdel_item. destruct (el_get s TZ k v (SB x)); reflexivity. Qed.
Lemma meta_get_fold_zdel_item {A} s k v (f : A -> bytes) l : forall st t' k',
  meta_get (fold_left (fun st0 a => zdel_item s k v st0 (f a)) l st) t' k' = meta_get st t' k'.
Proof. induction l as [|x l IH]; intros st t' k'; simpl; auto. now rewrite IH, meta_get_zdel_item. Qed.
Lemma zrem_entries_hdr s k h ud ents m' : meta_get (fst (zrem_entries s k h ud ents)) TZ k = Some m' -> m_hdr m' = h.
Proof. unfold zrem_entries. cbn [fst]. apply meta_incr_size_hdr. Qed.
Lemma do_zrem_hdr s ts k ms m m' : meta_get s TZ k = Some m -> is_expired Compact (m_hdr m) ts = false ->
  meta_get (fst (do_zrem Compact s ts k ms)) TZ k = Some m' -> m_hdr m' = m_hdr m.
Proof.
  intros K E. unfold do_zrem. destruct ms as [|x ms]; [cbn [fst]; now apply same_meta|].
  destruct (live_header s ts TZ k m K E) as [L _]. rewrite L. cbn [fst]. apply meta_incr_size_hdr.
Qed.
Lemma do_zadd_hdr s ts k sml m m' : meta_get s TZ k = Some m -> is_expired Compact (m_hdr m) ts = false ->
  meta_get (fst (do_zadd Compact s ts k sml)) TZ k = Some m' -> m_hdr m' = m_hdr m.
Proof.
  intros K E. unfold do_zadd. destruct sml as [|x sml]; [cbn [fst]; now apply same_meta|].
  destruct (live_header s ts TZ k m K E) as [_ L]. rewrite L. cbn [fst]. apply meta_incr_size_hdr.
Qed.
Lemma do_zincrby_hdr s ts k d mem m m' : meta_get s TZ k = Some m -> is_expired Compact (m_hdr m) ts = false ->
  meta_get (fst (do_zincrby Compact s ts k d mem)) TZ k = Some m' -> m_hdr m' = m_hdr m.
Proof.
  intros K E. unfold do_zincrby. destruct (live_header s ts TZ k m K E) as [_ L]. rewrite L.
  destruct (el_get s TZ k (h_ver (m_hdr m)) (SB mem)); cbn [fst]; rewrite !meta_get_el_put.
  - now apply same_meta.
  - apply meta_incr_size_hdr.
Qed.
Lemma do_zrrbs_hdr s ts k lo hi m m' : meta_get s TZ k = Some m -> is_expired Compact (m_hdr m) ts = false ->
  meta_get (fst (do_zremrangebyscore Compact s ts k lo hi)) TZ k = Some m' -> m_hdr m' = m_hdr m.
Proof.
  intros K E. unfold do_zremrangebyscore. destruct (live_header s ts TZ k m K E) as [L _]. rewrite L.
  destruct (size_of (Some (m_a m, m_b m)) =? 0); [cbn [fst]; now apply same_meta | apply zrem_entries_hdr].
Qed.
Lemma do_spop_hdr s ts k n m m' : meta_get s TS k = Some m -> is_expired Compact (m_hdr m) ts = false ->
  meta_get (fst (do_spop Compact s ts k n)) TS k = Some m' -> m_hdr m' = m_hdr m.
Proof.
  intros K E. unfold do_spop. destruct (n >? max_batch_num); [cbn [fst]; now apply same_meta|].
  destruct (n <=? 0); [cbn [fst]; now apply same_meta|].
  destruct (live_header s ts TS k m K E) as [L _]. rewrite L. cbn [not_exist_or_expired orb].
  destruct (size_of (Some (m_a m, m_b m)) =? 0); cbn [fst]; [now apply same_meta | now apply coll_rem_hdr].
Qed.
Lemma do_hincrby_hdr s ts k f d m m' : meta_get s TH k = Some m -> is_expired Compact (m_hdr m) ts = false ->
  meta_get (fst (do_hincrby Compact s ts k f d)) TH k = Some m' -> m_hdr m' = m_hdr m.
Proof.
  intros K E. unfold do_hincrby.
  destruct (match (let '(h, ud, ex) := coll_header Compact s ts TH k in
                   if not_exist_or_expired ud ex then None else el_get s TH k (h_ver h) (SB f))
            with Some e => parse_int (eval_bytes e) | None => Some 0 end) as [n|]; [|cbn [fst]; now apply same_meta].
  destruct (in_int64 (n + d)); cbn [fst]; [now apply do_hset_hdr | now apply same_meta].
Qed.
Lemma do_lpush_hdr s ts k hd vs m m' : meta_get s TL k = Some m -> is_expired Compact (m_hdr m) ts = false ->
  meta_get (fst (do_lpush Compact s ts k hd vs)) TL k = Some m' -> m_hdr m' = m_hdr m.
Proof.
  intros K E. unfold do_lpush. destruct (Z.of_nat (length vs) >? max_batch_num); [cbn [fst]; now apply same_meta|].
  destruct (live_header s ts TL k m K E) as [_ L]. rewrite L.
  destruct (list_meta_of (Some (m_a m, m_b m))) as [[hd0 tl0] size].
  destruct vs as [|v vs]; [cbn [fst]; now apply same_meta|].
  match goal with |- context [if ?c then _ else _] => destruct c end; [cbn [fst]; now apply same_meta|].
  match goal with |- context [put_seq ?a ?b ?c ?d ?e ?f] => pose proof (meta_put_seq b c f d e a TL k) as MP; destruct (put_seq a b c d e f) as [s1 ok] end.
  cbn [fst] in MP. destruct ok.
  - match goal with |- context [list_set_meta ?a ?b ?c ?d ?e] => destruct (list_set_meta a b c d e) as [s2|] eqn:LS end;
      [|cbn [fst]; now apply same_meta].
    cbn [fst]. intros K'. eapply meta_list_set_meta; eauto.
  - cbn [fst]. apply (apply_fix_hdr s1 s ts k m m'); auto. now rewrite MP.
Qed.
Lemma do_lpop_hdr s ts k hd m m' : meta_get s TL k = Some m -> is_expired Compact (m_hdr m) ts = false ->
  meta_get (fst (do_lpop Compact s ts k hd)) TL k = Some m' -> m_hdr m' = m_hdr m.
Proof.
  intros K E. unfold do_lpop. destruct (live_header s ts TL k m K E) as [L _]. rewrite L. cbn [not_exist_or_expired orb].
  destruct (list_meta_of (Some (m_a m, m_b m))) as [[hd0 tl0] size].
  destruct (size =? 0); [cbn [fst]; now apply same_meta|].
  destruct (el_get s TL k (h_ver (m_hdr m)) (SI (if hd then hd0 else tl0))).
  - match goal with |- context [list_set_meta ?a ?b ?c ?d ?e] => destruct (list_set_meta a b c d e) as [s2|] eqn:LS end;
      [|cbn [fst]; now apply same_meta].
    cbn [fst]. intros K'. eapply meta_list_set_meta; eauto.
  - cbn [fst]. now apply (apply_fix_hdr s s ts k m m').
Qed.

Lemma meta_get_fold_el_del_z t k v (l : list Z) s t' k' :
  meta_get (fold_left (fun st i => el_del st t k v (SI i)) l s) t' k' = meta_get s t' k'.
Proof. apply (meta_get_fold_el_del t k v (fun i : Z => SI i)). Qed.
Lemma meta_get_fold_el_del_z2 t k v (l : list Z) s t' k' :
  meta_get (fold_left (fun st i => el_del st t k v (SI i)) l s) t' k' = meta_get s t' k'.
Proof. apply (meta_get_fold_el_del t k v (fun i : Z => SI i)). Qed.
Lemma ldelete_meta s ts k h ud : meta_get (ldelete Compact s ts k h ud) TL k = None.
Proof.
  unfold ldelete. destruct (h_ver h <? ts).
  - now rewrite meta_get_del, (proj2 (mkey_eqb_eq (TL, k) (TL, k)) eq_refl).
  - destruct (list_meta_of ud) as [[hd tl] n]. rewrite meta_get_fold_el_del_z2.
    now rewrite meta_get_del, (proj2 (mkey_eqb_eq (TL, k) (TL, k)) eq_refl).
Qed.
Lemma zrem_all_hdr s ts k h ud m' : meta_get (fst (zrem_all Compact s ts k h ud)) TZ k = Some m' -> m_hdr m' = h.
Proof.
  unfold zrem_all. destruct (h_ver h <? ts).
  - cbn [fst]. rewrite meta_get_del, (proj2 (mkey_eqb_eq (TZ, k) (TZ, k)) eq_refl). discriminate.
  - pose proof (zrem_entries_hdr s k h ud (zidx s k (h_ver h)) m') as X.
    destruct (zrem_entries s k h ud (zidx s k (h_ver h))) as [s1 r]. cbn [fst] in X. destruct r; cbn [fst]; exact X.
Qed.
Lemma do_ltrim_hdr s ts k a b m m' : meta_get s TL k = Some m -> is_expired Compact (m_hdr m) ts = false ->
  meta_get (fst (do_ltrim Compact s ts k a b)) TL k = Some m' -> m_hdr m' = m_hdr m.
Proof.
  intros K E. unfold do_ltrim. destruct (live_header s ts TL k m K E) as [L _]. rewrite L. cbn [not_exist_or_expired orb].
  destruct (list_meta_of (Some (m_a m, m_b m))) as [[hd tl] llen]. cbv zeta.
  match goal with |- context [if ?c then _ else _] => destruct c end.
  - cbn [fst]. destruct (llen =? 0); [now apply same_meta|]. rewrite ldelete_meta. discriminate.
  - match goal with |- context [list_set_meta ?x ?y ?z ?u ?w] => destruct (list_set_meta x y z u w) as [s2|] eqn:LS end;
      [|cbn [fst]; now apply same_meta].
    cbn [fst]. intros K'. eapply meta_list_set_meta; eauto.
Qed.
Lemma do_lset_hdr s ts k i v m m' : meta_get s TL k = Some m -> is_expired Compact (m_hdr m) ts = false ->
  meta_get (fst (do_lset Compact s ts k i v)) TL k = Some m' -> m_hdr m' = m_hdr m.
Proof.
  intros K E. unfold do_lset. destruct (live_header s ts TL k m K E) as [L _]. rewrite L. cbn [not_exist_or_expired orb].
  destruct (list_meta_of (Some (m_a m, m_b m))) as [[hd tl] size]. cbv zeta.
  destruct (size =? 0); [cbn [fst]; now apply same_meta|].
  match goal with |- context [if ?c then _ else _] => destruct c end; [cbn [fst]; now apply same_meta|].
  destruct (list_set_meta s k (m_hdr m) hd tl) as [s1|] eqn:LS; [|cbn [fst]; now apply same_meta].
  cbn [fst]. rewrite meta_get_el_put. intros K'. eapply meta_list_set_meta; eauto.
Qed.
Lemma do_zrrbr_hdr s ts k a b m m' : meta_get s TZ k = Some m -> is_expired Compact (m_hdr m) ts = false ->
  meta_get (fst (do_zremrangebyrank Compact s ts k a b)) TZ k = Some m' -> m_hdr m' = m_hdr m.
Proof.
  intros K E. unfold do_zremrangebyrank. destruct (live_header s ts TZ k m K E) as [L _]. rewrite L. cbv zeta.
  destruct (size_of (Some (m_a m, m_b m)) =? 0); [cbn [fst]; now apply same_meta|].
  match goal with |- context [if ?c then _ else _] => destruct c end.
  { cbn [not_exist_or_expired orb]. pose proof (zrem_all_hdr s ts k (m_hdr m) (Some (m_a m, m_b m)) m') as X.
    destruct (zrem_all Compact s ts k (m_hdr m) (Some (m_a m, m_b m))) as [s1 n]. cbn [fst] in *. exact X. }
  match goal with |- context [if ?c then _ else _] => destruct c end; [cbn [fst]; now apply same_meta|].
  match goal with |- context [if ?c then _ else _] => destruct c end; [cbn [fst]; apply meta_incr_size_hdr | apply zrem_entries_hdr].
Qed.

(* (a) a modifying command on a live key keeps its header: the expiry and the generation *)
Theorem modify_keeps_header s ts c t k h h' :
  modifies c = Some (t, k) -> hdr_of s t k = Some h -> is_expired Compact h ts = false ->
  hdr_of (fst (step Compact s ts c)) t k = Some h' -> h' = h.
Proof.
  intros M H E. destruct c; try discriminate; cbn [modifies] in M; inversion M; subst; cbn [step];
    unfold hdr_of in *;
    try (destruct (meta_get s _ k) as [m0|] eqn:K; [|discriminate]; inversion H; subst; apply hdr_match; intros m' K').
  - (* setnx *)
    destruct (kv_get s k) as [[h0 v0]|] eqn:K; [|discriminate]. inversion H; subst.
    unfold do_setnx, kv_prepare, kv_raw. rewrite K, E. cbn. rewrite K. intros X; now inversion X.
  - (* incrby *)
    destruct (kv_get s k) as [[h0 v0]|] eqn:K; [|discriminate]. inversion H; subst.
    unfold do_incrby, kv_prepare, kv_raw. rewrite K, E. cbn [kv_cur].
    destruct (parse_int v0) as [n|]; [|cbn; rewrite K; intros X; now inversion X].
    destruct (in_int64 (n + d)); cbn [fst]; [rewrite kv_get_put, bytes_eqb_refl | rewrite K]; intros X; now inversion X.
  - (* append *)
    destruct (kv_get s k) as [[h0 v0]|] eqn:K; [|discriminate]. inversion H; subst.
    unfold do_append, kv_prepare, kv_raw. rewrite K, E. cbn [kv_cur].
    destruct v as [|b v]; [cbn; rewrite K; intros X; now inversion X|].
    destruct (Z.of_nat (length v0 + length (b :: v)) >? max_value_size); cbn [fst];
      [rewrite K | rewrite kv_get_put, bytes_eqb_refl]; intros X; now inversion X.
  - (* setrange *)
    destruct (kv_get s k) as [[h0 v0]|] eqn:K; [|discriminate]. inversion H; subst.
    unfold do_setrange. destruct v as [|b v].
    + unfold kv_raw. rewrite K, E. cbn. rewrite K. intros X; now inversion X.
    + destruct ((Z.of_nat (length (b :: v)) + off >? max_value_size) || (off <? 0)); [cbn; rewrite K; intros X; now inversion X|].
      unfold kv_prepare, kv_raw. rewrite K, E. cbn [fst kv_cur]. rewrite kv_get_put, bytes_eqb_refl. intros X; now inversion X.
  - eapply do_hset_hdr; eauto.
  - eapply do_hmset_hdr; eauto.
  - eapply coll_rem_hdr; eauto.
  - eapply do_hincrby_hdr; eauto.
  - eapply do_sadd_hdr; eauto.
  - eapply coll_rem_hdr; eauto.
  - eapply do_spop_hdr; eauto.
  - eapply do_zadd_hdr; eauto.
  - eapply do_zincrby_hdr; eauto.
  - eapply do_zrem_hdr; eauto.
  - eapply do_zrrbs_hdr; eauto.
  - eapply do_lpush_hdr; eauto.
  - eapply do_lpop_hdr; eauto.
  - eapply do_ltrim_hdr; eauto.
  - eapply do_lset_hdr; eauto.
  - eapply do_zrrbr_hdr; eauto.
Qed.

(* (b) overwriting the whole value clears the expiry (fresh header: no expiry) *)
Lemma kv_reset0 s ts k v : kv_reset Compact s ts k v 0 = Some (kv_put s k fresh_hdr v).
Proof. reflexivity. Qed.
Theorem set_clears_expiry s ts k v : kv_get (fst (step Compact s ts (CSet k v))) k = Some (fresh_hdr, v).
Proof. cbn [step]. unfold do_set. rewrite kv_reset0. cbn [fst]. now rewrite kv_get_put, bytes_eqb_refl. Qed.
Theorem getset_clears_expiry s ts k v : kv_get (fst (step Compact s ts (CGetSet k v))) k = Some (fresh_hdr, v).
Proof.
  cbn [step]. unfold do_getset. destruct (kv_raw Compact s ts k) as [[h ov] ex]. rewrite kv_reset0. cbn [fst].
  now rewrite kv_get_put, bytes_eqb_refl.
Qed.
Theorem setnx_success_clears_expiry s ts k v :
  snd (step Compact s ts (CSetNx k v)) = RInt 1 -> kv_get (fst (step Compact s ts (CSetNx k v))) k = Some (fresh_hdr, v).
Proof.
  cbn [step]. unfold do_setnx. destruct (kv_prepare Compact s ts k) as [[h ov] ex].
  destruct (kv_cur ov ex); [cbn; discriminate|]. rewrite kv_reset0. cbn [fst snd]. intros _. now rewrite kv_get_put, bytes_eqb_refl.
Qed.
Lemma do_mset_cons s ts a b r : do_mset Compact s ts ((a, b) :: r) = do_mset Compact (kv_put s a fresh_hdr b) ts r.
Proof. reflexivity. Qed.
Lemma do_mset_keep ts kvl : forall s k v, kv_get s k = Some (fresh_hdr, v) ->
  exists v', kv_get (do_mset Compact s ts kvl) k = Some (fresh_hdr, v').
Proof.
  induction kvl as [|[a b] kvl IH]; intros s k v H; [simpl; eauto|].
  rewrite do_mset_cons. destruct (bytes_eqb k a) eqn:E.
  - apply (IH _ k b). now rewrite kv_get_put, E.
  - apply (IH _ k v). now rewrite kv_get_put, E.
Qed.
Theorem mset_clears_expiry s ts kvl k : In k (map fst kvl) ->
  exists v, kv_get (fst (step Compact s ts (CMSet kvl))) k = Some (fresh_hdr, v).
Proof.
  intros H. cbn [step]. destruct kvl as [|p kvl]; [contradiction|]. cbn [fst]. revert s H.
  generalize (p :: kvl). clear p kvl. intros kvl. induction kvl as [|[a b] kvl IH]; intros s H; [contradiction|].
  rewrite do_mset_cons. simpl in H. destruct H as [<- | H].
  - apply (do_mset_keep ts kvl _ a b). now rewrite kv_get_put, bytes_eqb_refl.
  - now apply IH.
Qed.

(* (c) SETEX / EXPIRE set the expiry second to floor(ts / 1e9) + duration, PERSIST clears it; the generation is kept *)
Lemma set_expire_in_range h w : 0 <= w < max_u32 - 1 -> set_expire h w = Some (mkH w (h_ver h)).
Proof.
  intros H. unfold set_expire. destruct (w >=? max_u32 - 1) eqn:E; [lia|].
  rewrite Z.mod_small by (unfold max_u32 in *; lia). reflexivity.
Qed.
Lemma expire_when_pos ts d : 0 < d + sec ts < max_u32 - 1 -> expire_when ts d = Some (d + sec ts).
Proof.
  intros H. unfold expire_when, max_u32 in *.
  destruct ((d >? 0) && (sec ts >? 9223372036854775807 - d)) eqn:E; [lia|].
  destruct (sec ts + d <=? 0) eqn:F; [lia|]. f_equal. lia.
Qed.
Theorem setex_sets_expiry s ts k d v : 0 < d -> 0 < d + sec ts < max_u32 - 1 ->
  kv_get (fst (step Compact s ts (CSetEx k d v))) k = Some (mkH (d + sec ts) 0, v).
Proof.
  intros Hd Hr. cbn [step]. unfold do_setex. destruct (d <=? 0) eqn:E; [lia|].
  unfold kv_reset. rewrite E, (expire_when_pos ts d Hr), (set_expire_in_range fresh_hdr (d + sec ts)) by lia. cbn [fst].
  now rewrite kv_get_put, bytes_eqb_refl.
Qed.
Theorem expire_sets_expiry s ts t k d h : hdr_of s t k = Some h -> is_expired Compact h ts = false ->
  0 < d + sec ts < max_u32 - 1 ->
  hdr_of (fst (step Compact s ts (CExpire t k d))) t k = Some (mkH (d + sec ts) (h_ver h)) /\
  snd (step Compact s ts (CExpire t k d)) = RInt 1.
Proof.
  intros H E Hr. assert (Hr' : 0 <= d + sec ts < max_u32 - 1) by lia.
  cbn [step]. unfold do_expire, hdr_of in *. rewrite (expire_when_pos ts d Hr). destruct t.
  - destruct (kv_get s k) as [[h0 v0]|] eqn:K; [|discriminate]. inversion H; subst.
    unfold kv_set_expire, kv_raw. rewrite K, E. rewrite (set_expire_in_range h _ Hr'). cbn [fst snd].
    now rewrite kv_get_put, bytes_eqb_refl.
  - destruct (meta_get s TH k) as [m|] eqn:K; [|discriminate]. inversion H; subst.
    unfold coll_set_expire. destruct (live_header s ts TH k m K E) as [L _]. rewrite L, (set_expire_in_range _ _ Hr'). cbn [fst snd].
    now rewrite meta_get_put, (proj2 (mkey_eqb_eq (TH, k) (TH, k)) eq_refl).
  - destruct (meta_get s TS k) as [m|] eqn:K; [|discriminate]. inversion H; subst.
    unfold coll_set_expire. destruct (live_header s ts TS k m K E) as [L _]. rewrite L, (set_expire_in_range _ _ Hr'). cbn [fst snd].
    now rewrite meta_get_put, (proj2 (mkey_eqb_eq (TS, k) (TS, k)) eq_refl).
  - destruct (meta_get s TZ k) as [m|] eqn:K; [|discriminate]. inversion H; subst.
    unfold coll_set_expire. destruct (live_header s ts TZ k m K E) as [L _]. rewrite L, (set_expire_in_range _ _ Hr'). cbn [fst snd].
    now rewrite meta_get_put, (proj2 (mkey_eqb_eq (TZ, k) (TZ, k)) eq_refl).
  - destruct (meta_get s TL k) as [m|] eqn:K; [|discriminate]. inversion H; subst.
    unfold coll_set_expire. destruct (live_header s ts TL k m K E) as [L _]. rewrite L, (set_expire_in_range _ _ Hr'). cbn [fst snd].
    now rewrite meta_get_put, (proj2 (mkey_eqb_eq (TL, k) (TL, k)) eq_refl).
Qed.
(* a duration that ends at or before the epoch expires the key at once (second 1) instead of wrapping into the future *)
Theorem expire_in_the_past_is_immediate ts d : sec ts + d <= 0 -> d <= 0 -> expire_when ts d = Some 1.
Proof.
  intros H Hd. unfold expire_when. destruct ((d >? 0) && _) eqn:E; [lia|]. destruct (sec ts + d <=? 0) eqn:F; [reflexivity | lia].
Qed.
Theorem persist_clears_expiry s ts t k h : hdr_of s t k = Some h -> is_expired Compact h ts = false ->
  hdr_of (fst (step Compact s ts (CPersist t k))) t k = Some (mkH 0 (h_ver h)) /\
  snd (step Compact s ts (CPersist t k)) = RInt 1.
Proof.
  intros H E. assert (Hr : 0 <= 0 < max_u32 - 1) by (unfold max_u32; lia).
  cbn [step]. unfold do_persist, hdr_of in *. destruct t.
  - destruct (kv_get s k) as [[h0 v0]|] eqn:K; [|discriminate]. inversion H; subst.
    unfold kv_set_expire, kv_raw. rewrite K, E. rewrite (set_expire_in_range h _ Hr). cbn [fst snd].
    now rewrite kv_get_put, bytes_eqb_refl.
  - destruct (meta_get s TH k) as [m|] eqn:K; [|discriminate]. inversion H; subst.
    unfold coll_set_expire. destruct (live_header s ts TH k m K E) as [L _]. rewrite L, (set_expire_in_range _ _ Hr). cbn [fst snd].
    now rewrite meta_get_put, (proj2 (mkey_eqb_eq (TH, k) (TH, k)) eq_refl).
  - destruct (meta_get s TS k) as [m|] eqn:K; [|discriminate]. inversion H; subst.
    unfold coll_set_expire. destruct (live_header s ts TS k m K E) as [L _]. rewrite L, (set_expire_in_range _ _ Hr). cbn [fst snd].
    now rewrite meta_get_put, (proj2 (mkey_eqb_eq (TS, k) (TS, k)) eq_refl).
  - destruct (meta_get s TZ k) as [m|] eqn:K; [|discriminate]. inversion H; subst.
    unfold coll_set_expire. destruct (live_header s ts TZ k m K E) as [L _]. rewrite L, (set_expire_in_range _ _ Hr). cbn [fst snd].
    now rewrite meta_get_put, (proj2 (mkey_eqb_eq (TZ, k) (TZ, k)) eq_refl).
  - destruct (meta_get s TL k) as [m|] eqn:K; [|discriminate]. inversion H; subst.
    unfold coll_set_expire. destruct (live_header s ts TL k m K E) as [L _]. rewrite L, (set_expire_in_range _ _ Hr). cbn [fst snd].
    now rewrite meta_get_put, (proj2 (mkey_eqb_eq (TL, k) (TL, k)) eq_refl).
Qed.
