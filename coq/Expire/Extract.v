(* Expire/Extract.v — extraction of the C10 model (ExtrOcamlBasic only) *)
From Coq Require Import ExtrOcamlBasic.
From Coq Require Import ZArith NArith.
From ZV Require Import Expire.Consts Expire.Model.
Extraction Language OCaml.
Extraction "model.ml" Z.of_N N.of_nat Nat.add Z.to_N Z.of_nat Z.mul Z.add Z.sub Z.eqb Z.quot
  ns_per_sec list_initial_seq sec step read empty_store flagged compact local_tick
  kv_raw coll_header ttl_of is_expired removable not_exist_or_expired due format_int lazy_expired read_elem read_value read_exists read_mget.
