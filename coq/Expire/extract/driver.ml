(* driver for the C10 model: reads case lines on stdin, prints "<id>\t<model output>" *)
open Model
open Vio

let zi = z_of_int
let iz = int_of_z
let zsub a b = Z.sub a b
let hexb = hex_of_bytes
let str_of_bytes (b : n list) : string = String.concat "" (List.map (fun x -> String.make 1 (Char.chr (int_of_n x))) b)
let int_of_arg (h : string) : int = int_of_string (str_of_bytes (bytes_of_hex h))
let zarg h = zi (int_of_arg h)

let ty_of = function "k" -> TK | "h" -> TH | "s" -> TS | "z" -> TZ | "l" -> TL | s -> failwith ("type " ^ s)
let ty_s = function TK -> "k" | TH -> "h" | TS -> "s" | TZ -> "z" | TL -> "l"

let policy = ref Compact
let now0 = ref 0
let st = ref empty_store

let exp_rel (e : z) = let e = iz e in if e = 0 then "0" else "e" ^ string_of_int (e - !now0)
let ver_rel (v : z) = let v = iz v in if v = 0 then "0" else "v" ^ string_of_int (v - !now0 * 1000000000)
let ver_abs (s : string) : z = if s = "0" then zi 0 else zi (int_of_string (String.sub s 1 (String.length s - 1)) + !now0 * 1000000000)
let init_seq = iz list_initial_seq
let sub_s = function SB b -> "b" ^ hexb b | SI i -> "i" ^ string_of_int (iz i - init_seq)
  | SS (sc, m) -> "s" ^ string_of_int (iz sc) ^ ":" ^ hexb m
let sub_p (s : string) : skey =
  let r = String.sub s 1 (String.length s - 1) in
  if s.[0] = 'b' then SB (bytes_of_hex r)
  else if s.[0] = 's' then (match split_on ':' r with [sc; m] -> SS (zi (int_of_string sc), bytes_of_hex m) | _ -> failwith ("sub " ^ s))
  else SI (zi (int_of_string r + init_seq))
let val_s = function EB b -> "b" ^ hexb b | EI i -> "i" ^ string_of_int (iz i)

let dec_z (z : z) : string = str_of_bytes (format_int z)
let reply_s = function
  | RNil -> "_" | RInt z -> ":" ^ dec_z z | RBulk b -> "$" ^ hexb b
  | RArr l -> String.concat " " (("*" ^ string_of_int (List.length l)) :: List.map (fun b -> "$" ^ hexb b) l)
  | RErr -> "-err" | RUnmodelled -> "?unmodelled"

let rec pairs = function a :: b :: r -> (a, b) :: pairs r | _ -> []

let parse_cmd (name : string) (a : string list) : cmd =
  let b = bytes_of_hex in
  match name, a with
  | "set", [k; v] -> CSet (b k, b v)
  | "set", k :: v :: opts ->
    (* getExNxXXArgs *)
    let rec go l ttl nx xx = match l with
      | [] -> CSetOpt (b k, b v, zi ttl, nx, xx)
      | o :: r ->
        let o = String.lowercase_ascii (str_of_bytes (bytes_of_hex o)) in
        if o = "nx" then (if nx || xx then failwith "argerr" else go r ttl true xx)
        else if o = "xx" then (if nx || xx then failwith "argerr" else go r ttl nx true)
        else if o = "ex" then (match r with
            | d :: r2 -> let dv = (try int_of_arg d with _ -> failwith "argerr") in
              if dv <= 0 then failwith "argerr" else go r2 dv nx xx
            | [] -> failwith "argerr")
        else failwith "argerr" in
    go opts 0 false false
  | "setifeq", [k; o; v] -> CSetIfEq (b k, b o, b v, zi 0)
  | "setifeq", [k; o; v; _; d] -> CSetIfEq (b k, b o, b v, zarg d)
  | "delifeq", [k; o] -> CDelIfEq (b k, b o)
  | "ltrim", [k; x; y] -> CLTrim (b k, zarg x, zarg y)
  | "lset", [k; i; v] -> CLSet (b k, zarg i, b v)
  | "zremrangebyrank", [k; x; y] -> CZRemRangeByRank (b k, zarg x, zarg y)
  | "setex", [k; d; v] -> CSetEx (b k, zarg d, b v)
  | "setnx", [k; v] -> CSetNx (b k, b v)
  | "getset", [k; v] -> CGetSet (b k, b v)
  | "mset", l -> CMSet (List.map (fun (k, v) -> (b k, b v)) (pairs l))
  | "incr", [k] -> CIncrBy (b k, zi 1)
  | "incrby", [k; d] -> CIncrBy (b k, zarg d)
  | "append", [k; v] -> CAppend (b k, b v)
  | "setrange", [k; o; v] -> CSetRange (b k, zarg o, b v)
  | "del", l -> CDel (List.map b l)
  | "expire", [k; d] -> CExpire (TK, b k, zarg d)
  | "hexpire", [k; d] -> CExpire (TH, b k, zarg d)
  | "sexpire", [k; d] -> CExpire (TS, b k, zarg d)
  | "zexpire", [k; d] -> CExpire (TZ, b k, zarg d)
  | "lexpire", [k; d] -> CExpire (TL, b k, zarg d)
  | "persist", [k] -> CPersist (TK, b k)
  | "hpersist", [k] -> CPersist (TH, b k)
  | "spersist", [k] -> CPersist (TS, b k)
  | "zpersist", [k] -> CPersist (TZ, b k)
  | "lpersist", [k] -> CPersist (TL, b k)
  | "hclear", [k] -> CClear (TH, b k)
  | "sclear", [k] -> CClear (TS, b k)
  | "zclear", [k] -> CClear (TZ, b k)
  | "lclear", [k] -> CClear (TL, b k)
  | "hset", [k; f; v] -> CHSet (b k, b f, b v, false)
  | "hsetnx", [k; f; v] -> CHSet (b k, b f, b v, true)
  | "hmset", k :: l -> CHMSet (b k, List.map (fun (f, v) -> (b f, b v)) (pairs l))
  | "hdel", k :: l -> CHDel (b k, List.map b l)
  | "hincrby", [k; f; d] -> CHIncrBy (b k, b f, zarg d)
  | "sadd", k :: l -> CSAdd (b k, List.map b l)
  | "srem", k :: l -> CSRem (b k, List.map b l)
  | "spop", [k; n] -> CSPop (b k, zarg n)
  | "zadd", k :: l -> CZAdd (b k, List.map (fun (s, m) -> (zarg s, b m)) (pairs l))
  | "zincrby", [k; d; m] -> CZIncrBy (b k, zarg d, b m)
  | "zrem", k :: l -> CZRem (b k, List.map b l)
  | "zremrangebyscore", [k; lo; hi] -> CZRemRangeByScore (b k, zarg lo, zarg hi)
  | "lpush", k :: l -> CLPush (b k, true, List.map b l)
  | "rpush", k :: l -> CLPush (b k, false, List.map b l)
  | "lpop", [k] -> CLPop (b k, true)
  | "rpop", [k] -> CLPop (b k, false)
  | _ -> failwith ("cmd " ^ name)

let ttl_rel (t : z) (now : z) : string =
  let t = iz t in if t < 0 then "-1" else string_of_int (t + iz (sec now) - !now0)

let obs_s (t : ty) (o : obs) (now : z) : string =
  let items = List.map (fun (sb, v) ->
      match t with
      | TK -> (match v with EB b -> hexb b | _ -> "?")
      | TH -> (match sb, v with SB f, EB x -> hexb f ^ ":" ^ hexb x | _ -> "?")
      | TS -> (match sb with SB m -> hexb m | _ -> "?")
      | TZ -> (match sb, v with SB m, EI i -> hexb m ^ ":" ^ string_of_int (iz i) | _ -> "?")
      | TL -> (match v with EB x -> hexb x | _ -> "?")) o.o_items in
  Printf.sprintf "ex=%d ttl=%s len=%d items=%s" (if o.o_exists then 1 else 0) (ttl_rel o.o_ttl now) (iz o.o_len) (String.concat "," items)

let item_s = function
  | IKV k -> "K/" ^ hexb k
  | IMeta (t, k) -> "M/" ^ ty_s t ^ "/" ^ hexb k
  | IElem (t, k, v, sb) -> "E/" ^ ty_s t ^ "/" ^ hexb k ^ "/" ^ ver_rel v ^ "/" ^ sub_s sb
let item_p (s : string) : item =
  match split_on '/' s with
  | ["K"; k] -> IKV (bytes_of_hex k)
  | ["M"; t; k] -> IMeta (ty_of t, bytes_of_hex k)
  | ["E"; t; k; v; sb] -> IElem (ty_of t, bytes_of_hex k, ver_abs v, sub_p sb)
  | _ -> failwith ("item " ^ s)

let dump () : string =
  let s = !st in
  let l1 = List.map (fun (k, (h, v)) -> Printf.sprintf "K/%s/%s/%s/%s" (hexb k) (exp_rel h.h_exp) (ver_rel h.h_ver) (hexb v)) s.kvs in
  let l2 = List.map (fun ((t, k), m) ->
      let a, b = if t = TL then iz m.m_a - init_seq, iz m.m_b - init_seq else iz m.m_a, 0 in
      Printf.sprintf "M/%s/%s/%s/%s/%d/%d" (ty_s t) (hexb k) (exp_rel m.m_hdr.h_exp) (ver_rel m.m_hdr.h_ver) a b) s.metas in
  let l3 = List.map (fun ((((t, k), v), sb), x) ->
      Printf.sprintf "E/%s/%s/%s/%s/%s" (ty_s t) (hexb k) (ver_rel v) (sub_s sb) (val_s x)) s.elems in
  let l4 = List.map (fun ((((w, t), k)), ()) -> Printf.sprintf "T/%d/%s/%s" (iz w - !now0) (ty_s t) (hexb k)) s.tidx in
  String.concat ";" (List.sort compare (l1 @ l2 @ l3 @ l4))

let () =
  read_lines stdin (fun line ->
    match split_on '\t' line with
    | id :: "NEW" :: pol :: n0 :: _ ->
      policy := (if pol = "local" then Local else Compact);
      now0 := int_of_string n0; st := empty_store;
      Printf.printf "%s\tok\n" id
    | id :: "W" :: ts :: now :: name :: args ->
      let out = (try
          let c = parse_cmd name args in
          let (s', r) = step !policy !st (zi (int_of_string ts)) c in
          st := s'; reply_s r
        with Failure "argerr" -> "-err" | Failure m -> "?driver:" ^ m) in
      Printf.printf "%s\t%s\n" id out
    | id :: "O" :: now :: t :: k :: _ ->
      let now = zi (int_of_string now) and t = ty_of t in
      Printf.printf "%s\t%s\n" id (obs_s t (read !policy !st now t (bytes_of_hex k)) now)
    | id :: "A" :: tn :: t :: k :: _ ->
      let tn = zi (int_of_string tn) and t = ty_of t and k = bytes_of_hex k in
      let (stored, ex, ttl) =
        (match t with
         | TK -> let ((h, ov), ex) = kv_raw !policy !st tn k in
                 (ov <> None, ex, (match ov with None -> zi (-1) | Some _ -> ttl_of !policy h tn))
         | _ -> let ((h, ud), ex) = coll_header !policy !st tn t k in
                (ud <> None, ex, (match ud with None -> zi (-1) | Some _ -> ttl_of !policy h tn))) in
      Printf.printf "%s\tst=%d ex=%d ttl=%s\n" id (if stored then 1 else 0) (if ex then 1 else 0) (ttl_rel ttl tn)
    | id :: "Q" :: now :: keys :: mems :: _ ->
      (* multi-key / multi-member reads *)
      let now = zi (int_of_string now) in
      let ks = List.map bytes_of_hex (split_on ',' keys) and ms = List.map bytes_of_hex (split_on ',' mems) in
      let ov = function None -> "~" | Some b -> hexb b in
      let ex = dec_z (read_exists !policy !st now ks) in
      let mg = String.concat "," (List.map ov (read_mget !policy !st now ks)) in
      let per t f = String.concat "|" (List.map (fun k -> String.concat "," (List.map (fun m -> f (read_elem !policy !st now t k m)) ms)) ks) in
      let hm = per TH (function Some (EB b) -> hexb b | Some _ -> "?" | None -> "~") in
      let si = per TS (function Some _ -> "1" | None -> "0") in
      let zs = per TZ (function Some (EI i) -> string_of_int (iz i) | Some _ -> "?" | None -> "~") in
      Printf.printf "%s\texists=%s mget=%s hmget=%s sismember=%s zscore=%s\n" id ex mg hm si zs
    | id :: "X" :: _ -> Printf.printf "%s\t%s\n" id (dump ())
    | id :: "C" :: csec :: rest ->
      let csec = zi (int_of_string csec) in
      let chosen = (match rest with [] | [""] -> [] | c :: _ -> List.map item_p (split_on ';' c)) in
      let fl = List.sort compare (List.map item_s (flagged !st csec)) in
      st := compact !st csec chosen;
      Printf.printf "%s\t%s\n" id (String.concat ";" fl)
    | id :: "F" :: csec :: deltas :: _ ->
      (* compaction-filter probes: lazy_expired on headers whose ExpireAt is csec + delta *)
      let c = int_of_string csec in
      let bits = List.map (fun d ->
          let h = { h_exp = zi (c + int_of_string d); h_ver = zi 7 } in
          let b = if lazy_expired h (zi c) then "1" else "0" in b ^ b) (split_on ',' deltas) in
      Printf.printf "%s\t%s\n" id (String.concat "" bits)
    | id :: "K" :: csec :: rest ->
      (* a real engine compaction: whatever disappeared must be allowed by the filter predicate *)
      let csec = zi (int_of_string csec) in
      let removed = (match rest with [] | [""] -> [] | c :: _ -> List.map item_p (split_on ';' c)) in
      let bad = List.filter (fun it -> not (removable !st csec it)) removed in
      st := compact !st csec removed;
      Printf.printf "%s\t%s\n" id (if bad = [] then "ok" else "illegal:" ^ String.concat ";" (List.map item_s bad))
    | id :: "L" :: scan :: _ ->
      let scan = zi (int_of_string scan) in
      let n = List.length (List.filter (due scan) !st.tidx) in
      st := local_tick !st scan;
      Printf.printf "%s\tn=%d\n" id n
    | _ -> ())
