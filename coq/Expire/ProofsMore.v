(* Expire/ProofsMore.v — no resurrection of earlier generations; refutations of the unrestricted statements (DEL, equal timestamps). *)
From ZV Require Import Common.Bytes Common.BytesFacts Expire.Consts Expire.Model Expire.Proofs.
From ZV Require Import Expire.ProofsRel Expire.ProofsCmd Expire.ProofsTrace.
From Coq Require Import ZifyBool Lia.
Open Scope Z_scope.

Arguments ttl_of : simpl never.
Arguments is_expired : simpl never.
Arguments sec : simpl never.

(* ---------- no resurrection: a re-created collection holds only what the creating command wrote ---------- *)
Definition fresh_gen (s : store) (t : ty) (k : bytes) (v : Z) : Prop := forall sb, el_get s t k v sb = None.

(* the creating commands: their key and the element keys they write *)
Definition creates (c : cmd) : option (ty * bytes * list skey) :=
  match c with
  | CHSet k f _ _ => Some (TH, k, [SB f])
  | CHMSet k fvl => Some (TH, k, map (fun fv => SB (fst fv)) fvl)
  | CHIncrBy k f _ => Some (TH, k, [SB f])
  | CSAdd k ms => Some (TS, k, map SB ms)
  | CZAdd k sml => Some (TZ, k, map (fun x => SB (snd x)) sml ++ map (fun x => SS (fst x) (snd x)) sml)
  | CZIncrBy k d m => Some (TZ, k, [SB m; SS d m])
  | _ => None
  end.

Lemma el_get_incr_size s t k h ud d t' k' v' sb' : el_get (incr_size s t k h ud d) t' k' v' sb' = el_get s t' k' v' sb'.
Proof. unfold incr_size. destruct (size_of ud + d <=? 0); reflexivity. Qed.
Lemma meta_get_fold_el_put {A} t k v (f : A -> skey) (fx : A -> eval) l : forall s t' k',
  meta_get (fold_left (fun st a => el_put st t k v (f a) (fx a)) l s) t' k' = meta_get s t' k'.
Proof. induction l as [|a l IH]; intros s t' k'; simpl; auto. now rewrite IH. Qed.
Lemma el_get_fold_put_inv {A} t k v (f : A -> skey) (fx : A -> eval) l : forall s t' k' v' sb' x,
  el_get (fold_left (fun st a => el_put st t k v (f a) (fx a)) l s) t' k' v' sb' = Some x ->
  ((t', k', v') = (t, k, v) /\ In sb' (map f l)) \/ el_get s t' k' v' sb' = Some x.
Proof.
  induction l as [|a l IH]; intros s t' k' v' sb' x H; simpl in *; auto.
  destruct (IH _ _ _ _ _ _ H) as [[E I] | E]; [left; auto|].
  rewrite el_get_put in E. destruct (ekey_eqb (t', k', v', sb') (t, k, v, f a)) eqn:X; auto.
  apply ekey_eqb_eq in X. inversion X; subst. left. auto.
Qed.
Lemma In_last_wins f l : In f (map (fun fv : bytes * bytes => SB (fst fv)) (last_wins l)) -> In f (map (fun fv => SB (fst fv)) l).
Proof.
  induction l as [|[a b] l IH]; simpl; auto. destruct (existsb _ l); simpl; intros H; auto. destruct H; auto.
Qed.
Lemma In_zlast_wins f l : In f (map (fun x : Z * bytes => SB (snd x)) (zlast_wins l)) -> In f (map (fun x => SB (snd x)) l).
Proof.
  induction l as [|[a b] l IH]; simpl; auto. destruct (existsb _ l); simpl; intros H; auto. destruct H; auto.
Qed.
Lemma In_dedup_filter (P : bytes -> bool) m l : In m (map SB (filter P (dedup l))) -> In m (map SB l).
Proof.
  intros H. apply in_map_iff in H as (x & <- & Hx). apply filter_In in Hx as [Hx _].
  apply in_map. revert Hx. induction l as [|a l IH]; simpl; auto. intros [->|Hx]; auto.
  apply filter_In in Hx as [Hx _]. auto.
Qed.

Lemma In_zlast_wins2 x l : In x (zlast_wins l) -> In x l.
Proof.
  induction l as [|[a b] l IH]; simpl; auto. destruct (existsb _ l); simpl; intros H; auto. destruct H; auto.
Qed.
Lemma el_get_zset_item_inv s k v st x t' k' v' sb' y :
  el_get (zset_item s k v st x) t' k' v' sb' = Some y ->
  ((t', k', v') = (TZ, k, v) /\ (sb' = SB (snd x) \/ sb' = SS (fst x) (snd x))) \/ el_get st t' k' v' sb' = Some y.
Proof.
  unfold zset_item. destruct x as [sc m]. cbn [fst snd].
  assert (P2 : forall st0, el_get (el_put (el_put st0 TZ k v (SB m) (EI sc)) TZ k v (SS sc m) (EB [])) t' k' v' sb' = Some y ->
               ((t', k', v') = (TZ, k, v) /\ (sb' = SB m \/ sb' = SS sc m)) \/ el_get st0 t' k' v' sb' = Some y).
  { intros st0. rewrite !el_get_put.
    destruct (ekey_eqb (t', k', v', sb') (TZ, k, v, SS sc m)) eqn:X1.
    - apply ekey_eqb_eq in X1. inversion X1; subst. auto.
    - destruct (ekey_eqb (t', k', v', sb') (TZ, k, v, SB m)) eqn:X2; auto.
      apply ekey_eqb_eq in X2. inversion X2; subst. auto. }
  destruct (el_get s TZ k v (SB m)) as [e|].
  - destruct (score_of e =? sc); auto. intros H. destruct (P2 _ H) as [|H2]; auto.
    rewrite el_get_del in H2. destruct (ekey_eqb _ _); [discriminate | auto].
  - apply P2.
Qed.
Lemma el_get_fold_zset_item_inv s k v l : forall st t' k' v' sb' y,
  el_get (fold_left (zset_item s k v) l st) t' k' v' sb' = Some y ->
  ((t', k', v') = (TZ, k, v) /\ (In sb' (map (fun x => SB (snd x)) l) \/ In sb' (map (fun x => SS (fst x) (snd x)) l))) \/
  el_get st t' k' v' sb' = Some y.
Proof.
  induction l as [|x l IH]; intros st t' k' v' sb' y H; simpl in *; auto.
  destruct (IH _ _ _ _ _ _ H) as [[E [I | I]] | E]; auto.
  destruct (el_get_zset_item_inv _ _ _ _ _ _ _ _ _ _ E) as [[E2 [-> | ->]] | E2]; auto.
Qed.
Lemma meta_get_zset_item s k v st x t' k' : meta_get (zset_item s k v st x) t' k' = meta_get st t' k'.
Proof. unfold zset_item. destruct x. destruct (el_get s TZ k v (SB b)); [destruct (score_of e =? z)|]; reflexivity. Qed.
Lemma meta_get_fold_zset_item s k v l : forall st t' k', meta_get (fold_left (zset_item s k v) l st) t' k' = meta_get st t' k'.
Proof. induction l as [|x l IH]; intros st t' k'; simpl; auto. now rewrite IH, meta_get_zset_item. Qed.

Lemma noe_prepare' ts s t k : noe ts s t k -> exists ex, coll_prepare Compact s ts t k = (mkH 0 ts, None, ex).
Proof.
  unfold noe, coll_prepare, coll_header. destruct (meta_get s t k) as [m|]; intros H.
  - rewrite H. simpl. eauto.
  - simpl. eauto.
Qed.

Lemma meta_get_incr_size_new s t k h d m : meta_get (incr_size s t k h None d) t k = Some m -> m_hdr m = h.
Proof.
  unfold incr_size. destruct (size_of None + d <=? 0).
  - rewrite meta_get_del, (proj2 (mkey_eqb_eq (t, k) (t, k)) eq_refl). discriminate.
  - rewrite meta_get_put, (proj2 (mkey_eqb_eq (t, k) (t, k)) eq_refl). intros X; inversion X; reflexivity.
Qed.
Lemma meta_get_el_put s t k v sb x t' k' : meta_get (el_put s t k v sb x) t' k' = meta_get s t' k'.
Proof. reflexivity. Qed.
Lemma incr_size_fold_meta {A} s t k h d v (f : A -> skey) (fx : A -> eval) l m :
  meta_get (incr_size (fold_left (fun st a => el_put st t k v (f a) (fx a)) l s) t k h None d) t k = Some m -> m_hdr m = h.
Proof.
  unfold incr_size. destruct (size_of None + d <=? 0).
  - rewrite meta_get_del, (proj2 (mkey_eqb_eq (t, k) (t, k)) eq_refl). discriminate.
  - rewrite meta_get_put, (proj2 (mkey_eqb_eq (t, k) (t, k)) eq_refl). intros X; inversion X; reflexivity.
Qed.

Theorem recreated_only_written s ts c t k written :
  creates c = Some (t, k, written) -> noe ts s t k -> fresh_gen s t k ts ->
  (forall sb x, el_get (fst (step Compact s ts c)) t k ts sb = Some x -> In sb written) /\
  (forall m, meta_get (fst (step Compact s ts c)) t k = Some m -> m_hdr m = mkH 0 ts \/ meta_get s t k = Some m).
Proof.
  intros C N F. destruct (noe_prepare' ts s t k N) as (ex & P).
  assert (HS : forall k0 f v nx, (t, k) = (TH, k0) ->
     (forall sb x, el_get (fst (do_hset Compact s ts k0 f v nx)) TH k0 ts sb = Some x -> In sb [SB f]) /\
     (forall m, meta_get (fst (do_hset Compact s ts k0 f v nx)) TH k0 = Some m -> m_hdr m = mkH 0 ts \/ meta_get s TH k0 = Some m)).
  { intros k0 f v nx E. inversion E; subst. unfold do_hset. rewrite P. cbn [h_ver].
    rewrite (F (SB f)). cbn [fst]. split.
    - intros sb x. rewrite el_get_put, el_get_incr_size, F.
      destruct (ekey_eqb _ _) eqn:X; [|discriminate]. apply ekey_eqb_eq in X. inversion X; subst. simpl; auto.
    - intros m. rewrite meta_get_el_put. intros Hm. left. now apply meta_get_incr_size_new in Hm. }
  destruct c; try discriminate; cbn [creates] in C; inversion C; subst; cbn [step].
  - (* hset *) apply HS; auto.
  - (* hmset *)
    unfold do_hmset. destruct fvl as [|fv fvl]; [simpl; split; [intros sb x; now rewrite F | auto]|].
    rewrite P. cbn [h_ver fst]. split.
    + intros sb x. rewrite el_get_incr_size. intros H.
      destruct (el_get_fold_put_inv _ _ _ _ _ _ _ _ _ _ _ _ H) as [[_ I] | E]; [now apply In_last_wins | now rewrite F in E].
    + intros m Hm. left. now apply incr_size_fold_meta in Hm.
  - (* hincrby *)
    unfold do_hincrby.
    assert (E : (let '(h, ud, ex0) := coll_header Compact s ts TH k in
                 if not_exist_or_expired ud ex0 then None else el_get s TH k (h_ver h) (SB f)) = None).
    { destruct (noe_header ts s TH k N) as (h & ud & e0 & E1 & E2 & _). now rewrite E1, E2. }
    rewrite E. cbn [parse_int]. destruct (in_int64 (0 + d)); [|simpl; split; [intros sb x; now rewrite F | auto]].
    cbn [fst]. apply HS; auto.
  - (* sadd *)
    unfold do_sadd. rewrite P. cbn [h_ver fst]. split.
    + intros sb x. rewrite el_get_incr_size. intros H.
      destruct (el_get_fold_put_inv _ _ _ (fun m0 : bytes => SB m0) _ _ _ _ _ _ _ _ H) as [[_ I] | E]; [|now rewrite F in E].
      eapply In_dedup_filter; eauto.
    + intros m Hm. left. now apply (incr_size_fold_meta s TS k (mkH 0 ts) _ ts (fun m0 : bytes => SB m0) (fun _ => EB [])) in Hm.
  - (* zadd *)
    unfold do_zadd. destruct sml as [|x sml]; [simpl; split; [intros sb y; now rewrite F | auto]|].
    rewrite P. cbn [h_ver fst]. split.
    + intros sb y. rewrite el_get_incr_size. intros H.
      destruct (el_get_fold_zset_item_inv _ _ _ _ _ _ _ _ _ _ H) as [[_ [I | I]] | E]; [| |now rewrite F in E]; apply in_or_app.
      * left. apply in_map_iff in I as (z & <- & Hz). apply (in_map (fun x0 : Z * bytes => SB (snd x0))). now apply In_zlast_wins2.
      * right. apply in_map_iff in I as (z & <- & Hz). apply (in_map (fun x0 : Z * bytes => SS (fst x0) (snd x0))). now apply In_zlast_wins2.
    + intros m Hm. left. unfold incr_size in Hm.
      destruct (size_of None + _ <=? 0).
      * rewrite meta_get_del, (proj2 (mkey_eqb_eq (TZ, k) (TZ, k)) eq_refl) in Hm. discriminate.
      * rewrite meta_get_put, (proj2 (mkey_eqb_eq (TZ, k) (TZ, k)) eq_refl) in Hm. inversion Hm; reflexivity.
  - (* zincrby *)
    unfold do_zincrby. rewrite P. cbn [h_ver]. rewrite (F (SB m)). cbn [fst]. split.
    + intros sb x. rewrite !el_get_put, el_get_incr_size, F.
      destruct (ekey_eqb (TZ, k, ts, sb) (TZ, k, ts, SB m)) eqn:X1.
      * apply ekey_eqb_eq in X1. inversion X1; subst. simpl; auto.
      * destruct (ekey_eqb (TZ, k, ts, sb) (TZ, k, ts, SS d m)) eqn:X2; [|discriminate].
        apply ekey_eqb_eq in X2. inversion X2; subst. simpl; auto.
    + intros m0. rewrite !meta_get_el_put. intros Hm. left. now apply meta_get_incr_size_new in Hm.
Qed.

(* ---------- the exclusions are necessary: refutations of the unrestricted statements ---------- *)
Fixpoint wf_weak (ops : list op) : Prop :=      (* [wf] without "fresh generation numbers" *)
  match ops with
  | [] => True
  | OW ts c :: r => ts <> 0 /\ wf_weak r
  | OR now _ _ :: r => now <> 0 /\ wf_weak r
  | OC csec chosen :: r => Forall (late (csec - lazy_clean_secs - 1)) (strip r) /\ wf_weak r
  end.
Definition bg_invisible_full : Prop := forall ops s, Inv s -> wf_weak ops -> run s ops = run s (strip ops).
Definition no_resurrection_full : Prop := forall s ts c t k written,
  creates c = Some (t, k, written) -> noe ts s t k ->
  forall sb x, el_get (fst (step Compact s ts c)) t k ts sb = Some x -> In sb written.

(* equal timestamps: the re-created hash shows the member of its expired predecessor *)
Theorem no_resurrection_full_refuted : ~ no_resurrection_full.
Proof.
  intros H.
  set (T := 1600000000 * ns_per_sec + 5).
  (* HSET at T, HEXPIRE with a non-positive duration at T (expired at once), HSET again at T *)
  set (s := fst (step Compact (fst (step Compact empty_store T (CHSet [1%N] [2%N] [3%N] false))) T (CExpire TH [1%N] 0))).
  specialize (H s T (CHSet [1%N] [4%N] [5%N] false) TH [1%N] [SB [4%N]] eq_refl).
  assert (N : noe T s TH [1%N]) by (vm_compute; reflexivity).
  specialize (H N (SB [2%N]) (EB [3%N])). vm_compute in H.
  destruct (H eq_refl) as [X | []]. discriminate X.
Qed.
(* ... and a compaction that drops the stale member is then visible (freshness hypothesis of [wf] is needed) *)
Definition w_gen_ops : list op :=
  let T := 1600000000 * ns_per_sec + 5 in
  [OW T (CHSet [1%N] [2%N] [3%N] false); OW (T + 1) (CClear TH [1%N]);
   OC 1600172801 [IElem TH [1%N] T (SB [2%N])];
   OW T (CHSet [1%N] [4%N] [5%N] false); OR (1600172801 * ns_per_sec) TH [1%N]].
Theorem bg_invisible_needs_fresh_generations :
  wf_weak w_gen_ops /\ run empty_store w_gen_ops <> run empty_store (strip w_gen_ops).
Proof.
  split.
  - unfold w_gen_ops. simpl. repeat split; try (unfold ns_per_sec; lia).
    repeat constructor; unfold late; apply Z.leb_le; vm_compute; reflexivity.
  - vm_compute. intros H. discriminate H.
Qed.
Theorem bg_invisible_full_refuted : ~ bg_invisible_full.
Proof.
  intros H. destruct bg_invisible_needs_fresh_generations as [W N]. apply N. apply H; [apply Inv_empty | exact W].
Qed.
