(* Expire/Model.v — executable model of the expiry mechanism of rockredis (property C10).  No proofs here.

   Transcribes, with respect to the value header {ExpireAt, ValueVersion} only:
     rockredis/t_ttl_compact.go  headerMetaValue.isExpired / ttl, rawExpireAt, renewOnExpired, delExpire
     rockredis/t_ttl_l.go        localExpiration (time index, rawExpireAt, ExpireAt, applyExpiration body)
     rockredis/t_ttl.go          TTLChecker.check (scan of the time index up to the scan time), *Ttl
     rockredis/t_kv.go           getRawDBKVValue, prepareKVValueForWrite, resetWithNewKVValue, setKV, KVSetWithOpts (SETNX),
                                 KVGetSet, MSet, incr, Append, SetRange, DelKeysAt/kvDel, Expire, Persist, KVGet, KVExists, KVTtl
     rockredis/t_collections.go  collHeaderMeta, GetCollVersionKey, prepareCollKeyForWrite, collExpire, collPersist, collKeyExists
     rockredis/t_hash.go         hSetField, HMset, HDel, HIncrBy, HClear/hDeleteAll, HLen, HGetAll
     rockredis/t_set.go          SAdd, SRem, SPop/sMembersN, SClear/sDelete, SCard, SMembers
     rockredis/t_zset.go         ZAdd, ZIncrBy, ZRem, ZRemRangeByScore/zRemRangeBytes, ZClear/zRemAll, ZCard, ZRange
     rockredis/t_list.go         lpush, lpop, LClear/lDelete, LLen, LRange
     rockredis/rockredis.go      rockCompactFilter.Filter / lazyExpireCheck (as the predicate [removable])
   Times: [ts] is the timestamp of the raft entry (log time) and is the only time a write depends on; [now] is the
   read-side clock (time.Now() in the code), a parameter of every read.
   Stores are association lists; an element key carries the generation (ValueVersion) it was written under.
   Integer scores only (Z) for sorted sets; member keys and score-index keys are both represented. *)
From ZV Require Import Common.Bytes Expire.Consts.
Open Scope Z_scope.

(* ---------- time and header ---------- *)
Definition sec (t : Z) : Z := Z.quot t ns_per_sec.

Record hdr := mkH { h_exp : Z; h_ver : Z }.     (* ExpireAt (uint32 seconds, 0 = none), ValueVersion (int64) *)
Definition fresh_hdr : hdr := mkH 0 0.

Inductive policy := Compact | Local.

(* headerMetaValue.isExpired; under local deletion isExpired is constantly false *)
Definition is_expired (p : policy) (h : hdr) (ts : Z) : bool :=
  match p with
  | Local => false
  | Compact => negb (h_exp h =? 0) && negb (ts =? 0) && (h_exp h - sec ts <=? 0)
  end.

(* headerMetaValue.ttl; localExpiration.ttl is constantly -1 *)
Definition ttl_of (p : policy) (h : hdr) (ts : Z) : Z :=
  match p with
  | Local => -1
  | Compact => if h_exp h =? 0 then -1 else
               let t := h_exp h - sec ts in if t <=? 0 then -1 else t
  end.

(* compactExpiration.renewOnExpired; localExpiration.renewOnExpired does nothing *)
Definition renew (p : policy) (h : hdr) (ts : Z) : hdr :=
  match p with Local => h | Compact => mkH 0 ts end.

(* compactExpiration.rawExpireAt: overflow check, then uint32(when) *)
Definition set_expire (h : hdr) (when : Z) : option hdr :=
  if when >=? max_u32 - 1 then None else Some (mkH (when mod (max_u32 + 1)) (h_ver h)).

(* expireWhen: the absolute expiry second for a duration given at ts; int64 overflow is refused, a second that is not
   after the epoch becomes second 1 (expired at once; 0 would mean "no expiry") *)
Definition expire_when (ts d : Z) : option Z :=
  if (d >? 0) && (sec ts >? 9223372036854775807 - d) then None
  else Some (if sec ts + d <=? 0 then 1 else sec ts + d).

Definition in_int64 (z : Z) : bool := (-9223372036854775808 <=? z) && (z <=? 9223372036854775807).

(* ---------- store ---------- *)
Inductive ty := TK | TH | TS | TZ | TL.
Definition ty_eqb (a b : ty) : bool :=
  match a, b with TK, TK | TH, TH | TS, TS | TZ, TZ | TL, TL => true | _, _ => false end.

Inductive skey := SB (b : bytes) | SI (i : Z) | SS (sc : Z) (m : bytes).   (* field / member; list sequence number; zset score-index key (score, member) *)
Inductive eval := EB (b : bytes) | EI (i : Z).         (* hash value, list value, set member (EB []); zset score *)
Definition sub_eqb (a b : skey) : bool :=
  match a, b with
  | SB x, SB y => bytes_eqb x y | SI x, SI y => x =? y
  | SS x m, SS y n => (x =? y) && bytes_eqb m n
  | _, _ => false
  end.

Record meta := mkM { m_hdr : hdr; m_a : Z; m_b : Z }.  (* a = size (hash/set/zset) or head seq (list); b = tail seq (list) *)

Definition mkey := (ty * bytes)%type.
Definition ekey := (ty * bytes * Z * skey)%type.
Definition mkey_eqb (a b : mkey) : bool := ty_eqb (fst a) (fst b) && bytes_eqb (snd a) (snd b).
Definition ekey_eqb (a b : ekey) : bool :=
  match a, b with (t1, k1, v1, s1), (t2, k2, v2, s2) => ty_eqb t1 t2 && bytes_eqb k1 k2 && (v1 =? v2) && sub_eqb s1 s2 end.
Definition tkey := (Z * ty * bytes)%type.             (* time index entry: when, type, key *)
Definition tkey_eqb (a b : tkey) : bool :=
  match a, b with (w1, t1, k1), (w2, t2, k2) => (w1 =? w2) && ty_eqb t1 t2 && bytes_eqb k1 k2 end.

Section AList.
  Context {K V : Type} (eqb : K -> K -> bool).
  Fixpoint aget (k : K) (l : list (K * V)) : option V :=
    match l with [] => None | (k', v) :: r => if eqb k k' then Some v else aget k r end.
  Fixpoint adel (k : K) (l : list (K * V)) : list (K * V) :=
    match l with [] => [] | (k', v) :: r => if eqb k k' then adel k r else (k', v) :: adel k r end.
  Definition aset (k : K) (v : V) (l : list (K * V)) : list (K * V) := (k, v) :: adel k l.
End AList.

Record store := mkS {
  kvs : list (bytes * (hdr * bytes));       (* KVType key -> header, value *)
  metas : list (mkey * meta);               (* size / list meta key -> header, user data *)
  elems : list (ekey * eval);               (* element keys, tagged with their generation *)
  tidx : list (tkey * unit)                 (* type-101 time index (local deletion) *)
}.
Definition empty_store : store := mkS [] [] [] [].

Definition kv_get (s : store) k := aget bytes_eqb k (kvs s).
Definition kv_put (s : store) k h v := mkS (aset bytes_eqb k (h, v) (kvs s)) (metas s) (elems s) (tidx s).
Definition kv_del (s : store) k := mkS (adel bytes_eqb k (kvs s)) (metas s) (elems s) (tidx s).
Definition meta_get (s : store) t k := aget mkey_eqb (t, k) (metas s).
Definition meta_put (s : store) t k m := mkS (kvs s) (aset mkey_eqb (t, k) m (metas s)) (elems s) (tidx s).
Definition meta_del (s : store) t k := mkS (kvs s) (adel mkey_eqb (t, k) (metas s)) (elems s) (tidx s).
Definition el_get (s : store) t k ver sb := aget ekey_eqb (t, k, ver, sb) (elems s).
Definition el_put (s : store) t k ver sb v := mkS (kvs s) (metas s) (aset ekey_eqb (t, k, ver, sb) v (elems s)) (tidx s).
Definition el_del (s : store) t k ver sb := mkS (kvs s) (metas s) (adel ekey_eqb (t, k, ver, sb) (elems s)) (tidx s).
Definition tidx_add (s : store) w t k := mkS (kvs s) (metas s) (elems s) (aset tkey_eqb (w, t, k) tt (tidx s)).

(* all elements of one generation of one collection *)
Definition el_of (s : store) (t : ty) (k : bytes) (ver : Z) : list (skey * eval) :=
  flat_map (fun e => match e with ((t', k', v', sb), x) =>
     if ty_eqb t t' && bytes_eqb k k' && (ver =? v') then [(sb, x)] else [] end) (elems s).
Definition el_del_gen (s : store) (t : ty) (k : bytes) (ver : Z) : store :=
  mkS (kvs s) (metas s)
      (filter (fun e => match e with ((t', k', v', _), _) => negb (ty_eqb t t' && bytes_eqb k k' && (ver =? v')) end) (elems s))
      (tidx s).

(* insertion sort *)
Section Sort.
  Context {A : Type} (leb : A -> A -> bool).
  Fixpoint ins (x : A) (l : list A) : list A :=
    match l with [] => [x] | y :: r => if leb x y then x :: l else y :: ins x r end.
  Definition isort (l : list A) : list A := fold_right ins [] l.
End Sort.
Definition skey_rank (a : skey) : Z := match a with SB _ => 0 | SI _ => 1 | SS _ _ => 2 end.
Definition sub_leb (a b : skey) : bool :=
  match a, b with
  | SB x, SB y => bytes_leb x y
  | SI x, SI y => x <=? y
  | SS x m, SS y n => if x <? y then true else if y <? x then false else bytes_leb m n
  | _, _ => skey_rank a <=? skey_rank b
  end.
Definition sorted_els (l : list (skey * eval)) : list (skey * eval) := isort (fun a b => sub_leb (fst a) (fst b)) l.
Definition score_of (e : eval) : Z := match e with EI i => i | EB _ => 0 end.
Definition zorder (a b : skey * eval) : bool :=
  if score_of (snd a) <? score_of (snd b) then true
  else if score_of (snd b) <? score_of (snd a) then false else sub_leb (fst a) (fst b).
Definition sub_bytes (sb : skey) : bytes := match sb with SB b => b | SI _ => [] | SS _ m => m end.
Definition eval_bytes (e : eval) : bytes := match e with EB b => b | EI _ => [] end.

(* ---------- decimal integers (strconv.ParseInt base 10 / AppendInt) ---------- *)
Definition is_digit (b : N) : bool := (48 <=? b)%N && (b <=? 57)%N.
Fixpoint digits_val (acc : Z) (l : bytes) : option Z :=
  match l with
  | [] => Some acc
  | b :: r => if is_digit b then digits_val (acc * 10 + (Z.of_N b - 48)) r else None
  end.
Definition parse_int (l : bytes) : option Z :=
  let body (neg : bool) (r : bytes) :=
    match r with
    | [] => None
    | _ => match digits_val 0 r with
           | None => None
           | Some v => let z := if neg then - v else v in
                       if (z <? -9223372036854775808) || (9223372036854775807 <? z) then None else Some z
           end
    end in
  match l with
  | [] => None
  | 43%N :: r => body false r
  | 45%N :: r => body true r
  | _ => body false l
  end.
Fixpoint pos_digits (fuel : nat) (p : Z) (acc : bytes) : bytes :=
  match fuel with
  | O => acc
  | S f => if p <? 10 then Z.to_N (p + 48) :: acc
           else pos_digits f (p / 10) (Z.to_N (p mod 10 + 48) :: acc)
  end.
Definition format_int (z : Z) : bytes :=
  if z <? 0 then 45%N :: pos_digits 25 (- z) [] else pos_digits 25 z [].

(* ---------- commands and replies ---------- *)
Inductive cmd :=
| CSet (k v : bytes) | CSetEx (k : bytes) (dur : Z) (v : bytes) | CSetNx (k v : bytes) | CGetSet (k v : bytes)
| CMSet (kvl : list (bytes * bytes)) | CIncrBy (k : bytes) (d : Z) | CAppend (k v : bytes)
| CSetRange (k : bytes) (off : Z) (v : bytes) | CDel (ks : list bytes)
| CExpire (t : ty) (k : bytes) (dur : Z) | CPersist (t : ty) (k : bytes) | CClear (t : ty) (k : bytes)
| CHSet (k f v : bytes) (nx : bool) | CHMSet (k : bytes) (fvl : list (bytes * bytes)) | CHDel (k : bytes) (fs : list bytes)
| CHIncrBy (k f : bytes) (d : Z)
| CSAdd (k : bytes) (ms : list bytes) | CSRem (k : bytes) (ms : list bytes) | CSPop (k : bytes) (n : Z)
| CZAdd (k : bytes) (sml : list (Z * bytes)) | CZIncrBy (k : bytes) (d : Z) (m : bytes) | CZRem (k : bytes) (ms : list bytes)
| CZRemRangeByScore (k : bytes) (lo hi : Z)
| CLPush (k : bytes) (head : bool) (vs : list bytes) | CLPop (k : bytes) (head : bool)
| CSetOpt (k v : bytes) (ttl : Z) (nx xx : bool) | CSetIfEq (k old v : bytes) (ttl : Z) | CDelIfEq (k old : bytes)
| CLTrim (k : bytes) (start stop : Z) | CLSet (k : bytes) (idx : Z) (v : bytes) | CZRemRangeByRank (k : bytes) (start stop : Z).

Inductive reply := RNil | RInt (z : Z) | RBulk (b : bytes) | RArr (l : list bytes) | RErr | RUnmodelled.

(* ---------- KV ---------- *)
(* getRawDBKVValue + decodeDBRawValueToRealValue: (header, value if stored, expired) *)
Definition kv_raw (p : policy) (s : store) (ts : Z) (k : bytes) : hdr * option bytes * bool :=
  match kv_get s k with
  | None => (fresh_hdr, None, false)
  | Some (h, v) => (h, Some v, is_expired p h ts)
  end.
(* prepareKVValueForWrite (reset = false) *)
Definition kv_prepare (p : policy) (s : store) (ts : Z) (k : bytes) : hdr * option bytes * bool :=
  match kv_raw p s ts k with
  | (h, v, ex) => ((if ex then renew p h ts else h), v, ex)
  end.
(* resetWithNewKVValue: fresh header, ttl <= 0 -> delExpire (expiry 0), else rawExpireAt(ts/1e9 + ttl).
   Under local deletion the value has no header; rawExpireAt adds a time index entry. *)
Definition kv_reset (p : policy) (s : store) (ts : Z) (k v : bytes) (ttl : Z) : option store :=
  match p with
  | Compact =>
      if ttl <=? 0 then Some (kv_put s k fresh_hdr v)
      else match expire_when ts ttl with
           | None => None
           | Some w => match set_expire fresh_hdr w with
                       | None => None
                       | Some h => Some (kv_put s k h v)
                       end
           end
  | Local =>
      if ttl <=? 0 then Some (kv_put s k fresh_hdr v)
      else match expire_when ts ttl with
           | None => None
           | Some w => Some (kv_put (tidx_add s w TK k) k fresh_hdr v)
           end
  end.

(* the value a read-modify-write builds on: absent when not stored or expired *)
Definition kv_cur (v : option bytes) (ex : bool) : option bytes := if ex then None else v.

Definition do_set p s ts k v : store * reply :=
  match kv_reset p s ts k v 0 with Some s' => (s', RInt 1) | None => (s, RErr) end.
Definition do_setex p s ts k dur v : store * reply :=
  if dur <=? 0 then (s, RErr)
  else match kv_reset p s ts k v dur with Some s' => (s', RNil) | None => (s, RErr) end.
Definition do_setnx p s ts k v : store * reply :=
  match kv_prepare p s ts k with
  | (_, ov, ex) =>
      match kv_cur ov ex with
      | Some _ => (s, RInt 0)
      | None => match kv_reset p s ts k v 0 with Some s' => (s', RInt 1) | None => (s, RInt 1) end
      end
  end.
Definition do_getset p s ts k v : store * reply :=
  match kv_raw p s ts k with
  | (_, ov, ex) =>
      match kv_reset p s ts k v 0 with
      | Some s' => (s', match kv_cur ov ex with Some o => RBulk o | None => RNil end)
      | None => (s, RErr)
      end
  end.
Fixpoint do_mset p s ts (kvl : list (bytes * bytes)) : store :=
  match kvl with
  | [] => s
  | (k, v) :: r => match kv_reset p s ts k v 0 with Some s' => do_mset p s' ts r | None => s end
  end.
Definition do_incrby p s ts k d : store * reply :=
  match kv_prepare p s ts k with
  | (h, ov, ex) =>
      let cur := match kv_cur ov ex with None => Some 0 | Some b => parse_int b end in
      match cur with
      | None => (s, RErr)
      | Some n => if in_int64 (n + d) then (kv_put s k h (format_int (n + d)), RInt (n + d)) else (s, RErr)
      end
  end.
(* Append: an empty value on a live key only reports the length; otherwise (re)write header + value *)
Definition do_append p s ts k v : store * reply :=
  match kv_prepare p s ts k with
  | (h, ov, ex) =>
      match v, kv_cur ov ex with
      | [], Some b => (s, RInt (Z.of_nat (length b)))
      | _, c =>
          let cur := match c with Some b => b | None => [] end in
          if Z.of_nat (length cur + length v) >? max_value_size then (s, RErr)
          else (kv_put s k h (cur ++ v), RInt (Z.of_nat (length cur + length v)))
      end
  end.
Definition zeros (n : nat) : bytes := repeat 0%N n.
(* SetRange: an empty value only reports the length of a live value *)
Definition do_setrange p s ts k off v : store * reply :=
  match v with
  | [] => match kv_raw p s ts k with
          | (_, ov, ex) => (s, RInt (match kv_cur ov ex with Some b => Z.of_nat (length b) | None => 0 end))
          end
  | _ =>
      if (Z.of_nat (length v) + off >? max_value_size) || (off <? 0) then (s, RErr)
      else match kv_prepare p s ts k with
           | (h, ov, ex) =>
               let cur := match kv_cur ov ex with Some b => b | None => [] end in
               let o := Z.to_nat off in
               let padded := cur ++ zeros (o + length v - length cur) in
               let nv := firstn o padded ++ v ++ skipn (o + length v) padded in
               (kv_put s k h nv, RInt (Z.of_nat (length nv)))
           end
  end.
Fixpoint dedup (l : list bytes) : list bytes :=
  match l with [] => [] | x :: r => x :: filter (fun y => negb (bytes_eqb x y)) (dedup r) end.
(* DelKeysAt / kvDel: every listed key is deleted; the reply counts those that were live at ts *)
Definition do_del (p : policy) (s : store) (ts : Z) (ks : list bytes) : store * reply :=
  let ks' := dedup ks in
  let n := length (filter (fun k => match kv_raw p s ts k with (_, Some _, false) => true | _ => false end) ks') in
  (fold_left kv_del ks' s, RInt (Z.of_nat n)).

(* KVSetWithOpts: SET k v [EX s] [NX | XX] *)
Definition do_setopt p s ts k v ttl (nx xx : bool) : store * reply :=
  match kv_prepare p s ts k with
  | (_, ov, ex) =>
      match kv_cur ov ex with
      | Some _ => if nx then (s, RInt 0)
                  else match kv_reset p s ts k v ttl with Some s' => (s', RInt 1) | None => (s, RErr) end
      | None => if xx then (s, RInt 0)
                else match kv_reset p s ts k v ttl with Some s' => (s', RInt 1) | None => (s, RErr) end
      end
  end.
(* bytes.Equal(cur, old) where an absent / expired value is nil (equal to the empty string only) *)
Definition eq_cur (cur : option bytes) (old : bytes) : bool :=
  match cur with Some b => bytes_eqb b old | None => match old with [] => true | _ => false end end.
(* SetIfEQ: an expired value is compared as an absent key *)
Definition do_setifeq p s ts k old v ttl : store * reply :=
  match kv_prepare p s ts k with
  | (_, ov, ex) =>
      if eq_cur (kv_cur ov ex) old
      then match kv_reset p s ts k v ttl with Some s' => (s', RInt 1) | None => (s, RErr) end
      else (s, RInt 0)
  end.
(* DelIfEQ: compares the STORED value unless it is expired; an expired value is deleted whatever it is *)
Definition do_delifeq p s ts k old : store * reply :=
  match kv_raw p s ts k with
  | (_, ov, ex) => if negb (eq_cur ov old) && negb ex then (s, RInt 0) else do_del p s ts [k]
  end.

(* ---------- collections: shared header logic ---------- *)
(* collHeaderMeta: (header, user data if the meta is stored, expired) *)
Definition coll_header (p : policy) (s : store) (ts : Z) (t : ty) (k : bytes) : hdr * option (Z * Z) * bool :=
  match meta_get s t k with
  | None => (fresh_hdr, None, false)
  | Some m => (m_hdr m, Some (m_a m, m_b m), is_expired p (m_hdr m) ts)
  end.
Definition not_exist_or_expired (ud : option (Z * Z)) (ex : bool) : bool :=
  ex || match ud with None => true | Some _ => false end.
(* prepareCollKeyForWrite: renew the header when the collection does not exist or is expired *)
Definition coll_prepare (p : policy) (s : store) (ts : Z) (t : ty) (k : bytes) : hdr * option (Z * Z) * bool :=
  match coll_header p s ts t k with
  | (h, ud, ex) => if not_exist_or_expired ud ex
                   then (renew p h ts, (match p with Compact => None | Local => ud end), ex)
                   else (h, ud, ex)
  end.
(* hIncrSize / sIncrSize / zIncrSize: write the meta with the given header, delete it at size <= 0 *)
Definition size_of (ud : option (Z * Z)) : Z := match ud with Some (a, _) => a | None => 0 end.
Definition incr_size (s : store) (t : ty) (k : bytes) (h : hdr) (ud : option (Z * Z)) (delta : Z) : store :=
  let n := size_of ud + delta in
  if n <=? 0 then meta_del s t k else meta_put s t k (mkM h n 0).

Definition list_meta_of (ud : option (Z * Z)) : Z * Z * Z :=       (* head, tail, size: parseListMeta *)
  match ud with None => (list_initial_seq, list_initial_seq, 0) | Some (a, b) => (a, b, b - a + 1) end.

(* collExpire / collPersist (+ ExpireAt of the policy) *)
Definition coll_set_expire (p : policy) (s : store) (ts : Z) (t : ty) (k : bytes) (ow : option Z) : store * reply :=
  match coll_header p s ts t k with
  | (h, ud, ex) =>
      match ud with
      | None => (s, RInt 0)
      | Some (a, b) =>
          if ex then (s, RInt 0) else
          match ow with
          | None => (s, RErr)
          | Some when =>
              match p with
              | Compact => match set_expire h when with
                           | None => (s, RErr)
                           | Some h' => (meta_put s t k (mkM h' a b), RInt 1)
                           end
              | Local => if when =? 0 then (s, RErr) else (tidx_add s when t k, RInt 1)
              end
          end
      end
  end.
Definition kv_set_expire (p : policy) (s : store) (ts : Z) (k : bytes) (ow : option Z) : store * reply :=
  match kv_raw p s ts k with
  | (h, ov, ex) =>
      match ov with
      | None => (s, RInt 0)
      | Some v =>
          if ex then (s, RInt 0) else
          match ow with
          | None => (s, RErr)
          | Some when =>
              match p with
              | Compact => match set_expire h when with
                           | None => (s, RErr)
                           | Some h' => (kv_put s k h' v, RInt 1)
                           end
              | Local => if when =? 0 then (s, RErr) else (tidx_add s when TK k, RInt 1)
              end
          end
      end
  end.
Definition do_expire p s ts (t : ty) k dur : store * reply :=
  match t with TK => kv_set_expire p s ts k (expire_when ts dur) | _ => coll_set_expire p s ts t k (expire_when ts dur) end.
Definition do_persist p s ts (t : ty) k : store * reply :=
  match t with TK => kv_set_expire p s ts k (Some 0) | _ => coll_set_expire p s ts t k (Some 0) end.

(* ---------- hash ---------- *)
Definition do_hset p s ts k f v (nx : bool) : store * reply :=
  match coll_prepare p s ts TH k with
  | (h, ud, _) =>
      match el_get s TH k (h_ver h) (SB f) with
      | Some _ => if nx then (s, RInt 0) else (el_put s TH k (h_ver h) (SB f) (EB v), RInt 0)
      | None => (el_put (incr_size s TH k h ud 1) TH k (h_ver h) (SB f) (EB v), RInt 1)
      end
  end.
Fixpoint last_wins (l : list (bytes * bytes)) : list (bytes * bytes) :=
  match l with
  | [] => []
  | (f, v) :: r => if existsb (fun fv => bytes_eqb f (fst fv)) r then last_wins r else (f, v) :: last_wins r
  end.
Definition do_hmset p s ts k fvl : store * reply :=
  match fvl with
  | [] => (s, RNil)
  | _ =>
    match coll_prepare p s ts TH k with
    | (h, ud, _) =>
        let fvl' := last_wins fvl in
        let num := length (filter (fun fv => match el_get s TH k (h_ver h) (SB (fst fv)) with None => true | Some _ => false end) fvl') in
        let s1 := fold_left (fun st fv => el_put st TH k (h_ver h) (SB (fst fv)) (EB (snd fv))) fvl' s in
        (incr_size s1 TH k h ud (Z.of_nat num), RNil)
    end
  end.
(* HDel / SRem / ZRem: GetCollVersionKey, nothing to do on an expired collection, otherwise remove at the current generation *)
Definition coll_rem (p : policy) (s : store) (ts : Z) (t : ty) (k : bytes) (ms : list bytes) : store * reply :=
  match ms with
  | [] => (s, RInt 0)
  | _ =>
    match coll_header p s ts t k with
    | (h, ud, ex) =>
        if ex then (s, RInt 0) else
        let ms' := filter (fun m => match el_get s t k (h_ver h) (SB m) with Some _ => true | None => false end) (dedup ms) in
        let s1 := fold_left (fun st m => el_del st t k (h_ver h) (SB m)) ms' s in
        (incr_size s1 t k h ud (- Z.of_nat (length ms')), RInt (Z.of_nat (length ms')))
    end
  end.
Definition do_hincrby p s ts k f d : store * reply :=
  let fv := match coll_header p s ts TH k with
            | (h, ud, ex) => if not_exist_or_expired ud ex then None else el_get s TH k (h_ver h) (SB f)
            end in
  let cur := match fv with None => Some 0 | Some e => parse_int (eval_bytes e) end in
  match cur with
  | None => (s, RErr)
  | Some n => if in_int64 (n + d) then (fst (do_hset p s ts k f (format_int (n + d)) false), RInt (n + d)) else (s, RErr)
  end.

(* ---------- set ---------- *)
Definition do_sadd p s ts k ms : store * reply :=
  match coll_prepare p s ts TS k with
  | (h, ud, _) =>
      let ms' := filter (fun m => match el_get s TS k (h_ver h) (SB m) with None => true | Some _ => false end) (dedup ms) in
      let s1 := fold_left (fun st m => el_put st TS k (h_ver h) (SB m) (EB [])) ms' s in
      (incr_size s1 TS k h ud (Z.of_nat (length ms')), RInt (Z.of_nat (length ms')))
  end.
(* SPop = sMembersN(ts, count) then SRem(ts) *)
Definition do_spop p s ts k (n : Z) : store * reply :=
  if n >? max_batch_num then (s, RErr) else
  if n <=? 0 then (s, RErr) else
  match coll_header p s ts TS k with
  | (h, ud, ex) =>
      if not_exist_or_expired ud ex then (s, RArr [])
      else if size_of ud =? 0 then (s, RArr [])
      else let ms := map (fun e => sub_bytes (fst e)) (firstn (Z.to_nat n) (sorted_els (el_of s TS k (h_ver h)))) in
           (fst (coll_rem p s ts TS k ms), RArr ms)
  end.

(* ---------- sorted set (integer scores) ----------
   A member m with score sc of generation v is stored twice: the member key (SB m) with value sc, and the
   score-index key (SS sc m).  ZRANGE / ZREMRANGEBY* iterate the score index, ZSCORE / ZADD / ZREM look up the member key.
   All existence tests read the committed store [s]; the writes go to the batch [st]. *)
Fixpoint zlast_wins (l : list (Z * bytes)) : list (Z * bytes) :=
  match l with
  | [] => []
  | (sc, m) :: r => if existsb (fun x => bytes_eqb m (snd x)) r then zlast_wins r else (sc, m) :: zlast_wins r
  end.
(* the score index of one generation, in (score, member) order *)
Definition zidx (s : store) (k : bytes) (ver : Z) : list (Z * bytes) :=
  flat_map (fun e => match fst e with SS sc m => [(sc, m)] | _ => [] end) (sorted_els (el_of s TZ k ver)).
(* zSetItem *)
Definition zset_item (s : store) (k : bytes) (ver : Z) (st : store) (x : Z * bytes) : store :=
  let (sc, m) := x in
  match el_get s TZ k ver (SB m) with
  | Some e => if score_of e =? sc then st
              else el_put (el_put (el_del st TZ k ver (SS (score_of e) m)) TZ k ver (SB m) (EI sc)) TZ k ver (SS sc m) (EB [])
  | None => el_put (el_put st TZ k ver (SB m) (EI sc)) TZ k ver (SS sc m) (EB [])
  end.
(* zDelItem: nothing happens when the member key is not stored (a score-index key alone is not a member) *)
Definition zdel_item (s : store) (k : bytes) (ver : Z) (st : store) (m : bytes) : store :=
  match el_get s TZ k ver (SB m) with
  | Some e => el_del (el_del st TZ k ver (SS (score_of e) m)) TZ k ver (SB m)
  | None => st
  end.
Definition has_member (s : store) (k : bytes) (ver : Z) (m : bytes) : bool :=
  match el_get s TZ k ver (SB m) with Some _ => true | None => false end.
Definition do_zadd p s ts k sml : store * reply :=
  match sml with
  | [] => (s, RInt 0)
  | _ =>
    match coll_prepare p s ts TZ k with
    | (h, ud, _) =>
        let l := zlast_wins sml in
        let num := length (filter (fun x => negb (has_member s k (h_ver h) (snd x))) l) in
        let s1 := fold_left (zset_item s k (h_ver h)) l s in
        (incr_size s1 TZ k h ud (Z.of_nat num), RInt (Z.of_nat num))
    end
  end.
Definition do_zincrby p s ts k d m : store * reply :=
  match coll_prepare p s ts TZ k with
  | (h, ud, _) =>
      match el_get s TZ k (h_ver h) (SB m) with
      | None => (el_put (el_put (incr_size s TZ k h ud 1) TZ k (h_ver h) (SS d m) (EB [])) TZ k (h_ver h) (SB m) (EI d), RInt d)
      | Some e => let n := score_of e + d in
                  (el_put (el_put (el_del s TZ k (h_ver h) (SS (score_of e) m)) TZ k (h_ver h) (SS n m) (EB [])) TZ k (h_ver h) (SB m) (EI n),
                   RInt n)
      end
  end.
Definition do_zrem p s ts k ms : store * reply :=
  match ms with
  | [] => (s, RInt 0)
  | _ =>
    match coll_header p s ts TZ k with
    | (h, ud, ex) =>
        if ex then (s, RInt 0) else
        let ms' := filter (has_member s k (h_ver h)) (dedup ms) in
        let s1 := fold_left (zdel_item s k (h_ver h)) ms' s in
        (incr_size s1 TZ k h ud (- Z.of_nat (length ms')), RInt (Z.of_nat (length ms')))
    end
  end.
(* zRemRangeBytes over a list of score-index entries: zDelItem for each, counted when the member key is stored *)
Definition zrem_entries (s : store) (k : bytes) (h : hdr) (ud : option (Z * Z)) (ents : list (Z * bytes)) : store * reply :=
  let hit := filter (fun x => has_member s k (h_ver h) (snd x)) ents in
  let s1 := fold_left (fun st x => zdel_item s k (h_ver h) st (snd x)) hit s in
  (incr_size s1 TZ k h ud (- Z.of_nat (length hit)), RInt (Z.of_nat (length hit))).
(* ZRemRangeByScore -> zRemRange -> zRemRangeBytes(offset 0, count -1) *)
Definition do_zremrangebyscore p s ts k lo hi : store * reply :=
  match coll_header p s ts TZ k with
  | (h, ud, ex) =>
      if ex then (s, RInt 0) else
      if size_of ud =? 0 then (s, RInt 0) else
      zrem_entries s k h ud (filter (fun x => (lo <=? fst x) && (fst x <=? hi)) (zidx s k (h_ver h)))
  end.

(* zRemAll on a live sorted set of size > 0: the meta only when the generation number is below ts, otherwise
   zRemRangeBytes over the whole score index.  Returns the number the Go function returns. *)
Definition zrem_all (p : policy) (s : store) (ts : Z) (k : bytes) (h : hdr) (ud : option (Z * Z)) : store * Z :=
  match p with
  | Local => (el_del_gen (meta_del s TZ k) TZ k (h_ver h), size_of ud)
  | Compact =>
      if h_ver h <? ts then (meta_del s TZ k, size_of ud)
      else match zrem_entries s k h ud (zidx s k (h_ver h)) with
           | (s1, RInt n) => (s1, n)
           | (s1, _) => (s1, 0)
           end
  end.

(* lDelete on a live list of size > 0 *)
Definition ldelete (p : policy) (s : store) (ts : Z) (k : bytes) (h : hdr) (ud : option (Z * Z)) : store :=
  match p with
  | Local => el_del_gen (meta_del s TL k) TL k (h_ver h)
  | Compact =>
      if h_ver h <? ts then meta_del s TL k else
      match list_meta_of ud with
      | (hd, tl, _) =>
          let seqs := flat_map (fun e => match fst e with SI i => if (hd <=? i) && (i <=? tl) then [i] else [] | _ => [] end)
                               (el_of s TL k (h_ver h)) in
          fold_left (fun st i => el_del st TL k (h_ver h) (SI i)) seqs (meta_del s TL k)
      end
  end.

(* clear commands (HClear/hDeleteAll, sDelete, zRemAll, lDelete).  Nothing happens on a collection that does not
   exist or is expired.  Under wait_compact only the meta is deleted when the generation number is below ts (it is
   never used again); a generation whose number is not below ts is removed physically, because a collection
   re-created by an entry with the same timestamp gets the same number.  Under local deletion always physically. *)
Definition coll_clear (p : policy) (s : store) (ts : Z) (t : ty) (k : bytes) : store * reply :=
  match coll_header p s ts t k with
  | (h, ud, ex) =>
      if not_exist_or_expired ud ex then (s, RInt 0)
      else let n := match t with TL => snd (list_meta_of ud) | _ => size_of ud end in
           if n =? 0 then (s, RInt 0) else
           match p with
           | Local => (el_del_gen (meta_del s t k) t k (h_ver h), RInt 1)
           | Compact =>
               if h_ver h <? ts then (meta_del s t k, RInt 1) else
               match t with
               | TZ => let (s1, n) := zrem_all p s ts k h ud in (s1, RInt (if n >? 0 then 1 else 0))
               | TL => (ldelete p s ts k h ud, RInt 1)
               | _ => (el_del_gen (meta_del s t k) t k (h_ver h), RInt 1)
               end
           end
  end.

(* ---------- list ---------- *)
Definition list_set_meta (s : store) (k : bytes) (h : hdr) (hd tl : Z) : option store :=   (* lSetMeta *)
  let size := tl - hd + 1 in
  if size <? 0 then None else if size =? 0 then Some (meta_del s TL k) else Some (meta_put s TL k (mkM h hd tl)).
(* puts the values at consecutive sequence numbers; stops at the first one that is already stored ("should not
   override"): the elements written so far stay in the write batch, which fixListKey then commits *)
Fixpoint put_seq (s : store) (k : bytes) (ver : Z) (seq delta : Z) (vs : list bytes) : store * bool :=
  match vs with
  | [] => (s, true)
  | v :: r => match el_get s TL k ver (SI seq) with
              | Some _ => (s, false)
              | None => put_seq (el_put s TL k ver (SI seq) (EB v)) k ver (seq + delta) delta r
              end
  end.

(* fixListKey / scanfixListKey: recompute head and tail of a live list from the stored elements of its generation *)
Fixpoint contig (l : list Z) : bool :=
  match l with
  | a :: r => match r with b :: _ => (a + 1 =? b) && contig r | [] => true end
  | [] => true
  end.
Definition list_seqs (s : store) (k : bytes) (ver : Z) : list Z :=
  flat_map (fun e => match fst e with SI i => [i] | _ => [] end) (sorted_els (el_of s TL k ver)).
Inductive fixop := FNone | FDel | FPut (m : meta).
Definition scanfix (p : policy) (s : store) (ts : Z) (k : bytes) : fixop :=
  match coll_header p s ts TL k with
  | (h, ud, ex) =>
      if not_exist_or_expired ud ex then FNone else
      match list_meta_of ud with
      | (hd, tl, llen) =>
          let seqs := list_seqs s k (h_ver h) in
          if negb (contig seqs) then FNone else
          match seqs with
          | [] => if (hd =? 0) && (tl =? 0) then FNone else if llen =? 0 then FNone else FDel
          | f :: _ => let l := last seqs f in
                      if (hd =? f) && (tl =? l) then FNone else FPut (mkM h f l)
          end
      end
  end.
Definition apply_fix (s : store) (k : bytes) (o : fixop) : store :=
  match o with FNone => s | FDel => meta_del s TL k | FPut m => meta_put s TL k m end.

Definition do_lpush p s ts k (head : bool) vs : store * reply :=
  if Z.of_nat (length vs) >? max_batch_num then (s, RErr) else
  match coll_prepare p s ts TL k with
  | (h, ud, _) =>
      match list_meta_of ud with
      | (hd, tl, size) =>
          match vs with
          | [] => (s, RInt size)
          | _ =>
            let delta := if head then -1 else 1 in
            let seq0 := (if head then hd else tl) + (if size >? 0 then delta else 0) in
            let n := Z.of_nat (length vs) in
            let last := seq0 + (n - 1) * delta in
            if (last <=? list_min_seq) || (last >=? list_max_seq) then (s, RErr) else
            match put_seq s k (h_ver h) seq0 delta vs with
            | (s1, false) => (apply_fix s1 k (scanfix p s ts k), RErr)
            | (s1, true) =>
                match list_set_meta s1 k h (if head then last else hd) (if head then tl else last) with
                | None => (s, RUnmodelled)
                | Some s2 => (s2, RInt (size + n))
                end
            end
          end
      end
  end.
Definition do_lpop p s ts k (head : bool) : store * reply :=
  match coll_header p s ts TL k with
  | (h, ud, ex) =>
      if not_exist_or_expired ud ex then (s, RNil) else
      match list_meta_of ud with
      | (hd, tl, size) =>
          if size =? 0 then (s, RNil) else
          let seq := if head then hd else tl in
          match el_get s TL k (h_ver h) (SI seq) with
          | None => (apply_fix s k (scanfix p s ts k), RNil)
          | Some e =>
              match list_set_meta (el_del s TL k (h_ver h) (SI seq)) k h (if head then hd + 1 else hd) (if head then tl else tl - 1) with
              | None => (s, RUnmodelled)
              | Some s2 => (s2, RBulk (eval_bytes e))
              end
          end
      end
  end.

(* sequence numbers hd+a .. hd+b-1 *)
Definition seq_range (from : Z) (n : Z) : list Z := map (fun i => from + Z.of_nat i) (seq 0 (Z.to_nat n)).
(* ltrim2 *)
Definition do_ltrim p s ts k (start stop : Z) : store * reply :=
  match coll_header p s ts TL k with
  | (h, ud, ex) =>
      if not_exist_or_expired ud ex then (s, RNil) else
      match list_meta_of ud with
      | (hd, tl, llen) =>
          let start := if start <? 0 then llen + start else start in
          let stop := if stop <? 0 then llen + stop else stop in
          let start := if start <? 0 then 0 else start in
          if (start >=? llen) || (start >? stop) then
            (* lDelete: the whole list *)
            (if llen =? 0 then s else ldelete p s ts k h ud, RNil)
          else
            let stop := if stop >=? llen then llen - 1 else stop in
            let s1 := fold_left (fun st i => el_del st TL k (h_ver h) (SI i)) (seq_range hd start) s in
            let s2 := fold_left (fun st i => el_del st TL k (h_ver h) (SI i)) (seq_range (hd + stop + 1) (llen - stop - 1)) s1 in
            match list_set_meta s2 k h (hd + start) (hd + stop) with
            | Some s3 => (s3, RNil)
            | None => (s, RUnmodelled)
            end
      end
  end.
(* LSet *)
Definition do_lset p s ts k (idx : Z) v : store * reply :=
  match coll_header p s ts TL k with
  | (h, ud, ex) =>
      if not_exist_or_expired ud ex then (s, RErr) else
      match list_meta_of ud with
      | (hd, tl, size) =>
          if size =? 0 then (s, RErr) else
          let sq := if idx >=? 0 then hd + idx else tl + idx + 1 in
          if (sq <? hd) || (sq >? tl) then (s, RErr)
          else match list_set_meta s k h hd tl with
               | Some s1 => (el_put s1 TL k (h_ver h) (SI sq) (EB v), RNil)
               | None => (s, RUnmodelled)
               end
      end
  end.
(* ZRemRangeByRank: zParseLimit, then zRemRangeBytes over the (score, member) order *)
Definition do_zremrangebyrank p s ts k (start stop : Z) : store * reply :=
  match coll_header p s ts TZ k with
  | (h, ud, ex) =>
      if ex then (s, RInt 0) else
      let total := size_of ud in
      let neg := (start <? 0) || (stop <? 0) in
      let start1 := if start <? 0 then total + start else start in
      let stop1 := if stop <? 0 then total + stop else stop in
      let start2 := if neg && (start1 <? 0) then 0 else start1 in
      let bad := (neg && (start2 >=? total)) || (start2 >? stop1) in
      let offset := if bad then -1 else start2 in
      let count := if bad then 0 else stop1 - start2 + 1 in
      if total =? 0 then (s, RInt 0) else
      if (offset =? 0) && (count >=? total) then
        (if not_exist_or_expired ud ex then (s, RInt 0)
         else let (s1, n) := zrem_all p s ts k h ud in (s1, RInt n))
      else if count >? max_batch_num then (s, RErr)
      else if offset <? 0 then (incr_size s TZ k h ud 0, RInt 0)
      else zrem_entries s k h ud (firstn (Z.to_nat count) (skipn (Z.to_nat offset) (zidx s k (h_ver h))))
  end.

(* ---------- one write command ---------- *)
Definition step (p : policy) (s : store) (ts : Z) (c : cmd) : store * reply :=
  match c with
  | CSet k v => do_set p s ts k v
  | CSetEx k dur v => do_setex p s ts k dur v
  | CSetNx k v => do_setnx p s ts k v
  | CGetSet k v => do_getset p s ts k v
  | CMSet kvl => match kvl with [] => (s, RNil) | _ => (do_mset p s ts kvl, RNil) end
  | CIncrBy k d => do_incrby p s ts k d
  | CAppend k v => do_append p s ts k v
  | CSetRange k off v => do_setrange p s ts k off v
  | CDel ks => do_del p s ts ks
  | CExpire t k dur => do_expire p s ts t k dur
  | CPersist t k => do_persist p s ts t k
  | CClear t k => match t with TK => (s, RErr) | _ => coll_clear p s ts t k end
  | CHSet k f v nx => do_hset p s ts k f v nx
  | CHMSet k fvl => do_hmset p s ts k fvl
  | CHDel k fs => coll_rem p s ts TH k fs
  | CHIncrBy k f d => do_hincrby p s ts k f d
  | CSAdd k ms => do_sadd p s ts k ms
  | CSRem k ms => coll_rem p s ts TS k ms
  | CSPop k n => do_spop p s ts k n
  | CZAdd k sml => do_zadd p s ts k sml
  | CZIncrBy k d m => do_zincrby p s ts k d m
  | CZRem k ms => do_zrem p s ts k ms
  | CZRemRangeByScore k lo hi => do_zremrangebyscore p s ts k lo hi
  | CLPush k head vs => do_lpush p s ts k head vs
  | CLPop k head => do_lpop p s ts k head
  | CSetOpt k v ttl nx xx => do_setopt p s ts k v ttl nx xx
  | CSetIfEq k old v ttl => do_setifeq p s ts k old v ttl
  | CDelIfEq k old => do_delifeq p s ts k old
  | CLTrim k a b => do_ltrim p s ts k a b
  | CLSet k i v => do_lset p s ts k i v
  | CZRemRangeByRank k a b => do_zremrangebyrank p s ts k a b
  end.

(* ---------- reads (clock [now]) ---------- *)
(* the typed observation of one key: visible?, ttl, content *)
Record obs := mkO { o_exists : bool; o_ttl : Z; o_len : Z; o_items : list (skey * eval) }.

Definition read_kv (p : policy) (s : store) (now : Z) (k : bytes) : obs :=
  match kv_raw p s now k with
  | (h, ov, ex) =>
      match ov with
      | None => mkO false (-1) 0 []
      | Some v => mkO (negb ex) (ttl_of p h now) (if ex then 0 else Z.of_nat (length v)) (if ex then [] else [(SB [], EB v)])
      end
  end.
Definition read_coll (p : policy) (s : store) (now : Z) (t : ty) (k : bytes) : obs :=
  match coll_header p s now t k with
  | (h, ud, ex) =>
      let dead := not_exist_or_expired ud ex in
      let items := if dead then [] else
                   match t with
                   | TZ => map (fun x => (SB (snd x), EI (fst x))) (firstn (Z.to_nat (size_of ud)) (zidx s k (h_ver h)))   (* zrange 0 -1 over the score index: count = size *)
                   | TS => firstn (Z.to_nat (size_of ud)) (sorted_els (el_of s t k (h_ver h)))     (* sMembersN(num = size) *)
                   | TL => match list_meta_of ud with
                           | (hd, tl, _) => filter (fun e => match fst e with SI i => (hd <=? i) && (i <=? tl) | _ => false end)
                                                   (sorted_els (el_of s t k (h_ver h)))
                           end
                   | _ => sorted_els (el_of s t k (h_ver h))
                   end in
      let len := if dead then 0 else match t with TL => snd (list_meta_of ud) | _ => size_of ud end in
      mkO (negb dead) (match ud with None => -1 | Some _ => ttl_of p h now end) len items
  end.
Definition read (p : policy) (s : store) (now : Z) (t : ty) (k : bytes) : obs :=
  match t with TK => read_kv p s now k | _ => read_coll p s now t k end.

(* single-element reads: HGET / HMGET per field, SISMEMBER, ZSCORE, and GET / MGET / EXISTS per key *)
Definition read_elem (p : policy) (s : store) (now : Z) (t : ty) (k : bytes) (m : bytes) : option eval :=
  match coll_header p s now t k with
  | (h, ud, ex) => if not_exist_or_expired ud ex then None else el_get s t k (h_ver h) (SB m)
  end.
Definition read_value (p : policy) (s : store) (now : Z) (k : bytes) : option bytes :=
  match kv_raw p s now k with (_, ov, ex) => kv_cur ov ex end.
(* EXISTS k1 k2 ...: the number of arguments that are live *)
Definition read_exists (p : policy) (s : store) (now : Z) (ks : list bytes) : Z :=
  Z.of_nat (length (filter (fun k => match read_value p s now k with Some _ => true | None => false end) ks)).
Definition read_mget (p : policy) (s : store) (now : Z) (ks : list bytes) : list (option bytes) :=
  map (read_value p s now) ks.

(* ---------- background: compaction filter (wait_compact) ---------- *)
Inductive item := IKV (k : bytes) | IMeta (t : ty) (k : bytes) | IElem (t : ty) (k : bytes) (ver : Z) (sb : skey).

(* rockCompactFilter.lazyExpireCheck with the cached wall-clock second [csec] *)
Definition lazy_expired (h : hdr) (csec : Z) : bool :=
  negb (h_exp h =? 0) && (min_expired_possible <? h_exp h) && (h_exp h + lazy_clean_secs <? csec).

(* rockCompactFilter.Filter: may this raw key be dropped by a compaction that runs with cached clock csec? *)
Definition removable (s : store) (csec : Z) (it : item) : bool :=
  match it with
  | IKV k => match kv_get s k with Some (h, _) => lazy_expired h csec | None => false end
  | IMeta t k => match meta_get s t k with Some m => lazy_expired (m_hdr m) csec | None => false end
  | IElem t k ver sb =>
      match el_get s t k ver sb with
      | None => false
      | Some _ =>
          if ver =? 0 then false
          else if ver + lazy_clean_secs * ns_per_sec >=? csec * ns_per_sec then false
          else match meta_get s t k with
               | None => true
               | Some m => if h_ver (m_hdr m) =? 0 then false
                           else if negb (h_ver (m_hdr m) =? ver) then true
                           else lazy_expired (m_hdr m) csec
               end
      end
  end.
Definition all_items (s : store) : list item :=
  map (fun e => IKV (fst e)) (kvs s) ++ map (fun e => IMeta (fst (fst e)) (snd (fst e))) (metas s)
  ++ map (fun e => match fst e with (t, k, v, sb) => IElem t k v sb end) (elems s).
Definition flagged (s : store) (csec : Z) : list item := filter (removable s csec) (all_items s).
Definition drop_item (s : store) (it : item) : store :=
  match it with
  | IKV k => kv_del s k
  | IMeta t k => meta_del s t k
  | IElem t k ver sb => el_del s t k ver sb
  end.
(* one compaction: drops the chosen items that the filter (evaluated on the state before) allows *)
Definition compact (s : store) (csec : Z) (chosen : list item) : store :=
  fold_left drop_item (filter (removable s csec) chosen) s.

(* ---------- background: local deletion (TTLChecker.check + localBatchedBuffer.commit) ---------- *)
(* the scan covers the time keys from when = 0 up to the first one after the scan time; a negative [when]
   is stored as a huge unsigned number, beyond the scanned range *)
Definition due (scan : Z) (e : tkey * unit) : bool := match fst e with (w, _, _) => (0 <=? w) && (w <=? scan) end.
Definition local_del_key (s : store) (e : tkey * unit) : store :=
  match fst e with
  | (w, t, k) =>
      let s1 := match t with
                | TK => kv_del s k
                | _ => match meta_get s t k with
                       | None => s
                       | Some m => el_del_gen (meta_del s t k) t k (h_ver (m_hdr m))
                       end
                end in
      mkS (kvs s1) (metas s1) (elems s1) (adel tkey_eqb (w, t, k) (tidx s1))
  end.
Definition local_tick (s : store) (scan : Z) : store :=
  fold_left local_del_key (filter (due scan) (tidx s)) s.
