(* Expire/ProofsRel.v — elements of one generation through the store primitives; the relation R
   "equal except for dead content / garbage of one generation of one key" and its congruence under the primitives. *)
From ZV Require Import Common.Bytes Common.BytesFacts Expire.Consts Expire.Model Expire.Proofs.
From Coq Require Import ZifyBool Lia.
Open Scope Z_scope.

(* ---------- el_of through the primitives ---------- *)
Definition gen_eqb (a b : ty * bytes * Z) : bool :=
  match a, b with (t, k, v), (t', k', v') => ty_eqb t t' && bytes_eqb k k' && (v =? v') end.
Lemma gen_eqb_eq a b : gen_eqb a b = true <-> a = b.
Proof.
  destruct a as [[t k] v], b as [[t' k'] v']. unfold gen_eqb.
  rewrite !andb_true_iff, ty_eqb_eq, bytes_eqb_eq, Z.eqb_eq.
  split; [intros [[-> ->] ->]; auto | intros H; inversion H; auto].
Qed.
Lemma gen_eqb_refl a : gen_eqb a a = true. Proof. now apply gen_eqb_eq. Qed.
Lemma gen_eqb_neq a b : a <> b -> gen_eqb a b = false.
Proof. intros H. destruct (gen_eqb a b) eqn:E; auto. apply gen_eqb_eq in E. contradiction. Qed.

Definition el_of_list (l : list (ekey * eval)) (t : ty) (k : bytes) (ver : Z) : list (skey * eval) :=
  flat_map (fun e => match e with ((t', k', v', sb), x) =>
     if ty_eqb t t' && bytes_eqb k k' && (ver =? v') then [(sb, x)] else [] end) l.
Lemma el_of_unfold s t k v : el_of s t k v = el_of_list (elems s) t k v.
Proof. reflexivity. Qed.

Lemma el_of_list_adel l t k v sb t' k' v' :
  el_of_list (adel ekey_eqb (t, k, v, sb) l) t' k' v' =
  if gen_eqb (t', k', v') (t, k, v)
  then filter (fun e => negb (sub_eqb (fst e) sb)) (el_of_list l t' k' v')
  else el_of_list l t' k' v'.
Proof.
  induction l as [|[[[[t1 k1] v1] sb1] x] l IH].
  - cbn [adel el_of_list flat_map filter]. now destruct (gen_eqb (t', k', v') (t, k, v)).
  - cbn [adel]. destruct (ekey_eqb (t, k, v, sb) (t1, k1, v1, sb1)) eqn:E.
    + apply ekey_eqb_eq in E. inversion E; subst t1 k1 v1 sb1. rewrite IH.
      cbn [el_of_list flat_map]. fold (el_of_list l t' k' v').
      change (ty_eqb t' t && bytes_eqb k' k && (v' =? v)) with (gen_eqb (t', k', v') (t, k, v)).
      destruct (gen_eqb (t', k', v') (t, k, v)) eqn:G; auto.
      cbn [app filter fst]. rewrite (proj2 (sub_eqb_eq sb sb) eq_refl). reflexivity.
    + cbn [el_of_list flat_map]. fold (el_of_list l t' k' v'). fold (el_of_list (adel ekey_eqb (t, k, v, sb) l) t' k' v').
      rewrite IH.
      change (ty_eqb t' t1 && bytes_eqb k' k1 && (v' =? v1)) with (gen_eqb (t', k', v') (t1, k1, v1)).
      destruct (gen_eqb (t', k', v') (t1, k1, v1)) eqn:G1; auto.
      apply gen_eqb_eq in G1. inversion G1; subst t1 k1 v1.
      destruct (gen_eqb (t', k', v') (t, k, v)) eqn:G; auto.
      apply gen_eqb_eq in G. inversion G; subst t k v.
      cbn [app filter fst].
      assert (sub_eqb sb1 sb = false) as ->.
      { destruct (sub_eqb sb1 sb) eqn:F; auto. apply sub_eqb_eq in F. subst.
        unfold ekey_eqb in E. rewrite (proj2 (ty_eqb_eq t' t') eq_refl), bytes_eqb_refl, Z.eqb_refl in E.
        rewrite (proj2 (sub_eqb_eq sb sb) eq_refl) in E. discriminate. }
      reflexivity.
Qed.

Lemma el_of_put s t k v sb x t' k' v' :
  el_of (el_put s t k v sb x) t' k' v' =
  if gen_eqb (t', k', v') (t, k, v)
  then (sb, x) :: filter (fun e => negb (sub_eqb (fst e) sb)) (el_of s t' k' v')
  else el_of s t' k' v'.
Proof.
  rewrite !el_of_unfold. unfold el_put, aset. cbn [elems el_of_list flat_map].
  fold (el_of_list (adel ekey_eqb (t, k, v, sb) (elems s)) t' k' v'). rewrite el_of_list_adel.
  change (ty_eqb t' t && bytes_eqb k' k && (v' =? v)) with (gen_eqb (t', k', v') (t, k, v)).
  destruct (gen_eqb (t', k', v') (t, k, v)); reflexivity.
Qed.
Lemma el_of_del s t k v sb t' k' v' :
  el_of (el_del s t k v sb) t' k' v' =
  if gen_eqb (t', k', v') (t, k, v)
  then filter (fun e => negb (sub_eqb (fst e) sb)) (el_of s t' k' v')
  else el_of s t' k' v'.
Proof. rewrite !el_of_unfold. unfold el_del. cbn [elems]. apply el_of_list_adel. Qed.
Lemma el_of_kv_put s k h x t' k' v' : el_of (kv_put s k h x) t' k' v' = el_of s t' k' v'. Proof. reflexivity. Qed.
Lemma el_of_kv_del s k t' k' v' : el_of (kv_del s k) t' k' v' = el_of s t' k' v'. Proof. reflexivity. Qed.
Lemma el_of_meta_put s t k m t' k' v' : el_of (meta_put s t k m) t' k' v' = el_of s t' k' v'. Proof. reflexivity. Qed.
Lemma el_of_meta_del s t k t' k' v' : el_of (meta_del s t k) t' k' v' = el_of s t' k' v'. Proof. reflexivity. Qed.

Arguments ttl_of : simpl never.
Arguments is_expired : simpl never.
Arguments sec : simpl never.

Lemma el_of_list_del_gen l t k v t' k' v' :
  el_of_list (filter (fun e : ekey * eval => match e with ((t1, k1, v1, _), _) => negb (ty_eqb t t1 && bytes_eqb k k1 && (v =? v1)) end) l) t' k' v' =
  if gen_eqb (t', k', v') (t, k, v) then [] else el_of_list l t' k' v'.
Proof.
  induction l as [|[[[[t1 k1] v1] sb1] x] l IH].
  - cbn [filter el_of_list flat_map aget]. now destruct (gen_eqb (t', k', v') (t, k, v)).
  - cbn [filter]. change (ty_eqb t t1 && bytes_eqb k k1 && (v =? v1)) with (gen_eqb (t, k, v) (t1, k1, v1)).
    destruct (gen_eqb (t, k, v) (t1, k1, v1)) eqn:E; cbn [negb].
    + rewrite IH. apply gen_eqb_eq in E. inversion E; subst t1 k1 v1.
      cbn [el_of_list flat_map]. fold (el_of_list l t' k' v').
      change (ty_eqb t' t && bytes_eqb k' k && (v' =? v)) with (gen_eqb (t', k', v') (t, k, v)).
      destruct (gen_eqb (t', k', v') (t, k, v)); reflexivity.
    + cbn [el_of_list flat_map]. fold (el_of_list l t' k' v').
      fold (el_of_list (filter (fun e : ekey * eval => match e with ((t2, k2, v2, _), _) => negb (ty_eqb t t2 && bytes_eqb k k2 && (v =? v2)) end) l) t' k' v').
      rewrite IH.
      change (ty_eqb t' t1 && bytes_eqb k' k1 && (v' =? v1)) with (gen_eqb (t', k', v') (t1, k1, v1)).
      destruct (gen_eqb (t', k', v') (t, k, v)) eqn:G; auto.
      destruct (gen_eqb (t', k', v') (t1, k1, v1)) eqn:G1; auto.
      apply gen_eqb_eq in G, G1. rewrite G in G1. rewrite G1, gen_eqb_refl in E. discriminate.
Qed.
Lemma el_of_del_gen_eq s t k v t' k' v' :
  el_of (el_del_gen s t k v) t' k' v' = if gen_eqb (t', k', v') (t, k, v) then [] else el_of s t' k' v'.
Proof. rewrite !el_of_unfold. unfold el_del_gen. cbn [elems]. apply el_of_list_del_gen. Qed.
Lemma el_get_del_gen s t k v t' k' v' sb' :
  el_get (el_del_gen s t k v) t' k' v' sb' = if gen_eqb (t', k', v') (t, k, v) then None else el_get s t' k' v' sb'.
Proof.
  unfold el_get, el_del_gen. cbn [elems]. induction (elems s) as [|[[[[t1 k1] v1] sb1] x] l IH].
  - cbn [filter el_of_list flat_map aget]. now destruct (gen_eqb (t', k', v') (t, k, v)).
  - cbn [filter]. change (ty_eqb t t1 && bytes_eqb k k1 && (v =? v1)) with (gen_eqb (t, k, v) (t1, k1, v1)).
    destruct (gen_eqb (t, k, v) (t1, k1, v1)) eqn:E; cbn [negb aget].
    + rewrite IH. apply gen_eqb_eq in E. inversion E; subst t1 k1 v1.
      destruct (gen_eqb (t', k', v') (t, k, v)) eqn:G; auto.
      destruct (ekey_eqb (t', k', v', sb') (t, k, v, sb1)) eqn:X; auto.
      apply ekey_eqb_eq in X. inversion X; subst. now rewrite gen_eqb_refl in G.
    + rewrite IH. destruct (ekey_eqb (t', k', v', sb') (t1, k1, v1, sb1)) eqn:X; auto.
      apply ekey_eqb_eq in X. inversion X; subst t1 k1 v1 sb1.
      destruct (gen_eqb (t', k', v') (t, k, v)) eqn:G; auto.
      apply gen_eqb_eq in G. rewrite G, gen_eqb_refl in E. discriminate.
Qed.

(* ---------- the relation "equal except for dead content" ---------- *)
Section Rel.
  Variables (T : Z) (t0 : ty) (k0 : bytes) (g : Z).

  Definition hdead (h : hdr) : Prop := h_exp h <> 0 /\ h_exp h <= T.
  Definition kvdead (o : option (hdr * bytes)) : Prop := match o with None => True | Some (h, _) => hdead h end.
  Definition mdead (o : option meta) : Prop := match o with None => True | Some m => hdead (m_hdr m) end.
  Definition kv_same (a b : option (hdr * bytes)) : Prop :=
    match a, b with
    | None, None => True
    | Some (h1, v1), Some (h2, v2) => h_exp h1 = h_exp h2 /\ v1 = v2
    | _, _ => False
    end.

  Record R (s1 s2 : store) : Prop := mkR {
    R_kv : forall k, kv_same (kv_get s1 k) (kv_get s2 k) \/
                     (t0 = TK /\ k = k0 /\ kvdead (kv_get s1 k) /\ kvdead (kv_get s2 k));
    R_meta : forall t k, meta_get s1 t k = meta_get s2 t k \/
                         (t = t0 /\ k = k0 /\ mdead (meta_get s1 t k) /\ mdead (meta_get s2 t k));
    R_el : forall t k v sb, (t, k, v) <> (t0, k0, g) -> el_get s1 t k v sb = el_get s2 t k v sb;
    R_elof : forall t k v, (t, k, v) <> (t0, k0, g) -> el_of s1 t k v = el_of s2 t k v;
    R_live1 : forall m, meta_get s1 t0 k0 = Some m -> (~ hdead (m_hdr m) -> h_ver (m_hdr m) <> g) /\ h_ver (m_hdr m) <> 0;
    R_live2 : forall m, meta_get s2 t0 k0 = Some m -> (~ hdead (m_hdr m) -> h_ver (m_hdr m) <> g) /\ h_ver (m_hdr m) <> 0;
    R_zero1 : forall sb, el_get s1 t0 k0 0 sb = None;
    R_zero2 : forall sb, el_get s2 t0 k0 0 sb = None;
    R_tidx : tidx s1 = tidx s2
  }.

  Lemma kv_same_refl a : kv_same a a.
  Proof. destruct a as [[h v]|]; simpl; auto. Qed.

  Lemma hdead_expired h ts : hdead h -> ts <> 0 -> T <= sec ts -> is_expired Compact h ts = true.
  Proof. intros [H1 H2] H3 H4. apply is_expired_spec. lia. Qed.

  Lemma expired_exp h1 h2 ts : h_exp h1 = h_exp h2 -> is_expired Compact h1 ts = is_expired Compact h2 ts.
  Proof. unfold is_expired. now intros ->. Qed.

  (* ----- congruence of R under the primitive store operations ----- *)
  Lemma mkey_dec (t : ty) (k : bytes) (t' : ty) (k' : bytes) : mkey_eqb (t', k') (t, k) = true -> t' = t /\ k' = k.
  Proof. intros H. apply mkey_eqb_eq in H. now inversion H. Qed.

  Lemma R_kv_put s1 s2 k h1 h2 v : R s1 s2 -> h_exp h1 = h_exp h2 -> R (kv_put s1 k h1 v) (kv_put s2 k h2 v).
  Proof.
    intros [A B C D E F Z1 Z2 G] He. constructor; auto.
    intros k'. rewrite !kv_get_put. destruct (bytes_eqb k' k); [left; simpl; auto | apply A].
  Qed.
  Lemma R_kv_del s1 s2 k : R s1 s2 -> R (kv_del s1 k) (kv_del s2 k).
  Proof.
    intros [A B C D E F Z1 Z2 G]. constructor; auto.
    intros k'. rewrite !kv_get_del. destruct (bytes_eqb k' k); [left; simpl; auto | apply A].
  Qed.
  Lemma R_meta_put s1 s2 t k m : R s1 s2 ->
    ((t, k) = (t0, k0) -> (~ hdead (m_hdr m) -> h_ver (m_hdr m) <> g) /\ h_ver (m_hdr m) <> 0) ->
    R (meta_put s1 t k m) (meta_put s2 t k m).
  Proof.
    intros [A B C D E F Z1 Z2 G] Hg. constructor; auto.
    - intros t' k'. rewrite !meta_get_put. destruct (mkey_eqb (t', k') (t, k)); [left; auto | apply B].
    - intros m'. rewrite meta_get_put. destruct (mkey_eqb (t0, k0) (t, k)) eqn:X.
      + apply mkey_eqb_eq in X. intros Hm; inversion Hm; subst m'. apply Hg. now symmetry.
      + apply E.
    - intros m'. rewrite meta_get_put. destruct (mkey_eqb (t0, k0) (t, k)) eqn:X.
      + apply mkey_eqb_eq in X. intros Hm; inversion Hm; subst m'. apply Hg. now symmetry.
      + apply F.
  Qed.
  Lemma R_meta_del s1 s2 t k : R s1 s2 -> R (meta_del s1 t k) (meta_del s2 t k).
  Proof.
    intros [A B C D E F Z1 Z2 G]. constructor; auto.
    - intros t' k'. rewrite !meta_get_del. destruct (mkey_eqb (t', k') (t, k)); [left; auto | apply B].
    - intros m'. rewrite meta_get_del. destruct (mkey_eqb (t0, k0) (t, k)); [discriminate | apply E].
    - intros m'. rewrite meta_get_del. destruct (mkey_eqb (t0, k0) (t, k)); [discriminate | apply F].
  Qed.
  Lemma R_el_put s1 s2 t k v sb x : R s1 s2 -> (t, k, v) <> (t0, k0, g) -> (t, k, v) <> (t0, k0, 0) ->
    R (el_put s1 t k v sb x) (el_put s2 t k v sb x).
  Proof.
    intros [A B C D E F Z1 Z2 G] Hn Hz. constructor; auto.
    - intros t' k' v' sb' Hn'. rewrite !el_get_put. destruct (ekey_eqb _ _); auto.
    - intros t' k' v' Hn'. rewrite !el_of_put. rewrite (D _ _ _ Hn'). reflexivity.
    - intros sb'. rewrite el_get_put. destruct (ekey_eqb _ _) eqn:X; auto.
      apply ekey_eqb_eq in X. inversion X; subst. contradiction.
    - intros sb'. rewrite el_get_put. destruct (ekey_eqb _ _) eqn:X; auto.
      apply ekey_eqb_eq in X. inversion X; subst. contradiction.
  Qed.
  Lemma R_el_del s1 s2 t k v sb : R s1 s2 -> (t, k, v) <> (t0, k0, g) ->
    R (el_del s1 t k v sb) (el_del s2 t k v sb).
  Proof.
    intros [A B C D E F Z1 Z2 G] Hn. constructor; auto.
    - intros t' k' v' sb' Hn'. rewrite !el_get_del. destruct (ekey_eqb _ _); auto.
    - intros t' k' v' Hn'. rewrite !el_of_del. rewrite (D _ _ _ Hn'). reflexivity.
    - intros sb'. rewrite el_get_del. destruct (ekey_eqb _ _); auto.
    - intros sb'. rewrite el_get_del. destruct (ekey_eqb _ _); auto.
  Qed.
  Lemma R_fold_el_put {A} s1 s2 t k v (f : A -> skey) (fx : A -> eval) l : R s1 s2 -> (t, k, v) <> (t0, k0, g) -> (t, k, v) <> (t0, k0, 0) ->
    R (fold_left (fun st a => el_put st t k v (f a) (fx a)) l s1) (fold_left (fun st a => el_put st t k v (f a) (fx a)) l s2).
  Proof. revert s1 s2. induction l as [|a l IH]; intros s1 s2 H Hn Hz; simpl; auto. apply IH; auto. now apply R_el_put. Qed.
  Lemma R_fold_el_del {A} s1 s2 t k v (f : A -> skey) l : R s1 s2 -> (t, k, v) <> (t0, k0, g) ->
    R (fold_left (fun st a => el_del st t k v (f a)) l s1) (fold_left (fun st a => el_del st t k v (f a)) l s2).
  Proof. revert s1 s2. induction l as [|a l IH]; intros s1 s2 H Hn; simpl; auto. apply IH; auto. now apply R_el_del. Qed.

  Lemma R_el_del_gen s1 s2 t k v : R s1 s2 -> (t, k, v) <> (t0, k0, g) -> R (el_del_gen s1 t k v) (el_del_gen s2 t k v).
  Proof.
    intros [A B C D E F Z1 Z2 G] Hn. constructor; auto.
    - intros t' k' v' sb' Hn'. rewrite !el_get_del_gen. destruct (gen_eqb _ _); auto.
    - intros t' k' v' Hn'. rewrite !el_of_del_gen_eq. destruct (gen_eqb _ _); auto.
    - intros sb'. rewrite el_get_del_gen. destruct (gen_eqb _ _); auto.
    - intros sb'. rewrite el_get_del_gen. destruct (gen_eqb _ _); auto.
  Qed.

  (* one-sided no-ops *)
  Lemma R_meta_del_none_r s1 s2 t k : R s1 s2 -> meta_get s2 t k = None -> R s1 (meta_del s2 t k).
  Proof.
    intros [A B C D E F Z1 Z2 G] Hn. constructor; auto.
    - intros t' k'. rewrite meta_get_del. destruct (mkey_eqb (t', k') (t, k)) eqn:X; [|apply B].
      apply mkey_dec in X as [-> ->]. rewrite <- Hn. apply B.
    - intros m'. rewrite meta_get_del. destruct (mkey_eqb (t0, k0) (t, k)); [discriminate | apply F].
  Qed.
  Lemma R_meta_del_none_l s1 s2 t k : R s1 s2 -> meta_get s1 t k = None -> R (meta_del s1 t k) s2.
  Proof.
    intros [A B C D E F Z1 Z2 G] Hn. constructor; auto.
    - intros t' k'. rewrite meta_get_del. destruct (mkey_eqb (t', k') (t, k)) eqn:X; [|apply B].
      apply mkey_dec in X as [-> ->]. rewrite <- Hn. apply B.
    - intros m'. rewrite meta_get_del. destruct (mkey_eqb (t0, k0) (t, k)); [discriminate | apply E].
  Qed.
End Rel.
