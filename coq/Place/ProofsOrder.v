(* Place/ProofsOrder.v — C17, part 4: the Min()/Max() of getMinMaxLoadFor* do not depend on the order in
   which Go iterates the load maps: both comparators are strict total orders on records with distinct
   nameIndex, so the least / greatest candidate is unique. *)
From ZV Require Import Common.Bytes Part.Model Place.Consts Place.Model Place.Proofs Place.ProofsV2.
From Coq Require Import Permutation ZifyN ZifyNat ZifyBool Arith PeanoNat.
Open Scope nat_scope.

Section Order.
Variable ltb : nload -> nload -> bool.
Variable dom : list nload.
Hypothesis total : forall a b, In a dom -> In b dom -> a = b \/ ltb a b = true \/ ltb b a = true.
Hypothesis asym : forall a b, ltb a b = true -> ltb b a = false.
Hypothesis trans : forall a b c, ltb a b = true -> ltb b c = true -> ltb a c = true.

Lemma min_by_least : forall l m, incl l dom -> min_by ltb l = Some m ->
  In m l /\ forall x, In x l -> x = m \/ ltb m x = true.
Proof.
  induction l as [|x l IH]; intros m Hd H; simpl in H; [discriminate|].
  assert (Hdl : incl l dom) by (intros z Hz; apply Hd; right; exact Hz).
  destruct (min_by ltb l) as [m0|] eqn:E.
  - destruct (IH m0 Hdl eq_refl) as [Hin Hle].
    destruct (ltb m0 x) eqn:E0; inversion H; subst m.
    + split; [right; exact Hin|]. intros y [<-|Hy]; [right; exact E0|apply Hle; exact Hy].
    + split; [left; reflexivity|]. intros y [<-|Hy]; [left; reflexivity|].
      destruct (total m0 x) as [->|[C|C]]; [apply Hdl; exact Hin|apply Hd; left; reflexivity| |congruence|].
      * apply Hle. exact Hy.
      * destruct (Hle y Hy) as [->|L]; [right; exact C|right; eapply trans; eassumption].
  - apply min_by_none in E. subst l. inversion H; subst. split; [left; reflexivity|].
    intros y [<-|[]]. left; reflexivity.
Qed.

Lemma max_by_greatest : forall l m, incl l dom -> max_by ltb l = Some m ->
  In m l /\ forall x, In x l -> x = m \/ ltb x m = true.
Proof.
  induction l as [|x l IH]; intros m Hd H; simpl in H; [discriminate|].
  assert (Hdl : incl l dom) by (intros z Hz; apply Hd; right; exact Hz).
  destruct (max_by ltb l) as [m0|] eqn:E.
  - destruct (IH m0 Hdl eq_refl) as [Hin Hle].
    destruct (ltb x m0) eqn:E0; inversion H; subst m.
    + split; [right; exact Hin|]. intros y [<-|Hy]; [right; exact E0|apply Hle; exact Hy].
    + split; [left; reflexivity|]. intros y [<-|Hy]; [left; reflexivity|].
      destruct (total x m0) as [<-|[C|C]]; [apply Hd; left; reflexivity|apply Hdl; exact Hin| |congruence|].
      * apply Hle. exact Hy.
      * destruct (Hle y Hy) as [->|L]; [right; exact C|right; eapply trans; eassumption].
  - apply max_by_none in E. subst l. inversion H; subst. split; [left; reflexivity|].
    intros y [<-|[]]. left; reflexivity.
Qed.

Theorem min_by_perm l l' : incl l dom -> Permutation l l' -> min_by ltb l = min_by ltb l'.
Proof.
  intros Hd P.
  assert (Hd' : incl l' dom) by (intros z Hz; apply Hd; eapply Permutation_in; [symmetry; exact P|exact Hz]).
  destruct (min_by ltb l) as [m|] eqn:E, (min_by ltb l') as [m'|] eqn:E'.
  - destruct (min_by_least l m Hd E) as [Hin Hle]. destruct (min_by_least l' m' Hd' E') as [Hin' Hle'].
    destruct (Hle m' (Permutation_in _ (Permutation_sym P) Hin')) as [->|L]; [reflexivity|].
    destruct (Hle' m (Permutation_in _ P Hin)) as [->|L']; [reflexivity|].
    rewrite (asym _ _ L) in L'. discriminate.
  - apply min_by_none in E'. subst l'. apply Permutation_sym, Permutation_nil in P. subst l. discriminate.
  - apply min_by_none in E. subst l. apply Permutation_nil in P. subst l'. discriminate.
  - reflexivity.
Qed.
Theorem max_by_perm l l' : incl l dom -> Permutation l l' -> max_by ltb l = max_by ltb l'.
Proof.
  intros Hd P.
  assert (Hd' : incl l' dom) by (intros z Hz; apply Hd; eapply Permutation_in; [symmetry; exact P|exact Hz]).
  destruct (max_by ltb l) as [m|] eqn:E, (max_by ltb l') as [m'|] eqn:E'.
  - destruct (max_by_greatest l m Hd E) as [Hin Hle]. destruct (max_by_greatest l' m' Hd' E') as [Hin' Hle'].
    destruct (Hle m' (Permutation_in _ (Permutation_sym P) Hin')) as [->|L]; [reflexivity|].
    destruct (Hle' m (Permutation_in _ P Hin)) as [->|L']; [reflexivity|].
    rewrite (asym _ _ L) in L'. discriminate.
  - apply max_by_none in E'. subst l'. apply Permutation_sym, Permutation_nil in P. subst l. discriminate.
  - apply max_by_none in E. subst l. apply Permutation_nil in P. subst l'. discriminate.
  - reflexivity.
Qed.
End Order.

(* the two comparators *)
Lemma lead_ltb_asym a b : lead_ltb a b = true -> lead_ltb b a = false.
Proof.
  unfold lead_ltb.
  destruct (Nat.eqb_spec (length (nl_lead a)) (length (nl_lead b))), (Nat.eqb_spec (length (nl_lead b)) (length (nl_lead a))); try lia;
  destruct (Nat.eqb_spec (length (nl_rep a)) (length (nl_rep b))), (Nat.eqb_spec (length (nl_rep b)) (length (nl_rep a))); try lia;
  intros H; lia.
Qed.
Lemma lead_ltb_trans a b c : lead_ltb a b = true -> lead_ltb b c = true -> lead_ltb a c = true.
Proof.
  unfold lead_ltb.
  destruct (Nat.eqb_spec (length (nl_lead a)) (length (nl_lead b))), (Nat.eqb_spec (length (nl_lead b)) (length (nl_lead c))),
           (Nat.eqb_spec (length (nl_lead a)) (length (nl_lead c))); try lia;
  destruct (Nat.eqb_spec (length (nl_rep a)) (length (nl_rep b))), (Nat.eqb_spec (length (nl_rep b)) (length (nl_rep c))),
           (Nat.eqb_spec (length (nl_rep a)) (length (nl_rep c))); try lia; intros H1 H2; lia.
Qed.
Lemma lead_ltb_total a b : nl_idx a <> nl_idx b -> lead_ltb a b = true \/ lead_ltb b a = true.
Proof.
  unfold lead_ltb. intros Hi.
  destruct (Nat.eqb_spec (length (nl_lead a)) (length (nl_lead b))), (Nat.eqb_spec (length (nl_lead b)) (length (nl_lead a))); try lia;
  destruct (Nat.eqb_spec (length (nl_rep a)) (length (nl_rep b))), (Nat.eqb_spec (length (nl_rep b)) (length (nl_rep a))); try lia.
Qed.
Lemma rep_ltb_asym a b : rep_ltb a b = true -> rep_ltb b a = false.
Proof.
  unfold rep_ltb.
  destruct (Nat.eqb_spec (length (nl_rep a)) (length (nl_rep b))), (Nat.eqb_spec (length (nl_rep b)) (length (nl_rep a))); try lia;
  intros H; lia.
Qed.
Lemma rep_ltb_trans a b c : rep_ltb a b = true -> rep_ltb b c = true -> rep_ltb a c = true.
Proof.
  unfold rep_ltb.
  destruct (Nat.eqb_spec (length (nl_rep a)) (length (nl_rep b))), (Nat.eqb_spec (length (nl_rep b)) (length (nl_rep c))),
           (Nat.eqb_spec (length (nl_rep a)) (length (nl_rep c))); try lia; intros H1 H2; lia.
Qed.
Lemma rep_ltb_total a b : nl_idx a <> nl_idx b -> rep_ltb a b = true \/ rep_ltb b a = true.
Proof.
  unfold rep_ltb. intros Hi.
  destruct (Nat.eqb_spec (length (nl_rep a)) (length (nl_rep b))), (Nat.eqb_spec (length (nl_rep b)) (length (nl_rep a))); try lia.
Qed.

Lemma idx_total ls a b : NoDup (map nl_idx ls) -> In a ls -> In b ls -> a = b \/ nl_idx a <> nl_idx b.
Proof.
  induction ls as [|x ls IH]; intros Hnd Ha Hb; [destruct Ha|].
  simpl in Hnd. inversion Hnd as [|? ? Hnx Hnd']; subst.
  destruct Ha as [<-|Ha], Hb as [<-|Hb].
  - left; reflexivity.
  - right. intros E. apply Hnx. rewrite E. apply in_map. exact Hb.
  - right. intros E. apply Hnx. rewrite <- E. apply in_map. exact Ha.
  - apply IH; assumption.
Qed.

(* getMinMaxLoadForLeader / getMinMaxLoadForReplica: the selected nodes are the same for every
   enumeration order of the candidate set *)
Theorem minmax_order_independent ls ls' :
  NoDup (map nl_idx ls) -> Permutation ls ls' ->
  min_by lead_ltb ls = min_by lead_ltb ls' /\ max_by lead_ltb ls = max_by lead_ltb ls' /\
  min_by rep_ltb ls = min_by rep_ltb ls' /\ max_by rep_ltb ls = max_by rep_ltb ls'.
Proof.
  intros Hnd P.
  assert (TL : forall a b, In a ls -> In b ls -> a = b \/ lead_ltb a b = true \/ lead_ltb b a = true).
  { intros a b Ha Hb. destruct (idx_total ls a b Hnd Ha Hb) as [->|Hi]; [left; reflexivity|right; apply lead_ltb_total; exact Hi]. }
  assert (TR : forall a b, In a ls -> In b ls -> a = b \/ rep_ltb a b = true \/ rep_ltb b a = true).
  { intros a b Ha Hb. destruct (idx_total ls a b Hnd Ha Hb) as [->|Hi]; [left; reflexivity|right; apply rep_ltb_total; exact Hi]. }
  repeat split.
  - apply (min_by_perm lead_ltb ls TL lead_ltb_asym lead_ltb_trans); [apply incl_refl|exact P].
  - apply (max_by_perm lead_ltb ls TL lead_ltb_asym lead_ltb_trans); [apply incl_refl|exact P].
  - apply (min_by_perm rep_ltb ls TR rep_ltb_asym rep_ltb_trans); [apply incl_refl|exact P].
  - apply (max_by_perm rep_ltb ls TR rep_ltb_asym rep_ltb_trans); [apply incl_refl|exact P].
Qed.

(* the rotated indices handed out by fillPartitionMapV2 are pairwise distinct *)
Lemma init_idx h n : forall ring i, map nl_idx (init_loads h n i ring) = map (fun j => ((i + N.of_nat j) + h) mod n)%N (seq 0 (length ring)).
Proof.
  induction ring as [|x ring IH]; intros i; simpl; [reflexivity|]. f_equal.
  - rewrite wrap_v2_id. f_equal. lia.
  - rewrite IH. rewrite <- seq_shift, map_map. apply map_ext. intros j. f_equal. lia.
Qed.
Theorem init_idx_nodup h (ring : list (list N)) :
  NoDup (map nl_idx (init_loads h (N.of_nat (length ring)) 0 ring)).
Proof.
  rewrite init_idx. apply NoDup_map_in; [|apply seq_NoDup].
  intros x y Hx Hy E. apply in_seq in Hx, Hy.
  assert (Hn : N.of_nat (length ring) <> 0%N) by lia.
  assert (E' : N.to_nat ((0 + N.of_nat x + h) mod N.of_nat (length ring)) = N.to_nat ((0 + N.of_nat y + h) mod N.of_nat (length ring))) by congruence.
  rewrite !N2Nat.inj_mod, !N2Nat.inj_add, !Nat2N.id in E'. simpl in E'.
  replace (x + N.to_nat h) with (N.to_nat h + x) in E' by lia. replace (y + N.to_nat h) with (N.to_nat h + y) in E' by lia.
  eapply mod_add_inj; [| |exact E']; lia.
Qed.
