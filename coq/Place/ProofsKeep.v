(* Place/ProofsKeep.v — C17, part 6: what V2 keeps of the previous layout (data stability).
   Exactly what the code guarantees:
   (K1) fill phase: a member of the (trimmed) old list of a partition that is still alive stays in its slot;
   (K1') a slot whose old member is dead or absent gets a live node that is not in the old list;
   (K2) when the load maps are balanced after the fill phase the fill-phase layout is the result;
   (K3) otherwise each moveIfUnbalanced step rewrites at most one partition list, and there are at most
        r * p + 1 steps. Nothing more is promised: a move may replace a surviving member. *)
From ZV Require Import Common.Bytes Common.BytesFacts Part.Model Place.Consts Place.Model Place.Proofs Place.ProofsV2
  Place.SweepDefs Place.ProofsV2Fresh.
From Coq Require Import Permutation ZifyN ZifyNat ZifyBool Arith PeanoNat.
Open Scope nat_scope.

Lemma has_node_same_names x ls ls' : names ls' = names ls -> has_node x ls' = has_node x ls.
Proof.
  intros E. destruct (has_node x ls) eqn:H.
  - apply has_node_names. rewrite E. apply has_node_names. exact H.
  - apply has_node_false. rewrite E. apply has_node_false. exact H.
Qed.

Lemma fill_slots_keep pid old : forall rem j ls excl ls' rest,
  fill_slots pid old j rem ls excl = Ok (ls', rest) ->
  forall i, i < rem ->
    (has_node (nth (j + i) old []) ls = true -> nth i rest [] = nth (j + i) old []) /\
    (has_node (nth (j + i) old []) ls = false -> In (nth i rest []) (names ls) /\ ~ In (nth i rest []) excl).
Proof.
  induction rem as [|rem IH]; intros j ls excl ls' rest E i Hi; [lia|].
  rewrite fill_slots_S in E. cbv zeta in E.
  destruct (has_node (nth j old []) ls) eqn:Eh.
  - destruct (fill_slots pid old (S j) rem ls excl) as [[ls1 r1]| |] eqn:E1; try discriminate.
    inversion E; subst ls' rest; clear E.
    destruct i as [|i].
    + rewrite Nat.add_0_r. simpl. split; [reflexivity|congruence].
    + replace (j + S i) with (S j + i) by lia. simpl nth at 1 3. apply (IH (S j) ls excl ls1 r1 E1). lia.
  - destruct (if Nat.eqb j 0 then min_by lead_ltb (cands excl ls) else min_by rep_ltb (cands excl ls)) as [m|] eqn:Em;
      [|discriminate].
    assert (Hm : In m ls /\ ~ In (nl_name m) excl).
    { apply cands_in. destruct (Nat.eqb j 0); eapply min_by_in; exact Em. }
    match type of E with context [fill_slots pid old (S j) rem ?L ?X] =>
      set (ls1 := L) in *; destruct (fill_slots pid old (S j) rem ls1 X) as [[ls2 r1]| |] eqn:E1; try discriminate end.
    inversion E; subst ls' rest; clear E.
    assert (Hn1 : names ls1 = names ls) by (subst ls1; destruct (Nat.eqb j 0); apply names_upd; auto with np).
    destruct i as [|i].
    + rewrite Nat.add_0_r. simpl. split; [congruence|]. intros _. split; [apply in_map; tauto|tauto].
    + replace (j + S i) with (S j + i) by lia. simpl nth at 1 3 5.
      destruct (IH (S j) ls1 (excl ++ [nl_name m]) ls2 r1 E1 i ltac:(lia)) as [A B].
      rewrite (has_node_same_names _ ls ls1 Hn1) in A, B. rewrite Hn1 in B.
      split; [exact A|]. intros H. destruct (B H) as [B1 B2]. split; [exact B1|].
      intros Hin. apply B2. apply in_app_iff. left. exact Hin.
Qed.

Lemma fill_parts_names r olds : forall rem pid ls ls' parts,
  fill_parts pid rem olds r ls = Ok (ls', parts) -> names ls' = names ls.
Proof.
  induction rem as [|rem IH]; intros pid ls ls' parts E.
  - simpl in E. inversion E; reflexivity.
  - rewrite fill_parts_S in E. cbv zeta in E.
    destruct (fill_slots pid _ 0 r ls _) as [[ls1 nl]| |] eqn:E1; try discriminate.
    destruct (fill_parts (pid + 1) rem olds r ls1) as [[ls2 rest]| |] eqn:E2; try discriminate.
    inversion E; subst. rewrite (IH _ _ _ _ E2). eapply fill_slots_names. exact E1.
Qed.

Lemma fill_parts_keep r olds : forall rem pid ls ls' parts,
  fill_parts pid rem olds r ls = Ok (ls', parts) ->
  forall k j, k < rem -> j < r ->
    let old := nth (N.to_nat pid + k) olds [] in
    (In (nth j old []) (names ls) -> nth j (nth k parts []) [] = nth j old []) /\
    (~ In (nth j old []) (names ls) -> In (nth j (nth k parts []) []) (names ls) /\ ~ In (nth j (nth k parts []) []) old).
Proof.
  induction rem as [|rem IH]; intros pid ls ls' parts E k j Hk Hj; [lia|].
  rewrite fill_parts_S in E. cbv zeta in E.
  destruct (fill_slots pid _ 0 r ls _) as [[ls1 nl]| |] eqn:E1; try discriminate.
  destruct (fill_parts (pid + 1) rem olds r ls1) as [[ls2 rest]| |] eqn:E2; try discriminate.
  inversion E; subst ls' parts; clear E.
  destruct k as [|k].
  - rewrite Nat.add_0_r. cbv zeta. simpl nth at 2 4 6.
    destruct (fill_slots_keep pid _ r 0 ls _ ls1 nl E1 j Hj) as [A B]. simpl in A, B.
    split.
    + intros H. apply A. apply has_node_names. exact H.
    + intros H. apply B. apply has_node_false. exact H.
  - cbv zeta. simpl nth at 2 4 6.
    replace (N.to_nat pid + S k) with (N.to_nat (pid + 1) + k) by lia.
    rewrite <- (fill_slots_names _ _ _ _ _ _ _ _ E1).
    apply (IH (pid + 1)%N ls1 ls2 rest E2 k j); lia.
Qed.

(* (K1), (K1') for the whole fill phase *)
Theorem v2_fill_phase_keeps h p r olds (ring : list (list N)) ls parts :
  v2_fill_phase h p r olds ring = Ok (ls, parts) ->
  forall pid j, pid < p -> j < r ->
    let old := nth pid olds [] in
    (In (nth j old []) ring -> nth j (nth pid parts []) [] = nth j old []) /\
    (~ In (nth j old []) ring -> In (nth j (nth pid parts []) []) ring /\ ~ In (nth j (nth pid parts []) []) (firstn r old)).
Proof.
  unfold v2_fill_phase. cbv zeta. intros E pid j Hp Hj.
  pose proof (fill_parts_keep r _ p 0%N _ ls parts E pid j Hp Hj) as H. cbv zeta in H.
  rewrite names_add_olds, names_init in H. simpl in H.
  assert (Ht : nth pid (map (firstn r) olds) [] = firstn r (nth pid olds [])).
  { destruct (Nat.lt_ge_cases pid (length olds)) as [L|L].
    - apply (nth_map_lt (firstn r) olds pid [] []). exact L.
    - rewrite !nth_overflow; [destruct r; reflexivity|exact L|rewrite map_length; exact L]. }
  rewrite Ht in H.
  assert (Hn : forall (o : list (list N)) r j, j < r -> nth j (firstn r o) [] = nth j o []).
  { clear. intros o r. revert o.
    induction r as [|r IH]; intros o j Hj; [lia|]. destruct o as [|x o]; [destruct j; reflexivity|].
    destruct j; [reflexivity|]. simpl. apply IH. lia. }
  specialize (Hn (nth pid olds []) r j Hj).
  rewrite Hn in H. exact H.
Qed.

(* (K2) balanced after the fill phase: the result is the fill-phase layout *)
Theorem fill_v2_keeps_when_balanced h p r olds (ring : list (list N)) ls parts :
  v2_fill_phase h p r olds ring = Ok (ls, parts) -> balanced ls = true ->
  fill_v2 h p r olds ring = Ok parts /\
  forall pid j, pid < p -> j < r -> In (nth j (nth pid olds []) []) ring ->
    nth j (nth pid parts []) [] = nth j (nth pid olds []) [].
Proof.
  intros E B. split; [eapply fill_v2_balanced; eassumption|].
  intros pid j Hp Hj Hin. apply (v2_fill_phase_keeps h p r olds ring ls parts E pid j Hp Hj). exact Hin.
Qed.

(* (K3) one move rewrites at most one partition list *)
Lemma upd_part_other f : forall parts k parts', upd_part k f parts = Some parts' ->
  forall i, i <> k -> nth i parts' [] = nth i parts [].
Proof.
  induction parts as [|x parts IH]; intros k parts' E i Hi; [destruct k; discriminate|].
  destruct k as [|k]; simpl in E.
  - inversion E; subst. destruct i; [congruence|reflexivity].
  - destruct (upd_part k f parts) as [r'|] eqn:E'; [|discriminate]. inversion E; subst.
    destruct i; [reflexivity|]. simpl. eapply IH; [exact E'|lia].
Qed.

Theorem move_step_one_list ls parts ls' parts' b :
  move_step ls parts = Ok (ls', parts', b) ->
  exists k, forall i, i <> k -> nth i parts' [] = nth i parts [].
Proof.
  unfold move_step. intros E.
  repeat match type of E with
  | match ?x with _ => _ end = _ => destruct x eqn:?; try discriminate
  | (if ?x then _ else _) = _ => destruct x eqn:?; try discriminate
  end;
  inversion E; subst;
  try (exists 0; intros; reflexivity);
  match goal with H : upd_part ?k _ parts = Some _ |- _ => exists k; eapply upd_part_other; exact H end.
Qed.
