(* Place/SweepDefs.v — C17: definitions for the exhaustive check of V2 fresh layouts on canonical rings
   (node i is called [i]; ring slot i belongs to data centre i mod d). Used by the Sweep*.v files
   (finite domains swept by vm_compute, lifted with forallb_forall) and by ProofsV2Fresh.v. *)
From ZV Require Import Common.Bytes Part.Model Place.Consts Place.Model.
Open Scope nat_scope.

Definition canon_ring (n : nat) : list (list N) := map (fun i => [N.of_nat i]) (seq 0 n).
Definition canon_idx (x : list N) : nat := match x with [i] => N.to_nat i | _ => 0 end.

(* the two "balanced" tests of moveIfUnbalanced *)
Definition balanced (ls : loads) : bool :=
  match min_by lead_ltb ls, max_by lead_ltb ls, min_by rep_ltb ls, max_by rep_ltb ls with
  | Some ln, Some lx, Some rn, Some rx =>
      Nat.leb (length (nl_lead lx) - length (nl_lead ln)) 1 && Nat.leb (length (nl_rep rx) - length (nl_rep rn)) 1
  | _, _, _, _ => false
  end.

Fixpoint nodup_nat (l : list nat) : bool :=
  match l with
  | [] => true
  | x :: r => negb (existsb (Nat.eqb x) r) && nodup_nat r
  end.

Definition spread_ok (d : nat) (parts : list (list (list N))) : bool :=
  forallb (fun nl => nodup_nat (map (fun x => canon_idx x mod d) nl)) parts.

(* fresh V2 layout of p partitions, r replicas on d*k canonical nodes with rotation hm:
   the fill phase leaves balanced maps (so moveIfUnbalanced moves nothing) and every list has r DCs *)
Definition check_one (d k r hm p : nat) : bool :=
  match v2_fill_phase (N.of_nat hm) p r [] (canon_ring (d * k)) with
  | Ok (ls, parts) => balanced ls && spread_ok d parts
  | _ => false
  end.

(* the same for all partition counts 1..rem at once: place the partitions one after the other and test
   after each one (the fill phase for p partitions is a prefix of the fill phase for more) *)
Fixpoint walk (d r : nat) (pid : N) (rem : nat) (ls : loads) : bool :=
  match rem with
  | O => true
  | S rem' =>
      match fill_slots pid [] 0 r ls [] with
      | Ok (ls1, nl) =>
          nodup_nat (map (fun x => canon_idx x mod d) nl) && balanced ls1 && walk d r (pid + 1) rem' ls1
      | _ => false
      end
  end.

Definition check_walk (pmax d k r hm : nat) : bool :=
  walk d r 0 pmax (init_loads (N.of_nat hm) (N.of_nat (d * k)) 0 (canon_ring (d * k))).

Definition check_dkr (pmax d k r : nat) : bool :=
  forallb (fun hm => check_walk pmax d k r hm) (seq 0 (d * k)).
