(* Place/Model.v — C17: partition placement (which nodes hold the replicas of each partition).
   Hand-written model of cluster/pdnode_coord/place_driver.go:
     getNodeNameList                       (group node ids by DC tag, sort DCs, sort names)
     getRebalancedNamespacePartitions      (refusal when nodes < replicas)
     getRebalancedPartitionsFromNameList   (re-sort, refusal, round-robin interleave into one ring)
     fillPartitionMapV1                    (ring algorithm: r consecutive ring slots per partition)
     fillPartitionMapV2                    (old lists trimmed to r, nameIndexMap rotation, leader/replica load maps, keep-old rule)
     loadItemLeaderCmp, loadItemReplicaCmp, getMinMaxLoadForLeader, getMinMaxLoadForReplica
     findPidInList, removePidFromList, replaceReplicaWith, moveIfUnbalanced and its bounded loop
   murmur3.Sum32 is Part/Model.v's murmur3_32.
   Conventions: node ids / DC names / namespace names are byte strings (Go string order = bytes_cmp);
   the three Go maps of V2 (nameIndexMap, newNodesLeaderMap, newNodesReplicaMap — same key set) are one
   association list of records in ring order; a Go run-time panic (nil type assertion on an empty
   candidate set, index out of range, negative slice capacity, division by zero) is [Panic].
   No proofs in this file. *)
From ZV Require Export Common.Bytes.
From ZV Require Import Part.Model Place.Consts.
Open Scope N_scope.

Inductive outcome (A : Type) : Type :=
| Ok (a : A)
| Refuse          (* ErrNodeUnavailable *)
| Panic.          (* Go run-time panic *)
Arguments Ok {A} a.
Arguments Refuse {A}.
Arguments Panic {A}.

(* notations, not definitions: implicit arguments stay syntactically [list N] everywhere *)
Notation name := (list N) (only parsing).
Notation layout := (list (list (list N))) (only parsing).

(* the value found under Tags["dc_info"] of a NodeInfo *)
Inductive tag : Type :=
| TagAbsent                (* no such tag *)
| TagOther                 (* a value that is not a string: dc.(string) fails, dcInfo stays "" *)
| TagStr (s : bytes).
Definition dc_of (t : tag) : bytes := match t with TagStr s => s | _ => [] end.

Definition mem_name (x : name) (l : list name) : bool := existsb (bytes_eqb x) l.

(* sort.Sort(SortableStrings): ascending in Go's string order *)
Fixpoint insert_sorted (x : name) (l : list name) : list name :=
  match l with
  | [] => [x]
  | y :: r => if bytes_leb x y then x :: l else y :: insert_sorted x r
  end.
Definition sort_names (l : list name) : list name := fold_right insert_sorted [] l.

Fixpoint dedup (l : list name) : list name :=
  match l with
  | [] => []
  | x :: r => if mem_name x r then dedup r else x :: dedup r
  end.

(* getNodeNameList: the node map is given as a list of (id, tag) in any order *)
Definition node_name_list (nodes : list (name * tag)) : list (list name) :=
  let dcs := sort_names (dedup (map (fun nt => dc_of (snd nt)) nodes)) in
  map (fun dc => sort_names (map fst (filter (fun nt => bytes_eqb (dc_of (snd nt)) dc) nodes))) dcs.

(* the round-robin interleave of getRebalancedPartitionsFromNameList: walking idx over the lists,
   skipping exhausted ones, is taking the heads of all non-empty lists round after round *)
Fixpoint heads (ls : list (list name)) : list name :=
  match ls with
  | [] => []
  | [] :: r => heads r
  | (x :: _) :: r => x :: heads r
  end.
Fixpoint tails (ls : list (list name)) : list (list name) :=
  match ls with
  | [] => []
  | [] :: r => [] :: tails r
  | (_ :: t) :: r => t :: tails r
  end.
Definition is_nil {A} (l : list A) : bool := match l with [] => true | _ => false end.
Fixpoint interleave (fuel : nat) (ls : list (list name)) : list name :=
  match fuel with
  | O => []
  | S f => if forallb is_nil ls then [] else heads ls ++ interleave f (tails ls)
  end.

Fixpoint all_some {A} (l : list (option A)) : option (list A) :=
  match l with
  | [] => Some []
  | None :: _ => None
  | Some a :: r => match all_some r with Some r' => Some (a :: r') | None => None end
  end.

Definition nseq (k : nat) : list N := map N.of_nat (seq 0 k).

(* the Go type in which an index is computed (Consts.v, read from the source): 0 = 64-bit int, no wrap-around;
   w > 0 = an unsigned type that wraps at w *)
Definition wrap_at (w x : N) : N := if w =? 0 then x else x mod w.

(* ---------- V1: ring ---------- *)
(* sortedNodes[i % len(sortedNodes)]; len = 0 is Go's integer-divide-by-zero panic *)
Definition ring_at (ring : list name) (i : N) : option name :=
  let n := N.of_nat (length ring) in
  if n =? 0 then None else nth_error ring (N.to_nat (i mod n)).

Definition v1_list (h : N) (ring : list name) (r : nat) (i : N) : option (list name) :=
  all_some (map (fun j => ring_at ring (wrap_at v1_index_wrap (h + i + j))) (nseq r)).

Definition fill_v1 (h : N) (p r : nat) (ring : list name) : outcome layout :=
  match all_some (map (v1_list h ring r) (nseq p)) with
  | Some l => Ok l
  | None => Panic
  end.

(* ---------- V2: incremental, least-loaded ---------- *)
Record nload : Type := mkload {
  nl_name : name;
  nl_idx : N;             (* nameIndexMap[name] *)
  nl_lead : list N;       (* newNodesLeaderMap[name]: partitions led, in insertion order *)
  nl_rep : list N         (* newNodesReplicaMap[name]: partitions held (leader included) *)
}.
Definition loads := list nload.

Definition has_node (nm : name) (ls : loads) : bool := existsb (fun l => bytes_eqb (nl_name l) nm) ls.
Definition upd_node (nm : name) (f : nload -> nload) (ls : loads) : loads :=
  map (fun l => if bytes_eqb (nl_name l) nm then f l else l) ls.
Definition set_lead (v : list N) (l : nload) : nload := mkload (nl_name l) (nl_idx l) v (nl_rep l).
Definition set_rep (v : list N) (l : nload) : nload := mkload (nl_name l) (nl_idx l) (nl_lead l) v.
Definition add_lead (pid : N) (l : nload) : nload := set_lead (nl_lead l ++ [pid]) l.
Definition add_rep (pid : N) (l : nload) : nload := set_rep (nl_rep l ++ [pid]) l.

Fixpoint init_loads (h n i : N) (ring : list name) : loads :=
  match ring with
  | [] => []
  | nm :: rest => mkload nm (wrap_at v2_index_wrap (i + h) mod n) [] [] :: init_loads h n (i + 1) rest
  end.

(* counting the previous layout into the load maps (only names that are still alive have an entry) *)
Definition add_old (pid : N) (olist : list name) (ls : loads) : loads :=
  let ls1 := match olist with [] => ls | ld :: _ => upd_node ld (add_lead pid) ls end in
  fold_left (fun ls nm => upd_node nm (add_rep pid) ls) olist ls1.
Fixpoint add_olds (pid : N) (olds : layout) (ls : loads) : loads :=
  match olds with
  | [] => ls
  | o :: rest => add_olds (pid + 1) rest (add_old pid o ls)
  end.

(* loadItemLeaderCmp < 0 : (#leaders, #replicas, nameIndex) lexicographic *)
Definition lead_ltb (a b : nload) : bool :=
  let la := length (nl_lead a) in let lb := length (nl_lead b) in
  let ra := length (nl_rep a) in let rb := length (nl_rep b) in
  if Nat.eqb la lb then (if Nat.eqb ra rb then nl_idx a <? nl_idx b else Nat.ltb ra rb) else Nat.ltb la lb.
(* loadItemReplicaCmp < 0 : (#replicas, nameIndex) *)
Definition rep_ltb (a b : nload) : bool :=
  let ra := length (nl_rep a) in let rb := length (nl_rep b) in
  if Nat.eqb ra rb then nl_idx a <? nl_idx b else Nat.ltb ra rb.

(* treemap Min()/Max() under a comparator (no two live nodes compare equal: nameIndex is injective) *)
Fixpoint min_by (ltb : nload -> nload -> bool) (l : loads) : option nload :=
  match l with
  | [] => None
  | x :: r => match min_by ltb r with
              | None => Some x
              | Some m => if ltb m x then Some m else Some x
              end
  end.
Fixpoint max_by (ltb : nload -> nload -> bool) (l : loads) : option nload :=
  match l with
  | [] => None
  | x :: r => match max_by ltb r with
              | None => Some x
              | Some m => if ltb x m then Some m else Some x
              end
  end.

Definition cands (excl : list name) (ls : loads) : loads :=
  filter (fun l => negb (mem_name (nl_name l) excl)) ls.

(* the inner loop over replica slots j = j0 .. j0+rem-1 of partition pid *)
Fixpoint fill_slots (pid : N) (oldlist : list name) (j rem : nat) (ls : loads) (excl : list name)
  : outcome (loads * list name) :=
  match rem with
  | O => Ok (ls, [])
  | S rem' =>
      let old := nth j oldlist [] in      (* "" when the old list is shorter *)
      if has_node old ls then
        match fill_slots pid oldlist (S j) rem' ls excl with
        | Ok (ls', rest) => Ok (ls', old :: rest)
        | Refuse => Refuse
        | Panic => Panic
        end
      else
        let pick := if Nat.eqb j 0 then min_by lead_ltb (cands excl ls) else min_by rep_ltb (cands excl ls) in
        match pick with
        | None => Panic                    (* mm.(loadItem) on a nil interface *)
        | Some m =>
            let nm := nl_name m in
            let ls1 := if Nat.eqb j 0
                       then upd_node nm (fun l => add_rep pid (add_lead pid l)) ls
                       else upd_node nm (add_rep pid) ls in
            match fill_slots pid oldlist (S j) rem' ls1 (excl ++ [nm]) with
            | Ok (ls', rest) => Ok (ls', nm :: rest)
            | Refuse => Refuse
            | Panic => Panic
            end
        end
  end.

Fixpoint fill_parts (pid : N) (rem : nat) (olds : layout) (r : nat) (ls : loads) : outcome (loads * layout) :=
  match rem with
  | O => Ok (ls, [])
  | S rem' =>
      let oldlist := nth (N.to_nat pid) olds [] in
      match fill_slots pid oldlist 0 r ls oldlist with
      | Ok (ls1, nl) =>
          match fill_parts (pid + 1) rem' olds r ls1 with
          | Ok (ls2, rest) => Ok (ls2, nl :: rest)
          | Refuse => Refuse
          | Panic => Panic
          end
      | Refuse => Refuse
      | Panic => Panic
      end
  end.

Definition in_pids (pid : N) (l : list N) : bool := existsb (N.eqb pid) l.
Definition remove_pid (pid : N) (l : list N) : list N := filter (fun q => negb (q =? pid)) l.

(* replaceReplicaWith: first occurrence only *)
Fixpoint replace_first (o nw : name) (l : list name) : list name :=
  match l with
  | [] => []
  | x :: r => if bytes_eqb x o then nw :: r else x :: replace_first o nw r
  end.
(* exchange the leader with the (first) position holding nm *)
Definition swap_leader (nm : name) (l : list name) : list name :=
  match l with
  | [] => []
  | l0 :: rest => if bytes_eqb l0 nm then l
                  else if mem_name nm rest then nm :: replace_first nm l0 rest else l
  end.

(* partitionNodes[pid] modified in place; out of range = panic *)
Fixpoint upd_part (pid : nat) (f : list name -> list name) (parts : layout) : option layout :=
  match parts, pid with
  | [], _ => None
  | x :: r, O => Some (f x :: r)
  | x :: r, S k => match upd_part k f r with Some r' => Some (x :: r') | None => None end
  end.

(* moveIfUnbalanced: one move; returns the new maps, the new layout and "balanced" *)
Definition move_step (ls : loads) (parts : layout) : outcome (loads * layout * bool) :=
  match min_by lead_ltb ls, max_by lead_ltb ls with
  | Some mn, Some mx =>
      if Nat.leb (length (nl_lead mx) - length (nl_lead mn)) 1 then
        match min_by rep_ltb ls, max_by rep_ltb ls with
        | Some mn, Some mx =>
            if Nat.leb (length (nl_rep mx) - length (nl_rep mn)) 1 then Ok (ls, parts, true)
            else
              match find (fun pid => negb (in_pids pid (nl_rep mn)) && negb (in_pids pid (nl_lead mx))) (nl_rep mx) with
              | None => Ok (ls, parts, false)
              | Some pid =>
                  match upd_part (N.to_nat pid) (replace_first (nl_name mx) (nl_name mn)) parts with
                  | None => Panic
                  | Some parts' =>
                      let ls1 := upd_node (nl_name mn) (set_rep (nl_rep mn ++ [pid])) ls in
                      let ls2 := upd_node (nl_name mx) (set_rep (remove_pid pid (nl_rep mx))) ls1 in
                      Ok (ls2, parts', false)
                  end
              end
        | _, _ => Panic
        end
      else
        match find (fun pid => negb (in_pids pid (nl_lead mn))) (nl_lead mx) with
        | None => Ok (ls, parts, false)
        | Some pid =>
            if in_pids pid (nl_rep mn) then
              match upd_part (N.to_nat pid) (swap_leader (nl_name mn)) parts with
              | None => Panic
              | Some parts' =>
                  let ls1 := upd_node (nl_name mn) (set_lead (nl_lead mn ++ [pid])) ls in
                  let ls2 := upd_node (nl_name mx) (set_lead (remove_pid pid (nl_lead mx))) ls1 in
                  Ok (ls2, parts', false)
              end
            else
              match upd_part (N.to_nat pid) (replace_first (nl_name mx) (nl_name mn)) parts with
              | None => Panic
              | Some parts' =>
                  match nl_rep mx with
                  | [] => Panic              (* removePidFromList: make([]int, 0, -1) *)
                  | _ =>
                      let ls1 := upd_node (nl_name mn)
                                   (fun l => set_lead (nl_lead mn ++ [pid]) (set_rep (nl_rep mn ++ [pid]) l)) ls in
                      let ls2 := upd_node (nl_name mx)
                                   (fun l => set_lead (remove_pid pid (nl_lead mx)) (set_rep (remove_pid pid (nl_rep mx)) l)) ls1 in
                      Ok (ls2, parts', false)
                  end
              end
        end
  | _, _ => Panic                            (* empty maps: nil type assertion *)
  end.

(* for !balanced { move; maxMoved--; if maxMoved < 0 { break } } : at most maxMoved+1 calls *)
Fixpoint move_loop (fuel : nat) (ls : loads) (parts : layout) : outcome layout :=
  match fuel with
  | O => Ok parts
  | S f =>
      match move_step ls parts with
      | Ok (ls', parts', true) => Ok parts'
      | Ok (ls', parts', false) => move_loop f ls' parts'
      | Refuse => Refuse
      | Panic => Panic
      end
  end.

(* old lists longer than the wanted replica count are cut to their first r members before use
   (trimmedOldNodes; since /repo 8ac1883 — before, the surplus members were counted as load and excluded
   as candidates, which could leave no candidate: nil type assertion panic) *)
Definition v2_fill_phase (h : N) (p r : nat) (olds : layout) (ring : list name) : outcome (loads * layout) :=
  let n := N.of_nat (length ring) in
  let olds := map (firstn r) olds in
  fill_parts 0 p olds r (add_olds 0 olds (init_loads h n 0 ring)).

Definition fill_v2 (h : N) (p r : nat) (olds : layout) (ring : list name) : outcome layout :=
  match v2_fill_phase h p r olds ring with
  | Ok (ls, parts) => move_loop (r * p + 1) ls parts
  | Refuse => Refuse
  | Panic => Panic
  end.

(* ---------- entry points ---------- *)
Definition ring_of_lists (lists : list (list name)) : list name :=
  let sorted := map sort_names lists in
  interleave (length (concat sorted)) sorted.

Definition rebalance_from_lists (ver ns : bytes) (p r : N) (olds : layout) (lists : list (list name))
  : outcome layout :=
  let ring := ring_of_lists lists in
  if N.of_nat (length (concat lists)) <? r then Refuse
  else
    let h := murmur3_32 ns in
    if bytes_eqb ver balance_v2_str
    then fill_v2 h (N.to_nat p) (N.to_nat r) olds ring
    else fill_v1 h (N.to_nat p) (N.to_nat r) ring.

Definition rebalance (ver ns : bytes) (p r : N) (olds : layout) (nodes : list (name * tag)) : outcome layout :=
  if N.of_nat (length nodes) <? r then Refuse
  else rebalance_from_lists ver ns p r olds (node_name_list nodes).

(* ---------- the consumers of the layout (DataPlacement methods) ---------- *)
(* getCurrentPartitionNodes: the previous layout handed to the layout function is the list of the ISR lists
   of all partitions of the namespace in the register; [isrs] is that list. *)

(* allocNodeForNamespace: the first member of the wanted list of partition [part] that is not yet a raft
   node of it; ErrNodeUnavailable (Refuse) when the layout is refused or no such member exists;
   partitionNodes[Partition] out of range is a Go panic *)
Definition alloc_node (ver ns : bytes) (p r : N) (isrs : layout) (nodes : list (name * tag)) (part : nat)
  : outcome name :=
  match rebalance ver ns p r isrs nodes with
  | Ok l =>
      match nth_error l part with
      | None => Panic
      | Some wanted =>
          match find (fun x => negb (mem_name x (nth part isrs []))) wanted with
          | Some x => Ok x
          | None => Refuse
          end
      end
  | Refuse => Refuse
  | Panic => Panic
  end.

(* decideUnwantedRaftNode: the last ISR member of partition [part] that is not in its wanted list
   ("" = none, also when the layout is refused) *)
Definition unwanted_node (ver ns : bytes) (p r : N) (isrs : layout) (nodes : list (name * tag)) (part : nat)
  : outcome name :=
  match rebalance ver ns p r isrs nodes with
  | Ok l =>
      match nth_error l part with
      | None => Panic
      | Some wanted =>
          Ok (fold_left (fun acc nid => if mem_name nid wanted then acc else nid) (nth part isrs []) [])
      end
  | Refuse => Ok []
  | Panic => Panic
  end.
