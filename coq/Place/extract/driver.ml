(* driver for the C17 model: reads case lines on stdin, prints "<id>\t<model output>"
   (formats documented in harness/cmd/place/main.go) *)
open Model
open Vio

let dec_name (s : string) : n list =
  if String.length s = 0 || s.[0] <> 'x' then failwith ("bad name " ^ s)
  else let h = String.sub s 1 (String.length s - 1) in
    if h = "" then [] else bytes_of_hex h
let enc_name (b : n list) : string =
  "x" ^ (if b = [] then "" else hex_of_bytes b)
let dec_list (s : string) : n list list =
  if s = "" then [] else List.map dec_name (split_on ',' s)
let enc_list (l : n list list) : string = String.concat "," (List.map enc_name l)
let drop_last l = match List.rev l with [] -> [] | _ :: r -> List.rev r
let dec_lists (s : string) : n list list list =
  if s = "" then [] else List.map dec_list (drop_last (split_on ';' s))
let enc_lists (ll : n list list list) : string =
  String.concat "" (List.map (fun l -> enc_list l ^ ";") ll)

let dec_nodes (s : string) : (n list * tag) list =
  if s = "" then [] else
  List.map (fun it ->
    match split_on ':' it with
    | [nm; tg] ->
      let t = (match tg.[0] with
        | 'a' -> TagAbsent
        | 'o' -> TagOther
        | 's' -> let h = String.sub tg 1 (String.length tg - 1) in
                 TagStr (if h = "" then [] else bytes_of_hex h)
        | _ -> failwith "bad tag") in
      (dec_name nm, t)
    | _ -> failwith "bad node") (split_on ',' s)

let out_layout = function
  | Ok l -> "ok " ^ enc_lists l
  | Refuse -> "refuse"
  | Panic -> "panic"

let dec_ints (s : string) : n list = if s = "" then [] else List.map n_of_dec (split_on ',' s)
let enc_ints (l : n list) : string = String.concat "," (List.map dec_of_n l)
let dec_int_lists (s : string) : n list list =
  if s = "" then [] else List.map dec_ints (drop_last (split_on ';' s))

let () =
  read_lines stdin (fun line ->
    match split_on '\t' line with
    | id :: "L" :: ver :: ns :: p :: r :: nodes :: old :: _ ->
      let res = rebalance (dec_name ver) (dec_name ns) (n_of_dec p) (n_of_dec r) (dec_lists old) (dec_nodes nodes) in
      Printf.printf "%s\t%s\n" id (out_layout res)
    | id :: "R" :: ver :: ns :: p :: r :: lists :: old :: _ ->
      let res = rebalance_from_lists (dec_name ver) (dec_name ns) (n_of_dec p) (n_of_dec r) (dec_lists old) (dec_lists lists) in
      Printf.printf "%s\t%s\n" id (out_layout res)
    | id :: (("A" | "U") as kind) :: ver :: ns :: p :: r :: nodes :: isrs :: part :: _ ->
      let f = if kind = "A" then alloc_node else unwanted_node in
      let res = f (dec_name ver) (dec_name ns) (n_of_dec p) (n_of_dec r) (dec_lists isrs) (dec_nodes nodes)
                  (nat_of_int (int_of_string part)) in
      Printf.printf "%s\t%s\n" id (match res with Ok x -> "ok " ^ enc_name x | Refuse -> "refuse" | Panic -> "panic")
    | id :: "N" :: nodes :: _ ->
      Printf.printf "%s\tok %s\n" id (enc_lists (node_name_list (dec_nodes nodes)))
    | id :: "M" :: names :: idx :: leads :: reps :: parts :: _ ->
      let names = dec_list names and idx = dec_ints idx and leads = dec_int_lists leads and reps = dec_int_lists reps in
      let rec mk a b c d = match a, b, c, d with
        | nm :: a', i :: b', l :: c', r :: d' -> { nl_name = nm; nl_idx = i; nl_lead = l; nl_rep = r } :: mk a' b' c' d'
        | _ -> [] in
      let ls = mk names idx leads reps in
      (match move_step ls (dec_lists parts) with
       | Ok ((ls', parts'), bal) ->
         Printf.printf "%s\tok %s %s%s\n" id (if bal then "1" else "0") (enc_lists parts')
           (String.concat "" (List.map (fun l -> " " ^ enc_ints l.nl_lead ^ "/" ^ enc_ints l.nl_rep) ls'))
       | Refuse -> Printf.printf "%s\trefuse\n" id
       | Panic -> Printf.printf "%s\tpanic\n" id)
    | _ -> ())
