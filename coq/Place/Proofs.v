(* Place/Proofs.v — C17, part 1: generic lemmas, sorting, getNodeNameList, the interleave ring,
   the ring algorithm V1 (validity, DC spread, leader balance). *)
From ZV Require Import Common.Bytes Common.BytesFacts Part.Model Place.Consts Place.Model.
From Coq Require Import Permutation ZifyN ZifyNat ZifyBool Arith PeanoNat.
Open Scope nat_scope.

(* ---------- generic list facts ---------- *)
Lemma all_some_map {A B} (f : A -> option B) (g : A -> B) (l : list A) :
  (forall x, In x l -> f x = Some (g x)) -> all_some (map f l) = Some (map g l).
Proof.
  induction l as [|a l IH]; intros H; simpl; [reflexivity|].
  rewrite (H a (or_introl eq_refl)), IH; [reflexivity|].
  intros x Hx; apply H; right; exact Hx.
Qed.

Lemma NoDup_map_in {A B} (f : A -> B) (l : list A) :
  (forall x y, In x l -> In y l -> f x = f y -> x = y) -> NoDup l -> NoDup (map f l).
Proof.
  induction l as [|a l IH]; intros Hinj Hnd; simpl; [constructor|].
  inversion Hnd as [|? ? Hna Hnd']; subst. constructor.
  - intros Hin. apply in_map_iff in Hin. destruct Hin as [y [Hy Hyin]].
    assert (y = a) by (apply Hinj; [right; exact Hyin|left; reflexivity|exact Hy]). subst. contradiction.
  - apply IH; [|exact Hnd']. intros x y Hx Hy; apply Hinj; right; assumption.
Qed.

Lemma nth_map_lt {A B} (f : A -> B) (l : list A) c d d' :
  c < length l -> nth c (map f l) d = f (nth c l d').
Proof.
  intros H. rewrite (nth_indep _ d (f d')) by (rewrite map_length; exact H). apply map_nth.
Qed.

Lemma mod_add_inj (n a j j' : nat) : j < n -> j' < n -> (a + j) mod n = (a + j') mod n -> j = j'.
Proof.
  intros Hj Hj' E.
  assert (Hn : n <> 0) by lia.
  pose proof (Nat.div_mod_eq (a + j) n) as E1.
  pose proof (Nat.div_mod_eq (a + j') n) as E2.
  rewrite E in E1.
  set (q1 := (a + j) / n) in *. set (q2 := (a + j') / n) in *. set (m := (a + j') mod n) in *.
  destruct (lt_eq_lt_dec q1 q2) as [[L|L]|L].
  - assert (n * q2 >= n * q1 + n) by nia. lia.
  - subst q2. rewrite <- L in E2. lia.
  - assert (n * q1 >= n * q2 + n) by nia. lia.
Qed.

Lemma mod_mod_divides (x n d : nat) : d <> 0 -> n <> 0 -> Nat.divide d n -> (x mod n) mod d = x mod d.
Proof.
  intros Hd Hn [k Hk]. subst n.
  rewrite (Nat.mul_comm k d). rewrite Nat.mod_mul_r by lia.
  rewrite (Nat.mul_comm d), Nat.mod_add by lia. apply Nat.mod_mod; lia.
Qed.

(* ---------- names: equality, membership ---------- *)
Lemma mem_name_In x l : mem_name x l = true <-> In x l.
Proof.
  unfold mem_name. rewrite existsb_exists. split.
  - intros [y [Hy E]]. apply bytes_eqb_eq in E. subst. exact Hy.
  - intros H. exists x. split; [exact H|apply bytes_eqb_refl].
Qed.
Lemma mem_name_false x l : mem_name x l = false <-> ~ In x l.
Proof. rewrite <- mem_name_In. destruct (mem_name x l); split; congruence. Qed.
Lemma bytes_eqb_neq a b : bytes_eqb a b = false <-> a <> b.
Proof. rewrite <- bytes_eqb_eq. destruct (bytes_eqb a b); split; congruence. Qed.
Lemma bytes_eqb_sym a b : bytes_eqb a b = bytes_eqb b a.
Proof.
  destruct (bytes_eqb a b) eqn:E.
  - apply bytes_eqb_eq in E. subst. symmetry. apply bytes_eqb_refl.
  - symmetry. apply bytes_eqb_neq. apply bytes_eqb_neq in E. congruence.
Qed.

(* ---------- sort_names is a sorting function ---------- *)
Lemma insert_sorted_perm x l : Permutation (x :: l) (insert_sorted x l).
Proof.
  induction l as [|y l IH]; simpl; [reflexivity|].
  destruct (bytes_leb x y); [reflexivity|].
  rewrite perm_swap. constructor. exact IH.
Qed.
Lemma sort_names_perm l : Permutation l (sort_names l).
Proof.
  induction l as [|x l IH]; simpl; [reflexivity|].
  rewrite <- insert_sorted_perm. constructor. exact IH.
Qed.
Lemma sort_names_length l : length (sort_names l) = length l.
Proof. symmetry. apply Permutation_length, sort_names_perm. Qed.
Lemma sort_names_In x l : In x (sort_names l) <-> In x l.
Proof. split; apply Permutation_in; [symmetry|]; apply sort_names_perm. Qed.

Inductive sorted : list name -> Prop :=
| sorted_nil : sorted []
| sorted_one x : sorted [x]
| sorted_cons x y l : bytes_leb x y = true -> sorted (y :: l) -> sorted (x :: y :: l).

Lemma bytes_leb_total a b : bytes_leb a b = true \/ bytes_leb b a = true.
Proof.
  unfold bytes_leb. rewrite (bytes_cmp_antisym a b). destruct (bytes_cmp a b); simpl; auto.
Qed.
Lemma bytes_leb_false a b : bytes_leb a b = false -> bytes_leb b a = true.
Proof. destruct (bytes_leb_total a b); congruence. Qed.
Lemma bytes_leb_antisym a b : bytes_leb a b = true -> bytes_leb b a = true -> a = b.
Proof.
  unfold bytes_leb. rewrite (bytes_cmp_antisym a b). destruct (bytes_cmp a b) eqn:E; simpl; try discriminate.
  intros _ _. apply bytes_cmp_eq; exact E.
Qed.
Lemma bytes_leb_trans a b c : bytes_leb a b = true -> bytes_leb b c = true -> bytes_leb a c = true.
Proof.
  unfold bytes_leb. intros H1 H2.
  destruct (bytes_cmp a b) eqn:E1; try discriminate.
  - apply bytes_cmp_eq in E1. subst. exact H2.
  - destruct (bytes_cmp b c) eqn:E2; try discriminate.
    + apply bytes_cmp_eq in E2. subst. rewrite E1. reflexivity.
    + rewrite (bytes_cmp_trans_lt a b c E1 E2). reflexivity.
Qed.

Lemma insert_sorted_sorted x l : sorted l -> sorted (insert_sorted x l).
Proof.
  induction 1 as [|y|y z l Hyz Hs IH]; simpl.
  - constructor.
  - destruct (bytes_leb x y) eqn:E; constructor; auto using sorted, bytes_leb_false.
  - destruct (bytes_leb x y) eqn:E.
    + constructor; [exact E|constructor; assumption].
    + simpl in IH. destruct (bytes_leb x z) eqn:E2.
      * constructor; [apply bytes_leb_false; exact E|exact IH].
      * constructor; [exact Hyz|exact IH].
Qed.
Lemma sort_names_sorted l : sorted (sort_names l).
Proof. induction l; simpl; [constructor|apply insert_sorted_sorted; assumption]. Qed.

Lemma sorted_head_le x l : sorted (x :: l) -> forall y, In y l -> bytes_leb x y = true.
Proof.
  revert x. induction l as [|z l IH]; intros x Hs y Hy; [destruct Hy|].
  inversion Hs; subst. destruct Hy as [->|Hy]; [assumption|].
  eapply bytes_leb_trans; [eassumption|]. apply IH; assumption.
Qed.
Lemma sorted_tail x l : sorted (x :: l) -> sorted l.
Proof. inversion 1; subst; [constructor|assumption]. Qed.

(* a sorted list is determined by its elements: the result does not depend on the order in which
   a Go map delivered them *)
Lemma sorted_perm_eq l1 : forall l2, sorted l1 -> sorted l2 -> Permutation l1 l2 -> l1 = l2.
Proof.
  induction l1 as [|x l1 IH]; intros l2 S1 S2 P.
  - apply Permutation_nil in P. subst. reflexivity.
  - destruct l2 as [|y l2]; [apply Permutation_sym, Permutation_nil in P; discriminate|].
    assert (x = y) as ->.
    { assert (Hx : In x (y :: l2)) by (eapply Permutation_in; [exact P|left; reflexivity]).
      assert (Hy : In y (x :: l1)) by (eapply Permutation_in; [symmetry; exact P|left; reflexivity]).
      destruct Hx as [->|Hx]; [reflexivity|]. destruct Hy as [->|Hy]; [reflexivity|].
      apply bytes_leb_antisym; [eapply sorted_head_le; eassumption|eapply sorted_head_le; eassumption]. }
    f_equal. apply IH; [eapply sorted_tail; eassumption|eapply sorted_tail; eassumption|].
    eapply Permutation_cons_inv; exact P.
Qed.
Lemma sort_names_perm_eq l1 l2 : Permutation l1 l2 -> sort_names l1 = sort_names l2.
Proof.
  intros P. apply sorted_perm_eq; try apply sort_names_sorted.
  rewrite <- (sort_names_perm l1), <- (sort_names_perm l2). exact P.
Qed.

(* ---------- interleave: slot q*d + c of the ring is element q of list c (even topologies) ---------- *)
Lemma heads_even (ls : list (list name)) :
  Forall (fun l => l <> []) ls -> heads ls = map (fun l => hd [] l) ls.
Proof.
  induction 1 as [|l ls Hl _ IH]; simpl; [reflexivity|].
  destruct l; [congruence|]. simpl. f_equal. exact IH.
Qed.
Lemma tails_even (ls : list (list name)) :
  Forall (fun l => l <> []) ls -> tails ls = map (@tl name) ls.
Proof.
  induction 1 as [|l ls Hl _ IH]; simpl; [reflexivity|].
  destruct l; [congruence|]. simpl. f_equal. exact IH.
Qed.

Lemma interleave_even k : forall fuel (ls : list (list name)) q c,
  k <= fuel -> Forall (fun l => length l = k) ls -> q < k -> c < length ls ->
  nth (q * length ls + c) (interleave fuel ls) [] = nth q (nth c ls []) [].
Proof.
  induction k as [|k IH]; intros fuel ls q c Hf Hall Hq Hc; [lia|].
  destruct fuel as [|fuel]; [lia|]. simpl.
  assert (Hne : Forall (fun l : list name => l <> []) ls).
  { eapply Forall_impl; [|exact Hall]. intros l Hl. destruct l; simpl in Hl; [lia|discriminate]. }
  destruct (forallb is_nil ls) eqn:En.
  { rewrite forallb_forall in En. destruct ls as [|l0 ls0]; [simpl in Hc; lia|].
    specialize (En l0 (or_introl eq_refl)). inversion Hall; subst. destruct l0; simpl in *; [lia|discriminate]. }
  rewrite heads_even, tails_even by exact Hne.
  destruct q as [|q].
  - simpl. rewrite app_nth1 by (rewrite map_length; exact Hc).
    rewrite (nth_map_lt _ _ _ _ []) by exact Hc. cbv [bytes].
    match goal with |- hd _ ?t = _ => destruct t end; reflexivity.
  - cbv [bytes] in *.
    assert (Hge : S q * length ls + c = length ls + (q * length ls + c)) by (simpl; lia).
    rewrite Hge. rewrite app_nth2 by (rewrite map_length; lia). rewrite map_length.
    replace (length ls + (q * length ls + c) - length ls) with (q * length (map (@tl (list N)) ls) + c) by (rewrite map_length; lia).
    rewrite IH; [|lia| |lia|rewrite map_length; exact Hc].
    + rewrite (nth_map_lt _ _ _ _ []) by exact Hc. cbv [bytes].
      match goal with |- _ = nth _ ?t _ => destruct t end; simpl; [destruct q; reflexivity|reflexivity].
    + apply Forall_map. eapply Forall_impl; [|exact Hall]. intros l Hl. destruct l; simpl in *; lia.
Qed.

Lemma interleave_even_length k : forall fuel (ls : list (list name)),
  k <= fuel -> Forall (fun l => length l = k) ls -> length (interleave fuel ls) = k * length ls.
Proof.
  induction k as [|k IH]; intros fuel ls Hf Hall.
  - destruct fuel; simpl; [reflexivity|].
    replace (forallb is_nil ls) with true; [reflexivity|].
    symmetry. apply forallb_forall. intros l Hl. rewrite Forall_forall in Hall.
    specialize (Hall l Hl). destruct l; [reflexivity|discriminate].
  - destruct fuel as [|fuel]; [lia|]. simpl.
    assert (Hne : Forall (fun l : list name => l <> []) ls).
    { eapply Forall_impl; [|exact Hall]. intros l Hl. destruct l; simpl in Hl; [lia|discriminate]. }
    destruct (forallb is_nil ls) eqn:En.
    + rewrite forallb_forall in En. destruct ls as [|l0 ls0]; [simpl; lia|].
      specialize (En l0 (or_introl eq_refl)). inversion Hall; subst. destruct l0; simpl in *; [lia|discriminate].
    + rewrite heads_even, tails_even by exact Hne. rewrite app_length, map_length.
      rewrite IH; [rewrite map_length; lia|lia|].
      apply Forall_map. eapply Forall_impl; [|exact Hall]. intros l Hl. destruct l; simpl in *; lia.
Qed.

(* general facts about the ring: it is a permutation of all names *)
Lemma heads_tails_perm (ls : list (list name)) : Permutation (concat ls) (heads ls ++ concat (tails ls)).
Proof.
  induction ls as [|l ls IH]; simpl; [reflexivity|].
  destruct l as [|x l]; simpl; [exact IH|].
  constructor. rewrite IH.
  rewrite !app_assoc. apply Permutation_app_tail. apply Permutation_app_comm.
Qed.
Lemma forallb_is_nil_concat (ls : list (list name)) : forallb is_nil ls = true -> concat ls = [].
Proof.
  induction ls as [|l ls IH]; simpl; [reflexivity|].
  destruct l; simpl; [exact IH|discriminate].
Qed.
Lemma heads_nonempty (ls : list (list name)) : forallb is_nil ls = false -> heads ls <> [].
Proof.
  induction ls as [|l ls IH]; simpl; [discriminate|].
  destruct l; simpl; [exact IH|discriminate].
Qed.
Lemma interleave_perm : forall fuel (ls : list (list name)),
  length (concat ls) <= fuel -> Permutation (concat ls) (interleave fuel ls).
Proof.
  induction fuel as [|fuel IH]; intros ls Hf.
  - destruct (concat ls); [reflexivity|simpl in Hf; lia].
  - simpl. destruct (forallb is_nil ls) eqn:En.
    + rewrite forallb_is_nil_concat by exact En. reflexivity.
    + rewrite heads_tails_perm. apply Permutation_app_head. apply IH.
      pose proof (Permutation_length (heads_tails_perm ls)) as HL. rewrite app_length in HL.
      pose proof (heads_nonempty ls En) as Hh. destruct (heads ls); [congruence|]. simpl in HL. lia.
Qed.

Lemma concat_map_sort_perm (ls : list (list name)) : Permutation (concat ls) (concat (map sort_names ls)).
Proof.
  induction ls as [|l ls IH]; simpl; [reflexivity|].
  apply Permutation_app; [apply sort_names_perm|exact IH].
Qed.

Theorem ring_of_lists_perm (ls : list (list name)) : Permutation (concat ls) (ring_of_lists ls).
Proof.
  unfold ring_of_lists. rewrite <- interleave_perm by lia. apply concat_map_sort_perm.
Qed.

(* ---------- V1 ---------- *)
Definition slot (h : N) (n i j : nat) : nat := (N.to_nat h + i + j) mod n.
Definition v1_spec_list (h : N) (ring : list name) (r i : nat) : list name :=
  map (fun j => nth (slot h (length ring) i j) ring []) (seq 0 r).

Lemma ring_at_spec ring (x : N) : ring <> [] ->
  ring_at ring x = Some (nth (N.to_nat x mod length ring) ring []).
Proof.
  intros Hne. unfold ring_at.
  assert (Hn : length ring <> 0) by (destruct ring; simpl; congruence).
  destruct (N.eqb_spec (N.of_nat (length ring)) 0%N) as [E|E]; [lia|].
  rewrite N2Nat.inj_mod, Nat2N.id.
  apply nth_error_nth'. apply Nat.mod_upper_bound. exact Hn.
Qed.

Lemma v1_list_spec h ring r i : ring <> [] ->
  v1_list h ring r (N.of_nat i) = Some (v1_spec_list h ring r i).
Proof.
  intros Hne. unfold v1_list, v1_spec_list, nseq. rewrite map_map.
  apply all_some_map. intros j _. rewrite ring_at_spec by exact Hne.
  unfold slot. do 2 f_equal. lia.
Qed.

Theorem fill_v1_spec h p r ring : ring <> [] ->
  fill_v1 h p r ring = Ok (map (v1_spec_list h ring r) (seq 0 p)).
Proof.
  intros Hne. unfold fill_v1, nseq. rewrite map_map.
  rewrite (all_some_map _ (v1_spec_list h ring r)); [reflexivity|].
  intros i _. apply v1_list_spec. exact Hne.
Qed.

Lemma fill_v1_empty_ring h p r : fill_v1 h p r [] = Ok (repeat [] p) \/ fill_v1 h p r [] = Panic.
Proof.
  unfold fill_v1. destruct (all_some _) eqn:E; [|right; reflexivity]. left. f_equal.
  revert l E. unfold nseq. generalize 0. induction p as [|p IH]; intros s l E; simpl in *.
  - congruence.
  - destruct (v1_list h [] r (N.of_nat s)) eqn:E1; [|discriminate].
    destruct (all_some _) eqn:E2; [|discriminate]. inversion E; subst. f_equal.
    + unfold v1_list in E1. destruct r; simpl in E1; [congruence|discriminate].
    + eapply IH. exact E2.
Qed.

(* a placement is valid: p lists, each with exactly r distinct members, all of them live nodes *)
Definition valid_layout (live : list name) (p r : nat) (l : layout) : Prop :=
  length l = p /\ Forall (fun nl => length nl = r /\ NoDup nl /\ incl nl live) l.

Lemma slot_lt h n i j : n <> 0 -> slot h n i j < n.
Proof. intros; unfold slot; apply Nat.mod_upper_bound; assumption. Qed.

Lemma v1_spec_list_valid h ring r i :
  NoDup ring -> r <= length ring -> ring <> [] ->
  length (v1_spec_list h ring r i) = r /\ NoDup (v1_spec_list h ring r i) /\ incl (v1_spec_list h ring r i) ring.
Proof.
  intros Hnd Hr Hne. unfold v1_spec_list.
  assert (Hn : length ring <> 0) by (destruct ring; simpl; congruence).
  split; [rewrite map_length, seq_length; reflexivity|]. split.
  - apply NoDup_map_in; [|apply seq_NoDup].
    intros x y Hx Hy E. apply in_seq in Hx, Hy.
    apply (proj1 (NoDup_nth ring []) Hnd) in E; try (apply slot_lt; exact Hn).
    unfold slot in E. eapply mod_add_inj; [| |exact E]; lia.
  - intros x Hx. apply in_map_iff in Hx. destruct Hx as [j [<- _]].
    apply nth_In. apply slot_lt; exact Hn.
Qed.

Theorem fill_v1_valid h p r ring :
  NoDup ring -> r <= length ring -> ring <> [] ->
  exists l, fill_v1 h p r ring = Ok l /\ valid_layout ring p r l.
Proof.
  intros Hnd Hr Hne. eexists. split; [apply fill_v1_spec; exact Hne|].
  split; [rewrite map_length, seq_length; reflexivity|].
  apply Forall_map. apply Forall_forall. intros i _. apply v1_spec_list_valid; assumption.
Qed.

(* DC spread: with d classes of k nodes each (ring slot s belongs to class s mod d), d >= r,
   the r members of every V1 list lie in r different classes *)
Theorem v1_spec_list_spread h ring r i d (cls : name -> nat) :
  d <> 0 -> Nat.divide d (length ring) -> ring <> [] -> r <= d ->
  (forall s, s < length ring -> cls (nth s ring []) = s mod d) ->
  NoDup (map cls (v1_spec_list h ring r i)).
Proof.
  intros Hd Hdiv Hne Hr Hcls. unfold v1_spec_list. rewrite map_map.
  assert (Hn : length ring <> 0) by (destruct ring; simpl; congruence).
  apply NoDup_map_in; [|apply seq_NoDup].
  intros x y Hx Hy E. apply in_seq in Hx, Hy.
  rewrite !Hcls in E by (apply slot_lt; exact Hn).
  unfold slot in E. rewrite !mod_mod_divides in E by assumption.
  eapply mod_add_inj; [| |exact E]; lia.
Qed.

(* leader balance: when the node count divides the partition count every node leads p / n partitions *)
Definition leaders (l : layout) : list name := map (fun nl => hd [] nl) l.

Lemma v1_leader h ring r i : r <> 0 ->
  hd [] (v1_spec_list h ring r i) = nth (slot h (length ring) i 0) ring [].
Proof. intros Hr. unfold v1_spec_list. destruct r; [congruence|]. reflexivity. Qed.

Lemma rotation_perm (n a : nat) : n <> 0 ->
  Permutation (map (fun i => (a + i) mod n) (seq 0 n)) (seq 0 n).
Proof.
  intros Hn. apply NoDup_Permutation_bis.
  - apply NoDup_map_in; [|apply seq_NoDup]. intros x y Hx Hy E. apply in_seq in Hx, Hy.
    eapply mod_add_inj; [| |exact E]; lia.
  - rewrite map_length. reflexivity.
  - intros x Hx. apply in_map_iff in Hx. destruct Hx as [i [<- _]].
    apply in_seq. split; [lia|]. simpl. apply Nat.mod_upper_bound. exact Hn.
Qed.

Lemma map_nth_seq (ring : list name) : map (fun s => nth s ring []) (seq 0 (length ring)) = ring.
Proof.
  induction ring as [|x ring IH]; simpl; [reflexivity|].
  f_equal. rewrite <- seq_shift, map_map. exact IH.
Qed.

Lemma seq_shift_add a n : forall s, map (fun i => a + i) (seq s n) = seq (a + s) n.
Proof.
  induction n as [|n IH]; intros s; simpl; [reflexivity|].
  f_equal. rewrite IH. f_equal. lia.
Qed.

Lemma block_leaders_perm h (ring : list name) b :
  ring <> [] ->
  Permutation (map (fun i => nth (slot h (length ring) i 0) ring []) (seq (b * length ring) (length ring))) ring.
Proof.
  intros Hne. set (n := length ring).
  assert (Hn : n <> 0) by (subst n; destruct ring; simpl; congruence).
  apply Permutation_trans with (map (fun s => nth s ring []) (seq 0 n));
    [|subst n; rewrite map_nth_seq; reflexivity].
  apply Permutation_trans with (map (fun s => nth s ring []) (map (fun i => (N.to_nat h + i) mod n) (seq 0 n)));
    [|apply Permutation_map, rotation_perm; exact Hn].
  rewrite map_map.
  replace (seq (b * n) n) with (map (fun i => b * n + i) (seq 0 n)).
  2:{ rewrite seq_shift_add. f_equal. lia. }
  rewrite map_map. apply Permutation_refl'. apply map_ext. intros i.
  unfold slot. f_equal.
  replace (N.to_nat h + (b * n + i) + 0) with (N.to_nat h + i + b * n) by lia.
  apply Nat.mod_add. exact Hn.
Qed.

Lemma seq_blocks n m : seq 0 (m * n) = concat (map (fun b => seq (b * n) n) (seq 0 m)).
Proof.
  induction m as [|m IH]; [reflexivity|].
  rewrite seq_S, map_app, concat_app. simpl. rewrite app_nil_r.
  replace (n + m * n) with (m * n + n) by lia. rewrite seq_app, IH. reflexivity.
Qed.

Lemma count_occ_concat_const (dec : forall x y : name, {x = y} + {x <> y}) (ls : list (list name)) x c :
  Forall (fun l => count_occ dec l x = c) ls -> count_occ dec (concat ls) x = length ls * c.
Proof.
  induction 1 as [|l ls Hl _ IH]; simpl; [reflexivity|].
  rewrite count_occ_app, Hl, IH. reflexivity.
Qed.

Definition name_dec : forall x y : name, {x = y} + {x <> y} := list_eq_dec N.eq_dec.

Theorem v1_leader_balance h ring r m x :
  NoDup ring -> ring <> [] -> r <> 0 -> In x ring ->
  count_occ name_dec (leaders (map (v1_spec_list h ring r) (seq 0 (m * length ring)))) x = m.
Proof.
  intros Hnd Hne Hr Hx. unfold leaders. rewrite map_map.
  rewrite (map_ext _ (fun i => nth (slot h (length ring) i 0) ring [])) by (intros; apply v1_leader; exact Hr).
  rewrite seq_blocks, concat_map, map_map.
  rewrite (count_occ_concat_const name_dec _ x 1).
  - rewrite map_length, seq_length. lia.
  - apply Forall_map. apply Forall_forall. intros b _.
    pose proof (block_leaders_perm h ring b Hne) as P.
    rewrite (proj1 (Permutation_count_occ name_dec _ _) P).
    apply NoDup_count_occ'; assumption.
Qed.
