(* Place/Proofs.v — C17, part 1: generic lemmas, sorting, getNodeNameList, the interleave ring,
   the ring algorithm V1 (validity, DC spread, leader balance). *)
From ZV Require Import Common.Bytes Common.BytesFacts Part.Model Place.Consts Place.Model.
From Coq Require Import Permutation ZifyN ZifyNat ZifyBool Arith PeanoNat.
Open Scope nat_scope.

(* ---------- generic list facts ---------- *)
Lemma all_some_map {A B} (f : A -> option B) (g : A -> B) (l : list A) :
  (forall x, In x l -> f x = Some (g x)) -> all_some (map f l) = Some (map g l).
Proof.
  induction l as [|a l IH]; intros H; simpl; [reflexivity|].
  rewrite (H a (or_introl eq_refl)), IH; [reflexivity|].
  intros x Hx; apply H; right; exact Hx.
Qed.

Lemma NoDup_map_in {A B} (f : A -> B) (l : list A) :
  (forall x y, In x l -> In y l -> f x = f y -> x = y) -> NoDup l -> NoDup (map f l).
Proof.
  induction l as [|a l IH]; intros Hinj Hnd; simpl; [constructor|].
  inversion Hnd as [|? ? Hna Hnd']; subst. constructor.
  - intros Hin. apply in_map_iff in Hin. destruct Hin as [y [Hy Hyin]].
    assert (y = a) by (apply Hinj; [right; exact Hyin|left; reflexivity|exact Hy]). subst. contradiction.
  - apply IH; [|exact Hnd']. intros x y Hx Hy; apply Hinj; right; assumption.
Qed.

Lemma nth_map_lt {A B} (f : A -> B) (l : list A) c d d' :
  c < length l -> nth c (map f l) d = f (nth c l d').
Proof.
  intros H. rewrite (nth_indep _ d (f d')) by (rewrite map_length; exact H). apply map_nth.
Qed.

Lemma mod_add_inj (n a j j' : nat) : j < n -> j' < n -> (a + j) mod n = (a + j') mod n -> j = j'.
Proof.
  intros Hj Hj' E.
  assert (Hn : n <> 0) by lia.
  pose proof (Nat.div_mod_eq (a + j) n) as E1.
  pose proof (Nat.div_mod_eq (a + j') n) as E2.
  rewrite E in E1.
  set (q1 := (a + j) / n) in *. set (q2 := (a + j') / n) in *. set (m := (a + j') mod n) in *.
  destruct (lt_eq_lt_dec q1 q2) as [[L|L]|L].
  - assert (n * q2 >= n * q1 + n) by nia. lia.
  - subst q2. rewrite <- L in E2. lia.
  - assert (n * q1 >= n * q2 + n) by nia. lia.
Qed.

Lemma mod_mod_divides (x n d : nat) : d <> 0 -> n <> 0 -> Nat.divide d n -> (x mod n) mod d = x mod d.
Proof.
  intros Hd Hn [k Hk]. subst n.
  rewrite (Nat.mul_comm k d). rewrite Nat.mod_mul_r by lia.
  rewrite (Nat.mul_comm d), Nat.mod_add by lia. apply Nat.mod_mod; lia.
Qed.

(* ---------- names: equality, membership ---------- *)
Lemma mem_name_In x l : mem_name x l = true <-> In x l.
Proof.
  unfold mem_name. rewrite existsb_exists. split.
  - intros [y [Hy E]]. apply bytes_eqb_eq in E. subst. exact Hy.
  - intros H. exists x. split; [exact H|apply bytes_eqb_refl].
Qed.
Lemma mem_name_false x l : mem_name x l = false <-> ~ In x l.
Proof. rewrite <- mem_name_In. destruct (mem_name x l); split; congruence. Qed.
Lemma bytes_eqb_neq a b : bytes_eqb a b = false <-> a <> b.
Proof. rewrite <- bytes_eqb_eq. destruct (bytes_eqb a b); split; congruence. Qed.
Lemma bytes_eqb_sym a b : bytes_eqb a b = bytes_eqb b a.
Proof.
  destruct (bytes_eqb a b) eqn:E.
  - apply bytes_eqb_eq in E. subst. symmetry. apply bytes_eqb_refl.
  - symmetry. apply bytes_eqb_neq. apply bytes_eqb_neq in E. congruence.
Qed.

(* ---------- sort_names is a sorting function ---------- *)
Lemma insert_sorted_perm x l : Permutation (x :: l) (insert_sorted x l).
Proof.
  induction l as [|y l IH]; simpl; [reflexivity|].
  destruct (bytes_leb x y); [reflexivity|].
  rewrite perm_swap. constructor. exact IH.
Qed.
Lemma sort_names_perm l : Permutation l (sort_names l).
Proof.
  induction l as [|x l IH]; simpl; [reflexivity|].
  rewrite <- insert_sorted_perm. constructor. exact IH.
Qed.
Lemma sort_names_length l : length (sort_names l) = length l.
Proof. symmetry. apply Permutation_length, sort_names_perm. Qed.
Lemma sort_names_In x l : In x (sort_names l) <-> In x l.
Proof. split; apply Permutation_in; [symmetry|]; apply sort_names_perm. Qed.

Inductive sorted : list name -> Prop :=
| sorted_nil : sorted []
| sorted_one x : sorted [x]
| sorted_cons x y l : bytes_leb x y = true -> sorted (y :: l) -> sorted (x :: y :: l).

Lemma bytes_leb_total a b : bytes_leb a b = true \/ bytes_leb b a = true.
Proof.
  unfold bytes_leb. rewrite (bytes_cmp_antisym a b). destruct (bytes_cmp a b); simpl; auto.
Qed.
Lemma bytes_leb_false a b : bytes_leb a b = false -> bytes_leb b a = true.
Proof. destruct (bytes_leb_total a b); congruence. Qed.
Lemma bytes_leb_antisym a b : bytes_leb a b = true -> bytes_leb b a = true -> a = b.
Proof.
  unfold bytes_leb. rewrite (bytes_cmp_antisym a b). destruct (bytes_cmp a b) eqn:E; simpl; try discriminate.
  intros _ _. apply bytes_cmp_eq; exact E.
Qed.
Lemma bytes_leb_trans a b c : bytes_leb a b = true -> bytes_leb b c = true -> bytes_leb a c = true.
Proof.
  unfold bytes_leb. intros H1 H2.
  destruct (bytes_cmp a b) eqn:E1; try discriminate.
  - apply bytes_cmp_eq in E1. subst. exact H2.
  - destruct (bytes_cmp b c) eqn:E2; try discriminate.
    + apply bytes_cmp_eq in E2. subst. rewrite E1. reflexivity.
    + rewrite (bytes_cmp_trans_lt a b c E1 E2). reflexivity.
Qed.

Lemma insert_sorted_sorted x l : sorted l -> sorted (insert_sorted x l).
Proof.
  induction 1 as [|y|y z l Hyz Hs IH]; simpl.
  - constructor.
  - destruct (bytes_leb x y) eqn:E; constructor; auto using sorted, bytes_leb_false.
  - destruct (bytes_leb x y) eqn:E.
    + constructor; [exact E|constructor; assumption].
    + simpl in IH. destruct (bytes_leb x z) eqn:E2.
      * constructor; [apply bytes_leb_false; exact E|exact IH].
      * constructor; [exact Hyz|exact IH].
Qed.
Lemma sort_names_sorted l : sorted (sort_names l).
Proof. induction l; simpl; [constructor|apply insert_sorted_sorted; assumption]. Qed.

Lemma sorted_head_le x l : sorted (x :: l) -> forall y, In y l -> bytes_leb x y = true.
Proof.
  revert x. induction l as [|z l IH]; intros x Hs y Hy; [destruct Hy|].
  inversion Hs; subst. destruct Hy as [->|Hy]; [assumption|].
  eapply bytes_leb_trans; [eassumption|]. apply IH; assumption.
Qed.
Lemma sorted_tail x l : sorted (x :: l) -> sorted l.
Proof. inversion 1; subst; [constructor|assumption]. Qed.

(* a sorted list is determined by its elements: the result does not depend on the order in which
   a Go map delivered them *)
Lemma sorted_perm_eq l1 : forall l2, sorted l1 -> sorted l2 -> Permutation l1 l2 -> l1 = l2.
Proof.
  induction l1 as [|x l1 IH]; intros l2 S1 S2 P.
  - apply Permutation_nil in P. subst. reflexivity.
  - destruct l2 as [|y l2]; [apply Permutation_sym, Permutation_nil in P; discriminate|].
    assert (x = y) as ->.
    { assert (Hx : In x (y :: l2)) by (eapply Permutation_in; [exact P|left; reflexivity]).
      assert (Hy : In y (x :: l1)) by (eapply Permutation_in; [symmetry; exact P|left; reflexivity]).
      destruct Hx as [->|Hx]; [reflexivity|]. destruct Hy as [->|Hy]; [reflexivity|].
      apply bytes_leb_antisym; [eapply sorted_head_le; eassumption|eapply sorted_head_le; eassumption]. }
    f_equal. apply IH; [eapply sorted_tail; eassumption|eapply sorted_tail; eassumption|].
    eapply Permutation_cons_inv; exact P.
Qed.
Lemma sort_names_perm_eq l1 l2 : Permutation l1 l2 -> sort_names l1 = sort_names l2.
Proof.
  intros P. apply sorted_perm_eq; try apply sort_names_sorted.
  rewrite <- (sort_names_perm l1), <- (sort_names_perm l2). exact P.
Qed.

(* ---------- interleave: slot q*d + c of the ring is element q of list c (even topologies) ---------- *)
Lemma heads_even (ls : list (list name)) :
  Forall (fun l => l <> []) ls -> heads ls = map (fun l => hd [] l) ls.
Proof.
  induction 1 as [|l ls Hl _ IH]; simpl; [reflexivity|].
  destruct l; [congruence|]. simpl. f_equal. exact IH.
Qed.
Lemma tails_even (ls : list (list name)) :
  Forall (fun l => l <> []) ls -> tails ls = map (@tl name) ls.
Proof.
  induction 1 as [|l ls Hl _ IH]; simpl; [reflexivity|].
  destruct l; [congruence|]. simpl. f_equal. exact IH.
Qed.

Lemma interleave_even k : forall fuel (ls : list (list name)) q c,
  k <= fuel -> Forall (fun l => length l = k) ls -> q < k -> c < length ls ->
  nth (q * length ls + c) (interleave fuel ls) [] = nth q (nth c ls []) [].
Proof.
  induction k as [|k IH]; intros fuel ls q c Hf Hall Hq Hc; [lia|].
  destruct fuel as [|fuel]; [lia|]. simpl.
  assert (Hne : Forall (fun l : list name => l <> []) ls).
  { eapply Forall_impl; [|exact Hall]. intros l Hl. destruct l; simpl in Hl; [lia|discriminate]. }
  destruct (forallb is_nil ls) eqn:En.
  { rewrite forallb_forall in En. destruct ls as [|l0 ls0]; [simpl in Hc; lia|].
    specialize (En l0 (or_introl eq_refl)). inversion Hall; subst. destruct l0; simpl in *; [lia|discriminate]. }
  rewrite heads_even, tails_even by exact Hne.
  destruct q as [|q].
  - simpl. rewrite app_nth1 by (rewrite map_length; exact Hc).
    rewrite (nth_map_lt _ _ _ _ []) by exact Hc. cbv [bytes].
    match goal with |- hd _ ?t = _ => destruct t end; reflexivity.
  - cbv [bytes] in *.
    assert (Hge : S q * length ls + c = length ls + (q * length ls + c)) by (simpl; lia).
    rewrite Hge. rewrite app_nth2 by (rewrite map_length; lia). rewrite map_length.
    replace (length ls + (q * length ls + c) - length ls) with (q * length (map (@tl (list N)) ls) + c) by (rewrite map_length; lia).
    rewrite IH; [|lia| |lia|rewrite map_length; exact Hc].
    + rewrite (nth_map_lt _ _ _ _ []) by exact Hc. cbv [bytes].
      match goal with |- _ = nth _ ?t _ => destruct t end; simpl; [destruct q; reflexivity|reflexivity].
    + apply Forall_map. eapply Forall_impl; [|exact Hall]. intros l Hl. destruct l; simpl in *; lia.
Qed.

Lemma interleave_even_length k : forall fuel (ls : list (list name)),
  k <= fuel -> Forall (fun l => length l = k) ls -> length (interleave fuel ls) = k * length ls.
Proof.
  induction k as [|k IH]; intros fuel ls Hf Hall.
  - destruct fuel; simpl; [reflexivity|].
    replace (forallb is_nil ls) with true; [reflexivity|].
    symmetry. apply forallb_forall. intros l Hl. rewrite Forall_forall in Hall.
    specialize (Hall l Hl). destruct l; [reflexivity|discriminate].
  - destruct fuel as [|fuel]; [lia|]. simpl.
    assert (Hne : Forall (fun l : list name => l <> []) ls).
    { eapply Forall_impl; [|exact Hall]. intros l Hl. destruct l; simpl in Hl; [lia|discriminate]. }
    destruct (forallb is_nil ls) eqn:En.
    + rewrite forallb_forall in En. destruct ls as [|l0 ls0]; [simpl; lia|].
      specialize (En l0 (or_introl eq_refl)). inversion Hall; subst. destruct l0; simpl in *; [lia|discriminate].
    + rewrite heads_even, tails_even by exact Hne. rewrite app_length, map_length.
      rewrite IH; [rewrite map_length; lia|lia|].
      apply Forall_map. eapply Forall_impl; [|exact Hall]. intros l Hl. destruct l; simpl in *; lia.
Qed.

(* general facts about the ring: it is a permutation of all names *)
Lemma heads_tails_perm (ls : list (list name)) : Permutation (concat ls) (heads ls ++ concat (tails ls)).
Proof.
  induction ls as [|l ls IH]; simpl; [reflexivity|].
  destruct l as [|x l]; simpl; [exact IH|].
  constructor. rewrite IH.
  rewrite !app_assoc. apply Permutation_app_tail. apply Permutation_app_comm.
Qed.
Lemma forallb_is_nil_concat (ls : list (list name)) : forallb is_nil ls = true -> concat ls = [].
Proof.
  induction ls as [|l ls IH]; simpl; [reflexivity|].
  destruct l; simpl; [exact IH|discriminate].
Qed.
Lemma heads_nonempty (ls : list (list name)) : forallb is_nil ls = false -> heads ls <> [].
Proof.
  induction ls as [|l ls IH]; simpl; [discriminate|].
  destruct l; simpl; [exact IH|discriminate].
Qed.
Lemma interleave_perm : forall fuel (ls : list (list name)),
  length (concat ls) <= fuel -> Permutation (concat ls) (interleave fuel ls).
Proof.
  induction fuel as [|fuel IH]; intros ls Hf.
  - destruct (concat ls); [reflexivity|simpl in Hf; lia].
  - simpl. destruct (forallb is_nil ls) eqn:En.
    + rewrite forallb_is_nil_concat by exact En. reflexivity.
    + rewrite heads_tails_perm. apply Permutation_app_head. apply IH.
      pose proof (Permutation_length (heads_tails_perm ls)) as HL. rewrite app_length in HL.
      pose proof (heads_nonempty ls En) as Hh. destruct (heads ls); [congruence|]. simpl in HL. lia.
Qed.

Lemma concat_map_sort_perm (ls : list (list name)) : Permutation (concat ls) (concat (map sort_names ls)).
Proof.
  induction ls as [|l ls IH]; simpl; [reflexivity|].
  apply Permutation_app; [apply sort_names_perm|exact IH].
Qed.

Theorem ring_of_lists_perm (ls : list (list name)) : Permutation (concat ls) (ring_of_lists ls).
Proof.
  unfold ring_of_lists. rewrite <- interleave_perm by lia. apply concat_map_sort_perm.
Qed.

(* ---------- V1 ---------- *)
Definition slot (h : N) (n i j : nat) : nat := (N.to_nat h + i + j) mod n.
Definition v1_spec_list (h : N) (ring : list name) (r i : nat) : list name :=
  map (fun j => nth (slot h (length ring) i j) ring []) (seq 0 r).

Lemma ring_at_spec ring (x : N) : ring <> [] ->
  ring_at ring x = Some (nth (N.to_nat x mod length ring) ring []).
Proof.
  intros Hne. unfold ring_at.
  assert (Hn : length ring <> 0) by (destruct ring; simpl; congruence).
  destruct (N.eqb_spec (N.of_nat (length ring)) 0%N) as [E|E]; [lia|].
  rewrite N2Nat.inj_mod, Nat2N.id.
  apply nth_error_nth'. apply Nat.mod_upper_bound. exact Hn.
Qed.

(* the index arithmetic does not wrap: holds because Consts.v records a 64-bit int index *)
Lemma wrap_v1_id x : wrap_at v1_index_wrap x = x. Proof. reflexivity. Qed.
Lemma wrap_v2_id x : wrap_at v2_index_wrap x = x. Proof. reflexivity. Qed.

Lemma index_no_wrap : v1_index_wrap = 0%N /\ v2_index_wrap = 0%N.
Proof. split; reflexivity. Qed.

Lemma v1_list_spec h ring r i : ring <> [] ->
  v1_list h ring r (N.of_nat i) = Some (v1_spec_list h ring r i).
Proof.
  intros Hne. unfold v1_list, v1_spec_list, nseq. rewrite map_map.
  apply all_some_map. intros j _. rewrite wrap_v1_id, ring_at_spec by exact Hne.
  unfold slot. do 2 f_equal. lia.
Qed.

Theorem fill_v1_spec h p r ring : ring <> [] ->
  fill_v1 h p r ring = Ok (map (v1_spec_list h ring r) (seq 0 p)).
Proof.
  intros Hne. unfold fill_v1, nseq. rewrite map_map.
  rewrite (all_some_map _ (v1_spec_list h ring r)); [reflexivity|].
  intros i _. apply v1_list_spec. exact Hne.
Qed.

Lemma fill_v1_empty_ring h p r : fill_v1 h p r [] = Ok (repeat [] p) \/ fill_v1 h p r [] = Panic.
Proof.
  unfold fill_v1. destruct (all_some _) eqn:E; [|right; reflexivity]. left. f_equal.
  revert l E. unfold nseq. generalize 0. induction p as [|p IH]; intros s l E; simpl in *.
  - congruence.
  - destruct (v1_list h [] r (N.of_nat s)) eqn:E1; [|discriminate].
    destruct (all_some _) eqn:E2; [|discriminate]. inversion E; subst. f_equal.
    + unfold v1_list in E1. destruct r; simpl in E1; [congruence|discriminate].
    + eapply IH. exact E2.
Qed.

(* a placement is valid: p lists, each with exactly r distinct members, all of them live nodes *)
Definition valid_layout (live : list name) (p r : nat) (l : layout) : Prop :=
  length l = p /\ Forall (fun nl => length nl = r /\ NoDup nl /\ incl nl live) l.

Lemma slot_lt h n i j : n <> 0 -> slot h n i j < n.
Proof. intros; unfold slot; apply Nat.mod_upper_bound; assumption. Qed.

Lemma v1_spec_list_valid h ring r i :
  NoDup ring -> r <= length ring -> ring <> [] ->
  length (v1_spec_list h ring r i) = r /\ NoDup (v1_spec_list h ring r i) /\ incl (v1_spec_list h ring r i) ring.
Proof.
  intros Hnd Hr Hne. unfold v1_spec_list.
  assert (Hn : length ring <> 0) by (destruct ring; simpl; congruence).
  split; [rewrite map_length, seq_length; reflexivity|]. split.
  - apply NoDup_map_in; [|apply seq_NoDup].
    intros x y Hx Hy E. apply in_seq in Hx, Hy.
    apply (proj1 (NoDup_nth ring []) Hnd) in E; try (apply slot_lt; exact Hn).
    unfold slot in E. eapply mod_add_inj; [| |exact E]; lia.
  - intros x Hx. apply in_map_iff in Hx. destruct Hx as [j [<- _]].
    apply nth_In. apply slot_lt; exact Hn.
Qed.

Theorem fill_v1_valid h p r ring :
  NoDup ring -> r <= length ring -> ring <> [] ->
  exists l, fill_v1 h p r ring = Ok l /\ valid_layout ring p r l.
Proof.
  intros Hnd Hr Hne. eexists. split; [apply fill_v1_spec; exact Hne|].
  split; [rewrite map_length, seq_length; reflexivity|].
  apply Forall_map. apply Forall_forall. intros i _. apply v1_spec_list_valid; assumption.
Qed.

(* DC spread: with d classes of k nodes each (ring slot s belongs to class s mod d), d >= r,
   the r members of every V1 list lie in r different classes *)
Theorem v1_spec_list_spread h ring r i d (cls : name -> nat) :
  d <> 0 -> Nat.divide d (length ring) -> ring <> [] -> r <= d ->
  (forall s, s < length ring -> cls (nth s ring []) = s mod d) ->
  NoDup (map cls (v1_spec_list h ring r i)).
Proof.
  intros Hd Hdiv Hne Hr Hcls. unfold v1_spec_list. rewrite map_map.
  assert (Hn : length ring <> 0) by (destruct ring; simpl; congruence).
  apply NoDup_map_in; [|apply seq_NoDup].
  intros x y Hx Hy E. apply in_seq in Hx, Hy.
  rewrite !Hcls in E by (apply slot_lt; exact Hn).
  unfold slot in E. rewrite !mod_mod_divides in E by assumption.
  eapply mod_add_inj; [| |exact E]; lia.
Qed.

(* leader balance: when the node count divides the partition count every node leads p / n partitions *)
Definition leaders (l : layout) : list name := map (fun nl => hd [] nl) l.

Lemma v1_leader h ring r i : r <> 0 ->
  hd [] (v1_spec_list h ring r i) = nth (slot h (length ring) i 0) ring [].
Proof. intros Hr. unfold v1_spec_list. destruct r; [congruence|]. reflexivity. Qed.

Lemma rotation_perm (n a : nat) : n <> 0 ->
  Permutation (map (fun i => (a + i) mod n) (seq 0 n)) (seq 0 n).
Proof.
  intros Hn. apply NoDup_Permutation_bis.
  - apply NoDup_map_in; [|apply seq_NoDup]. intros x y Hx Hy E. apply in_seq in Hx, Hy.
    eapply mod_add_inj; [| |exact E]; lia.
  - rewrite map_length. reflexivity.
  - intros x Hx. apply in_map_iff in Hx. destruct Hx as [i [<- _]].
    apply in_seq. split; [lia|]. simpl. apply Nat.mod_upper_bound. exact Hn.
Qed.

Lemma map_nth_seq (ring : list name) : map (fun s => nth s ring []) (seq 0 (length ring)) = ring.
Proof.
  induction ring as [|x ring IH]; simpl; [reflexivity|].
  f_equal. rewrite <- seq_shift, map_map. exact IH.
Qed.

Lemma seq_shift_add a n : forall s, map (fun i => a + i) (seq s n) = seq (a + s) n.
Proof.
  induction n as [|n IH]; intros s; simpl; [reflexivity|].
  f_equal. rewrite IH. f_equal. lia.
Qed.

Lemma block_leaders_perm h (ring : list name) b :
  ring <> [] ->
  Permutation (map (fun i => nth (slot h (length ring) i 0) ring []) (seq (b * length ring) (length ring))) ring.
Proof.
  intros Hne. set (n := length ring).
  assert (Hn : n <> 0) by (subst n; destruct ring; simpl; congruence).
  apply Permutation_trans with (map (fun s => nth s ring []) (seq 0 n));
    [|subst n; rewrite map_nth_seq; reflexivity].
  apply Permutation_trans with (map (fun s => nth s ring []) (map (fun i => (N.to_nat h + i) mod n) (seq 0 n)));
    [|apply Permutation_map, rotation_perm; exact Hn].
  rewrite map_map.
  replace (seq (b * n) n) with (map (fun i => b * n + i) (seq 0 n)).
  2:{ rewrite seq_shift_add. f_equal. lia. }
  rewrite map_map. apply Permutation_refl'. apply map_ext. intros i.
  unfold slot. f_equal.
  replace (N.to_nat h + (b * n + i) + 0) with (N.to_nat h + i + b * n) by lia.
  apply Nat.mod_add. exact Hn.
Qed.

Lemma seq_blocks n m : seq 0 (m * n) = concat (map (fun b => seq (b * n) n) (seq 0 m)).
Proof.
  induction m as [|m IH]; [reflexivity|].
  rewrite seq_S, map_app, concat_app. simpl. rewrite app_nil_r.
  replace (n + m * n) with (m * n + n) by lia. rewrite seq_app, IH. reflexivity.
Qed.

Lemma count_occ_concat_const (dec : forall x y : name, {x = y} + {x <> y}) (ls : list (list name)) x c :
  Forall (fun l => count_occ dec l x = c) ls -> count_occ dec (concat ls) x = length ls * c.
Proof.
  induction 1 as [|l ls Hl _ IH]; simpl; [reflexivity|].
  rewrite count_occ_app, Hl, IH. reflexivity.
Qed.

Definition name_dec : forall x y : name, {x = y} + {x <> y} := list_eq_dec N.eq_dec.

Theorem v1_leader_balance h ring r m x :
  NoDup ring -> ring <> [] -> r <> 0 -> In x ring ->
  count_occ name_dec (leaders (map (v1_spec_list h ring r) (seq 0 (m * length ring)))) x = m.
Proof.
  intros Hnd Hne Hr Hx. unfold leaders. rewrite map_map.
  rewrite (map_ext _ (fun i => nth (slot h (length ring) i 0) ring [])) by (intros; apply v1_leader; exact Hr).
  rewrite seq_blocks, concat_map, map_map.
  rewrite (count_occ_concat_const name_dec _ x 1).
  - rewrite map_length, seq_length. lia.
  - apply Forall_map. apply Forall_forall. intros b _.
    pose proof (block_leaders_perm h ring b Hne) as P.
    rewrite (proj1 (Permutation_count_occ name_dec _ _) P).
    apply NoDup_count_occ'; assumption.
Qed.

Lemma fill_v1_r0 h p (ring : list name) : fill_v1 h p 0 ring = Ok (map (fun _ => []) (seq 0 p)).
Proof.
  unfold fill_v1, nseq. rewrite map_map.
  rewrite (all_some_map _ (fun _ => @nil name)); [reflexivity|]. intros; reflexivity.
Qed.

(* ---------- getNodeNameList ---------- *)
Lemma dedup_In x l : In x (dedup l) <-> In x l.
Proof.
  induction l as [|y l IH]; simpl; [tauto|].
  destruct (mem_name y l) eqn:E.
  - rewrite IH. apply mem_name_In in E. split; [auto|]. intros [->|H]; assumption.
  - simpl. rewrite IH. tauto.
Qed.
Lemma dedup_NoDup l : NoDup (dedup l).
Proof.
  induction l as [|y l IH]; simpl; [constructor|].
  destruct (mem_name y l) eqn:E; [exact IH|].
  constructor; [|exact IH]. rewrite dedup_In. apply mem_name_false. exact E.
Qed.

Definition dc_key (nt : list N * tag) : bytes := dc_of (snd nt).
Definition dcs_of (nodes : list (list N * tag)) : list bytes := sort_names (dedup (map dc_key nodes)).
Definition dc_members (nodes : list (list N * tag)) (dc : bytes) : list (list N * tag) :=
  filter (fun nt => bytes_eqb (dc_of (snd nt)) dc) nodes.

Lemma node_name_list_eq nodes :
  node_name_list nodes = map (fun dc => sort_names (map fst (dc_members nodes dc))) (dcs_of nodes).
Proof. reflexivity. Qed.

Lemma dcs_of_NoDup nodes : NoDup (dcs_of nodes).
Proof. unfold dcs_of. eapply Permutation_NoDup; [apply sort_names_perm|apply dedup_NoDup]. Qed.
Lemma dcs_of_In nodes dc : In dc (dcs_of nodes) <-> In dc (map dc_key nodes).
Proof. unfold dcs_of. rewrite sort_names_In, dedup_In. tauto. Qed.

(* grouping by a key over a duplicate-free list of keys that covers all keys is a partition *)
Lemma group_cons_perm {A} (key : A -> bytes) (x : A) (l : list A) (keys : list bytes) :
  NoDup keys ->
  Permutation (concat (map (fun k => filter (fun y => bytes_eqb (key y) k) (x :: l)) keys))
              ((if mem_name (key x) keys then [x] else []) ++ concat (map (fun k => filter (fun y => bytes_eqb (key y) k) l) keys)).
Proof.
  induction keys as [|k keys IH]; intros Hnd; simpl; [reflexivity|].
  inversion Hnd as [|? ? Hnk Hnd']; subst. specialize (IH Hnd').
  destruct (bytes_eqb (key x) k) eqn:E; simpl.
  - apply bytes_eqb_eq in E. subst k.
    assert (Hm : mem_name (key x) keys = false) by (apply mem_name_false; exact Hnk).
    rewrite Hm in IH. simpl in IH. constructor. apply Permutation_app_head. exact IH.
  - rewrite IH. destruct (mem_name (key x) keys); simpl; [|reflexivity].
    symmetry. apply Permutation_middle.
Qed.
Lemma group_perm {A} (key : A -> bytes) (l : list A) (keys : list bytes) :
  NoDup keys -> (forall x, In x l -> In (key x) keys) ->
  Permutation (concat (map (fun k => filter (fun y => bytes_eqb (key y) k) l) keys)) l.
Proof.
  intros Hnd. induction l as [|x l IH]; intros Hcov.
  - simpl. induction keys; simpl; [reflexivity|]. apply IHkeys. inversion Hnd; assumption. intros ? [].
  - rewrite group_cons_perm by exact Hnd.
    assert (Hm : mem_name (key x) keys = true) by (apply mem_name_In, Hcov; left; reflexivity).
    rewrite Hm. simpl. constructor. apply IH. intros y Hy. apply Hcov. right. exact Hy.
Qed.

Theorem node_name_list_perm nodes : Permutation (concat (node_name_list nodes)) (map fst nodes).
Proof.
  rewrite node_name_list_eq.
  transitivity (concat (map (fun dc => map fst (dc_members nodes dc)) (dcs_of nodes))).
  - generalize (dcs_of nodes). intros ks. induction ks as [|k ks IH]; simpl; [reflexivity|].
    apply Permutation_app; [symmetry; apply sort_names_perm|exact IH].
  - replace (map (fun dc => map fst (dc_members nodes dc)) (dcs_of nodes))
      with (map (map fst) (map (dc_members nodes) (dcs_of nodes))) by (rewrite map_map; reflexivity).
    rewrite <- concat_map. apply Permutation_map.
    apply (group_perm dc_key nodes (dcs_of nodes) (dcs_of_NoDup nodes)).
    intros x Hx. apply dcs_of_In. apply in_map. exact Hx.
Qed.

(* independence of the order in which the Go map delivers the nodes *)
Lemma dcs_of_perm nodes nodes' : Permutation nodes nodes' -> dcs_of nodes = dcs_of nodes'.
Proof.
  intros P. unfold dcs_of. apply sort_names_perm_eq.
  apply NoDup_Permutation; try apply dedup_NoDup.
  intros x. rewrite !dedup_In. split; apply Permutation_in; [|symmetry]; apply Permutation_map; exact P.
Qed.
Lemma filter_perm {A} (f : A -> bool) l l' : Permutation l l' -> Permutation (filter f l) (filter f l').
Proof.
  induction 1 as [|x l l' _ IH|x y l|l l' l'' _ IH1 _ IH2]; simpl.
  - reflexivity.
  - destruct (f x); [constructor|]; exact IH.
  - destruct (f x), (f y); try reflexivity. apply perm_swap.
  - etransitivity; eassumption.
Qed.
Theorem node_name_list_perm_invariant nodes nodes' :
  Permutation nodes nodes' -> node_name_list nodes = node_name_list nodes'.
Proof.
  intros P. rewrite !node_name_list_eq, (dcs_of_perm _ _ P).
  apply map_ext. intros dc. apply sort_names_perm_eq. apply Permutation_map. apply filter_perm. exact P.
Qed.

Theorem rebalance_perm_invariant ver ns p r olds nodes nodes' :
  Permutation nodes nodes' -> rebalance ver ns p r olds nodes = rebalance ver ns p r olds nodes'.
Proof.
  intros P. unfold rebalance. rewrite (Permutation_length P), (node_name_list_perm_invariant _ _ P). reflexivity.
Qed.

(* the DC of a node id *)
Definition node_dc (nodes : list (list N * tag)) (x : list N) : bytes :=
  match find (fun nt => bytes_eqb (fst nt) x) nodes with
  | Some nt => dc_of (snd nt)
  | None => []
  end.
Lemma node_dc_in nodes x t : NoDup (map fst nodes) -> In (x, t) nodes -> node_dc nodes x = dc_of t.
Proof.
  unfold node_dc. induction nodes as [|[y u] nodes IH]; intros Hnd Hin; [destruct Hin|].
  simpl in *. inversion Hnd as [|? ? Hny Hnd']; subst.
  destruct (bytes_eqb y x) eqn:E.
  - apply bytes_eqb_eq in E. subst y. destruct Hin as [Heq|Hin]; [inversion Heq; reflexivity|].
    exfalso. apply Hny. apply in_map_iff. exists (x, t). split; [reflexivity|exact Hin].
  - destruct Hin as [Heq|Hin]; [inversion Heq; subst; rewrite bytes_eqb_refl in E; discriminate|].
    apply IH; assumption.
Qed.

Lemma nnl_member_dc nodes c x :
  NoDup (map fst nodes) -> c < length (dcs_of nodes) ->
  In x (nth c (node_name_list nodes) []) -> node_dc nodes x = nth c (dcs_of nodes) [].
Proof.
  intros Hnd Hc Hx. rewrite node_name_list_eq in Hx.
  rewrite (nth_map_lt _ _ _ _ ([] : bytes)) in Hx by exact Hc.
  rewrite sort_names_In in Hx. apply in_map_iff in Hx. destruct Hx as [[y t] [Hy Hin]]. simpl in Hy. subst y.
  apply filter_In in Hin. destruct Hin as [Hin E]. simpl in E. apply bytes_eqb_eq in E.
  rewrite (node_dc_in nodes x t Hnd Hin). exact E.
Qed.

Definition even_topology (nodes : list (list N * tag)) (k : nat) : Prop :=
  forall dc, In dc (dcs_of nodes) -> length (dc_members nodes dc) = k.

Lemma nnl_even_lengths nodes k : even_topology nodes k ->
  Forall (fun l : list (list N) => length l = k) (node_name_list nodes).
Proof.
  intros He. rewrite node_name_list_eq. apply Forall_map. apply Forall_forall. intros dc Hdc.
  rewrite sort_names_length, map_length. apply He. exact Hdc.
Qed.
Lemma nnl_length nodes : length (node_name_list nodes) = length (dcs_of nodes).
Proof. rewrite node_name_list_eq, map_length. reflexivity. Qed.

(* position of a value in a list *)
Fixpoint pos_in (x : bytes) (l : list bytes) : nat :=
  match l with
  | [] => 0
  | y :: r => if bytes_eqb x y then 0 else S (pos_in x r)
  end.
Lemma pos_in_nth l : NoDup l -> forall c, c < length l -> pos_in (nth c l []) l = c.
Proof.
  induction l as [|y l IH]; intros Hnd c Hc; [simpl in Hc; lia|].
  inversion Hnd as [|? ? Hny Hnd']; subst. destruct c as [|c]; simpl.
  - rewrite bytes_eqb_refl. reflexivity.
  - destruct (bytes_eqb (nth c l []) y) eqn:E.
    + apply bytes_eqb_eq in E. exfalso. apply Hny. rewrite <- E. apply nth_In. simpl in Hc. lia.
    + f_equal. apply IH; [exact Hnd'|simpl in Hc; lia].
Qed.

(* the ring built from an even topology: slot s holds a node of DC number s mod d *)
Lemma even_ring_class nodes k :
  NoDup (map fst nodes) -> even_topology nodes k -> k <> 0 ->
  let ring := ring_of_lists (node_name_list nodes) in
  let d := length (dcs_of nodes) in
  length ring = k * d /\
  forall s, s < length ring -> pos_in (node_dc nodes (nth s ring [])) (dcs_of nodes) = s mod d.
Proof.
  intros Hnd He Hk ring d.
  set (lists := node_name_list nodes).
  set (sorted := map sort_names lists).
  assert (Hlen : length sorted = d) by (subst sorted lists d; rewrite map_length; apply nnl_length).
  assert (Hall : Forall (fun l : list (list N) => length l = k) sorted).
  { subst sorted. apply Forall_map. eapply Forall_impl; [|apply nnl_even_lengths; exact He].
    intros l Hl. simpl. rewrite sort_names_length. exact Hl. }
  assert (Hd0 : d = 0 \/ d <> 0) by lia. destruct Hd0 as [Hd0|Hd0].
  { assert (sorted = []) by (destruct sorted; [reflexivity|simpl in Hlen; lia]).
    subst ring. unfold ring_of_lists. fold lists. fold sorted. rewrite H. simpl. split; [lia|intros; lia]. }
  assert (Hfuel : k <= length (concat sorted)).
  { destruct sorted as [|l0 s0]; [simpl in Hlen; lia|]. inversion Hall; subst. simpl. rewrite app_length. lia. }
  assert (Hring : ring = interleave (length (concat sorted)) sorted) by reflexivity.
  assert (HL : length ring = k * d).
  { rewrite Hring, (interleave_even_length k) by assumption. rewrite Hlen. reflexivity. }
  split; [exact HL|].
  intros s Hs.
  assert (Hq : s / d < k). { apply Nat.div_lt_upper_bound; [exact Hd0|]. rewrite HL in Hs. lia. }
  assert (Hc : s mod d < d) by (apply Nat.mod_upper_bound; exact Hd0).
  assert (Hnth : nth s ring [] = nth (s / d) (nth (s mod d) sorted []) []).
  { rewrite (Nat.div_mod_eq s d) at 1. rewrite (Nat.mul_comm d), Hring. rewrite <- Hlen.
    apply (interleave_even k); try assumption; rewrite Hlen; assumption. }
  rewrite Hnth.
  assert (Hin : In (nth (s / d) (nth (s mod d) sorted []) []) (nth (s mod d) lists [])).
  { subst sorted. rewrite (nth_map_lt _ _ _ _ []) by (subst lists; rewrite nnl_length; exact Hc).
    eapply sort_names_In. apply nth_In.
    rewrite sort_names_length.
    pose proof (nnl_even_lengths nodes k He) as HF. rewrite Forall_forall in HF.
    rewrite (HF (nth (s mod d) lists [])); [exact Hq|]. apply nth_In. subst lists. rewrite nnl_length. exact Hc. }
  rewrite (nnl_member_dc nodes (s mod d) _ Hnd Hc Hin).
  apply pos_in_nth; [apply dcs_of_NoDup|exact Hc].
Qed.

(* ---------- V1 through the entry point ---------- *)
Definition is_v2 (ver : bytes) : bool := bytes_eqb ver balance_v2_str.

Lemma ring_facts nodes : NoDup (map fst nodes) ->
  let ring := ring_of_lists (node_name_list nodes) in
  Permutation (map fst nodes) ring /\ NoDup ring /\ length ring = length nodes.
Proof.
  intros Hnd ring.
  assert (P : Permutation (map fst nodes) ring).
  { subst ring. rewrite <- ring_of_lists_perm. symmetry. apply node_name_list_perm. }
  split; [exact P|]. split; [eapply Permutation_NoDup; eassumption|].
  rewrite <- (Permutation_length P), map_length. reflexivity.
Qed.

Lemma valid_layout_perm live live' p r l : Permutation live live' -> valid_layout live p r l -> valid_layout live' p r l.
Proof.
  intros P [H1 H2]. split; [exact H1|]. eapply Forall_impl; [|exact H2].
  intros nl [A [B C]]. repeat split; try assumption. intros x Hx. eapply Permutation_in; [exact P|apply C; exact Hx].
Qed.

Lemma rebalance_unfold ver ns p r olds nodes :
  (r <= N.of_nat (length nodes))%N -> NoDup (map fst nodes) ->
  rebalance ver ns p r olds nodes =
  let ring := ring_of_lists (node_name_list nodes) in
  if is_v2 ver then fill_v2 (murmur3_32 ns) (N.to_nat p) (N.to_nat r) olds ring
  else fill_v1 (murmur3_32 ns) (N.to_nat p) (N.to_nat r) ring.
Proof.
  intros Hr Hnd. unfold rebalance, rebalance_from_lists.
  destruct (N.ltb_spec (N.of_nat (length nodes)) r) as [L|L]; [lia|].
  rewrite (Permutation_length (node_name_list_perm nodes)), map_length.
  destruct (N.ltb_spec (N.of_nat (length nodes)) r) as [L'|L']; [lia|]. reflexivity.
Qed.

Theorem rebalance_refuse_iff ver ns p r olds nodes :
  NoDup (map fst nodes) ->
  (N.of_nat (length nodes) < r)%N -> rebalance ver ns p r olds nodes = Refuse.
Proof.
  intros _ L. unfold rebalance. destruct (N.ltb_spec (N.of_nat (length nodes)) r); [reflexivity|lia].
Qed.

Theorem rebalance_v1_valid ver ns p r olds nodes :
  is_v2 ver = false -> NoDup (map fst nodes) -> (r <= N.of_nat (length nodes))%N ->
  exists l, rebalance ver ns p r olds nodes = Ok l /\ valid_layout (map fst nodes) (N.to_nat p) (N.to_nat r) l.
Proof.
  intros Hv Hnd Hr. rewrite rebalance_unfold by assumption. cbv zeta. rewrite Hv.
  destruct (ring_facts nodes Hnd) as [P [Hndr HL]].
  set (ring := ring_of_lists (node_name_list nodes)) in *.
  destruct ring as [|x0 ring0] eqn:Ering.
  - assert (N.to_nat r = 0) by (simpl in HL; lia). rewrite H, fill_v1_r0. eexists. split; [reflexivity|].
    split; [rewrite map_length, seq_length; reflexivity|].
    apply Forall_map. apply Forall_forall. intros i _. repeat split; [constructor|intros ? []].
  - destruct (fill_v1_valid (murmur3_32 ns) (N.to_nat p) (N.to_nat r) (x0 :: ring0)) as [l [E V]];
      [exact Hndr|rewrite HL; lia|discriminate|].
    exists l. split; [exact E|]. eapply valid_layout_perm; [symmetry; exact P|exact V].
Qed.

Theorem rebalance_v1_dc_spread ver ns p r olds nodes k l :
  is_v2 ver = false -> NoDup (map fst nodes) -> nodes <> [] ->
  even_topology nodes k -> N.to_nat r <= length (dcs_of nodes) ->
  rebalance ver ns p r olds nodes = Ok l ->
  Forall (fun nl => NoDup (map (node_dc nodes) nl)) l.
Proof.
  intros Hv Hnd Hne He Hr E.
  assert (Hd : length (dcs_of nodes) <> 0).
  { destruct nodes as [|nt nodes']; [congruence|].
    assert (In (dc_key nt) (dcs_of (nt :: nodes'))) by (apply dcs_of_In; left; reflexivity).
    destruct (dcs_of (nt :: nodes')); [destruct H|simpl; lia]. }
  assert (Hk : k <> 0).
  { destruct (dcs_of nodes) as [|dc0 ds] eqn:Eds; [simpl in Hd; lia|].
    assert (Hin : In dc0 (dcs_of nodes)) by (rewrite Eds; left; reflexivity).
    rewrite <- (He dc0 Hin). apply dcs_of_In in Hin. apply in_map_iff in Hin. destruct Hin as [nt [Hk Hin]].
    assert (In nt (dc_members nodes dc0)).
    { apply filter_In. split; [exact Hin|]. apply bytes_eqb_eq. exact Hk. }
    destruct (dc_members nodes dc0); [destruct H|simpl; lia]. }
  destruct (even_ring_class nodes k Hnd He Hk) as [HL Hcls].
  destruct (ring_facts nodes Hnd) as [P [Hndr HLn]].
  set (ring := ring_of_lists (node_name_list nodes)) in *.
  assert (Hrn : ring <> []).
  { intros Hr0. rewrite Hr0 in HLn. simpl in HLn. destruct nodes; [congruence|simpl in HLn; lia]. }
  assert (Hrle : (r <= N.of_nat (length nodes))%N).
  { rewrite <- HLn, HL. assert (length (dcs_of nodes) <= k * length (dcs_of nodes)) by nia. lia. }
  rewrite rebalance_unfold in E by assumption. cbv zeta in E. rewrite Hv in E. fold ring in E.
  rewrite fill_v1_spec in E by exact Hrn. inversion E; subst l.
  apply Forall_map. apply Forall_forall. intros i _.
  set (cls := fun x => pos_in (node_dc nodes x) (dcs_of nodes)).
  assert (Hn : NoDup (map cls (v1_spec_list (murmur3_32 ns) ring (N.to_nat r) i))).
  { apply (v1_spec_list_spread _ ring _ i (length (dcs_of nodes)) cls); try assumption.
    - exists k. exact HL. }
  unfold cls in Hn. rewrite <- (map_map (node_dc nodes) (fun y => pos_in y (dcs_of nodes))) in Hn.
  eapply NoDup_map_inv. exact Hn.
Qed.

Theorem rebalance_v1_leader_balance ver ns m r olds nodes l x :
  is_v2 ver = false -> NoDup (map fst nodes) -> nodes <> [] ->
  (0 < r)%N -> (r <= N.of_nat (length nodes))%N ->
  rebalance ver ns (N.of_nat (m * length nodes)) r olds nodes = Ok l ->
  In x (map fst nodes) ->
  count_occ name_dec (leaders l) x = m.
Proof.
  intros Hv Hnd Hne Hr0 Hr E Hx.
  destruct (ring_facts nodes Hnd) as [P [Hndr HLn]].
  set (ring := ring_of_lists (node_name_list nodes)) in *.
  assert (Hrn : ring <> []).
  { intros Hr1. rewrite Hr1 in HLn. simpl in HLn. destruct nodes; [congruence|simpl in HLn; lia]. }
  rewrite rebalance_unfold in E by assumption. cbv zeta in E. rewrite Hv in E. fold ring in E.
  rewrite fill_v1_spec in E by exact Hrn. inversion E; subst l.
  rewrite Nat2N.id, <- HLn.
  apply v1_leader_balance; try assumption; [lia|]. eapply Permutation_in; eassumption.
Qed.
