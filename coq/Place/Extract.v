(* Place/Extract.v — extraction of the C17 model (ExtrOcamlBasic only) *)
From Coq Require Import ExtrOcamlBasic.
From ZV Require Import Place.Model.
Extraction Language OCaml.
Extraction "model.ml" Z.of_N N.of_nat Nat.add N.to_nat rebalance rebalance_from_lists node_name_list ring_of_lists
  fill_v1 fill_v2 v2_fill_phase move_step move_loop mkload alloc_node unwanted_node.
