(* Place/ProofsConsumers.v — C17, part 5: what the placement driver does with the layout:
   allocNodeForNamespace (which node is added) and decideUnwantedRaftNode (which node is dropped). *)
From ZV Require Import Common.Bytes Common.BytesFacts Part.Model Place.Consts Place.Model Place.Proofs Place.ProofsV2.
From Coq Require Import Permutation ZifyN ZifyNat ZifyBool Arith PeanoNat.
Open Scope nat_scope.

Lemma forallb_false_ex {A} (f : A -> bool) l : forallb f l = false -> exists x, In x l /\ f x = false.
Proof.
  induction l as [|a l IH]; simpl; [discriminate|]. destruct (f a) eqn:E; simpl.
  - intros H. destruct (IH H) as [x [Hx Hf]]. exists x. split; [right; exact Hx|exact Hf].
  - intros _. exists a. split; [left; reflexivity|exact E].
Qed.

(* a duplicate-free list longer than another has a member outside it *)
Lemma pigeon_outside (l w : list (list N)) : NoDup l -> length w < length l -> exists x, In x l /\ ~ In x w.
Proof.
  intros Hnd Hlen. destruct (forallb (fun y => mem_name y w) l) eqn:E.
  - exfalso. rewrite forallb_forall in E.
    assert (incl l w) by (intros y Hy; apply mem_name_In; apply E; exact Hy).
    pose proof (NoDup_incl_length Hnd H). lia.
  - apply forallb_false_ex in E. destruct E as [x [Hx Hf]]. exists x. split; [exact Hx|]. apply mem_name_false. exact Hf.
Qed.

Lemma find_not_in (isr wanted : list (list N)) :
  match find (fun x => negb (mem_name x isr)) wanted with
  | Some x => In x wanted /\ ~ In x isr
  | None => incl wanted isr
  end.
Proof.
  destruct (find _ wanted) as [x|] eqn:E.
  - apply find_some in E. destruct E as [H1 H2]. split; [exact H1|]. apply mem_name_false. apply negb_true_iff. exact H2.
  - intros y Hy. pose proof (find_none _ _ E y Hy) as H. simpl in H. apply negb_false_iff in H. apply mem_name_In. exact H.
Qed.

Definition last_outside (wanted isr : list (list N)) : list N :=
  fold_left (fun acc nid => if mem_name nid wanted then acc else nid) isr [].

Lemma fold_outside wanted : forall isr acc,
  let res := fold_left (fun acc nid => if mem_name nid wanted then acc else nid) isr acc in
  (res = acc /\ incl isr wanted) \/ (In res isr /\ ~ In res wanted).
Proof.
  induction isr as [|y isr IH]; intros acc; simpl.
  - left. split; [reflexivity|intros ? []].
  - destruct (mem_name y wanted) eqn:E.
    + destruct (IH acc) as [[H1 H2]|[H1 H2]].
      * left. split; [exact H1|]. intros z [<-|Hz]; [apply mem_name_In; exact E|apply H2; exact Hz].
      * right. split; [right; exact H1|exact H2].
    + apply mem_name_false in E. destruct (IH y) as [[H1 H2]|[H1 H2]].
      * right. rewrite H1. split; [left; reflexivity|exact E].
      * right. split; [right; exact H1|exact H2].
Qed.

Section Consumers.
Variables (ver ns : bytes) (p r : N) (isrs : list (list (list N))) (nodes : list (list N * tag)) (part : nat).
Hypothesis Hnd : NoDup (map fst nodes).
Hypothesis Hne : ~ In [] (map fst nodes).
Hypothesis Hnn : nodes <> [].
Hypothesis Hok : olds_ok (N.to_nat p) isrs.
Hypothesis Hpart : part < N.to_nat p.

(* allocNodeForNamespace never panics; a node it returns is alive and not yet a raft node of the
   partition (so RaftNodes stays duplicate-free: C18's invariant); it finds one whenever the partition has
   fewer than r raft nodes and the cluster has at least r nodes *)
Theorem alloc_node_spec :
  alloc_node ver ns p r isrs nodes part <> Panic /\
  (forall x, alloc_node ver ns p r isrs nodes part = Ok x ->
     In x (map fst nodes) /\ ~ In x (nth part isrs [])) /\
  ((r <= N.of_nat (length nodes))%N -> length (nth part isrs []) < N.to_nat r ->
     exists x, alloc_node ver ns p r isrs nodes part = Ok x).
Proof.
  unfold alloc_node.
  destruct (N.lt_ge_cases (N.of_nat (length nodes)) r) as [L|L].
  - rewrite rebalance_refuse_iff by assumption. split; [discriminate|]. split; [discriminate|]. intros; lia.
  - destruct (rebalance_valid ver ns p r isrs nodes Hnd Hne Hnn L Hok) as [l [E [VL VF]]]. rewrite E.
    destruct (nth_error l part) as [wanted|] eqn:En; [|apply nth_error_None in En; lia].
    assert (Hw : length wanted = N.to_nat r /\ NoDup wanted /\ incl wanted (map fst nodes)).
    { rewrite Forall_forall in VF. apply VF. eapply nth_error_In. exact En. }
    destruct Hw as [W1 [W2 W3]].
    pose proof (find_not_in (nth part isrs []) wanted) as Hf.
    destruct (find _ wanted) as [x|].
    + split; [discriminate|]. split.
      * intros y Ey. inversion Ey; subst y. destruct Hf as [F1 F2]. split; [apply W3; exact F1|exact F2].
      * intros _ _. eauto.
    + split; [discriminate|]. split; [discriminate|]. intros _ Hlen. exfalso.
      pose proof (NoDup_incl_length W2 Hf). lia.
Qed.

(* decideUnwantedRaftNode never panics; the node it names is an ISR member of the partition that the wanted
   layout does not contain; it names one whenever the ISR is longer than r (duplicate-free, no empty id) *)
Theorem unwanted_node_spec :
  exists x, unwanted_node ver ns p r isrs nodes part = Ok x /\
  (x <> [] -> In x (nth part isrs [])) /\
  ((r <= N.of_nat (length nodes))%N -> ~ In [] (nth part isrs []) -> N.to_nat r < length (nth part isrs []) ->
     x <> [] /\ exists l wanted, rebalance ver ns p r isrs nodes = Ok l /\ nth_error l part = Some wanted /\ ~ In x wanted).
Proof.
  unfold unwanted_node.
  destruct (N.lt_ge_cases (N.of_nat (length nodes)) r) as [L|L].
  - rewrite rebalance_refuse_iff by assumption. exists []. split; [reflexivity|]. split; [congruence|]. intros; lia.
  - destruct (rebalance_valid ver ns p r isrs nodes Hnd Hne Hnn L Hok) as [l [E [VL VF]]]. rewrite E.
    destruct (nth_error l part) as [wanted|] eqn:En; [|apply nth_error_None in En; lia].
    assert (Hw : length wanted = N.to_nat r /\ NoDup wanted /\ incl wanted (map fst nodes)).
    { rewrite Forall_forall in VF. apply VF. eapply nth_error_In. exact En. }
    destruct Hw as [W1 [W2 W3]].
    eexists. split; [reflexivity|].
    pose proof (fold_outside wanted (nth part isrs []) []) as Hf. cbv zeta in Hf.
    set (res := fold_left _ (nth part isrs []) []) in *.
    split.
    + intros Hx. destruct Hf as [[H1 _]|[H1 _]]; [congruence|exact H1].
    + intros _ Hne0 Hlen. destruct Hf as [[H1 H2]|[H1 H2]].
      * exfalso. assert (Hisr : NoDup (nth part isrs [])).
        { destruct Hok as [_ HF]. destruct (Nat.lt_ge_cases part (length isrs)) as [Lp|Lp].
          - rewrite Forall_forall in HF. apply HF. apply nth_In. exact Lp.
          - rewrite nth_overflow by exact Lp. constructor. }
        pose proof (NoDup_incl_length Hisr H2). lia.
      * split; [intros E0; apply Hne0; rewrite <- E0; exact H1|]. exists l, wanted. auto.
Qed.
End Consumers.
