(* Place/ProofsV2Fresh.v — C17, part 3: V2 fresh layouts spread every partition over r data centres on
   even topologies. The algorithm uses node ids only through equality tests, so its run on an arbitrary
   duplicate-free ring is the relabelling of its run on the canonical ring [0];[1];... (section Relabel);
   on canonical rings the claim is checked exhaustively for the property's whole range (<= 40 nodes,
   <= 4 data centres, p <= 64) by the Sweep*.v files. *)
From ZV Require Import Common.Bytes Common.BytesFacts Part.Model Place.Consts Place.Model Place.Proofs Place.ProofsV2
  Place.SweepDefs Place.SweepD2 Place.SweepD3r2 Place.SweepD3r3 Place.SweepD4r2 Place.SweepD4r3 Place.SweepD4r4.
From Coq Require Import Permutation ZifyN ZifyNat ZifyBool Arith PeanoNat.
Open Scope nat_scope.

Definition out_map {A B} (f : A -> B) (o : outcome A) : outcome B :=
  match o with Ok a => Ok (f a) | Refuse => Refuse | Panic => Panic end.

Section Relabel.
Variable phi : list N -> list N.
Variable NS : list (list N).
Hypothesis phi_inj : forall x y, In x NS -> In y NS -> phi x = phi y -> x = y.
Hypothesis S_noempty : ~ In [] NS.
Hypothesis phiS_noempty : ~ In [] (map phi NS).

Definition relab (l : nload) : nload := mkload (phi (nl_name l)) (nl_idx l) (nl_lead l) (nl_rep l).
Definition relabs (ls : loads) : loads := map relab ls.

Lemma eqb_phi x y : In x NS -> In y NS -> bytes_eqb (phi x) (phi y) = bytes_eqb x y.
Proof.
  intros Hx Hy. destruct (bytes_eqb x y) eqn:E.
  - apply bytes_eqb_eq in E. subst. apply bytes_eqb_refl.
  - apply bytes_eqb_neq. apply bytes_eqb_neq in E. intros H. apply E. apply phi_inj; assumption.
Qed.
Lemma mem_phi x l : In x NS -> incl l NS -> mem_name (phi x) (map phi l) = mem_name x l.
Proof.
  intros Hx. induction l as [|y l IH]; intros Hl; simpl; [reflexivity|].
  rewrite eqb_phi by (try assumption; apply Hl; left; reflexivity).
  rewrite IH; [reflexivity|]. intros z Hz. apply Hl. right. exact Hz.
Qed.
Lemma names_relabs ls : names (relabs ls) = map phi (names ls).
Proof. unfold names, relabs. rewrite !map_map. reflexivity. Qed.

Lemma init_relab h n : forall ring i, init_loads h n i (map phi ring) = relabs (init_loads h n i ring).
Proof. induction ring as [|x ring IH]; intros i; simpl; [reflexivity|]. f_equal. apply IH. Qed.

Lemma has_node_empty ls : incl (names ls) NS -> has_node [] (relabs ls) = false /\ has_node [] ls = false.
Proof.
  intros H. split; apply has_node_false.
  - rewrite names_relabs. intros Hin. apply phiS_noempty. apply in_map_iff in Hin. destruct Hin as [x [E Hx]].
    apply in_map_iff. exists x. split; [exact E|apply H; exact Hx].
  - intros Hin. apply S_noempty. apply H. exact Hin.
Qed.

Lemma cands_relab excl ls : incl (names ls) NS -> incl excl NS ->
  cands (map phi excl) (relabs ls) = relabs (cands excl ls).
Proof.
  intros Hn He. unfold cands, relabs. induction ls as [|l ls IH]; simpl; [reflexivity|].
  assert (Hl : In (nl_name l) NS) by (apply Hn; left; reflexivity).
  rewrite mem_phi by assumption.
  rewrite IH by (intros z Hz; apply Hn; right; exact Hz).
  destruct (mem_name (nl_name l) excl); reflexivity.
Qed.

Lemma min_by_relab ltb : (forall a b, ltb (relab a) (relab b) = ltb a b) ->
  forall l, min_by ltb (relabs l) = option_map relab (min_by ltb l).
Proof.
  intros H. induction l as [|x l IH]; simpl; [reflexivity|]. rewrite IH.
  destruct (min_by ltb l) as [m|]; simpl; [|reflexivity]. rewrite H. destruct (ltb m x); reflexivity.
Qed.
Lemma max_by_relab ltb : (forall a b, ltb (relab a) (relab b) = ltb a b) ->
  forall l, max_by ltb (relabs l) = option_map relab (max_by ltb l).
Proof.
  intros H. induction l as [|x l IH]; simpl; [reflexivity|]. rewrite IH.
  destruct (max_by ltb l) as [m|]; simpl; [|reflexivity]. rewrite H. destruct (ltb x m); reflexivity.
Qed.
Lemma lead_ltb_relab a b : lead_ltb (relab a) (relab b) = lead_ltb a b. Proof. reflexivity. Qed.
Lemma rep_ltb_relab a b : rep_ltb (relab a) (relab b) = rep_ltb a b. Proof. reflexivity. Qed.

Lemma upd_relab c f ls : In c NS -> incl (names ls) NS -> (forall l, f (relab l) = relab (f l)) ->
  upd_node (phi c) f (relabs ls) = relabs (upd_node c f ls).
Proof.
  intros Hc Hn Hf. unfold upd_node, relabs. rewrite !map_map. apply map_ext_in.
  intros l Hl. simpl. rewrite eqb_phi; [|apply Hn; apply in_map; exact Hl|exact Hc].
  destruct (bytes_eqb (nl_name l) c); [apply Hf|reflexivity].
Qed.

Lemma fill_slots_names pid old : forall rem j ls excl ls' rest,
  fill_slots pid old j rem ls excl = Ok (ls', rest) -> names ls' = names ls.
Proof.
  induction rem as [|rem IH]; intros j ls excl ls' rest E; simpl in E.
  - inversion E; reflexivity.
  - destruct (has_node (nth j old []) ls).
    + destruct (fill_slots pid old (S j) rem ls excl) as [[ls1 r1]| |] eqn:E1; try discriminate.
      inversion E; subst. eapply IH. exact E1.
    + destruct (if Nat.eqb j 0 then _ else _) as [m|]; [|discriminate].
      match type of E with context [fill_slots pid old (S j) rem ?L ?X] =>
        destruct (fill_slots pid old (S j) rem L X) as [[ls1 r1]| |] eqn:E1; try discriminate end.
      inversion E; subst. apply IH in E1. rewrite E1.
      destruct (Nat.eqb j 0); apply names_upd; auto with np.
Qed.

Lemma fill_slots_S pid oldl j rem ls excl :
  fill_slots pid oldl j (S rem) ls excl =
      let old := nth j oldl [] in
      if has_node old ls then
        match fill_slots pid oldl (S j) rem ls excl with
        | Ok (ls', rest) => Ok (ls', old :: rest)
        | Refuse => Refuse
        | Panic => Panic
        end
      else
        let pick := if Nat.eqb j 0 then min_by lead_ltb (cands excl ls) else min_by rep_ltb (cands excl ls) in
        match pick with
        | None => Panic
        | Some m =>
            let nm := nl_name m in
            let ls1 := if Nat.eqb j 0
                       then upd_node nm (fun l => add_rep pid (add_lead pid l)) ls
                       else upd_node nm (add_rep pid) ls in
            match fill_slots pid oldl (S j) rem ls1 (excl ++ [nm]) with
            | Ok (ls', rest) => Ok (ls', nm :: rest)
            | Refuse => Refuse
            | Panic => Panic
            end
        end.
Proof. reflexivity. Qed.

Lemma fill_slots_relab pid : forall rem j ls excl, incl (names ls) NS -> incl excl NS ->
  fill_slots pid [] j rem (relabs ls) (map phi excl) =
  out_map (fun lr => (relabs (fst lr), map phi (snd lr))) (fill_slots pid [] j rem ls excl).
Proof.
  induction rem as [|rem IH]; intros j ls excl Hn He; [reflexivity|].
  rewrite !fill_slots_S. cbv zeta.
  assert (Hnth : nth j (@nil (list N)) [] = []) by (destruct j; reflexivity). rewrite Hnth.
  destruct (has_node_empty ls Hn) as [-> ->].
  rewrite cands_relab by assumption.
  rewrite (min_by_relab lead_ltb lead_ltb_relab), (min_by_relab rep_ltb rep_ltb_relab).
  destruct (Nat.eqb j 0) eqn:Ej.
  - destruct (min_by lead_ltb (cands excl ls)) as [m|] eqn:Em; simpl; [|reflexivity].
    assert (Hm : In (nl_name m) NS).
    { apply min_by_in in Em. apply cands_in in Em. apply Hn. apply in_map. tauto. }
    rewrite upd_relab by (try assumption; reflexivity).
    replace (map phi excl ++ [phi (nl_name m)]) with (map phi (excl ++ [nl_name m])) by (rewrite map_app; reflexivity).
    rewrite IH.
    + destruct (fill_slots pid [] (S j) rem _ (excl ++ [nl_name m])) as [[ls1 r1]| |]; reflexivity.
    + rewrite names_upd by auto with np. exact Hn.
    + intros z Hz. apply in_app_single in Hz. destruct Hz as [Hz| ->]; [apply He; exact Hz|exact Hm].
  - destruct (min_by rep_ltb (cands excl ls)) as [m|] eqn:Em; simpl; [|reflexivity].
    assert (Hm : In (nl_name m) NS).
    { apply min_by_in in Em. apply cands_in in Em. apply Hn. apply in_map. tauto. }
    rewrite upd_relab by (try assumption; reflexivity).
    replace (map phi excl ++ [phi (nl_name m)]) with (map phi (excl ++ [nl_name m])) by (rewrite map_app; reflexivity).
    rewrite IH.
    + destruct (fill_slots pid [] (S j) rem _ (excl ++ [nl_name m])) as [[ls1 r1]| |]; reflexivity.
    + rewrite names_upd by auto with np. exact Hn.
    + intros z Hz. apply in_app_single in Hz. destruct Hz as [Hz| ->]; [apply He; exact Hz|exact Hm].
Qed.

Lemma fill_parts_S pid rem olds r ls :
  fill_parts pid (S rem) olds r ls =
      let oldlist := nth (N.to_nat pid) olds [] in
      match fill_slots pid oldlist 0 r ls oldlist with
      | Ok (ls1, nl) =>
          match fill_parts (pid + 1) rem olds r ls1 with
          | Ok (ls2, rest) => Ok (ls2, nl :: rest)
          | Refuse => Refuse
          | Panic => Panic
          end
      | Refuse => Refuse
      | Panic => Panic
      end.
Proof. reflexivity. Qed.

Lemma fill_parts_relab r : forall rem pid ls, incl (names ls) NS ->
  fill_parts pid rem [] r (relabs ls) =
  out_map (fun lp => (relabs (fst lp), map (map phi) (snd lp))) (fill_parts pid rem [] r ls).
Proof.
  induction rem as [|rem IH]; intros pid ls Hn; [reflexivity|].
  rewrite !fill_parts_S. cbv zeta.
  assert (Hnth : nth (N.to_nat pid) (@nil (list (list N))) [] = []) by (destruct (N.to_nat pid); reflexivity).
  rewrite Hnth.
  pose proof (fill_slots_relab pid r 0 ls [] Hn (fun z (H : In z []) => match H with end)) as E. simpl in E. rewrite E.
  destruct (fill_slots pid [] 0 r ls []) as [[ls1 nl]| |] eqn:E1; simpl; try reflexivity.
  rewrite IH.
  - destruct (fill_parts (pid + 1) rem [] r ls1) as [[ls2 rest]| |]; reflexivity.
  - rewrite (fill_slots_names _ _ _ _ _ _ _ _ E1). exact Hn.
Qed.

Lemma balanced_relab ls : balanced (relabs ls) = balanced ls.
Proof.
  unfold balanced.
  rewrite (min_by_relab lead_ltb lead_ltb_relab), (max_by_relab lead_ltb lead_ltb_relab),
          (min_by_relab rep_ltb rep_ltb_relab), (max_by_relab rep_ltb rep_ltb_relab).
  destruct (min_by lead_ltb ls), (max_by lead_ltb ls), (min_by rep_ltb ls), (max_by rep_ltb ls); reflexivity.
Qed.

Theorem v2_fill_phase_relab h p r ring : incl ring NS ->
  v2_fill_phase h p r [] (map phi ring) =
  out_map (fun lp => (relabs (fst lp), map (map phi) (snd lp))) (v2_fill_phase h p r [] ring).
Proof.
  intros Hr. unfold v2_fill_phase. cbn [map]. simpl add_olds. rewrite map_length, init_relab.
  apply fill_parts_relab. rewrite names_init. exact Hr.
Qed.
End Relabel.

(* ---------- balanced maps: moveIfUnbalanced moves nothing ---------- *)
Lemma move_step_balanced ls parts : balanced ls = true -> move_step ls parts = Ok (ls, parts, true).
Proof.
  unfold balanced, move_step. intros H.
  destruct (min_by lead_ltb ls), (max_by lead_ltb ls); try discriminate.
  destruct (min_by rep_ltb ls), (max_by rep_ltb ls); try (destruct (max_by rep_ltb ls); discriminate).
  apply andb_prop in H. destruct H as [-> ->]. reflexivity.
Qed.
Lemma fill_v2_balanced h p r olds ring ls parts :
  v2_fill_phase h p r olds ring = Ok (ls, parts) -> balanced ls = true -> fill_v2 h p r olds ring = Ok parts.
Proof.
  intros E B. unfold fill_v2. rewrite E. replace (r * p + 1) with (S (r * p)) by lia.
  simpl. rewrite (move_step_balanced ls parts B). reflexivity.
Qed.

(* the rotation only matters modulo the ring length *)
Lemma init_loads_mod h n : n <> 0%N -> forall ring i, init_loads h n i ring = init_loads (h mod n) n i ring.
Proof.
  intros Hn. induction ring as [|x ring IH]; intros i; simpl; [reflexivity|].
  f_equal; [|apply IH]. f_equal. rewrite !wrap_v2_id. rewrite N.add_mod_idemp_r by exact Hn. reflexivity.
Qed.
Lemma v2_fill_phase_mod h p r olds ring : ring <> [] ->
  v2_fill_phase h p r olds ring = v2_fill_phase (h mod N.of_nat (length ring)) p r olds ring.
Proof.
  intros Hne. unfold v2_fill_phase. rewrite <- init_loads_mod; [reflexivity|].
  destruct ring; [congruence|simpl; lia].
Qed.

(* ---------- the canonical ring and its relabelling onto an arbitrary ring ---------- *)
Definition to_ring (ring : list (list N)) (x : list N) : list N := nth (canon_idx x) ring [].

Lemma canon_ring_in n x : In x (canon_ring n) <-> exists i, i < n /\ x = [N.of_nat i].
Proof.
  unfold canon_ring. rewrite in_map_iff. split.
  - intros [i [E Hi]]. apply in_seq in Hi. exists i. split; [lia|congruence].
  - intros [i [Hi E]]. exists i. split; [congruence|apply in_seq; lia].
Qed.
Lemma canon_ring_length n : length (canon_ring n) = n.
Proof. unfold canon_ring. rewrite map_length, seq_length. reflexivity. Qed.
Lemma map_to_ring ring : map (to_ring ring) (canon_ring (length ring)) = ring.
Proof.
  unfold canon_ring. rewrite map_map.
  transitivity (map (fun s => nth s ring []) (seq 0 (length ring))); [|apply map_nth_seq].
  apply map_ext. intros i. unfold to_ring. simpl. rewrite Nat2N.id. reflexivity.
Qed.

Lemma nodup_nat_spec l : nodup_nat l = true -> NoDup l.
Proof.
  induction l as [|x l IH]; simpl; intros H; [constructor|].
  apply andb_prop in H. destruct H as [H1 H2]. constructor; [|apply IH; exact H2].
  intros Hin. rewrite negb_true_iff in H1.
  assert (existsb (Nat.eqb x) l = true) by (apply existsb_exists; exists x; split; [exact Hin|apply Nat.eqb_refl]).
  congruence.
Qed.

(* ring-level statement: whenever the canonical check succeeds the real run is its relabelling *)
Theorem fill_v2_fresh_by_check h p r d k (ring : list (list N)) (cls : list N -> nat) :
  NoDup ring -> ~ In [] ring -> ring <> [] -> r <= length ring -> length ring = d * k ->
  check_one d k r (N.to_nat (h mod N.of_nat (length ring))) p = true ->
  (forall s, s < length ring -> cls (nth s ring []) = s mod d) ->
  exists parts, fill_v2 h p r [] ring = Ok parts /\ Forall (fun nl => NoDup (map cls nl)) parts.
Proof.
  intros Hnd Hne Hrn Hr HL Hchk Hcls.
  unfold check_one in Hchk. rewrite N2Nat.id, <- HL in Hchk.
  destruct (v2_fill_phase (h mod N.of_nat (length ring)) p r [] (canon_ring (length ring))) as [[lsC partsC]| |] eqn:EC;
    try discriminate.
  apply andb_prop in Hchk. destruct Hchk as [HB HS].
  set (n := length ring) in *.
  assert (Hcnd : NoDup (canon_ring n)).
  { apply NoDup_map_in; [|apply seq_NoDup]. intros a b _ _ E. inversion E. lia. }
  assert (Hinj : forall x y, In x (canon_ring n) -> In y (canon_ring n) -> to_ring ring x = to_ring ring y -> x = y).
  { intros x y Hx Hy E. apply canon_ring_in in Hx, Hy. destruct Hx as [i [Hi ->]], Hy as [j [Hj ->]].
    unfold to_ring in E. simpl in E. rewrite !Nat2N.id in E.
    apply (proj1 (NoDup_nth ring []) Hnd) in E; [congruence|exact Hi|exact Hj]. }
  assert (Hce : ~ In [] (canon_ring n)).
  { intros H. apply canon_ring_in in H. destruct H as [i [_ H]]. discriminate. }
  assert (Hpe : ~ In [] (map (to_ring ring) (canon_ring n))) by (subst n; rewrite map_to_ring; exact Hne).
  (* members of the canonical lists are canonical names *)
  assert (Hmem : forall nl x, In nl partsC -> In x nl -> exists i, i < n /\ x = [N.of_nat i]).
  { intros nl x Hnl Hx.
    destruct (v2_fill_phase_ok (h mod N.of_nat n) p r [] (canon_ring n)) as [ls0 [parts0 [E0 [_ [_ [HF0 _]]]]]];
      try assumption.
    - rewrite canon_ring_length. exact Hr.
    - simpl; lia.
    - constructor.
    - rewrite EC in E0. inversion E0; subst. rewrite Forall_forall in HF0.
      destruct (HF0 nl Hnl) as [_ [_ Hi]]. apply canon_ring_in. apply Hi. exact Hx. }
  pose proof (v2_fill_phase_relab (to_ring ring) (canon_ring n) Hinj Hce Hpe
                (h mod N.of_nat n) p r (canon_ring n) (incl_refl _)) as ER.
  subst n. rewrite map_to_ring in ER. rewrite EC in ER. simpl in ER.
  rewrite <- v2_fill_phase_mod in ER by exact Hrn.
  exists (map (map (to_ring ring)) partsC). split.
  - eapply fill_v2_balanced; [exact ER|]. rewrite balanced_relab. exact HB.
  - apply Forall_map. unfold spread_ok in HS. rewrite forallb_forall in HS.
    apply Forall_forall. intros nl Hnl.
    specialize (HS nl Hnl). apply nodup_nat_spec in HS. rewrite map_map.
    rewrite (map_ext_in _ (fun x => canon_idx x mod d)); [exact HS|].
    intros x Hx. destruct (Hmem nl x Hnl Hx) as [i [Hi ->]]. unfold to_ring. simpl. rewrite Nat2N.id.
    apply Hcls. exact Hi.
Qed.

(* ---------- lifting the sweeps ---------- *)
Lemma spread_ok_cons d nl parts :
  spread_ok d (nl :: parts) = nodup_nat (map (fun x => canon_idx x mod d) nl) && spread_ok d parts.
Proof. reflexivity. Qed.

(* the incremental walk certifies every prefix: all partition counts up to rem *)
Lemma walk_spec d r : forall rem pid ls, walk d r pid rem ls = true ->
  forall p, p <= rem ->
  exists ls' parts, fill_parts pid p [] r ls = Ok (ls', parts) /\ (1 <= p -> balanced ls' = true) /\ spread_ok d parts = true.
Proof.
  induction rem as [|rem IH]; intros pid ls H p Hp.
  - assert (p = 0) by lia. subst p. exists ls, []. split; [reflexivity|]. split; [lia|reflexivity].
  - destruct p as [|p]; [exists ls, []; split; [reflexivity|]; split; [lia|reflexivity]|].
    simpl in H. rewrite fill_parts_S. cbv zeta.
    assert (Hnth : nth (N.to_nat pid) (@nil (list (list N))) [] = []) by (destruct (N.to_nat pid); reflexivity).
    rewrite Hnth.
    destruct (fill_slots pid [] 0 r ls []) as [[ls1 nl]| |]; try discriminate.
    apply andb_prop in H. destruct H as [H H3]. apply andb_prop in H. destruct H as [H1 H2].
    destruct (IH (pid + 1)%N ls1 H3 p ltac:(lia)) as [ls' [parts [E [HB HS]]]].
    rewrite E. exists ls', (nl :: parts). split; [reflexivity|]. split.
    + intros _. destruct p as [|p']; [|apply HB; lia]. simpl in E. inversion E; subst. exact H2.
    + rewrite spread_ok_cons, H1, HS. reflexivity.
Qed.

Lemma check_walk_spec pmax d k r hm : check_walk pmax d k r hm = true ->
  forall p, 1 <= p <= pmax -> check_one d k r hm p = true.
Proof.
  unfold check_walk, check_one, v2_fill_phase. intros H p Hp. cbn [map]. simpl add_olds. rewrite canon_ring_length.
  destruct (walk_spec d r pmax 0%N _ H p ltac:(lia)) as [ls' [parts [E [HB HS]]]].
  rewrite E, HB, HS by lia. reflexivity.
Qed.

Lemma check_dkr_spec pmax d k r : check_dkr pmax d k r = true ->
  forall hm p, hm < d * k -> 1 <= p <= pmax -> check_one d k r hm p = true.
Proof.
  unfold check_dkr. intros H hm p Hh Hp. rewrite forallb_forall in H.
  apply (check_walk_spec pmax); [|exact Hp]. apply H. apply in_seq. lia.
Qed.

Lemma forallb_seq_spec (f : nat -> bool) a len : forallb f (seq a len) = true -> forall k, a <= k < a + len -> f k = true.
Proof. intros H k Hk. rewrite forallb_forall in H. apply H. apply in_seq. lia. Qed.

(* the whole range of the property: 2 <= r <= d <= 4 data centres of k nodes each, d * k <= 40 nodes,
   every rotation, 1..64 partitions (r <= 1 and p = 0 need no computation) *)
Theorem check_in_range d k r hm p :
  2 <= r <= d -> d <= 4 -> 1 <= k -> d * k <= 40 -> hm < d * k -> 1 <= p <= 64 ->
  check_one d k r hm p = true.
Proof.
  intros Hr Hd Hk Hn Hh Hp.
  assert (Hcases : (d = 2 /\ r = 2) \/ (d = 3 /\ (r = 2 \/ r = 3)) \/ (d = 4 /\ (r = 2 \/ r = 3 \/ r = 4))) by lia.
  destruct Hcases as [[-> ->]|[[-> Hr3]|[-> Hr4]]].
  - apply (check_dkr_spec 64); try assumption. apply (forallb_seq_spec _ _ _ sweep_d2). lia.
  - destruct Hr3 as [->| ->]; apply (check_dkr_spec 64); try assumption.
    + apply (forallb_seq_spec _ _ _ sweep_d3r2). lia.
    + apply (forallb_seq_spec _ _ _ sweep_d3r3). lia.
  - destruct Hr4 as [->|[->| ->]]; apply (check_dkr_spec 64); try assumption.
    + apply (forallb_seq_spec _ _ _ sweep_d4r2). lia.
    + apply (forallb_seq_spec _ _ _ sweep_d4r3). lia.
    + apply (forallb_seq_spec _ _ _ sweep_d4r4). lia.
Qed.

Lemma even_k_pos nodes k : nodes <> [] -> even_topology nodes k -> k <> 0 /\ length (dcs_of nodes) <> 0.
Proof.
  intros Hne He.
  assert (Hd : length (dcs_of nodes) <> 0).
  { destruct nodes as [|nt nodes']; [congruence|].
    assert (In (dc_key nt) (dcs_of (nt :: nodes'))) by (apply dcs_of_In; left; reflexivity).
    destruct (dcs_of (nt :: nodes')); [destruct H|simpl; lia]. }
  split; [|exact Hd].
  destruct (dcs_of nodes) as [|dc0 ds] eqn:Eds; [simpl in Hd; lia|].
  assert (Hin : In dc0 (dcs_of nodes)) by (rewrite Eds; left; reflexivity).
  rewrite <- (He dc0 Hin). apply dcs_of_In in Hin. apply in_map_iff in Hin. destruct Hin as [nt [Hk Hin]].
  assert (In nt (dc_members nodes dc0)).
  { apply filter_In. split; [exact Hin|]. apply bytes_eqb_eq. exact Hk. }
  destruct (dc_members nodes dc0); [destruct H|simpl; lia].
Qed.

Lemma NoDup_short {A B} (f : A -> B) (l : list A) : length l <= 1 -> NoDup (map f l).
Proof.
  destruct l as [|a [|b l]]; simpl; intros H; [constructor|constructor; [intros []|constructor]|lia].
Qed.

(* V2 fresh layouts on even topologies over at least r data centres, within the property's range *)
Theorem rebalance_v2_fresh_dc_spread ver ns p r nodes k l :
  is_v2 ver = true -> NoDup (map fst nodes) -> ~ In [] (map fst nodes) -> nodes <> [] ->
  even_topology nodes k -> N.to_nat r <= length (dcs_of nodes) ->
  length (dcs_of nodes) <= 4 -> length nodes <= 40 -> (p <= 64)%N ->
  rebalance ver ns p r [] nodes = Ok l ->
  Forall (fun nl => NoDup (map (node_dc nodes) nl)) l.
Proof.
  intros Hv Hnd Hne Hnn He Hrd Hd4 Hn40 Hp E.
  destruct (even_k_pos nodes k Hnn He) as [Hk Hd0].
  destruct (even_ring_class nodes k Hnd He Hk) as [HL Hcls].
  destruct (ring_facts nodes Hnd) as [P [Hndr HLn]].
  set (ring := ring_of_lists (node_name_list nodes)) in *.
  set (d := length (dcs_of nodes)) in *.
  assert (Hrle : (r <= N.of_nat (length nodes))%N).
  { rewrite <- HLn, HL. assert (d <= k * d) by nia. lia. }
  destruct (rebalance_v2_valid ver ns p r [] nodes Hv Hnd Hne Hnn Hrle) as [l' [E' [VL VF]]].
  { split; [simpl; lia|constructor]. }
  rewrite E in E'. inversion E'; subst l'; clear E'.
  destruct (Nat.le_gt_cases (N.to_nat r) 1) as [Hr1|Hr2].
  { eapply Forall_impl; [|exact VF]. intros nl [A _]. apply NoDup_short. lia. }
  destruct (N.to_nat p) as [|p'] eqn:Ep.
  { destruct l; [constructor|simpl in VL; lia]. }
  assert (Hrn : ring <> []).
  { intros H0. rewrite H0 in HLn. simpl in HLn. destruct nodes; [congruence|simpl in HLn; lia]. }
  assert (Hner : ~ In [] ring).
  { intros H0. apply Hne. eapply Permutation_in; [symmetry; exact P|exact H0]. }
  rewrite rebalance_unfold in E by assumption. cbv zeta in E. rewrite Hv in E. fold ring in E.
  destruct (fill_v2_fresh_by_check (murmur3_32 ns) (N.to_nat p) (N.to_nat r) d k ring
              (fun x => pos_in (node_dc nodes x) (dcs_of nodes))) as [parts [E2 HF]]; try assumption.
  - rewrite HLn. lia.
  - rewrite HL. apply Nat.mul_comm.
  - assert (length ring <> 0) by (destruct ring; [congruence|simpl; lia]).
    pose proof (N.mod_upper_bound (murmur3_32 ns) (N.of_nat (length ring))).
    apply check_in_range; lia.
  - rewrite E2 in E. inversion E; subst l.
    eapply Forall_impl; [|exact HF]. intros nl Hn. cbv beta in Hn.
    apply (NoDup_map_inv (fun y => pos_in y (dcs_of nodes))). rewrite map_map. exact Hn.
Qed.
