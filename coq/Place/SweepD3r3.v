(* Place/SweepD3r3.v — C17: exhaustive vm_compute sweep of V2 fresh layouts on canonical even rings
   (see SweepDefs.v): all rotations hm < n, all partition counts 1..64; the bound is in the statement. *)
From ZV Require Import Common.Bytes Place.Model Place.SweepDefs.
Open Scope nat_scope.
Lemma sweep_d3r3 : forallb (fun k => check_dkr 64 3 k 3) (seq 1 13) = true.
Proof. vm_compute. reflexivity. Qed.
