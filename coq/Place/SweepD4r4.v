(* Place/SweepD4r4.v — C17: exhaustive vm_compute sweep of V2 fresh layouts on canonical even rings
   (see SweepDefs.v): all rotations hm < n, all partition counts 1..64; the bound is in the statement. *)
From ZV Require Import Common.Bytes Place.Model Place.SweepDefs.
Open Scope nat_scope.
Lemma sweep_d4r4 : forallb (fun k => check_dkr 64 4 k 4) (seq 1 10) = true.
Proof. vm_compute. reflexivity. Qed.
