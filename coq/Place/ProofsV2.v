(* Place/ProofsV2.v — C17, part 2: the incremental algorithm V2.
   Invariant: the load maps are consistent with the layout, every list is duplicate-free, has
   length r and consists of live nodes; preserved by every fill step and every move; no Panic. *)
From ZV Require Import Common.Bytes Common.BytesFacts Part.Model Place.Consts Place.Model Place.Proofs.
From Coq Require Import Permutation ZifyN ZifyNat ZifyBool Arith PeanoNat.
Open Scope nat_scope.

Definition names (ls : loads) : list (list N) := map nl_name ls.
Definition get (x : list N) (ls : loads) : option nload := find (fun l => bytes_eqb (nl_name l) x) ls.
Definition name_pres (f : nload -> nload) : Prop := forall l, nl_name (f l) = nl_name l.

Lemma names_upd c f ls : name_pres f -> names (upd_node c f ls) = names ls.
Proof.
  intros Hf. unfold names, upd_node. rewrite map_map. apply map_ext.
  intros l. destruct (bytes_eqb (nl_name l) c); [apply Hf|reflexivity].
Qed.

Lemma get_upd_same c f ls : name_pres f -> get c (upd_node c f ls) = option_map f (get c ls).
Proof.
  intros Hf. unfold get, upd_node. induction ls as [|l ls IH]; simpl; [reflexivity|].
  destruct (bytes_eqb (nl_name l) c) eqn:E.
  - rewrite Hf, E. reflexivity.
  - rewrite E. exact IH.
Qed.
Lemma get_upd_other c x f ls : name_pres f -> x <> c -> get x (upd_node c f ls) = get x ls.
Proof.
  intros Hf Hne. unfold get, upd_node. induction ls as [|l ls IH]; simpl; [reflexivity|].
  destruct (bytes_eqb (nl_name l) c) eqn:E.
  - rewrite Hf. apply bytes_eqb_eq in E. rewrite E.
    assert (bytes_eqb c x = false) as -> by (apply bytes_eqb_neq; congruence). exact IH.
  - destruct (bytes_eqb (nl_name l) x); [reflexivity|exact IH].
Qed.
Lemma get_some x ls l : get x ls = Some l -> nl_name l = x /\ In l ls.
Proof.
  unfold get. intros H. apply find_some in H. destruct H as [H1 H2].
  apply bytes_eqb_eq in H2. split; assumption.
Qed.
Lemma get_in ls l : NoDup (names ls) -> In l ls -> get (nl_name l) ls = Some l.
Proof.
  unfold get, names. induction ls as [|l0 ls IH]; intros Hnd Hin; [destruct Hin|].
  simpl in *. inversion Hnd as [|? ? Hn0 Hnd']; subst.
  destruct Hin as [->|Hin].
  - rewrite bytes_eqb_refl. reflexivity.
  - destruct (bytes_eqb (nl_name l0) (nl_name l)) eqn:E.
    + apply bytes_eqb_eq in E. exfalso. apply Hn0. rewrite E. apply in_map. exact Hin.
    + apply IH; assumption.
Qed.
Lemma get_names x ls : In x (names ls) <-> exists l, get x ls = Some l.
Proof.
  split.
  - intros H. apply in_map_iff in H. destruct H as [l [E Hin]].
    destruct (get x ls) eqn:G; [eauto|]. unfold get in G.
    pose proof (find_none _ _ G l Hin) as Hf. simpl in Hf. rewrite E, bytes_eqb_refl in Hf. discriminate.
  - intros [l G]. apply get_some in G. destruct G as [E Hin]. rewrite <- E. apply in_map. exact Hin.
Qed.
Lemma has_node_names x ls : has_node x ls = true <-> In x (names ls).
Proof.
  unfold has_node, names. rewrite existsb_exists, in_map_iff. split.
  - intros [l [Hin E]]. apply bytes_eqb_eq in E. eauto.
  - intros [l [E Hin]]. exists l. split; [exact Hin|]. rewrite E. apply bytes_eqb_refl.
Qed.
Lemma has_node_false x ls : has_node x ls = false <-> ~ In x (names ls).
Proof. rewrite <- has_node_names. destruct (has_node x ls); split; congruence. Qed.

Lemma min_by_in ltb l m : min_by ltb l = Some m -> In m l.
Proof.
  revert m. induction l as [|x l IH]; intros m H; simpl in H; [discriminate|].
  destruct (min_by ltb l) as [m0|] eqn:E.
  - destruct (ltb m0 x); inversion H; subst; [right; apply IH; reflexivity|left; reflexivity].
  - inversion H; subst. left; reflexivity.
Qed.
Lemma max_by_in ltb l m : max_by ltb l = Some m -> In m l.
Proof.
  revert m. induction l as [|x l IH]; intros m H; simpl in H; [discriminate|].
  destruct (max_by ltb l) as [m0|] eqn:E.
  - destruct (ltb x m0); inversion H; subst; [right; apply IH; reflexivity|left; reflexivity].
  - inversion H; subst. left; reflexivity.
Qed.
Lemma min_by_none ltb l : min_by ltb l = None -> l = [].
Proof.
  destruct l as [|x l]; [reflexivity|]. simpl. destruct (min_by ltb l) as [m|]; [destruct (ltb m x)|]; discriminate.
Qed.
Lemma max_by_none ltb l : max_by ltb l = None -> l = [].
Proof.
  destruct l as [|x l]; [reflexivity|]. simpl. destruct (max_by ltb l) as [m|]; [destruct (ltb x m)|]; discriminate.
Qed.

Lemma cands_in excl ls m : In m (cands excl ls) <-> In m ls /\ ~ In (nl_name m) excl.
Proof.
  unfold cands. rewrite filter_In. rewrite negb_true_iff, mem_name_false. tauto.
Qed.

(* name-preserving updates *)
Lemma np_set_lead v : name_pres (set_lead v). Proof. intros l; reflexivity. Qed.
Lemma np_set_rep v : name_pres (set_rep v). Proof. intros l; reflexivity. Qed.
Lemma np_add_lead p : name_pres (add_lead p). Proof. intros l; reflexivity. Qed.
Lemma np_add_rep p : name_pres (add_rep p). Proof. intros l; reflexivity. Qed.
Lemma np_comp f g : name_pres f -> name_pres g -> name_pres (fun l => f (g l)).
Proof. intros Hf Hg l. rewrite Hf, Hg. reflexivity. Qed.
Global Hint Resolve np_set_lead np_set_rep np_add_lead np_add_rep np_comp : np.

(* ---------- consistency of the load maps with a (virtual) layout ---------- *)
Definition lview := N -> list (list N).
Definition cons (ls : loads) (V : lview) : Prop :=
  forall x l, get x ls = Some l -> forall q,
    (In q (nl_rep l) <-> In x (V q)) /\ (In q (nl_lead l) <-> hd_error (V q) = Some x).
Definition vupd (V : lview) (pid : N) (nl : list (list N)) : lview :=
  fun q => if N.eqb q pid then nl else V q.

Lemma cons_ext ls V V' : (forall q, V q = V' q) -> cons ls V -> cons ls V'.
Proof. intros E H x l G q. rewrite <- E. apply H. exact G. Qed.

Lemma in_app_single {A} (q p : A) l : In q (l ++ [p]) <-> In q l \/ q = p.
Proof. rewrite in_app_iff. simpl. intuition congruence. Qed.
Lemma in_remove_pid q p l : In q (remove_pid p l) <-> In q l /\ q <> p.
Proof.
  unfold remove_pid. rewrite filter_In, negb_true_iff, N.eqb_neq. tauto.
Qed.
Lemma in_pids_In q l : in_pids q l = true <-> In q l.
Proof.
  unfold in_pids. rewrite existsb_exists. split.
  - intros [y [Hy E]]. apply N.eqb_eq in E. subst. exact Hy.
  - intros H. exists q. split; [exact H|apply N.eqb_refl].
Qed.
Lemma in_pids_false q l : in_pids q l = false <-> ~ In q l.
Proof. rewrite <- in_pids_In. destruct (in_pids q l); split; congruence. Qed.

(* ---------- list helpers ---------- *)
Lemma skipn_nth_cons {A} (l : list A) j d : j < length l -> skipn j l = nth j l d :: skipn (S j) l.
Proof.
  revert j. induction l as [|x l IH]; intros j H; [simpl in H; lia|].
  destruct j; [reflexivity|]. simpl. apply IH. simpl in H. lia.
Qed.
Lemma In_skipn {A} (x : A) j l : In x (skipn j l) -> In x l.
Proof.
  revert j. induction l as [|y l IH]; intros j H; [destruct j; exact H|].
  destruct j; [exact H|]. right. eapply IH. exact H.
Qed.
Lemma In_skipn_S {A} (x : A) j l : In x (skipn (S j) l) -> In x (skipn j l).
Proof.
  revert j. induction l as [|y l IH]; intros j H; [destruct j; exact H|].
  destruct j; [right; simpl in H; destruct l; exact H|]. simpl. apply IH. exact H.
Qed.
Lemma NoDup_skipn {A} (l : list A) j : NoDup l -> NoDup (skipn j l).
Proof.
  revert j. induction l as [|y l IH]; intros j H; [destruct j; constructor|].
  destruct j; [exact H|]. simpl. apply IH. inversion H; assumption.
Qed.
Lemma NoDup_app_single {A} (l : list A) x : NoDup (l ++ [x]) <-> NoDup l /\ ~ In x l.
Proof.
  split.
  - intros H. apply NoDup_remove in H. rewrite app_nil_r in H. exact H.
  - intros [H1 H2]. apply NoDup_Add with (a := x) (l := l); [|split; assumption].
    rewrite <- (app_nil_r l) at 1. apply Add_app.
Qed.
Lemma filter_length_le {A} (f : A -> bool) l : length (filter f l) <= length l.
Proof. induction l as [|x l IH]; simpl; [lia|]. destruct (f x); simpl; lia. Qed.

Arguments skipn : simpl never.

Section FillSlots.
Variable ring : list (list N).
Hypothesis ring_nd : NoDup ring.
Hypothesis ring_noempty : ~ In [] ring.
Variable r : nat.
Hypothesis r_le : r <= length ring.
Variable pid : N.
Variable V : lview.

Definition alive (x : list N) : bool := mem_name x ring.

Lemma pigeon excl : (forall x, In x ring -> In x excl) -> length ring <= length (filter alive excl).
Proof.
  intros H. apply NoDup_incl_length; [exact ring_nd|].
  intros x Hx. apply filter_In. split; [apply H; exact Hx|]. apply mem_name_In. exact Hx.
Qed.

Lemma cons_choose ls W W' c (first : bool) :
  cons ls (vupd V pid W) ->
  (forall x, In x (names ls) -> x <> c -> (In x W' <-> In x W)) -> In c W' ->
  (first = true -> hd_error W' = Some c /\ forall x, In x (names ls) -> hd_error W <> Some x) ->
  (first = false -> hd_error W' = hd_error W) ->
  cons (upd_node c (fun l => if first then add_rep pid (add_lead pid l) else add_rep pid l) ls) (vupd V pid W').
Proof.
  intros Hc Hmem HcW Hf1 Hf0 x l' G q.
  assert (Hnp : name_pres (fun l => if first then add_rep pid (add_lead pid l) else add_rep pid l))
    by (intros l; destruct first; reflexivity).
  destruct (list_eq_dec N.eq_dec x c) as [->|Hne].
  - rewrite get_upd_same in G by exact Hnp. destruct (get c ls) as [l|] eqn:G0; [|discriminate].
    simpl in G. inversion G; subst l'; clear G. specialize (Hc c l G0 q). unfold vupd in *.
    destruct (N.eqb_spec q pid) as [Hq|Hq].
    + rewrite Hq in *. destruct first; simpl.
      * rewrite !in_app_single. destruct (Hf1 eq_refl) as [Hh _]. rewrite Hh. tauto.
      * rewrite in_app_single. rewrite (Hf0 eq_refl). tauto.
    + destruct first; simpl; rewrite ?in_app_single; intuition congruence.
  - rewrite get_upd_other in G by assumption. specialize (Hc x l' G q). unfold vupd in *.
    assert (Hx : In x (names ls)) by (apply get_names; eauto).
    destruct (N.eqb_spec q pid) as [Hq|Hq]; [rewrite Hq in *|exact Hc].
    rewrite (Hmem x Hx Hne). split; [tauto|].
    destruct first.
    + destruct (Hf1 eq_refl) as [Hh Hnone]. rewrite Hh. destruct Hc as [_ Hc2]. rewrite Hc2.
      split; [intros E; exfalso; eapply Hnone; eassumption|intros E; inversion E; congruence].
    + rewrite (Hf0 eq_refl). tauto.
Qed.

Variable oldlist : list (list N).
Hypothesis old_len : length oldlist <= r.
Hypothesis old_nd : NoDup oldlist.

Lemma fill_slots_inv : forall rem j ls excl done,
  j + rem = r -> length done = j -> names ls = ring ->
  incl oldlist excl -> incl done excl -> NoDup done ->
  (forall x, In x done -> ~ In x (skipn j oldlist)) ->
  incl done ring ->
  length (filter alive excl) <= j + length (filter alive (skipn j oldlist)) ->
  cons ls (vupd V pid (done ++ skipn j oldlist)) ->
  exists ls' rest, fill_slots pid oldlist j rem ls excl = Ok (ls', rest) /\ names ls' = ring /\
     length rest = rem /\ NoDup (done ++ rest) /\ incl rest ring /\ cons ls' (vupd V pid (done ++ rest)).
Proof.
  induction rem as [|rem IH]; intros j ls excl done Hjr Hlen Hnames Hio Hid Hnd Hdis Hidr Hcnt Hcons.
  - exists ls, []. simpl. rewrite skipn_all2 in Hcons by lia. rewrite app_nil_r in *.
    split; [reflexivity|]. split; [exact Hnames|]. split; [reflexivity|]. split; [exact Hnd|].
    split; [intros ? []|exact Hcons].
  - simpl. set (old := nth j oldlist []).
    destruct (has_node old ls) eqn:Eh.
    + (* the old member is alive: kept *)
      apply has_node_names in Eh. rewrite Hnames in Eh.
      assert (Hj : j < length oldlist).
      { destruct (Nat.lt_ge_cases j (length oldlist)) as [L|L]; [exact L|].
        exfalso. apply ring_noempty. subst old. rewrite nth_overflow in Eh by exact L. exact Eh. }
      pose proof (skipn_nth_cons oldlist j [] Hj) as Hsk. fold old in Hsk.
      assert (Hold_in : In old oldlist) by (apply nth_In; exact Hj).
      destruct (IH (S j) ls excl (done ++ [old])) as [ls' [rest [E [Hn' [Hl' [Hnd' [Hi' Hc']]]]]]].
      * lia.
      * rewrite app_length. simpl. lia.
      * exact Hnames.
      * exact Hio.
      * intros x Hx. apply in_app_single in Hx. destruct Hx as [Hx| ->]; [apply Hid; exact Hx|apply Hio; exact Hold_in].
      * apply NoDup_app_single. split; [exact Hnd|]. intros Hin. apply (Hdis old Hin). rewrite Hsk. left; reflexivity.
      * intros x Hx Hin. apply in_app_single in Hx. destruct Hx as [Hx| ->].
        -- apply (Hdis x Hx). apply In_skipn_S. exact Hin.
        -- pose proof (NoDup_skipn oldlist j old_nd) as Hn2. rewrite Hsk in Hn2. inversion Hn2; contradiction.
      * intros x Hx. apply in_app_single in Hx. destruct Hx as [Hx| ->]; [apply Hidr; exact Hx|exact Eh].
      * rewrite Hsk in Hcnt. simpl in Hcnt. unfold alive at 2 in Hcnt.
        assert (mem_name old ring = true) as Hm by (apply mem_name_In; exact Eh). rewrite Hm in Hcnt. simpl in Hcnt. lia.
      * rewrite <- app_assoc. simpl. rewrite <- Hsk. exact Hcons.
      * rewrite E. exists ls', (old :: rest). rewrite <- app_assoc in Hnd', Hc'. simpl in Hnd', Hc'.
        split; [reflexivity|]. split; [exact Hn'|]. split; [simpl; lia|]. split; [exact Hnd'|]. split; [|exact Hc'].
        intros x [<-|Hx]; [exact Eh|apply Hi'; exact Hx].
    + (* a new member is chosen *)
      apply has_node_false in Eh. rewrite Hnames in Eh.
      assert (Hsk : skipn j oldlist = [] \/ skipn j oldlist = old :: skipn (S j) oldlist).
      { destruct (Nat.lt_ge_cases j (length oldlist)) as [L|L];
          [right; apply skipn_nth_cons; exact L|left; apply skipn_all2; exact L]. }
      assert (Hflt : filter alive (skipn j oldlist) = filter alive (skipn (S j) oldlist)).
      { destruct Hsk as [E0|E1].
        - rewrite E0. rewrite skipn_all2; [reflexivity|].
          destruct (Nat.lt_ge_cases j (length oldlist)) as [L|L]; [|lia].
          rewrite (skipn_nth_cons oldlist j [] L) in E0. discriminate.
        - rewrite E1. simpl. unfold alive at 1.
          assert (mem_name old ring = false) as -> by (apply mem_name_false; exact Eh). reflexivity. }
      assert (Hlive_W : forall x, In x ring -> (In x (skipn j oldlist) <-> In x (skipn (S j) oldlist))).
      { intros x Hx. destruct Hsk as [E0|E1].
        - rewrite E0. split; [intros []|intros H; apply In_skipn_S in H; rewrite E0 in H; exact H].
        - rewrite E1. simpl. split; [intros [<-|H]; [contradiction|exact H]|auto]. }
      assert (Hpick : exists m, (if Nat.eqb j 0 then min_by lead_ltb (cands excl ls) else min_by rep_ltb (cands excl ls)) = Some m
                                /\ In m ls /\ ~ In (nl_name m) excl).
      { assert (Hne : cands excl ls <> []).
        { intros Hnil.
          assert (Hall : forall x, In x ring -> In x excl).
          { intros x Hx. rewrite <- Hnames in Hx. apply in_map_iff in Hx. destruct Hx as [l [<- Hl]].
            destruct (in_dec (list_eq_dec N.eq_dec) (nl_name l) excl) as [Hi|Hni]; [exact Hi|].
            assert (In l (cands excl ls)) by (apply cands_in; split; assumption). rewrite Hnil in H. destruct H. }
          pose proof (pigeon excl Hall) as Hp. rewrite Hflt in Hcnt.
          pose proof (filter_length_le alive (skipn (S j) oldlist)) as Hfl. rewrite skipn_length in Hfl. lia. }
        destruct (Nat.eqb j 0).
        - destruct (min_by lead_ltb (cands excl ls)) as [m|] eqn:Em; [|apply min_by_none in Em; contradiction].
          exists m. split; [reflexivity|]. apply cands_in. eapply min_by_in. exact Em.
        - destruct (min_by rep_ltb (cands excl ls)) as [m|] eqn:Em; [|apply min_by_none in Em; contradiction].
          exists m. split; [reflexivity|]. apply cands_in. eapply min_by_in. exact Em. }
      destruct Hpick as [m [Em [Hmin Hmex]]]. rewrite Em.
      set (c := nl_name m).
      assert (Hc_ring : In c ring) by (rewrite <- Hnames; apply in_map; exact Hmin).
      set (ls1 := if Nat.eqb j 0 then upd_node c (fun l => add_rep pid (add_lead pid l)) ls else upd_node c (add_rep pid) ls).
      assert (Hls1 : ls1 = upd_node c (fun l => if Nat.eqb j 0 then add_rep pid (add_lead pid l) else add_rep pid l) ls).
      { subst ls1. destruct (Nat.eqb j 0); reflexivity. }
      destruct (IH (S j) ls1 (excl ++ [c]) (done ++ [c])) as [ls' [rest [E [Hn' [Hl' [Hnd' [Hi' Hc']]]]]]].
      * lia.
      * rewrite app_length. simpl. lia.
      * rewrite Hls1, names_upd; [exact Hnames|]. intros l; destruct (Nat.eqb j 0); reflexivity.
      * intros x Hx. apply in_app_iff. left. apply Hio. exact Hx.
      * intros x Hx. apply in_app_single in Hx. apply in_app_single. destruct Hx as [Hx|Hx]; [left; apply Hid; exact Hx|right; exact Hx].
      * apply NoDup_app_single. split; [exact Hnd|]. intros Hin. apply Hmex. apply Hid. exact Hin.
      * intros x Hx Hin. apply in_app_single in Hx. destruct Hx as [Hx| ->].
        -- apply (Hdis x Hx). apply In_skipn_S. exact Hin.
        -- apply Hmex. apply Hio. eapply In_skipn. exact Hin.
      * intros x Hx. apply in_app_single in Hx. destruct Hx as [Hx| ->]; [apply Hidr; exact Hx|exact Hc_ring].
      * rewrite filter_app, app_length. simpl. unfold alive at 2.
        assert (mem_name c ring = true) as -> by (apply mem_name_In; exact Hc_ring). simpl. rewrite <- Hflt. lia.
      * rewrite Hls1. apply (cons_choose ls (done ++ skipn j oldlist) ((done ++ [c]) ++ skipn (S j) oldlist) c (Nat.eqb j 0)).
        -- exact Hcons.
        -- intros x Hx Hne. rewrite Hnames in Hx. rewrite !in_app_iff. simpl. rewrite (Hlive_W x Hx). intuition congruence.
        -- rewrite !in_app_iff. simpl. tauto.
        -- intros Ej. apply Nat.eqb_eq in Ej. subst j. destruct done; [|discriminate]. simpl.
           split; [reflexivity|]. intros x Hx. rewrite Hnames in Hx.
           destruct Hsk as [E0|E1]; [simpl in E0; rewrite E0; discriminate|].
           simpl in E1. rewrite E1. simpl. intros Heq. inversion Heq; subst. contradiction.
        -- intros Ej. apply Nat.eqb_neq in Ej. destruct done as [|d0 done0]; [simpl in Hlen; lia|]. reflexivity.
      * fold c. fold ls1. rewrite E. exists ls', (c :: rest). rewrite <- app_assoc in Hnd', Hc'. simpl in Hnd', Hc'.
        split; [reflexivity|]. split; [exact Hn'|]. split; [simpl; lia|]. split; [exact Hnd'|]. split; [|exact Hc'].
        intros x [<-|Hx]; [exact Hc_ring|apply Hi'; exact Hx].
Qed.
End FillSlots.

Definition list_ok (ring : list (list N)) (r : nat) (nl : list (list N)) : Prop :=
  length nl = r /\ NoDup nl /\ incl nl ring.

Definition view_after (V : lview) (cur : N) (rest : list (list (list N))) : lview :=
  fun q => if (N.leb cur q && N.ltb q (cur + N.of_nat (length rest)))%bool
           then nth (N.to_nat (q - cur)) rest [] else V q.

Section FillParts.
Variable ring : list (list N).
Hypothesis ring_nd : NoDup ring.
Hypothesis ring_noempty : ~ In [] ring.
Variable r : nat.
Hypothesis r_le : r <= length ring.
Variable olds : list (list (list N)).
Hypothesis olds_ok : Forall (fun o => length o <= r /\ NoDup o) olds.

Lemma old_at_ok k : length (nth k olds []) <= r /\ NoDup (nth k olds []).
Proof.
  destruct (Nat.lt_ge_cases k (length olds)) as [L|L].
  - rewrite Forall_forall in olds_ok. apply olds_ok. apply nth_In. exact L.
  - rewrite nth_overflow by exact L. split; [simpl; lia|constructor].
Qed.

Lemma fill_parts_inv : forall rem cur ls V,
  names ls = ring -> cons ls V -> (forall q, (cur <= q)%N -> V q = nth (N.to_nat q) olds []) ->
  exists ls' rest, fill_parts cur rem olds r ls = Ok (ls', rest) /\ names ls' = ring /\ length rest = rem /\
    Forall (list_ok ring r) rest /\ cons ls' (view_after V cur rest).
Proof.
  induction rem as [|rem IH]; intros cur ls V Hnames Hcons HV.
  - exists ls, []. simpl. split; [reflexivity|]. split; [exact Hnames|]. split; [reflexivity|]. split; [constructor|].
    eapply cons_ext; [|exact Hcons]. intros q. unfold view_after. simpl.
    destruct (N.leb_spec cur q), (N.ltb_spec q (cur + 0)); simpl; try reflexivity. lia.
  - simpl. set (oldlist := nth (N.to_nat cur) olds []).
    destruct (old_at_ok (N.to_nat cur)) as [Hol Hond]. fold oldlist in Hol, Hond.
    destruct (fill_slots_inv ring ring_nd ring_noempty r r_le cur V oldlist Hol Hond r 0 ls oldlist [])
      as [ls1 [nl [E1 [Hn1 [Hl1 [Hnd1 [Hi1 Hc1]]]]]]].
    + reflexivity.
    + reflexivity.
    + exact Hnames.
    + apply incl_refl.
    + intros ? [].
    + constructor.
    + intros ? [].
    + intros ? [].
    + rewrite skipn_O. lia.
    + rewrite skipn_O. simpl. eapply cons_ext; [|exact Hcons]. intros q. unfold vupd.
      destruct (N.eqb_spec q cur) as [->|Hq]; [|reflexivity]. subst oldlist. apply HV. lia.
    + rewrite E1. simpl in Hnd1, Hc1.
      destruct (IH (cur + 1)%N ls1 (vupd V cur nl)) as [ls2 [rest [E2 [Hn2 [Hl2 [Hf2 Hc2]]]]]].
      * exact Hn1.
      * exact Hc1.
      * intros q Hq. unfold vupd. destruct (N.eqb_spec q cur) as [->|Hne]; [lia|]. apply HV. lia.
      * rewrite E2. exists ls2, (nl :: rest). split; [reflexivity|]. split; [exact Hn2|].
        split; [simpl; lia|]. split; [constructor; [split; [exact Hl1|split; assumption]|exact Hf2]|].
        eapply cons_ext; [|exact Hc2]. intros q. unfold view_after, vupd. simpl length.
        destruct (N.leb_spec (cur + 1) q), (N.ltb_spec q (cur + 1 + N.of_nat (length rest)));
          destruct (N.leb_spec cur q), (N.ltb_spec q (cur + N.of_nat (S (length rest)))); cbn [andb]; try lia;
          destruct (N.eqb_spec q cur) as [Hqe|Hne]; try lia; try reflexivity.
        -- replace (N.to_nat (q - cur)) with (S (N.to_nat (q - (cur + 1)))) by lia. reflexivity.
        -- subst q. replace (N.to_nat (cur - cur)) with 0 by lia. reflexivity.
Qed.
End FillParts.

(* ---------- the initial load maps ---------- *)
Lemma names_init h n : forall i ring, names (init_loads h n i ring) = ring.
Proof. intros i ring; revert i. induction ring as [|x ring IH]; intros i; simpl; [reflexivity|]. f_equal. apply IH. Qed.
Lemma init_empty h n : forall ring i l, In l (init_loads h n i ring) -> nl_rep l = [] /\ nl_lead l = [].
Proof.
  induction ring as [|x ring IH]; intros i l H; simpl in H; [destruct H|].
  destruct H as [<-|H]; [split; reflexivity|eapply IH; exact H].
Qed.
Lemma cons_init h n i ring : cons (init_loads h n i ring) (fun _ => []).
Proof.
  intros x l G q. apply get_some in G. destruct G as [_ Hin].
  destruct (init_empty h n ring i l Hin) as [-> ->]. simpl. split; split; intros H; solve [destruct H|discriminate H].
Qed.

(* membership-level description of the maps after counting one old list *)
Definition rel_old (V : lview) (pid : N) (ls : loads) (W : list (list N)) (hW : option (list N)) : Prop :=
  forall x l, get x ls = Some l -> forall q,
    (In q (nl_rep l) <-> (In x (V q) \/ (q = pid /\ In x W))) /\
    (In q (nl_lead l) <-> (hd_error (V q) = Some x \/ (q = pid /\ hW = Some x))).

Lemma rel_old_add_rep V pid ls W hW nm :
  rel_old V pid ls W hW -> rel_old V pid (upd_node nm (add_rep pid) ls) (W ++ [nm]) hW.
Proof.
  intros H x l' G q. destruct (list_eq_dec N.eq_dec x nm) as [->|Hne].
  - rewrite get_upd_same in G by auto with np. destruct (get nm ls) as [l|] eqn:G0; [|discriminate].
    simpl in G. inversion G; subst l'. specialize (H nm l G0 q). simpl.
    rewrite !in_app_single. destruct H as [H1 H2]. rewrite H1. split; [|exact H2].
    split; [intros [[A|[A B]]|A]; auto|intros [A|[A [B|B]]]; auto].
  - rewrite get_upd_other in G by auto with np. specialize (H x l' G q). destruct H as [H1 H2].
    split; [|exact H2]. rewrite H1, in_app_single. intuition congruence.
Qed.
Lemma rel_old_fold V pid hW : forall o ls W,
  rel_old V pid ls W hW ->
  rel_old V pid (fold_left (fun ls nm => upd_node nm (add_rep pid) ls) o ls) (W ++ o) hW.
Proof.
  induction o as [|nm o IH]; intros ls W H; simpl; [rewrite app_nil_r; exact H|].
  replace (W ++ nm :: o) with ((W ++ [nm]) ++ o) by (rewrite <- app_assoc; reflexivity).
  apply IH. apply rel_old_add_rep. exact H.
Qed.
Lemma rel_old_add_lead V pid ls nm :
  rel_old V pid ls [] None -> rel_old V pid (upd_node nm (add_lead pid) ls) [] (Some nm).
Proof.
  intros H x l' G q. destruct (list_eq_dec N.eq_dec x nm) as [->|Hne].
  - rewrite get_upd_same in G by auto with np. destruct (get nm ls) as [l|] eqn:G0; [|discriminate].
    simpl in G. inversion G; subst l'. specialize (H nm l G0 q). simpl.
    rewrite in_app_single. destruct H as [H1 H2]. split; [exact H1|]. rewrite H2.
    split; [intros [[A|[A B]]|A]; auto; discriminate|intros [A|[A B]]; auto].
  - rewrite get_upd_other in G by auto with np. specialize (H x l' G q). destruct H as [H1 H2].
    split; [exact H1|]. rewrite H2. split; [intros [A|[A B]]; auto; discriminate|intros [A|[A B]]; auto; congruence].
Qed.

Lemma add_old_cons ls V pid o : cons ls V -> V pid = [] -> cons (add_old pid o ls) (vupd V pid o).
Proof.
  intros Hc HV.
  assert (H0 : rel_old V pid ls [] None).
  { intros x l G q. specialize (Hc x l G q). destruct Hc as [H1 H2]. rewrite H1, H2.
    split; split; auto; intros [A|[A B]]; auto; [destruct B|discriminate]. }
  assert (H1 : rel_old V pid (add_old pid o ls) o (hd_error o)).
  { unfold add_old. destruct o as [|ld o']; [exact H0|].
    apply (rel_old_fold V pid (Some ld) (ld :: o') _ []). apply rel_old_add_lead. exact H0. }
  intros x l G q. specialize (H1 x l G q). destruct H1 as [A B]. rewrite A, B. unfold vupd.
  destruct (N.eqb_spec q pid) as [->|Hq].
  - rewrite HV. simpl. split; split; auto; intros [C|[_ C]]; auto; [destruct C|discriminate].
  - split; split; auto; intros [C|[C _]]; auto; contradiction.
Qed.

Lemma names_add_old pid o ls : names (add_old pid o ls) = names ls.
Proof.
  unfold add_old.
  assert (H : forall o ls, names (fold_left (fun ls nm => upd_node nm (add_rep pid) ls) o ls) = names ls).
  { clear. induction o as [|nm o IH]; intros ls; simpl; [reflexivity|]. rewrite IH. apply names_upd. auto with np. }
  rewrite H. destruct o; [reflexivity|]. apply names_upd. auto with np.
Qed.
Lemma names_add_olds : forall olds pid ls, names (add_olds pid olds ls) = names ls.
Proof. induction olds as [|o olds IH]; intros pid ls; simpl; [reflexivity|]. rewrite IH. apply names_add_old. Qed.

Lemma add_olds_cons : forall olds pid ls V,
  cons ls V -> (forall q, (pid <= q)%N -> V q = []) ->
  cons (add_olds pid olds ls) (fun q => if N.leb pid q then nth (N.to_nat (q - pid)) olds [] else V q).
Proof.
  induction olds as [|o olds IH]; intros pid ls V Hc HV; simpl.
  - eapply cons_ext; [|exact Hc]. intros q. destruct (N.leb_spec pid q); [|reflexivity].
    rewrite HV by assumption. destruct (N.to_nat (q - pid)); reflexivity.
  - eapply cons_ext; [|apply (IH (pid + 1)%N _ (vupd V pid o))].
    + intros q. simpl. unfold vupd.
      destruct (N.leb_spec (pid + 1) q), (N.leb_spec pid q); try lia.
      * replace (N.to_nat (q - pid)) with (S (N.to_nat (q - (pid + 1)))) by lia. reflexivity.
      * destruct (N.eqb_spec q pid) as [->|Hne]; [|lia]. replace (N.to_nat (pid - pid)) with 0 by lia. reflexivity.
      * destruct (N.eqb_spec q pid) as [->|Hne]; [lia|reflexivity].
    + apply add_old_cons; [exact Hc|apply HV; lia].
    + intros q Hq. unfold vupd. destruct (N.eqb_spec q pid) as [->|Hne]; [lia|]. apply HV. lia.
Qed.

(* ---------- the fill phase as a whole ---------- *)
Definition part_at (parts : list (list (list N))) : lview := fun q => nth (N.to_nat q) parts [].

Lemma trimmed_ok r (olds : list (list (list N))) : Forall (fun o => NoDup o) olds ->
  Forall (fun o => length o <= r /\ NoDup o) (map (firstn r) olds).
Proof.
  intros H. apply Forall_map. eapply Forall_impl; [|exact H]. intros o Ho. split.
  - apply firstn_le_length.
  - clear H. revert r. induction Ho as [|x l Hx _ IH]; intros r; destruct r; simpl; try constructor.
    + intros Hin. apply Hx. revert Hin. clear. revert r. induction l as [|y l IH]; intros r H; destruct r; simpl in H; try contradiction.
      destruct H as [->|H]; [left; reflexivity|right; eapply IH; exact H].
    + apply IH.
Qed.

Theorem v2_fill_phase_ok h p r olds ring :
  NoDup ring -> ~ In [] ring -> r <= length ring ->
  length olds <= p -> Forall (fun o => NoDup o) olds ->
  exists ls parts, v2_fill_phase h p r olds ring = Ok (ls, parts) /\ names ls = ring /\
    length parts = p /\ Forall (list_ok ring r) parts /\ cons ls (part_at parts).
Proof.
  intros Hnd Hne Hr Hlo0 Hok0. unfold v2_fill_phase. cbv zeta.
  pose proof (trimmed_ok r olds Hok0) as Hok.
  assert (Hlo : length (map (firstn r) olds) <= p) by (rewrite map_length; exact Hlo0).
  generalize dependent (map (firstn r) olds). clear olds Hlo0 Hok0. intros olds Hok Hlo.
  set (n := N.of_nat (length ring)).
  set (ls0 := add_olds 0 olds (init_loads h n 0 ring)).
  assert (Hn0 : names ls0 = ring) by (subst ls0; rewrite names_add_olds; apply names_init).
  assert (Hc0 : cons ls0 (part_at olds)).
  { subst ls0. eapply cons_ext; [|apply (add_olds_cons olds 0%N _ (fun _ => []))].
    - intros q. cbv beta. unfold part_at. rewrite N.sub_0_r. destruct (N.leb_spec 0 q); [reflexivity|lia].
    - apply cons_init.
    - reflexivity. }
  destruct (fill_parts_inv ring Hnd Hne r Hr olds Hok p 0%N ls0 (part_at olds) Hn0 Hc0)
    as [ls [parts [E [Hn [Hl [Hf Hc]]]]]]; [reflexivity|].
  exists ls, parts. split; [exact E|]. split; [exact Hn|]. split; [exact Hl|]. split; [exact Hf|].
  eapply cons_ext; [|exact Hc]. intros q. unfold view_after, part_at. rewrite N.add_0_l, N.sub_0_r.
  destruct (N.leb_spec 0 q) as [_|L0]; [|lia]. cbn [andb].
  destruct (N.ltb_spec q (N.of_nat (length parts))) as [L|L].
  - reflexivity.
  - rewrite nth_overflow by lia. rewrite nth_overflow by lia. reflexivity.
Qed.

(* ---------- the move phase ---------- *)
Lemma replace_first_spec o nw l : In o l -> ~ In nw l -> NoDup l ->
  length (replace_first o nw l) = length l /\ NoDup (replace_first o nw l) /\
  (forall x, In x (replace_first o nw l) <-> x = nw \/ (In x l /\ x <> o)).
Proof.
  induction l as [|y l IH]; intros Hin Hnin Hnd; [destruct Hin|].
  inversion Hnd as [|? ? Hny Hnd']; subst. simpl.
  destruct (bytes_eqb y o) eqn:E.
  - apply bytes_eqb_eq in E. subst y. split; [reflexivity|]. split.
    + constructor; [intros H; apply Hnin; right; exact H|exact Hnd'].
    + intros x. simpl. split.
      * intros [<-|H]; [left; reflexivity|right]. split; [right; exact H|]. intros ->. contradiction.
      * intros [->|[[<-|H] Hne]]; [left; reflexivity|congruence|right; exact H].
  - apply bytes_eqb_neq in E. destruct Hin as [->|Hin]; [congruence|].
    destruct (IH Hin (fun H => Hnin (or_intror H)) Hnd') as [A [B C]].
    split; [simpl; rewrite A; reflexivity|]. split.
    + constructor; [|exact B]. rewrite C. intros [->|[H _]]; [apply Hnin; left; reflexivity|contradiction].
    + intros x. simpl. rewrite C. split.
      * intros [<-|[->|[H Hne]]]; [right; split; [left; reflexivity|exact E]|left; reflexivity|right; split; [right; exact H|exact Hne]].
      * intros [->|[[<-|H] Hne]]; [right; left; reflexivity|left; reflexivity|right; right; split; assumption].
Qed.
Lemma replace_first_hd_same o nw l : hd_error l = Some o -> hd_error (replace_first o nw l) = Some nw.
Proof. destruct l as [|y l]; simpl; [discriminate|]. intros E; inversion E; subst. rewrite bytes_eqb_refl. reflexivity. Qed.
Lemma replace_first_hd_other o nw l : hd_error l <> Some o -> hd_error (replace_first o nw l) = hd_error l.
Proof.
  destruct l as [|y l]; simpl; [reflexivity|]. intros H.
  destruct (bytes_eqb y o) eqn:E; [apply bytes_eqb_eq in E; subst; congruence|reflexivity].
Qed.

Lemma swap_leader_spec nm o rest : nm <> o -> In nm rest -> NoDup (o :: rest) ->
  let l' := swap_leader nm (o :: rest) in
  length l' = S (length rest) /\ NoDup l' /\ (forall x, In x l' <-> In x (o :: rest)) /\ hd_error l' = Some nm.
Proof.
  intros Hne Hin Hnd. inversion Hnd as [|? ? Hno Hnd']; subst. simpl.
  assert (bytes_eqb o nm = false) as -> by (apply bytes_eqb_neq; congruence).
  assert (mem_name nm rest = true) as -> by (apply mem_name_In; exact Hin).
  destruct (replace_first_spec nm o rest Hin Hno Hnd') as [A [B C]].
  split; [simpl; rewrite A; reflexivity|]. split.
  - constructor; [|exact B]. rewrite C. intros [->|[_ H]]; congruence.
  - split; [|reflexivity]. intros x. simpl. rewrite C.
    destruct (list_eq_dec N.eq_dec x nm) as [->|Hx]; [tauto|]. intuition congruence.
Qed.

Lemma upd_part_spec f : forall parts k, k < length parts ->
  exists parts', upd_part k f parts = Some parts' /\ length parts' = length parts /\
    forall i, nth i parts' [] = if Nat.eqb i k then f (nth k parts []) else nth i parts [].
Proof.
  induction parts as [|x parts IH]; intros k Hk; [simpl in Hk; lia|].
  destruct k as [|k]; simpl.
  - eexists. split; [reflexivity|]. split; [reflexivity|]. intros [|i]; reflexivity.
  - destruct (IH k) as [parts' [E [L Hn]]]; [simpl in Hk; lia|]. rewrite E.
    eexists. split; [reflexivity|]. split; [simpl; rewrite L; reflexivity|]. intros [|i]; [reflexivity|]. simpl. apply Hn.
Qed.

Definition Jinv (ring : list (list N)) (p r : nat) (ls : loads) (parts : list (list (list N))) : Prop :=
  names ls = ring /\ length parts = p /\ Forall (list_ok ring r) parts /\ cons ls (part_at parts).

Lemma cons_update2 ls P a fa b fb pid nl' la lb :
  cons ls P -> a <> b -> name_pres fa -> name_pres fb -> get a ls = Some la -> get b ls = Some lb ->
  (forall q, q <> pid -> (In q (nl_rep (fa la)) <-> In q (nl_rep la)) /\ (In q (nl_lead (fa la)) <-> In q (nl_lead la))) ->
  (forall q, q <> pid -> (In q (nl_rep (fb lb)) <-> In q (nl_rep lb)) /\ (In q (nl_lead (fb lb)) <-> In q (nl_lead lb))) ->
  (In pid (nl_rep (fa la)) <-> In a nl') -> (In pid (nl_lead (fa la)) <-> hd_error nl' = Some a) ->
  (In pid (nl_rep (fb lb)) <-> In b nl') -> (In pid (nl_lead (fb lb)) <-> hd_error nl' = Some b) ->
  (forall x, x <> a -> x <> b -> (In x nl' <-> In x (P pid)) /\ (hd_error nl' = Some x <-> hd_error (P pid) = Some x)) ->
  cons (upd_node b fb (upd_node a fa ls)) (vupd P pid nl').
Proof.
  intros Hc Hab Hfa Hfb Ga Gb Hqa Hqb Hra Hla Hrb Hlb Hoth x l' G q. unfold vupd.
  destruct (list_eq_dec N.eq_dec x b) as [->|Hxb].
  - rewrite get_upd_same in G by exact Hfb. rewrite get_upd_other in G by (try exact Hfa; congruence).
    rewrite Gb in G. simpl in G. inversion G; subst l'.
    destruct (N.eqb_spec q pid) as [->|Hq]; [split; assumption|].
    destruct (Hqb q Hq) as [A B]. rewrite A, B. apply Hc. exact Gb.
  - rewrite get_upd_other in G by assumption.
    destruct (list_eq_dec N.eq_dec x a) as [->|Hxa].
    + rewrite get_upd_same in G by exact Hfa. rewrite Ga in G. simpl in G. inversion G; subst l'.
      destruct (N.eqb_spec q pid) as [->|Hq]; [split; assumption|].
      destruct (Hqa q Hq) as [A B]. rewrite A, B. apply Hc. exact Ga.
    + rewrite get_upd_other in G by assumption.
      destruct (N.eqb_spec q pid) as [->|Hq]; [|apply Hc; exact G].
      destruct (Hoth x Hxa Hxb) as [A B]. rewrite A, B. apply Hc. exact G.
Qed.

Lemma Forall_nth_upd {A} (P : A -> Prop) (l l' : list A) d k v :
  length l' = length l -> (forall i, nth i l' d = if Nat.eqb i k then v else nth i l d) ->
  Forall P l -> P v -> Forall P l'.
Proof.
  intros HL Hn HF Hv. apply Forall_forall. intros x Hx.
  apply (In_nth _ _ d) in Hx. destruct Hx as [i [Hi <-]]. rewrite Hn.
  destruct (Nat.eqb i k); [exact Hv|]. rewrite Forall_forall in HF. apply HF. apply nth_In. lia.
Qed.

Section Move.
Variable ring : list (list N).
Hypothesis ring_nd : NoDup ring.
Hypothesis ring_ne : ring <> [].
Variables p r : nat.

Lemma part_at_in parts pid x : In x (part_at parts pid) -> N.to_nat pid < length parts.
Proof.
  unfold part_at. intros H. destruct (Nat.lt_ge_cases (N.to_nat pid) (length parts)) as [L|L]; [exact L|].
  rewrite nth_overflow in H by exact L. destruct H.
Qed.

Lemma part_at_ok parts pid : Forall (list_ok ring r) parts -> N.to_nat pid < length parts -> list_ok ring r (part_at parts pid).
Proof. intros HF L. rewrite Forall_forall in HF. apply HF. apply nth_In. exact L. Qed.

(* common tail of the three move cases: rewriting one list and two map entries *)
Lemma move_finish ls parts pid f a fa b fb la lb :
  Jinv ring p r ls parts -> N.to_nat pid < length parts ->
  list_ok ring r (f (part_at parts pid)) ->
  a <> b -> name_pres fa -> name_pres fb -> get a ls = Some la -> get b ls = Some lb ->
  (forall q, q <> pid -> (In q (nl_rep (fa la)) <-> In q (nl_rep la)) /\ (In q (nl_lead (fa la)) <-> In q (nl_lead la))) ->
  (forall q, q <> pid -> (In q (nl_rep (fb lb)) <-> In q (nl_rep lb)) /\ (In q (nl_lead (fb lb)) <-> In q (nl_lead lb))) ->
  (In pid (nl_rep (fa la)) <-> In a (f (part_at parts pid))) ->
  (In pid (nl_lead (fa la)) <-> hd_error (f (part_at parts pid)) = Some a) ->
  (In pid (nl_rep (fb lb)) <-> In b (f (part_at parts pid))) ->
  (In pid (nl_lead (fb lb)) <-> hd_error (f (part_at parts pid)) = Some b) ->
  (forall x, x <> a -> x <> b -> (In x (f (part_at parts pid)) <-> In x (part_at parts pid)) /\
      (hd_error (f (part_at parts pid)) = Some x <-> hd_error (part_at parts pid) = Some x)) ->
  exists parts', upd_part (N.to_nat pid) f parts = Some parts' /\
     Jinv ring p r (upd_node b fb (upd_node a fa ls)) parts'.
Proof.
  intros [Hn [HL [HF Hc]]] Hpid Hok Hab Hfa Hfb Ga Gb Hqa Hqb Hra Hla Hrb Hlb Hoth.
  destruct (upd_part_spec f parts (N.to_nat pid) Hpid) as [parts' [E [L' Hnth]]].
  exists parts'. split; [exact E|]. split; [rewrite !names_upd by assumption; exact Hn|].
  split; [lia|]. split.
  - eapply Forall_nth_upd; [exact L'|exact Hnth|exact HF|exact Hok].
  - eapply cons_ext; [|apply (cons_update2 ls (part_at parts) a fa b fb pid (f (part_at parts pid)) la lb); eassumption].
    intros q. unfold vupd, part_at. rewrite Hnth.
    destruct (N.eqb_spec q pid) as [->|Hq]; [rewrite Nat.eqb_refl; reflexivity|].
    assert (N.to_nat q <> N.to_nat pid) by lia. apply Nat.eqb_neq in H. rewrite H. reflexivity.
Qed.

Lemma record_eq ls m1 m2 : NoDup (names ls) -> In m1 ls -> In m2 ls -> nl_name m1 = nl_name m2 -> m1 = m2.
Proof.
  intros Hnd H1 H2 E. pose proof (get_in ls m1 Hnd H1) as G1. pose proof (get_in ls m2 Hnd H2) as G2.
  rewrite E in G1. congruence.
Qed.

Theorem move_step_inv ls parts : Jinv ring p r ls parts ->
  exists ls' parts' b, move_step ls parts = Ok (ls', parts', b) /\ Jinv ring p r ls' parts'.
Proof.
  intros HJ. pose proof HJ as [Hn [HL [HF Hc]]].
  assert (Hndn : NoDup (names ls)) by (rewrite Hn; exact ring_nd).
  assert (Hlsne : ls <> []) by (intros ->; simpl in Hn; congruence).
  unfold move_step.
  destruct (min_by lead_ltb ls) as [mn|] eqn:Emn; [|apply min_by_none in Emn; contradiction].
  destruct (max_by lead_ltb ls) as [mx|] eqn:Emx; [|apply max_by_none in Emx; contradiction].
  apply min_by_in in Emn. apply max_by_in in Emx.
  destruct (Nat.leb (length (nl_lead mx) - length (nl_lead mn)) 1) eqn:Ebal.
  - (* leaders balanced: replicas *)
    clear mn mx Emn Emx Ebal.
    destruct (min_by rep_ltb ls) as [mn|] eqn:Emn; [|apply min_by_none in Emn; contradiction].
    destruct (max_by rep_ltb ls) as [mx|] eqn:Emx; [|apply max_by_none in Emx; contradiction].
    apply min_by_in in Emn. apply max_by_in in Emx.
    destruct (Nat.leb (length (nl_rep mx) - length (nl_rep mn)) 1) eqn:Ebal; [eauto 6|].
    destruct (find _ (nl_rep mx)) as [pid|] eqn:Ef; [|eauto 6].
    apply find_some in Ef. destruct Ef as [Hpin Hcond]. apply andb_prop in Hcond. destruct Hcond as [C1 C2].
    rewrite negb_true_iff in C1, C2. apply in_pids_false in C1, C2.
    pose proof (get_in ls mn Hndn Emn) as Gmn. pose proof (get_in ls mx Hndn Emx) as Gmx.
    assert (Hne : nl_name mn <> nl_name mx).
    { intros E. assert (mn = mx) by (eapply record_eq; eassumption). subst. apply Nat.leb_gt in Ebal. lia. }
    destruct (Hc _ _ Gmx pid) as [Rx Lx]. destruct (Hc _ _ Gmn pid) as [Rn Ln].
    assert (Hinx : In (nl_name mx) (part_at parts pid)) by (apply Rx; exact Hpin).
    assert (Hpid : N.to_nat pid < length parts) by (eapply part_at_in; exact Hinx).
    destruct (part_at_ok parts pid HF Hpid) as [PL [PN PI]].
    assert (Hninn : ~ In (nl_name mn) (part_at parts pid)) by (rewrite <- Rn; exact C1).
    assert (Hhdx : hd_error (part_at parts pid) <> Some (nl_name mx)) by (rewrite <- Lx; exact C2).
    destruct (replace_first_spec (nl_name mx) (nl_name mn) (part_at parts pid) Hinx Hninn PN) as [A [B C]].
    pose proof (replace_first_hd_other (nl_name mx) (nl_name mn) (part_at parts pid) Hhdx) as Hhd.
    destruct (move_finish ls parts pid (replace_first (nl_name mx) (nl_name mn))
                (nl_name mn) (set_rep (nl_rep mn ++ [pid])) (nl_name mx) (set_rep (remove_pid pid (nl_rep mx))) mn mx)
      as [parts' [E HJ']]; try assumption; auto with np.
    + split; [lia|]. split; [exact B|]. intros x Hx. apply C in Hx. destruct Hx as [->|[Hx _]]; [|apply PI; exact Hx].
      rewrite <- Hn. apply in_map. exact Emn.
    + intros q Hq. simpl. rewrite in_app_single. intuition congruence.
    + intros q Hq. simpl. rewrite in_remove_pid. intuition congruence.
    + simpl. rewrite in_app_single, C. tauto.
    + simpl. rewrite Hhd. rewrite Ln. split; [intros H; exfalso|intros H; exfalso]; apply Hninn.
      * destruct (part_at parts pid); [discriminate|]. inversion H; subst. left; reflexivity.
      * destruct (part_at parts pid); [discriminate|]. inversion H; subst. left; reflexivity.
    + simpl. rewrite in_remove_pid, C. split; [intros [_ H]; congruence|intros [H|[_ H]]; congruence].
    + simpl. rewrite Hhd. rewrite Lx. tauto.
    + intros x Hxa Hxb. rewrite Hhd, C. split; [|tauto]. intuition congruence.
    + rewrite E. eauto 6.
  - (* leaders unbalanced *)
    destruct (find _ (nl_lead mx)) as [pid|] eqn:Ef; [|eauto 6].
    apply find_some in Ef. destruct Ef as [Hpin C1]. rewrite negb_true_iff in C1. apply in_pids_false in C1.
    pose proof (get_in ls mn Hndn Emn) as Gmn. pose proof (get_in ls mx Hndn Emx) as Gmx.
    assert (Hne : nl_name mn <> nl_name mx).
    { intros E. assert (mn = mx) by (eapply record_eq; eassumption). subst. apply Nat.leb_gt in Ebal. lia. }
    destruct (Hc _ _ Gmx pid) as [Rx Lx]. destruct (Hc _ _ Gmn pid) as [Rn Ln].
    assert (Hhdx : hd_error (part_at parts pid) = Some (nl_name mx)) by (apply Lx; exact Hpin).
    destruct (part_at parts pid) as [|o rest] eqn:EP; [discriminate|]. simpl in Hhdx. inversion Hhdx; subst o.
    assert (Hinx : In (nl_name mx) (part_at parts pid)) by (rewrite EP; left; reflexivity).
    assert (Hpid : N.to_nat pid < length parts) by (eapply part_at_in; exact Hinx).
    destruct (part_at_ok parts pid HF Hpid) as [PL [PN PI]]. rewrite EP in PL, PN, PI.
    assert (Hhdn : hd_error (nl_name mx :: rest) <> Some (nl_name mn)) by (simpl; congruence).
    destruct (in_pids pid (nl_rep mn)) eqn:Eex.
    + (* exchange the leader with an existing replica *)
      apply in_pids_In in Eex.
      assert (Hinn : In (nl_name mn) rest).
      { apply Rn in Eex. destruct Eex as [E|H]; [congruence|exact H]. }
      destruct (swap_leader_spec (nl_name mn) (nl_name mx) rest Hne Hinn PN) as [A [B [C D]]].
      destruct (move_finish ls parts pid (swap_leader (nl_name mn))
                  (nl_name mn) (set_lead (nl_lead mn ++ [pid])) (nl_name mx) (set_lead (remove_pid pid (nl_lead mx))) mn mx)
        as [parts' [E HJ']]; try assumption; auto with np; rewrite ?EP.
      * split; [simpl in PL; lia|]. split; [exact B|]. intros x Hx. apply C in Hx. apply PI. exact Hx.
      * intros q Hq. simpl. rewrite in_app_single. intuition congruence.
      * intros q Hq. simpl. rewrite in_remove_pid. intuition congruence.
      * simpl nl_rep. rewrite C. rewrite Rn. tauto.
      * simpl nl_lead. rewrite in_app_single, D. tauto.
      * simpl nl_rep. rewrite C. rewrite Rx. tauto.
      * simpl nl_lead. rewrite in_remove_pid, D. split; [intros [_ H]; congruence|intros H; inversion H; congruence].
      * intros x Hxa Hxb. rewrite C, D. split; [tauto|]. simpl. split; intros H; inversion H; congruence.
      * rewrite E. eauto 6.
    + (* move the leader replica to the least loaded node *)
      apply in_pids_false in Eex.
      assert (Hninn : ~ In (nl_name mn) (nl_name mx :: rest)) by (rewrite <- Rn; exact Eex).
      assert (Hinx' : In (nl_name mx) (nl_name mx :: rest)) by (left; reflexivity).
      destruct (replace_first_spec (nl_name mx) (nl_name mn) (nl_name mx :: rest) Hinx' Hninn PN) as [A [B C]].
      pose proof (replace_first_hd_same (nl_name mx) (nl_name mn) (nl_name mx :: rest) eq_refl) as Hhd.
      assert (Hrepx : In pid (nl_rep mx)) by (apply Rx; exact Hinx').
      destruct (move_finish ls parts pid (replace_first (nl_name mx) (nl_name mn))
                  (nl_name mn) (fun l => set_lead (nl_lead mn ++ [pid]) (set_rep (nl_rep mn ++ [pid]) l))
                  (nl_name mx) (fun l => set_lead (remove_pid pid (nl_lead mx)) (set_rep (remove_pid pid (nl_rep mx)) l)) mn mx)
        as [parts' [E HJ']]; try assumption; auto with np; rewrite ?EP.
      * split; [lia|]. split; [exact B|]. intros x Hx. apply C in Hx. destruct Hx as [->|[Hx _]]; [|apply PI; exact Hx].
        rewrite <- Hn. apply in_map. exact Emn.
      * intros q Hq. simpl. rewrite !in_app_single. intuition congruence.
      * intros q Hq. simpl. rewrite !in_remove_pid. intuition congruence.
      * simpl nl_rep. rewrite in_app_single, C. tauto.
      * simpl nl_lead. rewrite in_app_single, Hhd. tauto.
      * simpl nl_rep. rewrite in_remove_pid, C. split; [intros [_ H]; congruence|intros [H|[_ H]]; congruence].
      * simpl nl_lead. rewrite in_remove_pid, Hhd. split; [intros [_ H]; congruence|intros H; inversion H; congruence].
      * intros x Hxa Hxb. rewrite Hhd, C. split; [intuition congruence|].
        simpl. split; intros H; inversion H; congruence.
      * rewrite E. revert HJ'. destruct (nl_rep mx) eqn:Erx; [destruct Hrepx|]. intros HJ'. eauto 6.
Qed.

Theorem move_loop_inv : forall fuel ls parts, Jinv ring p r ls parts ->
  exists parts', move_loop fuel ls parts = Ok parts' /\ length parts' = p /\ Forall (list_ok ring r) parts'.
Proof.
  induction fuel as [|fuel IH]; intros ls parts HJ.
  - exists parts. destruct HJ as [_ [HL [HF _]]]. split; [reflexivity|]. split; assumption.
  - simpl. destruct (move_step_inv ls parts HJ) as [ls' [parts' [b [E HJ']]]]. rewrite E.
    destruct b; [|apply IH; exact HJ'].
    exists parts'. destruct HJ' as [_ [HL [HF _]]]. split; [reflexivity|]. split; assumption.
Qed.
End Move.

(* ---------- V2 as a whole ---------- *)
Theorem fill_v2_valid h p r olds ring :
  NoDup ring -> ~ In [] ring -> ring <> [] -> r <= length ring ->
  length olds <= p -> Forall (fun o => NoDup o) olds ->
  exists l, fill_v2 h p r olds ring = Ok l /\ valid_layout ring p r l.
Proof.
  intros Hnd Hne Hrn Hr Hlo Hok. unfold fill_v2.
  destruct (v2_fill_phase_ok h p r olds ring Hnd Hne Hr Hlo Hok) as [ls [parts [E [Hn [HL [HF Hc]]]]]].
  rewrite E.
  destruct (move_loop_inv ring Hnd Hrn p r (r * p + 1) ls parts) as [parts' [E' [HL' HF']]].
  { split; [exact Hn|]. split; [exact HL|]. split; assumption. }
  exists parts'. split; [exact E'|]. split; [exact HL'|]. exact HF'.
Qed.

(* ---------- V2 through the entry point ---------- *)
(* previous layouts the driver can be handed: at most p lists, each duplicate-free (any length: lists longer
   than r occur while a node is being moved or after the replica count was lowered) *)
Definition olds_ok (p : nat) (olds : list (list (list N))) : Prop :=
  length olds <= p /\ Forall (fun o => NoDup o) olds.

Theorem rebalance_v2_valid ver ns p r olds nodes :
  is_v2 ver = true -> NoDup (map fst nodes) -> ~ In [] (map fst nodes) -> nodes <> [] ->
  (r <= N.of_nat (length nodes))%N -> olds_ok (N.to_nat p) olds ->
  exists l, rebalance ver ns p r olds nodes = Ok l /\ valid_layout (map fst nodes) (N.to_nat p) (N.to_nat r) l.
Proof.
  intros Hv Hnd Hne Hnn Hr [Hlo Hok]. rewrite rebalance_unfold by assumption. cbv zeta. rewrite Hv.
  destruct (ring_facts nodes Hnd) as [P [Hndr HL]].
  set (ring := ring_of_lists (node_name_list nodes)) in *.
  destruct (fill_v2_valid (murmur3_32 ns) (N.to_nat p) (N.to_nat r) olds ring) as [l [E V]]; try assumption.
  - intros H. apply Hne. eapply Permutation_in; [symmetry; exact P|exact H].
  - intros H. rewrite H in HL. simpl in HL. destruct nodes; [congruence|simpl in HL; lia].
  - rewrite HL. lia.
  - exists l. split; [exact E|]. eapply valid_layout_perm; [symmetry; exact P|exact V].
Qed.

(* both algorithms: a layout is produced and it is valid *)
Theorem rebalance_valid ver ns p r olds nodes :
  NoDup (map fst nodes) -> ~ In [] (map fst nodes) -> nodes <> [] ->
  (r <= N.of_nat (length nodes))%N -> olds_ok (N.to_nat p) olds ->
  exists l, rebalance ver ns p r olds nodes = Ok l /\ valid_layout (map fst nodes) (N.to_nat p) (N.to_nat r) l.
Proof.
  intros. destruct (is_v2 ver) eqn:Ev; [apply rebalance_v2_valid|apply rebalance_v1_valid]; assumption.
Qed.

Theorem rebalance_refuse_iff' ver ns p r olds nodes :
  NoDup (map fst nodes) -> ~ In [] (map fst nodes) -> nodes <> [] -> olds_ok (N.to_nat p) olds ->
  (rebalance ver ns p r olds nodes = Refuse <-> (N.of_nat (length nodes) < r)%N).
Proof.
  intros Hnd Hne Hnn Hok. split.
  - intros E. destruct (N.lt_ge_cases (N.of_nat (length nodes)) r) as [L|L]; [exact L|].
    destruct (rebalance_valid ver ns p r olds nodes) as [l [E' _]]; try assumption. congruence.
  - apply rebalance_refuse_iff. exact Hnd.
Qed.

(* ---------- chains: every layout reachable by rebalancing on changing node sets ---------- *)
Definition good_nodes (nodes : list (list N * tag)) : Prop :=
  NoDup (map fst nodes) /\ ~ In [] (map fst nodes) /\ nodes <> [].

(* the layouts the placement driver can be holding: the empty one (fresh namespace), or the result of a
   rebalance from a reachable layout on any good node set (nodes lost and added in between) *)
Inductive reachable (ver ns : bytes) (p r : N) : list (list (list N)) -> Prop :=
| reach_fresh : reachable ver ns p r []
| reach_step olds nodes l :
    reachable ver ns p r olds -> good_nodes nodes ->
    rebalance ver ns p r olds nodes = Ok l -> reachable ver ns p r l.

Lemma valid_layout_olds_ok live p r l : valid_layout live p r l -> olds_ok p l.
Proof.
  intros [HL HF]. split; [lia|]. eapply Forall_impl; [|exact HF]. intros nl [A [B _]]. exact B.
Qed.

Theorem reachable_olds_ok ver ns p r olds : reachable ver ns p r olds -> olds_ok (N.to_nat p) olds.
Proof.
  induction 1 as [|olds nodes l _ IH [Hnd [Hne Hnn]] E].
  - split; [simpl; lia|constructor].
  - destruct (N.lt_ge_cases (N.of_nat (length nodes)) r) as [L|L].
    + rewrite rebalance_refuse_iff in E by assumption. discriminate.
    + destruct (rebalance_valid ver ns p r olds nodes Hnd Hne Hnn L IH) as [l' [E' V]].
      rewrite E in E'. inversion E'; subst l'. eapply valid_layout_olds_ok. exact V.
Qed.

Theorem rebalance_chain_valid ver ns p r olds nodes :
  reachable ver ns p r olds -> good_nodes nodes -> (r <= N.of_nat (length nodes))%N ->
  exists l, rebalance ver ns p r olds nodes = Ok l /\ valid_layout (map fst nodes) (N.to_nat p) (N.to_nat r) l.
Proof.
  intros HR [Hnd [Hne Hnn]] L. apply rebalance_valid; try assumption. apply reachable_olds_ok with (ver := ver) (ns := ns) (r := r). exact HR.
Qed.
