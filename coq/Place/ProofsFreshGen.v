(* Place/ProofsFreshGen.v — C17, part 7b: V2 fresh layouts for ALL sizes.
   The fill phase on an empty previous layout is shown to produce, for partition t, the window of r cyclically
   consecutive nameIndex positions starting at (t*r) mod n, led by the first position of the window that has
   not led in the current round (ProofsProbe.v), and to leave balanced load maps (so no move happens). *)
From ZV Require Import Common.Bytes Common.BytesFacts Part.Model Place.Consts Place.Model Place.Proofs Place.ProofsV2
  Place.SweepDefs Place.ProofsV2Fresh Place.ProofsKeep Place.ProofsProbe Place.ProofsOrder.
From Coq Require Import Permutation ZifyN ZifyNat ZifyBool Arith PeanoNat Sorted.
Open Scope nat_scope.

Definition nload_dec : forall a b : nload, {a = b} + {a <> b}.
Proof. decide equality; try apply (list_eq_dec N.eq_dec); apply N.eq_dec. Defined.

(* the least element of a duplicate-free list under an asymmetric comparison is what min_by returns *)
Lemma min_by_is ltb (asym : forall a b, ltb a b = true -> ltb b a = false) : forall l x,
  NoDup l -> In x l -> (forall y, In y l -> y <> x -> ltb x y = true) -> min_by ltb l = Some x.
Proof.
  induction l as [|a l IH]; intros x Hnd Hin Hleast; [destruct Hin|].
  inversion Hnd as [|? ? Hna Hnd']; subst. simpl.
  destruct (nload_dec a x) as [->|Hax].
  - destruct (min_by ltb l) as [m0|] eqn:E; [|reflexivity].
    assert (Hm0 : In m0 l) by (eapply min_by_in; exact E).
    assert (m0 <> x) by (intros ->; contradiction).
    rewrite (asym x m0); [reflexivity|]. apply Hleast; [right; exact Hm0|assumption].
  - destruct Hin as [->|Hin]; [congruence|].
    rewrite (IH x Hnd' Hin); [|intros y Hy Hne; apply Hleast; [right; exact Hy|exact Hne]].
    rewrite Hleast; [reflexivity|left; reflexivity|exact Hax].
Qed.

Section FreshGen.
Variables g m r' : nat.
Hypothesis g_pos : 0 < g.
Hypothesis m_pos : 0 < m.
Hypothesis r'_pos : 0 < r'.
Hypothesis coprime : Nat.gcd m r' = 1.
Notation n := (g * m).
Notation r := (g * r').
Hypothesis r_le : r <= n.
Variable ring : list (list N).
Hypothesis ring_nd : NoDup ring.
Hypothesis ring_noempty : ~ In [] ring.
Hypothesis ring_len : length ring = n.
Variable h : N.

Lemma n_pos' : 0 < n. Proof. nia. Qed.
Let H := N.to_nat h mod n.
Lemma H_lt : H < n. Proof. apply Nat.mod_upper_bound. pose proof n_pos'. lia. Qed.

(* ring position <-> nameIndex *)
Definition ix (s : nat) : nat := cpos n H s.
Definition posn (i : nat) : nat := crank n H i.
Definition nm (i : nat) : list N := nth (posn i) ring [].

Lemma posn_lt i : posn i < n. Proof. apply crank_lt; [apply n_pos'|apply H_lt]. Qed.
Lemma ix_lt s : ix s < n. Proof. apply cpos_lt; [apply n_pos'|apply H_lt]. Qed.
Lemma nm_in i : In (nm i) ring.
Proof. apply nth_In. rewrite ring_len. apply posn_lt. Qed.
Lemma nm_inj i y : i < n -> y < n -> nm i = nm y -> i = y.
Proof.
  intros Hi Hy E. unfold nm in E.
  apply (proj1 (NoDup_nth ring []) ring_nd) in E; try (rewrite ring_len; apply posn_lt).
  eapply (crank_inj n H n_pos' H_lt); eassumption.
Qed.
Lemma nm_ix s : s < n -> nm (ix s) = nth s ring [].
Proof. intros Hs. unfold nm, posn, ix. rewrite crank_cpos; [reflexivity|apply n_pos'|apply H_lt|exact Hs]. Qed.

(* the model's index of ring position s *)
Lemma model_idx s : N.to_nat ((N.of_nat s + h) mod N.of_nat n) = ix s.
Proof.
  pose proof n_pos'. rewrite N2Nat.inj_mod, N2Nat.inj_add, !Nat2N.id. unfold ix, cpos, H.
  rewrite (Nat.add_comm s). rewrite Nat.add_mod_idemp_l by lia. reflexivity.
Qed.

Notation rc := (rc n r).
Notation lc := (lc g m r').
Notation rank := (rank n r).
Notation wpos := (pos n r).
Notation ldr := (ld g m r').

Definition idx (l : nload) : nat := N.to_nat (nl_idx l).
Definition b2n (b : bool) : nat := if b then 1 else 0.
Definition memn (i : nat) (l : list nat) : bool := existsb (Nat.eqb i) l.
Definition hdis (i : nat) (l : list nat) : bool := match l with x :: _ => Nat.eqb i x | [] => false end.

(* state invariant while partition t is being filled; [done] = nameIndex positions chosen so far for it *)
Definition SI (t : nat) (done : list nat) (ls : loads) : Prop :=
  names ls = ring /\
  forall l, In l ls ->
    idx l < n /\ nl_name l = nm (idx l) /\
    length (nl_rep l) = rc t (idx l) + b2n (memn (idx l) done) /\
    length (nl_lead l) = lc t (idx l) + b2n (hdis (idx l) done).

Lemma memn_In i l : memn i l = true <-> In i l.
Proof.
  unfold memn. rewrite existsb_exists. split.
  - intros [x [Hx E]]. apply Nat.eqb_eq in E. subst. exact Hx.
  - intros Hi. exists i. split; [exact Hi|apply Nat.eqb_refl].
Qed.

Lemma init_SI : SI 0 [] (init_loads h (N.of_nat n) 0 ring).
Proof.
  split; [apply names_init|].
  assert (G : forall rg s l, In l (init_loads h (N.of_nat n) (N.of_nat s) rg) ->
            exists k, k < length rg /\ nl_name l = nth k rg [] /\ nl_idx l = ((N.of_nat (s + k) + h) mod N.of_nat n)%N
                      /\ nl_rep l = [] /\ nl_lead l = []).
  { induction rg as [|x rg IH]; intros s l Hl; simpl in Hl; [destruct Hl|].
    destruct Hl as [<-|Hl].
    - exists 0. simpl. rewrite Nat.add_0_r, wrap_v2_id. repeat split; lia.
    - replace (N.of_nat s + 1)%N with (N.of_nat (S s)) in Hl by lia.
      destruct (IH (S s) l Hl) as [k [Hk [E1 [E2 [E3 E4]]]]]. exists (S k). simpl.
      replace (s + S k) with (S s + k) by lia. repeat split; try assumption; lia. }
  intros l Hl. destruct (G ring 0 l Hl) as [k [Hk [E1 [E2 [E3 E4]]]]]. simpl in E2.
  rewrite ring_len in Hk. unfold idx. rewrite E2, model_idx.
  split; [apply ix_lt|]. split; [rewrite nm_ix by exact Hk; exact E1|].
  rewrite E3, E4. unfold rc, ProofsProbe.rc, lc, ProofsProbe.lc. simpl. split; reflexivity.
Qed.

(* the arithmetic lemmas at these parameters *)
Definition A_off_lt := off_lt g m r' g_pos m_pos coprime.
Definition A_ld_lt : forall t, ldr t < n := ld_lt g m r' g_pos m_pos coprime.
Definition A_lc_split : forall t i, i < n -> lc t i = t / n + led g m r' t i := lc_split g m r' g_pos m_pos coprime.
Definition A_ld_fresh := ld_fresh g m r' g_pos m_pos coprime.
Definition A_led_le1 := led_le1 g m r' g_pos m_pos coprime.
Definition A_before := before_leader_led g m r' g_pos m_pos coprime.
Definition A_rank_pos := rank_pos n r n_pos' r_le.
Definition A_pos_rank := pos_rank n r n_pos' r_le.
Definition A_rank_inj := rank_inj n r n_pos' r_le.
Definition A_rank_lt := rank_lt n r n_pos' r_le.
Definition A_rc_order := rc_order n r n_pos' r_le.
Definition A_rc_S := rc_S n r n_pos' r_le.
Definition A_wst_lt := wst_lt n r n_pos' r_le.

(* ---------- records by nameIndex ---------- *)
Lemma SI_nodup t D ls : SI t D ls -> NoDup ls /\ NoDup (names ls).
Proof.
  intros [Hn _]. assert (NoDup (names ls)) by (rewrite Hn; exact ring_nd).
  split; [eapply NoDup_map_inv; exact H0|exact H0].
Qed.
Lemma rec_of t D ls i : SI t D ls -> i < n -> exists l, In l ls /\ idx l = i.
Proof.
  intros [Hn Hl] Hi. pose proof (nm_in i) as Hin. rewrite <- Hn in Hin.
  apply in_map_iff in Hin. destruct Hin as [l [E Hin]]. exists l. split; [exact Hin|].
  destruct (Hl l Hin) as [A [B _]]. rewrite B in E. apply nm_inj; assumption.
Qed.
Lemma rec_unique t D ls l1 l2 : SI t D ls -> In l1 ls -> In l2 ls -> idx l1 = idx l2 -> l1 = l2.
Proof.
  intros HS H1 H2 E. destruct (SI_nodup t D ls HS) as [_ Hnd]. destruct HS as [_ Hl].
  destruct (Hl l1 H1) as [_ [B1 _]]. destruct (Hl l2 H2) as [_ [B2 _]].
  assert (En : nl_name l1 = nl_name l2) by (rewrite B1, B2, E; reflexivity).
  pose proof (get_in ls l1 Hnd H1) as G1. pose proof (get_in ls l2 Hnd H2) as G2. rewrite En in G1. congruence.
Qed.

Lemma cands_idx t D0 D ls l : SI t D0 ls -> (forall i, In i D -> i < n) ->
  (In l (cands (map nm D) ls) <-> In l ls /\ ~ In (idx l) D).
Proof.
  intros [_ Hl] HD. rewrite cands_in. split; intros [A B]; split; try exact A.
  - intros Hin. apply B. destruct (Hl l A) as [_ [E _]]. rewrite E. apply in_map. exact Hin.
  - intros Hin. apply B. destruct (Hl l A) as [Hi [E _]]. rewrite E in Hin.
    apply in_map_iff in Hin. destruct Hin as [i [Ei Hi']]. apply nm_inj in Ei; [subst; exact Hi'|apply HD; exact Hi'|exact Hi].
Qed.

Lemma nltb_idx a b : N.ltb (nl_idx a) (nl_idx b) = Nat.ltb (idx a) (idx b).
Proof. unfold idx. destruct (N.ltb_spec (nl_idx a) (nl_idx b)), (Nat.ltb_spec (N.to_nat (nl_idx a)) (N.to_nat (nl_idx b))); lia. Qed.

Lemma wst_st t : wst n r t = st g m r' t.
Proof. reflexivity. Qed.

Lemma leader_rank t : rank t (ldr t) = off g m t /\ ldr t < n /\ off g m t < r.
Proof.
  pose proof (A_off_lt t) as Ho. pose proof (A_ld_lt t) as Hl.
  assert (Hor : off g m t < r) by nia.
  split; [|split; [exact Hl|exact Hor]].
  assert (E : ldr t = wpos t (off g m t)).
  { unfold ProofsProbe.pos. rewrite wst_st. symmetry. apply Nat.mod_small. exact Hl. }
  rewrite E. apply A_rank_pos. nia.
Qed.

(* the leader choice: least (leaders, replicas, index) over all nodes *)
Lemma pick_leader t ls : SI t [] ls ->
  exists x, min_by lead_ltb (cands [] ls) = Some x /\ In x ls /\ idx x = ldr t.
Proof.
  intros HS. destruct (leader_rank t) as [Hrk [Hlt Hor]].
  destruct (rec_of t [] ls (ldr t) HS Hlt) as [x [Hx Ex]]. exists x.
  split; [|split; assumption].
  assert (Hc : cands [] ls = ls).
  { unfold cands. simpl. clear. induction ls as [|a l IH]; simpl; [reflexivity|]. f_equal. exact IH. }
  rewrite Hc. destruct (SI_nodup t [] ls HS) as [Hnd _].
  apply (min_by_is lead_ltb lead_ltb_asym); try assumption.
  intros y Hy Hne.
  assert (Hiy : idx y <> ldr t) by (intros E; apply Hne; eapply rec_unique; try eassumption; congruence).
  destruct HS as [_ Hl]. destruct (Hl x Hx) as [_ [_ [Rx Lx]]]. destruct (Hl y Hy) as [Hyn [_ [Ry Ly]]].
  simpl in Rx, Lx, Ry, Ly. rewrite Nat.add_0_r in Rx, Lx, Ry, Ly. rewrite Ex in Rx, Lx.
  unfold lead_ltb. rewrite Rx, Lx, Ry, Ly, nltb_idx, Ex.
  rewrite !A_lc_split by assumption.
  rewrite (A_ld_fresh t).
  pose proof (A_led_le1 t (idx y)) as Hle.
  destruct (led g m r' t (idx y)) as [|[|e]] eqn:El; [|clear Hle|lia].
  - (* y has not led in this round either: it comes later in the cyclic order *)
    rewrite Nat.eqb_refl.
    assert (Hrank : rank t (ldr t) < rank t (idx y)).
    { rewrite Hrk. destruct (Nat.lt_ge_cases (off g m t) (rank t (idx y))) as [L|L]; [exact L|exfalso].
      destruct (Nat.eq_dec (rank t (idx y)) (off g m t)) as [E|E].
      - apply Hiy. apply (A_rank_inj t); try assumption. rewrite Hrk. exact E.
      - assert (Hk : rank t (idx y) < off g m t) by lia.
        pose proof (A_before t _ Hk) as Hb.
        assert (Ey : st g m r' t + rank t (idx y) = idx y).
        { rewrite <- (A_pos_rank t (idx y) Hyn) at 2. unfold ProofsProbe.pos. rewrite wst_st.
          symmetry. apply Nat.mod_small. pose proof (A_ld_lt t) as Hq. unfold ld in Hq. lia. }
        rewrite Ey in Hb. lia. }
    apply (A_rc_order t) in Hrank; try assumption.
    destruct Hrank as [L|[E L]].
    + destruct (Nat.eqb_spec (rc t (ldr t)) (rc t (idx y))); [lia|]. apply Nat.ltb_lt. exact L.
    + rewrite E, Nat.eqb_refl. apply Nat.ltb_lt. exact L.
  - destruct (Nat.eqb_spec (t / n + 0) (t / n + 1)); [lia|]. apply Nat.ltb_lt. lia.
Qed.

(* a replica choice: least (replicas, index) over the nodes not chosen yet *)
Lemma pick_replica t D ls w : SI t D ls -> (forall i, In i D -> i < n) -> w < n -> ~ In w D ->
  (forall i, i < n -> ~ In i D -> i <> w -> rank t w < rank t i) ->
  exists x, min_by rep_ltb (cands (map nm D) ls) = Some x /\ In x ls /\ idx x = w.
Proof.
  intros HS HD Hw HwD Hmin.
  destruct (rec_of t D ls w HS Hw) as [x [Hx Ex]]. exists x. split; [|split; assumption].
  destruct (SI_nodup t D ls HS) as [Hnd _].
  apply (min_by_is rep_ltb rep_ltb_asym).
  - apply NoDup_filter. exact Hnd.
  - apply (cands_idx t D D ls x HS HD). split; [exact Hx|rewrite Ex; exact HwD].
  - intros y Hy Hne. apply (cands_idx t D D ls y HS HD) in Hy. destruct Hy as [Hy HyD].
    assert (Hiy : idx y <> w) by (intros E; apply Hne; eapply rec_unique; try eassumption; congruence).
    destruct HS as [_ Hl]. destruct (Hl x Hx) as [_ [_ [Rx _]]]. destruct (Hl y Hy) as [Hyn [_ [Ry _]]].
    assert (M1 : memn (idx x) D = false).
    { destruct (memn (idx x) D) eqn:E; [|reflexivity]. apply memn_In in E. rewrite Ex in E. contradiction. }
    assert (M2 : memn (idx y) D = false).
    { destruct (memn (idx y) D) eqn:E; [|reflexivity]. apply memn_In in E. contradiction. }
    rewrite M1 in Rx. rewrite M2 in Ry. simpl in Rx, Ry. rewrite Nat.add_0_r in Rx, Ry. rewrite Ex in Rx.
    unfold rep_ltb. rewrite Rx, Ry, nltb_idx, Ex.
    pose proof (Hmin (idx y) Hyn HyD Hiy) as Hrank.
    apply (A_rc_order t) in Hrank; try assumption.
    destruct Hrank as [L|[E L]].
    + destruct (Nat.eqb_spec (rc t w) (rc t (idx y))); [lia|]. apply Nat.ltb_lt. exact L.
    + rewrite E, Nat.eqb_refl. apply Nat.ltb_lt. exact L.
Qed.

(* ---------- updating one record ---------- *)
Lemma SI_upd t D D' ls x f :
  SI t D ls -> In x ls ->
  (forall l, nl_name (f l) = nl_name l /\ nl_idx (f l) = nl_idx l) ->
  length (nl_rep (f x)) = rc t (idx x) + b2n (memn (idx x) D') ->
  length (nl_lead (f x)) = lc t (idx x) + b2n (hdis (idx x) D') ->
  (forall i, i <> idx x -> memn i D' = memn i D /\ hdis i D' = hdis i D) ->
  SI t D' (upd_node (nl_name x) f ls).
Proof.
  intros HS Hx Hf Hr Hl Hoth. pose proof HS as [Hn Hall]. split.
  - rewrite names_upd; [exact Hn|]. intros l. apply Hf.
  - intros l' Hl'. unfold upd_node in Hl'. apply in_map_iff in Hl'. destruct Hl' as [l [E Hin]].
    destruct (bytes_eqb (nl_name l) (nl_name x)) eqn:Eb.
    + apply bytes_eqb_eq in Eb. assert (l = x).
      { destruct (SI_nodup t D ls HS) as [_ Hnd]. pose proof (get_in ls l Hnd Hin) as G1.
        pose proof (get_in ls x Hnd Hx) as G2. rewrite Eb in G1. congruence. }
      subst l l'. destruct (Hall x Hx) as [A [B _]]. destruct (Hf x) as [F1 F2].
      unfold idx in *. rewrite F2, F1. split; [exact A|]. split; [exact B|]. split; assumption.
    + subst l'. destruct (Hall l Hin) as [A [B [C1 C2]]].
      assert (Hne : idx l <> idx x).
      { intros E. apply bytes_eqb_neq in Eb. apply Eb. destruct (Hall x Hx) as [_ [B' _]]. rewrite B, B', E. reflexivity. }
      destruct (Hoth (idx l) Hne) as [O1 O2]. rewrite O1, O2. repeat split; assumption.
Qed.

Lemma memn_app_single i D w : memn i (D ++ [w]) = memn i D || Nat.eqb i w.
Proof. unfold memn. rewrite existsb_app. simpl. rewrite orb_false_r. reflexivity. Qed.

Lemma hdis_app i D l : D <> [] -> hdis i (D ++ l) = hdis i D.
Proof. destruct D; [congruence|reflexivity]. Qed.

Lemma has_empty t D ls : SI t D ls -> has_node [] ls = false.
Proof. intros [Hn _]. apply has_node_false. rewrite Hn. exact ring_noempty. Qed.

Lemma wpos_lt t k : wpos t k < n. Proof. apply pos_lt; [apply n_pos'|exact r_le]. Qed.
Lemma wpos_inj t k k' : k < n -> k' < n -> wpos t k = wpos t k' -> k = k'.
Proof. intros Hk Hk' E. rewrite <- (A_rank_pos t k Hk), <- (A_rank_pos t k' Hk'), E. reflexivity. Qed.

(* ---------- the replica slots of one partition ---------- *)
Lemma fill_replicas t : forall todo doneK ls,
  1 <= length doneK ->
  StronglySorted lt todo ->
  (forall k, In k todo -> k < n /\ ~ In k doneK) -> (forall k, In k doneK -> k < n) ->
  (forall k, k < n -> ~ In k doneK -> ~ In k todo -> forall k', In k' todo -> k' < k) ->
  SI t (map (wpos t) doneK) ls ->
  exists ls', fill_slots (N.of_nat t) [] (length doneK) (length todo) ls (map nm (map (wpos t) doneK))
                = Ok (ls', map nm (map (wpos t) todo)) /\
              SI t (map (wpos t) (doneK ++ todo)) ls'.
Proof.
  induction todo as [|k0 todo IH]; intros doneK ls Hj Hsort Htodo Hdone Hout HS.
  - exists ls. simpl. rewrite app_nil_r. split; [reflexivity|exact HS].
  - simpl length. rewrite fill_slots_S. cbv zeta.
    assert (Hnth : nth (length doneK) (@nil (list N)) [] = []) by (destruct (length doneK); reflexivity).
    rewrite Hnth, (has_empty t _ ls HS).
    assert (Ej : Nat.eqb (length doneK) 0 = false) by (apply Nat.eqb_neq; lia). rewrite Ej.
    inversion Hsort as [|? ? Hsort' Hk0]; subst.
    destruct (Htodo k0 (or_introl eq_refl)) as [Hk0n Hk0d].
    set (D := map (wpos t) doneK) in *. set (w := wpos t k0).
    assert (HD : forall i, In i D -> i < n).
    { intros i Hi. apply in_map_iff in Hi. destruct Hi as [k [<- _]]. apply wpos_lt. }
    assert (HwD : ~ In w D).
    { intros Hi. apply in_map_iff in Hi. destruct Hi as [k [E Hk]]. apply wpos_inj in E; [subst; contradiction|apply Hdone; exact Hk|exact Hk0n]. }
    assert (HDne : D <> []).
    { unfold D. destruct doneK; [simpl in Hj; lia|discriminate]. }
    destruct (pick_replica t D ls w HS HD (wpos_lt t k0) HwD) as [x [Ex [Hx Ix]]].
    { intros i Hi HiD Hiw. unfold w. rewrite (A_rank_pos t k0 Hk0n).
      set (k := rank t i). assert (Hkn : k < n) by apply A_rank_lt.
      assert (Hik : wpos t k = i) by (apply A_pos_rank; exact Hi).
      assert (Hkd : ~ In k doneK) by (intros Hin; apply HiD; rewrite <- Hik; apply in_map; exact Hin).
      assert (Hk0k : k <> k0) by (intros E; apply Hiw; rewrite <- Hik, E; reflexivity).
      destruct (in_dec Nat.eq_dec k todo) as [Hin|Hnin].
      - rewrite Forall_forall in Hk0. apply Hk0. exact Hin.
      - apply (Hout k Hkn Hkd); [|left; reflexivity]. intros [E|Hin]; [congruence|contradiction]. }
    rewrite Ex.
    assert (Enm : nl_name x = nm w).
    { destruct HS as [_ Hall]. destruct (Hall x Hx) as [_ [B _]]. rewrite B, Ix. reflexivity. }
    destruct (IH (doneK ++ [k0]) (upd_node (nl_name x) (add_rep (N.of_nat t)) ls)) as [ls' [E' HS']].
    + rewrite app_length. simpl. lia.
    + exact Hsort'.
    + intros k Hk. destruct (Htodo k (or_intror Hk)) as [A B]. split; [exact A|].
      rewrite Forall_forall in Hk0. pose proof (Hk0 k Hk). intros Hin. apply in_app_iff in Hin.
      destruct Hin as [Hin|[E|[]]]; [contradiction|lia].
    + intros k Hk. apply in_app_iff in Hk. destruct Hk as [Hk|[<-|[]]]; [apply Hdone; exact Hk|exact Hk0n].
    + intros k Hkn Hkd Hkt k' Hk'. apply (Hout k Hkn).
      * intros Hin. apply Hkd. apply in_app_iff. left. exact Hin.
      * intros [E|Hin]; [apply Hkd; apply in_app_iff; right; left; exact E|contradiction].
      * right. exact Hk'.
    + rewrite map_app. simpl. fold D. fold w.
      apply (SI_upd t D (D ++ [w]) ls x); try assumption.
      * intros l. split; reflexivity.
      * simpl. rewrite app_length. simpl. destruct HS as [_ Hall]. destruct (Hall x Hx) as [_ [_ [R _]]].
        rewrite R, Ix, memn_app_single, Nat.eqb_refl, orb_true_r.
        assert (memn w D = false) as -> by (destruct (memn w D) eqn:E; [apply memn_In in E; contradiction|reflexivity]).
        simpl. lia.
      * simpl. destruct HS as [_ Hall]. destruct (Hall x Hx) as [_ [_ [_ L]]]. rewrite L.
        rewrite hdis_app by exact HDne. reflexivity.
      * intros i Hi. rewrite Ix in Hi. rewrite memn_app_single.
        assert (Nat.eqb i w = false) as -> by (apply Nat.eqb_neq; exact Hi). rewrite orb_false_r.
        split; [reflexivity|]. apply hdis_app. exact HDne.
    + rewrite app_length in E'. simpl in E'. replace (length doneK + 1) with (S (length doneK)) in E' by lia.
      rewrite map_app, map_app in E'. simpl in E'. rewrite Enm in E' |- *. fold D in E'. fold w in E'. rewrite E'.
      exists ls'. split; [reflexivity|]. rewrite <- app_assoc in HS'. exact HS'.
Qed.

(* ---------- one whole partition ---------- *)
Definition rks (t : nat) : list nat := off g m t :: filter (fun k => negb (Nat.eqb k (off g m t))) (seq 0 r).
Definition widx (t : nat) : list nat := map (wpos t) (rks t).

Lemma seq_sorted : forall len a, StronglySorted lt (seq a len).
Proof.
  induction len as [|len IH]; intros a; simpl; constructor; [apply IH|].
  apply Forall_forall. intros x Hx. apply in_seq in Hx. lia.
Qed.
Lemma filter_sorted (f : nat -> bool) l : StronglySorted lt l -> StronglySorted lt (filter f l).
Proof.
  induction 1 as [|a l Hs IH Ha]; simpl; [constructor|].
  destruct (f a); [|exact IH]. constructor; [exact IH|].
  apply Forall_forall. intros x Hx. apply filter_In in Hx. rewrite Forall_forall in Ha. apply Ha. tauto.
Qed.
Lemma filter_one_out c : forall len a, a <= c < a + len ->
  length (filter (fun k => negb (Nat.eqb k c)) (seq a len)) = len - 1.
Proof.
  induction len as [|len IH]; intros a Hc; [lia|]. simpl.
  destruct (Nat.eqb_spec a c) as [->|Hne]; simpl.
  - assert (Hid : forall l, (forall x, In x l -> x <> c) -> filter (fun k => negb (Nat.eqb k c)) l = l).
    { induction l as [|x l IHl]; intros Hl; simpl; [reflexivity|].
      destruct (Nat.eqb_spec x c) as [->|_]; [exfalso; apply (Hl c); [left|]; reflexivity|].
      simpl. f_equal. apply IHl. intros y Hy. apply Hl. right. exact Hy. }
    rewrite Hid; [rewrite seq_length; lia|]. intros x Hx. apply in_seq in Hx. lia.
  - rewrite IH by lia. lia.
Qed.

Lemma rks_spec t : let c := off g m t in
  c < r /\ length (rks t) = r /\ NoDup (rks t) /\ (forall k, In k (rks t) <-> k < r).
Proof.
  cbv zeta. destruct (leader_rank t) as [_ [_ Hc]]. unfold rks. split; [exact Hc|]. split; [|split].
  - simpl. rewrite filter_one_out by lia. lia.
  - constructor.
    + intros Hin. apply filter_In in Hin. destruct Hin as [_ Hf]. rewrite Nat.eqb_refl in Hf. discriminate.
    + apply NoDup_filter. apply seq_NoDup.
  - intros k. simpl. rewrite filter_In, in_seq, negb_true_iff, Nat.eqb_neq. split.
    + intros [<-|[A _]]; lia.
    + intros Hk. destruct (Nat.eq_dec (off g m t) k); [left; assumption|right; split; [lia|congruence]].
Qed.

Lemma fill_partition t ls : SI t [] ls ->
  exists ls', fill_slots (N.of_nat t) [] 0 r ls [] = Ok (ls', map nm (widx t)) /\ SI t (widx t) ls'.
Proof.
  intros HS. destruct (rks_spec t) as [Hc [Hlen [Hnd Hmem]]]. destruct (leader_rank t) as [Hrk [Hlt _]].
  destruct (pick_leader t ls HS) as [x [Ex [Hx Ix]]].
  assert (Er : r = S (length (filter (fun k => negb (Nat.eqb k (off g m t))) (seq 0 r)))).
  { unfold rks in Hlen. simpl in Hlen. lia. }
  assert (Eld : ldr t = wpos t (off g m t)).
  { unfold ProofsProbe.pos. rewrite wst_st. symmetry. apply Nat.mod_small. exact Hlt. }
  assert (Enm : nl_name x = nm (wpos t (off g m t))).
  { destruct HS as [_ Hall]. destruct (Hall x Hx) as [_ [B _]]. rewrite B, Ix, Eld. reflexivity. }
  set (todo := filter (fun k => negb (Nat.eqb k (off g m t))) (seq 0 r)) in *.
  cut (forall rr, rr = S (length todo) ->
       exists ls', fill_slots (N.of_nat t) [] 0 rr ls [] = Ok (ls', map nm (widx t)) /\ SI t (widx t) ls');
    [intros Hcut; apply Hcut; exact Er|]. intros rr ->.
  rewrite fill_slots_S. cbv zeta. simpl nth. rewrite (has_empty t _ ls HS). simpl Nat.eqb. cbv iota.
  rewrite Ex.
  set (ls1 := upd_node (nl_name x) (fun l => add_rep (N.of_nat t) (add_lead (N.of_nat t) l)) ls).
  assert (HS1 : SI t (map (wpos t) [off g m t]) ls1).
  { simpl. unfold ls1. apply (SI_upd t [] [wpos t (off g m t)] ls x); try assumption.
    - intros l. split; reflexivity.
    - simpl. rewrite app_length. simpl. destruct HS as [_ Hall]. destruct (Hall x Hx) as [_ [_ [R _]]].
      rewrite R, Ix, Eld. unfold memn. simpl. rewrite Nat.eqb_refl. simpl. lia.
    - simpl. rewrite app_length. simpl. destruct HS as [_ Hall]. destruct (Hall x Hx) as [_ [_ [_ L]]].
      rewrite L, Ix, Eld. simpl. rewrite Nat.eqb_refl. simpl. lia.
    - intros i Hi. rewrite Ix, Eld in Hi. unfold memn. simpl.
      assert (Nat.eqb i (wpos t (off g m t)) = false) as -> by (apply Nat.eqb_neq; exact Hi). split; reflexivity. }
  destruct (fill_replicas t todo [off g m t] ls1) as [ls' [E' HS']].
  - simpl. lia.
  - apply filter_sorted. apply seq_sorted.
  - intros k Hk. apply filter_In in Hk. destruct Hk as [A B]. apply in_seq in A.
    rewrite negb_true_iff, Nat.eqb_neq in B. split; [nia|]. intros [E|[]]. congruence.
  - intros k [<-|[]]. nia.
  - intros k Hkn Hkd Hkt k' Hk'. apply filter_In in Hk'. destruct Hk' as [A' _]. apply in_seq in A'.
    destruct (Nat.lt_ge_cases k r) as [L|L]; [|lia]. exfalso. apply Hkt. apply filter_In. split; [apply in_seq; lia|].
    rewrite negb_true_iff, Nat.eqb_neq. intros E. apply Hkd. left. congruence.
  - exact HS1.
  - simpl length in E'. simpl map in E'. rewrite Enm. simpl app. rewrite E'.
    exists ls'. split; [reflexivity|exact HS'].
Qed.

Lemma widx_mem t i : i < n -> memn i (widx t) = inwin n r t i.
Proof.
  intros Hi. destruct (rks_spec t) as [_ [_ [_ Hmem]]]. unfold inwin.
  destruct (Nat.ltb_spec (rank t i) r) as [L|L].
  - apply memn_In. unfold widx. apply in_map_iff. exists (rank t i). split; [apply A_pos_rank; exact Hi|apply Hmem; exact L].
  - destruct (memn i (widx t)) eqn:E; [|reflexivity]. apply memn_In in E. unfold widx in E.
    apply in_map_iff in E. destruct E as [k [E Hk]]. apply Hmem in Hk.
    rewrite <- E in L. rewrite A_rank_pos in L by nia. lia.
Qed.
Lemma widx_hd t i : hdis i (widx t) = Nat.eqb i (ldr t).
Proof.
  destruct (leader_rank t) as [_ [Hlt _]]. unfold widx, rks. simpl. f_equal.
  unfold ProofsProbe.pos. rewrite wst_st. apply Nat.mod_small. exact Hlt.
Qed.

Lemma SI_next t ls : SI t (widx t) ls -> SI (S t) [] ls.
Proof.
  intros [Hn Hall]. split; [exact Hn|]. intros l Hl. destruct (Hall l Hl) as [A [B [C1 C2]]].
  split; [exact A|]. split; [exact B|]. simpl. rewrite !Nat.add_0_r. split.
  - rewrite C1, A_rc_S, widx_mem by exact A. destruct (inwin n r t (idx l)); reflexivity.
  - rewrite C2, lc_S, widx_hd. destruct (Nat.eq_dec (ldr t) (idx l)) as [E|E].
    + rewrite <- E, Nat.eqb_refl. reflexivity.
    + assert (Nat.eqb (idx l) (ldr t) = false) as -> by (apply Nat.eqb_neq; congruence). reflexivity.
Qed.

(* ---------- all partitions ---------- *)
Definition fresh_parts (t0 p : nat) : list (list (list N)) := map (fun t => map nm (widx t)) (seq t0 p).

Lemma fill_parts_fresh : forall p t ls, SI t [] ls ->
  exists ls', fill_parts (N.of_nat t) p [] r ls = Ok (ls', fresh_parts t p) /\ SI (t + p) [] ls'.
Proof.
  induction p as [|p IH]; intros t ls HS.
  - exists ls. simpl. rewrite Nat.add_0_r. split; [reflexivity|exact HS].
  - rewrite fill_parts_S. cbv zeta.
    assert (Hnth : nth (N.to_nat (N.of_nat t)) (@nil (list (list N))) [] = []) by (destruct (N.to_nat (N.of_nat t)); reflexivity).
    rewrite Hnth.
    destruct (fill_partition t ls HS) as [ls1 [E1 HS1]]. rewrite E1.
    apply SI_next in HS1.
    replace (N.of_nat t + 1)%N with (N.of_nat (S t)) by lia.
    destruct (IH (S t) ls1 HS1) as [ls' [E' HS']]. rewrite E'.
    exists ls'. split; [reflexivity|]. replace (t + S p) with (S t + p) by lia. exact HS'.
Qed.

Lemma SI_balanced t ls : SI t [] ls -> balanced ls = true.
Proof.
  intros HS. pose proof HS as [Hn Hall].
  assert (Hne : ls <> []).
  { intros ->. simpl in Hn. pose proof n_pos'. destruct ring; [simpl in ring_len; lia|discriminate]. }
  assert (Hb : forall l, In l ls ->
            t / n <= length (nl_lead l) <= t / n + 1 /\ (t * r) / n <= length (nl_rep l) <= (t * r) / n + 1).
  { intros l Hl. destruct (Hall l Hl) as [A [_ [C1 C2]]]. simpl in C1, C2. rewrite Nat.add_0_r in C1, C2.
    rewrite C1, C2, A_lc_split by exact A. rewrite (rc_formula n r n_pos' r_le t (idx l) A).
    pose proof (A_led_le1 t (idx l)). destruct (Nat.ltb (idx l) (wst n r t)); lia. }
  unfold balanced.
  destruct (min_by lead_ltb ls) as [ln|] eqn:E1; [|apply min_by_none in E1; contradiction].
  destruct (max_by lead_ltb ls) as [lx|] eqn:E2; [|apply max_by_none in E2; contradiction].
  destruct (min_by rep_ltb ls) as [rn|] eqn:E3; [|apply min_by_none in E3; contradiction].
  destruct (max_by rep_ltb ls) as [rx|] eqn:E4; [|apply max_by_none in E4; contradiction].
  apply min_by_in in E1, E3. apply max_by_in in E2, E4.
  pose proof (Hb ln E1). pose proof (Hb lx E2). pose proof (Hb rn E3). pose proof (Hb rx E4).
  apply andb_true_intro. split; apply Nat.leb_le; lia.
Qed.

(* the fresh V2 layout, for every size: partition t gets the names of the window positions, leader first;
   the load maps are balanced, so moveIfUnbalanced moves nothing *)
Theorem fill_v2_fresh_general p :
  fill_v2 h p r [] ring = Ok (fresh_parts 0 p).
Proof.
  destruct (fill_parts_fresh p 0 _ init_SI) as [ls [E HS]].
  apply (fill_v2_balanced h p r [] ring ls).
  - unfold v2_fill_phase. cbn [map]. simpl add_olds. rewrite ring_len. exact E.
  - eapply SI_balanced. exact HS.
Qed.

(* data-centre classes: ring slot s belongs to class s mod d, d divides n, r <= d *)
Theorem fresh_part_spread t d (cls : list N -> nat) :
  d <> 0 -> Nat.divide d n -> r <= d ->
  (forall s, s < n -> cls (nth s ring []) = s mod d) ->
  NoDup (map cls (map nm (widx t))).
Proof.
  intros Hd Hdiv Hrd Hcls. pose proof n_pos' as Hn. pose proof H_lt as HH.
  destruct (rks_spec t) as [_ [_ [Hnd Hmem]]]. unfold widx. rewrite !map_map.
  apply NoDup_map_in; [|exact Hnd].
  assert (Hkey : forall k, k < n -> cls (nm (wpos t k)) = (wst n r t + (n - H) + k) mod d).
  { intros k Hk. unfold nm. rewrite Hcls by apply posn_lt. unfold posn, crank, ProofsProbe.pos.
    rewrite mod_mod_divides by (try assumption; lia).
    rewrite <- Nat.add_sub_assoc by lia. rewrite Nat.add_mod by exact Hd.
    rewrite mod_mod_divides by (try assumption; lia). rewrite <- Nat.add_mod by exact Hd. f_equal. lia. }
  intros k k' Hk Hk' E. apply Hmem in Hk, Hk'. rewrite !Hkey in E by nia.
  eapply mod_add_inj; [| |exact E]; lia.
Qed.
End FreshGen.

(* ---------- instantiation: g = gcd r n ---------- *)
Lemma gcd_params n r : 0 < n -> 0 < r ->
  let g := Nat.gcd r n in let m := n / g in let r' := r / g in
  0 < g /\ 0 < m /\ 0 < r' /\ Nat.gcd m r' = 1 /\ g * m = n /\ g * r' = r.
Proof.
  intros Hn Hr. cbv zeta. set (g := Nat.gcd r n).
  assert (Hg : g <> 0) by (intros E; apply Nat.gcd_eq_0_r in E; lia).
  destruct (Nat.gcd_divide_r r n) as [kn Hkn]. destruct (Nat.gcd_divide_l r n) as [kr Hkr]. fold g in Hkn, Hkr.
  assert (Em : n / g = kn) by (rewrite Hkn at 1; apply Nat.div_mul; exact Hg).
  assert (Er : r / g = kr) by (rewrite Hkr at 1; apply Nat.div_mul; exact Hg).
  rewrite Em, Er.
  assert (Hc : Nat.gcd (r / g) (n / g) = 1) by (apply Nat.gcd_div_gcd; [exact Hg|reflexivity]).
  rewrite Em, Er, Nat.gcd_comm in Hc.
  repeat split; try lia; try nia; try exact Hc.
Qed.

(* V2 fresh layout on any duplicate-free ring: every partition's members lie in r different classes whenever
   ring slot s has class s mod d with d dividing the ring length and r <= d *)
Theorem fill_v2_fresh_spread_any h p r d (ring : list (list N)) (cls : list N -> nat) :
  NoDup ring -> ~ In [] ring -> 0 < r -> r <= length ring ->
  d <> 0 -> Nat.divide d (length ring) -> r <= d ->
  (forall s, s < length ring -> cls (nth s ring []) = s mod d) ->
  exists parts, fill_v2 h p r [] ring = Ok parts /\ Forall (fun nl => NoDup (map cls nl)) parts.
Proof.
  intros Hnd Hne Hr Hrn Hd Hdiv Hrd Hcls.
  assert (Hn : 0 < length ring) by lia.
  destruct (gcd_params (length ring) r Hn Hr) as [Hg [Hm [Hr' [Hc [Egm Egr]]]]].
  set (g := Nat.gcd r (length ring)) in *. set (m := length ring / g) in *. set (r' := r / g) in *.
  assert (Hle : g * r' <= g * m) by lia.
  pose proof (fill_v2_fresh_general g m r' Hg Hm Hr' Hc Hle ring Hnd Hne (eq_sym Egm) h p) as E.
  rewrite Egr in E. eexists. split; [exact E|].
  unfold fresh_parts. apply Forall_map. apply Forall_forall. intros t _.
  apply (fresh_part_spread g m r' Hg Hm Hr' Hc Hle ring (eq_sym Egm) h t d cls Hd); rewrite ?Egm, ?Egr; assumption.
Qed.

(* through the entry point: V2 fresh layouts on even topologies over at least r data centres, ALL sizes *)
Theorem rebalance_v2_fresh_dc_spread_unbounded ver ns p r nodes k l :
  is_v2 ver = true -> NoDup (map fst nodes) -> ~ In [] (map fst nodes) -> nodes <> [] ->
  even_topology nodes k -> N.to_nat r <= length (dcs_of nodes) ->
  rebalance ver ns p r [] nodes = Ok l ->
  Forall (fun nl => NoDup (map (node_dc nodes) nl)) l.
Proof.
  intros Hv Hnd Hne Hnn He Hrd E.
  destruct (even_k_pos nodes k Hnn He) as [Hk Hd0].
  destruct (even_ring_class nodes k Hnd He Hk) as [HL Hcls].
  destruct (ring_facts nodes Hnd) as [P [Hndr HLn]].
  set (ring := ring_of_lists (node_name_list nodes)) in *.
  set (d := length (dcs_of nodes)) in *.
  assert (Hrle : (r <= N.of_nat (length nodes))%N).
  { rewrite <- HLn, HL. assert (d <= k * d) by nia. lia. }
  destruct (Nat.eq_dec (N.to_nat r) 0) as [Hr0|Hr0].
  { destruct (rebalance_v2_valid ver ns p r [] nodes Hv Hnd Hne Hnn Hrle) as [l' [E' [VL VF]]].
    { split; [simpl; lia|constructor]. }
    rewrite E in E'. inversion E'; subst l'. eapply Forall_impl; [|exact VF].
    intros nl [A _]. apply NoDup_short. lia. }
  assert (Hner : ~ In [] ring).
  { intros H0. apply Hne. eapply Permutation_in; [symmetry; exact P|exact H0]. }
  rewrite rebalance_unfold in E by assumption. cbv zeta in E. rewrite Hv in E. fold ring in E.
  destruct (fill_v2_fresh_spread_any (murmur3_32 ns) (N.to_nat p) (N.to_nat r) d ring
              (fun x => pos_in (node_dc nodes x) (dcs_of nodes))) as [parts [E2 HF]]; try assumption; try lia.
  - exists k. exact HL.
  - rewrite E2 in E. inversion E; subst l.
    eapply Forall_impl; [|exact HF]. intros nl Hn. cbv beta in Hn.
    apply (NoDup_map_inv (fun y => pos_in y (dcs_of nodes))). rewrite map_map. exact Hn.
Qed.
