(* Recover/ProofsLists.v — list-level facts of the path model: checkpoint lookup under removal and purge,
   the victims of purgeOldCheckpoint, minl, removeN, the snapshot goroutine table, remove_orphans. *)
From Coq Require Import NArith List Bool Lia Arith.
From Coq Require Import ZifyN ZifyNat ZifyBool.
From ZV Require Import Recover.Consts Recover.Path Recover.ProofsWal.
Import ListNotations.
Open Scope N_scope.

(* ---------- lookup / remove_ckpt ---------- *)

Lemma lookup_remove_ckpt_ne : forall i j cks, i <> j -> lookup i (remove_ckpt j cks) = lookup i cks.
Proof.
  intros i j cks H. unfold remove_ckpt.
  induction cks as [|[k l] t IH]; [reflexivity|].
  cbn [filter fst lookup].
  destruct (N.eqb_spec j k) as [E|E]; cbn [negb].
  - subst k. destruct (N.eqb_spec i j) as [E2|_]; [contradiction|]. exact IH.
  - cbn [lookup]. rewrite IH. reflexivity.
Qed.

Lemma lookup_remove_ckpt_eq : forall j cks, lookup j (remove_ckpt j cks) = None.
Proof.
  intros j cks. unfold remove_ckpt.
  induction cks as [|[k l] t IH]; [reflexivity|].
  cbn [filter fst].
  destruct (N.eqb_spec j k) as [E|E]; cbn [negb].
  - exact IH.
  - cbn [lookup]. destruct (N.eqb_spec j k) as [E2|_]; [contradiction|]. exact IH.
Qed.

(* ---------- sortN ---------- *)

Fixpoint ascN (l : list N) : Prop :=
  match l with
  | [] => True
  | x :: t => (forall y, In y t -> x <= y) /\ ascN t
  end.

Lemma insert_sorted_In : forall x l y, In y (insert_sorted x l) <-> y = x \/ In y l.
Proof.
  intros x l y. induction l as [|a t IH]; cbn [insert_sorted].
  - simpl. intuition.
  - destruct (x <=? a).
    + simpl. intuition.
    + cbn [In]. rewrite IH. intuition.
Qed.

Lemma insert_sorted_ascN : forall x l, ascN l -> ascN (insert_sorted x l).
Proof.
  intros x l. induction l as [|a t IH]; intros H; cbn [insert_sorted].
  - simpl. split; [intros y []|exact I].
  - destruct H as [Ha Ht]. destruct (N.leb_spec x a) as [L|L].
    + cbn [ascN]. split; [|split; assumption].
      intros y [<-|Hy]; [exact L|]. specialize (Ha y Hy). lia.
    + cbn [ascN]. split; [|apply IH; exact Ht].
      intros y Hy. apply insert_sorted_In in Hy. destruct Hy as [->|Hy]; [lia|apply Ha; exact Hy].
Qed.

Lemma sortN_In : forall l y, In y (sortN l) <-> In y l.
Proof.
  intros l y. unfold sortN. induction l as [|a t IH]; cbn [fold_right].
  - reflexivity.
  - rewrite insert_sorted_In. cbn [In]. rewrite IH. intuition.
Qed.

Lemma sortN_ascN : forall l, ascN (sortN l).
Proof.
  unfold sortN. induction l as [|a t IH]; cbn [fold_right]; [exact I|].
  apply insert_sorted_ascN. exact IH.
Qed.

(* ---------- the victims of purgeOldCheckpoint ---------- *)

Lemma purge_victims_loop_spec : forall sorted ahead latest pre,
  ascN sorted -> sorted = pre ++ ahead ->
  forall x, In x (purge_victims_loop sorted ahead latest) -> x < latest /\ In x sorted.
Proof.
  induction sorted as [|s st IH]; intros ahead latest pre Hs Hp x Hx.
  - destruct Hx.
  - cbn [purge_victims_loop] in Hx. destruct ahead as [|a at']; [destruct Hx|].
    destruct (N.leb_spec latest a) as [L|L]; [destruct Hx|].
    destruct Hs as [Hle Hst].
    assert (Hsa : s <= a).
    { destruct pre as [|p pre']; cbn [app] in Hp.
      - injection Hp as -> _. lia.
      - injection Hp as _ Hp. apply Hle. rewrite Hp. apply in_or_app. right. left. reflexivity. }
    destruct Hx as [<-|Hx].
    + split; [lia|left; reflexivity].
    + assert (Hp' : exists pre', st = pre' ++ at').
      { destruct pre as [|p pre']; cbn [app] in Hp.
        - injection Hp as _ ->. exists []. reflexivity.
        - injection Hp as _ Hp. exists (pre' ++ [a]). rewrite <- app_assoc. exact Hp. }
      destruct Hp' as [pre' Hp'].
      destruct (IH at' latest pre' Hst Hp' x Hx) as [H1 H2].
      split; [exact H1|right; exact H2].
Qed.

Lemma purge_victims_spec : forall keep latest keys x,
  In x (purge_victims keep latest keys) -> x < latest /\ In x keys.
Proof.
  intros keep latest keys x Hx. unfold purge_victims in Hx.
  destruct (purge_victims_loop_spec (sortN keys) (skipn keep (sortN keys)) latest (firstn keep (sortN keys))
              (sortN_ascN keys) (eq_sym (firstn_skipn keep (sortN keys))) x Hx) as [H1 H2].
  split; [exact H1|]. apply sortN_In. exact H2.
Qed.

Lemma purge_victims_lt : forall keep latest keys x, In x (purge_victims keep latest keys) -> x < latest.
Proof. intros keep latest keys x H. apply (purge_victims_spec keep latest keys x H). Qed.

Lemma purge_victims_in : forall keep latest keys x, In x (purge_victims keep latest keys) -> In x keys.
Proof. intros keep latest keys x H. apply (purge_victims_spec keep latest keys x H). Qed.

(* ---------- lookup / purge_ckpts ---------- *)

Lemma lookup_filter_keys_out : forall (v : list N) (cks : list (N * option (list N))) i,
  ~ In i v -> lookup i (filter (fun p => negb (memN (fst p) v)) cks) = lookup i cks.
Proof.
  intros v cks i H. induction cks as [|[k l] t IH]; [reflexivity|].
  cbn [filter fst]. destruct (memN k v) eqn:M; cbn [negb].
  - apply memN_In in M. cbn [lookup].
    destruct (N.eqb_spec i k) as [E|_]; [subst k; contradiction|]. exact IH.
  - cbn [lookup]. rewrite IH. reflexivity.
Qed.

Lemma lookup_filter_keys_in : forall (v : list N) (cks : list (N * option (list N))) i,
  In i v -> lookup i (filter (fun p => negb (memN (fst p) v)) cks) = None.
Proof.
  intros v cks i H. induction cks as [|[k l] t IH]; [reflexivity|].
  cbn [filter fst]. destruct (memN k v) eqn:M; cbn [negb].
  - exact IH.
  - cbn [lookup]. destruct (N.eqb_spec i k) as [E|_]; [|exact IH].
    subst k. apply memN_In in H. congruence.
Qed.

Lemma lookup_purge_ckpts : forall keep lat cks i,
  ~ In i (purge_victims keep lat (map fst cks)) -> lookup i (purge_ckpts keep lat cks) = lookup i cks.
Proof. intros keep lat cks i H. unfold purge_ckpts. apply lookup_filter_keys_out. exact H. Qed.

Lemma lookup_purge_ckpts_some : forall keep lat cks i l,
  lookup i (purge_ckpts keep lat cks) = Some l -> lookup i cks = Some l.
Proof.
  intros keep lat cks i l H.
  destruct (memN i (purge_victims keep lat (map fst cks))) eqn:M.
  - apply memN_In in M. unfold purge_ckpts in H. rewrite lookup_filter_keys_in in H by exact M. discriminate.
  - rewrite <- lookup_purge_ckpts with (keep := keep) (lat := lat); [exact H|].
    intros C. apply memN_In in C. congruence.
Qed.

Lemma purge_next_spec : forall keep lat cks x, purge_next keep lat cks = Some x -> x < lat /\ In x (map fst cks).
Proof.
  intros keep lat cks x H. unfold purge_next in H.
  destruct (purge_victims keep lat (map fst cks)) as [|y t] eqn:E; [discriminate|].
  injection H as ->.
  apply (purge_victims_spec keep lat (map fst cks) x). rewrite E. left. reflexivity.
Qed.

(* ---------- minl ---------- *)

Lemma fold_min_some : forall l a,
  exists b, fold_left (fun acc x => match acc with None => Some x | Some m => Some (N.min m x) end) l (Some a) = Some b
            /\ b <= a /\ (forall y, In y l -> b <= y) /\ (b = a \/ In b l).
Proof.
  induction l as [|x l IH]; intros a.
  - exists a. simpl. split; [reflexivity|]. split; [lia|]. split; [intros y []|left; reflexivity].
  - cbn [fold_left]. destruct (IH (N.min a x)) as [b [F [L [B D]]]].
    exists b. split; [exact F|]. split; [lia|]. split.
    + intros y [<-|Hy]; [lia | auto].
    + destruct D as [->|D]; [|right; right; exact D].
      destruct (N.min_spec a x) as [[_ ->]|[_ ->]]; [left; reflexivity | right; left; reflexivity].
Qed.

Lemma minl_spec : forall l m, minl l = Some m -> In m l /\ (forall x, In x l -> m <= x).
Proof.
  intros l m H. destruct l as [|a l]; [discriminate|].
  unfold minl in H. cbn [fold_left] in H.
  destruct (fold_min_some l a) as [b [F [L [B D]]]]. rewrite F in H. injection H as <-.
  split.
  - destruct D as [->|D]; [left; reflexivity|right; exact D].
  - intros x [<-|Hx]; [exact L|apply B; exact Hx].
Qed.

Lemma minl_none : forall l, minl l = None -> l = [].
Proof.
  intros l H. destruct l as [|a l]; [reflexivity|].
  unfold minl in H. cbn [fold_left] in H.
  destruct (fold_min_some l a) as [b [F _]]. rewrite F in H. discriminate.
Qed.

Lemma min_two_above : forall l m, NoDup l -> (3 <= length l)%nat -> minl l = Some m ->
  exists a b, In a l /\ In b l /\ a <> b /\ m < a /\ m < b.
Proof.
  intros l m Hnd Hlen Hm. apply minl_spec in Hm. destruct Hm as [_ Hmin].
  destruct l as [|x [|y [|z t]]]; cbn [length] in Hlen; try lia.
  assert (Hxy : x <> y).
  { intros ->. inversion Hnd as [|? ? N1 _]. apply N1. left. reflexivity. }
  assert (Hxz : x <> z).
  { intros ->. inversion Hnd as [|? ? N1 _]. apply N1. right. left. reflexivity. }
  assert (Hyz : y <> z).
  { intros ->. inversion Hnd as [|? ? _ N2]. inversion N2 as [|? ? N3 _]. apply N3. left. reflexivity. }
  assert (Ix : In x (x :: y :: z :: t)) by (left; reflexivity).
  assert (Iy : In y (x :: y :: z :: t)) by (right; left; reflexivity).
  assert (Iz : In z (x :: y :: z :: t)) by (right; right; left; reflexivity).
  pose proof (Hmin x Ix) as Lx. pose proof (Hmin y Iy) as Ly. pose proof (Hmin z Iz) as Lz.
  destruct (N.eq_dec x m) as [Ex|Ex].
  - exists y, z. repeat split; try assumption; lia.
  - destruct (N.eq_dec y m) as [Ey|Ey].
    + exists x, z. repeat split; try assumption; lia.
    + exists x, y. repeat split; try assumption; lia.
Qed.

(* ---------- removeN ---------- *)

Lemma removeN_In : forall x y l, In x (removeN y l) <-> In x l /\ x <> y.
Proof.
  intros x y l. unfold removeN. rewrite filter_In.
  destruct (N.eqb_spec y x) as [E|E]; cbn [negb].
  - split; [intros [_ H]; discriminate|intros [_ H]; congruence].
  - split; [intros [H _]; split; [exact H|congruence]|intros [H _]; split; [exact H|reflexivity]].
Qed.

Lemma removeN_NoDup : forall y l, NoDup l -> NoDup (removeN y l).
Proof. intros y l H. unfold removeN. apply NoDup_filter. exact H. Qed.

Lemma cons_removeN_NoDup : forall i l, NoDup l -> NoDup (i :: removeN i l).
Proof.
  intros i l H. constructor.
  - intros C. apply removeN_In in C. destruct C as [_ C]. congruence.
  - apply removeN_NoDup. exact H.
Qed.

(* ---------- the snapshot goroutine table ---------- *)

Lemma sn_lookup_remove_eq : forall i l, sn_lookup i (sn_remove i l) = None.
Proof.
  intros i l. unfold sn_remove. induction l as [|[k p] t IH]; [reflexivity|].
  cbn [filter fst]. destruct (N.eqb_spec i k) as [E|E]; cbn [negb].
  - exact IH.
  - cbn [sn_lookup]. destruct (N.eqb_spec i k) as [E2|_]; [contradiction|]. exact IH.
Qed.

Lemma sn_lookup_remove_ne : forall i j l, i <> j -> sn_lookup i (sn_remove j l) = sn_lookup i l.
Proof.
  intros i j l H. unfold sn_remove. induction l as [|[k p] t IH]; [reflexivity|].
  cbn [filter fst sn_lookup]. destruct (N.eqb_spec j k) as [E|E]; cbn [negb].
  - subst k. destruct (N.eqb_spec i j) as [E2|_]; [contradiction|]. exact IH.
  - cbn [sn_lookup]. rewrite IH. reflexivity.
Qed.

Lemma sn_lookup_set_eq : forall i p l, sn_lookup i (sn_set i p l) = Some p.
Proof. intros i p l. unfold sn_set. cbn [sn_lookup]. rewrite N.eqb_refl. reflexivity. Qed.

Lemma sn_lookup_set_ne : forall i j p l, i <> j -> sn_lookup i (sn_set j p l) = sn_lookup i l.
Proof.
  intros i j p l H. unfold sn_set. cbn [sn_lookup].
  destruct (N.eqb_spec i j) as [E|_]; [contradiction|]. apply sn_lookup_remove_ne. exact H.
Qed.

(* ---------- remove_orphans / valid_markers ---------- *)

Lemma remove_orphans_In : forall ss sf ch f, In f (remove_orphans ss sf ch) ->
  In f sf /\ (In f (valid_markers ss) \/ exists c, ch = Some c /\ f <= c).
Proof.
  intros ss sf ch f H. unfold remove_orphans in H. apply filter_In in H. destruct H as [H1 H2].
  split; [exact H1|]. apply orb_true_iff in H2. destruct H2 as [H2|H2].
  - left. apply memN_In. exact H2.
  - right. destruct ch as [c|]; [|discriminate]. exists c. split; [reflexivity|].
    apply N.leb_le. exact H2.
Qed.

Lemma remove_orphans_keeps : forall ss sf c, In c sf -> In c (remove_orphans ss sf (Some c)).
Proof.
  intros ss sf c H. unfold remove_orphans. apply filter_In. split; [exact H|].
  apply orb_true_iff. right. apply N.leb_le. apply N.le_refl.
Qed.

Lemma remove_orphans_NoDup : forall ss sf ch, NoDup sf -> NoDup (remove_orphans ss sf ch).
Proof. intros ss sf ch H. unfold remove_orphans. apply NoDup_filter. exact H. Qed.

Lemma valid_markers_sub : forall ss i, In i (valid_markers ss) -> In i (markers (all_recs ss)).
Proof. intros ss i H. unfold valid_markers in H. apply filter_In in H. apply H. Qed.
