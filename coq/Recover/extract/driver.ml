(* driver for the C06 path model: acceptor of crash-point event logs.
   stdin: one line per data directory
     <id> \t D \t <keep_wal>,<keep_backup>,<optfsync 0|1> \t <run> | <run> | ...
   a run is the event log of one process life followed by the directory listing found after its death:
     <event>;<event>;...@@<wal name indices>/<snap files>/<checkpoints>      an event is "name arg arg ...".
   At the end of a life every goroutine may have completed one more persistent sub-step than it logged and
   buffered WAL records may or may not have reached the file: the acceptor takes the first such completion
   under which the listing matches and the events of the next start are accepted.
   stdout: <id> \t <result of run 0> | <result of run 1> | ...
     result = ok:<#events> L=<wal firsts>/<snap files>/<checkpoints> rec=<index served after a restart from here>
            | rej:<position>:<code>:<event> *)
open Model
open Vio

let n = n_of_dec
let ints l = String.concat "," (List.map dec_of_n l)
let sorted l = List.sort compare (List.map int_of_n l) |> List.map string_of_int |> String.concat ","

(* WAL.state's term and vote as the driver follows them (the model only needs "changed") *)
let wterm = ref 0 and wvote = ref 0

exception Skip
exception Unsupported of string

let event_of (line : string) : event option =
  match String.split_on_char ' ' (String.trim line) with
  | "rd.begin" :: a ->
    (match List.map int_of_string a with
     | [nn; first; last; term; vote; commit; cn; cfirst; clast; st; si] ->
       let hs = not (term = 0 && vote = 0 && commit = 0) in
       let tv = hs && (term <> !wterm || vote <> !wvote) in
       if hs then (wterm := term; wvote := vote);
       Some (EvRdBegin { r_n = n_of_int nn; r_first = n_of_int first; r_last = n_of_int last; r_hs = hs; r_tv = tv;
                         r_commit = n_of_int commit; r_cn = n_of_int cn; r_cfirst = n_of_int cfirst; r_clast = n_of_int clast;
                         r_snap = n_of_int si })
     | _ -> raise (Unsupported line))
  | "rd.walsave.before" :: _ -> Some EvRdSaveBefore
  | "rd.walsave.after" :: _ -> Some EvRdSaveAfter
  | ["wl.cut.rename.before"; i] -> Some (EvCutBefore (n i))
  | ["wl.cut.after"; i] -> Some (EvCutAfter (n i))
  | ["rd.publish.before"; c; l; si] -> Some (EvRdPublish (n c, n l, n si))
  | "rd.append.after" :: _ -> Some EvRdAppendAfter
  | ["rd.advance.before"] -> Some EvRdAdvance
  | ["ap.apply.before"; a; c; si] -> Some (EvApBefore (n a, n c, n si))
  | ["ap.apply.after"; a] -> Some (EvApAfter (n a))
  | ["ap.raftdone.after"; a] -> Some (EvApRaftDone (n a))
  | ["ap.trigger.before"; a; s] -> Some (EvApTriggerBefore (n a, n s))
  | ["ap.trigger.after"; a; s] -> Some (EvApTriggerAfter (n a, n s))
  | "ck.cacheflush.after" :: _ -> Some EvCkFlush
  | ["ck.save.before"] -> Some EvCkSaveBefore
  | ["ck.save.after"] -> Some EvCkSaveAfter
  | "ck.purge.before" :: _ -> Some EvCkPurgeBefore
  | "ck.purge.after" :: _ -> Some EvCkPurgeAfter
  | ["sn.ckpt.started"; _; i] -> Some (EvSnStarted (n i))
  | ["sn.ckpt.done"; _; i] -> Some (EvSnCkDone (n i))
  | ["sn.create.after"; _; i] -> Some (EvSnCreated (n i))
  | ["ps.snapfile.after"; _; i] -> Some (EvSnFile (n i))
  | ["sn.savesnap.after"; _; i] -> Some (EvSnMarked (n i))
  | ["sn.sync.after"; _; i] -> Some (EvSnSynced (n i))
  | ["sn.release.after"; _; i] -> Some (EvSnReleased (n i))
  | ["sn.updstate.after"; _; i] -> Some (EvSnUpdated (n i))
  | ["sn.compact.after"; i; _] -> Some (EvSnCompacted (n i))
  | ["pg.remove.before"; k] -> Some (EvPgBefore (n k))
  | ["pg.remove.after"; k] -> Some (EvPgAfter (n k))
  | ["rc.snap.chosen"; _; i] -> Some (EvRcChosen (n i))
  | ["rc.snap.none"] -> Some EvRcNone
  | ["rs.remove.after"; _; i] -> Some (EvRsRemoved (n i))
  | ["rs.copy.after"; _; i] -> Some (EvRsCopied (n i))
  | ["rc.restore.after"; _; i] -> Some (EvRcRestored (n i))
  | ["rc.replay.after"; c; l; cm] -> Some (EvRcReplay (n c, n l, n cm))
  | ["fs.local.ok"; _; i] -> Some (EvFsLocalOk (n i))
  | ["fs.mark.after"; _; i] -> Some (EvFsMark (n i))
  | ["fs.copy.after"; _; i] -> Some (EvFsCopy (n i))
  | ["fs.complete.after"; _; i] -> Some (EvFsComplete (n i))
  | ["as.prepare.after"; _; i] -> Some (EvAsPrepared (n i))
  | ["as.raftdone.after"; _; i] -> Some (EvAsRaftDone (n i))
  | ["as.restore.after"; _; i] -> Some (EvAsRestored (n i))
  | ["rd.savesnap.before"; _; i] -> Some (EvRdSaveSnapBefore (n i))
  | ["rd.savesnap.after"; _; i] -> Some (EvRdSaveSnapAfter (n i))
  | ["rd.applysnap.before"; _; i] -> Some (EvRdApplySnapBefore (n i))
  | ["rd.applysnap.after"; _; i] -> Some (EvRdApplySnapAfter (n i))
  | ["rd.release.after"; _; i] -> Some (EvRdReleaseAfter (n i))
  | "KILL" :: _ | "ARM" :: _ | [""] | [] -> None
  | _ -> raise (Unsupported line)

let is_rc (txt : string) = String.length txt > 3 && (String.sub txt 0 3 = "rc." || String.sub txt 0 3 = "rs.")

let csv l = String.concat "," (List.map string_of_int l)
let isort l = List.sort_uniq compare l

(* listing of a model state as three sorted int lists *)
let listing_of (s : state) : int list * int list * int list =
  let ((w, sf), ck) = listing s in
  (List.map int_of_n w, isort (List.map int_of_n sf), isort (List.map int_of_n ck))

let listing_str (w, sf, ck) = Printf.sprintf "%s/%s/%s" (csv w) (csv sf) (if ck = [-1] then "~" else csv ck)

(* a checkpoint part "~" means: not compared (a stale .tmp checkpoint directory is around) *)
let parse_listing (t : string) : (int list * int list * int list) option =
  let l x = if x = "" then [] else List.map int_of_string (String.split_on_char ',' x) in
  match String.split_on_char '/' t with
  | [w; sf; "~"] -> Some (l w, isort (l sf), [-1])
  | [w; sf; ck] -> Some (l w, isort (l sf), isort (l ck))
  | _ -> None

let listing_matches (s : state) (real : (int list * int list * int list) option) : bool =
  match real with
  | None -> true
  | Some (rw, rs, rc) -> let (w, sf, ck) = listing_of s in w = rw && sf = rs && (rc = [-1] || ck = rc)

(* run the events of one process life; returns the final state or the rejection.
   A goroutine logs a sub-step after performing it, so another goroutine can observe the effect and log its
   own event first: when an event is not enabled, it is retried after one in-flight sub-step of another
   goroutine (its own log line, arriving later, is then skipped). *)
let max_window = ref 0 and races = ref 0 and max_window_at_purge = ref (-1) and snap_purges = ref 0 and sched_false = ref 0
let note_state (s : state) =
  let w = List.length (List.filter (fun (_, p) -> p = SnFile) s.sns) in
  if w > !max_window then max_window := w

let run_events (c : config) (s : state) (evs : (string * event) list) : (state, int * int * string) Stdlib.result =
  let rec remove_first x = function [] -> [] | y :: t -> if x = y then t else y :: remove_first x t in
  let rec go s pend pos = function
    | [] -> Stdlib.Ok s
    | (txt, e0) :: t ->
      (* SaveSnap logs ps.snapfile.after for a local snapshot goroutine and for the raft loop (incoming snapshot) alike *)
      let e = (match e0, s.rdp with
               | EvSnFile i, RdSnapSaving (r, false) when r.r_snap = i -> EvRdSnapFile i
               | EvSnFile i, _ when List.mem (EvRdSnapFile i) pend -> EvRdSnapFile i
               | _ -> e0) in
      if List.mem e pend then go s (remove_first e pend) (pos + 1) t
      else begin
        (* the schedule hypothesis of the theorems is evaluated on the real run: a log on which it is false is rejected *)
        if not (sched_holds c s e) then (incr sched_false; Stdlib.Error (pos, 106, txt)) else
        (match step c s e with
         | Ok s' ->
           (match e with
            | EvPgBefore k when int_of_n k = 4 ->
              let w = List.length (List.filter (fun (_, p) -> p = SnFile) s.sns) in
              incr snap_purges; if w > !max_window_at_purge then max_window_at_purge := w
            | _ -> ());
           note_state s'; go s' pend (pos + 1) t
         | Err code ->
           let rec try_inflight = function
             | [] -> Stdlib.Error (pos, int_of_n code, txt)
             | x :: xs ->
               (match step c s x with
                | Ok s1 when not (sched_holds c s1 e) -> incr sched_false; try_inflight xs
                | Ok s1 ->
                  (match step c s1 e with
                   | Ok s2 ->
                     incr races;
                     (match go s2 (x :: pend) (pos + 1) t with
                      | Stdlib.Ok r -> Stdlib.Ok r
                      | Stdlib.Error _ as err -> (match try_inflight xs with Stdlib.Ok r -> Stdlib.Ok r | Stdlib.Error _ -> err))
                   | Err _ -> try_inflight xs)
                | Err _ -> try_inflight xs) in
           (* wal.ReleaseLockTo is logged after it has acted (sn.release.after, rd.release.after): the WAL purger may remove a
              segment it released before the log line is written. Not a persistent mutation (not in [inflight]), but it
              enables the purge: completed here like the other in-flight sub-steps *)
           let releases = List.filter_map (fun (i, p) -> if p = SnSynced then Some (EvSnReleased i) else None) s.sns
                          @ (match s.rdp with RdSnapApply (r, S O) -> [EvRdReleaseAfter r.r_snap] | _ -> []) in
           try_inflight (List.filter (fun x -> match x with EvCkPartial | EvRcChosen _ | EvRcNone | EvRcRestored _ -> false | _ -> true) (inflight s @ releases)))
      end in
  go s [] 0 evs

(* all states reachable by completing a subset of the in-flight sub-steps (fewest completions first) *)
let completions (c : config) (s : state) (real : (int list * int list * int list) option) : state list =
  (* a checkpoint directory that is being copied from another replica (prepareSnapshotForStore, possibly in the
     transport's receive goroutine that has logged nothing yet) shows in the listing before fs.copy.after is logged *)
  let fetching = (match real with
                  | Some (_, _, ck) when ck <> [-1] ->
                    let (_, _, mck) = listing_of s in
                    List.filter_map (fun i -> if i > 0 && not (List.mem i mck) then Some (EvFsCopy (n_of_int i)) else None) ck
                  | _ -> []) in
  let evs = inflight s @ fetching in
  let rec subsets = function
    | [] -> [[]]
    | x :: t -> let r = subsets t in r @ List.map (fun l -> x :: l) r in
  let subs = List.sort (fun a b -> compare (List.length a) (List.length b)) (subsets evs) in
  List.filter_map (fun sub ->
    let rec app s = function
      | [] -> Some s
      | e :: t -> (match step c s e with Ok s' -> app s' t | Err _ -> None) in
    app s sub) subs

let save_len (s : state) : int =
  match s.rdp with
  | RdSaving (r, _, false) -> List.length (ready_records r)
  | _ -> 0

let isolated = ref false
let rec_str (s : state) (j : int) (extra : int) : string =
  match (if !isolated then recover_state_isolated else recover_state) s (nat_of_int j) (nat_of_int extra) with
  | Ok l -> string_of_int (List.length l)
  | Err e -> "err" ^ dec_of_n e

type life = { evs : (string * event) list; real : (int list * int list * int list) option; nraw : int }

let parse_life (first : bool) (r : string) : life =
  let (evpart, lpart) = (match Str.bounded_split_delim (Str.regexp_string "@@") r 2 with
                         | [a; b] -> (a, Some b) | [a] -> (a, None) | _ -> ("", None)) in
  let evl = List.filter (fun x -> String.trim x <> "") (split_on ';' evpart) in
  if not first then (wterm := 0; wvote := 0);
  let evs = List.filter_map (fun l -> match event_of l with Some e -> Some (String.trim l, e) | None -> None) evl in
  let n = List.length evs in
  (* a later life that does not begin with the restart events took the "wal without raft state" path *)
  let evs = (match evs with
             | (txt, _) :: _ when (not first) && not (is_rc txt) -> ("rc.fresh", EvRcFresh) :: evs
             | _ -> evs) in
  { evs = evs; real = (match lpart with Some t -> parse_listing (String.trim t) | None -> None); nraw = n }

let () =
  read_lines stdin (fun line ->
    match split_on '\t' line with
    | id :: kind :: cfg :: runs :: _ when kind = "D" || kind = "F" ->
      isolated := (kind = "F");
      let c = (match split_on ',' cfg with
               | [kw; kb; o] -> { keep_wal = nat_of_int (int_of_string kw); keep_backup = nat_of_int (int_of_string kb); opt_fsync = (o = "1"); persist_first = true; clean_orphans = true; flush_first = true }
               | _ -> failwith "bad config") in
      let raw = Str.split_delim (Str.regexp_string " | ") runs in
      let out = ref [] in
      let emit x = out := x :: !out in
      (try
        let lives = List.mapi (fun i r -> parse_life (i = 0) r) raw in
        (* depth-first search over the unobservable choices made at every death (completed in-flight sub-steps,
           lost buffered records, partially written save): a choice is kept when the listing matches and all
           later lives are accepted; otherwise the first choice's outcome is reported *)
        let budget = ref 20000 in
        let rec go (s0 : state) (ls : life list) : string list * bool =
          match ls with
          | [] -> ([], true)
          | l :: rest ->
            (match run_events c s0 l.evs with
             | Stdlib.Error (pos, code, txt) ->
               (Printf.sprintf "rej:%d:%d:%s" pos code txt :: List.map (fun _ -> "skipped") rest, false)
             | Stdlib.Ok s ->
               let cands = completions c s l.real in
               let best = ref None in
               let found = ref None in
               List.iter (fun cand ->
                 if !found = None && !budget > 0 then begin
                   let uf = int_of_nat cand.unflushed and sl = save_len cand in
                   let tries = List.init (uf + 1) (fun j -> (j, 0)) @ List.init sl (fun k -> (0, k + 1)) in
                   List.iter (fun (j, extra) ->
                     if !found = None && !budget > 0 then begin
                       decr budget;
                       match step c cand (EvCrash (nat_of_int j, nat_of_int extra)) with
                       | Err _ -> ()
                       | Ok s1 ->
                         let shown = (let (w, sf, ck) = listing_of cand in
                                      match l.real with Some (_, _, [-1]) -> (w, sf, [-1]) | _ -> (w, sf, ck)) in
                         let here = Printf.sprintf "ok:%d L=%s rec=%s" l.nraw (listing_str shown) (rec_str cand j extra) in
                         let lm = listing_matches cand l.real in
                         let (outs, ok) = go s1 rest in
                         if ok && lm then found := Some (here :: outs)
                         else begin
                           (* prefer: longest accepted continuation, then a matching listing *)
                           (* a continuation that leaves the model (reason 107) is reported rather than a guess that is rejected *)
                           let leaves = List.exists (fun o -> try ignore (Str.search_forward (Str.regexp_string ":107:") o 0); true with Not_found -> false) outs in
                           let score = (if leaves then 1000 else 0) + (List.length (List.filter (fun o -> String.length o > 2 && String.sub o 0 3 = "ok:") outs)) * 2 + (if lm then 1 else 0) in
                           match !best with
                           | Some (sc, _) when sc >= score -> ()
                           | _ -> best := Some (score, here :: outs)
                         end
                     end) tries
                 end) cands;
               (match !found, !best with
                | Some o, _ -> (o, true)
                | None, Some (_, o) -> (o, false)
                | None, None -> (Printf.sprintf "rej:crash" :: List.map (fun _ -> "skipped") rest, false))) in
        let (outs, _) = go init_state lives in
        List.iter emit outs
      with Unsupported m -> emit ("unsupported:" ^ m));
      Printf.printf "%s\t%s\n" id (String.concat " | " (List.rev !out))
    | _ -> ())
  ;
  (let oc = open_out "model.stats" in
   Printf.fprintf oc "max_window %d\nlog_order_races %d\nmax_window_at_snap_purge %d\nsnap_purge_decisions %d\nsched_hypothesis_false %d\n" !max_window !races !max_window_at_purge !snap_purges !sched_false; close_out oc)
