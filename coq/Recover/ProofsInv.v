(* Recover/ProofsInv.v — the invariant of the C06 path model over all interleavings and crash points,
   and its preservation by every step. *)
From Coq Require Import NArith List Bool Lia Arith.
From Coq Require Import ZifyN ZifyNat ZifyBool.
From ZV Require Import Recover.Consts Recover.Path Recover.ProofsWal Recover.ProofsLists.
Import ListNotations.
Open Scope N_scope.

Arguments N.add : simpl never.
Arguments N.sub : simpl never.
Arguments N.max : simpl never.
Arguments N.to_nat : simpl never.

(* ---------- inversion of a step ---------- *)

Ltac break_head H :=
  match type of H with
  | (match ?x with _ => _ end) = _ => let E := fresh "E" in destruct x eqn:E
  | (if ?x then _ else _) = _ => let E := fresh "E" in destruct x eqn:E
  end.

Ltac step_inv H :=
  cbv zeta in H;
  repeat (first [ discriminate H | break_head H ]);
  try discriminate H;
  try (injection H as H; subst).

(* projections of updated states *)
Ltac proj := cbn [segs unflushed unsynced snapfiles ckpts engine cache restoring rc nrel wstate wcommit hcommit latest rdp rdseq rd_done
                  rs_last published queue app applied snapi sns ckp pg_wal pg_snap acked proposed
                  set_segs set_unflushed set_unsynced set_snapfiles set_ckpts set_engine set_cache set_restoring set_rc set_nrel set_wstate set_wcommit
                  set_hcommit set_latest set_rdp set_rdseq set_rd_done set_rs_last set_published set_queue set_app set_applied
                  set_snapi set_sns set_ckp set_pg_wal set_pg_snap set_acked set_proposed reset_volatile save_records] in *.

(* ---------- the newest marker ---------- *)

Definition maxN (l : list N) : N := fold_right N.max 0 l.
Definition newest (ss : list seg) : N := maxN (markers (all_recs ss)).

Lemma maxN_ge : forall l x, In x l -> x <= maxN l.
Proof. induction l; simpl; intros x H; [destruct H|]. destruct H as [<-|H]; [lia|]. apply IHl in H. lia. Qed.

Lemma maxN_in : forall l, l <> [] -> In (maxN l) l \/ (maxN l = 0).
Proof.
  induction l; intros H; [congruence|]. simpl.
  destruct l as [|b l'].
  - simpl. left. left. lia.
  - destruct (IHl ltac:(congruence)) as [Hi|Hz].
    + destruct (N.max_spec a (maxN (b :: l'))) as [[_ ->]|[_ ->]]; [left; right; exact Hi | left; left; reflexivity].
    + rewrite Hz. left. left. lia.
Qed.

Lemma maxN_app : forall a b, maxN (a ++ b) = N.max (maxN a) (maxN b).
Proof. induction a; simpl; intros; [lia|]. rewrite IHa. lia. Qed.

Lemma newest_ge : forall ss i, In i (markers (all_recs ss)) -> i <= newest ss.
Proof. intros. apply maxN_ge. exact H. Qed.

(* ---------- the invariant ---------- *)

Definition hd_first (ss : list seg) : N := sfirst (hd (mkSeg 0 []) ss).

(* persistent part: holds in every state, also between a crash and the end of the restart *)
Record PInv (s : state) (hi : N) : Prop := {
  p_chain : seg_chain (lo_of (segs s)) (segs s) hi;
  p_acked : acked s <= hi;
  p_prop : hi <= proposed s;
  (* the buffered records are hard states at the end of the tail segment; a segment that is not the first
     one begins with a (flushed) hard state *)
  p_tail : exists pre sl body tl, segs s = pre ++ [sl] /\ srecs sl = body ++ tl /\ length tl = unflushed s
             /\ forallb is_state tl = true /\ (pre <> [] -> exists c b', body = RState c :: b');
  p_heads : forall pre x post, segs s = pre ++ x :: post -> pre <> [] -> exists c rest, srecs x = RState c :: rest;
  (* the newest snapshot marker is valid in every crash image, sits in a live segment, the live segments do
     not start after it, and it has its snap file and its checkpoint *)
  p_commit : forall j, (j <= unflushed s)%nat -> newest (segs s) <= last_commit (all_recs (drop_tail (segs s) j));
  p_new_in : In (newest (segs s)) (markers (all_recs (segs s)));
  p_first : hd_first (segs s) <= newest (segs s);
  p_file : 0 < newest (segs s) ->
           In (newest (segs s)) (snapfiles s) /\ lookup (newest (segs s)) (ckpts s) = Some (range 0 (newest (segs s)));
  p_nozero : ~ In 0 (snapfiles s);
  p_nodup : NoDup (snapfiles s);
  p_files_le : forall f, In f (snapfiles s) -> f <= hi;
  p_ckpts : forall i l, lookup i (ckpts s) = Some l -> l = range 0 i;
  (* the WAL holds no record of an incoming snapshot (runs of a replica that never gets one: [local_only]) *)
  p_local : local_recs (all_recs (segs s))
}.

Definition rlast (s : state) (r : ready) : N := if 0 <? r_n r then r_last r else rs_last s.

(* the raft loop: where the Ready being processed stands *)
Definition pubcl (s : state) (r : ready) (p : bool) (lc : N) : Prop :=
  if p then (if 0 <? r_cn r then published s = r_clast r else published s <= lc)
  else published s <= lc /\ (0 < r_cn r -> published s <= r_clast r).

Definition rd_inv (s : state) (hi : N) : Prop :=
  let lc := last_commit (all_recs (segs s)) in
  let facts r := (0 < r_n r -> r_first r = rs_last s + 1 /\ r_last r + 1 = r_first r + r_n r /\ r_last r <= proposed s)
                 /\ (0 < r_cn r -> r_clast r <= rlast s r) /\ r_snap r = 0 in
  let unsaved r := hi = rs_last s
                   /\ (0 < r_n r -> wstate s = true \/ r_hs r = true)
                   /\ (r_hs r = true -> lc <= r_commit r /\ r_commit r <= rlast s r)
                   /\ (0 < r_cn r -> r_clast r <= (if r_hs r then r_commit r else hcommit s)) in
  let saved r := hi = rlast s r /\ (0 < r_cn r -> r_clast r <= lc) in
  match rdp s with
  | RdIdle => hi = rs_last s /\ published s <= lc
  | RdBegun r false p => facts r /\ unsaved r /\ pubcl s r p lc /\ (p = true -> overlap r = false)
  | RdSaving r p false => facts r /\ unsaved r /\ pubcl s r p lc /\ (p = true -> overlap r = false)
  | RdBegun r true p => facts r /\ saved r /\ published s <= lc /\ pubcl s r p lc
  | RdSaving r p true => facts r /\ saved r /\ wstate s = true /\ pubcl s r p lc
  | RdCutting r p idx => facts r /\ saved r /\ idx = hi + 1 /\ unflushed s = 0%nat /\ wstate s = true /\ pubcl s r p lc
  | RdAppended r => hi = rs_last s /\ published s <= lc
  | RdSnapSaving _ _ | RdSnapSaved _ | RdSnapApply _ _ => False
  end.

Definition sn_before_marker (p : sn_pc) : bool :=
  match p with SnStarted | SnCkDone | SnCreated | SnFile => true | _ => false end.

(* volatile part: holds while the node runs *)
Record VInv (c : config) (s : state) (hi : N) : Prop := {
  v_rd : rd_inv s hi;
  v_pub : published s <= hi;
  v_nrel : (nrel s < length (segs s))%nat /\ sfirst (nth (nrel s) (segs s) (mkSeg 0 [])) <= newest (segs s);
  v_latest : latest s <= newest (segs s) /\ (forall lat, ckp s = CkPurging lat -> lat <= newest (segs s));
  v_wstate : (wstate s = true -> wcommit s = last_commit (all_recs (segs s)))
             /\ hcommit s <= last_commit (all_recs (segs s));
  v_done : rd_done s <= last_commit (all_recs (segs s)) /\ rd_done s <= hi /\ rd_done s <= published s;
  v_queue : Forall (fun b => (b_n b = 0 \/ b_last b <= published s) /\ b_snap b = 0) (queue s);
  v_applied : applied s <= published s;
  v_app : match app s with
          | ApIdle | ApDone | ApTrigger | ApTriggerDone => applied s <= rd_done s
          | ApFlushed => applied s <= rd_done s /\ cache s = []
          | ApTriggered i => i = applied s /\ applied s <= rd_done s /\ snapi s < applied s
          | ApApplying b => applied s <= rd_done s /\ (b_n b = 0 \/ b_last b <= published s)
          | ApApplied b => (b_n b = 0 -> applied s <= rd_done s) /\ applied s <= N.max (rd_done s) (b_last b)
          | ApSnapPrepare _ | ApSnapPrepared _ | ApSnapRestoring _ => False
          end;
  v_engine : forall l, engine s = Some l -> l = range 0 (applied s);
  v_snapi : newest (segs s) <= snapi s /\ snapi s <= applied s;
  v_sns : forall i p, sn_lookup i (sns s) = Some p ->
            0 < i /\ i <= rd_done s /\ i <= snapi s
            /\ (sn_before_marker p = true -> ~ In i (markers (all_recs (segs s))))
            /\ (newest (segs s) < i -> p <> SnStarted -> lookup i (ckpts s) = Some (range 0 i))
            /\ (newest (segs s) < i -> p = SnFile -> In i (snapfiles s))
            /\ (sn_before_marker p = false -> i <= newest (segs s));
  v_files : forall f, In f (snapfiles s) -> newest (segs s) < f -> sn_lookup f (sns s) = Some SnFile;
  v_pgsnap : forall f, pg_snap s = Some f -> f < newest (segs s);
  v_pgwal : (pg_wal s = true -> (0 < nrel s)%nat) /\ restoring s = None;
  v_ck : match ckp s with
         | CkSaving i l => l = range 0 i /\ newest (segs s) < i
                           /\ (forall k p, sn_lookup k (sns s) = Some p -> k <= i /\ (k = i -> p = SnStarted))
                           /\ lookup i (ckpts s) = None /\ (forall j, app s = ApTriggered j -> j = i)
         | _ => True
         end
}.

(* between a crash and the end of the restart *)
Definition RInv (s : state) : Prop :=
  unflushed s = 0%nat /\ rdp s = RdIdle /\ app s = ApIdle /\ sns s = [] /\ ckp s = CkIdle /\ pg_wal s = false
  /\ pg_snap s = None /\ queue s = [] /\ wstate s = false
  /\ (forall i, restoring s = Some i -> i = newest (segs s) /\ 0 < i) /\
  match rc s with
  | RcStart => latest s = 0 /\ (forall l, engine s = Some l -> l = range 0 (newest (segs s)))
  | RcChosen j => j = newest (segs s) /\ 0 < j /\ latest s = j /\ (forall f, In f (snapfiles s) -> f <= j)
                  /\ (forall l, engine s = Some l -> l = range 0 j)
  | RcRestored j => j = newest (segs s) /\ 0 < j /\ latest s = j /\ (forall f, In f (snapfiles s) -> f <= j)
                    /\ engine s = Some (range 0 j) /\ restoring s = None
  | RcNone => newest (segs s) = 0 /\ latest s = 0 /\ snapfiles s = [] /\ engine s = Some [] /\ restoring s = None
  | RcRunning => False
  end.

(* the configuration of the code as it is (both fixes in) *)
Definition fixed (c : config) : Prop := persist_first c = true /\ clean_orphans c = true /\ flush_first c = true.

(* schedule hypothesis: fewer snapshot goroutines than files the snap purge keeps are between "snap file written"
   and "WAL marker written" (the code keeps at least 2 files, so one such goroutine is always fine) *)
Definition win_count (l : list (N * sn_pc)) : nat := length (filter (fun q => sn_pc_eqb (snd q) SnFile) l).
Definition window_ok (c : config) (s : state) : Prop := (win_count (sns s) < eff_keep_snap c)%nat.

Definition Inv (c : config) (s : state) : Prop :=
  exists hi, PInv s hi /\ (if running s then VInv c s hi else RInv s).

(* ---------- frame lemmas ---------- *)

Lemma pinv_frame : forall s s' hi,
  segs s' = segs s -> unflushed s' = unflushed s -> snapfiles s' = snapfiles s -> ckpts s' = ckpts s ->
  acked s' = acked s -> proposed s' = proposed s -> PInv s hi -> PInv s' hi.
Proof.
  intros s s' hi E1 E2 E3 E4 E5 E6 [].
  constructor; rewrite ?E1, ?E2, ?E3, ?E4, ?E5, ?E6; auto.
Qed.

(* the checkpoint clause when the apply loop is not (any more) waiting for the checkpoint to start *)
Ltac ck_app v_ck0 :=
  match goal with
  | |- match ckp _ with _ => _ end =>
    let K := fresh in
    destruct (ckp _); try exact I; destruct v_ck0 as [? [? [? [? K]]]];
    split; [assumption|]; split; [assumption|]; split; [assumption|]; split; [assumption|];
    intros; try discriminate; try (apply K; congruence)
  end.

Ltac vinv_split HV := destruct HV; constructor; proj; try assumption; try exact I; try (solve [match goal with K0 : match ckp _ with _ => _ end |- _ => ck_app K0 end]);
  try (solve [match goal with E0 : ckp _ = _ |- match ckp _ with _ => _ end => rewrite E0; exact I end]).
Ltac pframe s0 := apply (pinv_frame s0); [reflexivity|reflexivity|reflexivity|reflexivity|reflexivity|reflexivity|assumption].

(* ---------- simple volatile steps ---------- *)

Lemma running_true : forall s, running s = true -> rc s = RcRunning.
Proof. intros s H. unfold running in H. destruct (rc s); try discriminate. reflexivity. Qed.

(* an event of a running program cannot fire between a crash and the end of the restart *)
Ltac not_running HV :=
  let U := fresh in destruct HV as [U HV]; decompose [and] HV;
  first [ congruence
        | match goal with Hs : sns _ = [], E0 : sn_lookup _ (sns _) = Some _ |- _ => rewrite Hs in E0; discriminate end ].

(* the program counters of an incoming snapshot are not reached by a replica that never gets one *)
Ltac rd_unreachable HV E :=
  exfalso; unfold running in HV;
  let R := fresh "R" in destruct (rc _) eqn:R; try (not_running HV);
  destruct HV; match goal with V : rd_inv _ _ |- _ => unfold rd_inv in V; rewrite E in V; try exact V; tauto end.
Ltac ap_unreachable HV E :=
  exfalso; unfold running in HV;
  let R := fresh "R" in destruct (rc _) eqn:R; try (not_running HV);
  destruct HV; match goal with V : match app _ with _ => _ end |- _ => rewrite E in V; try exact V; tauto end.

Ltac norm_guards :=
  repeat match goal with
         | G : negb _ = false |- _ => apply negb_false_iff in G
         | G : negb _ = true |- _ => apply negb_true_iff in G
         end.

Ltac start_step H hi HP HV :=
  match goal with
  | [ HI : Inv _ _ |- _ ] => destruct HI as [hi [HP HV]]
  end;
  unfold step in H; step_inv H.

Lemma step_rd_advance : forall c s s', Inv c s -> step c s EvRdAdvance = Ok s' -> Inv c s'.
Proof.
  intros c s s' HI H. start_step H hi HP HV.
  exists hi. split; [pframe s|].
  unfold running in *. proj. destruct (rc s) eqn:R; try (not_running HV).
  vinv_split HV. unfold rd_inv in *. proj. rewrite E in v_rd0. tauto.
Qed.

(* ---------- appending records to the WAL ---------- *)

Lemma newest_app_tail_nomark : forall ss rs, ss <> [] -> markers rs = [] -> newest (app_tail ss rs) = newest ss.
Proof. intros. unfold newest. rewrite app_tail_recs by auto. rewrite markers_app, H0, app_nil_r. reflexivity. Qed.

Lemma pinv_segs_nonempty : forall s hi, PInv s hi -> segs s <> [].
Proof. intros s hi [C _ _ _ _ _ _ _ _ _ _ _ _ _]. destruct (segs s); [destruct C | congruence]. Qed.

Lemma hd_first_app_tail : forall ss rs, hd_first (app_tail ss rs) = hd_first ss.
Proof. intros. unfold hd_first. apply hd_app_tail_first. Qed.

Lemma pinv_newest_le_hi : forall s hi, PInv s hi -> newest (segs s) <= hi.
Proof. intros s hi P. eapply seg_chain_markers; [apply (p_chain _ _ P) | apply (p_new_in _ _ P)]. Qed.

Lemma pinv_lc0 : forall s hi, PInv s hi -> newest (segs s) <= last_commit (all_recs (segs s)).
Proof. intros s hi P. pose proof (p_commit _ _ P 0%nat ltac:(lia)) as H. rewrite drop_tail_0 in H. exact H. Qed.

(* a Save: entries hi+1..hi' and possibly a hard state, flushed or (hard state only) left in the buffer *)
Lemma pinv_save : forall s s' hi hi' (l : list N) (hs : bool) (c : N) (flushed : bool),
  PInv s hi ->
  segs s' = app_tail (segs s) (map REnt l ++ (if hs then [RState c] else [])) ->
  unflushed s' = (if flushed then 0 else unflushed s + length (map REnt l ++ (if hs then [RState c] else [])))%nat ->
  (flushed = false -> l = []) ->
  snapfiles s' = snapfiles s -> ckpts s' = ckpts s -> acked s' = acked s -> proposed s' = proposed s ->
  l = range hi hi' -> hi <= hi' -> hi' <= proposed s ->
  (hs = true -> last_commit (all_recs (segs s)) <= c) ->
  PInv s' hi'.
Proof.
  intros s s' hi hi' l hs c flushed P Es Eu Hflu Esf Eck Eac Epr El Lh Lp Hc.
  pose proof (pinv_segs_nonempty _ _ P) as Hne.
  pose proof (pinv_lc0 _ _ P) as Hlc0.
  set (rs := map REnt l ++ (if hs then [RState c] else [])) in *.
  assert (Hm : markers rs = []) by apply markers_ents_state.
  assert (He : entries rs = l) by apply entries_ents_state.
  destruct P as [C Ha Hp Ht Hh Hcm Hni Hf Hfile Hz Hnd Hfl Hck Hloc].
  destruct Ht as [pre [sl [body [tl [Ess [Esl [Etl [Hst Hhead]]]]]]]].
  constructor; rewrite ?Es, ?Esf, ?Eck, ?Eac, ?Epr; auto.
  - rewrite lo_of_app_tail. eapply seg_chain_app_tail; eauto.
    + rewrite He, El. reflexivity.
    + rewrite Hm. intros i [].
  - lia.
  - (* tail *)
    rewrite Ess, app_tail_snoc. rewrite Eu.
    destruct flushed.
    + exists pre, (mkSeg (sfirst sl) (srecs sl ++ rs)), (srecs sl ++ rs), []. simpl.
      rewrite app_nil_r. repeat split; auto.
      intros Hp'. destruct (Hhead Hp') as [c0 [b' Eb]]. exists c0, (b' ++ tl ++ rs).
      rewrite Esl, Eb. simpl. rewrite <- app_assoc. reflexivity.
    + exists pre, (mkSeg (sfirst sl) (srecs sl ++ rs)), body, (tl ++ rs). simpl.
      rewrite Esl, <- app_assoc. split; [reflexivity|]. split; [reflexivity|]. split.
      * rewrite app_length. lia.
      * split; [|exact Hhead].
        rewrite forallb_app, Hst. simpl. subst rs. rewrite (Hflu eq_refl). simpl. destruct hs; reflexivity.
  - (* heads *)
    intros pre0 x post Esp Hpre0.
    rewrite Ess, app_tail_snoc in Esp.
    destruct post as [|y post'].
    + (* x is the new tail segment *)
      apply app_inj_tail in Esp. destruct Esp as [Ep Ex]. subst pre0 x. simpl.
      destruct (Hh pre sl [] Ess Hpre0) as [c0 [rest Er]]. rewrite Er. simpl. eauto.
    + (* x is an old segment *)
      assert (Esp' : pre ++ [sl] = pre0 ++ x :: removelast (y :: post') ++ [sl]).
      { assert (Hl : y :: post' <> []) by congruence.
        rewrite (app_removelast_last (mkSeg 0 []) Hl) in Esp.
        change (pre0 ++ x :: (removelast (y :: post') ++ [last (y :: post') (mkSeg 0 [])])) with
               (pre0 ++ (x :: removelast (y :: post')) ++ [last (y :: post') (mkSeg 0 [])]) in Esp.
        rewrite app_assoc in Esp. apply app_inj_tail in Esp. destruct Esp as [Ep _].
        rewrite Ep. rewrite <- app_assoc. reflexivity. }
      rewrite <- Ess in Esp'. eapply Hh; eauto.
  - (* commit *)
    rewrite newest_app_tail_nomark by auto.
    intros j Hj. rewrite Ess. destruct flushed.
    + rewrite Eu in Hj. assert (j = 0%nat) by lia. subst j. rewrite drop_tail_0.
      rewrite <- Ess, app_tail_recs by auto. subst rs. rewrite last_commit_ents_state.
      destruct hs; [specialize (Hc eq_refl); lia | exact Hlc0].
    + rewrite Eu in Hj. destruct (Nat.le_gt_cases (length rs) j) as [G|G].
      * rewrite drop_tail_app_tail_ge by exact G. rewrite <- Ess. apply Hcm. lia.
      * rewrite drop_tail_app_tail_le by lia.
        (* rs is a single hard state and j = 0 *)
        assert (El0 : l = []) by (apply Hflu; reflexivity).
        subst rs. rewrite El0 in *. simpl in *. destruct hs; simpl in *; [|lia].
        assert (j = 0%nat) by lia. subst j. simpl.
        rewrite <- Ess, app_tail_recs by auto. rewrite last_commit_snoc_state. specialize (Hc eq_refl). lia.
  - rewrite newest_app_tail_nomark by auto. rewrite app_tail_recs by auto. rewrite markers_app, Hm, app_nil_r. exact Hni.
  - rewrite newest_app_tail_nomark by auto. rewrite hd_first_app_tail. exact Hf.
  - rewrite newest_app_tail_nomark by auto. exact Hfile.
  - intros f Hin. specialize (Hfl f Hin). lia.
  - apply local_app_tail; auto. apply local_ents_state.
Qed.

(* the WAL marker of the snapshot at i: appended and flushed *)
Lemma newest_app_tail_marker : forall ss i, ss <> [] -> newest (app_tail ss [RSnap i]) = N.max (newest ss) i.
Proof.
  intros. unfold newest. rewrite app_tail_recs by auto. rewrite markers_app, maxN_app. simpl. lia.
Qed.

Lemma pinv_marker : forall s s' hi i,
  PInv s hi ->
  segs s' = app_tail (segs s) [RSnap i] -> unflushed s' = 0%nat ->
  snapfiles s' = snapfiles s -> ckpts s' = ckpts s -> acked s' = acked s -> proposed s' = proposed s ->
  i <= hi -> i <= last_commit (all_recs (segs s)) ->
  (newest (segs s) < i -> In i (snapfiles s) /\ lookup i (ckpts s) = Some (range 0 i)) ->
  PInv s' hi.
Proof.
  intros s s' hi i P Es Eu Esf Eck Eac Epr Li Lc Hnew.
  pose proof (pinv_segs_nonempty _ _ P) as Hne.
  pose proof (pinv_lc0 _ _ P) as Hlc0.
  destruct P as [C Ha Hp Ht Hh Hcm Hni Hf Hfile Hz Hnd Hfl Hck Hloc].
  destruct Ht as [pre [sl [body [tl [Ess [Esl [Etl [Hst Hhead]]]]]]]].
  constructor; rewrite ?Es, ?Esf, ?Eck, ?Eac, ?Epr, ?Eu; auto.
  - rewrite lo_of_app_tail. eapply seg_chain_app_tail; eauto.
    + simpl. rewrite range_nil by lia. reflexivity.
    + lia.
    + simpl. intros x [<-|[]]. exact Li.
  - rewrite Ess, app_tail_snoc.
    exists pre, (mkSeg (sfirst sl) (srecs sl ++ [RSnap i])), (srecs sl ++ [RSnap i]), []. simpl.
    rewrite app_nil_r. repeat split; auto.
    intros Hp'. destruct (Hhead Hp') as [c0 [b' Eb]]. exists c0, (b' ++ tl ++ [RSnap i]).
    rewrite Esl, Eb. simpl. rewrite <- app_assoc. reflexivity.
  - intros pre0 x post Esp Hpre0.
    rewrite Ess, app_tail_snoc in Esp.
    destruct post as [|y post'].
    + apply app_inj_tail in Esp. destruct Esp as [Ep Ex]. subst pre0 x. simpl.
      destruct (Hh pre sl [] Ess Hpre0) as [c0 [rest Er]]. rewrite Er. simpl. eauto.
    + assert (Esp' : pre ++ [sl] = pre0 ++ x :: removelast (y :: post') ++ [sl]).
      { assert (Hl : y :: post' <> []) by congruence.
        rewrite (app_removelast_last (mkSeg 0 []) Hl) in Esp.
        change (pre0 ++ x :: (removelast (y :: post') ++ [last (y :: post') (mkSeg 0 [])])) with
               (pre0 ++ (x :: removelast (y :: post')) ++ [last (y :: post') (mkSeg 0 [])]) in Esp.
        rewrite app_assoc in Esp. apply app_inj_tail in Esp. destruct Esp as [Ep _].
        rewrite Ep. rewrite <- app_assoc. reflexivity. }
      rewrite <- Ess in Esp'. eapply Hh; eauto.
  - rewrite newest_app_tail_marker by auto.
    intros j Hj. assert (j = 0%nat) by lia. subst j. rewrite drop_tail_0.
    rewrite app_tail_recs by auto. rewrite last_commit_nostate by reflexivity. lia.
  - rewrite newest_app_tail_marker by auto. rewrite app_tail_recs by auto. rewrite markers_app.
    apply in_or_app. destruct (N.max_spec (newest (segs s)) i) as [[_ ->]|[_ ->]]; [right; left; reflexivity | left; exact Hni].
  - rewrite newest_app_tail_marker by auto. rewrite hd_first_app_tail. lia.
  - rewrite newest_app_tail_marker by auto. intros Hpos.
    destruct (N.max_spec (newest (segs s)) i) as [[Hlt ->]|[Hge ->]].
    + apply Hnew. exact Hlt.
    + apply Hfile. lia.
  - apply local_app_tail; auto. reflexivity.
Qed.

(* a cut: new tail segment named hi+1 beginning with the current hard state *)
Lemma pinv_cut : forall s s' hi c,
  PInv s hi -> unflushed s = 0%nat ->
  segs s' = segs s ++ [mkSeg (hi + 1) [RState c]] -> unflushed s' = 0%nat ->
  snapfiles s' = snapfiles s -> ckpts s' = ckpts s -> acked s' = acked s -> proposed s' = proposed s ->
  c = last_commit (all_recs (segs s)) ->
  PInv s' hi.
Proof.
  intros s s' hi c P U0 Es Eu Esf Eck Eac Epr Ec.
  pose proof (pinv_segs_nonempty _ _ P) as Hne.
  pose proof (pinv_lc0 _ _ P) as Hlc0.
  destruct P as [C Ha Hp Ht Hh Hcm Hni Hf Hfile Hz Hnd Hfl Hck Hloc].
  assert (Hnw : newest (segs s ++ [mkSeg (hi + 1) [RState c]]) = newest (segs s)).
  { unfold newest. rewrite all_recs_snoc, markers_app. simpl. rewrite app_nil_r. reflexivity. }
  constructor; rewrite ?Es, ?Esf, ?Eck, ?Eac, ?Epr, ?Eu, ?Hnw; auto.
  - rewrite lo_of_snoc by auto. apply seg_chain_cut; auto.
  - exists (segs s), (mkSeg (hi + 1) [RState c]), [RState c], []. simpl. repeat split; eauto.
  - intros pre0 x post Esp Hpre0.
    destruct post as [|y post'].
    + apply app_inj_tail in Esp. destruct Esp as [_ Ex]. subst x. simpl. eauto.
    + assert (Hl : y :: post' <> []) by congruence.
      rewrite (app_removelast_last (mkSeg 0 []) Hl) in Esp.
      change (pre0 ++ x :: (removelast (y :: post') ++ [last (y :: post') (mkSeg 0 [])])) with
             (pre0 ++ (x :: removelast (y :: post')) ++ [last (y :: post') (mkSeg 0 [])]) in Esp.
      rewrite app_assoc in Esp. apply app_inj_tail in Esp. destruct Esp as [Ep _].
      eapply Hh; eauto.
  - intros j Hj. assert (j = 0%nat) by lia. subst j. rewrite drop_tail_0.
    rewrite all_recs_snoc. simpl. rewrite last_commit_snoc_state. lia.
  - rewrite all_recs_snoc, markers_app. simpl. rewrite app_nil_r. exact Hni.
  - unfold hd_first in *. destruct (segs s); [congruence|]. simpl. exact Hf.
  - apply local_snoc_seg; auto. reflexivity.
Qed.

(* the purge of the oldest WAL segment *)
Lemma has_state_cons : forall c rest, has_state (RState c :: rest) = true.
Proof. reflexivity. Qed.

Lemma has_state_app_l : forall a b, has_state a = true -> has_state (a ++ b) = true.
Proof. intros. unfold has_state in *. rewrite existsb_app, H. reflexivity. Qed.

Lemma pinv_purge_wal : forall s s' hi x y t,
  PInv s hi -> segs s = x :: y :: t -> segs s' = y :: t -> unflushed s' = unflushed s ->
  snapfiles s' = snapfiles s -> ckpts s' = ckpts s -> acked s' = acked s -> proposed s' = proposed s ->
  sfirst y <= newest (segs s) ->
  PInv s' hi /\ newest (segs s') = newest (segs s).
Proof.
  intros s s' hi x y t P Ess Es Eu Esf Eck Eac Epr Hy.
  destruct P as [C Ha Hp Ht Hh Hcm Hni Hf Hfile Hz Hnd Hfl Hck Hloc].
  rewrite Ess in *.
  pose proof C as C0. destruct C as [mid [Ex [Lx [Mx [Fy Cy]]]]].
  assert (Hin : In (newest (x :: y :: t)) (markers (all_recs (y :: t)))).
  { rewrite all_recs_cons, markers_app in Hni. apply in_app_or in Hni. destruct Hni as [Hni|Hni]; auto.
    apply Mx in Hni. lia. }
  assert (Hnw : newest (y :: t) = newest (x :: y :: t)).
  { unfold newest in *. rewrite (all_recs_cons x), markers_app, maxN_app.
    assert (maxN (markers (srecs x)) <= mid).
    { assert (G : forall l, (forall i, In i l -> i <= mid) -> maxN l <= mid).
      { induction l; simpl; intros; [lia|]. assert (a <= mid) by (apply H; left; auto).
        assert (maxN l <= mid) by (apply IHl; intros; apply H; right; auto). lia. }
      apply G. exact Mx. }
    rewrite (all_recs_cons x), markers_app, maxN_app in Hy. lia. }
  split; [|rewrite Es; exact Hnw].
  destruct Ht as [pre [sl [body [tl [Esl0 [Esl [Etl [Hst Hhead]]]]]]]].
  assert (Hpre : exists pre', pre = x :: pre').
  { destruct pre as [|p0 pre']; simpl in Esl0; [injection Esl0 as _ E; discriminate|].
    injection Esl0 as -> _. eauto. }
  destruct Hpre as [pre' ->]. simpl in Esl0. injection Esl0 as Esl0.
  destruct (Hhead ltac:(congruence)) as [c0 [b' Eb]].
  constructor; rewrite ?Es, ?Esf, ?Eck, ?Eac, ?Epr, ?Eu, ?Hnw; auto.
  - eapply seg_chain_tl; eauto.
  - exists pre', sl, body, tl. repeat split; auto. intros _. eauto.
  - intros pre0 x0 post Esp Hpre0. apply (Hh (x :: pre0) x0 post); [rewrite Esp; reflexivity | congruence].
  - intros j Hj. specialize (Hcm j Hj). rewrite drop_tail_cons2, all_recs_cons in Hcm.
    rewrite last_commit_suffix in Hcm; [exact Hcm|].
    (* the remaining segments begin with a flushed hard state *)
    rewrite Esl0. destruct pre' as [|p1 pre''].
    + simpl. unfold all_recs. simpl. rewrite app_nil_r, Esl, Eb.
      rewrite app_length. replace (length (RState c0 :: b') + length tl - j)%nat with (length (RState c0 :: b') + (length tl - j))%nat by lia.
      rewrite firstn_app_2. reflexivity.
    + destruct (Hh [x] p1 (pre'' ++ [sl]) ltac:(rewrite Esl0; reflexivity) ltac:(congruence)) as [c1 [r1 E1]].
      change ((p1 :: pre'') ++ [sl]) with (p1 :: (pre'' ++ [sl])).
      destruct (pre'' ++ [sl]) eqn:Q; [destruct pre''; discriminate|].
      rewrite drop_tail_cons2, all_recs_cons, E1. reflexivity.
  - apply (local_tl (x :: y :: t)). exact Hloc.
Qed.

(* changes of the snap directory and of the checkpoint directory only *)
Lemma pinv_files : forall s s' hi,
  PInv s hi -> segs s' = segs s -> unflushed s' = unflushed s -> acked s' = acked s -> proposed s' = proposed s ->
  (0 < newest (segs s) -> In (newest (segs s)) (snapfiles s') /\ lookup (newest (segs s)) (ckpts s') = Some (range 0 (newest (segs s)))) ->
  ~ In 0 (snapfiles s') -> NoDup (snapfiles s') -> (forall f, In f (snapfiles s') -> f <= hi) ->
  (forall i l, lookup i (ckpts s') = Some l -> l = range 0 i) ->
  PInv s' hi.
Proof.
  intros s s' hi [] E1 E2 E3 E4 H1 H2 H3 H5 H4.
  constructor; rewrite ?E1, ?E2, ?E3, ?E4; auto.
Qed.

(* a process death: j buffered hard states never reached the file *)
Lemma firstn_app_states : forall (body tl : list rec) j, (j <= length tl)%nat ->
  firstn (length (body ++ tl) - j) (body ++ tl) = body ++ firstn (length tl - j) tl.
Proof.
  intros. rewrite app_length. replace (length body + length tl - j)%nat with (length body + (length tl - j))%nat by lia.
  apply firstn_app_2.
Qed.

Lemma forallb_firstn : forall (A : Type) (f : A -> bool) l n, forallb f l = true -> forallb f (firstn n l) = true.
Proof.
  induction l; intros; destruct n; simpl in *; auto.
  apply andb_true_iff in H. destruct H. rewrite H. simpl. auto.
Qed.

Lemma pinv_crash : forall s s' hi j,
  PInv s hi -> (j <= unflushed s)%nat ->
  segs s' = drop_tail (segs s) j -> unflushed s' = 0%nat ->
  snapfiles s' = snapfiles s -> ckpts s' = ckpts s -> acked s' = acked s -> proposed s' = proposed s ->
  PInv s' hi /\ newest (segs s') = newest (segs s).
Proof.
  intros s s' hi j P Hj Es Eu Esf Eck Eac Epr.
  destruct P as [C Ha Hp Ht Hh Hcm Hni Hf Hfile Hz Hnd Hfl Hck Hloc].
  destruct Ht as [pre [sl [body [tl [Ess [Esl [Etl [Hst Hhead]]]]]]]].
  assert (Hdrop : drop_tail (segs s) j = pre ++ [mkSeg (sfirst sl) (body ++ firstn (length tl - j) tl)]).
  { rewrite Ess, drop_tail_snoc, Esl, firstn_app_states by lia. reflexivity. }
  assert (Hst' : forallb is_state (firstn (length tl - j) tl) = true) by (apply forallb_firstn; exact Hst).
  assert (Hrec : all_recs (drop_tail (segs s) j) = all_recs pre ++ body ++ firstn (length tl - j) tl).
  { rewrite Hdrop, all_recs_snoc. reflexivity. }
  assert (Hrec0 : all_recs (segs s) = all_recs pre ++ body ++ tl).
  { rewrite Ess, all_recs_snoc, Esl. reflexivity. }
  assert (Hmk : markers (all_recs (drop_tail (segs s) j)) = markers (all_recs (segs s))).
  { rewrite Hrec, Hrec0, !markers_app, !(markers_states _ Hst), !(markers_states _ Hst'). reflexivity. }
  assert (Hnw : newest (drop_tail (segs s) j) = newest (segs s)) by (unfold newest; rewrite Hmk; reflexivity).
  split; [|rewrite Es; exact Hnw].
  constructor; rewrite ?Es, ?Esf, ?Eck, ?Eac, ?Epr, ?Eu, ?Hnw; auto.
  - (* chain *)
    replace (lo_of (drop_tail (segs s) j)) with (lo_of (segs s)).
    2:{ unfold lo_of. f_equal. rewrite Ess, drop_tail_snoc. destruct pre; reflexivity. }
    eapply seg_chain_ext; eauto.
    + apply drop_tail_firsts.
    + rewrite Hdrop, Ess, !map_app. f_equal. simpl. rewrite Esl, !entries_app, (entries_states _ Hst), (entries_states _ Hst'). reflexivity.
    + rewrite Hdrop, Ess, !map_app. f_equal. simpl. rewrite Esl, !markers_app, (markers_states _ Hst), (markers_states _ Hst'). reflexivity.
  - rewrite Hdrop. exists pre, (mkSeg (sfirst sl) (body ++ firstn (length tl - j) tl)), (body ++ firstn (length tl - j) tl), [].
    simpl. rewrite app_nil_r. repeat split; auto.
    intros Hp'. destruct (Hhead Hp') as [c0 [b' Eb]]. rewrite Eb. simpl. eauto.
  - intros pre0 x post Esp Hpre0. rewrite Hdrop in Esp.
    destruct post as [|y post'].
    + apply app_inj_tail in Esp. destruct Esp as [Ep Ex]. subst pre0 x. simpl.
      destruct (Hhead Hpre0) as [c0 [b' Eb]]. rewrite Eb. simpl. eauto.
    + assert (Hl : y :: post' <> []) by congruence.
      rewrite (app_removelast_last (mkSeg 0 []) Hl) in Esp.
      change (pre0 ++ x :: (removelast (y :: post') ++ [last (y :: post') (mkSeg 0 [])])) with
             (pre0 ++ (x :: removelast (y :: post')) ++ [last (y :: post') (mkSeg 0 [])]) in Esp.
      rewrite app_assoc in Esp. apply app_inj_tail in Esp. destruct Esp as [Ep _].
      apply (Hh pre0 x (removelast (y :: post') ++ [sl])); [|exact Hpre0].
      rewrite Ess, Ep, <- app_assoc. reflexivity.
  - intros j' Hj'. assert (j' = 0%nat) by lia. subst j'. rewrite drop_tail_0. apply Hcm. exact Hj.
  - rewrite Hmk. exact Hni.
  - unfold hd_first in *. rewrite Hdrop.
    assert (HH : sfirst (hd (mkSeg 0 []) (pre ++ [sl])) <= newest (segs s)) by (rewrite <- Ess; exact Hf).
    destruct pre; simpl in *; exact HH.
  - apply local_drop_tail. exact Hloc.
Qed.

