(* Recover/ProofsInv.v — the invariant of the C06 path model over all interleavings and crash points,
   and its preservation by every step. *)
From Coq Require Import NArith List Bool Lia Arith.
From Coq Require Import ZifyN ZifyNat ZifyBool.
From ZV Require Import Recover.Consts Recover.Path Recover.ProofsWal Recover.ProofsLists.
Import ListNotations.
Open Scope N_scope.

Arguments N.add : simpl never.
Arguments N.sub : simpl never.
Arguments N.max : simpl never.
Arguments N.to_nat : simpl never.

(* ---------- inversion of a step ---------- *)

Ltac break_head H :=
  match type of H with
  | (match ?x with _ => _ end) = _ => let E := fresh "E" in destruct x eqn:E
  | (if ?x then _ else _) = _ => let E := fresh "E" in destruct x eqn:E
  end.

Ltac step_inv H :=
  cbv zeta in H;
  repeat (first [ discriminate H | break_head H ]);
  try discriminate H;
  try (injection H as H; subst).

(* projections of updated states *)
Ltac proj := cbn [segs unflushed unsynced snapfiles ckpts engine cache restoring rc nrel wstate wcommit hcommit latest rdp rdseq rd_done
                  rs_last published queue app applied snapi sns ckp pg_wal pg_snap acked proposed
                  set_segs set_unflushed set_unsynced set_snapfiles set_ckpts set_engine set_cache set_restoring set_rc set_nrel set_wstate set_wcommit
                  set_hcommit set_latest set_rdp set_rdseq set_rd_done set_rs_last set_published set_queue set_app set_applied
                  set_snapi set_sns set_ckp set_pg_wal set_pg_snap set_acked set_proposed reset_volatile save_records] in *.

(* ---------- the newest marker ---------- *)

Definition maxN (l : list N) : N := fold_right N.max 0 l.
Definition newest (ss : list seg) : N := maxN (pmarkers (all_recs ss)).

Lemma maxN_ge : forall l x, In x l -> x <= maxN l.
Proof. induction l; simpl; intros x H; [destruct H|]. destruct H as [<-|H]; [lia|]. apply IHl in H. lia. Qed.

Lemma maxN_in : forall l, l <> [] -> In (maxN l) l \/ (maxN l = 0).
Proof.
  induction l; intros H; [congruence|]. simpl.
  destruct l as [|b l'].
  - simpl. left. left. lia.
  - destruct (IHl ltac:(congruence)) as [Hi|Hz].
    + destruct (N.max_spec a (maxN (b :: l'))) as [[_ ->]|[_ ->]]; [left; right; exact Hi | left; left; reflexivity].
    + rewrite Hz. left. left. lia.
Qed.

Lemma maxN_app : forall a b, maxN (a ++ b) = N.max (maxN a) (maxN b).
Proof. induction a; simpl; intros; [lia|]. rewrite IHa. lia. Qed.

Lemma newest_ge : forall ss i, In i (pmarkers (all_recs ss)) -> i <= newest ss.
Proof. intros. apply maxN_ge. exact H. Qed.

(* ---------- the invariant ---------- *)

Definition hd_first (ss : list seg) : N := sfirst (hd (mkSeg 0 []) ss).

(* in every crash image the last saved commit index is below i / a hard state is in the file *)
Definition lc_all_lt (s : state) (i : N) : Prop :=
  forall j, (j <= unflushed s)%nat -> last_commit (all_recs (drop_tail (segs s) j)) < i.
Definition flushed_state (s : state) : Prop :=
  forall j, (j <= unflushed s)%nat -> has_state (all_recs (drop_tail (segs s) j)) = true.
(* the index of the incoming snapshot the raft loop is persisting (0: none) *)
(* (also while the Save of its hard state is cutting the segment: the record is valid already, raftDone is not signalled) *)
Definition pend_r (s : state) : option ready := match rdp s with RdSnapCut r _ _ => Some r | _ => pending s end.
Definition pend_idx (s : state) : N := match pend_r s with Some r => r_snap r | None => 0 end.

(* persistent part: holds in every state, also between a crash and the end of the restart *)
Record PInv (s : state) (hi : N) : Prop := {
  p_chain : seg_chain (lo_of (segs s)) (segs s) hi;
  p_acked : acked s <= hi;
  p_prop : hi <= proposed s;
  (* the buffered records are hard states at the end of the tail segment; a segment that is not the first
     one begins with a (flushed) hard state *)
  p_tail : exists pre sl body tl, segs s = pre ++ [sl] /\ srecs sl = body ++ tl /\ length tl = unflushed s
             /\ forallb is_state tl = true /\ (pre <> [] -> exists c b', body = RState c :: b');
  p_heads : forall pre x post, segs s = pre ++ x :: post -> pre <> [] -> exists c rest, srecs x = RState c :: rest;
  (* the newest snapshot marker is valid in every crash image, sits in a live segment, the live segments do
     not start after it, and it has its snap file and its checkpoint *)
  p_commit : forall j, (j <= unflushed s)%nat -> newest (segs s) <= last_commit (all_recs (drop_tail (segs s) j));
  p_new_in : In (newest (segs s)) (pmarkers (all_recs (segs s)));
  p_first : hd_first (segs s) <= newest (segs s);
  p_file : 0 < newest (segs s) ->
           In (newest (segs s)) (snapfiles s) /\ lookup (newest (segs s)) (ckpts s) = Some (range 0 (newest (segs s)));
  p_nozero : ~ In 0 (snapfiles s);
  p_nodup : NoDup (snapfiles s);
  (* a snap file above the log is the one of an incoming snapshot: the WAL held a hard state by then *)
  p_files_le : forall f, In f (snapfiles s) -> f <= hi \/ flushed_state s;
  p_ckpts : forall i l, lookup i (ckpts s) = Some l -> l = range 0 i;
  (* an incoming snapshot whose record was made valid jumped forward *)
  p_jumps : forall h m, In (h, m) (jumps (all_recs (segs s))) -> h < m
}.

Definition rlast (s : state) (r : ready) : N := if 0 <? r_n r then r_last r else rs_last s.

(* the raft loop: where the Ready being processed stands *)
Definition pubcl (s : state) (r : ready) (p : bool) (lc : N) : Prop :=
  if p then (if 0 <? r_cn r then published s = r_clast r else published s <= lc)
  else published s <= lc /\ (0 < r_cn r -> published s <= r_clast r).

(* the record of the incoming snapshot i sits in the tail segment, written when the log ended at hi, followed by
   markers of local snapshots and hard states only *)
Definition snap_tail (s : state) (hi i : N) : Prop :=
  exists pre sl a b, segs s = pre ++ [sl] /\ srecs sl = a ++ RSnapIn false hi i :: b /\ forallb tail_rec b = true.
Definition ckpt_ok (s : state) (i : N) : Prop := lookup i (ckpts s) = Some (range 0 i).
Definition snapfacts (s : state) (hi : N) (r : ready) : Prop :=
  r_n r = 0 /\ r_cn r = 0 /\ r_hs r = true /\ r_commit r = r_snap r /\ hi = rs_last s /\ hi < r_snap r /\ r_snap r <= proposed s.
(* snap file, checkpoint and WAL record of the incoming snapshot are there, the record is not valid yet *)
Definition window (s : state) (hi : N) (r : ready) : Prop :=
  ckpt_ok s (r_snap r) /\ In (r_snap r) (snapfiles s) /\ snap_tail s hi (r_snap r) /\ app s = ApSnapPrepared (r_snap r).

Definition rd_inv (s : state) (hi : N) : Prop :=
  let lc := last_commit (all_recs (segs s)) in
  let facts r := (0 < r_n r -> r_first r = rs_last s + 1 /\ r_last r + 1 = r_first r + r_n r /\ r_last r <= proposed s)
                 /\ (0 < r_cn r -> r_clast r <= rlast s r) in
  let unsaved r := hi = rs_last s
                   /\ (0 < r_n r -> wstate s = true \/ r_hs r = true)
                   /\ (r_hs r = true -> lc <= r_commit r /\ r_commit r <= rlast s r)
                   /\ (0 < r_cn r -> r_clast r <= (if r_hs r then r_commit r else hcommit s)) in
  let saved r := hi = rlast s r /\ (0 < r_cn r -> r_clast r <= lc) in
  match rdp s with
  | RdIdle => hi = rs_last s /\ published s <= lc
  | RdBegun r false p =>
    if 0 <? r_snap r
    then snapfacts s hi r /\ lc_all_lt s (r_snap r) /\ flushed_state s
         /\ (if p then published s = r_snap r else published s <= lc /\ published s < r_snap r)
    else facts r /\ unsaved r /\ pubcl s r p lc /\ (p = true -> overlap r = false)
  | RdSaving r p false =>
    if 0 <? r_snap r
    then p = true /\ snapfacts s hi r /\ lc_all_lt s (r_snap r) /\ published s = r_snap r /\ window s hi r
    else facts r /\ unsaved r /\ pubcl s r p lc /\ (p = true -> overlap r = false)
  | RdBegun r true p =>
    if 0 <? r_snap r
    then p = true /\ snapfacts s hi r /\ published s = r_snap r /\ window s hi r /\ lc = r_snap r
         /\ (forall j, (0 < j <= unflushed s)%nat -> last_commit (all_recs (drop_tail (segs s) j)) < r_snap r)
    else facts r /\ saved r /\ published s <= lc /\ pubcl s r p lc
  | RdSaving r p true => if 0 <? r_snap r then False else facts r /\ saved r /\ wstate s = true /\ pubcl s r p lc
  | RdCutting r p idx =>
    if 0 <? r_snap r then False
    else facts r /\ saved r /\ idx = hi + 1 /\ unflushed s = 0%nat /\ wstate s = true /\ pubcl s r p lc
  | RdAppended r => hi = rs_last s /\ published s <= lc
  | RdSnapSaving r fl =>
    0 < r_snap r /\ snapfacts s hi r /\ lc_all_lt s (r_snap r) /\ flushed_state s /\ published s = r_snap r
    /\ ckpt_ok s (r_snap r) /\ (fl = true -> In (r_snap r) (snapfiles s)) /\ app s = ApSnapPrepared (r_snap r)
  | RdSnapSaved r => 0 < r_snap r /\ snapfacts s hi r /\ lc_all_lt s (r_snap r) /\ published s = r_snap r /\ window s hi r
  | RdSnapApply r k => 0 < r_snap r /\ hi = r_snap r /\ published s = r_snap r /\ rs_last s < hi /\ r_snap r <= newest (segs s)
  | RdSnapCut r k idx =>
    (* the Save of the hard state cut the segment: the record is valid (in every crash image) and the log ends at it *)
    0 < r_snap r /\ hi = r_snap r /\ published s = r_snap r /\ rs_last s < hi /\ newest (segs s) = r_snap r
    /\ rd_done s < r_snap r /\ app s = ApSnapPrepared (r_snap r) /\ wstate s = true
    /\ match k with O => idx = hi + 1 /\ unflushed s = 0%nat | _ => True end
  end.

Definition sn_before_marker (p : sn_pc) : bool :=
  match p with SnStarted | SnCkDone | SnCreated | SnFile => true | _ => false end.

(* the apply loop is installing the incoming snapshot i: the raft loop has published it and is persisting it, or
   its record is valid (and then it is the newest marker until the installation is over) *)
Definition snap_pend (s : state) (hi i : N) : Prop := hi < i /\ pend_idx s = i /\ published s = i.
Definition snap_done (s : state) (hi i : N) : Prop := i <= hi /\ newest (segs s) = i /\ i <= rd_done s /\ i <= published s.
(* ... or its record became valid when the Save of its hard state cut the segment, and raftDone is not signalled yet *)
Definition snap_mid (s : state) (hi i : N) : Prop := hi = i /\ pend_idx s = i /\ published s = i /\ newest (segs s) = i.

(* the apply loop is past PrepareSnapshot of an incoming snapshot (whose record may be valid already: the newest marker
   is then above what is applied here) *)
Definition snap_busy (s : state) : Prop :=
  match app s with ApSnapPrepared _ | ApSnapRestoring _ _ => True | _ => False end.

(* volatile part: holds while the node runs *)
Record VInv (c : config) (s : state) (hi : N) : Prop := {
  v_rd : rd_inv s hi;
  v_pub : published s <= N.max hi (pend_idx s);
  v_nrel : (nrel s < length (segs s))%nat /\ sfirst (nth (nrel s) (segs s) (mkSeg 0 [])) <= newest (segs s);
  v_latest : (latest s <= newest (segs s) \/ (in_window s = 1%nat /\ latest s = pend_idx s))
             /\ (forall lat, ckp s = CkPurging lat -> lat <= newest (segs s));
  v_wstate : (wstate s = true -> wcommit s = last_commit (all_recs (segs s)))
             /\ hcommit s <= last_commit (all_recs (segs s));
  v_done : rd_done s <= last_commit (all_recs (segs s)) /\ rd_done s <= hi /\ rd_done s <= published s;
  v_queue : Forall (fun b => (b_n b = 0 \/ b_last b <= published s /\ b_last b <= hi)
                              /\ (0 < b_snap b -> b_n b = 0 /\ snap_pend s hi (b_snap b))) (queue s);
  v_applied : applied s <= published s;
  v_app : match app s with
          | ApIdle | ApDone | ApTrigger | ApTriggerDone => applied s <= rd_done s
          | ApFlushed => applied s <= rd_done s /\ cache s = []
          | ApTriggered i => i = applied s /\ applied s <= rd_done s /\ snapi s < applied s
          | ApApplying b => applied s <= rd_done s /\ (b_n b = 0 \/ b_last b <= published s /\ b_last b <= hi)
          | ApApplied b => (b_n b = 0 -> applied s <= rd_done s) /\ applied s <= N.max (rd_done s) (b_last b)
          | ApSnapPrepare i => applied s <= rd_done s /\ applied s < i /\ snap_pend s hi i
          | ApSnapPrepared i => applied s <= rd_done s /\ applied s < i /\ (snap_pend s hi i \/ snap_done s hi i \/ snap_mid s hi i)
          | ApSnapRestoring i k =>
            applied s <= rd_done s /\ applied s < i /\ snap_done s hi i
            /\ match k with
               | O => restoring s = None
               | S O => restoring s = Some i /\ engine s = None
               | _ => (forall l, engine s = Some l -> l = range 0 i) /\ (forall j, restoring s = Some j -> j = i)
               end
          end;
  v_engine : match app s with
             | ApSnapRestoring _ (S _) => True
             | _ => forall l, engine s = Some l -> l = range 0 (applied s)
             end;
  v_snapi : snapi s <= applied s /\ (newest (segs s) <= snapi s \/ snap_busy s);
  v_sns : forall i p, sn_lookup i (sns s) = Some p ->
            0 < i /\ i <= rd_done s /\ i <= snapi s
            /\ (sn_before_marker p = true -> ~ In i (pmarkers (all_recs (segs s))))
            /\ (newest (segs s) < i -> p <> SnStarted -> lookup i (ckpts s) = Some (range 0 i))
            /\ (newest (segs s) < i -> p = SnFile -> In i (snapfiles s))
            /\ (sn_before_marker p = false -> i <= newest (segs s));
  v_files : forall f, In f (snapfiles s) -> newest (segs s) < f ->
            sn_lookup f (sns s) = Some SnFile \/ (f = pend_idx s /\ in_window s = 1%nat);
  v_pgsnap : forall f, pg_snap s = Some f -> f < newest (segs s);
  (* an incoming snapshot's record that was never made valid: older than the newest marker, or its file is gone, or
     it is the one being persisted right now *)
  v_unval : forall i, In i (unvalidated (all_recs (segs s))) -> i <= newest (segs s) \/ ~ In i (snapfiles s) \/ (0 < i /\ i = pend_idx s);
  v_pgwal : (pg_wal s = true -> (0 < nrel s)%nat)
            /\ (forall j, restoring s = Some j -> exists k, app s = ApSnapRestoring j (S k));
  v_ck : match ckp s with
         | CkSaving i l => l = range 0 i /\ (newest (segs s) <> i /\ i <= hi)
                           /\ (forall k p, sn_lookup k (sns s) = Some p -> k <= i /\ (k = i -> p = SnStarted))
                           /\ lookup i (ckpts s) = None /\ (forall j, app s = ApTriggered j -> j = i)
         | _ => True
         end
}.

(* the raft loop's clause when only files (snap files, checkpoints) change: those of a pending incoming snapshot stay *)
Lemma rd_inv_files : forall s s' hi,
  rd_inv s hi -> segs s' = segs s -> unflushed s' = unflushed s -> rdp s' = rdp s -> rs_last s' = rs_last s ->
  published s' = published s -> wstate s' = wstate s -> hcommit s' = hcommit s -> proposed s' = proposed s ->
  rd_done s' = rd_done s ->
  (app s' = app s \/ (forall i, app s <> ApSnapPrepared i)) ->
  (forall i, 0 < i -> i = pend_idx s -> ckpt_ok s i -> ckpt_ok s' i) ->
  (forall i, 0 < i -> i = pend_idx s -> In i (snapfiles s) -> In i (snapfiles s')) ->
  rd_inv s' hi.
Proof.
  intros s s' hi H E1 E2 E3 E4 E5 E6 E7 E8 E9 Ea Hc Hf.
  unfold rd_inv, window, snapfacts, snap_tail, lc_all_lt, flushed_state, pubcl, rlast in *.
  unfold pend_idx, pend_r, pending in Hc, Hf.
  rewrite E1, E2, E3, E4, E5, E6, E7, E8, E9.
  assert (Hap : forall i, app s = ApSnapPrepared i -> app s' = ApSnapPrepared i).
  { intros i Hi. destruct Ea as [Ea|Ea]; [congruence | exfalso; exact (Ea i Hi)]. }
  destruct (rdp s) as [|r sv pb|r pb apd|r pb idx|r|r fl|r|r k|r k cidx]; auto.
  - destruct (0 <? r_snap r) eqn:Q; [|exact H]. apply N.ltb_lt in Q. destruct sv; intuition.
  - destruct (0 <? r_snap r) eqn:Q; [|exact H]. apply N.ltb_lt in Q. destruct apd; intuition.
  - assert (Q : (0 <? r_snap r) = true) by (apply N.ltb_lt; tauto). rewrite Q in *. intuition.
  - assert (Q : (0 <? r_snap r) = true) by (apply N.ltb_lt; tauto). rewrite Q in *. intuition.
  - intuition.
Qed.

(* a pending incoming snapshot is ahead of the log *)
Lemma pend_above : forall s hi, rd_inv s hi -> 0 < pend_idx s ->
  hi < pend_idx s \/ (hi = pend_idx s /\ newest (segs s) = pend_idx s).
Proof.
  intros s hi H Hp. unfold rd_inv, snapfacts, pend_idx, pend_r, pending in *.
  destruct (rdp s) as [|r sv pb|r pb apd|r pb idx|r|r fl|r|r k|r k cidx]; try lia;
    try (destruct (0 <? r_snap r) eqn:Q; [|lia]); try (destruct sv); try (destruct apd); intuition.
Qed.

(* the clauses about the apply loop and its queue, as functions of the state (for the frame lemmas below) *)
Definition app_inv (s : state) (hi : N) : Prop :=
  match app s with
  | ApIdle | ApDone | ApTrigger | ApTriggerDone => applied s <= rd_done s
  | ApFlushed => applied s <= rd_done s /\ cache s = []
  | ApTriggered i => i = applied s /\ applied s <= rd_done s /\ snapi s < applied s
  | ApApplying b => applied s <= rd_done s /\ (b_n b = 0 \/ b_last b <= published s /\ b_last b <= hi)
  | ApApplied b => (b_n b = 0 -> applied s <= rd_done s) /\ applied s <= N.max (rd_done s) (b_last b)
  | ApSnapPrepare i => applied s <= rd_done s /\ applied s < i /\ snap_pend s hi i
  | ApSnapPrepared i => applied s <= rd_done s /\ applied s < i /\ (snap_pend s hi i \/ snap_done s hi i \/ snap_mid s hi i)
  | ApSnapRestoring i k =>
    applied s <= rd_done s /\ applied s < i /\ snap_done s hi i
    /\ match k with
       | O => restoring s = None
       | S O => restoring s = Some i /\ engine s = None
       | _ => (forall l, engine s = Some l -> l = range 0 i) /\ (forall j, restoring s = Some j -> j = i)
       end
  end.
Definition queue_inv (s : state) (hi : N) : Prop :=
  Forall (fun b => (b_n b = 0 \/ b_last b <= published s /\ b_last b <= hi) /\ (0 < b_snap b -> b_n b = 0 /\ snap_pend s hi (b_snap b))) (queue s).

Lemma vinv_app_inv : forall c s hi, VInv c s hi -> app_inv s hi.
Proof. intros c s hi []. exact v_app0. Qed.
Lemma vinv_queue_inv : forall c s hi, VInv c s hi -> queue_inv s hi.
Proof. intros c s hi []. exact v_queue0. Qed.

(* the log grows while no incoming snapshot is pending: nothing changes for the apply loop *)
Lemma app_inv_grow : forall s s' hi hi',
  app s' = app s -> applied s' = applied s -> rd_done s' = rd_done s -> published s' = published s -> snapi s' = snapi s ->
  cache s' = cache s -> newest (segs s') = newest (segs s) -> restoring s' = restoring s -> engine s' = engine s ->
  pend_idx s = 0 -> pend_idx s' = 0 -> hi <= hi' -> app_inv s hi -> app_inv s' hi'.
Proof.
  intros s s' hi hi' E1 E2 E3 E4 E5 E6 E7 E8 E9 P0 P1 L H.
  unfold app_inv, snap_pend, snap_done, snap_mid in *. rewrite E1, E2, E3, E4, E5, E6, E7, E8, E9, P1. rewrite P0 in H.
  destruct (app s); intuition (try lia; auto).
Qed.

Lemma queue_inv_grow : forall s s' hi hi',
  queue s' = queue s -> published s' = published s -> pend_idx s = 0 -> pend_idx s' = 0 -> hi <= hi' -> queue_inv s hi -> queue_inv s' hi'.
Proof.
  intros s s' hi hi' E1 E2 P0 P1 L H. unfold queue_inv, snap_pend in *. rewrite E1, E2, P1. rewrite P0 in H.
  eapply Forall_impl; [|exact H]. simpl. intros b. intuition (try lia; auto).
Qed.

(* the raft loop publishes: nothing of the apply loop's or the queue's clauses is about a snapshot that is published
   already (an incoming snapshot is published once, and only when none is in the apply loop's hands) *)
Lemma app_inv_pub : forall s s' hi,
  app s' = app s -> applied s' = applied s -> rd_done s' = rd_done s -> snapi s' = snapi s ->
  cache s' = cache s -> newest (segs s') = newest (segs s) -> restoring s' = restoring s -> engine s' = engine s ->
  pend_idx s' = pend_idx s -> published s <= published s' -> (published s < pend_idx s \/ pend_idx s = 0) ->
  app_inv s hi -> app_inv s' hi.
Proof.
  intros s s' hi E1 E2 E3 E5 E6 E7 E8 E9 P1 L D H.
  unfold app_inv, snap_pend, snap_done, snap_mid in *. rewrite E1, E2, E3, E5, E6, E7, E8, E9, P1.
  destruct (app s); intuition (try lia; auto).
Qed.

Lemma queue_inv_pub : forall s s' hi,
  queue s' = queue s -> pend_idx s' = pend_idx s -> published s <= published s' -> (published s < pend_idx s \/ pend_idx s = 0) ->
  queue_inv s hi -> queue_inv s' hi.
Proof.
  intros s s' hi E1 P1 L D H. unfold queue_inv, snap_pend in *. rewrite E1, P1.
  eapply Forall_impl; [|exact H]. simpl. intros b. intuition (try lia; auto).
Qed.

(* the raft loop signals raftDone for more (rd_done grows); pend_idx may drop to 0 when no clause needs it *)
Lemma app_inv_done : forall s s' hi,
  app s' = app s -> applied s' = applied s -> published s' = published s -> snapi s' = snapi s ->
  cache s' = cache s -> newest (segs s') = newest (segs s) -> restoring s' = restoring s -> engine s' = engine s ->
  pend_idx s = 0 -> pend_idx s' = 0 -> rd_done s <= rd_done s' ->
  app_inv s hi -> app_inv s' hi.
Proof.
  intros s s' hi E1 E2 E4 E5 E6 E7 E8 E9 P0 P1 L H.
  unfold app_inv, snap_pend, snap_done, snap_mid in *. rewrite E1, E2, E4, E5, E6, E7, E8, E9, P1. rewrite P0 in H.
  destruct (app s); intuition (try lia; auto).
Qed.

(* the marker of a local snapshot (at or below what is applied) does not overtake an incoming snapshot's *)
Lemma app_inv_marker : forall s s' hi i,
  app s' = app s -> applied s' = applied s -> rd_done s' = rd_done s -> published s' = published s -> snapi s' = snapi s ->
  cache s' = cache s -> restoring s' = restoring s -> engine s' = engine s -> pend_idx s' = pend_idx s ->
  newest (segs s') = N.max (newest (segs s)) i -> i <= applied s ->
  app_inv s hi -> app_inv s' hi.
Proof.
  intros s s' hi i E1 E2 E3 E4 E5 E6 E8 E9 P1 En Li H.
  unfold app_inv, snap_pend, snap_done, snap_mid in *. rewrite E1, E2, E3, E4, E5, E6, E8, E9, P1, En.
  destruct (app s); intuition (try lia; auto).
Qed.

Lemma queue_inv_same : forall s s' hi,
  queue s' = queue s -> published s' = published s -> (pend_idx s' = pend_idx s \/ hi >= pend_idx s) -> queue_inv s hi -> queue_inv s' hi.
Proof.
  intros s s' hi E1 E2 P1 H. unfold queue_inv, snap_pend in *. rewrite E1, E2.
  eapply Forall_impl; [|exact H]. simpl. intros b [A B]. split; [exact A|].
  intros Hb. destruct (B Hb) as [X0 [X1 [X2 X3]]]. destruct P1 as [P1|P1]; [rewrite P1; auto | lia].
Qed.

(* pend_idx of an updated state in the goal, when no incoming snapshot is pending there *)
Ltac pend_goal0 Qs :=
  repeat match goal with
         | |- context [pend_idx ?t] =>
           tryif is_var t then fail
           else replace (pend_idx t) with 0 by (unfold pend_idx, pend_r, pending; proj; rewrite ?Qs; reflexivity)
         end.

(* between a crash and the end of the restart *)
Definition RInv (s : state) : Prop :=
  unflushed s = 0%nat /\ rdp s = RdIdle /\ app s = ApIdle /\ sns s = [] /\ ckp s = CkIdle /\ pg_wal s = false
  /\ pg_snap s = None /\ queue s = [] /\ wstate s = false
  /\ (forall i, restoring s = Some i -> i = newest (segs s) /\ 0 < i)
  /\ (forall i, In i (unvalidated (all_recs (segs s))) ->
        i <= newest (segs s) \/ ~ In i (snapfiles s)
        \/ (rc s = RcStart /\ last_commit (all_recs (segs s)) < i)) /\
  match rc s with
  | RcStart => latest s = 0
  | RcChosen j => j = newest (segs s) /\ 0 < j /\ latest s = j /\ (forall f, In f (snapfiles s) -> f <= j)
                  /\ (forall l, engine s = Some l -> l = range 0 j)
  | RcRestored j => j = newest (segs s) /\ 0 < j /\ latest s = j /\ (forall f, In f (snapfiles s) -> f <= j)
                    /\ engine s = Some (range 0 j) /\ restoring s = None
  | RcNone => newest (segs s) = 0 /\ latest s = 0 /\ snapfiles s = [] /\ engine s = Some [] /\ restoring s = None
  | RcRunning => False
  end.

(* the configuration of the code as it is (both fixes in) *)
Definition fixed (c : config) : Prop := persist_first c = true /\ clean_orphans c = true /\ flush_first c = true.

(* schedule hypothesis: fewer snapshot goroutines than files the snap purge keeps are between "snap file written"
   and "WAL marker written" (the code keeps at least 2 files, so one such goroutine is always fine) *)
Definition win_count (l : list (N * sn_pc)) : nat := length (filter (fun q => sn_pc_eqb (snd q) SnFile) l).
Definition window_ok (c : config) (s : state) : Prop := (win_count (sns s) + in_window s < eff_keep_snap c)%nat.

Definition Inv (c : config) (s : state) : Prop :=
  exists hi, PInv s hi /\ (if running s then VInv c s hi else RInv s).

(* ---------- frame lemmas ---------- *)

Lemma pinv_frame : forall s s' hi,
  segs s' = segs s -> unflushed s' = unflushed s -> snapfiles s' = snapfiles s -> ckpts s' = ckpts s ->
  acked s' = acked s -> proposed s' = proposed s -> PInv s hi -> PInv s' hi.
Proof.
  intros s s' hi E1 E2 E3 E4 E5 E6 []. unfold flushed_state in *.
  constructor; unfold flushed_state; rewrite ?E1, ?E2, ?E3, ?E4, ?E5, ?E6; auto.
Qed.

(* the checkpoint clause when the apply loop is not (any more) waiting for the checkpoint to start *)
Ltac ck_app v_ck0 :=
  match goal with
  | |- match ckp _ with _ => _ end =>
    let K := fresh in
    destruct (ckp _); try exact I; destruct v_ck0 as [? [? [? [? K]]]];
    split; [assumption|]; split; [assumption|]; split; [assumption|]; split; [assumption|];
    intros; try discriminate; try (apply K; congruence)
  end.

(* the pending incoming snapshot of an updated state whose raft loop pc is the one of the state it comes from *)
Ltac pend_keep_goal :=
  repeat match goal with
         | |- context [pend_idx ?t] =>
           lazymatch t with
           | context [set_rdp] => fail
           | _ => tryif is_var t then fail
                  else match goal with
                       | s0 : state |- _ => replace (pend_idx t) with (pend_idx s0) by (unfold pend_idx, pend_r, pending; proj; reflexivity)
                       end
           end
         end.

(* the clauses that look at the apply loop's pc only to know that it is not restoring an incoming snapshot *)
Ltac app_side :=
  try (solve [match goal with
              | Ea : app _ = _, V : _ |- forall l, engine _ = Some l -> _ => rewrite Ea in V; exact V
              end]);
  try (solve [match goal with
              | Ea : app _ = _, V : snapi _ <= applied _ /\ _ |- snapi _ <= applied _ /\ _ =>
                rewrite Ea in V; destruct V as [V1 [V2|V2]]; [split; [exact V1 | left; exact V2] | first [contradiction | split; [exact V1 | right; exact I]]]
              end]);
  try (solve [match goal with
              | V : _ /\ (forall j, restoring _ = Some j -> exists k, app _ = _) |- _ /\ (forall j, restoring _ = Some j -> exists k, _ = _) =>
                split; [exact (proj1 V) | let j := fresh "j" in let Hj := fresh "Hj" in let k := fresh "k" in let Hk := fresh "Hk" in
                                          intros j Hj; destruct (proj2 V j Hj) as [k Hk]; congruence]
              end]).

(* the checkpoint clause when the log grows *)
Lemma ck_inv_grow : forall s hi hi' nw, hi <= hi' ->
  match ckp s with
  | CkSaving i l => l = range 0 i /\ (nw <> i /\ i <= hi)
                    /\ (forall k p, sn_lookup k (sns s) = Some p -> k <= i /\ (k = i -> p = SnStarted))
                    /\ lookup i (ckpts s) = None /\ (forall j, app s = ApTriggered j -> j = i)
  | _ => True
  end ->
  match ckp s with
  | CkSaving i l => l = range 0 i /\ (nw <> i /\ i <= hi')
                    /\ (forall k p, sn_lookup k (sns s) = Some p -> k <= i /\ (k = i -> p = SnStarted))
                    /\ lookup i (ckpts s) = None /\ (forall j, app s = ApTriggered j -> j = i)
  | _ => True
  end.
Proof. intros s hi hi' nw L H. destruct (ckp s); auto. intuition lia. Qed.

(* the snap files above the newest marker when no incoming snapshot is pending (the old state's pend_idx is rewritten to 0) *)
Ltac files_local :=
  match goal with
  | V : forall f, In f (snapfiles _) -> _ -> _ \/ _, P : PInv _ _ |- forall f, In f (snapfiles _) -> _ =>
    let f := fresh "f" in let Hf := fresh "Hf" in let Hn := fresh "Hn" in let X := fresh "X" in
    intros f Hf Hn; destruct (V f Hf Hn) as [X|[X _]]; [left; exact X | exfalso; rewrite X in Hf; exact (p_nozero _ _ P Hf)]
  end.
Ltac latest_local E :=
  match goal with
  | V : (latest _ <= _ \/ _) /\ _ |- (latest _ <= _ \/ _) /\ _ =>
    let A := fresh "A" in let B := fresh "B" in
    destruct V as [[A|[A _]] B]; [split; [left; exact A | exact B] | exfalso; unfold in_window in A; rewrite E in A;
      repeat match goal with G : (0 <? r_snap _) = _ |- _ => rewrite G in A end; try discriminate A]
  end.

Ltac rd_side :=
  try (solve [match goal with
              | V : rd_inv ?s0 _ |- rd_inv _ _ =>
                apply (rd_inv_files s0); [exact V | reflexivity | reflexivity | reflexivity | reflexivity | reflexivity | reflexivity | reflexivity | reflexivity | reflexivity
                                         | first [left; reflexivity | right; intros; congruence]
                                         | intros ? ? ? X; exact X | intros ? ? ? X; exact X]
              end]).

Ltac win_keep_goal :=
  repeat match goal with
         | |- context [in_window ?t] =>
           lazymatch t with
           | context [set_rdp] => fail
           | _ => tryif is_var t then fail
                  else match goal with
                       | s0 : state |- _ => replace (in_window t) with (in_window s0) by (unfold in_window; proj; reflexivity)
                       end
           end
         end.

Ltac vinv_split HV := destruct HV; constructor; unfold snap_pend, snap_done, snap_mid, snap_busy in *; proj; try pend_keep_goal; try win_keep_goal; try assumption; try exact I; app_side; rd_side; try (solve [match goal with K0 : match ckp _ with _ => _ end |- _ => ck_app K0 end]);
  try (solve [match goal with E0 : ckp _ = _ |- match ckp _ with _ => _ end => rewrite E0; exact I end]).
Ltac pframe s0 := apply (pinv_frame s0); [reflexivity|reflexivity|reflexivity|reflexivity|reflexivity|reflexivity|assumption].

(* ---------- simple volatile steps ---------- *)

Lemma running_true : forall s, running s = true -> rc s = RcRunning.
Proof. intros s H. unfold running in H. destruct (rc s); try discriminate. reflexivity. Qed.

(* an event of a running program cannot fire between a crash and the end of the restart *)
Ltac not_running HV :=
  let U := fresh in destruct HV as [U HV]; decompose [and] HV;
  first [ congruence
        | match goal with Hs : sns _ = [], E0 : sn_lookup _ (sns _) = Some _ |- _ => rewrite Hs in E0; discriminate end ].

(* the program counters of an incoming snapshot are not reached by a replica that never gets one *)
Ltac rd_unreachable HV E :=
  exfalso; unfold running in HV;
  let R := fresh "R" in destruct (rc _) eqn:R; try (not_running HV);
  destruct HV; match goal with V : rd_inv _ _ |- _ => unfold rd_inv in V; rewrite E in V; try exact V; tauto end.
Ltac ap_unreachable HV E :=
  exfalso; unfold running in HV;
  let R := fresh "R" in destruct (rc _) eqn:R; try (not_running HV);
  destruct HV; match goal with V : match app _ with _ => _ end |- _ => rewrite E in V; try exact V; tauto end.

Ltac norm_guards :=
  repeat match goal with
         | G : negb _ = false |- _ => apply negb_false_iff in G
         | G : negb _ = true |- _ => apply negb_true_iff in G
         end.

Ltac start_step H hi HP HV :=
  match goal with
  | [ HI : Inv _ _ |- _ ] => destruct HI as [hi [HP HV]]
  end;
  unfold step in H; step_inv H.

(* a step of the raft loop that changes its program counter only and keeps the pending incoming snapshot *)
Lemma vinv_set_rdp : forall c s hi x,
  VInv c s hi -> rd_inv (set_rdp s x) hi -> pend_idx (set_rdp s x) = pend_idx s -> in_window (set_rdp s x) = in_window s ->
  VInv c (set_rdp s x) hi.
Proof.
  intros c s hi x HV Hrd Hp Hw. destruct HV.
  constructor; unfold snap_pend, snap_done, snap_mid, snap_busy in *; proj; rewrite ?Hp, ?Hw; auto.
Qed.

Ltac pend_eq E := unfold pend_idx, pend_r, pending, in_window; proj; rewrite ?E;
  repeat match goal with G : (0 <? r_snap _) = _ |- _ => rewrite G end; try reflexivity.

Lemma step_rd_advance : forall c s s', Inv c s -> step c s EvRdAdvance = Ok s' -> Inv c s'.
Proof.
  intros c s s' HI H. start_step H hi HP HV.
  exists hi. split; [pframe s|].
  unfold running in *. proj. destruct (rc s) eqn:R; try (not_running HV).
  apply vinv_set_rdp; [exact HV | | pend_eq E | pend_eq E].
  destruct HV. unfold rd_inv in *. proj. rewrite E in v_rd0. tauto.
Qed.

(* ---------- appending records to the WAL ---------- *)

Lemma newest_app_tail_nomark : forall ss rs, ss <> [] -> pmarkers rs = [] -> newest (app_tail ss rs) = newest ss.
Proof. intros. unfold newest. rewrite app_tail_recs by auto. rewrite pmarkers_app, H0, app_nil_r. reflexivity. Qed.

Lemma pinv_segs_nonempty : forall s hi, PInv s hi -> segs s <> [].
Proof. intros s hi [C _ _ _ _ _ _ _ _ _ _ _ _ _]. destruct (segs s); [destruct C | congruence]. Qed.

Lemma hd_first_app_tail : forall ss rs, hd_first (app_tail ss rs) = hd_first ss.
Proof. intros. unfold hd_first. apply hd_app_tail_first. Qed.

Lemma pinv_newest_le_hi : forall s hi, PInv s hi -> newest (segs s) <= hi.
Proof. intros s hi P. eapply seg_chain_markers; [apply (p_chain _ _ P) | apply (p_new_in _ _ P)]. Qed.

Lemma pinv_lc0 : forall s hi, PInv s hi -> newest (segs s) <= last_commit (all_recs (segs s)).
Proof. intros s hi P. pose proof (p_commit _ _ P 0%nat ltac:(lia)) as H. rewrite drop_tail_0 in H. exact H. Qed.

Lemma has_state_app_l : forall a b, has_state a = true -> has_state (a ++ b) = true.
Proof. intros. unfold has_state in *. rewrite existsb_app, H. reflexivity. Qed.

(* appending records keeps a hard state in every crash image *)
Lemma flushed_state_app_tail : forall s s' rs,
  segs s <> [] -> segs s' = app_tail (segs s) rs -> (unflushed s' <= unflushed s + length rs)%nat ->
  flushed_state s -> flushed_state s'.
Proof.
  intros s s' rs Hne Es Eu F j Hj. rewrite Es.
  destruct (exists_last_seg (segs s) Hne) as [pre [sl E]]. rewrite E.
  destruct (Nat.le_gt_cases (length rs) j) as [G|G].
  - rewrite drop_tail_app_tail_ge by exact G. rewrite <- E. apply F. lia.
  - rewrite drop_tail_app_tail_le by lia. rewrite app_tail_recs by (destruct pre; discriminate).
    apply has_state_app_l. rewrite <- E. specialize (F 0%nat ltac:(lia)). rewrite drop_tail_0 in F. exact F.
Qed.

(* a Save: entries hi+1..hi' and possibly a hard state, flushed or (hard state only) left in the buffer *)
Lemma pinv_save : forall s s' hi hi' (l : list N) (hs : bool) (c : N) (flushed : bool),
  PInv s hi ->
  segs s' = app_tail (segs s) (map REnt l ++ (if hs then [RState c] else [])) ->
  unflushed s' = (if flushed then 0 else unflushed s + length (map REnt l ++ (if hs then [RState c] else [])))%nat ->
  (flushed = false -> l = []) ->
  snapfiles s' = snapfiles s -> ckpts s' = ckpts s -> acked s' = acked s -> proposed s' = proposed s ->
  l = range hi hi' -> hi <= hi' -> hi' <= proposed s ->
  (hs = true -> last_commit (all_recs (segs s)) <= c) ->
  PInv s' hi'.
Proof.
  intros s s' hi hi' l hs c flushed P Es Eu Hflu Esf Eck Eac Epr El Lh Lp Hc.
  pose proof (pinv_segs_nonempty _ _ P) as Hne.
  pose proof (pinv_lc0 _ _ P) as Hlc0.
  set (rs := map REnt l ++ (if hs then [RState c] else [])) in *.
  assert (Hm : pmarkers rs = []) by apply pmarkers_ents_state.
  assert (He : entries rs = l) by apply entries_ents_state.
  destruct P as [C Ha Hp Ht Hh Hcm Hni Hf Hfile Hz Hnd Hfl Hck Hjm].
  destruct Ht as [pre [sl [body [tl [Ess [Esl [Etl [Hst Hhead]]]]]]]].
  constructor; rewrite ?Es, ?Esf, ?Eck, ?Eac, ?Epr; auto.
  - rewrite lo_of_app_tail. eapply seg_chain_app_tail; eauto.
    + rewrite He, El. reflexivity.
    + rewrite Hm. intros i [].
  - lia.
  - (* tail *)
    rewrite Ess, app_tail_snoc. rewrite Eu.
    destruct flushed.
    + exists pre, (mkSeg (sfirst sl) (srecs sl ++ rs)), (srecs sl ++ rs), []. simpl.
      rewrite app_nil_r. repeat split; auto.
      intros Hp'. destruct (Hhead Hp') as [c0 [b' Eb]]. exists c0, (b' ++ tl ++ rs).
      rewrite Esl, Eb. simpl. rewrite <- app_assoc. reflexivity.
    + exists pre, (mkSeg (sfirst sl) (srecs sl ++ rs)), body, (tl ++ rs). simpl.
      rewrite Esl, <- app_assoc. split; [reflexivity|]. split; [reflexivity|]. split.
      * rewrite app_length. lia.
      * split; [|exact Hhead].
        rewrite forallb_app, Hst. simpl. subst rs. rewrite (Hflu eq_refl). simpl. destruct hs; reflexivity.
  - (* heads *)
    intros pre0 x post Esp Hpre0.
    rewrite Ess, app_tail_snoc in Esp.
    destruct post as [|y post'].
    + (* x is the new tail segment *)
      apply app_inj_tail in Esp. destruct Esp as [Ep Ex]. subst pre0 x. simpl.
      destruct (Hh pre sl [] Ess Hpre0) as [c0 [rest Er]]. rewrite Er. simpl. eauto.
    + (* x is an old segment *)
      assert (Esp' : pre ++ [sl] = pre0 ++ x :: removelast (y :: post') ++ [sl]).
      { assert (Hl : y :: post' <> []) by congruence.
        rewrite (app_removelast_last (mkSeg 0 []) Hl) in Esp.
        change (pre0 ++ x :: (removelast (y :: post') ++ [last (y :: post') (mkSeg 0 [])])) with
               (pre0 ++ (x :: removelast (y :: post')) ++ [last (y :: post') (mkSeg 0 [])]) in Esp.
        rewrite app_assoc in Esp. apply app_inj_tail in Esp. destruct Esp as [Ep _].
        rewrite Ep. rewrite <- app_assoc. reflexivity. }
      rewrite <- Ess in Esp'. eapply Hh; eauto.
  - (* commit *)
    rewrite newest_app_tail_nomark by auto.
    intros j Hj. rewrite Ess. destruct flushed.
    + rewrite Eu in Hj. assert (j = 0%nat) by lia. subst j. rewrite drop_tail_0.
      rewrite <- Ess, app_tail_recs by auto. subst rs. rewrite last_commit_ents_state.
      destruct hs; [specialize (Hc eq_refl); lia | exact Hlc0].
    + rewrite Eu in Hj. destruct (Nat.le_gt_cases (length rs) j) as [G|G].
      * rewrite drop_tail_app_tail_ge by exact G. rewrite <- Ess. apply Hcm. lia.
      * rewrite drop_tail_app_tail_le by lia.
        (* rs is a single hard state and j = 0 *)
        assert (El0 : l = []) by (apply Hflu; reflexivity).
        subst rs. rewrite El0 in *. simpl in *. destruct hs; simpl in *; [|lia].
        assert (j = 0%nat) by lia. subst j. simpl.
        rewrite <- Ess, app_tail_recs by auto. rewrite last_commit_snoc_state. specialize (Hc eq_refl). lia.
  - rewrite newest_app_tail_nomark by auto. rewrite app_tail_recs by auto. rewrite pmarkers_app, Hm, app_nil_r. exact Hni.
  - rewrite newest_app_tail_nomark by auto. rewrite hd_first_app_tail. exact Hf.
  - rewrite newest_app_tail_nomark by auto. exact Hfile.
  - intros f Hin. destruct (Hfl f Hin) as [A|A]; [left; lia | right].
    eapply (flushed_state_app_tail s s' rs); eauto. rewrite Eu. destruct flushed; lia.
  - intros h m Hin. rewrite app_tail_recs, jumps_app in Hin by auto. unfold rs in Hin. rewrite jumps_ents_state, app_nil_r in Hin. eauto.
Qed.

(* the WAL marker of the snapshot at i: appended and flushed *)
Lemma newest_app_tail_marker : forall ss i, ss <> [] -> newest (app_tail ss [RSnap i]) = N.max (newest ss) i.
Proof.
  intros. unfold newest. rewrite app_tail_recs by auto. rewrite pmarkers_app, maxN_app. simpl. lia.
Qed.

Lemma pinv_marker : forall s s' hi i,
  PInv s hi ->
  segs s' = app_tail (segs s) [RSnap i] -> unflushed s' = 0%nat ->
  snapfiles s' = snapfiles s -> ckpts s' = ckpts s -> acked s' = acked s -> proposed s' = proposed s ->
  i <= hi -> i <= last_commit (all_recs (segs s)) ->
  (newest (segs s) < i -> In i (snapfiles s) /\ lookup i (ckpts s) = Some (range 0 i)) ->
  PInv s' hi.
Proof.
  intros s s' hi i P Es Eu Esf Eck Eac Epr Li Lc Hnew.
  pose proof (pinv_segs_nonempty _ _ P) as Hne.
  pose proof (pinv_lc0 _ _ P) as Hlc0.
  destruct P as [C Ha Hp Ht Hh Hcm Hni Hf Hfile Hz Hnd Hfl Hck Hjm].
  destruct Ht as [pre [sl [body [tl [Ess [Esl [Etl [Hst Hhead]]]]]]]].
  constructor; rewrite ?Es, ?Esf, ?Eck, ?Eac, ?Epr, ?Eu; auto.
  - rewrite lo_of_app_tail. eapply seg_chain_app_tail; eauto.
    + simpl. rewrite range_nil by lia. reflexivity.
    + lia.
    + simpl. intros x [<-|[]]. exact Li.
  - rewrite Ess, app_tail_snoc.
    exists pre, (mkSeg (sfirst sl) (srecs sl ++ [RSnap i])), (srecs sl ++ [RSnap i]), []. simpl.
    rewrite app_nil_r. repeat split; auto.
    intros Hp'. destruct (Hhead Hp') as [c0 [b' Eb]]. exists c0, (b' ++ tl ++ [RSnap i]).
    rewrite Esl, Eb. simpl. rewrite <- app_assoc. reflexivity.
  - intros pre0 x post Esp Hpre0.
    rewrite Ess, app_tail_snoc in Esp.
    destruct post as [|y post'].
    + apply app_inj_tail in Esp. destruct Esp as [Ep Ex]. subst pre0 x. simpl.
      destruct (Hh pre sl [] Ess Hpre0) as [c0 [rest Er]]. rewrite Er. simpl. eauto.
    + assert (Esp' : pre ++ [sl] = pre0 ++ x :: removelast (y :: post') ++ [sl]).
      { assert (Hl : y :: post' <> []) by congruence.
        rewrite (app_removelast_last (mkSeg 0 []) Hl) in Esp.
        change (pre0 ++ x :: (removelast (y :: post') ++ [last (y :: post') (mkSeg 0 [])])) with
               (pre0 ++ (x :: removelast (y :: post')) ++ [last (y :: post') (mkSeg 0 [])]) in Esp.
        rewrite app_assoc in Esp. apply app_inj_tail in Esp. destruct Esp as [Ep _].
        rewrite Ep. rewrite <- app_assoc. reflexivity. }
      rewrite <- Ess in Esp'. eapply Hh; eauto.
  - rewrite newest_app_tail_marker by auto.
    intros j Hj. assert (j = 0%nat) by lia. subst j. rewrite drop_tail_0.
    rewrite app_tail_recs by auto. rewrite last_commit_nostate by reflexivity. lia.
  - rewrite newest_app_tail_marker by auto. rewrite app_tail_recs by auto. rewrite pmarkers_app.
    apply in_or_app. destruct (N.max_spec (newest (segs s)) i) as [[_ ->]|[_ ->]]; [right; left; reflexivity | left; exact Hni].
  - rewrite newest_app_tail_marker by auto. rewrite hd_first_app_tail. lia.
  - rewrite newest_app_tail_marker by auto. intros Hpos.
    destruct (N.max_spec (newest (segs s)) i) as [[Hlt ->]|[Hge ->]].
    + apply Hnew. exact Hlt.
    + apply Hfile. lia.
  - intros f Hin. destruct (Hfl f Hin) as [A|A]; [left; exact A | right].
    eapply (flushed_state_app_tail s s' [RSnap i]); eauto. rewrite Eu. lia.
  - intros h m Hin. rewrite app_tail_recs, jumps_app in Hin by auto. simpl in Hin. rewrite app_nil_r in Hin. eauto.
Qed.

(* a cut: new tail segment named hi+1 beginning with the current hard state *)
Lemma pinv_cut : forall s s' hi c,
  PInv s hi -> unflushed s = 0%nat ->
  segs s' = segs s ++ [mkSeg (hi + 1) [RState c]] -> unflushed s' = 0%nat ->
  snapfiles s' = snapfiles s -> ckpts s' = ckpts s -> acked s' = acked s -> proposed s' = proposed s ->
  c = last_commit (all_recs (segs s)) ->
  PInv s' hi.
Proof.
  intros s s' hi c P U0 Es Eu Esf Eck Eac Epr Ec.
  pose proof (pinv_segs_nonempty _ _ P) as Hne.
  pose proof (pinv_lc0 _ _ P) as Hlc0.
  destruct P as [C Ha Hp Ht Hh Hcm Hni Hf Hfile Hz Hnd Hfl Hck Hjm].
  assert (Hnw : newest (segs s ++ [mkSeg (hi + 1) [RState c]]) = newest (segs s)).
  { unfold newest. rewrite all_recs_snoc, pmarkers_app. simpl. rewrite app_nil_r. reflexivity. }
  constructor; rewrite ?Es, ?Esf, ?Eck, ?Eac, ?Epr, ?Eu, ?Hnw; auto.
  - rewrite lo_of_snoc by auto. apply seg_chain_cut; auto.
  - exists (segs s), (mkSeg (hi + 1) [RState c]), [RState c], []. simpl. repeat split; eauto.
  - intros pre0 x post Esp Hpre0.
    destruct post as [|y post'].
    + apply app_inj_tail in Esp. destruct Esp as [_ Ex]. subst x. simpl. eauto.
    + assert (Hl : y :: post' <> []) by congruence.
      rewrite (app_removelast_last (mkSeg 0 []) Hl) in Esp.
      change (pre0 ++ x :: (removelast (y :: post') ++ [last (y :: post') (mkSeg 0 [])])) with
             (pre0 ++ (x :: removelast (y :: post')) ++ [last (y :: post') (mkSeg 0 [])]) in Esp.
      rewrite app_assoc in Esp. apply app_inj_tail in Esp. destruct Esp as [Ep _].
      eapply Hh; eauto.
  - intros j Hj. assert (j = 0%nat) by lia. subst j. rewrite drop_tail_0.
    rewrite all_recs_snoc. simpl. rewrite last_commit_snoc_state. lia.
  - rewrite all_recs_snoc, pmarkers_app. simpl. rewrite app_nil_r. exact Hni.
  - unfold hd_first in *. destruct (segs s); [congruence|]. simpl. exact Hf.
  - intros f Hin. destruct (Hfl f Hin) as [A|A]; [left; exact A | right].
    intros j Hj. rewrite Eu in Hj. assert (j = 0%nat) by lia. subst j. rewrite Es, drop_tail_0, all_recs_snoc.
    unfold has_state. rewrite existsb_app. simpl. apply orb_true_r.
  - intros h m Hin. rewrite all_recs_snoc, jumps_app in Hin. simpl in Hin. rewrite app_nil_r in Hin. eauto.
Qed.

(* the purge of the oldest WAL segment *)
Lemma has_state_cons : forall c rest, has_state (RState c :: rest) = true.
Proof. reflexivity. Qed.



Lemma pinv_purge_wal : forall s s' hi x y t,
  PInv s hi -> segs s = x :: y :: t -> segs s' = y :: t -> unflushed s' = unflushed s ->
  snapfiles s' = snapfiles s -> ckpts s' = ckpts s -> acked s' = acked s -> proposed s' = proposed s ->
  sfirst y <= newest (segs s) ->
  PInv s' hi /\ newest (segs s') = newest (segs s).
Proof.
  intros s s' hi x y t P Ess Es Eu Esf Eck Eac Epr Hy.
  destruct P as [C Ha Hp Ht Hh Hcm Hni Hf Hfile Hz Hnd Hfl Hck Hjm].
  rewrite Ess in *.
  pose proof C as C0. destruct C as [mid [Ex [Lx [Mx [Fy Cy]]]]].
  assert (Hin : In (newest (x :: y :: t)) (pmarkers (all_recs (y :: t)))).
  { rewrite all_recs_cons, pmarkers_app in Hni. apply in_app_or in Hni. destruct Hni as [Hni|Hni]; auto.
    apply Mx in Hni. lia. }
  assert (Hnw : newest (y :: t) = newest (x :: y :: t)).
  { unfold newest in *. rewrite (all_recs_cons x), pmarkers_app, maxN_app.
    assert (maxN (pmarkers (srecs x)) <= mid).
    { assert (G : forall l, (forall i, In i l -> i <= mid) -> maxN l <= mid).
      { induction l; simpl; intros; [lia|]. assert (a <= mid) by (apply H; left; auto).
        assert (maxN l <= mid) by (apply IHl; intros; apply H; right; auto). lia. }
      apply G. exact Mx. }
    rewrite (all_recs_cons x), pmarkers_app, maxN_app in Hy. lia. }
  split; [|rewrite Es; exact Hnw].
  destruct Ht as [pre [sl [body [tl [Esl0 [Esl [Etl [Hst Hhead]]]]]]]].
  assert (Hpre : exists pre', pre = x :: pre').
  { destruct pre as [|p0 pre']; simpl in Esl0; [injection Esl0 as _ E; discriminate|].
    injection Esl0 as -> _. eauto. }
  destruct Hpre as [pre' ->]. simpl in Esl0. injection Esl0 as Esl0.
  destruct (Hhead ltac:(congruence)) as [c0 [b' Eb]].
  (* the remaining segments begin with a flushed hard state *)
  assert (Hhs : forall j, (j <= unflushed s)%nat -> has_state (all_recs (drop_tail (y :: t) j)) = true).
  { intros j Hj. rewrite Esl0. destruct pre' as [|p1 pre''].
    + simpl. unfold all_recs. simpl. rewrite app_nil_r, Esl, Eb.
      rewrite app_length. replace (length (RState c0 :: b') + length tl - j)%nat with (length (RState c0 :: b') + (length tl - j))%nat by lia.
      rewrite firstn_app_2. reflexivity.
    + destruct (Hh [x] p1 (pre'' ++ [sl]) ltac:(rewrite Esl0; reflexivity) ltac:(congruence)) as [c1 [r1 E1]].
      change ((p1 :: pre'') ++ [sl]) with (p1 :: (pre'' ++ [sl])).
      destruct (pre'' ++ [sl]) eqn:Q; [destruct pre''; discriminate|].
      rewrite drop_tail_cons2, all_recs_cons, E1. reflexivity. }
  constructor; rewrite ?Es, ?Esf, ?Eck, ?Eac, ?Epr, ?Eu, ?Hnw; auto.
  - eapply seg_chain_tl; eauto.
  - exists pre', sl, body, tl. repeat split; auto. intros _. eauto.
  - intros pre0 x0 post Esp Hpre0. apply (Hh (x :: pre0) x0 post); [rewrite Esp; reflexivity | congruence].
  - intros j Hj. specialize (Hcm j Hj). rewrite drop_tail_cons2, all_recs_cons in Hcm.
    rewrite last_commit_suffix in Hcm; [exact Hcm|]. apply Hhs. exact Hj.
  - intros f Hfin. right. intros j Hj. rewrite Es. apply Hhs. rewrite <- Eu. exact Hj.
  - intros h m Hjin. apply (Hjm h m). rewrite all_recs_cons, jumps_app. apply in_or_app. right. exact Hjin.
Qed.

(* the crash images after the purge of the oldest segment keep their hard states and their last commit *)
Lemma purge_views : forall s hi x y t, PInv s hi -> segs s = x :: y :: t ->
  forall j, (j <= unflushed s)%nat ->
    has_state (all_recs (drop_tail (y :: t) j)) = true
    /\ last_commit (all_recs (drop_tail (y :: t) j)) = last_commit (all_recs (drop_tail (x :: y :: t) j)).
Proof.
  intros s hi x y t P Ess j Hj.
  destruct P as [C Ha Hp Ht Hh Hcm Hni Hf Hfile Hz Hnd Hfl Hck Hjm].
  rewrite Ess in *.
  destruct Ht as [pre [sl [body [tl [Esl0 [Esl [Etl [Hst Hhead]]]]]]]].
  assert (Hpre : exists pre', pre = x :: pre').
  { destruct pre as [|p0 pre']; simpl in Esl0; [injection Esl0 as _ E; discriminate|].
    injection Esl0 as -> _. eauto. }
  destruct Hpre as [pre' ->]. simpl in Esl0. injection Esl0 as Esl0.
  destruct (Hhead ltac:(congruence)) as [c0 [b' Eb]].
  assert (Hhs : has_state (all_recs (drop_tail (y :: t) j)) = true).
  { rewrite Esl0. destruct pre' as [|p1 pre''].
    + simpl. unfold all_recs. simpl. rewrite app_nil_r, Esl, Eb.
      rewrite app_length. replace (length (RState c0 :: b') + length tl - j)%nat with (length (RState c0 :: b') + (length tl - j))%nat by lia.
      rewrite firstn_app_2. reflexivity.
    + destruct (Hh [x] p1 (pre'' ++ [sl]) ltac:(rewrite Esl0; reflexivity) ltac:(congruence)) as [c1 [r1 E1]].
      change ((p1 :: pre'') ++ [sl]) with (p1 :: (pre'' ++ [sl])).
      destruct (pre'' ++ [sl]) eqn:Q; [destruct pre''; discriminate|].
      rewrite drop_tail_cons2, all_recs_cons, E1. reflexivity. }
  split; [exact Hhs|]. rewrite drop_tail_cons2, (all_recs_cons x). symmetry. apply last_commit_suffix. exact Hhs.
Qed.

(* the raft loop's clause when the oldest WAL segment is purged *)
Lemma rd_inv_purge_wal : forall s s' hi x y t,
  PInv s hi -> rd_inv s hi -> segs s = x :: y :: t -> segs s' = y :: t -> unflushed s' = unflushed s ->
  rdp s' = rdp s -> rs_last s' = rs_last s -> published s' = published s -> wstate s' = wstate s -> hcommit s' = hcommit s ->
  proposed s' = proposed s -> ckpts s' = ckpts s -> snapfiles s' = snapfiles s -> newest (segs s') = newest (segs s) -> app s' = app s ->
  rd_done s' = rd_done s -> rd_inv s' hi.
Proof.
  intros s s' hi x y t P H Ess Es Eu E3 E4 E5 E6 E7 E8 E10 E11 En Eap Erd.
  pose proof (purge_views s hi x y t P Ess) as PV.
  assert (H1 : last_commit (all_recs (segs s')) = last_commit (all_recs (segs s))).
  { rewrite Es, Ess. destruct (PV 0%nat ltac:(lia)) as [_ X]. rewrite !drop_tail_0 in X. exact X. }
  assert (H2 : forall i0, lc_all_lt s i0 -> lc_all_lt s' i0).
  { intros i0 L j Hj. rewrite Eu in Hj. rewrite Es. destruct (PV j Hj) as [_ X]. rewrite X, <- Ess. apply L. exact Hj. }
  assert (H3 : flushed_state s').
  { intros j Hj. rewrite Eu in Hj. rewrite Es. apply PV. exact Hj. }
  assert (H4 : forall i0, snap_tail s hi i0 -> snap_tail s' hi i0).
  { intros i0 [pre [sl [a [b [T1 [T2 T3]]]]]]. rewrite Ess in T1.
    destruct pre as [|p0 pre']; simpl in T1; [injection T1 as _ E; discriminate|]. injection T1 as -> T1.
    exists pre', sl, a, b. rewrite Es, T1. auto. }
  assert (H5 : forall i0 : N, (forall j, (0 < j <= unflushed s)%nat -> last_commit (all_recs (drop_tail (segs s) j)) < i0) ->
               (forall j, (0 < j <= unflushed s')%nat -> last_commit (all_recs (drop_tail (segs s') j)) < i0)).
  { intros i0 L j Hj. rewrite Eu in Hj. rewrite Es. destruct (PV j ltac:(lia)) as [_ X]. rewrite X, <- Ess. apply L. exact Hj. }
  unfold rd_inv, window, snapfacts, ckpt_ok, pubcl, rlast in *.
  rewrite E3, E4, E5, E6, E7, E8, E10, E11, H1, En, Eap.
  destruct (rdp s) as [|r sv pb|r pb apd|r pb idx|r|r fl|r|r k|r k cidx]; auto.
  - destruct (0 <? r_snap r); destruct sv; intuition.
  - destruct (0 <? r_snap r); destruct apd; intuition.
  - destruct (0 <? r_snap r); [exact H|]. rewrite Eu. exact H.
  - intuition.
  - intuition.
  - rewrite Erd, ?Eu. exact H.
Qed.

(* changes of the snap directory and of the checkpoint directory only *)
Lemma pinv_files : forall s s' hi,
  PInv s hi -> segs s' = segs s -> unflushed s' = unflushed s -> acked s' = acked s -> proposed s' = proposed s ->
  (0 < newest (segs s) -> In (newest (segs s)) (snapfiles s') /\ lookup (newest (segs s)) (ckpts s') = Some (range 0 (newest (segs s)))) ->
  ~ In 0 (snapfiles s') -> NoDup (snapfiles s') -> (forall f, In f (snapfiles s') -> f <= hi \/ flushed_state s) ->
  (forall i l, lookup i (ckpts s') = Some l -> l = range 0 i) ->
  PInv s' hi.
Proof.
  intros s s' hi [] E1 E2 E3 E4 H1 H2 H3 H5 H4. unfold flushed_state in *.
  constructor; unfold flushed_state; rewrite ?E1, ?E2, ?E3, ?E4; auto.
Qed.

(* a process death: j buffered hard states never reached the file *)
Lemma firstn_app_states : forall (body tl : list rec) j, (j <= length tl)%nat ->
  firstn (length (body ++ tl) - j) (body ++ tl) = body ++ firstn (length tl - j) tl.
Proof.
  intros. rewrite app_length. replace (length body + length tl - j)%nat with (length body + (length tl - j))%nat by lia.
  apply firstn_app_2.
Qed.

Lemma forallb_firstn : forall (A : Type) (f : A -> bool) l n, forallb f l = true -> forallb f (firstn n l) = true.
Proof.
  induction l; intros; destruct n; simpl in *; auto.
  apply andb_true_iff in H. destruct H. rewrite H. simpl. auto.
Qed.

Lemma pinv_crash : forall s s' hi j,
  PInv s hi -> (j <= unflushed s)%nat ->
  segs s' = drop_tail (segs s) j -> unflushed s' = 0%nat ->
  snapfiles s' = snapfiles s -> ckpts s' = ckpts s -> acked s' = acked s -> proposed s' = proposed s ->
  PInv s' hi /\ newest (segs s') = newest (segs s).
Proof.
  intros s s' hi j P Hj Es Eu Esf Eck Eac Epr.
  destruct P as [C Ha Hp Ht Hh Hcm Hni Hf Hfile Hz Hnd Hfl Hck Hjm].
  destruct Ht as [pre [sl [body [tl [Ess [Esl [Etl [Hst Hhead]]]]]]]].
  assert (Hdrop : drop_tail (segs s) j = pre ++ [mkSeg (sfirst sl) (body ++ firstn (length tl - j) tl)]).
  { rewrite Ess, drop_tail_snoc, Esl, firstn_app_states by lia. reflexivity. }
  assert (Hst' : forallb is_state (firstn (length tl - j) tl) = true) by (apply forallb_firstn; exact Hst).
  assert (Hrec : all_recs (drop_tail (segs s) j) = all_recs pre ++ body ++ firstn (length tl - j) tl).
  { rewrite Hdrop, all_recs_snoc. reflexivity. }
  assert (Hrec0 : all_recs (segs s) = all_recs pre ++ body ++ tl).
  { rewrite Ess, all_recs_snoc, Esl. reflexivity. }
  assert (Hmk : pmarkers (all_recs (drop_tail (segs s) j)) = pmarkers (all_recs (segs s))).
  { rewrite Hrec, Hrec0, !pmarkers_app, !(pmarkers_states _ Hst), !(pmarkers_states _ Hst'). reflexivity. }
  assert (Hnw : newest (drop_tail (segs s) j) = newest (segs s)) by (unfold newest; rewrite Hmk; reflexivity).
  split; [|rewrite Es; exact Hnw].
  constructor; rewrite ?Es, ?Esf, ?Eck, ?Eac, ?Epr, ?Eu, ?Hnw; auto.
  - (* chain *)
    replace (lo_of (drop_tail (segs s) j)) with (lo_of (segs s)).
    2:{ unfold lo_of. f_equal. rewrite Ess, drop_tail_snoc. destruct pre; reflexivity. }
    eapply seg_chain_ext; eauto.
    + apply drop_tail_firsts.
    + rewrite Hdrop, Ess, !map_app. f_equal. simpl. rewrite Esl, !entries_app, (entries_states _ Hst), (entries_states _ Hst'). reflexivity.
    + rewrite Hdrop, Ess, !map_app. f_equal. simpl. rewrite Esl, !pmarkers_app, (pmarkers_states _ Hst), (pmarkers_states _ Hst'). reflexivity.
  - rewrite Hdrop. exists pre, (mkSeg (sfirst sl) (body ++ firstn (length tl - j) tl)), (body ++ firstn (length tl - j) tl), [].
    simpl. rewrite app_nil_r. repeat split; auto.
    intros Hp'. destruct (Hhead Hp') as [c0 [b' Eb]]. rewrite Eb. simpl. eauto.
  - intros pre0 x post Esp Hpre0. rewrite Hdrop in Esp.
    destruct post as [|y post'].
    + apply app_inj_tail in Esp. destruct Esp as [Ep Ex]. subst pre0 x. simpl.
      destruct (Hhead Hpre0) as [c0 [b' Eb]]. rewrite Eb. simpl. eauto.
    + assert (Hl : y :: post' <> []) by congruence.
      rewrite (app_removelast_last (mkSeg 0 []) Hl) in Esp.
      change (pre0 ++ x :: (removelast (y :: post') ++ [last (y :: post') (mkSeg 0 [])])) with
             (pre0 ++ (x :: removelast (y :: post')) ++ [last (y :: post') (mkSeg 0 [])]) in Esp.
      rewrite app_assoc in Esp. apply app_inj_tail in Esp. destruct Esp as [Ep _].
      apply (Hh pre0 x (removelast (y :: post') ++ [sl])); [|exact Hpre0].
      rewrite Ess, Ep, <- app_assoc. reflexivity.
  - intros j' Hj'. assert (j' = 0%nat) by lia. subst j'. rewrite drop_tail_0. apply Hcm. exact Hj.
  - rewrite Hmk. exact Hni.
  - unfold hd_first in *. rewrite Hdrop.
    assert (HH : sfirst (hd (mkSeg 0 []) (pre ++ [sl])) <= newest (segs s)) by (rewrite <- Ess; exact Hf).
    destruct pre; simpl in *; exact HH.
  - intros f Hfin. destruct (Hfl f Hfin) as [A|A]; [left; exact A | right].
    intros j' Hj'. rewrite Eu in Hj'. assert (j' = 0%nat) by lia. subst j'. rewrite Es, drop_tail_0. apply A. exact Hj.
  - intros h m Hjin. apply (Hjm h m). rewrite Hrec0. rewrite Hrec in Hjin.
    rewrite !jumps_app in *. rewrite (jumps_local _ (local_states _ Hst')) in Hjin. rewrite (jumps_local _ (local_states _ Hst)). exact Hjin.
Qed.


(* ---------- the record of an incoming snapshot becomes valid ---------- *)

Lemma last_commit_mid : forall x v h i y, last_commit (x ++ RSnapIn v h i :: y) = last_commit (x ++ RSnapIn (negb v) h i :: y).
Proof. intros. rewrite !last_commit_app. reflexivity. Qed.

Lemma has_state_mid : forall x v h i y, has_state (x ++ RSnapIn v h i :: y) = has_state (x ++ y).
Proof. intros. unfold has_state. rewrite !existsb_app. reflexivity. Qed.

Lemma maxN_le : forall l m, (forall x, In x l -> x <= m) -> maxN l <= m.
Proof. induction l; simpl; intros; [lia|]. assert (a <= m) by (apply H; left; auto). assert (maxN l <= m) by (apply IHl; intros; apply H; right; auto). lia. Qed.

Lemma pinv_validate : forall s s' hi i,
  PInv s hi -> snap_tail s hi i -> hi < i -> i <= proposed s ->
  segs s' = validated i (segs s) -> unflushed s' = 0%nat ->
  i <= last_commit (all_recs (segs s)) ->
  In i (snapfiles s) -> ckpt_ok s i ->
  snapfiles s' = snapfiles s -> ckpts s' = ckpts s -> acked s' = acked s -> proposed s' = proposed s ->
  PInv s' i /\ newest (segs s') = i
  /\ last_commit (all_recs (segs s')) = last_commit (all_recs (segs s))
  /\ (forall u, In u (unvalidated (all_recs (segs s'))) -> In u (unvalidated (all_recs (segs s))))
  /\ (forall m, In m (pmarkers (all_recs (segs s'))) <-> m = i \/ In m (pmarkers (all_recs (segs s))))
  /\ map sfirst (segs s') = map sfirst (segs s).
Proof.
  intros s s' hi i P [pre [sl [a [b [Ess [Esl Hb]]]]]] Hlt Hpr Es Eu Hlc Hfile Hck Esf Eck Eac Epr.
  pose proof (pinv_newest_le_hi _ _ P) as Hnh.
  destruct P as [C Ha Hp Ht Hh Hcm Hni Hf Hfil Hz Hnd Hfl Hckp Hjm].
  assert (Es' : segs s' = pre ++ [mkSeg (sfirst sl) (a ++ RSnapIn true hi i :: b)]).
  { rewrite Es. unfold validated. rewrite Ess, validate_segs_snoc, Esl, validate_recs_found by exact Hb. reflexivity. }
  assert (Eo : all_recs (segs s) = (all_recs pre ++ a) ++ RSnapIn false hi i :: b).
  { rewrite Ess, all_recs_snoc, Esl, app_assoc. reflexivity. }
  assert (En : all_recs (segs s') = (all_recs pre ++ a) ++ RSnapIn true hi i :: b).
  { rewrite Es', all_recs_snoc. simpl. rewrite app_assoc. reflexivity. }
  assert (Hpm : forall m, In m (pmarkers (all_recs (segs s'))) <-> m = i \/ In m (pmarkers (all_recs (segs s)))).
  { intros m. rewrite En, Eo, !pmarkers_mid. simpl. rewrite !in_app_iff. simpl. intuition. }
  assert (Hold : forall m, In m (pmarkers (all_recs (segs s))) -> m <= hi).
  { intros m Hm. eapply seg_chain_markers; eauto. }
  assert (Hnw : newest (segs s') = i).
  { unfold newest. apply N.le_antisymm.
    - apply maxN_le. intros x Hx. apply Hpm in Hx. destruct Hx as [->|Hx]; [lia | specialize (Hold x Hx); lia].
    - apply maxN_ge. apply Hpm. left. reflexivity. }
  assert (Hlcs : last_commit (all_recs (segs s')) = last_commit (all_recs (segs s))).
  { rewrite En, Eo. apply (last_commit_mid _ true). }
  split; [|split; [exact Hnw|split; [exact Hlcs|split; [|split; [exact Hpm|]]]]].
  - constructor; rewrite ?Esf, ?Eck, ?Eac, ?Epr, ?Hnw, ?Eu; auto.
    + (* chain *)
      rewrite Es'. replace (lo_of (pre ++ [mkSeg (sfirst sl) (a ++ RSnapIn true hi i :: b)])) with (lo_of (segs s)).
      2:{ rewrite Ess. unfold lo_of. destruct pre; reflexivity. }
      apply seg_chain_validate; auto. rewrite Ess in C at 2. destruct sl as [f0 r0]. simpl in *. subst r0. exact C.
    + lia.
    + (* tail *)
      exists pre, (mkSeg (sfirst sl) (a ++ RSnapIn true hi i :: b)), (a ++ RSnapIn true hi i :: b), []. rewrite app_nil_r.
      split; [exact Es'|]. split; [reflexivity|]. split; [reflexivity|]. split; [reflexivity|].
      intros Hpre. destruct (Hh pre sl [] Ess Hpre) as [c0 [rest Er]]. rewrite Esl in Er.
      destruct a as [|a0 a']; simpl in Er; [discriminate|]. injection Er as -> Er. simpl. eauto.
    + (* heads *)
      intros pre0 x post Esp Hpre0. rewrite Es' in Esp.
      destruct post as [|y post'].
      * apply app_inj_tail in Esp. destruct Esp as [Ep Ex]. subst pre0 x. simpl.
        destruct (Hh pre sl [] Ess Hpre0) as [c0 [rest Er]]. rewrite Esl in Er.
        destruct a as [|a0 a']; simpl in Er; [discriminate|]. injection Er as -> Er. simpl. eauto.
      * assert (Hl : y :: post' <> []) by congruence.
        rewrite (app_removelast_last (mkSeg 0 []) Hl) in Esp.
        change (pre0 ++ x :: (removelast (y :: post') ++ [last (y :: post') (mkSeg 0 [])])) with
               (pre0 ++ (x :: removelast (y :: post')) ++ [last (y :: post') (mkSeg 0 [])]) in Esp.
        rewrite app_assoc in Esp. apply app_inj_tail in Esp. destruct Esp as [Ep _].
        apply (Hh pre0 x (removelast (y :: post') ++ [sl])); [|exact Hpre0].
        rewrite Ess, Ep, <- app_assoc. reflexivity.
    + intros j Hj. assert (j = 0%nat) by lia. subst j. rewrite drop_tail_0, Hlcs. exact Hlc.
    + apply Hpm. left. reflexivity.
    + assert (Hhd : hd_first (segs s') = hd_first (segs s)) by (unfold hd_first; rewrite Es', Ess; destruct pre; reflexivity).
      rewrite Hhd. lia.
    + intros f Hfin. destruct (Hfl f Hfin) as [A|A]; [left; lia | right].
      intros j Hj. assert (j = 0%nat) by lia. subst j. rewrite drop_tail_0, En, has_state_mid.
      specialize (A 0%nat ltac:(lia)). rewrite drop_tail_0, Eo, has_state_mid in A. exact A.
    + intros h m Hin. rewrite En in Hin. unfold jumps in Hin. rewrite flat_map_app in Hin. simpl in Hin.
      apply in_app_or in Hin. destruct Hin as [Hin|[Hin|Hin]].
      * apply (Hjm h m). rewrite Eo. unfold jumps. rewrite flat_map_app. apply in_or_app. left. exact Hin.
      * injection Hin as <- <-. exact Hlt.
      * apply (Hjm h m). rewrite Eo. unfold jumps. rewrite flat_map_app. apply in_or_app. right. simpl. exact Hin.
  - intros u Hu. rewrite En in Hu. rewrite Eo. unfold unvalidated in *. rewrite flat_map_app in *. simpl in *.
    apply in_app_or in Hu. apply in_or_app. destruct Hu as [Hu|Hu]; [left; exact Hu | right; right; exact Hu].
  - rewrite Es', Ess, !map_app. reflexivity.
Qed.

(* dropping buffered hard states does not touch the incoming markers *)
Lemma drop_tail_unvalidated : forall s hi j, PInv s hi -> (j <= unflushed s)%nat ->
  unvalidated (all_recs (drop_tail (segs s) j)) = unvalidated (all_recs (segs s)).
Proof.
  intros s hi j P Hj. destruct (p_tail _ _ P) as [pre [sl [body [tl [Ess [Esl [Etl [Hst _]]]]]]]].
  assert (Hst' : forallb is_state (firstn (length tl - j) tl) = true) by (apply forallb_firstn; exact Hst).
  rewrite Ess, drop_tail_snoc, Esl, firstn_app_states by lia. rewrite !all_recs_snoc. simpl. rewrite Esl.
  rewrite !unvalidated_app. rewrite (unvalidated_local _ (local_states _ Hst)), (unvalidated_local _ (local_states _ Hst')). reflexivity.
Qed.
