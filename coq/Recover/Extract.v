(* Recover/Extract.v — extraction of the C06 path model (ExtrOcamlBasic only) *)
From Coq Require Import ExtrOcamlBasic ZArith NArith.
From ZV Require Import Recover.Consts Recover.Path.
Extraction Language OCaml.
Extraction "model.ml" Z.of_N N.of_nat Nat.add init_state step run run_from listing recover_state recover_state_isolated recover
  choose_snapshot read_all image inflight sched_holds ready_records mkConfig mkReady.
