(* Recover/ProofsStepC.v — the invariant is preserved by a process death and by the steps of the restart. *)
From Coq Require Import NArith List Bool Lia Arith.
From Coq Require Import ZifyN ZifyNat ZifyBool.
From ZV Require Import Recover.Consts Recover.Path Recover.ProofsWal Recover.ProofsLists Recover.ProofsWal2 Recover.ProofsInv Recover.ProofsStepA.
Import ListNotations.
Open Scope N_scope.

Arguments N.add : simpl never.
Arguments N.sub : simpl never.
Arguments N.max : simpl never.
Arguments N.to_nat : simpl never.

Lemma pinv_choose : forall s hi, PInv s hi -> unflushed s = 0%nat ->
  choose_snapshot (segs s) (snapfiles s) = if 0 <? newest (segs s) then Some (newest (segs s)) else None.
Proof.
  intros s hi P U. apply choose_newest.
  - apply (p_new_in _ _ P).
  - intros i Hi. apply newest_ge. exact Hi.
  - pose proof (p_commit _ _ P 0%nat ltac:(lia)) as H. rewrite drop_tail_0 in H. exact H.
  - apply (p_nozero _ _ P).
  - intros Hp. apply (p_file _ _ P Hp).
Qed.

Lemma restoring_ok : forall c s hi, (if running s then VInv c s hi else RInv s) ->
  forall i, restoring s = Some i -> i = newest (segs s) /\ 0 < i.
Proof.
  intros c s hi HV i Hi. destruct (running s).
  - destruct HV. destruct v_pgwal as [_ Pr]. congruence.
  - destruct HV as [_ [_ [_ [_ [_ [_ [_ [_ [_ [Hrs _]]]]]]]]]]. apply Hrs. exact Hi.
Qed.

(* ---------- process death ---------- *)

(* no incoming snapshot is being persisted (runs of a replica that never gets one) *)
Lemma pending_none : forall c s hi, (if running s then VInv c s hi else RInv s) -> pending s = None.
Proof.
  intros c s hi HV. unfold pending. destruct (running s).
  - destruct HV. unfold rd_inv in v_rd. destruct (rdp s) as [|r sv pb|r pb apd|r pb idx|r|r fl|r|r k]; try reflexivity; try contradiction.
    + assert (X : r_snap r = 0) by (destruct sv; tauto). rewrite X. reflexivity.
    + assert (X : r_snap r = 0) by (destruct apd; tauto). rewrite X. reflexivity.
    + assert (X : r_snap r = 0) by tauto. rewrite X. reflexivity.
  - destruct HV as [_ [Hr _]]. rewrite Hr. reflexivity.
Qed.

Lemma step_crash : forall c s s' j extra, Inv c s -> step c s (EvCrash j extra) = Ok s' -> Inv c s'.
Proof.
  intros c s s' j extra [hi [HP HV]] H. unfold step in H.
  destruct (image s j extra) as [ss|] eqn:Im; [|discriminate]. injection H as <-.
  unfold image, norm_image in Im. rewrite (pending_none c s hi HV) in Im. destruct extra as [|e'].
  - (* nothing of a save in flight reached the file *)
    destruct (Nat.leb j (unflushed s)) eqn:Lj; [|discriminate]. injection Im as <-. apply Nat.leb_le in Lj.
    destruct (pinv_crash s (reset_volatile (set_segs s (drop_tail (segs s) j))) hi j HP Lj) as [HP' Hnw]; try reflexivity.
    exists hi. split; [exact HP'|].
    unfold running, RInv. proj. repeat split; try reflexivity; try discriminate.
    + destruct (restoring_ok c s hi HV i H) as [A B]. rewrite Hnw. exact A.
    + destruct (restoring_ok c s hi HV i H) as [A B]. exact B.
  - (* a prefix of the records of the save in flight reached the file *)
    destruct (rdp s) as [| | r pb apd | | | | |] eqn:Er; try discriminate. destruct apd; try discriminate.
    destruct j; [|discriminate].
    remember (S e') as ex eqn:Eex.
    destruct (Nat.leb ex (length (ready_records r))) eqn:Le; [|discriminate]. injection Im as <-.
    assert (Hrun : running s = true).
    { destruct (running s) eqn:Q; auto. destruct HV as [_ [Hr _]]. congruence. }
    rewrite Hrun in HV. destruct HV as [v_rd _ _ _ v_ws _ _ _ _ _ _ _ _ _ v_pgw _].
    unfold rd_inv in v_rd. rewrite Er in v_rd. destruct v_rd as [[F1 [F2 F3]] [[Uhi [Uw [Uh Uc]]] _]].
    destruct (save_entries_range s r hi Uhi F1) as [Erange Lrange].
    rewrite ready_records_eq, Erange.
    destruct (firstn_ents_state ex hi (rlast s r) (if r_hs r then [RState (r_commit r)] else []) Lrange)
      as [b' [st' [Ef [Hb Hst]]]].
    rewrite Ef.
    assert (Hst2 : exists hs' : bool, st' = if hs' then [RState (r_commit r)] else []).
    { destruct Hst as [->|[_ ->]]; [exists false; reflexivity|].
      destruct (r_hs r); [|exists false; destruct (ex - N.to_nat (rlast s r - hi))%nat; reflexivity].
      destruct (ex - N.to_nat (rlast s r - hi))%nat as [|n0]; [exists false; reflexivity | exists true; destruct n0; reflexivity]. }
    destruct Hst2 as [hs' ->].
    assert (HP' : PInv (reset_volatile (set_segs s (app_tail (segs s) (map REnt (range hi b') ++ (if hs' then [RState (r_commit r)] else []))))) b').
    { apply (pinv_save s _ hi b' (range hi b') hs' (r_commit r) true HP); try reflexivity; try lia.
      - unfold rlast in *. destruct (0 <? r_n r) eqn:Q; [destruct (F1 ltac:(lia)) as [_ [_ Fp]]; lia | destruct HP; lia].
      - intros Hh. subst hs'. destruct Hst as [Hst|[_ Hst]].
        + destruct (r_hs r); discriminate.
        + destruct (r_hs r) eqn:Qh; [apply Uh; reflexivity|]. destruct (ex - N.to_nat (rlast s r - hi))%nat; discriminate. }
    exists b'. split; [exact HP'|].
    unfold running, RInv. proj. destruct v_pgw as [_ Prs]. repeat split; try reflexivity; try discriminate; exfalso; congruence.
Qed.

(* ---------- the restart ---------- *)

Ltac rinv HV U Hrd Hap Hsn Hck Hpw Hps Hq Hrc :=
  let Hws := fresh "Hws" in let Hrs := fresh "Hrs" in
  destruct HV as [U [Hrd [Hap [Hsn [Hck [Hpw [Hps [Hq [Hws [Hrs Hrc]]]]]]]]]].

Lemma not_running_rc : forall s, running s = false -> rc s <> RcRunning.
Proof. intros s H. unfold running in H. destruct (rc s); congruence. Qed.

Ltac rinv_open HV R :=
  unfold running in HV; rewrite R in HV; cbv iota in HV; unfold RInv in HV; rewrite R in HV.

Lemma step_rc_chosen : forall c s s' i, fixed c -> Inv c s -> step c s (EvRcChosen i) = Ok s' -> Inv c s'.
Proof.
  intros c s s' i [_ [Hfx _]] [hi [HP HV]] H. unfold step in H. rewrite Hfx in H.
  destruct (rc s) eqn:R; try discriminate.
  destruct (restore_pending s) eqn:Rp; [discriminate|].
  rinv_open HV R. rinv HV U Hrd Hap Hsn Hck Hpw Hps Hq Hrc. destruct Hrc as [Hlat Heng].
  rewrite (pinv_choose _ _ HP U) in H.
  destruct (0 <? newest (segs s)) eqn:Q; [|discriminate].
  destruct (i =? newest (segs s)) eqn:Qi; [|discriminate]. injection H as <-.
  exists hi. split.
  - apply (pinv_files s); try reflexivity; try exact HP; proj.
    + intros Hp. destruct (p_file _ _ HP Hp) as [A B]. split; [apply remove_orphans_keeps; exact A | exact B].
    + intros Hz. apply remove_orphans_In in Hz. destruct Hz as [Hz _]. exact (p_nozero _ _ HP Hz).
    + apply remove_orphans_NoDup. exact (p_nodup _ _ HP).
    + intros f Hf. apply remove_orphans_In in Hf. destruct Hf as [Hf _]. exact (p_files_le _ _ HP f Hf).
    + exact (p_ckpts _ _ HP).
  - unfold running, RInv. proj. repeat split; auto; try lia; try discriminate.
    + intros f Hf. apply remove_orphans_In in Hf. destruct Hf as [_ [Hv|[c0 [Ec Hle]]]].
      * apply valid_markers_sub in Hv. apply newest_ge. exact Hv.
      * injection Ec as <-. exact Hle.
Qed.

Lemma step_rc_none : forall c s s', fixed c -> Inv c s -> step c s EvRcNone = Ok s' -> Inv c s'.
Proof.
  intros c s s' [_ [Hfx _]] [hi [HP HV]] H. unfold step in H. rewrite Hfx in H.
  destruct (rc s) eqn:R; try discriminate.
  destruct (restore_pending s) eqn:Rp; [discriminate|].
  rinv_open HV R. rinv HV U Hrd Hap Hsn Hck Hpw Hps Hq Hrc. destruct Hrc as [Hlat Heng].
  rewrite (pinv_choose _ _ HP U) in H.
  destruct (0 <? newest (segs s)) eqn:Q; [discriminate|]. injection H as <-.
  assert (Hn0 : newest (segs s) = 0) by lia.
  assert (Hempty : remove_orphans (segs s) (snapfiles s) None = []).
  { destruct (remove_orphans (segs s) (snapfiles s) None) as [|f l] eqn:El; [reflexivity|exfalso].
    assert (Hf : In f (remove_orphans (segs s) (snapfiles s) None)) by (rewrite El; left; reflexivity).
    apply remove_orphans_In in Hf. destruct Hf as [Hin [Hv|[c0 [Ec _]]]]; [|discriminate].
    apply valid_markers_sub in Hv. apply newest_ge in Hv.
    assert (f = 0) by lia. subst f. exact (p_nozero _ _ HP Hin). }
  exists hi. split.
  - apply (pinv_files s); try reflexivity; try exact HP; proj; rewrite ?Hempty.
    + intros Hp. lia.
    + intros [].
    + constructor.
    + intros f [].
    + exact (p_ckpts _ _ HP).
  - unfold running, RInv. proj. rewrite Hempty. repeat split; auto; discriminate.
Qed.

(* restoreFromPath: marker written, data directory emptied (the restore of the chosen snapshot, or the one a previous
   life did not finish) *)
Lemma step_rs_removed : forall c s s' i, Inv c s -> step c s (EvRsRemoved i) = Ok s' -> Inv c s'.
Proof.
  intros c s s' i [hi [HP HV]] H. unfold step in H.
  destruct (rc s) eqn:R; try discriminate.
  - (* at OpenRockDB *)
    destruct (restoring s) as [j|] eqn:Rs; [|discriminate].
    destruct (negb (i =? j)); [discriminate|]. destruct (lookup j (ckpts s)); [|discriminate]. injection H as <-.
    rinv_open HV R. rinv HV U Hrd Hap Hsn Hck Hpw Hps Hq Hrc.
    exists hi. split; [pframe s|].
    unfold running, RInv. proj. rewrite R. destruct Hrc as [A B]. repeat split; auto; try discriminate; apply Hrs; assumption.
  - destruct (negb (i =? i0)); [discriminate|]. destruct (lookup i0 (ckpts s)); [|discriminate]. injection H as <-.
    rinv_open HV R. rinv HV U Hrd Hap Hsn Hck Hpw Hps Hq Hrc.
    exists hi. split; [pframe s|].
    unfold running, RInv. proj. rewrite R. destruct Hrc as [A [B [C [D E]]]]. repeat split; auto.
    all: try (match goal with Hk : Some _ = Some _ |- _ => injection Hk as <- end; assumption).
    all: try (intros l9 Hl; discriminate).
  - (* RestoreFromSnapshot of an incoming snapshot: not reached by a replica that never gets one *)
    exfalso. destruct (app s) eqn:Ea; try discriminate.
    unfold running in HV. rewrite R in HV. destruct HV. rewrite Ea in v_app. exact v_app.
Qed.

Lemma step_rs_copied : forall c s s' i, Inv c s -> step c s (EvRsCopied i) = Ok s' -> Inv c s'.
Proof.
  intros c s s' i [hi [HP HV]] H. unfold step in H.
  destruct (rc s) eqn:R; try discriminate.
  - destruct (restoring s) as [j|] eqn:Rs; [|discriminate].
    destruct (negb (i =? j)); [discriminate|]. destruct (lookup j (ckpts s)) as [l0|] eqn:L; [|discriminate]. injection H as <-.
    rinv_open HV R. rinv HV U Hrd Hap Hsn Hck Hpw Hps Hq Hrc.
    exists hi. split; [pframe s|].
    unfold running, RInv. proj. rewrite R. destruct Hrc as [A B]. destruct (Hrs j Rs) as [Hj1 Hj2].
    repeat split; auto; try (apply Hrs; assumption).
    (* the engine holds the state of the newest snapshot again (startRaft will clean or restore it anyway) *)
    intros l9 Hl9. injection Hl9 as <-. rewrite <- Hj1. eapply p_ckpts; eauto.
  - destruct (negb (i =? i0)); [discriminate|]. destruct (lookup i0 (ckpts s)) as [l0|] eqn:L; [|discriminate]. injection H as <-.
    rinv_open HV R. rinv HV U Hrd Hap Hsn Hck Hpw Hps Hq Hrc.
    exists hi. split; [pframe s|].
    unfold running, RInv. proj. rewrite R. destruct Hrc as [A [B [C [D E]]]]. repeat split; auto.
    all: try solve [intros l9 Hl9; injection Hl9 as <-; eapply p_ckpts; eauto].
    all: try solve [intros; discriminate].
    all: apply Hrs; assumption.
  - (* RestoreFromSnapshot of an incoming snapshot: not reached by a replica that never gets one *)
    exfalso. destruct (app s) eqn:Ea; try discriminate.
    unfold running in HV. rewrite R in HV. destruct HV. rewrite Ea in v_app. exact v_app.
Qed.

Lemma step_rs_marker_gone : forall c s s', Inv c s -> step c s EvRsMarkerGone = Ok s' -> Inv c s'.
Proof.
  intros c s s' [hi [HP HV]] H. unfold step in H.
  destruct (restoring s) as [j|] eqn:Rs; [|discriminate]. destruct (engine s) eqn:En; [|discriminate].
  destruct (running s) eqn:Rn.
  { exfalso. destruct (app s) eqn:Ea; try discriminate. destruct HV. rewrite Ea in v_app. exact v_app. }
  simpl in H. injection H as <-.
  exists hi. split; [pframe s|].
  unfold running in *. proj. destruct (rc s) eqn:R; try discriminate; unfold RInv in *; proj; rewrite R in *;
    decompose [and] HV; repeat split; auto; try discriminate.
Qed.

Lemma step_rc_restored : forall c s s' i, Inv c s -> step c s (EvRcRestored i) = Ok s' -> Inv c s'.
Proof.
  intros c s s' i [hi [HP HV]] H. unfold step in H.
  destruct (rc s) eqn:R; try discriminate.
  destruct (engine s) as [l0|] eqn:En; [|discriminate].
  destruct (negb (i =? i0)); [discriminate|]. injection H as <-.
  rinv_open HV R. rinv HV U Hrd Hap Hsn Hck Hpw Hps Hq Hrc.
  destruct Hrc as [A [B [C [D E]]]].
  assert (Hv : forall j, newest (segs s) <= j -> ~ In j (purge_victims (eff_keep_ckpt c) (latest s) (map fst (ckpts s)))).
  { intros j Hj Hin. apply purge_victims_lt in Hin. lia. }
  exists hi. split.
  - apply (pinv_files s); try reflexivity; try exact HP; proj; try (destruct HP; assumption).
    + intros Hp. destruct (p_file _ _ HP Hp) as [X Y]. split; [exact X|]. rewrite lookup_purge_ckpts by (apply Hv; lia). exact Y.
    + intros j l1 Hl. apply lookup_purge_ckpts_some in Hl. eapply p_ckpts; eauto.
  - unfold running, RInv. proj. repeat split; auto; try discriminate. rewrite En. f_equal. apply E. exact En.
Qed.

(* a node on a fresh WAL (first start, or a WAL found without any raft state) *)
Lemma inv_fresh : forall c cks pr,
  (forall i l, lookup i cks = Some l -> l = range 0 i) ->
  Inv c (mkState [mkSeg 0 [RSnap 0]] 0 0 [] cks (Some []) [] None RcRunning 0 false 0 0 0 RdIdle 0 0 0 0 [] ApIdle 0 0 [] CkIdle false None 0 pr).
Proof.
  intros c cks pr Hck. exists 0. split.
  - constructor; proj.
    + unfold lo_of. simpl. split; [reflexivity|]. split; [lia|]. intros i [<-|[]]. lia.
    + lia.
    + lia.
    + exists [], (mkSeg 0 [RSnap 0]), [RSnap 0], []. simpl. repeat split; auto. intros Hx; congruence.
    + intros pre x post E Hpre. destruct pre as [|p0 pre']; [congruence|]. destruct pre'; discriminate.
    + intros j Hj. assert (j = 0%nat) by lia. subst. vm_compute. discriminate.
    + vm_compute. left. reflexivity.
    + vm_compute. discriminate.
    + unfold newest. simpl. unfold N.max. simpl. intros Hx. lia.
    + intros [].
    + constructor.
    + intros f [].
    + exact Hck.
    + reflexivity.
  - unfold running. proj.
    assert (Hn : newest [mkSeg 0 [RSnap 0]] = 0) by reflexivity.
    assert (Hl : last_commit (all_recs [mkSeg 0 [RSnap 0]]) = 0) by reflexivity.
    constructor; proj; rewrite ?Hn, ?Hl; try lia; try exact I.
    + unfold rd_inv. proj. rewrite Hl. split; [reflexivity | lia].
    + split; [simpl; lia | simpl; lia].
    + split; [lia | intros; discriminate].
    + constructor.
    + intros l Hl0. injection Hl0 as <-. reflexivity.
    + intros i p Hp. discriminate.
    + intros f [].
    + intros f Hf. discriminate.
    + split; [intros; discriminate | reflexivity].
Qed.

Lemma inv_init : forall c, Inv c init_state.
Proof. intros c. apply inv_fresh. intros i l H. discriminate. Qed.

Lemma has_state_false : forall rs, existsb (fun r => match r with RState _ => true | _ => false end) rs = false -> last_commit rs = 0.
Proof. intros rs H. unfold last_commit. apply fold_commit_nostate. exact H. Qed.

Lemma step_rc_fresh : forall c s s', Inv c s -> step c s EvRcFresh = Ok s' -> Inv c s'.
Proof.
  intros c s s' [hi [HP HV]] H. unfold step in H.
  destruct (rc s) eqn:R; try discriminate.
  destruct (read_all (segs s) 0) as [[ents cm]|] eqn:Ra; [|discriminate].
  destruct ents; [|discriminate].
  destruct (existsb _ (all_recs (segs s))) eqn:Hs; [discriminate|].
  destruct (restore_pending s) eqn:Rp; [discriminate|]. injection H as <-.
  unfold running in HV. rewrite R in HV. cbv iota in HV. unfold RInv in HV. rewrite R in HV.
  rinv HV U Hrd Hap Hsn Hck Hpw Hps Hq Hrc.
  pose proof (has_state_false _ Hs) as Hlc.
  pose proof (p_commit _ _ HP 0%nat ltac:(lia)) as Hc0. rewrite drop_tail_0, Hlc in Hc0.
  assert (Hn0 : newest (segs s) = 0) by lia.
  pose proof (p_new_in _ _ HP) as Hin. rewrite Hn0 in Hin.
  pose proof (p_first _ _ HP) as Hf. rewrite Hn0 in Hf. unfold hd_first in Hf.
  destruct (read_all_chain _ _ _ 0 (p_local _ _ HP) (p_chain _ _ HP) ltac:(unfold lo_of; lia) Hf Hin) as [cm' Ra'].
  rewrite Ra in Ra'. injection Ra' as Er _.
  assert (Hhi : hi = 0). { destruct (N.eq_dec hi 0); auto. rewrite range_cons in Er by lia. discriminate. }
  assert (Hak : acked s = 0) by (pose proof (p_acked _ _ HP); lia).
  assert (Hsf : snapfiles s = []).
  { destruct (snapfiles s) as [|f l] eqn:Es; [reflexivity|exfalso].
    pose proof (p_files_le _ _ HP f ltac:(rewrite Es; left; reflexivity)).
    assert (f = 0) by lia. subst f. apply (p_nozero _ _ HP). rewrite Es. left. reflexivity. }
  rewrite Hak, Hsf. apply inv_fresh. exact (p_ckpts _ _ HP).
Qed.

Lemma last_of_range : forall a b, a < b -> last_of (range a b) = b.
Proof. intros. unfold last_of. apply last_range. exact H. Qed.

(* the end of the restart: the WAL is read back from the chosen snapshot on, the loops start *)
Lemma replay_inv : forall c s hi i n lastp commit s',
  PInv s hi -> unflushed s = 0%nat -> rdp s = RdIdle -> app s = ApIdle -> sns s = [] -> ckp s = CkIdle -> pg_wal s = false ->
  pg_snap s = None -> queue s = [] -> wstate s = false -> restoring s = None ->
  i = newest (segs s) -> latest s <= i -> (forall f, In f (snapfiles s) -> f <= i) -> engine s = Some (range 0 i) ->
  match read_all (segs s) i, covering (segs s) i with
  | Ok (ents, cm), Some p =>
      if negb (n =? N.of_nat (length ents)) || negb (lastp =? last_of ents) || negb (commit =? cm) then Err R_ARG
      else Ok (set_rc (set_rd_done (set_hcommit (set_snapi (set_applied (set_published
               (set_rs_last (set_nrel s p) (if n =? 0 then i else last_of ents)) i) i) i) cm) i) RcRunning)
  | Err e, _ => Err R_RECOVER
  | _, None => Err R_RECOVER
  end = Ok s' ->
  Inv c s'.
Proof.
  intros c s hi i n lastp commit s' HP U Hrd Hap Hsn Hck Hpw Hps Hq Hws Hrst Hi Hlat Hfiles Heng H.
  pose proof (p_new_in _ _ HP) as Hin. rewrite <- Hi in Hin.
  pose proof (p_first _ _ HP) as Hf. rewrite <- Hi in Hf. unfold hd_first in Hf.
  pose proof (pinv_newest_le_hi _ _ HP) as Hle. rewrite <- Hi in Hle.
  pose proof (pinv_lc0 _ _ HP) as Hlc. rewrite <- Hi in Hlc.
  destruct (read_all_chain _ _ _ i (p_local _ _ HP) (p_chain _ _ HP) ltac:(unfold lo_of; lia) Hf Hin) as [cm Ra].
  destruct (read_all_commit _ _ _ _ Ra) as [p [Hcov [Hcm [Hp Hpf]]]].
  rewrite Ra, Hcov in H.
  destruct (negb (n =? N.of_nat (length (range i hi))) || negb (lastp =? last_of (range i hi)) || negb (commit =? cm)) eqn:G; [discriminate|].
  injection H as <-.
  apply orb_false_iff in G. destruct G as [G _]. apply orb_false_iff in G. destruct G as [Gn _].
  apply negb_false_iff in Gn. apply N.eqb_eq in Gn. rewrite range_length in Gn.
  assert (Hrs : (if n =? 0 then i else last_of (range i hi)) = hi).
  { destruct (n =? 0) eqn:Qn.
    - apply N.eqb_eq in Qn. lia.
    - apply N.eqb_neq in Qn. apply last_of_range. lia. }
  rewrite Hrs.
  assert (Hcmle : cm <= last_commit (all_recs (segs s))).
  { rewrite Hcm. rewrite <- (firstn_skipn p (segs s)) at 2. rewrite all_recs_app. apply last_commit_suffix_le. }
  exists hi. split; [pframe s|].
  unfold running. proj.
  constructor; proj; rewrite <- ?Hi; try lia.
  all: try solve [unfold rd_inv; proj; rewrite Hrd; split; [reflexivity | lia]].
  all: try solve [split; [exact Hp | exact Hpf]].
  all: try solve [split; [exact Hlat | intros lat Hl; rewrite Hck in Hl; discriminate]].
  all: try solve [split; [intros Hw; rewrite Hws in Hw; discriminate | exact Hcmle]].
  all: try solve [rewrite Hq; constructor].
  all: try solve [rewrite Hap; lia].
  all: try solve [intros l Hl; rewrite Heng in Hl; injection Hl as <-; reflexivity].
  all: try solve [intros k pc Hk; rewrite Hsn in Hk; discriminate].
  all: try solve [intros f Hfin Hn; specialize (Hfiles f Hfin); lia].
  all: try solve [intros f Hf0; rewrite Hps in Hf0; discriminate].
  all: try solve [split; [intros Hw; rewrite Hpw in Hw; discriminate | exact Hrst]].
  all: try solve [rewrite Hck; exact I].
Qed.

Lemma step_rc_replay : forall c s s' n lastp commit, Inv c s -> step c s (EvRcReplay n lastp commit) = Ok s' -> Inv c s'.
Proof.
  intros c s s' n lastp commit [hi [HP HV]] H. unfold step in H. cbv zeta in H.
  destruct (rc s) eqn:R; try discriminate;
    unfold running in HV; rewrite R in HV; cbv iota in HV; unfold RInv in HV; rewrite R in HV;
    rinv HV U Hrd Hap Hsn Hck Hpw Hps Hq Hrc.
  - (* restored from the chosen snapshot *)
    destruct Hrc as [A [B [C [D [E F]]]]].
    eapply (replay_inv c s hi i n lastp commit s'); eauto. lia.
  - (* no snapshot: from the beginning of the log *)
    destruct Hrc as [A [B [C [D F]]]].
    eapply (replay_inv c s hi 0 n lastp commit s'); eauto; try lia.
    + intros f Hf. rewrite C in Hf. destruct Hf.
Qed.
