(* Recover/ProofsStepC.v — the invariant is preserved by a process death and by the steps of the restart. *)
From Coq Require Import NArith List Bool Lia Arith.
From Coq Require Import ZifyN ZifyNat ZifyBool.
From ZV Require Import Recover.Consts Recover.Path Recover.ProofsWal Recover.ProofsLists Recover.ProofsWal2 Recover.ProofsInv Recover.ProofsStepA.
Import ListNotations.
Open Scope N_scope.

Arguments N.add : simpl never.
Arguments N.sub : simpl never.
Arguments N.max : simpl never.
Arguments N.to_nat : simpl never.

Lemma pinv_jumps : forall s hi, PInv s hi ->
  forall h m, In (h, m) (jumps (all_recs (segs s))) -> m <= newest (segs s) /\ h < m.
Proof.
  intros s hi HP h m H. split; [|exact (p_jumps _ _ HP h m H)].
  apply newest_ge. eapply jumps_pmarkers; eauto.
Qed.

Lemma pinv_choose : forall s hi, PInv s hi -> unflushed s = 0%nat ->
  (forall i, In i (unvalidated (all_recs (segs s))) ->
     i <= newest (segs s) \/ ~ In i (snapfiles s) \/ last_commit (all_recs (segs s)) < i) ->
  choose_snapshot (segs s) (snapfiles s) = if 0 <? newest (segs s) then Some (newest (segs s)) else None.
Proof.
  intros s hi P U J. apply choose_newest.
  - apply pmarkers_sub. apply (p_new_in _ _ P).
  - intros f Hf Hv. unfold valid_markers in Hv. apply filter_In in Hv. destruct Hv as [Hm Hc].
    destruct (markers_split _ _ Hm) as [X|X]; [apply newest_ge; exact X|].
    destruct (J f X) as [A|[A|A]]; [exact A | contradiction | lia].
  - pose proof (p_commit _ _ P 0%nat ltac:(lia)) as H. rewrite drop_tail_0 in H. exact H.
  - apply (p_nozero _ _ P).
  - intros Hp. apply (p_file _ _ P Hp).
Qed.

Lemma restoring_ok : forall c s hi, (if running s then VInv c s hi else RInv s) ->
  forall i, restoring s = Some i -> i = newest (segs s) /\ 0 < i.
Proof.
  intros c s hi HV i Hi. destruct (running s).
  - destruct HV. destruct (proj2 v_pgwal i Hi) as [k Hk]. rewrite Hk in v_app.
    destruct v_app as [A [B [[C1 [C2 C3]] D]]]. split; [symmetry; exact C2 | lia].
  - destruct HV as [_ [_ [_ [_ [_ [_ [_ [_ [_ [Hrs _]]]]]]]]]]. apply Hrs. exact Hi.
Qed.

(* the weak form of the clause about incoming markers that were never made valid *)
Lemma unval_weak : forall c s hi, (if running s then VInv c s hi else RInv s) ->
  forall i, In i (unvalidated (all_recs (segs s))) ->
    i <= newest (segs s) \/ ~ In i (snapfiles s) \/ (0 < i /\ i = pend_idx s) \/ last_commit (all_recs (segs s)) < i.
Proof.
  intros c s hi HV i Hi. destruct (running s).
  - destruct HV. destruct (v_unval i Hi) as [A|[A|A]]; auto.
  - destruct HV as [_ [_ [_ [_ [_ [_ [_ [_ [_ [_ [Hun _]]]]]]]]]]]. destruct (Hun i Hi) as [A|[A|[_ A]]]; auto.
Qed.

(* ---------- process death ---------- *)

Lemma pend_idx_pending : forall s r, pending s = Some r -> pend_idx s = r_snap r.
Proof.
  intros s r H. unfold pend_idx, pend_r. unfold pending in *. destruct (rdp s); try discriminate; rewrite H; reflexivity.
Qed.

(* no pending record: none at all, or the one that the cut inside its hard state's Save has made valid *)
Lemma pend_idx_none : forall c s hi, VInv c s hi -> pending s = None -> pend_idx s = 0 \/ pend_idx s = newest (segs s).
Proof.
  intros c s hi HV H. pose proof (v_rd _ _ _ HV) as V. unfold rd_inv in V. unfold pend_idx, pend_r. unfold pending in *.
  destruct (rdp s); try (left; reflexivity); try (rewrite H; left; reflexivity).
  right. simpl. destruct V as [_ [_ [_ [_ [V _]]]]]. symmetry. exact V.
Qed.

(* what the restart needs of the state right after a process death *)
Lemma rinv_crashed : forall s ss,
  (forall i, restoring s = Some i -> i = newest ss /\ 0 < i) ->
  (forall u, In u (unvalidated (all_recs ss)) -> u <= newest ss \/ ~ In u (snapfiles s) \/ last_commit (all_recs ss) < u) ->
  RInv (reset_volatile (set_segs s ss)).
Proof.
  intros s ss Hr Hu. unfold RInv. proj. repeat split; try reflexivity; try discriminate.
  - apply Hr; assumption.
  - apply Hr; assumption.
  - intros u Hin. destruct (Hu u Hin) as [A|[A|A]]; auto.
Qed.

(* the pending incoming snapshot's hard state is in the image only in the state after its Save, with nothing lost *)
Lemma pending_valid_image : forall c s hi r j,
  VInv c s hi -> pending s = Some r -> (j <= unflushed s)%nat ->
  r_snap r <= last_commit (all_recs (drop_tail (segs s) j)) ->
  j = 0%nat /\ rdp s = RdBegun r true true /\ 0 < r_snap r.
Proof.
  intros c s hi r j HV Pd Hj Hlc. pose proof (v_rd _ _ _ HV) as V. unfold rd_inv, pending in *.
  destruct (rdp s) as [|r0 sv pb|r0 pb apd|r0 pb idx|r0|r0 fl|r0|r0 k|r0 k cidx]; try discriminate;
    try (destruct (0 <? r_snap r0) eqn:Q; [|discriminate]; injection Pd as <-; apply N.ltb_lt in Q).
  - destruct sv.
    + destruct V as [-> [SF [Pb [W [L1 L2]]]]]. destruct j as [|j']; [auto|].
      specialize (L2 (S j') ltac:(lia)). lia.
    + destruct V as [SF [L _]]. specialize (L j Hj). lia.
  - destruct apd; [contradiction|]. destruct V as [_ [SF [L _]]]. specialize (L j Hj). lia.
  - contradiction.
  - destruct V as [_ [SF [L _]]]. specialize (L j Hj). lia.
  - destruct V as [_ [SF [L _]]]. specialize (L j Hj). lia.
Qed.

Lemma step_crash : forall c s s' j extra, Inv c s -> step c s (EvCrash j extra) = Ok s' -> Inv c s'.
Proof.
  intros c s s' j extra [hi [HP HV]] H. unfold step in H.
  destruct (image s j extra) as [ss|] eqn:Im; [|discriminate]. injection H as <-.
  unfold image in Im. destruct extra as [|e'].
  - (* nothing of a save in flight reached the file *)
    destruct (Nat.leb j (unflushed s)) eqn:Lj; [|discriminate]. injection Im as <-. apply Nat.leb_le in Lj.
    destruct (pinv_crash s (reset_volatile (set_segs s (drop_tail (segs s) j))) hi j HP Lj) as [HP0 Hnw0]; try reflexivity.
    cbn [segs reset_volatile set_segs] in Hnw0.
    pose proof (drop_tail_unvalidated s hi j HP Lj) as Hun0.
    unfold norm_image. destruct (pending s) as [r|] eqn:Pd.
    + destruct (r_snap r <=? last_commit (all_recs (drop_tail (segs s) j))) eqn:Qv.
      * (* the hard state of the pending incoming snapshot is in the file: its record counts *)
        apply N.leb_le in Qv.
        assert (Hrun : running s = true).
        { destruct (running s) eqn:Q; auto. destruct HV as [_ [Hr _]]. unfold pending in Pd. rewrite Hr in Pd. discriminate. }
        rewrite Hrun in HV.
        destruct (pending_valid_image c s hi r j HV Pd Lj Qv) as [-> [Er Hs]].
        rewrite drop_tail_0 in *.
        pose proof (v_rd _ _ _ HV) as V. unfold rd_inv in V. rewrite Er in V.
        assert (Q : (0 <? r_snap r) = true) by (apply N.ltb_lt; exact Hs). rewrite Q in V.
        destruct V as [_ [SF [Pb [W [L1 L2]]]]]. destruct SF as [_ [_ [_ [_ [Shi [Slt Spr]]]]]].
        destruct W as [W1 [W2 [W3 W4]]].
        destruct (pinv_validate s (reset_volatile (set_segs s (validated (r_snap r) (segs s)))) hi (r_snap r) HP W3 Slt Spr)
          as [HP' [Hnw [Hlc [Hun [Hpm Hfs]]]]]; try reflexivity; auto; try lia.
        exists (r_snap r). split; [exact HP'|].
        unfold running. cbn [rc reset_volatile]. apply rinv_crashed.
        -- intros x Hx. destruct (proj2 (v_pgwal _ _ _ HV) x Hx) as [k Hk]. congruence.
        -- cbn [segs reset_volatile set_segs] in Hnw, Hun. intros u Hu. rewrite Hnw.
           destruct (v_unval _ _ _ HV u (Hun u Hu)) as [A|[A|[A A']]].
           ++ left. pose proof (pinv_newest_le_hi _ _ HP). lia.
           ++ right. left. exact A.
           ++ left. rewrite (pend_idx_pending _ _ Pd) in A'. lia.
      * (* it is not: the record stays invalid *)
        apply N.leb_gt in Qv.
        exists hi. split; [exact HP0|].
        unfold running. cbn [rc reset_volatile]. apply rinv_crashed.
        -- intros x Hx. rewrite Hnw0. eapply restoring_ok; eauto.
        -- rewrite Hnw0, Hun0. intros u Hu. destruct (unval_weak c s hi HV u Hu) as [A|[A|[[A A']|A]]]; auto.
           ++ right. right. rewrite (pend_idx_pending _ _ Pd) in A'. subst u. exact Qv.
           ++ (* not running: nothing is buffered *)
              destruct (running s) eqn:Rn.
              ** destruct (v_unval _ _ _ HV u Hu) as [B|[B|[B B']]]; auto. right. right. rewrite (pend_idx_pending _ _ Pd) in B'. subst u. exact Qv.
              ** destruct HV as [U _]. assert (j = 0%nat) by lia. subst j. rewrite drop_tail_0. auto.
    + (* no incoming snapshot is pending *)
      exists hi. split; [exact HP0|].
      unfold running. cbn [rc reset_volatile]. apply rinv_crashed.
      * intros x Hx. rewrite Hnw0. eapply restoring_ok; eauto.
      * rewrite Hnw0, Hun0. intros u Hu.
        destruct (running s) eqn:Rn.
        -- destruct (v_unval _ _ _ HV u Hu) as [B|[B|[B B']]]; auto. destruct (pend_idx_none c s hi HV Pd) as [Z|Z]; [lia | left; lia].
        -- destruct HV as [U [_ [_ [_ [_ [_ [_ [_ [_ [_ [Hun _]]]]]]]]]]]. assert (j = 0%nat) by lia. subst j. rewrite drop_tail_0.
           destruct (Hun u Hu) as [A|[A|[_ A]]]; auto.
  - (* a prefix of the records of the save in flight reached the file *)
    destruct (rdp s) as [| | r pb apd | | | | | |] eqn:Er; try discriminate. destruct apd; try discriminate.
    destruct j; [|discriminate].
    remember (S e') as ex eqn:Eex.
    destruct (Nat.leb ex (length (ready_records r))) eqn:Le; [|discriminate]. injection Im as <-. apply Nat.leb_le in Le.
    assert (Hrun : running s = true).
    { destruct (running s) eqn:Q; auto. destruct HV as [_ [Hr _]]. congruence. }
    rewrite Hrun in HV.
    pose proof (pinv_segs_nonempty _ _ HP) as Hne.
    pose proof (v_rd _ _ _ HV) as V. unfold rd_inv in V. rewrite Er in V.
    unfold norm_image, pending. rewrite Er.
    destruct (0 <? r_snap r) eqn:Qs.
    + (* the hard state of a Ready with an incoming snapshot: its only record *)
      destruct V as [-> [SF [Lc [Pb W]]]]. destruct SF as [Sn [Scn [Shs [Scm [Shi [Slt Spr]]]]]].
      destruct W as [W1 [W2 [W3 W4]]].
      assert (Hrr : ready_records r = [RState (r_snap r)]).
      { rewrite ready_records_eq. assert (Q : (0 <? r_n r) = false) by lia. rewrite Q, Shs, Scm. reflexivity. }
      rewrite Hrr in *. cbn [length] in Le. assert (He : e' = 0%nat) by lia. subst e'. subst ex. cbn [firstn].
      assert (Hlc1 : last_commit (all_recs (app_tail (segs s) [RState (r_snap r)])) = r_snap r).
      { rewrite app_tail_recs by auto. apply last_commit_snoc_state. }
      rewrite Hlc1, N.leb_refl.
      set (s1 := set_unflushed (set_segs s (app_tail (segs s) [RState (r_snap r)])) 0).
      assert (HP1 : PInv s1 hi).
      { apply (pinv_save s s1 hi hi [] true (r_snap r) true HP); try reflexivity; try lia.
        all: try (rewrite range_nil by lia; reflexivity).
        all: try (destruct HP; lia).
        all: try (intros _; specialize (Lc 0%nat ltac:(lia)); rewrite drop_tail_0 in Lc; lia). }
      assert (Hst1 : snap_tail s1 hi (r_snap r)) by (eapply (snap_tail_app s s1); eauto; reflexivity).
      destruct (pinv_validate s1 (reset_volatile (set_segs s (validated (r_snap r) (app_tail (segs s) [RState (r_snap r)])))) hi (r_snap r) HP1 Hst1 Slt Spr)
        as [HP' [Hnw [Hlc [Hun [Hpm Hfs]]]]]; try reflexivity; auto; try (unfold s1; proj; rewrite Hlc1; lia).
      exists (r_snap r). split; [exact HP'|].
      unfold running. cbn [rc reset_volatile]. apply rinv_crashed.
      * intros x Hx. destruct (proj2 (v_pgwal _ _ _ HV) x Hx) as [k Hk]. congruence.
      * cbn [segs reset_volatile set_segs] in Hnw, Hun. intros u Hu. rewrite Hnw.
        specialize (Hun u Hu). unfold s1 in Hun. proj. rewrite app_tail_recs, unvalidated_app in Hun by auto. simpl in Hun. rewrite app_nil_r in Hun.
        destruct (v_unval _ _ _ HV u Hun) as [A|[A|[A A']]].
        -- left. pose proof (pinv_newest_le_hi _ _ HP). lia.
        -- right. left. exact A.
        -- left. unfold pend_idx, pend_r, pending in A'. rewrite Er, Qs in A'. lia.
    + destruct V as [[F1 F2] [[Uhi [Uw [Uh Uc]]] _]].
      destruct (save_entries_range s r hi Uhi F1) as [Erange Lrange].
      rewrite ready_records_eq, Erange.
      destruct (firstn_ents_state ex hi (rlast s r) (if r_hs r then [RState (r_commit r)] else []) Lrange)
        as [b' [st' [Ef [Hb Hst]]]].
      rewrite Ef.
      assert (Hst2 : exists hs' : bool, st' = if hs' then [RState (r_commit r)] else []).
      { destruct Hst as [->|[_ ->]]; [exists false; reflexivity|].
        destruct (r_hs r); [|exists false; destruct (ex - N.to_nat (rlast s r - hi))%nat; reflexivity].
        destruct (ex - N.to_nat (rlast s r - hi))%nat as [|n0]; [exists false; reflexivity | exists true; destruct n0; reflexivity]. }
      destruct Hst2 as [hs' ->].
      set (rs := map REnt (range hi b') ++ (if hs' then [RState (r_commit r)] else [])).
      assert (HP' : PInv (reset_volatile (set_segs s (app_tail (segs s) rs))) b').
      { apply (pinv_save s _ hi b' (range hi b') hs' (r_commit r) true HP); try reflexivity; try lia.
        - unfold rlast in *. destruct (0 <? r_n r) eqn:Q; [destruct (F1 ltac:(lia)) as [_ [_ Fp]]; lia | destruct HP; lia].
        - intros Hh. subst hs'. destruct Hst as [Hst|[_ Hst]].
          + destruct (r_hs r); discriminate.
          + destruct (r_hs r) eqn:Qh; [apply Uh; reflexivity|]. destruct (ex - N.to_nat (rlast s r - hi))%nat; discriminate. }
      exists b'. split; [exact HP'|].
      unfold running. cbn [rc reset_volatile]. apply rinv_crashed.
      * intros x Hx. rewrite newest_app_tail_nomark by (auto; apply pmarkers_ents_state). eapply (restoring_ok c s hi); [rewrite Hrun; exact HV | exact Hx].
      * rewrite newest_app_tail_nomark by (auto; apply pmarkers_ents_state). rewrite app_tail_recs, unvalidated_app by auto.
        unfold rs. rewrite (unvalidated_local _ (local_ents_state _ _ _)), app_nil_r.
        intros u Hu. destruct (v_unval _ _ _ HV u Hu) as [B|[B|[B B']]]; auto.
        unfold pend_idx, pend_r, pending in B'. rewrite Er, Qs in B'. lia.
Qed.

(* ---------- the restart ---------- *)

Ltac rinv HV U Hrd Hap Hsn Hck Hpw Hps Hq Hrc :=
  let Hws := fresh "Hws" in let Hrs := fresh "Hrs" in let Hun := fresh "Hun" in
  destruct HV as [U [Hrd [Hap [Hsn [Hck [Hpw [Hps [Hq [Hws [Hrs [Hun Hrc]]]]]]]]]]].

Lemma not_running_rc : forall s, running s = false -> rc s <> RcRunning.
Proof. intros s H. unfold running in H. destruct (rc s); congruence. Qed.

Ltac rinv_open HV R :=
  unfold running in HV; rewrite R in HV; cbv iota in HV; unfold RInv in HV; rewrite R in HV.

(* a snap file whose WAL record is valid is not newer than the newest marker that counts *)
Lemma valid_file_le_newest : forall s f,
  (forall i, In i (unvalidated (all_recs (segs s))) ->
     i <= newest (segs s) \/ ~ In i (snapfiles s) \/ last_commit (all_recs (segs s)) < i) ->
  In f (snapfiles s) -> In f (valid_markers (segs s)) -> f <= newest (segs s).
Proof.
  intros s f J Hf Hv. unfold valid_markers in Hv. apply filter_In in Hv. destruct Hv as [Hm Hc].
  destruct (markers_split _ _ Hm) as [X|X]; [apply newest_ge; exact X|].
  destruct (J f X) as [A|[A|A]]; [exact A | contradiction | lia].
Qed.

Lemma rinv_unval_weak : forall s, rc s = RcStart ->
  (forall i, In i (unvalidated (all_recs (segs s))) ->
     i <= newest (segs s) \/ ~ In i (snapfiles s) \/ (rc s = RcStart /\ last_commit (all_recs (segs s)) < i)) ->
  forall i, In i (unvalidated (all_recs (segs s))) ->
     i <= newest (segs s) \/ ~ In i (snapfiles s) \/ last_commit (all_recs (segs s)) < i.
Proof. intros s R H i Hi. destruct (H i Hi) as [A|[A|[_ A]]]; auto. Qed.

Lemma step_rc_chosen : forall c s s' i, fixed c -> Inv c s -> step c s (EvRcChosen i) = Ok s' -> Inv c s'.
Proof.
  intros c s s' i [_ [Hfx _]] [hi [HP HV]] H. unfold step in H. rewrite Hfx in H.
  destruct (rc s) eqn:R; try discriminate.
  destruct (restore_pending s) eqn:Rp; [discriminate|].
  rinv_open HV R. rinv HV U Hrd Hap Hsn Hck Hpw Hps Hq Hlat.
  assert (J : forall i, In i (unvalidated (all_recs (segs s))) ->
               i <= newest (segs s) \/ ~ In i (snapfiles s) \/ last_commit (all_recs (segs s)) < i).
  { intros u Hu. destruct (Hun u Hu) as [A|[A|[_ A]]]; auto. }
  rewrite (pinv_choose _ _ HP U J) in H.
  destruct (0 <? newest (segs s)) eqn:Q; [|discriminate].
  destruct (i =? newest (segs s)) eqn:Qi; [|discriminate]. injection H as <-.
  assert (Hle : forall f, In f (remove_orphans (segs s) (snapfiles s) (Some (newest (segs s)))) -> f <= newest (segs s)).
  { intros f Hf. apply remove_orphans_In in Hf. destruct Hf as [Hin [Hv|[c0 [Ec Hle]]]].
    - apply (valid_file_le_newest s f J Hin Hv).
    - injection Ec as <-. exact Hle. }
  exists hi. split.
  - apply (pinv_files s); try reflexivity; try exact HP; proj.
    + intros Hp. destruct (p_file _ _ HP Hp) as [A B]. split; [apply remove_orphans_keeps; exact A | exact B].
    + intros Hz. apply remove_orphans_In in Hz. destruct Hz as [Hz _]. exact (p_nozero _ _ HP Hz).
    + apply remove_orphans_NoDup. exact (p_nodup _ _ HP).
    + intros f Hf. apply remove_orphans_In in Hf. destruct Hf as [Hf _]. exact (p_files_le _ _ HP f Hf).
    + exact (p_ckpts _ _ HP).
  - unfold running, RInv. proj. repeat split; auto; try lia; try discriminate.
    + intros u Hu. destruct (N.le_gt_cases u (newest (segs s))) as [L|L]; [left; exact L | right; left].
      intros Hin. specialize (Hle u Hin). lia.
Qed.

Lemma step_rc_none : forall c s s', fixed c -> Inv c s -> step c s EvRcNone = Ok s' -> Inv c s'.
Proof.
  intros c s s' [_ [Hfx _]] [hi [HP HV]] H. unfold step in H. rewrite Hfx in H.
  destruct (rc s) eqn:R; try discriminate.
  destruct (restore_pending s) eqn:Rp; [discriminate|].
  rinv_open HV R. rinv HV U Hrd Hap Hsn Hck Hpw Hps Hq Hlat.
  assert (J : forall i, In i (unvalidated (all_recs (segs s))) ->
               i <= newest (segs s) \/ ~ In i (snapfiles s) \/ last_commit (all_recs (segs s)) < i).
  { intros u Hu. destruct (Hun u Hu) as [A|[A|[_ A]]]; auto. }
  rewrite (pinv_choose _ _ HP U J) in H.
  destruct (0 <? newest (segs s)) eqn:Q; [discriminate|]. injection H as <-.
  assert (Hn0 : newest (segs s) = 0) by lia.
  assert (Hempty : remove_orphans (segs s) (snapfiles s) None = []).
  { destruct (remove_orphans (segs s) (snapfiles s) None) as [|f l] eqn:El; [reflexivity|exfalso].
    assert (Hf : In f (remove_orphans (segs s) (snapfiles s) None)) by (rewrite El; left; reflexivity).
    apply remove_orphans_In in Hf. destruct Hf as [Hin [Hv|[c0 [Ec _]]]]; [|discriminate].
    pose proof (valid_file_le_newest s f J Hin Hv).
    assert (f = 0) by lia. subst f. exact (p_nozero _ _ HP Hin). }
  exists hi. split.
  - apply (pinv_files s); try reflexivity; try exact HP; proj; rewrite ?Hempty.
    + intros Hp. lia.
    + intros [].
    + constructor.
    + intros f [].
    + exact (p_ckpts _ _ HP).
  - unfold running, RInv. proj. rewrite Hempty. repeat split; auto; try discriminate.
Qed.

(* restoreFromPath: marker written, data directory emptied (the restore of the chosen snapshot, the one a previous
   life did not finish, or the installation of an incoming snapshot on the running node) *)
Lemma step_rs_removed : forall c s s' i, Inv c s -> step c s (EvRsRemoved i) = Ok s' -> Inv c s'.
Proof.
  intros c s s' i [hi [HP HV]] H. unfold step in H.
  destruct (rc s) eqn:R; try discriminate.
  - (* at OpenRockDB *)
    destruct (restoring s) as [j|] eqn:Rs; [|discriminate].
    destruct (negb (i =? j)); [discriminate|]. destruct (lookup j (ckpts s)); [|discriminate]. injection H as <-.
    rinv_open HV R. rinv HV U Hrd Hap Hsn Hck Hpw Hps Hq Hrc.
    exists hi. split; [pframe s|].
    unfold running, RInv. proj. rewrite R. repeat split; auto; try discriminate; apply Hrs; assumption.
  - destruct (negb (i =? i0)); [discriminate|]. destruct (lookup i0 (ckpts s)); [|discriminate]. injection H as <-.
    rinv_open HV R. rinv HV U Hrd Hap Hsn Hck Hpw Hps Hq Hrc.
    exists hi. split; [pframe s|].
    unfold running, RInv. proj. rewrite R. destruct Hrc as [A [B [C [D E]]]]. repeat split; auto.
    all: try (match goal with Hk : Some _ = Some _ |- _ => injection Hk as <- end; assumption).
    all: try (intros l9 Hl; discriminate).
  - (* RestoreFromSnapshot of an incoming snapshot *)
    destruct (app s) as [| | | | | | | | | |j k] eqn:Ea; try discriminate.
    destruct k as [|k']; [|discriminate].
    destruct (negb (i =? j)); [discriminate|]. destruct (lookup j (ckpts s)); [|discriminate]. injection H as <-.
    exists hi. split; [pframe s|].
    unfold running in *. proj. rewrite R in *.
    vinv_split HV.
    + rewrite Ea in v_app. unfold snap_done in v_app. tauto.
    + split; [tauto|]. intros x Hx. injection Hx as <-. exists 0%nat. reflexivity.
Qed.

Lemma step_rs_copied : forall c s s' i, Inv c s -> step c s (EvRsCopied i) = Ok s' -> Inv c s'.
Proof.
  intros c s s' i [hi [HP HV]] H. unfold step in H.
  destruct (rc s) eqn:R; try discriminate.
  - destruct (restoring s) as [j|] eqn:Rs; [|discriminate].
    destruct (negb (i =? j)); [discriminate|]. destruct (lookup j (ckpts s)) as [l0|] eqn:L; [|discriminate]. injection H as <-.
    rinv_open HV R. rinv HV U Hrd Hap Hsn Hck Hpw Hps Hq Hrc.
    exists hi. split; [pframe s|].
    unfold running, RInv. proj. rewrite R.
    repeat split; auto; try (apply Hrs; assumption).
  - destruct (negb (i =? i0)); [discriminate|]. destruct (lookup i0 (ckpts s)) as [l0|] eqn:L; [|discriminate]. injection H as <-.
    rinv_open HV R. rinv HV U Hrd Hap Hsn Hck Hpw Hps Hq Hrc.
    exists hi. split; [pframe s|].
    unfold running, RInv. proj. rewrite R. destruct Hrc as [A [B [C [D E]]]]. repeat split; auto.
    all: try solve [intros l9 Hl9; injection Hl9 as <-; eapply p_ckpts; eauto].
    all: try solve [intros; discriminate].
    all: apply Hrs; assumption.
  - destruct (app s) as [| | | | | | | | | |j k] eqn:Ea; try discriminate.
    destruct k as [|[|k']]; try discriminate.
    destruct (restoring s) as [x|] eqn:Rs; [|discriminate].
    destruct (negb (i =? j)); [discriminate|]. destruct (lookup j (ckpts s)) as [l0|] eqn:L; [|discriminate]. injection H as <-.
    exists hi. split; [pframe s|].
    unfold running in *. proj. rewrite R in *.
    vinv_split HV.
    + rewrite Ea in v_app. unfold snap_done in v_app. destruct v_app as [A [B [C [D1 D2]]]]. repeat split; try tauto.
      * intros l9 Hl9. injection Hl9 as <-. eapply p_ckpts; eauto.
      * intros y Hy. congruence.
    + split; [tauto|]. intros y Hy. rewrite Ea in v_app. destruct v_app as [_ [_ [_ [D1 _]]]]. exists 1%nat. congruence.
Qed.

Lemma step_rs_marker_gone : forall c s s', Inv c s -> step c s EvRsMarkerGone = Ok s' -> Inv c s'.
Proof.
  intros c s s' [hi [HP HV]] H. unfold step in H.
  destruct (restoring s) as [j|] eqn:Rs; [|discriminate]. destruct (engine s) eqn:En; [|discriminate].
  destruct (running s) eqn:Rn.
  - destruct (app s) as [| | | | | | | | | |x k] eqn:Ea; try discriminate.
    destruct k as [|[|[|k']]]; try discriminate. simpl in H. injection H as <-.
    exists hi. split; [pframe s|].
    unfold running in *. proj. destruct (rc s) eqn:R; try discriminate.
    vinv_split HV.
    + rewrite Ea in *. unfold snap_done in v_app. destruct v_app as [A [B [C [D1 D2]]]]. repeat split; try tauto. intros y Hy. discriminate.
    + split; [tauto|]. intros y Hy. discriminate.
  - simpl in H. injection H as <-.
    exists hi. split; [pframe s|].
    unfold running in *. proj. destruct (rc s) eqn:R; try discriminate; unfold RInv in *; proj; rewrite R in *;
      decompose [and] HV; repeat split; auto; try discriminate.
Qed.

Lemma step_rc_restored : forall c s s' i, Inv c s -> step c s (EvRcRestored i) = Ok s' -> Inv c s'.
Proof.
  intros c s s' i [hi [HP HV]] H. unfold step in H.
  destruct (rc s) eqn:R; try discriminate.
  destruct (engine s) as [l0|] eqn:En; [|discriminate].
  destruct (negb (i =? i0)); [discriminate|]. injection H as <-.
  rinv_open HV R. rinv HV U Hrd Hap Hsn Hck Hpw Hps Hq Hrc.
  destruct Hrc as [A [B [C [D E]]]].
  assert (Hv : forall j, newest (segs s) <= j -> ~ In j (purge_victims (eff_keep_ckpt c) (latest s) (map fst (ckpts s)))).
  { intros j Hj Hin. apply purge_victims_lt in Hin. lia. }
  exists hi. split.
  - apply (pinv_files s); try reflexivity; try exact HP; proj; try (destruct HP; assumption).
    + intros Hp. destruct (p_file _ _ HP Hp) as [X Y]. split; [exact X|]. rewrite lookup_purge_ckpts by (apply Hv; lia). exact Y.
    + intros j l1 Hl. apply lookup_purge_ckpts_some in Hl. eapply p_ckpts; eauto.
  - unfold running, RInv. proj. repeat split; auto; try discriminate.
    + intros j Hj. destruct (Hun j Hj) as [X|[X|[X _]]]; [left; exact X | right; left; exact X | discriminate].
    + rewrite En. f_equal. apply E. exact En.
Qed.

(* a node on a fresh WAL (first start, or a WAL found without any raft state) *)
Lemma inv_fresh : forall c cks pr,
  (forall i l, lookup i cks = Some l -> l = range 0 i) ->
  Inv c (mkState [mkSeg 0 [RSnap 0]] 0 0 [] cks (Some []) [] None RcRunning 0 false 0 0 0 RdIdle 0 0 0 0 [] ApIdle 0 0 [] CkIdle false None 0 pr).
Proof.
  intros c cks pr Hck. exists 0. split.
  - constructor; proj.
    + unfold lo_of. simpl. split; [reflexivity|]. split; [lia|]. intros i [<-|[]]. lia.
    + lia.
    + lia.
    + exists [], (mkSeg 0 [RSnap 0]), [RSnap 0], []. simpl. repeat split; auto. intros Hx; congruence.
    + intros pre x post E Hpre. destruct pre as [|p0 pre']; [congruence|]. destruct pre'; discriminate.
    + intros j Hj. assert (j = 0%nat) by lia. subst. vm_compute. discriminate.
    + vm_compute. left. reflexivity.
    + vm_compute. discriminate.
    + unfold newest. simpl. unfold N.max. simpl. intros Hx. lia.
    + intros [].
    + constructor.
    + intros f [].
    + exact Hck.
    + intros h m [].
  - unfold running. proj.
    assert (Hn : newest [mkSeg 0 [RSnap 0]] = 0) by reflexivity.
    assert (Hl : last_commit (all_recs [mkSeg 0 [RSnap 0]]) = 0) by reflexivity.
    assert (Hp0 : forall pr0, pend_idx (mkState [mkSeg 0 [RSnap 0]] 0 0 [] cks (Some []) [] None RcRunning 0 false 0 0 0 RdIdle 0 0 0 0 [] ApIdle 0 0 [] CkIdle false None 0 pr0) = 0) by reflexivity.
    constructor; proj; rewrite ?Hn, ?Hl, ?Hp0; try lia; try exact I.
    all: try solve [intros f []]; try solve [intros i p Hp; discriminate]; try solve [intros f Hf; discriminate].
    all: try solve [constructor].
    all: try solve [intros l Hl0; injection Hl0 as <-; reflexivity].
    all: try solve [split; [simpl; lia | simpl; lia]].
    all: try solve [split; [left; lia | intros; discriminate]].
    all: try solve [split; [intros; discriminate | intros; discriminate]].
    all: try solve [unfold rd_inv; proj; rewrite Hl; split; [reflexivity | lia]].
    all: try solve [split; [lia | left; lia]].
Qed.

Lemma inv_init : forall c, Inv c init_state.
Proof. intros c. apply inv_fresh. intros i l H. discriminate. Qed.

Lemma has_state_false : forall rs, existsb (fun r => match r with RState _ => true | _ => false end) rs = false -> last_commit rs = 0.
Proof. intros rs H. unfold last_commit. apply fold_commit_nostate. exact H. Qed.

Lemma step_rc_fresh : forall c s s', Inv c s -> step c s EvRcFresh = Ok s' -> Inv c s'.
Proof.
  intros c s s' [hi [HP HV]] H. unfold step in H.
  destruct (rc s) eqn:R; try discriminate.
  destruct (read_all (segs s) 0) as [[ents cm]|] eqn:Ra; [|discriminate].
  destruct ents; [|discriminate].
  destruct (existsb _ (all_recs (segs s))) eqn:Hs; [discriminate|].
  destruct (restore_pending s) eqn:Rp; [discriminate|]. injection H as <-.
  unfold running in HV. rewrite R in HV. cbv iota in HV. unfold RInv in HV. rewrite R in HV.
  rinv HV U Hrd Hap Hsn Hck Hpw Hps Hq Hrc.
  pose proof (has_state_false _ Hs) as Hlc.
  pose proof (p_commit _ _ HP 0%nat ltac:(lia)) as Hc0. rewrite drop_tail_0, Hlc in Hc0.
  assert (Hn0 : newest (segs s) = 0) by lia.
  pose proof (p_new_in _ _ HP) as Hin. rewrite Hn0 in Hin.
  pose proof (p_first _ _ HP) as Hf. rewrite Hn0 in Hf. unfold hd_first in Hf.
  pose proof (pinv_jumps _ _ HP) as HJ. rewrite Hn0 in HJ.
  destruct (read_all_chain _ _ _ 0 HJ (p_chain _ _ HP) ltac:(unfold lo_of; lia) Hf Hin) as [cm' Ra'].
  rewrite Ra in Ra'. injection Ra' as Er _.
  assert (Hhi : hi = 0). { destruct (N.eq_dec hi 0); auto. rewrite range_cons in Er by lia. discriminate. }
  assert (Hak : acked s = 0) by (pose proof (p_acked _ _ HP); lia).
  assert (Hsf : snapfiles s = []).
  { destruct (snapfiles s) as [|f l] eqn:Es; [reflexivity|exfalso].
    destruct (p_files_le _ _ HP f ltac:(rewrite Es; left; reflexivity)) as [Hle|Hfl].
    2:{ pose proof (Hfl 0%nat ltac:(lia)) as Hh. rewrite drop_tail_0 in Hh. assert (X : has_state (all_recs (segs s)) = false) by exact Hs. congruence. }
    assert (f = 0) by lia. subst f. apply (p_nozero _ _ HP). rewrite Es. left. reflexivity. }
  rewrite Hak, Hsf. apply inv_fresh. exact (p_ckpts _ _ HP).
Qed.

Lemma last_of_range : forall a b, a < b -> last_of (range a b) = b.
Proof. intros. unfold last_of. apply last_range. exact H. Qed.

(* the end of the restart: the WAL is read back from the chosen snapshot on, the loops start *)
Lemma replay_inv : forall c s hi i n lastp commit s',
  PInv s hi -> unflushed s = 0%nat -> rdp s = RdIdle -> app s = ApIdle -> sns s = [] -> ckp s = CkIdle -> pg_wal s = false ->
  pg_snap s = None -> queue s = [] -> wstate s = false -> restoring s = None ->
  i = newest (segs s) -> latest s <= i -> (forall f, In f (snapfiles s) -> f <= i) -> engine s = Some (range 0 i) ->
  (forall j, In j (unvalidated (all_recs (segs s))) -> j <= newest (segs s) \/ ~ In j (snapfiles s)) ->
  match read_all (segs s) i, covering (segs s) i with
  | Ok (ents, cm), Some p =>
      if negb (n =? N.of_nat (length ents)) || negb (lastp =? last_of ents) || negb (commit =? cm) then Err R_ARG
      else Ok (set_rc (set_rd_done (set_hcommit (set_snapi (set_applied (set_published
               (set_rs_last (set_nrel s p) (if n =? 0 then i else last_of ents)) i) i) i) cm) i) RcRunning)
  | Err e, _ => Err R_RECOVER
  | _, None => Err R_RECOVER
  end = Ok s' ->
  Inv c s'.
Proof.
  intros c s hi i n lastp commit s' HP U Hrd Hap Hsn Hck Hpw Hps Hq Hws Hrst Hi Hlat Hfiles Heng Hunv H.
  pose proof (p_new_in _ _ HP) as Hin. rewrite <- Hi in Hin.
  pose proof (p_first _ _ HP) as Hf. rewrite <- Hi in Hf. unfold hd_first in Hf.
  pose proof (pinv_newest_le_hi _ _ HP) as Hle. rewrite <- Hi in Hle.
  pose proof (pinv_lc0 _ _ HP) as Hlc. rewrite <- Hi in Hlc.
  pose proof (pinv_jumps _ _ HP) as HJ. rewrite <- Hi in HJ.
  destruct (read_all_chain _ _ _ i HJ (p_chain _ _ HP) ltac:(unfold lo_of; lia) Hf Hin) as [cm Ra].
  destruct (read_all_commit _ _ _ _ Ra) as [p [Hcov [Hcm [Hp Hpf]]]].
  rewrite Ra, Hcov in H.
  destruct (negb (n =? N.of_nat (length (range i hi))) || negb (lastp =? last_of (range i hi)) || negb (commit =? cm)) eqn:G; [discriminate|].
  injection H as <-.
  apply orb_false_iff in G. destruct G as [G _]. apply orb_false_iff in G. destruct G as [Gn _].
  apply negb_false_iff in Gn. apply N.eqb_eq in Gn. rewrite range_length in Gn.
  assert (Hrs : (if n =? 0 then i else last_of (range i hi)) = hi).
  { destruct (n =? 0) eqn:Qn.
    - apply N.eqb_eq in Qn. lia.
    - apply N.eqb_neq in Qn. apply last_of_range. lia. }
  rewrite Hrs.
  assert (Hcmle : cm <= last_commit (all_recs (segs s))).
  { rewrite Hcm. rewrite <- (firstn_skipn p (segs s)) at 2. rewrite all_recs_app. apply last_commit_suffix_le. }
  exists hi. split; [pframe s|].
  unfold running. proj.
  constructor; proj; rewrite <- ?Hi; try lia.
  all: try solve [unfold rd_inv; proj; rewrite Hrd; split; [reflexivity | lia]].
  all: try solve [split; [exact Hp | exact Hpf]].
  all: try solve [split; [exact Hlat | intros lat Hl; rewrite Hck in Hl; discriminate]].
  all: try solve [split; [intros Hw; rewrite Hws in Hw; discriminate | exact Hcmle]].
  all: try solve [rewrite Hq; constructor].
  all: try solve [rewrite Hap; lia].
  all: try solve [intros l Hl; rewrite Heng in Hl; injection Hl as <-; reflexivity].
  all: try solve [intros k pc Hk; rewrite Hsn in Hk; discriminate].
  all: try solve [intros f Hfin Hn; specialize (Hfiles f Hfin); lia].
  all: try solve [intros f Hf0; rewrite Hps in Hf0; discriminate].
  all: try solve [split; [intros Hw; rewrite Hpw in Hw; discriminate | exact Hrst]].
  all: try solve [rewrite Hck; exact I].
  - split; [left; exact Hlat | intros lat Hl; rewrite Hck in Hl; discriminate].
  - rewrite Hap. intros l Hl. rewrite Heng in Hl. injection Hl as <-. reflexivity.
  - intros j Hj. destruct (Hunv j Hj) as [X|X]; [left; lia | right; left; exact X].
  - split; [intros Hw; rewrite Hpw in Hw; discriminate | intros j Hj; rewrite Hrst in Hj; discriminate].
Qed.

Lemma step_rc_replay : forall c s s' n lastp commit, Inv c s -> step c s (EvRcReplay n lastp commit) = Ok s' -> Inv c s'.
Proof.
  intros c s s' n lastp commit [hi [HP HV]] H. unfold step in H. cbv zeta in H.
  destruct (rc s) eqn:R; try discriminate;
    unfold running in HV; rewrite R in HV; cbv iota in HV; unfold RInv in HV; rewrite R in HV;
    rinv HV U Hrd Hap Hsn Hck Hpw Hps Hq Hrc.
  - (* restored from the chosen snapshot *)
    destruct Hrc as [A [B [C [D [E F]]]]].
    eapply (replay_inv c s hi i n lastp commit s'); eauto; try lia.
    intros j Hj. destruct (Hun j Hj) as [X|[X|[X _]]]; [left; exact X | right; exact X | discriminate].
  - (* no snapshot: from the beginning of the log *)
    destruct Hrc as [A [B [C [D F]]]].
    eapply (replay_inv c s hi 0 n lastp commit s'); eauto; try lia.
    + intros f Hf. rewrite C in Hf. destruct Hf.
    + intros j Hj. destruct (Hun j Hj) as [X|[X|[X _]]]; [left; exact X | right; exact X | discriminate].
Qed.
