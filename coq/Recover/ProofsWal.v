(* Recover/ProofsWal.v — lemmas about the WAL part of the path model: record lists, segment lists,
   and what a restart reads from them (covering, read_all, valid_markers, choose_snapshot). *)
From Coq Require Import NArith List Bool Lia Arith.
From Coq Require Import ZifyN ZifyNat ZifyBool.
From ZV Require Import Recover.Consts Recover.Path.
Import ListNotations.
Open Scope N_scope.

Arguments N.add : simpl never.
Arguments N.sub : simpl never.
Arguments N.to_nat : simpl never.

(* ---------- seqN / range ---------- *)

Lemma seqN_length : forall n a, length (seqN a n) = n.
Proof. induction n; simpl; intros; auto. Qed.

Lemma seqN_app : forall n m a, seqN a (n + m) = seqN a n ++ seqN (a + N.of_nat n) m.
Proof.
  induction n; simpl; intros.
  - f_equal. lia.
  - rewrite IHn. f_equal. f_equal. f_equal. lia.
Qed.

Lemma seqN_In : forall n a x, In x (seqN a n) <-> a <= x < a + N.of_nat n.
Proof.
  induction n; simpl; intros.
  - split; [tauto | lia].
  - rewrite IHn. split; intros H.
    + destruct H; lia.
    + destruct (N.eq_dec a x); [left; auto | right; lia].
Qed.

Lemma range_nil : forall a b, b <= a -> range a b = [].
Proof. intros. unfold range. replace (N.to_nat (b - a)) with 0%nat by lia. reflexivity. Qed.

Lemma range_length : forall a b, length (range a b) = N.to_nat (b - a).
Proof. intros. unfold range. apply seqN_length. Qed.

Lemma range_In : forall a b x, In x (range a b) <-> a < x <= b.
Proof. intros. unfold range. rewrite seqN_In. lia. Qed.

Lemma range_snoc : forall a b, a <= b -> range a (b + 1) = range a b ++ [b + 1].
Proof.
  intros. unfold range.
  replace (N.to_nat (b + 1 - a)) with (N.to_nat (b - a) + 1)%nat by lia.
  rewrite seqN_app. simpl. f_equal. f_equal. lia.
Qed.

Lemma range_app : forall a b c, a <= b -> b <= c -> range a c = range a b ++ range b c.
Proof.
  intros. unfold range.
  replace (N.to_nat (c - a)) with (N.to_nat (b - a) + N.to_nat (c - b))%nat by lia.
  rewrite seqN_app. f_equal. f_equal. lia.
Qed.

Lemma range_cons : forall a b, a < b -> range a b = (a + 1) :: range (a + 1) b.
Proof.
  intros. unfold range.
  replace (N.to_nat (b - a)) with (S (N.to_nat (b - (a + 1)))) by lia.
  simpl. reflexivity.
Qed.

(* ---------- projections of record lists ---------- *)

Lemma entries_app : forall a b, entries (a ++ b) = entries a ++ entries b.
Proof. intros. unfold entries. rewrite flat_map_app. reflexivity. Qed.

Lemma markers_app : forall a b, markers (a ++ b) = markers a ++ markers b.
Proof. intros. unfold markers. rewrite flat_map_app. reflexivity. Qed.

Lemma pmarkers_app : forall a b, pmarkers (a ++ b) = pmarkers a ++ pmarkers b.
Proof. intros. unfold pmarkers. rewrite flat_map_app. reflexivity. Qed.

(* records of a replica that never received a snapshot from its leader *)
Definition local_rec (r : rec) : bool := match r with RSnapIn _ _ _ => false | _ => true end.
Definition local_recs (l : list rec) : Prop := forallb local_rec l = true.

Lemma local_recs_app : forall a b, local_recs (a ++ b) <-> local_recs a /\ local_recs b.
Proof. intros. unfold local_recs. rewrite forallb_app, andb_true_iff. reflexivity. Qed.

Lemma local_recs_cons : forall r l, local_recs (r :: l) <-> local_rec r = true /\ local_recs l.
Proof. intros. unfold local_recs. simpl. rewrite andb_true_iff. reflexivity. Qed.

Lemma pmarkers_local : forall l, local_recs l -> pmarkers l = markers l.
Proof.
  induction l as [|r l IH]; intros H; [reflexivity|].
  apply local_recs_cons in H. destruct H as [Hr Hl].
  destruct r; simpl in *; try discriminate; unfold pmarkers, markers in *; simpl; rewrite ?IH; auto.
Qed.

Lemma entries_map_REnt : forall l, entries (map REnt l) = l.
Proof. induction l; simpl; auto. unfold entries in *. simpl. f_equal. auto. Qed.

Lemma markers_map_REnt : forall l, markers (map REnt l) = [].
Proof. induction l; simpl; auto. Qed.

Lemma pmarkers_map_REnt : forall l, pmarkers (map REnt l) = [].
Proof. induction l; simpl; auto. Qed.

Lemma pmarkers_sub : forall l i, In i (pmarkers l) -> In i (markers l).
Proof.
  induction l as [|r l IH]; intros i H; [exact H|].
  unfold pmarkers, markers in *. simpl in *. apply in_app_or in H. apply in_or_app. destruct H as [H|H]; [left|right; auto].
  destruct r as [e|c|m|v h m]; simpl in *; auto. destruct v; simpl in *; auto.
Qed.

Definition is_state (r : rec) : bool := match r with RState _ => true | _ => false end.

Lemma pmarkers_states : forall l, forallb is_state l = true -> pmarkers l = [].
Proof.
  induction l; simpl; intros; auto.
  apply andb_true_iff in H. destruct H. destruct a; simpl in *; try discriminate. unfold pmarkers in *. simpl. auto.
Qed.

Lemma entries_states : forall l, forallb is_state l = true -> entries l = [].
Proof.
  induction l; simpl; intros; auto.
  apply andb_true_iff in H. destruct H. destruct a; simpl in *; try discriminate. unfold entries in *. simpl. auto.
Qed.

Lemma markers_states : forall l, forallb is_state l = true -> markers l = [].
Proof.
  induction l; simpl; intros; auto.
  apply andb_true_iff in H. destruct H. destruct a; simpl in *; try discriminate. unfold markers in *. simpl. auto.
Qed.

Lemma last_commit_app : forall a b,
  last_commit (a ++ b) = fold_left (fun acc r => match r with RState c => c | _ => acc end) b (last_commit a).
Proof. intros. unfold last_commit. rewrite fold_left_app. reflexivity. Qed.

Lemma last_entry_app : forall a b,
  last_entry (a ++ b) = fold_left (fun acc r => match r with REnt i => i | RSnapIn true _ i => N.max acc i | _ => acc end) b (last_entry a).
Proof. intros. unfold last_entry. rewrite fold_left_app. reflexivity. Qed.

Lemma last_nonempty_default : forall (n : N) l d1 d2, last (n :: l) d1 = last (n :: l) d2.
Proof. intros n l. revert n. induction l; intros; [reflexivity|]. change (last (a :: l) d1 = last (a :: l) d2). apply IHl. Qed.

(* last_entry only depends on the entries *)
Lemma last_entry_entries : forall l d, local_recs l ->
  fold_left (fun acc r => match r with REnt i => i | RSnapIn true _ i => N.max acc i | _ => acc end) l d = last (entries l) d.
Proof.
  induction l; simpl; intros d Hl; auto.
  apply local_recs_cons in Hl. destruct Hl as [Ha Hl].
  destruct a; simpl in Ha; try discriminate; simpl; rewrite IHl by exact Hl; auto.
  unfold entries. simpl. fold (entries l). destruct (entries l) eqn:E; auto.
  apply last_nonempty_default.
Qed.

Lemma last_entry_eq : forall l, local_recs l -> last_entry l = last (entries l) 0.
Proof. intros. unfold last_entry. apply last_entry_entries. exact H. Qed.

Lemma last_range : forall a b d, a < b -> last (range a b) d = b.
Proof.
  intros a b d H. unfold range.
  remember (N.to_nat (b - a)) as n. assert (Hn : b = a + N.of_nat n) by lia.
  assert (Hp : (0 < n)%nat) by lia. clear Heqn H. subst b.
  revert a. induction n; intros; [lia|].
  destruct n.
  - simpl. lia.
  - change (seqN (a + 1) (S (S n))) with ((a + 1) :: seqN (a + 1 + 1) (S n)).
    change (last ((a + 1) :: seqN (a + 1 + 1) (S n)) d) with (last (seqN (a + 1 + 1) (S n)) d).
    rewrite IHn by lia. lia.
Qed.

(* ---------- segment lists ---------- *)

Lemma all_recs_app : forall a b, all_recs (a ++ b) = all_recs a ++ all_recs b.
Proof. intros. unfold all_recs. rewrite map_app, concat_app. reflexivity. Qed.

Lemma all_recs_cons : forall s t, all_recs (s :: t) = srecs s ++ all_recs t.
Proof. reflexivity. Qed.

Lemma app_tail_cons2 : forall s s2 t rs, app_tail (s :: s2 :: t) rs = s :: app_tail (s2 :: t) rs.
Proof. reflexivity. Qed.
Lemma app_tail_one : forall s rs, app_tail [s] rs = [mkSeg (sfirst s) (srecs s ++ rs)].
Proof. reflexivity. Qed.
Lemma drop_tail_cons2 : forall s s2 t j, drop_tail (s :: s2 :: t) j = s :: drop_tail (s2 :: t) j.
Proof. reflexivity. Qed.
Lemma drop_tail_one : forall s j, drop_tail [s] j = [mkSeg (sfirst s) (firstn (length (srecs s) - j) (srecs s))].
Proof. reflexivity. Qed.

Lemma app_tail_recs : forall ss rs, ss <> [] -> all_recs (app_tail ss rs) = all_recs ss ++ rs.
Proof.
  induction ss as [|s t IH]; intros rs H; [congruence|].
  destruct t as [|s2 t2].
  - rewrite app_tail_one. unfold all_recs. simpl. rewrite !app_nil_r. reflexivity.
  - rewrite app_tail_cons2. rewrite !all_recs_cons with (s := s). rewrite IH by congruence. rewrite app_assoc. reflexivity.
Qed.

Lemma app_tail_firsts : forall ss rs, map sfirst (app_tail ss rs) = map sfirst ss.
Proof.
  induction ss as [|s t IH]; intros; auto.
  destruct t as [|s2 t2]; [reflexivity|].
  rewrite app_tail_cons2. rewrite !map_cons. rewrite IH. reflexivity.
Qed.

Lemma app_tail_nonempty : forall ss rs, ss <> [] -> app_tail ss rs <> [].
Proof. destruct ss as [|s [|s2 t]]; simpl; congruence. Qed.

Lemma app_tail_length : forall ss rs, length (app_tail ss rs) = length ss.
Proof.
  induction ss as [|s t IH]; intros; auto.
  destruct t as [|s2 t2]; [reflexivity|].
  rewrite app_tail_cons2. cbn [length]. rewrite IH. reflexivity.
Qed.

Lemma app_tail_nil : forall ss, app_tail ss [] = ss.
Proof.
  induction ss as [|s t IH]; auto.
  destruct t as [|s2 t2].
  - rewrite app_tail_one. rewrite app_nil_r. destruct s; reflexivity.
  - rewrite app_tail_cons2. rewrite IH. reflexivity.
Qed.

(* splitting a segment list at its tail segment *)
Lemma app_tail_snoc : forall pre s rs, app_tail (pre ++ [s]) rs = pre ++ [mkSeg (sfirst s) (srecs s ++ rs)].
Proof.
  induction pre as [|p t IH]; intros; [reflexivity|].
  destruct t as [|p2 t2].
  - reflexivity.
  - change ((p :: p2 :: t2) ++ [s]) with (p :: p2 :: (t2 ++ [s])). rewrite app_tail_cons2.
    change (p2 :: t2 ++ [s]) with ((p2 :: t2) ++ [s]). rewrite IH. reflexivity.
Qed.

Lemma drop_tail_snoc : forall pre s j,
  drop_tail (pre ++ [s]) j = pre ++ [mkSeg (sfirst s) (firstn (length (srecs s) - j) (srecs s))].
Proof.
  induction pre as [|p t IH]; intros; [reflexivity|].
  destruct t as [|p2 t2].
  - reflexivity.
  - change ((p :: p2 :: t2) ++ [s]) with (p :: p2 :: (t2 ++ [s])). rewrite drop_tail_cons2.
    change (p2 :: t2 ++ [s]) with ((p2 :: t2) ++ [s]). rewrite IH. reflexivity.
Qed.

Lemma drop_tail_0 : forall ss, drop_tail ss 0 = ss.
Proof.
  induction ss as [|s t IH]; auto.
  destruct t as [|s2 t2].
  - rewrite drop_tail_one. rewrite Nat.sub_0_r, firstn_all. destruct s; reflexivity.
  - rewrite drop_tail_cons2. rewrite IH. reflexivity.
Qed.

Lemma exists_last_seg : forall (ss : list seg), ss <> [] -> exists pre s, ss = pre ++ [s].
Proof. intros ss H. destruct (exists_last H) as [pre [s E]]. eauto. Qed.

(* ---------- the shape of a live WAL ---------- *)

(* the entries of ss are exactly the indices lo+1 .. hi, cut into segments at the name indices;
   a marker never exceeds the last entry of its own segment *)
Fixpoint seg_chain (lo : N) (ss : list seg) (hi : N) : Prop :=
  match ss with
  | [] => False
  | s :: t =>
    match t with
    | [] => entries (srecs s) = range lo hi /\ lo <= hi /\ (forall i, In i (pmarkers (srecs s)) -> i <= hi)
    | s2 :: _ => exists mid, entries (srecs s) = range lo mid /\ lo <= mid
                  /\ (forall i, In i (pmarkers (srecs s)) -> i <= mid)
                  /\ sfirst s2 = mid + 1 /\ seg_chain mid t hi
    end
  end.

Definition lo_of (ss : list seg) : N := N.pred (sfirst (hd (mkSeg 0 []) ss)).

Lemma seg_chain_one : forall lo s hi,
  seg_chain lo [s] hi <-> (entries (srecs s) = range lo hi /\ lo <= hi /\ (forall i, In i (pmarkers (srecs s)) -> i <= hi)).
Proof. reflexivity. Qed.

Lemma seg_chain_cons2 : forall lo s s2 t hi,
  seg_chain lo (s :: s2 :: t) hi <->
  exists mid, entries (srecs s) = range lo mid /\ lo <= mid /\ (forall i, In i (pmarkers (srecs s)) -> i <= mid)
              /\ sfirst s2 = mid + 1 /\ seg_chain mid (s2 :: t) hi.
Proof. reflexivity. Qed.

Lemma seg_chain_le : forall ss lo hi, seg_chain lo ss hi -> lo <= hi.
Proof.
  induction ss as [|s t IH]; intros lo hi H; [destruct H|].
  destruct t as [|s2 t2].
  - destruct H as [_ [L _]]. exact L.
  - destruct H as [mid [_ [L [_ [_ C]]]]]. apply IH in C. lia.
Qed.

Lemma seg_chain_entries : forall ss lo hi, seg_chain lo ss hi -> entries (all_recs ss) = range lo hi.
Proof.
  induction ss as [|s t IH]; intros lo hi H; [destruct H|].
  destruct t as [|s2 t2].
  - destruct H as [E _]. unfold all_recs. simpl. rewrite app_nil_r. exact E.
  - destruct H as [mid [E [L [_ [_ C]]]]].
    rewrite all_recs_cons, entries_app, E, (IH _ _ C).
    symmetry. apply range_app; auto. eapply seg_chain_le; eauto.
Qed.

Lemma seg_chain_markers : forall ss lo hi i, seg_chain lo ss hi -> In i (pmarkers (all_recs ss)) -> i <= hi.
Proof.
  induction ss as [|s t IH]; intros lo hi i H Hi; [destruct H|].
  destruct t as [|s2 t2].
  - destruct H as [_ [_ M]]. unfold all_recs in Hi. simpl in Hi. rewrite app_nil_r in Hi. auto.
  - destruct H as [mid [_ [_ [M [_ C]]]]].
    rewrite all_recs_cons, pmarkers_app in Hi. apply in_app_or in Hi. destruct Hi as [Hi|Hi].
    + apply M in Hi. apply seg_chain_le in C. lia.
    + eapply IH; eauto.
Qed.

(* appending records to the tail segment *)
Lemma seg_chain_app_tail : forall ss lo hi rs hi',
  seg_chain lo ss hi ->
  entries rs = range hi hi' -> hi <= hi' ->
  (forall i, In i (pmarkers rs) -> i <= hi') ->
  seg_chain lo (app_tail ss rs) hi'.
Proof.
  induction ss as [|s t IH]; intros lo hi rs hi' H E L M; [destruct H|].
  destruct t as [|s2 t2].
  - destruct H as [E0 [L0 M0]].
    rewrite app_tail_one. apply seg_chain_one. simpl. rewrite entries_app, pmarkers_app, E0, E. split; [|split].
    + symmetry. apply range_app; auto.
    + lia.
    + intros i Hi. apply in_app_or in Hi. destruct Hi as [Hi|Hi]; [apply M0 in Hi; lia | auto].
  - destruct H as [mid [E0 [L0 [M0 [F C]]]]].
    rewrite app_tail_cons2.
    assert (IHC := IH _ _ _ _ C E L M).
    destruct (app_tail (s2 :: t2) rs) as [|x y] eqn:EA.
    + exfalso. eapply app_tail_nonempty; [|exact EA]. congruence.
    + apply seg_chain_cons2. exists mid. repeat split; auto.
      assert (HF : map sfirst (x :: y) = map sfirst (s2 :: t2)) by (rewrite <- EA; apply app_tail_firsts).
      simpl in HF. congruence.
Qed.

(* a cut: a new tail segment named hi+1 *)
Lemma seg_chain_cut : forall ss lo hi rs,
  seg_chain lo ss hi -> entries rs = [] -> pmarkers rs = [] ->
  seg_chain lo (ss ++ [mkSeg (hi + 1) rs]) hi.
Proof.
  induction ss as [|s t IH]; intros lo hi rs H E M; [destruct H|].
  destruct t as [|s2 t2].
  - destruct H as [E0 [L0 M0]].
    simpl app. apply seg_chain_cons2. exists hi.
    split; [exact E0|]. split; [exact L0|]. split; [exact M0|]. split; [reflexivity|].
    apply seg_chain_one. simpl. rewrite E, M. rewrite range_nil by lia. split; [reflexivity|]. split; [lia|]. intros i [].
  - destruct H as [mid [E0 [L0 [M0 [F C]]]]].
    change ((s :: s2 :: t2) ++ [mkSeg (hi + 1) rs]) with (s :: s2 :: (t2 ++ [mkSeg (hi + 1) rs])).
    apply seg_chain_cons2. exists mid. repeat split; auto.
    change (s2 :: t2 ++ [mkSeg (hi + 1) rs]) with ((s2 :: t2) ++ [mkSeg (hi + 1) rs]). apply IH; auto.
Qed.

(* purging the oldest segment *)
Lemma seg_chain_tl : forall s s2 t lo hi,
  seg_chain lo (s :: s2 :: t) hi -> seg_chain (lo_of (s2 :: t)) (s2 :: t) hi.
Proof.
  intros s s2 t lo hi H. destruct H as [mid [_ [_ [_ [F C]]]]].
  unfold lo_of. simpl. rewrite F. replace (N.pred (mid + 1)) with mid by lia. exact C.
Qed.

(* removing state records from the end of the tail segment changes neither entries nor pmarkers *)
Lemma seg_chain_ext : forall ss ss' lo hi,
  seg_chain lo ss hi ->
  map sfirst ss' = map sfirst ss ->
  map (fun s => entries (srecs s)) ss' = map (fun s => entries (srecs s)) ss ->
  map (fun s => pmarkers (srecs s)) ss' = map (fun s => pmarkers (srecs s)) ss ->
  seg_chain lo ss' hi.
Proof.
  induction ss as [|s t IH]; intros ss' lo hi H F E M; [destruct H|].
  destruct ss' as [|s' t']; [discriminate|].
  simpl in F, E, M. injection F as F1 F2. injection E as E1 E2. injection M as M1 M2.
  destruct t as [|s2 t2].
  - destruct t'; [|discriminate]. apply seg_chain_one. rewrite E1, M1. exact H.
  - destruct t' as [|s2' t2']; [discriminate|].
    destruct H as [mid [E0 [L0 [M0 [F0 C]]]]].
    apply seg_chain_cons2. exists mid. rewrite E1, M1.
    split; [exact E0|]. split; [exact L0|]. split; [exact M0|]. split.
    + simpl in F2. injection F2 as F2 _. congruence.
    + apply IH; auto.
Qed.

(* ---------- covering ---------- *)

Fixpoint cov (ss : list seg) (i : N) : option nat :=
  match ss with
  | [] => None
  | s :: t => match cov t i with
              | Some q => Some (S q)
              | None => if sfirst s <=? i then Some 0%nat else None
              end
  end.

Lemma covering_from_cov : forall ss i pos best,
  covering_from ss i pos best = match cov ss i with Some q => Some (pos + q)%nat | None => best end.
Proof.
  induction ss as [|s t IH]; intros; simpl; auto.
  rewrite IH. destruct (cov t i) as [q|].
  - f_equal. lia.
  - destruct (sfirst s <=? i); [f_equal; lia | reflexivity].
Qed.

Lemma covering_cov : forall ss i, covering ss i = cov ss i.
Proof. intros. unfold covering. rewrite covering_from_cov. destruct (cov ss i); auto. Qed.

(* name indices grow along a chain *)
Lemma seg_chain_firsts_ge : forall t s lo hi x,
  seg_chain lo (s :: t) hi -> In x t -> lo + 1 <= sfirst x.
Proof.
  induction t as [|s2 t2 IH]; intros s lo hi x C Hx; [destruct Hx|].
  destruct C as [mid [_ [L [_ [F C]]]]].
  destruct Hx as [<-|Hx]; [lia|].
  specialize (IH _ _ _ _ C Hx). lia.
Qed.

Lemma cov_none_later : forall t s2 mid hi i,
  seg_chain mid (s2 :: t) hi -> sfirst s2 = mid + 1 -> i <= mid -> cov (s2 :: t) i = None.
Proof.
  induction t as [|s3 t3 IH]; intros s2 mid hi i C F L.
  - simpl. destruct (sfirst s2 <=? i) eqn:Q; auto. lia.
  - destruct C as [mid2 [_ [L2 [_ [F2 C]]]]].
    change (cov (s2 :: s3 :: t3) i) with (match cov (s3 :: t3) i with Some q => Some (S q) | None => if sfirst s2 <=? i then Some 0%nat else None end).
    rewrite (IH _ _ _ _ C F2) by lia.
    destruct (sfirst s2 <=? i) eqn:Q; auto. lia.
Qed.

(* in a chain that starts at or before i: the covering segment p; the entries read from it on are the
   indices lo'+1 .. hi for some lo' <= i, and the marker of i (if there is one) is not lost by skipping *)
Lemma read_chain : forall ss lo hi i,
  seg_chain lo ss hi -> lo <= i -> sfirst (hd (mkSeg 0 []) ss) <= i ->
  exists p lo', cov ss i = Some p /\ (p < length ss)%nat
    /\ entries (all_recs (skipn p ss)) = range lo' hi /\ lo' <= i /\ lo' <= hi
    /\ (In i (pmarkers (all_recs ss)) -> In i (pmarkers (all_recs (skipn p ss)))).
Proof.
  induction ss as [|s t IH]; intros lo hi i H L Hf; [destruct H|].
  simpl in Hf.
  destruct t as [|s2 t2].
  - exists 0%nat, lo. simpl. destruct (sfirst s <=? i) eqn:Q; [|lia].
    destruct H as [E [L0 _]]. unfold all_recs. simpl. rewrite app_nil_r.
    repeat split; auto.
  - pose proof H as H0. destruct H as [mid [E0 [L0 [M0 [F C]]]]].
    destruct (mid + 1 <=? i) eqn:Q2.
    + destruct (IH mid hi i C ltac:(lia) ltac:(simpl; lia)) as [p [lo' [Hc [Hp [He [Hl [Hl2 Hm]]]]]]].
      exists (S p), lo'. change (cov (s :: s2 :: t2) i) with (match cov (s2 :: t2) i with Some q => Some (S q) | None => if sfirst s <=? i then Some 0%nat else None end).
      rewrite Hc. split; [reflexivity|]. split; [simpl in *; lia|]. split; [exact He|]. split; [exact Hl|]. split; [exact Hl2|].
      intros Hi. apply Hm. rewrite all_recs_cons, pmarkers_app in Hi. apply in_app_or in Hi.
      destruct Hi as [Hi|Hi]; auto. apply M0 in Hi. lia.
    + exists 0%nat, lo. change (cov (s :: s2 :: t2) i) with (match cov (s2 :: t2) i with Some q => Some (S q) | None => if sfirst s <=? i then Some 0%nat else None end).
      rewrite (cov_none_later _ _ _ _ _ C F) by lia.
      destruct (sfirst s <=? i) eqn:Q; [|lia].
      split; [reflexivity|]. split; [simpl; lia|]. split; [apply (seg_chain_entries _ _ _ H0)|].
      split; [exact L|]. split; [eapply seg_chain_le; eauto|]. auto.
Qed.

(* ---------- ReadAll over a flat record list ---------- *)

Lemma read_step_ent : forall i st e,
  read_step i (Ok st) (REnt e) =
  if i <? e then
    (if Nat.ltb (length (rd_ents st)) (N.to_nat (e - i - 1)) then Err E_OUT_OF_RANGE
     else Ok (mkReadst (firstn (N.to_nat (e - i - 1)) (rd_ents st) ++ [e]) (rd_commit st) (rd_match st)))
  else Ok (mkReadst [] (rd_commit st) (rd_match st)).
Proof. reflexivity. Qed.
Lemma read_step_state : forall i st c, read_step i (Ok st) (RState c) = Ok (mkReadst (rd_ents st) c (rd_match st)).
Proof. reflexivity. Qed.
Lemma read_step_snap : forall i st m,
  read_step i (Ok st) (RSnap m) = if m =? i then Ok (mkReadst (rd_ents st) (rd_commit st) true) else Ok st.
Proof. reflexivity. Qed.
Lemma read_step_snapin : forall i st v h m,
  read_step i (Ok st) (RSnapIn v h m) = if m =? i then Ok (mkReadst (rd_ents st) (rd_commit st) true) else Ok st.
Proof. reflexivity. Qed.

Lemma range_prefix : forall h m x hi (l : list N), h < m -> range h m ++ l = range x hi -> x = h /\ m <= hi /\ l = range m hi.
Proof.
  intros h m x hi l Hhm E.
  assert (Hx : x < hi).
  { destruct (N.ltb_spec x hi); auto. rewrite (range_nil x hi) in E by lia. rewrite (range_cons h m) in E by lia. discriminate. }
  assert (Exh : x = h).
  { rewrite (range_cons h m) in E by lia. rewrite (range_cons x hi) in E by lia. simpl in E. injection E as E1 _. lia. }
  subst x.
  assert (Hle : m <= hi).
  { assert (El : length (range h m ++ l) = length (range h hi)) by (rewrite E; reflexivity).
    rewrite app_length, !range_length in El. lia. }
  split; [reflexivity|]. split; [exact Hle|].
  rewrite (range_app h m hi) in E by lia. apply app_inv_head in E. exact E.
Qed.

(* the validated incoming markers of a record list, with the log index they were written at *)
Definition jumps (rs : list rec) : list (N * N) :=
  flat_map (fun r => match r with RSnapIn true h m => [(h, m)] | _ => [] end) rs.

Lemma jumps_app : forall a b, jumps (a ++ b) = jumps a ++ jumps b.
Proof. intros. unfold jumps. rewrite flat_map_app. reflexivity. Qed.

Lemma seqN_range : forall h m, seqN (h + 1) (N.to_nat (m - h)) = range h m.
Proof. reflexivity. Qed.

(* ReadAll from i over records whose entries (with the indices an incoming snapshot stands for) are x+1 .. hi, when
   no validated incoming marker is above i: what they stand for is at or below i and is skipped like real entries *)
Lemma read_flat : forall R i hi st x,
  (forall h m, In (h, m) (jumps R) -> m <= i /\ h < m) ->
  entries R = range x hi -> x <= hi ->
  rd_ents st = range i (N.max i x) ->
  exists st', fold_left (read_step i) R (Ok st) = Ok st'
    /\ rd_ents st' = range i (N.max i hi)
    /\ rd_match st' = (rd_match st || memN i (markers R))
    /\ rd_commit st' = fold_left (fun acc r => match r with RState c => c | _ => acc end) R (rd_commit st).
Proof.
  induction R as [|r R IH]; intros i hi st x HJ E L Hst.
  - simpl in *. exists st. split; auto. split.
    + assert (x = hi). { destruct (N.eq_dec x hi); auto. exfalso. rewrite range_cons in E by lia. discriminate. }
      subst. exact Hst.
    + split; auto. rewrite orb_false_r. reflexivity.
  - assert (HJ' : forall h m, In (h, m) (jumps R) -> m <= i /\ h < m).
    { intros h m Hin. apply HJ. change (r :: R) with ([r] ++ R). rewrite jumps_app. apply in_or_app. right. exact Hin. }
    destruct r as [e|c|m|v h m].
    + (* entry *)
      unfold entries in E. simpl in E. fold (entries R) in E.
      assert (Hx : x < hi). { destruct (N.ltb_spec x hi); auto. rewrite range_nil in E by lia. discriminate. }
      rewrite range_cons in E by lia. injection E as He ER.
      cbn [fold_left]. rewrite read_step_ent.
      destruct (i <? e) eqn:Q.
      * assert (Hmax : N.max i x = x) by lia. rewrite Hmax in Hst.
        assert (Hlen : length (rd_ents st) = N.to_nat (e - i - 1)). { rewrite Hst, range_length. lia. }
        rewrite Hlen, Nat.ltb_irrefl.
        rewrite <- Hlen, firstn_all.
        destruct (IH i hi (mkReadst (rd_ents st ++ [e]) (rd_commit st) (rd_match st)) (x + 1) HJ' ER ltac:(lia)) as [st' [F [A [B C]]]].
        { simpl. rewrite Hst. subst e. replace (N.max i (x + 1)) with (x + 1) by lia. symmetry. apply range_snoc. lia. }
        exists st'. split; [exact F|]. split; [exact A|]. split.
        -- rewrite B. simpl. unfold markers. simpl. reflexivity.
        -- rewrite C. reflexivity.
      * destruct (IH i hi (mkReadst [] (rd_commit st) (rd_match st)) (x + 1) HJ' ER ltac:(lia)) as [st' [F [A [B C]]]].
        { simpl. rewrite range_nil by lia. reflexivity. }
        exists st'. split; [exact F|]. split; [exact A|]. split.
        -- rewrite B. unfold markers. simpl. reflexivity.
        -- rewrite C. reflexivity.
    + (* hard state *)
      unfold entries in E. simpl in E. fold (entries R) in E.
      cbn [fold_left]. rewrite read_step_state.
      destruct (IH i hi (mkReadst (rd_ents st) c (rd_match st)) x HJ' E L Hst) as [st' [F [A [B C]]]].
      exists st'. split; [exact F|]. split; [exact A|]. split.
      * rewrite B. unfold markers. simpl. reflexivity.
      * rewrite C. reflexivity.
    + (* snapshot marker *)
      unfold entries in E. simpl in E. fold (entries R) in E.
      cbn [fold_left]. rewrite read_step_snap.
      destruct (m =? i) eqn:Q.
      * destruct (IH i hi (mkReadst (rd_ents st) (rd_commit st) true) x HJ' E L Hst) as [st' [F [A [B C]]]].
        exists st'. split; [exact F|]. split; [exact A|]. split.
        -- rewrite B. simpl. unfold markers. simpl. fold (markers R). unfold memN. simpl.
           rewrite N.eqb_sym, Q. rewrite orb_true_r. reflexivity.
        -- rewrite C. reflexivity.
      * destruct (IH i hi st x HJ' E L Hst) as [st' [F [A [B C]]]].
        exists st'. split; [exact F|]. split; [exact A|]. split.
        -- rewrite B. unfold markers. simpl. fold (markers R). unfold memN. simpl.
           rewrite N.eqb_sym, Q. reflexivity.
        -- rewrite C. reflexivity.
    + (* marker of an incoming snapshot *)
      cbn [fold_left]. rewrite read_step_snapin.
      assert (Hmk : memN i (markers (RSnapIn v h m :: R)) = (m =? i) || memN i (markers R)).
      { unfold markers. simpl. fold (markers R). unfold memN. simpl. rewrite (N.eqb_sym i m). reflexivity. }
      destruct v.
      * (* valid: it stands for h+1 .. m, all at or below i *)
        destruct (HJ h m ltac:(simpl; left; reflexivity)) as [Hmi Hhm].
        unfold entries in E. simpl in E. fold (entries R) in E. rewrite seqN_range in E.
        assert (Hxh : x = h /\ entries R = range m hi /\ m <= hi).
        { destruct (range_prefix h m x hi (entries R) Hhm E) as [A1 [A2 A3]]. auto. }
        destruct Hxh as [-> [ER Lm]].
        assert (Hst' : rd_ents st = range i (N.max i m)).
        { rewrite Hst. replace (N.max i h) with i by lia. replace (N.max i m) with i by lia. reflexivity. }
        destruct (m =? i) eqn:Q.
        -- destruct (IH i hi (mkReadst (rd_ents st) (rd_commit st) true) m HJ' ER Lm Hst') as [st' [F [A [B C]]]].
           exists st'. split; [exact F|]. split; [exact A|]. split; [|rewrite C; reflexivity].
           rewrite B, Hmk. simpl. rewrite orb_true_r. reflexivity.
        -- destruct (IH i hi st m HJ' ER Lm Hst') as [st' [F [A [B C]]]].
           exists st'. split; [exact F|]. split; [exact A|]. split; [|rewrite C; reflexivity].
           rewrite B, Hmk. reflexivity.
      * (* never made valid: only a marker *)
        unfold entries in E. simpl in E. fold (entries R) in E.
        destruct (m =? i) eqn:Q.
        -- destruct (IH i hi (mkReadst (rd_ents st) (rd_commit st) true) x HJ' E L Hst) as [st' [F [A [B C]]]].
           exists st'. split; [exact F|]. split; [exact A|]. split; [|rewrite C; reflexivity].
           rewrite B, Hmk. simpl. rewrite orb_true_r. reflexivity.
        -- destruct (IH i hi st x HJ' E L Hst) as [st' [F [A [B C]]]].
           exists st'. split; [exact F|]. split; [exact A|]. split; [|rewrite C; reflexivity].
           rewrite B, Hmk. reflexivity.
Qed.

Lemma memN_In : forall x l, memN x l = true <-> In x l.
Proof.
  intros. unfold memN. rewrite existsb_exists. split.
  - intros [y [Hy E]]. apply N.eqb_eq in E. subst. auto.
  - intros H. exists x. split; auto. apply N.eqb_refl.
Qed.

(* what a restart reads from a well-shaped WAL at a snapshot index whose marker is there and which no validated
   incoming snapshot exceeds *)
Lemma jumps_skipn : forall ss p h m, In (h, m) (jumps (all_recs (skipn p ss))) -> In (h, m) (jumps (all_recs ss)).
Proof.
  intros ss p h m H. rewrite <- (firstn_skipn p ss), all_recs_app, jumps_app. apply in_or_app. right. exact H.
Qed.

Lemma read_all_chain : forall ss lo hi i,
  (forall h m, In (h, m) (jumps (all_recs ss)) -> m <= i /\ h < m) ->
  seg_chain lo ss hi -> lo <= i -> sfirst (hd (mkSeg 0 []) ss) <= i ->
  In i (pmarkers (all_recs ss)) ->
  exists cm, read_all ss i = Ok (range i hi, cm).
Proof.
  intros ss lo hi i HJ C L F M.
  destruct (read_chain _ _ _ _ C L F) as [p [lo' [Hc [Hp [He [Hl [Hl2 Hm]]]]]]].
  unfold read_all. rewrite covering_cov, Hc.
  destruct (read_flat (all_recs (skipn p ss)) i hi (mkReadst [] 0 false) lo') as [st' [Ff [A [B Cm]]]]; auto.
  { intros h m Hin. apply HJ. eapply jumps_skipn; eauto. }
  { simpl. rewrite range_nil by lia. reflexivity. }
  rewrite Ff. rewrite B. simpl.
  assert (HM : memN i (markers (all_recs (skipn p ss))) = true) by (apply memN_In; apply pmarkers_sub; auto).
  rewrite HM. exists (rd_commit st'). rewrite A.
  assert (i <= hi) by (eapply seg_chain_markers; eauto).
  replace (N.max i hi) with hi by lia. reflexivity.
Qed.

(* ---------- choosing the snapshot ---------- *)

Lemma fold_max_some : forall l a,
  exists b, fold_left (fun acc x => match acc with None => Some x | Some m => Some (N.max m x) end) l (Some a) = Some b
            /\ a <= b /\ (forall y, In y l -> y <= b) /\ (b = a \/ In b l).
Proof.
  induction l as [|x l IH]; intros a.
  - exists a. simpl. split; [reflexivity|]. split; [lia|]. split; [intros y []|left; reflexivity].
  - simpl. destruct (IH (N.max a x)) as [b [F [L [B D]]]].
    exists b. split; [exact F|]. split; [lia|]. split.
    + intros y [<-|Hy]; [lia | auto].
    + destruct D as [->|D]; [|right; right; exact D].
      destruct (N.max_spec a x) as [[_ ->]|[_ ->]]; [right; left; reflexivity | left; reflexivity].
Qed.

Lemma maxl_nil : maxl [] = None.
Proof. reflexivity. Qed.

Lemma maxl_is_max : forall l x, In x l -> (forall y, In y l -> y <= x) -> maxl l = Some x.
Proof.
  intros l x Hx Hb. destruct l as [|a l]; [destruct Hx|].
  unfold maxl. simpl. destruct (fold_max_some l a) as [b [F [L [B D]]]]. rewrite F. f_equal.
  assert (b <= x). { destruct D as [->|D]; [apply Hb; left; auto | apply Hb; right; auto]. }
  assert (x <= b). { destruct Hx as [<-|Hx]; [exact L | apply B; exact Hx]. }
  lia.
Qed.

Lemma filter_nil_iff : forall (A : Type) (f : A -> bool) l, (forall x, In x l -> f x = false) -> filter f l = [].
Proof. induction l; simpl; intros; auto. rewrite H by (left; auto). apply IHl. intros. apply H. right; auto. Qed.

Lemma valid_markers_all : forall ss,
  (forall i, In i (markers (all_recs ss)) -> i <= last_commit (all_recs ss)) ->
  valid_markers ss = markers (all_recs ss).
Proof.
  intros ss H. unfold valid_markers.
  assert (G : forall l, (forall i, In i l -> i <= last_commit (all_recs ss)) -> filter (fun i => i <=? last_commit (all_recs ss)) l = l).
  { induction l; simpl; intros; auto. destruct (a <=? last_commit (all_recs ss)) eqn:Q.
    - f_equal. apply IHl. intros. apply H0. right; auto.
    - specialize (H0 a (or_introl eq_refl)). lia. }
  apply G. exact H.
Qed.

Lemma jumps_local : forall l, local_recs l -> jumps l = [].
Proof.
  induction l as [|r l IH]; intros H; [reflexivity|].
  apply local_recs_cons in H. destruct H as [Hr Hl]. destruct r; simpl in Hr; try discriminate; unfold jumps in *; simpl; auto.
Qed.

(* the restart of a well-shaped world whose newest marker m has its file and checkpoint *)
Lemma recover_chain : forall ss lo hi sf cks m, local_recs (all_recs ss) ->
  seg_chain lo ss hi -> lo = lo_of ss ->
  In m (markers (all_recs ss)) -> (forall i, In i (markers (all_recs ss)) -> i <= m) ->
  (forall i, In i (markers (all_recs ss)) -> i <= last_commit (all_recs ss)) ->
  sfirst (hd (mkSeg 0 []) ss) <= m ->
  ~ In 0 sf ->
  (0 < m -> In m sf /\ lookup m cks = Some (range 0 m)) ->
  recover ss sf cks = Ok (range 0 hi).
Proof.
  intros ss lo hi sf cks m HL C Hlo Hm Hmax Hvalid Hfirst H0 Hfile.
  assert (HJ : forall i h m0, In (h, m0) (jumps (all_recs ss)) -> m0 <= i /\ h < m0).
  { intros i h m0 Hin. rewrite (jumps_local _ HL) in Hin. destruct Hin. }
  assert (Hmp : In m (pmarkers (all_recs ss))) by (rewrite pmarkers_local by exact HL; exact Hm).
  assert (Llo : lo <= m). { subst lo. unfold lo_of. lia. }
  assert (Lmh : m <= hi) by (eapply seg_chain_markers; eauto).
  unfold recover, choose_snapshot. rewrite (valid_markers_all _ Hvalid).
  destruct (N.eq_dec m 0) as [Hz|Hz].
  - subst m.
    rewrite filter_nil_iff.
    + rewrite maxl_nil. destruct (read_all_chain _ _ _ 0 (HJ 0) C Llo Hfirst Hmp) as [cm R]. rewrite R. reflexivity.
    + intros x Hx. destruct (memN x (markers (all_recs ss))) eqn:Q; auto.
      apply memN_In in Q. apply Hmax in Q. assert (x = 0) by lia. subst. contradiction.
  - destruct (Hfile ltac:(lia)) as [Hsf Hck].
    rewrite (maxl_is_max _ m).
    + rewrite Hck. destruct (read_all_chain _ _ _ m (HJ m) C Llo Hfirst Hmp) as [cm R]. rewrite R.
      f_equal. symmetry. apply range_app; lia.
    + apply filter_In. split; auto. apply memN_In. exact Hm.
    + intros y Hy. apply filter_In in Hy. destruct Hy as [_ Hy]. apply memN_In in Hy. auto.
Qed.

(* ---------- more about appending / dropping at the tail ---------- *)

Lemma last_commit_snoc_state : forall a c, last_commit (a ++ [RState c]) = c.
Proof. intros. rewrite last_commit_app. reflexivity. Qed.

Definition has_state (rs : list rec) : bool := existsb is_state rs.

Lemma fold_commit_nostate : forall rs d, has_state rs = false ->
  fold_left (fun acc r => match r with RState c => c | _ => acc end) rs d = d.
Proof.
  induction rs as [|r rs IH]; intros d H; simpl; auto.
  unfold has_state in H. simpl in H. apply orb_false_iff in H. destruct H as [H1 H2].
  destruct r; simpl in H1; try discriminate; apply IH; exact H2.
Qed.

Lemma fold_commit_state : forall rs d d', has_state rs = true ->
  fold_left (fun acc r => match r with RState c => c | _ => acc end) rs d =
  fold_left (fun acc r => match r with RState c => c | _ => acc end) rs d'.
Proof.
  induction rs as [|r rs IH]; intros d d' H; [discriminate|].
  unfold has_state in H. simpl in H. fold (has_state rs) in H. simpl.
  destruct r; simpl in H; try (apply IH; exact H).
  destruct (has_state rs) eqn:Q; [apply IH; reflexivity|].
  rewrite !fold_commit_nostate by exact Q. reflexivity.
Qed.

Lemma last_commit_nostate : forall a rs, has_state rs = false -> last_commit (a ++ rs) = last_commit a.
Proof. intros. rewrite last_commit_app. apply fold_commit_nostate. exact H. Qed.

(* a suffix that contains a hard state determines the last commit *)
Lemma last_commit_suffix : forall a b, has_state b = true -> last_commit (a ++ b) = last_commit b.
Proof. intros. rewrite last_commit_app. unfold last_commit. apply fold_commit_state. exact H. Qed.

Lemma last_commit_suffix_le : forall a b, last_commit b <= last_commit (a ++ b).
Proof.
  intros. destruct (has_state b) eqn:Q.
  - rewrite last_commit_suffix by exact Q. lia.
  - unfold last_commit at 1. rewrite fold_commit_nostate by exact Q. lia.
Qed.

Lemma markers_ents_state : forall (l : list N) (hs : bool) (c : N),
  markers (map REnt l ++ (if hs then [RState c] else [])) = [].
Proof. intros. rewrite markers_app, markers_map_REnt. destruct hs; reflexivity. Qed.

Lemma pmarkers_ents_state : forall (l : list N) (hs : bool) (c : N),
  pmarkers (map REnt l ++ (if hs then [RState c] else [])) = [].
Proof. intros. rewrite pmarkers_app, pmarkers_map_REnt. destruct hs; reflexivity. Qed.

Lemma jumps_ents_state : forall (l : list N) (hs : bool) (c : N),
  jumps (map REnt l ++ (if hs then [RState c] else [])) = [].
Proof. intros. apply jumps_local. apply local_recs_app. split; [|destruct hs; reflexivity]. induction l; [reflexivity|]. apply local_recs_cons. split; [reflexivity|exact IHl]. Qed.

Lemma unvalidated_app : forall a b, unvalidated (a ++ b) = unvalidated a ++ unvalidated b.
Proof. intros. unfold unvalidated. rewrite flat_map_app. reflexivity. Qed.

Lemma unvalidated_local : forall l, local_recs l -> unvalidated l = [].
Proof.
  induction l as [|r l IH]; intros H; [reflexivity|].
  apply local_recs_cons in H. destruct H as [Hr Hl]. destruct r; simpl in Hr; try discriminate; unfold unvalidated in *; simpl; auto.
Qed.

Lemma jumps_pmarkers : forall l h m, In (h, m) (jumps l) -> In m (pmarkers l).
Proof.
  induction l as [|r l IH]; intros h m H; [destruct H|].
  unfold jumps, pmarkers in *. simpl in *. apply in_app_or in H. apply in_or_app. destruct H as [H|H]; [left|right; eauto].
  destruct r as [e|c|x|v h0 x]; simpl in *; try contradiction. destruct v; simpl in *; [|contradiction].
  destruct H as [H|[]]. injection H as _ <-. left. reflexivity.
Qed.

Lemma entries_ents_state : forall (l : list N) (hs : bool) (c : N),
  entries (map REnt l ++ (if hs then [RState c] else [])) = l.
Proof. intros. rewrite entries_app, entries_map_REnt. destruct hs; simpl; rewrite ?app_nil_r; reflexivity. Qed.

Lemma last_commit_ents_state : forall a (l : list N) (hs : bool) (c : N),
  last_commit (a ++ map REnt l ++ (if hs then [RState c] else [])) = if hs then c else last_commit a.
Proof.
  intros. rewrite app_assoc. destruct hs.
  - apply last_commit_snoc_state.
  - rewrite app_nil_r. apply last_commit_nostate. unfold has_state. induction l; simpl; auto.
Qed.

Lemma drop_tail_length : forall ss j, length (drop_tail ss j) = length ss.
Proof.
  induction ss as [|s t IH]; intros; auto.
  destruct t as [|s2 t2]; [reflexivity|].
  rewrite drop_tail_cons2. cbn [length]. rewrite IH. reflexivity.
Qed.

Lemma drop_tail_firsts : forall ss j, map sfirst (drop_tail ss j) = map sfirst ss.
Proof.
  induction ss as [|s t IH]; intros; auto.
  destruct t as [|s2 t2]; [reflexivity|].
  rewrite drop_tail_cons2. rewrite !map_cons. rewrite IH. reflexivity.
Qed.

Lemma all_recs_snoc : forall pre s, all_recs (pre ++ [s]) = all_recs pre ++ srecs s.
Proof. intros. rewrite all_recs_app. unfold all_recs at 2. simpl. rewrite app_nil_r. reflexivity. Qed.

(* dropping j buffered records after appending rs: the new ones go first *)
Lemma drop_tail_app_tail_ge : forall pre s rs j, (length rs <= j)%nat ->
  drop_tail (app_tail (pre ++ [s]) rs) j = drop_tail (pre ++ [s]) (j - length rs).
Proof.
  intros. rewrite app_tail_snoc, !drop_tail_snoc. simpl. f_equal. f_equal. f_equal.
  rewrite app_length.
  replace (length (srecs s) + length rs - j)%nat with (length (srecs s) - (j - length rs))%nat by lia.
  rewrite firstn_app. replace (length (srecs s) - (j - length rs) - length (srecs s))%nat with 0%nat by lia.
  simpl. rewrite app_nil_r. reflexivity.
Qed.

Lemma drop_tail_app_tail_le : forall pre s rs j, (j <= length rs)%nat ->
  drop_tail (app_tail (pre ++ [s]) rs) j = app_tail (pre ++ [s]) (firstn (length rs - j) rs).
Proof.
  intros. rewrite !app_tail_snoc, drop_tail_snoc. simpl. f_equal. f_equal. f_equal.
  rewrite app_length.
  replace (length (srecs s) + length rs - j)%nat with (length (srecs s) + (length rs - j))%nat by lia.
  rewrite firstn_app_2. reflexivity.
Qed.

(* the last entry of a chain that holds at least one entry, or of an empty log *)
Lemma last_entry_chain : forall ss lo hi, local_recs (all_recs ss) -> seg_chain lo ss hi -> (lo < hi \/ hi = 0) -> last_entry (all_recs ss) = hi.
Proof.
  intros ss lo hi HL C H. rewrite last_entry_eq by exact HL. rewrite (seg_chain_entries _ _ _ C).
  destruct H as [H|H].
  - apply last_range. exact H.
  - subst. rewrite range_nil by lia. reflexivity.
Qed.

Lemma nth_app_tail_first : forall ss rs n d, sfirst (nth n (app_tail ss rs) d) = sfirst (nth n ss d).
Proof.
  intros. rewrite <- !map_nth with (f := sfirst). rewrite app_tail_firsts. reflexivity.
Qed.

Lemma hd_app_tail_first : forall ss rs d, sfirst (hd d (app_tail ss rs)) = sfirst (hd d ss).
Proof.
  intros. destruct ss as [|s [|s2 t]]; try reflexivity.
Qed.

Lemma lo_of_app_tail : forall ss rs, lo_of (app_tail ss rs) = lo_of ss.
Proof. intros. unfold lo_of. rewrite hd_app_tail_first. reflexivity. Qed.

Lemma lo_of_snoc : forall ss x, ss <> [] -> lo_of (ss ++ [x]) = lo_of ss.
Proof. intros. unfold lo_of. destruct ss; [congruence|reflexivity]. Qed.

(* ---------- records of a replica that never received a snapshot ---------- *)

Lemma local_map_REnt : forall l, local_recs (map REnt l).
Proof. induction l; [reflexivity|]. apply local_recs_cons. split; [reflexivity | exact IHl]. Qed.

Lemma local_ents_state : forall (l : list N) (hs : bool) (c : N), local_recs (map REnt l ++ (if hs then [RState c] else [])).
Proof. intros. apply local_recs_app. split; [apply local_map_REnt | destruct hs; reflexivity]. Qed.

Lemma local_states : forall l, forallb is_state l = true -> local_recs l.
Proof.
  induction l as [|r l IH]; intros H; [reflexivity|]. simpl in H. apply andb_true_iff in H. destruct H as [Hr Hl].
  apply local_recs_cons. split; [destruct r; try discriminate; reflexivity | auto].
Qed.

Lemma local_app_tail : forall ss rs, ss <> [] -> local_recs (all_recs ss) -> local_recs rs -> local_recs (all_recs (app_tail ss rs)).
Proof. intros. rewrite app_tail_recs by auto. apply local_recs_app. auto. Qed.

Lemma local_firstn : forall n l, local_recs l -> local_recs (firstn n l).
Proof. intros n l H. rewrite <- (firstn_skipn n l) in H. apply local_recs_app in H. tauto. Qed.

Lemma local_drop_tail : forall ss j, local_recs (all_recs ss) -> local_recs (all_recs (drop_tail ss j)).
Proof.
  intros ss j H. destruct ss as [|s0 t]; [exact H|].
  destruct (exists_last_seg (s0 :: t) ltac:(congruence)) as [pre [sl E]]. rewrite E in *.
  rewrite drop_tail_snoc. rewrite all_recs_snoc in *. apply local_recs_app in H. destruct H as [H1 H2].
  apply local_recs_app. split; [exact H1|]. simpl. apply local_firstn. exact H2.
Qed.

Lemma local_snoc_seg : forall ss sg, local_recs (all_recs ss) -> local_recs (srecs sg) -> local_recs (all_recs (ss ++ [sg])).
Proof. intros. rewrite all_recs_snoc. apply local_recs_app. auto. Qed.

Lemma local_tl : forall ss, local_recs (all_recs ss) -> local_recs (all_recs (tl ss)).
Proof. intros [|s0 t] H; [exact H|]. simpl. rewrite all_recs_cons in H. apply local_recs_app in H. tauto. Qed.

(* ---------- WAL.enti over a chain with incoming snapshots ---------- *)

Lemma last_entry_flat : forall R x hi acc,
  (forall h m, In (h, m) (jumps R) -> h < m) ->
  entries R = range x hi -> x <= hi -> acc <= x -> (x < hi \/ acc = x) ->
  fold_left (fun acc r => match r with REnt i => i | RSnapIn true _ i => N.max acc i | _ => acc end) R acc = hi.
Proof.
  induction R as [|r R IH]; intros x hi acc HJ E L La Hd.
  - simpl in *. assert (x = hi). { destruct (N.eq_dec x hi); auto. exfalso. rewrite range_cons in E by lia. discriminate. }
    subst. destruct Hd; lia.
  - assert (HJ' : forall h m, In (h, m) (jumps R) -> h < m).
    { intros h m Hin. apply HJ. change (r :: R) with ([r] ++ R). rewrite jumps_app. apply in_or_app. right. exact Hin. }
    cbn [fold_left]. destruct r as [e|c|m|v h m].
    + unfold entries in E. simpl in E. fold (entries R) in E.
      assert (Hx : x < hi). { destruct (N.ltb_spec x hi); auto. rewrite range_nil in E by lia. discriminate. }
      rewrite range_cons in E by lia. injection E as He ER. subst e.
      apply (IH (x + 1) hi (x + 1)); auto; lia.
    + unfold entries in E. simpl in E. fold (entries R) in E. apply (IH x hi acc); auto.
    + unfold entries in E. simpl in E. fold (entries R) in E. apply (IH x hi acc); auto.
    + destruct v.
      * assert (Hhm : h < m) by (apply HJ; simpl; left; reflexivity).
        unfold entries in E. simpl in E. fold (entries R) in E. rewrite seqN_range in E.
        destruct (range_prefix h m x hi (entries R) Hhm E) as [-> [A2 A3]].
        apply (IH m hi (N.max acc m)); auto; lia.
      * unfold entries in E. simpl in E. fold (entries R) in E. apply (IH x hi acc); auto.
Qed.

Lemma last_entry_chain_gen : forall ss lo hi,
  (forall h m, In (h, m) (jumps (all_recs ss)) -> h < m) ->
  seg_chain lo ss hi -> (lo < hi \/ hi = 0) -> last_entry (all_recs ss) = hi.
Proof.
  intros ss lo hi HJ C H. unfold last_entry.
  pose proof (seg_chain_le _ _ _ C) as L.
  destruct H as [H|H].
  - apply (last_entry_flat (all_recs ss) lo hi 0); auto; try lia. apply (seg_chain_entries _ _ _ C).
  - subst hi. assert (lo = 0) by lia. subst lo.
    apply (last_entry_flat (all_recs ss) 0 0 0); auto; try lia. apply (seg_chain_entries _ _ _ C).
Qed.

(* ---------- an incoming snapshot's record becomes valid ---------- *)

(* the records behind it in the tail segment: markers of local snapshots and hard states *)
Definition tail_rec (r : rec) : bool := match r with RState _ | RSnap _ => true | _ => false end.

Lemma tail_recs_entries : forall b, forallb tail_rec b = true -> entries b = [].
Proof.
  induction b as [|r b IH]; intros H; [reflexivity|]. simpl in H. apply andb_true_iff in H. destruct H as [Hr Hb].
  destruct r; simpl in Hr; try discriminate; unfold entries in *; simpl; auto.
Qed.

Lemma tail_recs_jumps : forall b, forallb tail_rec b = true -> jumps b = [].
Proof.
  induction b as [|r b IH]; intros H; [reflexivity|]. simpl in H. apply andb_true_iff in H. destruct H as [Hr Hb].
  destruct r; simpl in Hr; try discriminate; unfold jumps in *; simpl; auto.
Qed.

Lemma tail_recs_unvalidated : forall b, forallb tail_rec b = true -> unvalidated b = [].
Proof.
  induction b as [|r b IH]; intros H; [reflexivity|]. simpl in H. apply andb_true_iff in H. destruct H as [Hr Hb].
  destruct r; simpl in Hr; try discriminate; unfold unvalidated in *; simpl; auto.
Qed.

Lemma validate_recs_tail : forall i b, forallb tail_rec b = true -> validate_recs i b = (b, false).
Proof.
  induction b as [|r b IH]; intros H; [reflexivity|]. simpl in H. apply andb_true_iff in H. destruct H as [Hr Hb].
  simpl. rewrite (IH Hb). destruct r; simpl in Hr; try discriminate; reflexivity.
Qed.

Lemma validate_recs_found : forall i h a b, forallb tail_rec b = true ->
  validate_recs i (a ++ RSnapIn false h i :: b) = (a ++ RSnapIn true h i :: b, true).
Proof.
  intros i h a b Hb. induction a as [|r a IH].
  - simpl. rewrite (validate_recs_tail i b Hb). rewrite N.eqb_refl. reflexivity.
  - simpl. rewrite IH. reflexivity.
Qed.

Lemma validate_segs_snoc : forall i pre sl,
  validate_segs i (pre ++ [sl]) = pre ++ [mkSeg (sfirst sl) (fst (validate_recs i (srecs sl)))].
Proof.
  induction pre as [|s0 pre IH]; intros sl; [reflexivity|].
  simpl. destruct (pre ++ [sl]) eqn:E; [destruct pre; discriminate|]. rewrite <- E, IH. reflexivity.
Qed.

Lemma pmarkers_mid : forall a v h i b, pmarkers (a ++ RSnapIn v h i :: b) = pmarkers a ++ (if v then [i] else []) ++ pmarkers b.
Proof. intros. rewrite pmarkers_app. unfold pmarkers at 2. simpl. destruct v; reflexivity. Qed.

Lemma entries_mid : forall a v h i b, entries (a ++ RSnapIn v h i :: b) = entries a ++ (if v then range h i else []) ++ entries b.
Proof. intros. rewrite entries_app. unfold entries at 2. simpl. destruct v; reflexivity. Qed.

(* the chain after the record of the incoming snapshot i (written when the log ended at hi) has become valid *)
Lemma seg_chain_validate : forall pre lo f a b hi i,
  seg_chain lo (pre ++ [mkSeg f (a ++ RSnapIn false hi i :: b)]) hi -> forallb tail_rec b = true -> hi < i ->
  seg_chain lo (pre ++ [mkSeg f (a ++ RSnapIn true hi i :: b)]) i.
Proof.
  induction pre as [|s0 pre IH]; intros lo f a b hi i C Hb L.
  - simpl in *. destruct C as [E [L0 M]]. simpl in *.
    rewrite entries_mid in E. rewrite (tail_recs_entries b Hb) in E. simpl in E. rewrite ?app_nil_r in E.
    rewrite entries_mid, (tail_recs_entries b Hb), app_nil_r. split; [|split].
    + rewrite E. symmetry. apply range_app; lia.
    + lia.
    + intros x Hx. rewrite pmarkers_mid in Hx. rewrite pmarkers_mid in M.
      apply in_app_or in Hx. destruct Hx as [Hx|Hx].
      * specialize (M x ltac:(apply in_or_app; left; exact Hx)). lia.
      * simpl in Hx. destruct Hx as [<-|Hx]; [lia|]. specialize (M x ltac:(apply in_or_app; right; exact Hx)). lia.
  - change ((s0 :: pre) ++ [mkSeg f (a ++ RSnapIn false hi i :: b)]) with (s0 :: (pre ++ [mkSeg f (a ++ RSnapIn false hi i :: b)])) in C.
    change ((s0 :: pre) ++ [mkSeg f (a ++ RSnapIn true hi i :: b)]) with (s0 :: (pre ++ [mkSeg f (a ++ RSnapIn true hi i :: b)])).
    destruct (pre ++ [mkSeg f (a ++ RSnapIn false hi i :: b)]) as [|x y] eqn:E1; [destruct pre; discriminate|].
    destruct C as [mid [E0 [L0 [M0 [F C]]]]].
    rewrite <- E1 in C. apply IH in C; auto.
    destruct (pre ++ [mkSeg f (a ++ RSnapIn true hi i :: b)]) as [|x' y'] eqn:E2; [destruct pre; discriminate|].
    apply seg_chain_cons2. exists mid. repeat split; auto.
    (* the first segment of the rest keeps its name *)
    destruct pre as [|p0 pre']; simpl in E1, E2.
    + injection E1 as <- _. injection E2 as <- _. exact F.
    + injection E1 as <- _. injection E2 as <- _. exact F.
Qed.

Lemma markers_split : forall l i, In i (markers l) -> In i (pmarkers l) \/ In i (unvalidated l).
Proof.
  induction l as [|r l IH]; intros i H; [destruct H|].
  unfold markers, pmarkers, unvalidated in *. simpl in *. apply in_app_or in H. destruct H as [H|H].
  - destruct r as [e|c|m|v h m]; simpl in H; try contradiction.
    + left. apply in_or_app. left. exact H.
    + destruct v; [left | right]; apply in_or_app; left; exact H.
  - destruct (IH i H) as [X|X]; [left | right]; apply in_or_app; right; exact X.
Qed.
