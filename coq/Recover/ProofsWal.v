(* Recover/ProofsWal.v — lemmas about the WAL part of the path model: record lists, segment lists,
   and what a restart reads from them (covering, read_all, valid_markers, choose_snapshot). *)
From Coq Require Import NArith List Bool Lia Arith.
From Coq Require Import ZifyN ZifyNat ZifyBool.
From ZV Require Import Recover.Consts Recover.Path.
Import ListNotations.
Open Scope N_scope.

Arguments N.add : simpl never.
Arguments N.sub : simpl never.
Arguments N.to_nat : simpl never.

(* ---------- seqN / range ---------- *)

Lemma seqN_length : forall n a, length (seqN a n) = n.
Proof. induction n; simpl; intros; auto. Qed.

Lemma seqN_app : forall n m a, seqN a (n + m) = seqN a n ++ seqN (a + N.of_nat n) m.
Proof.
  induction n; simpl; intros.
  - f_equal. lia.
  - rewrite IHn. f_equal. f_equal. f_equal. lia.
Qed.

Lemma seqN_In : forall n a x, In x (seqN a n) <-> a <= x < a + N.of_nat n.
Proof.
  induction n; simpl; intros.
  - split; [tauto | lia].
  - rewrite IHn. split; intros H.
    + destruct H; lia.
    + destruct (N.eq_dec a x); [left; auto | right; lia].
Qed.

Lemma range_nil : forall a b, b <= a -> range a b = [].
Proof. intros. unfold range. replace (N.to_nat (b - a)) with 0%nat by lia. reflexivity. Qed.

Lemma range_length : forall a b, length (range a b) = N.to_nat (b - a).
Proof. intros. unfold range. apply seqN_length. Qed.

Lemma range_In : forall a b x, In x (range a b) <-> a < x <= b.
Proof. intros. unfold range. rewrite seqN_In. lia. Qed.

Lemma range_snoc : forall a b, a <= b -> range a (b + 1) = range a b ++ [b + 1].
Proof.
  intros. unfold range.
  replace (N.to_nat (b + 1 - a)) with (N.to_nat (b - a) + 1)%nat by lia.
  rewrite seqN_app. simpl. f_equal. f_equal. lia.
Qed.

Lemma range_app : forall a b c, a <= b -> b <= c -> range a c = range a b ++ range b c.
Proof.
  intros. unfold range.
  replace (N.to_nat (c - a)) with (N.to_nat (b - a) + N.to_nat (c - b))%nat by lia.
  rewrite seqN_app. f_equal. f_equal. lia.
Qed.

Lemma range_cons : forall a b, a < b -> range a b = (a + 1) :: range (a + 1) b.
Proof.
  intros. unfold range.
  replace (N.to_nat (b - a)) with (S (N.to_nat (b - (a + 1)))) by lia.
  simpl. reflexivity.
Qed.

(* ---------- projections of record lists ---------- *)

Lemma entries_app : forall a b, entries (a ++ b) = entries a ++ entries b.
Proof. intros. unfold entries. rewrite flat_map_app. reflexivity. Qed.

Lemma markers_app : forall a b, markers (a ++ b) = markers a ++ markers b.
Proof. intros. unfold markers. rewrite flat_map_app. reflexivity. Qed.

Lemma entries_map_REnt : forall l, entries (map REnt l) = l.
Proof. induction l; simpl; auto. unfold entries in *. simpl. f_equal. auto. Qed.

Lemma markers_map_REnt : forall l, markers (map REnt l) = [].
Proof. induction l; simpl; auto. Qed.

Definition is_state (r : rec) : bool := match r with RState _ => true | _ => false end.

Lemma entries_states : forall l, forallb is_state l = true -> entries l = [].
Proof.
  induction l; simpl; intros; auto.
  apply andb_true_iff in H. destruct H. destruct a; simpl in *; try discriminate. unfold entries in *. simpl. auto.
Qed.

Lemma markers_states : forall l, forallb is_state l = true -> markers l = [].
Proof.
  induction l; simpl; intros; auto.
  apply andb_true_iff in H. destruct H. destruct a; simpl in *; try discriminate. unfold markers in *. simpl. auto.
Qed.

Lemma last_commit_app : forall a b,
  last_commit (a ++ b) = fold_left (fun acc r => match r with RState c => c | _ => acc end) b (last_commit a).
Proof. intros. unfold last_commit. rewrite fold_left_app. reflexivity. Qed.

Lemma last_entry_app : forall a b,
  last_entry (a ++ b) = fold_left (fun acc r => match r with REnt i => i | _ => acc end) b (last_entry a).
Proof. intros. unfold last_entry. rewrite fold_left_app. reflexivity. Qed.

Lemma last_nonempty_default : forall (n : N) l d1 d2, last (n :: l) d1 = last (n :: l) d2.
Proof. intros n l. revert n. induction l; intros; [reflexivity|]. change (last (a :: l) d1 = last (a :: l) d2). apply IHl. Qed.

(* last_entry only depends on the entries *)
Lemma last_entry_entries : forall l d,
  fold_left (fun acc r => match r with REnt i => i | _ => acc end) l d = last (entries l) d.
Proof.
  induction l; simpl; intros; auto.
  destruct a; simpl; rewrite IHl; auto.
  unfold entries. simpl. fold (entries l). destruct (entries l) eqn:E; auto.
  apply last_nonempty_default.
Qed.

Lemma last_entry_eq : forall l, last_entry l = last (entries l) 0.
Proof. intros. unfold last_entry. apply last_entry_entries. Qed.

Lemma last_range : forall a b d, a < b -> last (range a b) d = b.
Proof.
  intros a b d H. unfold range.
  remember (N.to_nat (b - a)) as n. assert (Hn : b = a + N.of_nat n) by lia.
  assert (Hp : (0 < n)%nat) by lia. clear Heqn H. subst b.
  revert a. induction n; intros; [lia|].
  destruct n.
  - simpl. lia.
  - change (seqN (a + 1) (S (S n))) with ((a + 1) :: seqN (a + 1 + 1) (S n)).
    change (last ((a + 1) :: seqN (a + 1 + 1) (S n)) d) with (last (seqN (a + 1 + 1) (S n)) d).
    rewrite IHn by lia. lia.
Qed.

(* ---------- segment lists ---------- *)

Lemma all_recs_app : forall a b, all_recs (a ++ b) = all_recs a ++ all_recs b.
Proof. intros. unfold all_recs. rewrite map_app, concat_app. reflexivity. Qed.

Lemma all_recs_cons : forall s t, all_recs (s :: t) = srecs s ++ all_recs t.
Proof. reflexivity. Qed.

Lemma app_tail_cons2 : forall s s2 t rs, app_tail (s :: s2 :: t) rs = s :: app_tail (s2 :: t) rs.
Proof. reflexivity. Qed.
Lemma app_tail_one : forall s rs, app_tail [s] rs = [mkSeg (sfirst s) (srecs s ++ rs)].
Proof. reflexivity. Qed.
Lemma drop_tail_cons2 : forall s s2 t j, drop_tail (s :: s2 :: t) j = s :: drop_tail (s2 :: t) j.
Proof. reflexivity. Qed.
Lemma drop_tail_one : forall s j, drop_tail [s] j = [mkSeg (sfirst s) (firstn (length (srecs s) - j) (srecs s))].
Proof. reflexivity. Qed.

Lemma app_tail_recs : forall ss rs, ss <> [] -> all_recs (app_tail ss rs) = all_recs ss ++ rs.
Proof.
  induction ss as [|s t IH]; intros rs H; [congruence|].
  destruct t as [|s2 t2].
  - rewrite app_tail_one. unfold all_recs. simpl. rewrite !app_nil_r. reflexivity.
  - rewrite app_tail_cons2. rewrite !all_recs_cons with (s := s). rewrite IH by congruence. rewrite app_assoc. reflexivity.
Qed.

Lemma app_tail_firsts : forall ss rs, map sfirst (app_tail ss rs) = map sfirst ss.
Proof.
  induction ss as [|s t IH]; intros; auto.
  destruct t as [|s2 t2]; [reflexivity|].
  rewrite app_tail_cons2. rewrite !map_cons. rewrite IH. reflexivity.
Qed.

Lemma app_tail_nonempty : forall ss rs, ss <> [] -> app_tail ss rs <> [].
Proof. destruct ss as [|s [|s2 t]]; simpl; congruence. Qed.

Lemma app_tail_length : forall ss rs, length (app_tail ss rs) = length ss.
Proof.
  induction ss as [|s t IH]; intros; auto.
  destruct t as [|s2 t2]; [reflexivity|].
  rewrite app_tail_cons2. cbn [length]. rewrite IH. reflexivity.
Qed.

Lemma app_tail_nil : forall ss, app_tail ss [] = ss.
Proof.
  induction ss as [|s t IH]; auto.
  destruct t as [|s2 t2].
  - rewrite app_tail_one. rewrite app_nil_r. destruct s; reflexivity.
  - rewrite app_tail_cons2. rewrite IH. reflexivity.
Qed.

(* splitting a segment list at its tail segment *)
Lemma app_tail_snoc : forall pre s rs, app_tail (pre ++ [s]) rs = pre ++ [mkSeg (sfirst s) (srecs s ++ rs)].
Proof.
  induction pre as [|p t IH]; intros; [reflexivity|].
  destruct t as [|p2 t2].
  - reflexivity.
  - change ((p :: p2 :: t2) ++ [s]) with (p :: p2 :: (t2 ++ [s])). rewrite app_tail_cons2.
    change (p2 :: t2 ++ [s]) with ((p2 :: t2) ++ [s]). rewrite IH. reflexivity.
Qed.

Lemma drop_tail_snoc : forall pre s j,
  drop_tail (pre ++ [s]) j = pre ++ [mkSeg (sfirst s) (firstn (length (srecs s) - j) (srecs s))].
Proof.
  induction pre as [|p t IH]; intros; [reflexivity|].
  destruct t as [|p2 t2].
  - reflexivity.
  - change ((p :: p2 :: t2) ++ [s]) with (p :: p2 :: (t2 ++ [s])). rewrite drop_tail_cons2.
    change (p2 :: t2 ++ [s]) with ((p2 :: t2) ++ [s]). rewrite IH. reflexivity.
Qed.

Lemma drop_tail_0 : forall ss, drop_tail ss 0 = ss.
Proof.
  induction ss as [|s t IH]; auto.
  destruct t as [|s2 t2].
  - rewrite drop_tail_one. rewrite Nat.sub_0_r, firstn_all. destruct s; reflexivity.
  - rewrite drop_tail_cons2. rewrite IH. reflexivity.
Qed.

Lemma exists_last_seg : forall (ss : list seg), ss <> [] -> exists pre s, ss = pre ++ [s].
Proof. intros ss H. destruct (exists_last H) as [pre [s E]]. eauto. Qed.

(* ---------- the shape of a live WAL ---------- *)

(* the entries of ss are exactly the indices lo+1 .. hi, cut into segments at the name indices;
   a marker never exceeds the last entry of its own segment *)
Fixpoint seg_chain (lo : N) (ss : list seg) (hi : N) : Prop :=
  match ss with
  | [] => False
  | s :: t =>
    match t with
    | [] => entries (srecs s) = range lo hi /\ lo <= hi /\ (forall i, In i (markers (srecs s)) -> i <= hi)
    | s2 :: _ => exists mid, entries (srecs s) = range lo mid /\ lo <= mid
                  /\ (forall i, In i (markers (srecs s)) -> i <= mid)
                  /\ sfirst s2 = mid + 1 /\ seg_chain mid t hi
    end
  end.

Definition lo_of (ss : list seg) : N := N.pred (sfirst (hd (mkSeg 0 []) ss)).

Lemma seg_chain_one : forall lo s hi,
  seg_chain lo [s] hi <-> (entries (srecs s) = range lo hi /\ lo <= hi /\ (forall i, In i (markers (srecs s)) -> i <= hi)).
Proof. reflexivity. Qed.

Lemma seg_chain_cons2 : forall lo s s2 t hi,
  seg_chain lo (s :: s2 :: t) hi <->
  exists mid, entries (srecs s) = range lo mid /\ lo <= mid /\ (forall i, In i (markers (srecs s)) -> i <= mid)
              /\ sfirst s2 = mid + 1 /\ seg_chain mid (s2 :: t) hi.
Proof. reflexivity. Qed.

Lemma seg_chain_le : forall ss lo hi, seg_chain lo ss hi -> lo <= hi.
Proof.
  induction ss as [|s t IH]; intros lo hi H; [destruct H|].
  destruct t as [|s2 t2].
  - destruct H as [_ [L _]]. exact L.
  - destruct H as [mid [_ [L [_ [_ C]]]]]. apply IH in C. lia.
Qed.

Lemma seg_chain_entries : forall ss lo hi, seg_chain lo ss hi -> entries (all_recs ss) = range lo hi.
Proof.
  induction ss as [|s t IH]; intros lo hi H; [destruct H|].
  destruct t as [|s2 t2].
  - destruct H as [E _]. unfold all_recs. simpl. rewrite app_nil_r. exact E.
  - destruct H as [mid [E [L [_ [_ C]]]]].
    rewrite all_recs_cons, entries_app, E, (IH _ _ C).
    symmetry. apply range_app; auto. eapply seg_chain_le; eauto.
Qed.

Lemma seg_chain_markers : forall ss lo hi i, seg_chain lo ss hi -> In i (markers (all_recs ss)) -> i <= hi.
Proof.
  induction ss as [|s t IH]; intros lo hi i H Hi; [destruct H|].
  destruct t as [|s2 t2].
  - destruct H as [_ [_ M]]. unfold all_recs in Hi. simpl in Hi. rewrite app_nil_r in Hi. auto.
  - destruct H as [mid [_ [_ [M [_ C]]]]].
    rewrite all_recs_cons, markers_app in Hi. apply in_app_or in Hi. destruct Hi as [Hi|Hi].
    + apply M in Hi. apply seg_chain_le in C. lia.
    + eapply IH; eauto.
Qed.

(* appending records to the tail segment *)
Lemma seg_chain_app_tail : forall ss lo hi rs hi',
  seg_chain lo ss hi ->
  entries rs = range hi hi' -> hi <= hi' ->
  (forall i, In i (markers rs) -> i <= hi') ->
  seg_chain lo (app_tail ss rs) hi'.
Proof.
  induction ss as [|s t IH]; intros lo hi rs hi' H E L M; [destruct H|].
  destruct t as [|s2 t2].
  - destruct H as [E0 [L0 M0]].
    rewrite app_tail_one. apply seg_chain_one. simpl. rewrite entries_app, markers_app, E0, E. split; [|split].
    + symmetry. apply range_app; auto.
    + lia.
    + intros i Hi. apply in_app_or in Hi. destruct Hi as [Hi|Hi]; [apply M0 in Hi; lia | auto].
  - destruct H as [mid [E0 [L0 [M0 [F C]]]]].
    rewrite app_tail_cons2.
    assert (IHC := IH _ _ _ _ C E L M).
    destruct (app_tail (s2 :: t2) rs) as [|x y] eqn:EA.
    + exfalso. eapply app_tail_nonempty; [|exact EA]. congruence.
    + apply seg_chain_cons2. exists mid. repeat split; auto.
      assert (HF : map sfirst (x :: y) = map sfirst (s2 :: t2)) by (rewrite <- EA; apply app_tail_firsts).
      simpl in HF. congruence.
Qed.

(* a cut: a new tail segment named hi+1 *)
Lemma seg_chain_cut : forall ss lo hi rs,
  seg_chain lo ss hi -> entries rs = [] -> markers rs = [] ->
  seg_chain lo (ss ++ [mkSeg (hi + 1) rs]) hi.
Proof.
  induction ss as [|s t IH]; intros lo hi rs H E M; [destruct H|].
  destruct t as [|s2 t2].
  - destruct H as [E0 [L0 M0]].
    simpl app. apply seg_chain_cons2. exists hi.
    split; [exact E0|]. split; [exact L0|]. split; [exact M0|]. split; [reflexivity|].
    apply seg_chain_one. simpl. rewrite E, M. rewrite range_nil by lia. split; [reflexivity|]. split; [lia|]. intros i [].
  - destruct H as [mid [E0 [L0 [M0 [F C]]]]].
    change ((s :: s2 :: t2) ++ [mkSeg (hi + 1) rs]) with (s :: s2 :: (t2 ++ [mkSeg (hi + 1) rs])).
    apply seg_chain_cons2. exists mid. repeat split; auto.
    change (s2 :: t2 ++ [mkSeg (hi + 1) rs]) with ((s2 :: t2) ++ [mkSeg (hi + 1) rs]). apply IH; auto.
Qed.

(* purging the oldest segment *)
Lemma seg_chain_tl : forall s s2 t lo hi,
  seg_chain lo (s :: s2 :: t) hi -> seg_chain (lo_of (s2 :: t)) (s2 :: t) hi.
Proof.
  intros s s2 t lo hi H. destruct H as [mid [_ [_ [_ [F C]]]]].
  unfold lo_of. simpl. rewrite F. replace (N.pred (mid + 1)) with mid by lia. exact C.
Qed.

(* removing state records from the end of the tail segment changes neither entries nor markers *)
Lemma seg_chain_ext : forall ss ss' lo hi,
  seg_chain lo ss hi ->
  map sfirst ss' = map sfirst ss ->
  map (fun s => entries (srecs s)) ss' = map (fun s => entries (srecs s)) ss ->
  map (fun s => markers (srecs s)) ss' = map (fun s => markers (srecs s)) ss ->
  seg_chain lo ss' hi.
Proof.
  induction ss as [|s t IH]; intros ss' lo hi H F E M; [destruct H|].
  destruct ss' as [|s' t']; [discriminate|].
  simpl in F, E, M. injection F as F1 F2. injection E as E1 E2. injection M as M1 M2.
  destruct t as [|s2 t2].
  - destruct t'; [|discriminate]. apply seg_chain_one. rewrite E1, M1. exact H.
  - destruct t' as [|s2' t2']; [discriminate|].
    destruct H as [mid [E0 [L0 [M0 [F0 C]]]]].
    apply seg_chain_cons2. exists mid. rewrite E1, M1.
    split; [exact E0|]. split; [exact L0|]. split; [exact M0|]. split.
    + simpl in F2. injection F2 as F2 _. congruence.
    + apply IH; auto.
Qed.

(* ---------- covering ---------- *)

Fixpoint cov (ss : list seg) (i : N) : option nat :=
  match ss with
  | [] => None
  | s :: t => match cov t i with
              | Some q => Some (S q)
              | None => if sfirst s <=? i then Some 0%nat else None
              end
  end.

Lemma covering_from_cov : forall ss i pos best,
  covering_from ss i pos best = match cov ss i with Some q => Some (pos + q)%nat | None => best end.
Proof.
  induction ss as [|s t IH]; intros; simpl; auto.
  rewrite IH. destruct (cov t i) as [q|].
  - f_equal. lia.
  - destruct (sfirst s <=? i); auto. f_equal. lia.
Qed.

Lemma covering_cov : forall ss i, covering ss i = cov ss i.
Proof. intros. unfold covering. rewrite covering_from_cov. destruct (cov ss i); auto. Qed.

(* name indices grow along a chain *)
Lemma seg_chain_firsts_ge : forall t s lo hi x,
  seg_chain lo (s :: t) hi -> In x t -> lo + 1 <= sfirst x.
Proof.
  induction t as [|s2 t2 IH]; intros s lo hi x C Hx; [destruct Hx|].
  destruct C as [mid [_ [L [_ [F C]]]]].
  destruct Hx as [<-|Hx]; [lia|].
  specialize (IH _ _ _ _ C Hx). lia.
Qed.

Lemma cov_none_later : forall t s lo hi i,
  seg_chain lo (s :: t) hi -> i <= lo -> cov t i = None.
Proof.
  induction t as [|s2 t2 IH]; intros s lo hi i C L; simpl; auto.
  pose proof C as C0. destruct C as [mid [_ [L2 [_ [F C]]]]].
  rewrite (IH _ _ _ _ C) by lia.
  destruct (sfirst s2 <=? i) eqn:Q; auto. lia.
Qed.

(* in a chain whose first name index is <= i: the covering segment p, everything before it is <= i
   (entries) resp. below the covering segment's name (markers), and the chain continues from it *)
Lemma covering_chain : forall ss lo hi i,
  seg_chain lo ss hi -> sfirst (hd (mkSeg 0 []) ss) <= i ->
  exists p pre s post,
    covering ss i = Some p /\ ss = pre ++ s :: post /\ length pre = p /\ sfirst s <= i
    /\ (forall x, In x (entries (all_recs pre)) -> x <= i)
    /\ (forall x, In x (markers (all_recs pre)) -> x <= i)
    /\ (exists lo', seg_chain lo' (s :: post) hi /\ lo' <= i /\ (pre <> [] -> lo' + 1 = sfirst s) /\ (pre = [] -> lo' = lo)).
Proof.
  induction ss as [|s t IH]; intros lo hi i H Hf; [destruct H|].
  simpl in Hf. rewrite covering_cov.
  destruct t as [|s2 t2].
  - exists 0%nat, [], s, []. simpl.
    destruct (sfirst s <=? i) eqn:Q; [|lia].
    repeat split; auto; try (intros x []).
    exists lo. repeat split; auto; try congruence.
    (* lo <= i: lo is the predecessor of the first name or the start; we only know sfirst s <= i *)
Abort.
