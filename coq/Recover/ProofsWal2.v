(* Recover/ProofsWal2.v — more lemmas about what a restart reads (used by the crash / restart steps). *)
From Coq Require Import NArith List Bool Lia Arith.
From Coq Require Import ZifyN ZifyNat ZifyBool.
From ZV Require Import Recover.Consts Recover.Path Recover.ProofsWal Recover.ProofsLists.
Import ListNotations.
Open Scope N_scope.

Arguments N.add : simpl never.
Arguments N.sub : simpl never.
Arguments N.to_nat : simpl never.

Lemma cov_spec : forall ss i p, cov ss i = Some p -> (p < length ss)%nat /\ sfirst (nth p ss (mkSeg 0 [])) <= i.
Proof.
  induction ss as [|s t IH]; intros i p H; simpl in H; [discriminate|].
  destruct (cov t i) as [q|] eqn:Q.
  - injection H as <-. destruct (IH i q Q) as [A B]. split; [simpl; lia | exact B].
  - destruct (sfirst s <=? i) eqn:L; [|discriminate]. injection H as <-. split; [simpl; lia | simpl; lia].
Qed.

(* the commit read back is the last one of the segments read *)
Lemma read_all_commit : forall ss i e cm, read_all ss i = Ok (e, cm) ->
  exists p, covering ss i = Some p /\ cm = last_commit (all_recs (skipn p ss)) /\ (p < length ss)%nat
            /\ sfirst (nth p ss (mkSeg 0 [])) <= i.
Proof.
  intros ss i e cm H. unfold read_all in H.
  destruct (covering ss i) as [p|] eqn:C; [|discriminate].
  exists p. split; [reflexivity|].
  rewrite covering_cov in C. destruct (cov_spec _ _ _ C) as [A B]. split; [|split; [exact A | exact B]].
  (* the fold of read_step carries the commit like last_commit does *)
  assert (G : forall R st st', fold_left (read_step i) R (Ok st) = Ok st' ->
              rd_commit st' = fold_left (fun acc r => match r with RState c => c | _ => acc end) R (rd_commit st)).
  { induction R as [|r R IH]; intros st st' F; cbn [fold_left] in F.
    - injection F as <-. reflexivity.
    - destruct r as [x|c|m|v h m].
      + rewrite read_step_ent in F. destruct (i <? x).
        * destruct (Nat.ltb (length (rd_ents st)) (N.to_nat (x - i - 1))).
          -- exfalso. clear - F. induction R; cbn [fold_left] in F; [discriminate | auto].
          -- apply IH in F. simpl in *. exact F.
        * apply IH in F. exact F.
      + rewrite read_step_state in F. apply IH in F. simpl in *. exact F.
      + rewrite read_step_snap in F. destruct (m =? i); apply IH in F; simpl in *; exact F.
      + rewrite read_step_snapin in F. destruct (m =? i); apply IH in F; simpl in *; exact F. }
  destruct (fold_left (read_step i) (all_recs (skipn p ss)) (Ok (mkReadst [] 0 false))) as [st'|] eqn:F; [|discriminate].
  destruct (rd_match st'); [|discriminate]. injection H as _ <-.
  rewrite (G _ _ _ F). reflexivity.
Qed.

(* choosing the snapshot when the marker m is valid, has its file, and no snap file with a valid marker is newer *)
Lemma choose_newest : forall ss sf m,
  In m (markers (all_recs ss)) -> (forall f, In f sf -> In f (valid_markers ss) -> f <= m) ->
  m <= last_commit (all_recs ss) -> ~ In 0 sf -> (0 < m -> In m sf) ->
  choose_snapshot ss sf = if 0 <? m then Some m else None.
Proof.
  intros ss sf m Hm Hmax Hv H0 Hf. unfold choose_snapshot.
  assert (Hval : In m (valid_markers ss)).
  { unfold valid_markers. apply filter_In. split; [exact Hm | lia]. }
  destruct (0 <? m) eqn:Q.
  - apply maxl_is_max.
    + apply filter_In. split; [apply Hf; lia | apply memN_In; exact Hval].
    + intros y Hy. apply filter_In in Hy. destruct Hy as [Hy1 Hy]. apply memN_In in Hy. auto.
  - rewrite filter_nil_iff; [reflexivity|].
    intros x Hx. destruct (memN x (valid_markers ss)) eqn:Mx; auto.
    apply memN_In in Mx. pose proof (Hmax x Hx Mx).
    assert (x = 0) by lia. subst. contradiction.
Qed.

(* the restart of a well-shaped world: m is the newest marker that counts (a local one, or an incoming one that was
   made valid), it is valid, no validated incoming marker and no snap file with a valid marker is above it *)
Lemma recover_chain2 : forall ss lo hi sf cks m,
  (forall h m0, In (h, m0) (jumps (all_recs ss)) -> m0 <= m /\ h < m0) ->
  seg_chain lo ss hi -> lo = lo_of ss ->
  In m (pmarkers (all_recs ss)) -> (forall f, In f sf -> In f (valid_markers ss) -> f <= m) ->
  m <= last_commit (all_recs ss) ->
  sfirst (hd (mkSeg 0 []) ss) <= m ->
  ~ In 0 sf ->
  (0 < m -> In m sf /\ lookup m cks = Some (range 0 m)) ->
  recover ss sf cks = Ok (range 0 hi).
Proof.
  intros ss lo hi sf cks m HJ C Hlo Hm Hmax Hvalid Hfirst H0 Hfile.
  assert (Llo : lo <= m). { subst lo. unfold lo_of. lia. }
  assert (Lmh : m <= hi) by (eapply seg_chain_markers; eauto).
  unfold recover. rewrite (choose_newest ss sf m (pmarkers_sub _ _ Hm) Hmax Hvalid H0 (fun h => proj1 (Hfile h))).
  destruct (read_all_chain _ _ _ m HJ C Llo Hfirst Hm) as [cm R].
  destruct (0 <? m) eqn:Q.
  - destruct (Hfile ltac:(lia)) as [_ Hck]. rewrite Hck, R. f_equal. symmetry. apply range_app; lia.
  - assert (m = 0) by lia. subst m. rewrite R. reflexivity.
Qed.

Lemma filter_all_true : forall (f : N -> bool) l, (forall x, In x l -> f x = true) -> filter f l = l.
Proof. induction l; simpl; intros; auto. rewrite H by (left; auto). f_equal. apply IHl. intros. apply H. right; auto. Qed.

Lemma filter_le_range : forall a b c, a <= c -> c <= b -> filter (fun e => e <=? c) (range a b) = range a c.
Proof.
  intros a b c L1 L2. rewrite (range_app a c b) by lia. rewrite filter_app.
  assert (F1 : filter (fun e => e <=? c) (range a c) = range a c).
  { apply filter_all_true. intros x Hx. apply range_In in Hx. lia. }
  assert (F2 : filter (fun e => e <=? c) (range c b) = []).
  { apply filter_nil_iff. intros x Hx. apply range_In in Hx. lia. }
  rewrite F1, F2, app_nil_r. reflexivity.
Qed.

(* the same world as served by a replica that is restarted without its peers: the log up to the commit index *)
Lemma recover_isolated_chain : forall ss lo hi sf cks m,
  (forall h m0, In (h, m0) (jumps (all_recs ss)) -> m0 <= m /\ h < m0) ->
  seg_chain lo ss hi -> lo = lo_of ss ->
  In m (pmarkers (all_recs ss)) -> (forall f, In f sf -> In f (valid_markers ss) -> f <= m) ->
  m <= last_commit (all_recs ss) ->
  sfirst (hd (mkSeg 0 []) ss) <= m ->
  ~ In 0 sf ->
  (0 < m -> In m sf /\ lookup m cks = Some (range 0 m)) ->
  exists k, recover_isolated ss sf cks = Ok (range 0 k) /\ m <= k <= hi.
Proof.
  intros ss lo hi sf cks m HJ C Hlo Hm Hmax Hvalid Hfirst H0 Hfile.
  assert (Llo : lo <= m). { subst lo. unfold lo_of. lia. }
  assert (Lmh : m <= hi) by (eapply seg_chain_markers; eauto).
  unfold recover_isolated. rewrite (choose_newest ss sf m (pmarkers_sub _ _ Hm) Hmax Hvalid H0 (fun h => proj1 (Hfile h))).
  destruct (read_all_chain _ _ _ m HJ C Llo Hfirst Hm) as [cm R].
  set (k := if cm <=? m then m else if cm <=? hi then cm else hi).
  assert (Hk : m <= k <= hi) by (unfold k; destruct (cm <=? m) eqn:Q1; [lia|]; destruct (cm <=? hi) eqn:Q2; lia).
  exists k.
  assert (Ef : filter (fun e => e <=? cm) (range m hi) = range m k).
  { unfold k. destruct (cm <=? m) eqn:Q1.
    - rewrite (range_nil m m) by lia.
      apply filter_nil_iff. intros x Hx. apply range_In in Hx. lia.
    - destruct (cm <=? hi) eqn:Q2.
      + apply filter_le_range; lia.
      + apply filter_all_true. intros x Hx. apply range_In in Hx. lia. }
  destruct (0 <? m) eqn:Q.
  - destruct (Hfile ltac:(lia)) as [_ Hck]. rewrite Hck, R, Ef. split; [|lia]. f_equal. symmetry. apply range_app; lia.
  - assert (m = 0) by lia. subst m. rewrite R, Ef. split; [reflexivity | lia].
Qed.

(* a prefix of the records of a Save *)
Lemma firstn_ents_state : forall k (a b : N) (st : list rec), a <= b ->
  exists b' st', firstn k (map REnt (range a b) ++ st) = map REnt (range a b') ++ st'
                 /\ a <= b' <= b /\ (st' = [] \/ (b' = b /\ st' = firstn (k - N.to_nat (b - a)) st)).
Proof.
  intros k a b st L.
  destruct (Nat.le_gt_cases k (N.to_nat (b - a))) as [G|G].
  - exists (a + N.of_nat k), []. rewrite firstn_app.
    replace (k - length (map REnt (range a b)))%nat with 0%nat by (rewrite map_length, range_length; lia).
    simpl. rewrite app_nil_r. rewrite firstn_map. split; [|split; [lia | left; reflexivity]].
    f_equal. unfold range. replace (N.to_nat (b - a)) with (k + (N.to_nat (b - a) - k))%nat by lia.
    rewrite seqN_app, firstn_app, seqN_length, Nat.sub_diag. simpl. rewrite app_nil_r.
    replace (N.to_nat (a + N.of_nat k - a)) with k by lia.
    rewrite <- (seqN_length k (a + 1)) at 1. rewrite firstn_all, app_nil_r. reflexivity.
  - exists b, (firstn (k - N.to_nat (b - a)) st). rewrite firstn_app.
    rewrite firstn_all2 by (rewrite map_length, range_length; lia).
    rewrite map_length, range_length. split; [reflexivity|]. split; [lia | right; split; reflexivity].
Qed.
