(* Recover/ProofsStepD.v — the invariant is preserved by the steps of a replica that receives a snapshot from its
   leader: the checkpoint is fetched, the raft loop persists the snapshot (snap file, WAL record, hard state), the
   apply loop replaces the engine by the checkpoint, the raft storage takes the snapshot. *)
From Coq Require Import NArith List Bool Lia Arith.
From Coq Require Import ZifyN ZifyNat ZifyBool.
From ZV Require Import Recover.Consts Recover.Path Recover.ProofsWal Recover.ProofsLists Recover.ProofsWal2 Recover.ProofsInv
  Recover.ProofsStepA Recover.ProofsStepB Recover.ProofsStepC.
Import ListNotations.
Open Scope N_scope.

Lemma lookup_purge_ckpts_none : forall keep lat cks i, lookup i cks = None -> lookup i (purge_ckpts keep lat cks) = None.
Proof.
  intros keep lat cks i H. destruct (lookup i (purge_ckpts keep lat cks)) eqn:E; [|reflexivity].
  apply lookup_purge_ckpts_some in E. congruence.
Qed.

(* ---------- prepareSnapshotForStore ---------- *)

Lemma step_fs_mark : forall c s s' i, Inv c s -> step c s (EvFsMark i) = Ok s' -> Inv c s'.
Proof.
  intros c s s' i HI H. unfold step in H. destruct (lookup i (ckpts s)); [discriminate|].
  destruct (0 <? i); [|discriminate]. injection H as <-. exact HI.
Qed.

Lemma step_fs_local_ok : forall c s s' i, Inv c s -> step c s (EvFsLocalOk i) = Ok s' -> Inv c s'.
Proof.
  intros c s s' i HI H. unfold step in H. destruct (lookup i (ckpts s)); [|discriminate]. injection H as <-. exact HI.
Qed.

(* the checkpoint directories change: the complete ones stay, a new complete one holds the state up to its index,
   the one the backup loop is writing is not touched *)
Lemma inv_set_ckpts : forall c s cks,
  Inv c s ->
  (forall j l, lookup j (ckpts s) = Some l -> lookup j cks = Some l) ->
  (forall j l, lookup j cks = Some l -> l = range 0 j) ->
  (forall a l, ckp s = CkSaving a l -> lookup a cks = None) ->
  Inv c (set_ckpts s cks).
Proof.
  intros c s cks [hi [HP HV]] Hkeep Hnew Hsav.
  exists hi. split.
  - apply (pinv_files s); try reflexivity; auto; proj; try (destruct HP; assumption).
    intros Hp. destruct (p_file _ _ HP Hp) as [A B]. split; [exact A|]. apply Hkeep. exact B.
  - unfold running in *. proj. destruct (rc s) eqn:R; try (unfold RInv in *; proj; rewrite R in *; exact HV).
    vinv_split HV.
    + apply (rd_inv_files s); auto. unfold ckpt_ok. proj. intros j Hj Ej Hc. apply Hkeep. exact Hc.
    + intros j p Hl. destruct (v_sns j p Hl) as [S1 [S2 [S3 [S4 [S5 [S6 S7]]]]]]. repeat split; auto.
    + destruct (ckp s) eqn:Ec; try exact I. destruct v_ck as [K1 [K2 [K3 [K4 K5]]]].
      split; [exact K1|]. split; [exact K2|]. split; [exact K3|]. split; [|exact K5]. eapply Hsav. reflexivity.
Qed.

(* the directory of the fetched checkpoint appears, incomplete *)
Lemma step_fs_copy : forall c s s' i, Inv c s -> step c s (EvFsCopy i) = Ok s' -> Inv c s'.
Proof.
  intros c s s' i HI H. unfold step in H.
  destruct (fs_clash s i) eqn:Fc; [discriminate|].
  destruct (lookup i (ckpts s)) eqn:L; [discriminate|]. destruct (0 <? i) eqn:Qi; [|discriminate]. injection H as <-.
  apply inv_set_ckpts; [exact HI| | |].
  - intros j l Hl. rewrite lookup_set_ne; [exact Hl | intros ->; congruence].
  - intros j l Hl. destruct (N.eq_dec j i) as [->|Hn].
    + rewrite lookup_cons, N.eqb_refl in Hl. discriminate.
    + rewrite lookup_set_ne in Hl by exact Hn. destruct HI as [hi [HP _]]. eapply p_ckpts; eauto.
  - intros a l Ha. destruct (N.eq_dec a i) as [->|Hn].
    + rewrite lookup_cons, N.eqb_refl. reflexivity.
    + rewrite lookup_set_ne by exact Hn. destruct HI as [hi [HP HV]].
      unfold running in HV. destruct (rc s) eqn:R; try (destruct HV as [_ [_ [_ [_ [Hk _]]]]]; congruence).
      pose proof (v_ck _ _ _ HV) as K. rewrite Ha in K. tauto.
Qed.

(* the fetched checkpoint is complete: it holds the state up to the snapshot's index (the leader's checkpoint at i) *)
Lemma step_fs_complete : forall c s s' i, Inv c s -> step c s (EvFsComplete i) = Ok s' -> Inv c s'.
Proof.
  intros c s s' i HI H. unfold step in H.
  destruct (fs_clash s i) eqn:Fc; [discriminate|].
  destruct (memN i (map fst (ckpts s))); [|discriminate].
  destruct (lookup i (ckpts s)) eqn:L; [discriminate|]. injection H as <-.
  apply inv_set_ckpts; [exact HI| | |].
  - intros j l Hl. rewrite lookup_set_ne; [exact Hl | intros ->; congruence].
  - intros j l Hl. destruct (N.eq_dec j i) as [->|Hn].
    + rewrite lookup_cons, N.eqb_refl in Hl. injection Hl as <-. reflexivity.
    + rewrite lookup_set_ne in Hl by exact Hn. destruct HI as [hi [HP _]]. eapply p_ckpts; eauto.
  - intros a l Ha. unfold fs_clash in Fc. rewrite Ha in Fc. apply N.eqb_neq in Fc.
    rewrite lookup_set_ne by exact Fc. destruct HI as [hi [HP HV]].
    unfold running in HV. destruct (rc s) eqn:R; try (destruct HV as [_ [_ [_ [_ [Hk _]]]]]; congruence).
    pose proof (v_ck _ _ _ HV) as K. rewrite Ha in K. tauto.
Qed.

(* ---------- applySnapshot ---------- *)

(* while the record of an incoming snapshot is being persisted the apply loop waits inside applySnapshot for it *)
Lemma window_app : forall s hi, rd_inv s hi -> in_window s = 1%nat -> exists i, app s = ApSnapPrepared i /\ hi < i.
Proof.
  intros s hi H W. unfold rd_inv, in_window, window, snapfacts in *.
  destruct (rdp s) as [|r sv pb|r pb apd|r pb idx|r|r fl|r|r k|r k cidx]; try discriminate.
  - destruct sv; [|discriminate]. destruct (0 <? r_snap r); [|discriminate]. exists (r_snap r). tauto.
  - destruct (0 <? r_snap r); [|discriminate]. destruct apd; [contradiction|]. exists (r_snap r). tauto.
  - destruct (0 <? r_snap r); [contradiction|discriminate].
  - destruct fl; [|discriminate]. exists (r_snap r). tauto.
  - exists (r_snap r). tauto.
Qed.

(* the apply loop leaves applySnapshot's wait: the raft loop is not persisting that snapshot any more *)
Lemma rd_inv_app : forall s s' hi,
  rd_inv s hi -> segs s' = segs s -> unflushed s' = unflushed s -> rdp s' = rdp s -> rs_last s' = rs_last s ->
  published s' = published s -> wstate s' = wstate s -> hcommit s' = hcommit s -> proposed s' = proposed s ->
  ckpts s' = ckpts s -> snapfiles s' = snapfiles s -> rd_done s' = rd_done s -> rd_done s <= hi ->
  (forall i, app s = ApSnapPrepared i -> i <= rd_done s) ->
  rd_inv s' hi.
Proof.
  intros s s' hi H E1 E2 E3 E4 E5 E6 E7 E8 E9 E10 E11 Hd Ha.
  unfold rd_inv, window, snapfacts, snap_tail, lc_all_lt, flushed_state, pubcl, rlast, ckpt_ok in *.
  rewrite E1, E2, E3, E4, E5, E6, E7, E8, E9, E10, E11.
  destruct (rdp s) as [|r sv pb|r pb apd|r pb idx|r|r fl|r|r k|r k cidx]; auto.
  - destruct (0 <? r_snap r) eqn:Q; [|exact H]. destruct sv; [|exact H].
    exfalso. assert (X : app s = ApSnapPrepared (r_snap r)) by tauto. specialize (Ha _ X). lia.
  - destruct (0 <? r_snap r) eqn:Q; [|exact H]. destruct apd; [exact H|].
    exfalso. assert (X : app s = ApSnapPrepared (r_snap r)) by tauto. specialize (Ha _ X). lia.
  - exfalso. assert (X : app s = ApSnapPrepared (r_snap r)) by tauto. specialize (Ha _ X). lia.
  - exfalso. assert (X : app s = ApSnapPrepared (r_snap r)) by tauto. specialize (Ha _ X). lia.
  - exfalso. assert (X : app s = ApSnapPrepared (r_snap r)) by tauto. specialize (Ha _ X). lia.
Qed.

Lemma step_as_prepared : forall c s s' i, Inv c s -> step c s (EvAsPrepared i) = Ok s' -> Inv c s'.
Proof.
  intros c s s' i [hi [HP HV]] H. unfold step in H.
  destruct (app s) eqn:Ea; try discriminate. destruct (lookup i (ckpts s)) eqn:L; [|discriminate].
  destruct (i =? i0) eqn:Q; [|discriminate]. apply N.eqb_eq in Q. subst i0. injection H as <-.
  exists hi. split; [pframe s|].
  unfold running in *. proj. destruct (rc s) eqn:R; try (destruct HV as [_ [_ [Hk _]]]; congruence).
  vinv_split HV. rewrite Ea in v_app. tauto.
Qed.

Lemma step_as_raftdone : forall c s s' i, Inv c s -> step c s (EvAsRaftDone i) = Ok s' -> Inv c s'.
Proof.
  intros c s s' i [hi [HP HV]] H. unfold step in H.
  destruct (app s) eqn:Ea; try discriminate.
  destruct (negb (i =? i0)) eqn:Q; [discriminate|]. apply negb_false_iff in Q. apply N.eqb_eq in Q. subst i0.
  destruct (i <=? rd_done s) eqn:Qd; [|discriminate]. apply N.leb_le in Qd. injection H as <-.
  exists hi. split; [pframe s|].
  unfold running in *. proj. destruct (rc s) eqn:R; try (destruct HV as [_ [_ [Hk _]]]; congruence).
  pose proof (v_done _ _ _ HV) as [_ [Hdh _]].
  vinv_split HV.
  - apply (rd_inv_app s); auto. intros j Hj. rewrite Ea in Hj. injection Hj as <-. lia.
  - rewrite Ea in v_app. destruct v_app as [A [B [C|[C|C]]]]; [lia| |].
    2:{ exfalso. destruct C as [C1 [C2 _]]. pose proof v_rd as V. clear - C1 C2 V Qd B. unfold rd_inv, pend_idx, pend_r, pending in *.
        destruct (rdp s) as [|r sv pb|r pb apd|r pb idx|r|r fl|r|r k|r k cidx]; try lia;
          try (destruct (0 <? r_snap r) eqn:Q; [|lia]); unfold snapfacts in *; try (destruct sv); try (destruct apd); try (destruct pb);
          intuition lia. }
    repeat split; try tauto.
    destruct (restoring s) as [j|] eqn:Rs; [|reflexivity]. destruct (proj2 v_pgwal j eq_refl) as [k Hk]. congruence.
Qed.

Lemma pinv_acked : forall s s' hi,
  segs s' = segs s -> unflushed s' = unflushed s -> snapfiles s' = snapfiles s -> ckpts s' = ckpts s ->
  proposed s' = proposed s -> acked s' <= hi -> PInv s hi -> PInv s' hi.
Proof.
  intros s s' hi E1 E2 E3 E4 E6 Ha []. unfold flushed_state in *.
  constructor; unfold flushed_state; rewrite ?E1, ?E2, ?E3, ?E4, ?E6; auto.
Qed.

Lemma step_as_restored : forall c s s' i, Inv c s -> step c s (EvAsRestored i) = Ok s' -> Inv c s'.
Proof.
  intros c s s' i [hi [HP HV]] H. unfold step in H.
  destruct (app s) as [| | | | | | | | | |j k] eqn:Ea; try discriminate.
  destruct k as [|[|[|k']]]; try discriminate.
  destruct (engine s) as [l0|] eqn:En; [|discriminate].
  destruct (negb (i =? j)) eqn:Q; [discriminate|]. apply negb_false_iff in Q. apply N.eqb_eq in Q. subst j. injection H as <-.
  unfold running in *. proj. destruct (rc s) eqn:R; try (destruct HV as [_ [_ [Hk _]]]; congruence).
  pose proof HV as HV0. destruct HV0 as [v_rd0 _ _ v_latest0 _ _ _ _ v_app0 _ _ _ _ _ _ _ _].
  rewrite Ea in v_app0. unfold snap_done in v_app0. destruct v_app0 as [A1 [A2 [[D1 [D2 [D3 D4]]] [G1 G2]]]].
  assert (Hw : in_window s = 0%nat).
  { destruct (in_window s) as [|[|n]] eqn:W; [reflexivity| |].
    - destruct (window_app _ _ v_rd0 W) as [x [X _]]. congruence.
    - exfalso. unfold in_window in W. destruct (rdp s) as [|r sv pb|r pb apd|r pb idx|r|r fl|r|r k|r k cidx]; try discriminate W;
        repeat match type of W with context [if ?b then _ else _] => destruct b end; discriminate W. }
  destruct v_latest0 as [[L1|[L1 _]] L2]; [|rewrite Hw in L1; discriminate].
  assert (Hv : forall j, newest (segs s) <= j -> ~ In j (purge_victims (eff_keep_ckpt c) (latest s) (map fst (ckpts s)))).
  { intros j Hj Hin. apply purge_victims_lt in Hin. lia. }
  exists hi. split.
  - apply (pinv_acked (set_ckpts s (purge_ckpts (eff_keep_ckpt c) (latest s) (ckpts s)))); try reflexivity.
    { proj. pose proof (p_acked _ _ HP). lia. }
    apply (pinv_files s); try reflexivity; auto; proj; try (destruct HP; assumption).
    + intros Hp. destruct (p_file _ _ HP Hp) as [X Y]. split; [exact X|]. rewrite lookup_purge_ckpts by (apply Hv; lia). exact Y.
    + intros j l1 Hl. apply lookup_purge_ckpts_some in Hl. eapply p_ckpts; eauto.
  - unfold running. proj. rewrite R. vinv_split HV.
    + apply (rd_inv_files s); auto.
      * right. intros x Hx. congruence.
      * unfold ckpt_ok. proj. intros j Hj Ej Hc. rewrite lookup_purge_ckpts; [exact Hc|].
        apply Hv. pose proof (pend_above _ _ v_rd ltac:(lia)). pose proof (pinv_newest_le_hi _ _ HP). lia.
    + split; [exact D3 | left; reflexivity].
    + split; [lia | left; lia].
    + intros j p Hl. destruct (v_sns j p Hl) as [S1 [S2 [S3 [S4 [S5 [S6 S7]]]]]].
      repeat split; auto; try lia.
    + split; [tauto | intros; discriminate].
    + destruct (ckp s) eqn:Ec; try exact I. destruct v_ck as [K1 [K2 [K3 [K4 K5]]]].
      split; [exact K1|]. split; [exact K2|]. split; [exact K3|]. split; [apply lookup_purge_ckpts_none; exact K4 | intros; discriminate].
Qed.

(* ---------- persistRaftState of a Ready with an incoming snapshot ---------- *)

Lemma step_rd_savesnap_before : forall c s s' i, Inv c s -> step c s (EvRdSaveSnapBefore i) = Ok s' -> Inv c s'.
Proof.
  intros c s s' i [hi [HP HV]] H. unfold step in H.
  destruct (rdp s) as [|r sv pb|r pb apd|r pb idx|r|r fl|r|r k|r k cidx] eqn:E; try discriminate.
  destruct sv; [discriminate|]. destruct pb; [|discriminate].
  destruct (app s) eqn:Ea; try discriminate.
  destruct (negb (i =? r_snap r) || negb (i =? i0) || negb (0 <? i)) eqn:G; [discriminate|].
  apply orb_false_iff in G. destruct G as [G G3]. apply orb_false_iff in G. destruct G as [G1 G2]. norm_guards.
  apply N.eqb_eq in G1. apply N.eqb_eq in G2. subst i0.
  destruct (lookup i (ckpts s)) eqn:L; [|discriminate]. injection H as <-.
  exists hi. split; [pframe s|].
  unfold running in *. proj. destruct (rc s) eqn:R; try (destruct HV as [_ [Hk _]]; congruence).
  assert (Q : (0 <? r_snap r) = true) by (rewrite <- G1; exact G3).
  apply vinv_set_rdp; [exact HV | | pend_eq E | pend_eq E].
  pose proof (v_rd _ _ _ HV) as V. unfold rd_inv in *. proj. rewrite E, Q in V.
  destruct V as [V1 [V2 [V3 V4]]]. rewrite <- G1.
  unfold snapfacts, ckpt_ok in *. proj.
  repeat split; try tauto; try (rewrite G1; tauto); try (intros; discriminate).
  - apply N.ltb_lt. exact G3.
  - rewrite L. f_equal. eapply p_ckpts; eauto.
Qed.

(* the snap file of the incoming snapshot is written (the window of the snap directory purge opens) *)
Lemma step_rd_snapfile : forall c s s' i, Inv c s -> step c s (EvRdSnapFile i) = Ok s' -> Inv c s'.
Proof.
  intros c s s' i [hi [HP HV]] H. unfold step in H.
  destruct (rdp s) as [|r sv pb|r pb apd|r pb idx|r|r fl|r|r k|r k cidx] eqn:E; try discriminate.
  destruct fl; [discriminate|].
  destruct (negb (i =? r_snap r)) eqn:G; [discriminate|]. norm_guards. apply N.eqb_eq in G. subst i. injection H as <-.
  unfold running in *. proj. destruct (rc s) eqn:R; try (destruct HV as [_ [Hk _]]; congruence).
  pose proof (v_rd _ _ _ HV) as V. unfold rd_inv in V. rewrite E in V.
  destruct V as [V0 [V1 [V2 [V3 [V4 [V5 [V6 V7]]]]]]].
  assert (Q : (0 <? r_snap r) = true) by (apply N.ltb_lt; exact V0).
  assert (Hp : pend_idx s = r_snap r) by (unfold pend_idx, pend_r, pending; rewrite E, ?Q; reflexivity).
  assert (Hw : in_window s = 0%nat) by (unfold in_window; rewrite E, ?Q; reflexivity).
  exists hi. split.
  - apply (pinv_files s); try reflexivity; try exact HP; proj.
    + intros Hp0. destruct (p_file _ _ HP Hp0) as [A B]. split; [|exact B].
      destruct (N.eq_dec (newest (segs s)) (r_snap r)) as [->|Hne]; [left; reflexivity | right; apply removeN_In; split; auto].
    + intros [Hz|Hz]; [lia|]. apply removeN_In in Hz. destruct Hz as [Hz _]. exact (p_nozero _ _ HP Hz).
    + apply cons_removeN_NoDup. exact (p_nodup _ _ HP).
    + intros f [<-|Hin]; [right; exact V3|]. apply removeN_In in Hin. destruct Hin as [Hin _]. exact (p_files_le _ _ HP f Hin).
    + exact (p_ckpts _ _ HP).
  - unfold running. proj. rewrite R.
    assert (Hp' : forall t, rdp t = RdSnapSaving r true -> pend_idx t = r_snap r) by (intros t Ht; unfold pend_idx, pend_r, pending; rewrite Ht, ?Q; reflexivity).
    assert (Hw' : forall t, rdp t = RdSnapSaving r true -> in_window t = 1%nat) by (intros t Ht; unfold in_window; rewrite Ht, ?Q; reflexivity).
    destruct HV; constructor; unfold snap_pend, snap_done, snap_mid, snap_busy in *; proj; rewrite ?Hp', ?Hw' by reflexivity; rewrite ?Hp in *; try assumption; try exact I.
    + unfold rd_inv. proj. unfold snapfacts, lc_all_lt, flushed_state, ckpt_ok in *. proj.
      repeat split; try tauto. intros _. left. reflexivity.
    + destruct v_latest as [[L1|[L1 _]] L2]; [split; [left; exact L1 | exact L2] | rewrite Hw in L1; discriminate].
    + intros j p Hl. destruct (v_sns j p Hl) as [S1 [S2 [S3 [S4 [S5 [S6 S7]]]]]]. repeat split; auto.
      intros Hn Hpp. destruct (N.eq_dec j (r_snap r)) as [->|Hne]; [left; reflexivity | right; apply removeN_In; split; auto].
    + intros f [<-|Hin] Hn; [right; split; reflexivity|].
      apply removeN_In in Hin. destruct Hin as [Hin Hne]. destruct (v_files f Hin Hn) as [X|[X _]]; [left; exact X | congruence].
    + intros u Hu. destruct (v_unval u Hu) as [X|[X|X]]; [left; exact X | | right; right; exact X].
      destruct (N.eq_dec u (r_snap r)) as [->|Hne]; [right; right; split; [exact V0 | reflexivity]|].
      right. left. intros [Y|Y]; [congruence|]. apply removeN_In in Y. tauto.
Qed.

(* the WAL record of an incoming snapshot: appended and flushed, not valid before a hard state at or above it follows *)
Lemma pinv_snapin : forall s s' hi h i,
  PInv s hi ->
  segs s' = app_tail (segs s) [RSnapIn false h i] -> unflushed s' = 0%nat ->
  snapfiles s' = snapfiles s -> ckpts s' = ckpts s -> acked s' = acked s -> proposed s' = proposed s ->
  PInv s' hi.
Proof.
  intros s s' hi h i P Es Eu Esf Eck Eac Epr.
  pose proof (pinv_segs_nonempty _ _ P) as Hne.
  pose proof (pinv_lc0 _ _ P) as Hlc0.
  destruct P as [C Ha Hp Ht Hh Hcm Hni Hf Hfile Hz Hnd Hfl Hck Hjm].
  destruct Ht as [pre [sl [body [tl [Ess [Esl [Etl [Hst Hhead]]]]]]]].
  assert (Hnw : newest (app_tail (segs s) [RSnapIn false h i]) = newest (segs s)) by (apply newest_app_tail_nomark; auto).
  constructor; rewrite ?Es, ?Esf, ?Eck, ?Eac, ?Epr, ?Eu, ?Hnw; auto.
  - rewrite lo_of_app_tail. eapply seg_chain_app_tail; eauto.
    + simpl. rewrite range_nil by lia. reflexivity.
    + lia.
    + simpl. intros x [].
  - rewrite Ess, app_tail_snoc.
    exists pre, (mkSeg (sfirst sl) (srecs sl ++ [RSnapIn false h i])), (srecs sl ++ [RSnapIn false h i]), []. simpl.
    rewrite app_nil_r. repeat split; auto.
    intros Hp'. destruct (Hhead Hp') as [c0 [b' Eb]]. exists c0, (b' ++ tl ++ [RSnapIn false h i]).
    rewrite Esl, Eb. simpl. rewrite <- app_assoc. reflexivity.
  - intros pre0 x post Esp Hpre0.
    rewrite Ess, app_tail_snoc in Esp.
    destruct post as [|y post'].
    + apply app_inj_tail in Esp. destruct Esp as [Ep Ex]. subst pre0 x. simpl.
      destruct (Hh pre sl [] Ess Hpre0) as [c0 [rest Er]]. rewrite Er. simpl. eauto.
    + assert (Esp' : pre ++ [sl] = pre0 ++ x :: removelast (y :: post') ++ [sl]).
      { assert (Hl : y :: post' <> []) by congruence.
        rewrite (app_removelast_last (mkSeg 0 []) Hl) in Esp.
        change (pre0 ++ x :: (removelast (y :: post') ++ [last (y :: post') (mkSeg 0 [])])) with
               (pre0 ++ (x :: removelast (y :: post')) ++ [last (y :: post') (mkSeg 0 [])]) in Esp.
        rewrite app_assoc in Esp. apply app_inj_tail in Esp. destruct Esp as [Ep _].
        rewrite Ep. rewrite <- app_assoc. reflexivity. }
      rewrite <- Ess in Esp'. eapply Hh; eauto.
  - intros j Hj. assert (j = 0%nat) by lia. subst j. rewrite drop_tail_0.
    rewrite app_tail_recs by auto. rewrite last_commit_nostate by reflexivity. lia.
  - rewrite app_tail_recs by auto. rewrite pmarkers_app. apply in_or_app. left. exact Hni.
  - rewrite hd_first_app_tail. lia.
  - intros f Hin. destruct (Hfl f Hin) as [A|A]; [left; exact A | right].
    eapply (flushed_state_app_tail s s' [RSnapIn false h i]); eauto. rewrite Eu. lia.
  - intros h0 m Hin. rewrite app_tail_recs, jumps_app in Hin by auto. simpl in Hin. rewrite app_nil_r in Hin. eauto.
Qed.

Lemma snapin_lc : forall ss h i, ss <> [] -> last_commit (all_recs (app_tail ss [RSnapIn false h i])) = last_commit (all_recs ss).
Proof. intros. rewrite app_tail_recs by auto. apply last_commit_nostate. reflexivity. Qed.
Lemma snapin_unvalidated : forall ss h i, ss <> [] ->
  unvalidated (all_recs (app_tail ss [RSnapIn false h i])) = unvalidated (all_recs ss) ++ [i].
Proof. intros. rewrite app_tail_recs by auto. rewrite unvalidated_app. reflexivity. Qed.
Lemma snapin_pmarkers : forall ss h i, ss <> [] -> pmarkers (all_recs (app_tail ss [RSnapIn false h i])) = pmarkers (all_recs ss).
Proof. intros. rewrite app_tail_recs by auto. rewrite pmarkers_app. simpl. apply app_nil_r. Qed.

Lemma step_rd_savesnap_after : forall c s s' i, Inv c s -> step c s (EvRdSaveSnapAfter i) = Ok s' -> Inv c s'.
Proof.
  intros c s s' i [hi [HP HV]] H. unfold step in H.
  destruct (rdp s) as [|r sv pb|r pb apd|r pb idx|r|r fl|r|r k|r k cidx] eqn:E; try discriminate.
  destruct fl; [|discriminate].
  destruct (negb (i =? r_snap r)) eqn:G; [discriminate|]. norm_guards. apply N.eqb_eq in G. subst i. injection H as <-.
  unfold running in *. proj. destruct (rc s) eqn:R; try (destruct HV as [_ [Hk _]]; congruence).
  pose proof (pinv_segs_nonempty _ _ HP) as Hne.
  pose proof (v_rd _ _ _ HV) as V. unfold rd_inv in V. rewrite E in V.
  destruct V as [V0 [V1 [V2 [V3 [V4 [V5 [V6 V7]]]]]]]. specialize (V6 eq_refl).
  assert (Q : (0 <? r_snap r) = true) by (apply N.ltb_lt; exact V0).
  assert (Hp : pend_idx s = r_snap r) by (unfold pend_idx, pend_r, pending; rewrite E, ?Q; reflexivity).
  assert (Hw : in_window s = 1%nat) by (unfold in_window; rewrite E, ?Q; reflexivity).
  rewrite (pinv_last_entry _ _ HP).
  exists hi. split.
  - apply (pinv_snapin s _ hi hi (r_snap r)); try reflexivity; auto.
  - unfold running. proj. rewrite R.
    assert (Hnw : newest (app_tail (segs s) [RSnapIn false hi (r_snap r)]) = newest (segs s)) by (apply newest_app_tail_nomark; auto).
    assert (Hp' : forall t, rdp t = RdSnapSaved r -> pend_idx t = r_snap r) by (intros t Ht; unfold pend_idx, pend_r, pending; rewrite Ht, ?Q; reflexivity).
    assert (Hw' : forall t, rdp t = RdSnapSaved r -> in_window t = 1%nat) by (intros t Ht; unfold in_window; rewrite Ht, ?Q; reflexivity).
    destruct HV; constructor; unfold snap_pend, snap_done, snap_mid, snap_busy in *; proj;
      rewrite ?Hp', ?Hw' by reflexivity; rewrite ?Hp in *;
      rewrite ?Hnw, ?snapin_lc, ?snapin_unvalidated, ?snapin_pmarkers, ?app_tail_length, ?nth_sfirst_app_tail by auto; try assumption; try exact I.
    + unfold rd_inv. proj. unfold snapfacts, lc_all_lt, flushed_state, ckpt_ok, window, snap_tail in *. proj.
      split; [exact V0|]. split; [tauto|]. split; [|split; [exact V4|]].
      * intros j Hj. assert (j = 0%nat) by lia. subst j. rewrite drop_tail_0, snapin_lc by auto.
        specialize (V2 0%nat ltac:(lia)). rewrite drop_tail_0 in V2. exact V2.
      * split; [exact V5|]. split; [exact V6|]. split; [|exact V7].
        destruct (exists_last_seg (segs s) Hne) as [pre [sl Ess]].
        exists pre, (mkSeg (sfirst sl) (srecs sl ++ [RSnapIn false hi (r_snap r)])), (srecs sl), [].
        split; [rewrite Ess, app_tail_snoc; reflexivity|]. split; reflexivity.
    + split; [right; split; reflexivity | exact (proj2 v_latest)].
    + intros f Hin Hn. destruct (v_files f Hin Hn) as [X|[X _]]; [left; exact X | right; split; [exact X | reflexivity]].
    + intros u Hu. apply in_app_or in Hu. destruct Hu as [Hu|[<-|[]]]; [exact (v_unval u Hu) | right; right; split; [exact V0 | reflexivity]].
Qed.

(* ---------- after the save: the record is valid, raftDone, raftStorage.ApplySnapshot, Release ---------- *)


(* raftDone after a Save that cut the segment: the record is valid already *)
Lemma applysnap_before_cut : forall c s r cidx hi,
  PInv s hi -> VInv c s hi -> rc s = RcRunning -> rdp s = RdSnapCut r 2 cidx ->
  forallb (fun b => b_snap b =? 0) (queue s) = true ->
  Inv c (set_rdp (set_rd_done (set_unsynced (set_unflushed s 0) 0) (r_snap r)) (RdSnapApply r 0)).
Proof.
  intros c s r cidx hi HP HV R E Gq.
  pose proof (v_rd _ _ _ HV) as V. unfold rd_inv in V. rewrite E in V.
  destruct V as [V0 [V1 [V2 [V3 [V4 [V5 [V6 [V7 _]]]]]]]].
  assert (Hp : pend_idx s = r_snap r) by (unfold pend_idx, pend_r; rewrite E; reflexivity).
  assert (Hw : in_window s = 0%nat) by (unfold in_window; rewrite E; reflexivity).
  exists hi. split; [apply (pinv_flush s); auto|].
  unfold running. proj. rewrite R.
  match goal with |- VInv c ?st _ => set (s1 := st) end.
  assert (Hp' : pend_idx s1 = 0) by reflexivity.
  assert (Hw' : in_window s1 = 0%nat) by reflexivity.
  destruct HV; constructor; unfold snap_pend, snap_done, snap_mid, snap_busy in *; rewrite ?Hp', ?Hw'; rewrite ?Hp, ?Hw in *;
    unfold s1; proj; fold s1; try assumption; try exact I.
  - unfold rd_inv, s1. proj. repeat split; auto; lia.
  - lia.
  - destruct v_latest as [[L1|[L1 _]] L2]; [split; [left; exact L1 | exact L2] | discriminate].
  - pose proof (p_commit _ _ HP 0%nat ltac:(lia)) as Hc. rewrite drop_tail_0 in Hc. lia.
  - rewrite forallb_forall in Gq. rewrite Forall_forall in *. intros b Hin. destruct (v_queue b Hin) as [B1 B2].
    split; [exact B1|]. intros Hb. exfalso. specialize (Gq b Hin). apply N.eqb_eq in Gq. lia.
  - rewrite V6 in *. destruct v_app as [A1 [A2 A3]]. split; [lia|]. split; [exact A2|]. right. left. lia.
  - intros j p Hl. destruct (v_sns j p Hl) as [S1 [S2 [S3 [S4 [S5 [S6 S7]]]]]].
    rewrite V6 in v_app. destruct v_app as [A1 [A2 A3]]. destruct v_snapi as [I1 I2]. repeat split; auto. lia.
  - intros f Hin Hn. destruct (v_files f Hin Hn) as [X|[X X']]; [left; exact X | discriminate].
  - intros u Hu. destruct (v_unval u Hu) as [X|[X|X]]; [left; exact X | right; left; exact X | left; lia].
Qed.

Lemma step_rd_applysnap_before : forall c s s' i, Inv c s -> step c s (EvRdApplySnapBefore i) = Ok s' -> Inv c s'.
Proof.
  intros c s s' i [hi [HP HV]] H. unfold step in H.
  destruct (rdp s) as [|r sv pb|r pb apd|r pb idx|r|r fl|r|r k|r k cidx] eqn:E; try discriminate.
  2:{ destruct k as [|[|[|k]]]; try discriminate.
      destruct (negb (i =? r_snap r)) eqn:G; [discriminate|]. norm_guards. apply N.eqb_eq in G. subst i.
      destruct (negb (match app s with ApSnapPrepared j => j =? r_snap r | _ => false end)); [discriminate|].
      destruct (negb (forallb (fun b => b_snap b =? 0) (queue s))) eqn:Gq; [discriminate|]. norm_guards. injection H as <-.
      unfold running in *. proj. destruct (rc s) eqn:R; try (destruct HV as [_ [Hk _]]; congruence).
      eapply applysnap_before_cut; eauto. }
  destruct sv; [|discriminate]. destruct pb; [|discriminate].
  destruct (negb (0 <? r_snap r)) eqn:Q; [discriminate|]. norm_guards.
  destruct (negb (i =? r_snap r)) eqn:G; [discriminate|]. norm_guards. apply N.eqb_eq in G. subst i.
  destruct (app s) eqn:Ea; try discriminate. cbn [negb] in H.
  destruct (negb (i =? r_snap r)) eqn:G2; [discriminate|]. norm_guards. apply N.eqb_eq in G2. subst i.
  destruct (negb (forallb (fun b => b_snap b =? 0) (queue s))) eqn:Gq; [discriminate|]. norm_guards. injection H as <-.
  unfold running in *. proj. destruct (rc s) eqn:R; try (destruct HV as [_ [Hk _]]; congruence).
  pose proof (v_rd _ _ _ HV) as V. unfold rd_inv in V. rewrite E, Q in V.
  destruct V as [_ [V1 [V2 [[W1 [W2 [W3 W4]]] [V4 V5]]]]].
  assert (Q0 : 0 < r_snap r) by (apply N.ltb_lt; exact Q).
  assert (Hp : pend_idx s = r_snap r) by (unfold pend_idx, pend_r, pending; rewrite E, ?Q; reflexivity).
  assert (Hw : in_window s = 1%nat) by (unfold in_window; rewrite E, ?Q; reflexivity).
  unfold snapfacts in V1. destruct V1 as [F1 [F2 [F3 [F4 [F5 [F6 F7]]]]]].
  match goal with |- Inv c ?st => set (s1 := st) end.
  destruct (pinv_validate s s1 hi (r_snap r) HP W3 F6 F7) as [HP' [Hnw [Hlc [Hun [Hpm Hsf]]]]]; try reflexivity; auto; try lia.
  pose proof (pinv_newest_le_hi _ _ HP) as Hnh.
  exists (r_snap r). split; [exact HP'|].
  unfold running. unfold s1 at 1. proj. rewrite R.
  assert (Hp' : pend_idx s1 = 0) by reflexivity.
  assert (Hw' : in_window s1 = 0%nat) by reflexivity.
  assert (Hlen : length (segs s1) = length (segs s)) by (rewrite <- (map_length sfirst), Hsf, map_length; reflexivity).
  destruct HV; constructor; unfold snap_pend, snap_done, snap_mid, snap_busy in *; rewrite ?Hp', ?Hw', ?Hnw, ?Hlc, ?Hlen; rewrite ?Hp, ?Hw in *;
    unfold s1; proj; fold s1; try assumption; try exact I.
  - unfold rd_inv. rewrite Hnw. unfold s1. proj. repeat split; auto; lia.
  - lia.
  - destruct v_nrel as [N1 N2]. split; [exact N1|].
    change (validated (r_snap r) (segs s)) with (segs s1). rewrite (nth_map_sfirst _ _ _ Hsf). lia.
  - destruct v_latest as [[L1|[_ L1]] L2]; (split; [left; lia | intros lat Hl; specialize (L2 lat Hl); lia]).
  - lia.
  - rewrite forallb_forall in Gq. rewrite Forall_forall in *. intros b Hin. destruct (v_queue b Hin) as [B1 B2].
    split; [destruct B1 as [B1|B1]; [left; exact B1 | right; lia]|].
    intros Hb. exfalso. specialize (Gq b Hin). apply N.eqb_eq in Gq. lia.
  - rewrite Ea in *. destruct v_app as [A1 [A2 A3]]. split; [lia|]. split; [exact A2|]. right. lia.
  - rewrite Ea. split; [tauto | right; exact I].
  - intros j p Hl. destruct (v_sns j p Hl) as [S1 [S2 [S3 [S4 [S5 [S6 S7]]]]]].
    rewrite Ea in v_app. destruct v_app as [A1 [A2 A3]]. destruct v_snapi as [I1 I2].
    change (validated (r_snap r) (segs s)) with (segs s1).
    split; [exact S1|]. split; [lia|]. split; [exact S3|]. split; [|split; [|split]]; try (intros; lia).
    intros Hb Hin. apply Hpm in Hin. destruct Hin as [->|Hin]; [lia | exact (S4 Hb Hin)].
  - intros f Hin Hn. destruct (v_files f Hin ltac:(lia)) as [X|[X _]]; [left; exact X | lia].
  - intros f Hf. specialize (v_pgsnap f Hf). lia.
  - intros u Hu. change (validated (r_snap r) (segs s)) with (segs s1) in Hu. apply Hun in Hu.
    destruct (v_unval u Hu) as [X|[X|X]]; [left; lia | right; left; exact X | left; lia].
  - destruct (ckp s) eqn:Ec; try exact I. destruct v_ck as [K1 [[K2 K2'] [K3 [K4 K5]]]].
    split; [exact K1|]. split; [split; lia|]. split; [exact K3|]. split; [exact K4 | exact K5].
Qed.

Lemma step_rd_applysnap_after : forall c s s' i, Inv c s -> step c s (EvRdApplySnapAfter i) = Ok s' -> Inv c s'.
Proof.
  intros c s s' i [hi [HP HV]] H. unfold step in H.
  destruct (rdp s) as [|r sv pb|r pb apd|r pb idx|r|r fl|r|r k|r k cidx] eqn:E; try discriminate.
  destruct k; [|discriminate]. destruct (i =? r_snap r); [|discriminate]. injection H as <-.
  exists hi. split; [pframe s|].
  unfold running in *. proj. destruct (rc s) eqn:R; try (destruct HV as [_ [Hk _]]; congruence).
  apply vinv_set_rdp; [exact HV | | pend_eq E | pend_eq E].
  pose proof (v_rd _ _ _ HV) as V. unfold rd_inv in *. proj. rewrite E in V. exact V.
Qed.

Lemma step_rd_release_after : forall c s s' i, Inv c s -> step c s (EvRdReleaseAfter i) = Ok s' -> Inv c s'.
Proof.
  intros c s s' i [hi [HP HV]] H. unfold step in H.
  destruct (rdp s) as [|r sv pb|r pb apd|r pb idx|r|r fl|r|r k|r k cidx] eqn:E; try discriminate.
  destruct k as [|[|k]]; try discriminate. destruct (i =? r_snap r) eqn:G; [|discriminate]. apply N.eqb_eq in G. subst i. injection H as <-.
  exists hi. split; [pframe s|].
  unfold running in *. proj. destruct (rc s) eqn:R; try (destruct HV as [_ [Hk _]]; congruence).
  pose proof (v_rd _ _ _ HV) as V. unfold rd_inv in V. rewrite E in V. destruct V as [V0 [V1 [V2 [V3 V4]]]].
  assert (HV' : VInv c (set_nrel s (release_to (segs s) (nrel s) (r_snap r))) hi).
  { pose proof (v_nrel _ _ _ HV) as [N1 N2].
    destruct (release_to_spec (segs s) (nrel s) (r_snap r) N1) as [A [B|B]].
    - rewrite B. vinv_split HV.
    - vinv_split HV; [split; lia | destruct v_pgwal as [Pw Pr]; split; [intros Hw; specialize (Pw Hw); lia | exact Pr]]. }
  apply (vinv_set_rdp c _ hi _ HV'); [ | pend_eq E | pend_eq E].
  unfold rd_inv. proj. repeat split; auto.
Qed.
